(* Fuel lemmas for Model/Core.v: a terminal result (a value or an exception) is never
   changed by more fuel.  Shared by the properties that live on the core model. *)
From Coq Require Import List Arith Bool Lia PeanoNat.
Import ListNotations.
Require Import TL.Model.Core.

Definition done {A} (r : res A) : bool := match r with Ok _ | Raise _ => true | _ => false end.

Lemma bind_done {A B} (r : res A) (f : A -> res B) :
  done (bind r f) = true -> (exists a, r = Ok a /\ done (f a) = true) \/ (exists e, r = Raise e).
Proof. destruct r as [a|e| |]; cbn [bind done]; intros H; try discriminate H.
  - left. exists a. split; [reflexivity|exact H]. - right. exists e. reflexivity. Qed.

Lemma mapM_mono {A B} (f g : A -> res B) l :
  (forall x, In x l -> done (f x) = true -> g x = f x) ->
  done (mapM f l) = true -> mapM g l = mapM f l.
Proof. induction l as [|x r IH]; intros Hfg Hd; [reflexivity|]. cbn [mapM] in *.
  destruct (f x) as [y|e| |] eqn:Ex; cbn [bind done] in Hd; try discriminate Hd.
  - rewrite (Hfg x (or_introl eq_refl)) by (rewrite Ex; reflexivity). rewrite Ex. cbn [bind].
    destruct (mapM f r) as [t|e'| |] eqn:Er; cbn [bind done] in Hd; try discriminate Hd.
    + rewrite IH; [reflexivity|intros z Hz; apply Hfg; right; exact Hz|reflexivity].
    + rewrite IH; [reflexivity|intros z Hz; apply Hfg; right; exact Hz|reflexivity].
  - rewrite (Hfg x (or_introl eq_refl)) by (rewrite Ex; reflexivity). rewrite Ex. reflexivity. Qed.

(* hash-as-produced member conversions: done-ness transfers *)
Lemma hashing_mono (rt : runtime) {A B} (key : B -> pv) (f g : A -> res B) x :
  (done (f x) = true -> g x = f x) -> done (hashing rt key f x) = true -> hashing rt key g x = hashing rt key f x.
Proof. unfold hashing. intros H Hd. destruct (bind_done _ _ Hd) as [[a [Ha _]]|[e He]].
  - rewrite H by (rewrite Ha; reflexivity). reflexivity.
  - rewrite H by (rewrite He; reflexivity). reflexivity. Qed.

Lemma elem_conv_mono (rt : runtime) k (f g : pv -> res pv) x :
  (done (f x) = true -> g x = f x) -> done (elem_conv rt k f x) = true -> elem_conv rt k g x = elem_conv rt k f x.
Proof. unfold elem_conv. destruct (hashes k); [apply hashing_mono|intros H; exact H]. Qed.

(* the keyword-argument fold of the structured routines *)
Definition foldM {A K} (step : A -> K -> res A) (l : list K) (acc : res A) : res A :=
  fold_left (fun acc kv => bind acc (fun a => step a kv)) l acc.

Lemma foldM_stuck {A K} (step : A -> K -> res A) l (acc : res A) :
  (forall a, acc <> Ok a) -> foldM step l acc = acc.
Proof. revert acc; induction l as [|k r IH]; intros acc H; cbn [foldM fold_left]; [reflexivity|].
  destruct acc as [a|e| |]; cbn [bind]; try (apply IH; intros a' Ha'; discriminate Ha').
  exfalso. exact (H a eq_refl). Qed.

Lemma foldM_cons {A K} (step : A -> K -> res A) k r acc :
  foldM step (k :: r) acc = foldM step r (bind acc (fun a => step a k)).
Proof. reflexivity. Qed.

Lemma foldM_mono {A K} (step step' : A -> K -> res A) l : forall acc,
  (forall a k, In k l -> done (step a k) = true -> step' a k = step a k) ->
  done (foldM step l acc) = true -> foldM step' l acc = foldM step l acc.
Proof. induction l as [|k r IH]; intros acc Hs Hd; [reflexivity|]. rewrite !foldM_cons in *.
  destruct acc as [a|e| |]; cbn [bind] in *;
    try (rewrite !foldM_stuck by (intros a0 Ha0; discriminate Ha0); reflexivity).
  destruct (step a k) as [a'|e| |] eqn:Es.
  - rewrite (Hs a k (or_introl eq_refl)) by (rewrite Es; reflexivity). rewrite Es.
    apply IH; [intros a0 k0 Hk0; apply Hs; right; exact Hk0|exact Hd].
  - rewrite (Hs a k (or_introl eq_refl)) by (rewrite Es; reflexivity). rewrite Es.
    rewrite !foldM_stuck by (intros a0 Ha0; discriminate Ha0). reflexivity.
  - rewrite foldM_stuck in Hd by (intros a0 Ha0; discriminate Ha0). discriminate Hd.
  - rewrite foldM_stuck in Hd by (intros a0 Ha0; discriminate Ha0). discriminate Hd. Qed.

Section Mono.
Variable rt : runtime.
Variable E : env.

Lemma first_ok_mono (fs gs : list (pv -> res pv)) x :
  Forall2 (fun f g => done (f x) = true -> g x = f x) fs gs ->
  done (first_ok rt fs x) = true -> first_ok rt gs x = first_ok rt fs x.
Proof. intros HF. induction HF as [|f g fs gs Hfg HF IH]; intros Hd; [reflexivity|]. cbn [first_ok] in *.
  destruct (f x) as [y|e| |] eqn:Ef; cbn [done] in Hd; try discriminate Hd.
  - rewrite Hfg by reflexivity. reflexivity.
  - rewrite Hfg by reflexivity. destruct (suppressed rt e); [apply IH; exact Hd|reflexivity]. Qed.

Lemma Forall2_map_same {A B} (P : B -> B -> Prop) (f g : A -> B) l :
  (forall a, In a l -> P (f a) (g a)) -> Forall2 P (map f l) (map g l).
Proof. induction l as [|a r IH]; intros H; cbn [map]; constructor; [apply H; left; reflexivity|].
  apply IH. intros a' Ha'. apply H. right. exact Ha'. Qed.

(* the struct step of unm / mar as a foldM *)
Definition ustep (conv : ty -> pv -> res pv) (cd : classdef) (kw : list (nat * pv)) (kv : pv * pv) : res (list (nat * pv)) :=
  match fst kv with
  | PKey f => match field_ty cd f with
              | Some ft => bind (conv ft (snd kv)) (fun v' => Ok (kw_set f v' kw))
              | None => Ok kw end
  | k => if unhashable rt k then Raise EType else Ok kw
  end.

Lemma ustep_mono (c1 c2 : ty -> pv -> res pv) cd kw kv :
  (forall t v, done (c1 t v) = true -> c2 t v = c1 t v) ->
  done (ustep c1 cd kw kv) = true -> ustep c2 cd kw kv = ustep c1 cd kw kv.
Proof. intros Hc. unfold ustep. destruct (fst kv); try reflexivity.
  destruct (field_ty cd f) as [ft|]; [|reflexivity].
  intros Hd. destruct (bind_done _ _ Hd) as [[a [Ha _]]|[e He]].
  - rewrite Hc by (rewrite Ha; reflexivity). reflexivity.
  - rewrite Hc by (rewrite He; reflexivity). reflexivity. Qed.

(* one-step equations of unm, with the recursive calls kept folded *)
Definition seq_body (conv : ty -> pv -> res pv) k a x :=
  bind (load rt x) (fun d => bind (itervalues rt d) (fun vs =>
  bind (mapM (elem_conv rt k (conv a)) vs) (fun rs => construct_seq rt k rs))).
Definition map_body (conv : ty -> pv -> res pv) k kt vt x :=
  bind (load rt x) (fun d => bind (iteritems rt E d) (fun kvs =>
  bind (mapM (hashing rt fst (fun kv => bind (conv kt (fst kv)) (fun k' => bind (conv vt (snd kv)) (fun v' => Ok (k', v'))))) kvs)
       (fun rs => construct_map rt k rs))).
Definition tuple_body (conv : ty -> pv -> res pv) ts x :=
  bind (load rt x) (fun d => bind (itervalues rt d) (fun vs =>
  if Nat.ltb (length vs) (length ts) then Raise EValue else
  bind (mapM (fun tv => conv (fst tv) (snd tv)) (zip_trunc ts vs)) (fun rs => Ok (PSeq KTuple rs)))).
Definition named_body (conv : ty -> pv -> res pv) c x :=
  match E c with
  | None => Raise EOther
  | Some (NType t') => conv t' x
  | Some (NClass cd) =>
      bind (load rt x) (fun d => bind (iteritems rt E d) (fun kvs =>
      bind (foldM (ustep conv cd) kvs (Ok [])) (fun kw => construct_class c cd kw)))
  end.

Lemma unm_S n t x : unm rt E (S n) t x =
  match t with
  | TLeaf s | TRefLeaf s => leaf_u rt s x
  | TNone => none_u rt x
  | TSeq k a => seq_body (unm rt E n) k a x
  | TMap k kt vt => map_body (unm rt E n) k kt vt x
  | TTuple ts => tuple_body (unm rt E n) ts x
  | TUnion ts => first_ok rt (map (unm rt E n) (union_stack_u ts)) x
  | TName c | TRef c | TAliasStr _ c => named_body (unm rt E n) c x
  | TNewType _ t' | TAlias _ t' | TFinal t' | TClassVar t' | TRefTo t' => unm rt E n t' x
  end.
Proof. destruct t; reflexivity. Qed.

Lemma seq_body_mono (c1 c2 : ty -> pv -> res pv) k a x :
  (forall t v, done (c1 t v) = true -> c2 t v = c1 t v) ->
  done (seq_body c1 k a x) = true -> seq_body c2 k a x = seq_body c1 k a x.
Proof. intros Hc. unfold seq_body.
  destruct (load rt x) as [d|e| |]; cbn [bind done]; try reflexivity.
  destruct (itervalues rt d) as [vs|e| |]; cbn [bind done]; try reflexivity. intros Hd.
  rewrite (mapM_mono (elem_conv rt k (c1 a)) (elem_conv rt k (c2 a)));
    [reflexivity|intros y _ Hy; apply elem_conv_mono; [apply Hc|exact Hy]|].
  destruct (bind_done _ _ Hd) as [[rs [Hrs _]]|[e He]]; [rewrite Hrs|rewrite He]; reflexivity. Qed.

Lemma map_body_mono (c1 c2 : ty -> pv -> res pv) k kt vt x :
  (forall t v, done (c1 t v) = true -> c2 t v = c1 t v) ->
  done (map_body c1 k kt vt x) = true -> map_body c2 k kt vt x = map_body c1 k kt vt x.
Proof. intros Hc. unfold map_body.
  destruct (load rt x) as [d|e| |]; cbn [bind done]; try reflexivity.
  destruct (iteritems rt E d) as [kvs|e| |]; cbn [bind done]; try reflexivity. intros Hd.
  rewrite (mapM_mono (hashing rt fst (fun kv => bind (c1 kt (fst kv)) (fun k' => bind (c1 vt (snd kv)) (fun v' => Ok (k', v')))))
                     (hashing rt fst (fun kv => bind (c2 kt (fst kv)) (fun k' => bind (c2 vt (snd kv)) (fun v' => Ok (k', v')))))).
  - reflexivity.
  - intros kv _. apply hashing_mono. intros Hkv. cbv beta in *. destruct (bind_done _ _ Hkv) as [[k' [Hk Hk2]]|[e He]].
    + rewrite (Hc kt (fst kv)) by (rewrite Hk; reflexivity). rewrite Hk. cbn [bind].
      destruct (bind_done _ _ Hk2) as [[v' [Hv _]]|[e He]].
      * rewrite (Hc vt (snd kv)) by (rewrite Hv; reflexivity). reflexivity.
      * rewrite (Hc vt (snd kv)) by (rewrite He; reflexivity). rewrite He. reflexivity.
    + rewrite (Hc kt (fst kv)) by (rewrite He; reflexivity). rewrite He. reflexivity.
  - destruct (bind_done _ _ Hd) as [[rs [Hrs _]]|[e He]]; [rewrite Hrs|rewrite He]; reflexivity. Qed.

Lemma tuple_body_mono (c1 c2 : ty -> pv -> res pv) ts x :
  (forall t v, done (c1 t v) = true -> c2 t v = c1 t v) ->
  done (tuple_body c1 ts x) = true -> tuple_body c2 ts x = tuple_body c1 ts x.
Proof. intros Hc. unfold tuple_body.
  destruct (load rt x) as [d|e| |]; cbn [bind done]; try reflexivity.
  destruct (itervalues rt d) as [vs|e| |]; cbn [bind done]; try reflexivity.
  destruct (Nat.ltb (length vs) (length ts)); [reflexivity|]. intros Hd.
  rewrite (mapM_mono (fun tv => c1 (fst tv) (snd tv)) (fun tv => c2 (fst tv) (snd tv)));
    [reflexivity|intros tv _ Htv; apply Hc; exact Htv|].
  destruct (bind_done _ _ Hd) as [[rs [Hrs _]]|[e He]]; [rewrite Hrs|rewrite He]; reflexivity. Qed.

Lemma named_body_mono (c1 c2 : ty -> pv -> res pv) c x :
  (forall t v, done (c1 t v) = true -> c2 t v = c1 t v) ->
  done (named_body c1 c x) = true -> named_body c2 c x = named_body c1 c x.
Proof. intros Hc. unfold named_body. destruct (E c) as [[cd|t']|]; [|apply Hc|reflexivity].
  destruct (load rt x) as [d|e| |]; cbn [bind done]; try reflexivity.
  destruct (iteritems rt E d) as [kvs|e| |]; cbn [bind done]; try reflexivity. intros Hd.
  rewrite (foldM_mono (ustep c1 cd) (ustep c2 cd)); [reflexivity| |].
  - intros a k _ Hk. apply ustep_mono; [exact Hc|exact Hk].
  - destruct (bind_done _ _ Hd) as [[kw [Hk _]]|[e He]]; [rewrite Hk|rewrite He]; reflexivity. Qed.

Theorem unm_mono : forall n t x, done (unm rt E n t x) = true -> unm rt E (S n) t x = unm rt E n t x.
Proof.
  induction n as [|n IH]; intros t x Hd; [discriminate Hd|].
  rewrite (unm_S (S n)). rewrite (unm_S n) in Hd |- *.
  destruct t; try reflexivity.
  - apply seq_body_mono; [exact IH|exact Hd].
  - apply map_body_mono; [exact IH|exact Hd].
  - apply tuple_body_mono; [exact IH|exact Hd].
  - apply first_ok_mono; [|exact Hd]. apply Forall2_map_same. intros a _ Ha. apply IH. exact Ha.
  - apply named_body_mono; [exact IH|exact Hd].
  - apply named_body_mono; [exact IH|exact Hd].
  - apply IH; exact Hd.
  - apply IH; exact Hd.
  - apply IH; exact Hd.
  - apply named_body_mono; [exact IH|exact Hd].
  - apply IH; exact Hd.
  - apply IH; exact Hd.
Qed.

Corollary unm_mono_le n m t x : n <= m -> done (unm rt E n t x) = true -> unm rt E m t x = unm rt E n t x.
Proof. intros Hle Hd. induction Hle as [|m Hle IH]; [reflexivity|].
  rewrite unm_mono; [exact IH|rewrite IH; exact Hd]. Qed.

(* ---- marshal side ---- *)
Definition mseq_body (conv : ty -> pv -> res pv) a x :=
  bind (itervalues rt x) (fun vs => bind (mapM (conv a) vs) (fun rs => Ok (PSeq KList rs))).
Definition mmap_body (conv : ty -> pv -> res pv) kt vt x :=
  bind (iteritems rt E x) (fun kvs =>
  bind (mapM (hashing rt fst (fun kv => bind (conv kt (fst kv)) (fun k' => bind (conv vt (snd kv)) (fun v' => Ok (k', v'))))) kvs)
       (fun rs => construct_map rt KDict rs)).
Definition mtuple_body (conv : ty -> pv -> res pv) ts x :=
  bind (itervalues rt x) (fun vs =>
  bind (mapM (fun tv => conv (fst tv) (snd tv)) (zip_trunc ts vs)) (fun rs => Ok (PSeq KList rs))).
Definition mnamed_body (conv : ty -> pv -> res pv) c x :=
  match E c with
  | None => Raise EOther
  | Some (NType t') => conv t' x
  | Some (NClass cd) =>
      bind (iteritems rt E x) (fun kvs =>
      bind (foldM (ustep conv cd) kvs (Ok []))
           (fun kw => Ok (PDict KDict (map (fun fv => (PKey (fst fv), snd fv)) kw))))
  end.

Lemma mar_S n t x : mar rt E (S n) t x =
  match t with
  | TLeaf s | TRefLeaf s => leaf_m rt s x
  | TNone => if is_none_val rt x then Ok x else Raise EValue
  | TSeq k a => mseq_body (mar rt E n) a x
  | TMap k kt vt => mmap_body (mar rt E n) kt vt x
  | TTuple ts => mtuple_body (mar rt E n) ts x
  | TUnion ts => if isoptional ts && is_none_val rt x then Ok x else first_ok rt (map (mar rt E n) ts) x
  | TName c | TRef c | TAliasStr _ c => mnamed_body (mar rt E n) c x
  | TNewType _ t' | TAlias _ t' | TFinal t' | TClassVar t' | TRefTo t' => mar rt E n t' x
  end.
Proof. destruct t; reflexivity. Qed.

Lemma pair_conv_mono (c1 c2 : ty -> pv -> res pv) kt vt (kv : pv * pv) :
  (forall t v, done (c1 t v) = true -> c2 t v = c1 t v) ->
  done (bind (c1 kt (fst kv)) (fun k' => bind (c1 vt (snd kv)) (fun v' => Ok (k', v')))) = true ->
  bind (c2 kt (fst kv)) (fun k' => bind (c2 vt (snd kv)) (fun v' => Ok (k', v'))) =
  bind (c1 kt (fst kv)) (fun k' => bind (c1 vt (snd kv)) (fun v' => Ok (k', v'))).
Proof. intros Hc Hkv. destruct (bind_done _ _ Hkv) as [[k' [Hk Hk2]]|[e He]].
  - rewrite (Hc kt (fst kv)) by (rewrite Hk; reflexivity). rewrite Hk. cbn [bind].
    destruct (bind_done _ _ Hk2) as [[v' [Hv _]]|[e He]].
    + rewrite (Hc vt (snd kv)) by (rewrite Hv; reflexivity). reflexivity.
    + rewrite (Hc vt (snd kv)) by (rewrite He; reflexivity). rewrite He. reflexivity.
  - rewrite (Hc kt (fst kv)) by (rewrite He; reflexivity). rewrite He. reflexivity. Qed.

Lemma mseq_body_mono (c1 c2 : ty -> pv -> res pv) a x :
  (forall t v, done (c1 t v) = true -> c2 t v = c1 t v) ->
  done (mseq_body c1 a x) = true -> mseq_body c2 a x = mseq_body c1 a x.
Proof. intros Hc. unfold mseq_body.
  destruct (itervalues rt x) as [vs|e| |]; cbn [bind done]; try reflexivity. intros Hd.
  rewrite (mapM_mono (c1 a) (c2 a)); [reflexivity|intros y _ Hy; apply Hc; exact Hy|].
  destruct (bind_done _ _ Hd) as [[rs [Hrs _]]|[e He]]; [rewrite Hrs|rewrite He]; reflexivity. Qed.

Lemma mmap_body_mono (c1 c2 : ty -> pv -> res pv) kt vt x :
  (forall t v, done (c1 t v) = true -> c2 t v = c1 t v) ->
  done (mmap_body c1 kt vt x) = true -> mmap_body c2 kt vt x = mmap_body c1 kt vt x.
Proof. intros Hc. unfold mmap_body.
  destruct (iteritems rt E x) as [kvs|e| |]; cbn [bind done]; try reflexivity. intros Hd.
  rewrite (mapM_mono (hashing rt fst (fun kv => bind (c1 kt (fst kv)) (fun k' => bind (c1 vt (snd kv)) (fun v' => Ok (k', v')))))
                     (hashing rt fst (fun kv => bind (c2 kt (fst kv)) (fun k' => bind (c2 vt (snd kv)) (fun v' => Ok (k', v')))))).
  - reflexivity.
  - intros kv _. apply hashing_mono. intros Hkv. apply pair_conv_mono; [exact Hc|exact Hkv].
  - destruct (bind_done _ _ Hd) as [[rs [Hrs _]]|[e He]]; [rewrite Hrs|rewrite He]; reflexivity. Qed.

Lemma mtuple_body_mono (c1 c2 : ty -> pv -> res pv) ts x :
  (forall t v, done (c1 t v) = true -> c2 t v = c1 t v) ->
  done (mtuple_body c1 ts x) = true -> mtuple_body c2 ts x = mtuple_body c1 ts x.
Proof. intros Hc. unfold mtuple_body.
  destruct (itervalues rt x) as [vs|e| |]; cbn [bind done]; try reflexivity. intros Hd.
  rewrite (mapM_mono (fun tv => c1 (fst tv) (snd tv)) (fun tv => c2 (fst tv) (snd tv)));
    [reflexivity|intros tv _ Htv; apply Hc; exact Htv|].
  destruct (bind_done _ _ Hd) as [[rs [Hrs _]]|[e He]]; [rewrite Hrs|rewrite He]; reflexivity. Qed.

Lemma mnamed_body_mono (c1 c2 : ty -> pv -> res pv) c x :
  (forall t v, done (c1 t v) = true -> c2 t v = c1 t v) ->
  done (mnamed_body c1 c x) = true -> mnamed_body c2 c x = mnamed_body c1 c x.
Proof. intros Hc. unfold mnamed_body. destruct (E c) as [[cd|t']|]; [|apply Hc|reflexivity].
  destruct (iteritems rt E x) as [kvs|e| |]; cbn [bind done]; try reflexivity. intros Hd.
  rewrite (foldM_mono (ustep c1 cd) (ustep c2 cd)); [reflexivity| |].
  - intros a k _ Hk. apply ustep_mono; [exact Hc|exact Hk].
  - destruct (bind_done _ _ Hd) as [[kw [Hk _]]|[e He]]; [rewrite Hk|rewrite He]; reflexivity. Qed.

Theorem mar_mono : forall n t x, done (mar rt E n t x) = true -> mar rt E (S n) t x = mar rt E n t x.
Proof.
  induction n as [|n IH]; intros t x Hd; [discriminate Hd|].
  rewrite (mar_S (S n)). rewrite (mar_S n) in Hd |- *.
  destruct t; try reflexivity.
  - apply mseq_body_mono; [exact IH|exact Hd].
  - apply mmap_body_mono; [exact IH|exact Hd].
  - apply mtuple_body_mono; [exact IH|exact Hd].
  - destruct (isoptional ts && is_none_val rt x); [reflexivity|].
    apply first_ok_mono; [|exact Hd]. apply Forall2_map_same. intros a _ Ha. apply IH. exact Ha.
  - apply mnamed_body_mono; [exact IH|exact Hd].
  - apply mnamed_body_mono; [exact IH|exact Hd].
  - apply IH; exact Hd.
  - apply IH; exact Hd.
  - apply IH; exact Hd.
  - apply mnamed_body_mono; [exact IH|exact Hd].
  - apply IH; exact Hd.
  - apply IH; exact Hd.
Qed.

Corollary mar_mono_le n m t x : n <= m -> done (mar rt E n t x) = true -> mar rt E m t x = mar rt E n t x.
Proof. intros Hle Hd. induction Hle as [|m Hle IH]; [reflexivity|].
  rewrite mar_mono; [exact IH|rewrite IH; exact Hd]. Qed.

End Mono.
