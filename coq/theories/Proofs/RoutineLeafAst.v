(* Proofs for Model/RoutineLeafAst.v (WP routine-ast, leaf classes). *)
From Coq Require Import List String Bool Arith ZArith NArith.
Import ListNotations.
Require Import TL.Model.Serdes TL.Model.RoutineLeafAst.
Local Open Scope string_scope.

Local Ltac split_andb :=
  repeat match goal with
         | H : _ && _ = true |- _ => apply andb_true_iff in H; destruct H
         end.

Lemma lexpr_eqb_sound : forall x y, lexpr_eqb x y = true -> x = y.
Proof.
  induction x; destruct y; simpl; intro H; try discriminate; split_andb;
    repeat match goal with
           | H : Nat.eqb _ _ = true |- _ => apply Nat.eqb_eq in H
           | H : String.eqb _ _ = true |- _ => apply String.eqb_eq in H
           | H : Bool.eqb _ _ = true |- _ => apply Bool.eqb_prop in H
           | IH : forall y, lexpr_eqb ?a y = true -> ?a = y, H : lexpr_eqb ?a _ = true |- _ => apply IH in H
           end; subst; reflexivity.
Qed.

Lemma lstmt_eqb_sound : forall x y, lstmt_eqb x y = true -> x = y.
Proof.
  induction x; destruct y; simpl; intro H; try discriminate; split_andb;
    repeat match goal with
           | H : Nat.eqb _ _ = true |- _ => apply Nat.eqb_eq in H
           | H : String.eqb _ _ = true |- _ => apply String.eqb_eq in H
           | H : lexpr_eqb _ _ = true |- _ => apply lexpr_eqb_sound in H
           | IH : forall y, lstmt_eqb ?a y = true -> ?a = y, H : lstmt_eqb ?a _ = true |- _ => apply IH in H
           end; subst; reflexivity.
Qed.

Lemma leaf_eqb_sound : forall a b, leaf_eqb a b = true -> a = b.
Proof.
  intros [b1 i1 c1] [b2 i2 c2]; unfold leaf_eqb; simpl; intro H; split_andb.
  apply String.eqb_eq in H. apply lstmt_eqb_sound in H1. apply lstmt_eqb_sound in H0. subst. reflexivity.
Qed.

Lemma table_eqb_sound : forall a b, table_eqb a b = true -> a = b.
Proof.
  induction a as [|[n x] r IH]; destruct b as [|[n' x'] r']; simpl; intro H; try discriminate; [reflexivity|].
  split_andb. apply String.eqb_eq in H. apply leaf_eqb_sound in H1. apply IH in H0. subst. reflexivity.
Qed.

Lemma aliases_eqb_sound : forall a b, aliases_eqb a b = true -> a = b.
Proof.
  induction a as [|[n x] r IH]; destruct b as [|[n' x'] r']; simpl; intro H; try discriminate; [reflexivity|].
  split_andb. apply String.eqb_eq in H. apply String.eqb_eq in H1. apply IH in H0. subst. reflexivity.
Qed.

Lemma agree_tables : forall exp al tb tal, leaves_agree exp al tb tal = true -> tb = exp /\ tal = al.
Proof.
  unfold leaves_agree; intros exp al tb tal H. apply andb_true_iff in H. destruct H as [H1 H2].
  split; [apply table_eqb_sound | apply aliases_eqb_sound]; assumption.
Qed.

(* an agreeing table's row IS the expected program *)
Lemma src_leaf_expected : forall tb tal k,
  leaves_agree expected_u expected_aliases_u tb tal = true -> src_leaf tb k = lexpected k.
Proof. intros tb tal k H. apply agree_tables in H. destruct H as [-> _]. destruct k; reflexivity. Qed.
Lemma msrc_leaf_expected : forall tb tal k,
  leaves_agree expected_m expected_aliases_m tb tal = true -> msrc_leaf tb k = mexpected k.
Proof. intros tb tal k H. apply agree_tables in H. destruct H as [-> _]. destruct k; reflexivity. Qed.

(* (a) the first step read off the expected program is the head Model/Serdes.v assigns *)
Lemma first_model : forall k vals, Some (first_of (texty k) (lexpected k)) = model_first (head_of k vals).
Proof. intros k vals. destruct k; vm_compute; reflexivity. Qed.

Lemma decode_first_iff : forall k vals,
  decode_first (head_of k vals) = first_eqb (first_of (texty k) (lexpected k)) FDecode.
Proof. intros k vals. destruct k; vm_compute; reflexivity. Qed.
Lemma load_first_iff : forall k vals,
  load_first (head_of k vals) = first_eqb (first_of (texty k) (lexpected k)) FLoad.
Proof. intros k vals. destruct k; vm_compute; reflexivity. Qed.

Lemma sup_of_enum : forall e, sup_of ["ValueError"; "TypeError"] e = enum_suppressed e.
Proof. destruct e; reflexivity. Qed.

(* entry_gen of Model/Serdes.v at a leaf head IS the interpretation of the first step of the expected program *)
Lemma entry_expected : forall rt rest whole sup fixd k vals v,
  lentry rt rest whole fixd (head_of k vals) (first_of (texty k) (lexpected k)) v
  = entry_gen rt rest whole sup fixd (head_of k vals) v.
Proof.
  intros rt rest whole sup fixd k vals v.
  destruct k;
    match goal with |- lentry _ _ _ _ _ ?f _ = _ =>
      let f' := eval vm_compute in f in change f with f' end;
    try reflexivity.
  (* Enum *)
  simpl. destruct v; try reflexivity.
  destruct (decode_text rt k p) as [s|e].
  - destruct (rest HEnum (PStr s)) as [x|e]; [reflexivity|]. destruct e; reflexivity.
  - destruct e; reflexivity.
Qed.

Lemma entry_src : forall tb tal, leaves_agree expected_u expected_aliases_u tb tal = true ->
  forall rt rest whole sup fixd k vals v,
  lentry rt rest whole fixd (head_of k vals) (first_of (texty k) (src_leaf tb k)) v
  = entry_gen rt rest whole sup fixd (head_of k vals) v.
Proof. intros tb tal H rt rest whole sup fixd k vals v. rewrite (src_leaf_expected tb tal k H). apply entry_expected. Qed.

Lemma first_src : forall tb tal, leaves_agree expected_u expected_aliases_u tb tal = true ->
  forall k vals, Some (first_of (texty k) (src_leaf tb k)) = model_first (head_of k vals).
Proof. intros tb tal H k vals. rewrite (src_leaf_expected tb tal k H). apply first_model. Qed.

(* (b) the per-kind descriptions *)
Lemma steps_unm : forall k, steps (lcall (lexpected k)) = described_u k.
Proof. destruct k; vm_compute; reflexivity. Qed.
Lemma steps_mar : forall k, steps (lcall (mexpected k)) = described_m k.
Proof. destruct k; vm_compute; reflexivity. Qed.
Lemma steps_src : forall tb tal, leaves_agree expected_u expected_aliases_u tb tal = true ->
  forall k, steps (lcall (src_leaf tb k)) = described_u k.
Proof. intros tb tal H k. rewrite (src_leaf_expected tb tal k H). apply steps_unm. Qed.
Lemma msteps_src : forall tb tal, leaves_agree expected_m expected_aliases_m tb tal = true ->
  forall k, steps (lcall (msrc_leaf tb k)) = described_m k.
Proof. intros tb tal H k. rewrite (msrc_leaf_expected tb tal k H). apply steps_mar. Qed.

(* the first serdes.decode / serdes.load of the description is the first step *)
Lemma first_of_steps : forall k,
  match first_of (texty k) (lexpected k) with
  | FDecode => first_serdes (described_u k) = Some "decode"
  | FLoad => first_serdes (described_u k) = Some "load"
  | FDecodeLoad _ | FLiteral => first_serdes (described_u k) = Some "decode"
  | FIdentity | FOpaque => first_serdes (described_u k) = None end.
Proof. destruct k; vm_compute; reflexivity. Qed.

(* only the NoOp marshaller hands its input back unchanged *)
Lemma mar_identity : forall k, is_identity (mexpected k) = match k with MNoOp => true | _ => false end.
Proof. destruct k; vm_compute; reflexivity. Qed.
Lemma mar_identity_src : forall tb tal, leaves_agree expected_m expected_aliases_m tb tal = true ->
  forall k, is_identity (msrc_leaf tb k) = match k with MNoOp => true | _ => false end.
Proof. intros tb tal H k. rewrite (msrc_leaf_expected tb tal k H). apply mar_identity. Qed.
