(* Proofs/DurationLemmas.v -- proof scripts for Model/Duration.v (C04). *)
From Coq Require Import List ZArith NArith Ascii String Bool Decimal DecimalN DecimalPos Lia ZifyBool.
Import ListNotations.
Require Import TL.Model.Duration.
Open Scope Z_scope.
Ltac Zify.zify_post_hook ::= Z.div_mod_to_equations.

(* ---------------------------------------------------------------- decimal layer *)
Lemma read_show u c rest : is_digit c = false -> read_uint (show_uint u ++ c :: rest) = (u, c :: rest).
Proof.
  intros Hc. induction u; try (cbn; rewrite IHu; reflexivity).
  unfold is_digit in Hc. simpl. destruct (digit_of c); [discriminate|reflexivity].
Qed.
Lemma read_show_end u : read_uint (show_uint u) = (u, []).
Proof. induction u; try (cbn; rewrite IHu; reflexivity). reflexivity. Qed.
Lemma to_uint_nonnil n : N.to_uint n <> Nil.
Proof.
  destruct n; cbn; [discriminate|]. unfold Pos.to_uint. intro H.
  pose proof (DecimalPos.Unsigned.to_uint_nonnil p) as Hp. unfold Pos.to_uint in *. contradiction.
Qed.
Lemma read_show_N n c rest : is_digit c = false -> read_N (show_N n ++ c :: rest) = Some (n, c :: rest).
Proof.
  intros Hc. unfold read_N, show_N. rewrite (read_show _ c rest Hc).
  destruct (N.to_uint n) eqn:E; try (rewrite <- E, DecimalN.Unsigned.of_to; reflexivity).
  exfalso; exact (to_uint_nonnil n E).
Qed.
Lemma read_show_N_end n : read_N (show_N n) = Some (n, []).
Proof.
  unfold read_N, show_N. rewrite read_show_end.
  destruct (N.to_uint n) eqn:E; try (rewrite <- E, DecimalN.Unsigned.of_to; reflexivity).
  exfalso; exact (to_uint_nonnil n E).
Qed.
Lemma show_uint_digits u : Forall (fun c => is_digit c = true) (show_uint u).
Proof. induction u; cbn [show_uint]; constructor; try assumption; reflexivity. Qed.
Lemma show_uint_nonnil u : u <> Nil -> show_uint u <> [].
Proof. destruct u; cbn; intros H; try discriminate. contradiction. Qed.
Lemma show_N_nonnil n : show_N n <> [].
Proof. apply show_uint_nonnil, to_uint_nonnil. Qed.
Lemma show_N_digits n : Forall (fun c => is_digit c = true) (show_N n).
Proof. apply show_uint_digits. Qed.
Lemma show_Z_nonneg p : 0 <= p -> show_Z p = show_N (Z.to_N p).
Proof. intros Hp. unfold show_Z. destruct (p <? 0) eqn:E; [lia|reflexivity]. Qed.
Lemma read_N_nondigit c r : is_digit c = false -> read_N (c :: r) = None.
Proof. intros Hc. unfold read_N, is_digit in *. cbn [read_uint]. destruct (digit_of c); [discriminate|reflexivity]. Qed.

(* ---------------------------------------------------------------- components *)
Lemma read_comp_hit d n rest : is_digit d = false -> read_comp d (show_N n ++ d :: rest) = (Some n, rest).
Proof. intros Hd. unfold read_comp. rewrite (read_show_N n d rest Hd), Ascii.eqb_refl. reflexivity. Qed.
Lemma read_comp_miss d d' n rest : is_digit d' = false -> d' <> d ->
  read_comp d (show_N n ++ d' :: rest) = (None, show_N n ++ d' :: rest).
Proof.
  intros Hd Hne. unfold read_comp. rewrite (read_show_N n d' rest Hd).
  destruct (Ascii.eqb d' d) eqn:E; [apply Ascii.eqb_eq in E; contradiction|reflexivity].
Qed.
Lemma read_comp_nil d : read_comp d [] = (None, []).
Proof. reflexivity. Qed.
Lemma read_comp_nondigit d c r : is_digit c = false -> read_comp d (c :: r) = (None, c :: r).
Proof. intros Hc. unfold read_comp. rewrite (read_N_nondigit c r Hc). reflexivity. Qed.

(* what may follow an absent component *)
Definition other (d : ascii) (s : chars) : Prop :=
  s = [] \/ (exists c r, s = c :: r /\ is_digit c = false) \/
  (exists n d' r, s = show_N n ++ d' :: r /\ is_digit d' = false /\ d' <> d).
Lemma read_comp_other d s : other d s -> read_comp d s = (None, s).
Proof.
  intros [H|[(c & r & H & Hc)|(n & d' & r & H & Hd & Hne)]]; subst.
  - reflexivity.
  - apply read_comp_nondigit; assumption.
  - apply read_comp_miss; assumption.
Qed.

Definition optZ (p : Z) : option N := if p =? 0 then None else Some (Z.to_N p).
Lemma oN_optZ p : 0 <= p -> oN (optZ p) = p.
Proof. intros Hp. unfold optZ. destruct (p =? 0) eqn:E; cbn [oN]; lia. Qed.
Lemma is_some_optZ p : is_some (optZ p) = negb (p =? 0).
Proof. unfold optZ. destruct (p =? 0); reflexivity. Qed.

Lemma read_comp_piece d p rest : 0 <= p -> is_digit d = false -> other d rest ->
  read_comp d (piece p d ++ rest) = (optZ p, rest).
Proof.
  intros Hp Hd Ho. unfold piece, optZ. destruct (p =? 0) eqn:E.
  - cbn [List.app]. apply read_comp_other; assumption.
  - rewrite (show_Z_nonneg p Hp), <- app_assoc. cbn [List.app]. apply read_comp_hit; assumption.
Qed.
Lemma other_piece d d' p rest : 0 <= p -> is_digit d' = false -> d' <> d -> other d rest ->
  other d (piece p d' ++ rest).
Proof.
  intros Hp Hd Hne Ho. unfold piece. destruct (p =? 0) eqn:E; [exact Ho|].
  right; right. exists (Z.to_N p), d', rest. rewrite (show_Z_nonneg p Hp), <- app_assoc. cbn [List.app]. auto.
Qed.
Lemma other_sec_piece d S U : 0 <= S -> d <> "S"%char -> d <> "."%char -> other d (sec_piece S U).
Proof.
  intros HS H1 H2. unfold sec_piece. destruct (U =? 0) eqn:E.
  - unfold piece. destruct (S =? 0) eqn:E2; [left; reflexivity|].
    right; right. exists (Z.to_N S), "S"%char, []. rewrite (show_Z_nonneg S HS). repeat split; congruence.
  - right; right. exists (Z.to_N S), "."%char, (pad6 U ++ ["S"%char]). rewrite (show_Z_nonneg S HS).
    repeat split; congruence.
Qed.

(* ---------------------------------------------------------------- the fraction *)
Lemma digit_val_digitZ z : digit_val (digitZ z) = Some (z mod 10).
Proof.
  unfold digit_val, digitZ, digit_char.
  assert (Hk : (Z.to_nat (z mod 10) < 10)%nat) by lia.
  rewrite nat_ascii_embedding by lia.
  destruct ((48 <=? Z.of_nat (48 + Z.to_nat (z mod 10))) && (Z.of_nat (48 + Z.to_nat (z mod 10)) <=? 57)) eqn:E; [f_equal|]; lia.
Qed.
Lemma read_frac_step k acc z r : read_frac (S k) acc (digitZ z :: r) = read_frac k (acc * 10 + z mod 10) r.
Proof. cbn [read_frac]. rewrite digit_val_digitZ. reflexivity. Qed.
Lemma read_frac_pad6 us rest : 0 <= us < 1000000 -> read_frac 6 0 (pad6 us ++ rest) = (us, 0%nat, rest).
Proof.
  intros Hu. unfold pad6. rewrite <- !app_comm_cons. rewrite !read_frac_step. cbn [List.app read_frac].
  f_equal. f_equal. lia.
Qed.
Definition osec (S U : Z) : option (Z * Z) := if U =? 0 then (if S =? 0 then None else Some (S, 0)) else Some (S, U).
Lemma read_secs_piece S U : 0 <= S -> 0 <= U < 1000000 -> read_secs (sec_piece S U) = Some (osec S U, []).
Proof.
  intros HS HU. unfold sec_piece, osec, read_secs. destruct (U =? 0) eqn:E.
  - unfold piece. destruct (S =? 0) eqn:E2; [reflexivity|].
    rewrite (show_Z_nonneg S HS), (read_show_N _ "S"%char [] eq_refl), Ascii.eqb_refl. repeat f_equal. lia.
  - rewrite (show_Z_nonneg S HS), (read_show_N _ "."%char _ eq_refl).
    change (Ascii.eqb "." "S") with false. cbv iota. rewrite Ascii.eqb_refl.
    rewrite (read_frac_pad6 U ["S"%char] HU). rewrite Ascii.eqb_refl. cbn [andb Nat.ltb Nat.leb].
    repeat f_equal; lia.
Qed.

(* ---------------------------------------------------------------- emptiness of the parts *)
Lemma is_nil_app (a b : chars) : is_nil (a ++ b) = is_nil a && is_nil b.
Proof. destruct a; reflexivity. Qed.
Lemma is_nil_snoc (a : chars) c : is_nil (a ++ [c]) = false.
Proof. destruct a; reflexivity. Qed.
Lemma is_nil_piece p d : is_nil (piece p d) = (p =? 0).
Proof. unfold piece. destruct (p =? 0); [reflexivity|apply is_nil_snoc]. Qed.
Lemma is_nil_sec S U : is_nil (sec_piece S U) = (U =? 0) && (S =? 0).
Proof.
  unfold sec_piece. destruct (U =? 0); cbn [andb]; [apply is_nil_piece|].
  destruct (show_Z S); reflexivity.
Qed.

(* ---------------------------------------------------------------- the reader on the emitted language *)
Lemma read_unsigned_body neg D H M S U :
  0 <= D -> 0 <= H -> 0 <= M -> 0 <= S -> 0 <= U < 1000000 ->
  is_nil (piece D "D") && is_nil (piece H "H" ++ piece M "M" ++ sec_piece S U) = false ->
  read_unsigned neg ("P"%char :: piece D "D" ++
     (if is_nil (piece H "H" ++ piece M "M" ++ sec_piece S U) then []
      else "T"%char :: piece H "H" ++ piece M "M" ++ sec_piece S U)) = Some (finish neg D H M S U).
Proof.
  intros HD HH HM HS HU Hne.
  unfold read_unsigned. rewrite Ascii.eqb_refl.
  destruct (is_nil (piece H "H" ++ piece M "M" ++ sec_piece S U)) eqn:Et.
  - (* date part only *)
    rewrite (read_comp_piece "D" D [] HD eq_refl (or_introl eq_refl)).
    rewrite is_some_optZ, (oN_optZ D HD).
    rewrite is_nil_piece, andb_true_r in Hne. rewrite Hne. cbn [negb].
    rewrite !is_nil_app, !is_nil_piece, is_nil_sec in Et.
    assert (H = 0 /\ M = 0 /\ S = 0 /\ U = 0) as (-> & -> & -> & ->) by lia. reflexivity.
  - rewrite (read_comp_piece "D" D _ HD eq_refl).
    2:{ right; left. eexists _, _. split; [reflexivity|reflexivity]. }
    rewrite Ascii.eqb_refl.
    rewrite (read_comp_piece "H" H _ HH eq_refl).
    2:{ apply other_piece; [assumption|reflexivity|congruence|]. apply other_sec_piece; [assumption|congruence|congruence]. }
    rewrite (read_comp_piece "M" M _ HM eq_refl).
    2:{ apply other_sec_piece; [assumption|congruence|congruence]. }
    rewrite (read_secs_piece S U HS HU).
    rewrite !is_some_optZ, !oN_optZ by assumption.
    rewrite !is_nil_app, !is_nil_piece, is_nil_sec in Et.
    assert (Hs : negb (H =? 0) || negb (M =? 0) || is_some (osec S U) = true).
    { unfold osec. destruct (U =? 0) eqn:E1; destruct (S =? 0) eqn:E2; cbn [is_some]; lia. }
    rewrite Hs. f_equal. unfold osec.
    destruct (U =? 0) eqn:E1; [destruct (S =? 0) eqn:E2|]; f_equal; lia.
Qed.

Lemma finish_total neg T : 0 <= T ->
  finish neg (T / 1000000 / 60 / 60 / 24) (T / 1000000 / 60 / 60 mod 24) (T / 1000000 / 60 mod 60)
         (T / 1000000 mod 60) (T mod 1000000) = td_of_total (if neg then - T else T).
Proof. intros HT. unfold finish. f_equal. destruct neg; lia. Qed.

Lemma td_of_total_norm d s us : td_norm (d, s, us) = true ->
  td_of_total ((d * 86400 + s) * 1000000 + us) = (d, s, us).
Proof. unfold td_norm, td_of_total. intros H. repeat f_equal; lia. Qed.

Theorem dur_reader_chars td : td_norm td = true -> td_nonzero td = true ->
  read_iso_duration_chars (iso_duration_chars td) = Some td.
Proof.
  destruct td as [[d s] us]. intros Hn Hz.
  unfold iso_duration_chars.
  set (total := (d * 86400 + s) * 1000000 + us).
  set (neg := total <? 0).
  set (T := if neg then - total else total).
  assert (HT : 0 <= T) by (subst T neg; destruct (total <? 0) eqn:E; lia).
  assert (HTz : T <> 0).
  { subst T neg total. unfold td_norm, td_nonzero in *. destruct ((d * 86400 + s) * 1000000 + us <? 0) eqn:E; lia. }
  set (D := T / 1000000 / 60 / 60 / 24). set (H := T / 1000000 / 60 / 60 mod 24).
  set (M := T / 1000000 / 60 mod 60). set (S := T / 1000000 mod 60). set (U := T mod 1000000).
  assert (Hne : is_nil (piece D "D") && is_nil (piece H "H" ++ piece M "M" ++ sec_piece S U) = false).
  { rewrite !is_nil_app, !is_nil_piece, is_nil_sec. subst D H M S U. lia. }
  rewrite Hne.
  assert (Hgoal : read_unsigned neg ("P"%char :: piece D "D" ++
     (if is_nil (piece H "H" ++ piece M "M" ++ sec_piece S U) then []
      else "T"%char :: piece H "H" ++ piece M "M" ++ sec_piece S U)) = Some (d, s, us)).
  { rewrite read_unsigned_body; try (subst D H M S U; lia); [|exact Hne].
    subst D H M S U. rewrite (finish_total neg T HT). f_equal.
    replace (if neg then - T else T) with total by (subst T; destruct neg; lia).
    apply td_of_total_norm; exact Hn. }
  unfold read_iso_duration_chars. destruct neg; cbn [List.app].
  - change (Ascii.eqb "-" "-") with true. cbv iota. exact Hgoal.
  - change (Ascii.eqb "P" "-") with false. cbv iota. exact Hgoal.
Qed.

Theorem dur_reader td : td_norm td = true -> td_nonzero td = true ->
  read_iso_duration (iso_duration td) = Some td.
Proof.
  intros Hn Hz. unfold read_iso_duration, iso_duration.
  rewrite list_ascii_of_string_of_list_ascii. apply dur_reader_chars; assumption.
Qed.

(* ---------------------------------------------------------------- well-formedness (the automaton) *)
Lemma drun_app q a b : drun q (a ++ b) = drun (drun q a) b.
Proof. unfold drun. apply fold_left_app. Qed.
Lemma drun_loop q' s : (forall c, is_digit c = true -> dstep q' c = q') ->
  Forall (fun c => is_digit c = true) s -> drun q' s = q'.
Proof.
  intros Hq Hs. induction Hs as [|c s Hc Hs IH]; [reflexivity|].
  unfold drun in *. cbn [fold_left]. rewrite (Hq c Hc). exact IH.
Qed.
Lemma drun_digits q q' s : (forall c, is_digit c = true -> dstep q c = q') ->
  (forall c, is_digit c = true -> dstep q' c = q') ->
  Forall (fun c => is_digit c = true) s -> s <> [] -> drun q s = q'.
Proof.
  intros Hq Hq' Hs Hne. destruct Hs as [|c s Hc Hs]; [contradiction|].
  unfold drun. cbn [fold_left]. rewrite (Hq c Hc). apply drun_loop; assumption.
Qed.
Lemma drun_num_date n : drun QP (show_N n) = QDnum.
Proof.
  apply drun_digits; [| |apply show_N_digits|apply show_N_nonnil]; intros c Hc; cbn [dstep]; rewrite Hc; reflexivity.
Qed.
Lemma drun_num_time r seen n : drun (QT r seen) (show_N n) = QTnum r.
Proof.
  apply drun_digits; [| |apply show_N_digits|apply show_N_nonnil]; intros c Hc; cbn [dstep]; rewrite Hc; reflexivity.
Qed.
Lemma drun_pieceD D : 0 <= D -> drun QP (piece D "D") = if D =? 0 then QP else QD.
Proof.
  intros HD. unfold piece. destruct (D =? 0); [reflexivity|].
  rewrite (show_Z_nonneg D HD), drun_app, drun_num_date. reflexivity.
Qed.
Lemma drun_pieceH r seen H : 0 <= H -> (r <= 0)%nat ->
  drun (QT r seen) (piece H "H") = if H =? 0 then QT r seen else QT 1 true.
Proof.
  intros HH Hr. unfold piece. destruct (H =? 0); [reflexivity|].
  rewrite (show_Z_nonneg H HH), drun_app, drun_num_time. assert (r = 0%nat) as -> by lia. reflexivity.
Qed.
Lemma drun_pieceM r seen M : 0 <= M -> (r <= 1)%nat ->
  drun (QT r seen) (piece M "M") = if M =? 0 then QT r seen else QT 2 true.
Proof.
  intros HM Hr. unfold piece. destruct (M =? 0); [reflexivity|].
  rewrite (show_Z_nonneg M HM), drun_app, drun_num_time.
  destruct r as [|[|r]]; [reflexivity|reflexivity|lia].
Qed.
Lemma is_digit_digitZ z : is_digit (digitZ z) = true.
Proof.
  unfold digitZ. assert (Hk : (Z.to_nat (z mod 10) < 10)%nat) by lia.
  generalize dependent (Z.to_nat (z mod 10)). intros k Hk.
  do 10 (destruct k as [|k]; [reflexivity|]). lia.
Qed.
Lemma dstep_frac k z : (k < 6)%nat -> dstep (QFrac k) (digitZ z) = QFrac (S k).
Proof.
  intros Hk. cbn [dstep]. rewrite is_digit_digitZ.
  destruct (Nat.ltb k 6) eqn:E; [reflexivity|apply Nat.ltb_ge in E; lia].
Qed.
Lemma drun_sec r seen S U : 0 <= S -> 0 <= U < 1000000 ->
  drun (QT r seen) (sec_piece S U) = if (U =? 0) && (S =? 0) then QT r seen else QEnd.
Proof.
  intros HS HU. unfold sec_piece. destruct (U =? 0); cbn [andb].
  - unfold piece. destruct (S =? 0); [reflexivity|].
    rewrite (show_Z_nonneg S HS), drun_app, drun_num_time. reflexivity.
  - rewrite (show_Z_nonneg S HS), drun_app, drun_num_time.
    unfold drun, pad6. cbn [fold_left List.app].
    change (dstep (QTnum r) ".") with (QFrac 0).
    cbv [fold_left List.app].
    rewrite !dstep_frac by lia. reflexivity.
Qed.

Theorem dur_wellformed_chars td : td_norm td = true -> td_nonzero td = true ->
  iso8601_duration_chars (iso_duration_chars td) = true.
Proof.
  destruct td as [[d s] us]. intros Hn Hz.
  unfold iso_duration_chars.
  set (total := (d * 86400 + s) * 1000000 + us).
  set (neg := total <? 0).
  set (T := if neg then - total else total).
  assert (HT : 0 <= T) by (subst T neg; destruct (total <? 0) eqn:E; lia).
  assert (HTz : T <> 0).
  { subst T neg total. unfold td_norm, td_nonzero in *. destruct ((d * 86400 + s) * 1000000 + us <? 0) eqn:E; lia. }
  set (D := T / 1000000 / 60 / 60 / 24). set (H := T / 1000000 / 60 / 60 mod 24).
  set (M := T / 1000000 / 60 mod 60). set (S := T / 1000000 mod 60). set (U := T mod 1000000).
  assert (HD : 0 <= D) by (subst D; lia). assert (HH : 0 <= H) by (subst H; lia).
  assert (HM : 0 <= M) by (subst M; lia). assert (HS : 0 <= S) by (subst S; lia).
  assert (HU : 0 <= U < 1000000) by (subst U; lia).
  assert (Hne : is_nil (piece D "D") && is_nil (piece H "H" ++ piece M "M" ++ sec_piece S U) = false).
  { rewrite !is_nil_app, !is_nil_piece, is_nil_sec. subst D H M S U. lia. }
  rewrite Hne.
  unfold iso8601_duration_chars.
  assert (Hs : drun QStart ((if neg then ["-"%char] else []) ++ "P"%char :: piece D "D" ++
     (if is_nil (piece H "H" ++ piece M "M" ++ sec_piece S U) then []
      else "T"%char :: piece H "H" ++ piece M "M" ++ sec_piece S U))
     = drun QP (piece D "D" ++
     (if is_nil (piece H "H" ++ piece M "M" ++ sec_piece S U) then []
      else "T"%char :: piece H "H" ++ piece M "M" ++ sec_piece S U))).
  { destruct neg; reflexivity. }
  rewrite Hs, drun_app, (drun_pieceD D HD).
  rewrite !is_nil_app, !is_nil_piece, is_nil_sec in Hne.
  destruct (is_nil (piece H "H" ++ piece M "M" ++ sec_piece S U)) eqn:Et.
  - rewrite !is_nil_app, !is_nil_piece, is_nil_sec in Et.
    destruct (D =? 0) eqn:ED; [lia|reflexivity].
  - rewrite !is_nil_app, !is_nil_piece, is_nil_sec in Et.
    assert (Ht : drun (if D =? 0 then QP else QD) ("T"%char :: piece H "H" ++ piece M "M" ++ sec_piece S U)
                 = drun (QT 0 false) (piece H "H" ++ piece M "M" ++ sec_piece S U)).
    { destruct (D =? 0); reflexivity. }
    rewrite Ht, drun_app, (drun_pieceH 0 false H HH (le_n 0)), drun_app.
    destruct (H =? 0) eqn:EH.
    + rewrite (drun_pieceM 0 false M HM) by lia.
      destruct (M =? 0) eqn:EM; rewrite (drun_sec _ _ S U HS HU).
      * destruct ((U =? 0) && (S =? 0)) eqn:EUS; [lia|reflexivity].
      * destruct ((U =? 0) && (S =? 0)); reflexivity.
    + rewrite (drun_pieceM 1 true M HM) by lia.
      destruct (M =? 0) eqn:EM; rewrite (drun_sec _ _ S U HS HU);
        destruct ((U =? 0) && (S =? 0)); reflexivity.
Qed.

Theorem dur_wellformed td : td_norm td = true -> td_nonzero td = true ->
  iso8601_duration (iso_duration td) = true.
Proof.
  intros Hn Hz. unfold iso8601_duration, iso_duration.
  rewrite list_ascii_of_string_of_list_ascii. apply dur_wellformed_chars; assumption.
Qed.
