(* Generic theorems about a functools-style cache in front of a function (Model/Cache.v, Section MemoRun). *)
From Coq Require Import List NArith Bool Arith Lia.
Import ListNotations.
Require Import TL.Model.Cache.

Section MemoProofs.
  Context {K V : Type}.
  Variables (eqv : K -> K -> bool) (f : K -> V) (max : option N).
  Hypothesis f_respects : forall k k', eqv k k' = true -> f k = f k'.

  Definition sound (tbl : list (K * V)) : Prop := Forall (fun e => snd e = f (fst e)) tbl.

  Lemma trim_sound : forall n tbl, sound tbl -> sound (trim n tbl).
  Proof.
    induction n as [|n IH]; intros tbl H; cbn [trim]; [exact H|].
    destruct tbl as [|e r]; [constructor|]. apply IH. inversion H; assumption.
  Qed.
  Lemma put_sound : forall tbl k, sound tbl -> sound (memo_put max tbl k (f k)).
  Proof.
    intros tbl k H. unfold memo_put, cap.
    assert (S1 : sound (tbl ++ [(k, f k)])).
    { apply Forall_app; split; [exact H|]. constructor; [reflexivity|constructor]. }
    destruct max; [apply trim_sound|]; exact S1.
  Qed.
  Lemma call_sound : forall tbl k, sound tbl ->
    fst (memo_call eqv f max tbl k) = f k /\ sound (snd (memo_call eqv f max tbl k)).
  Proof.
    intros tbl k H. unfold memo_call, memo_get.
    destruct (find (fun e => eqv (fst e) k) tbl) as [e|] eqn:F; cbn [fst snd].
    - apply find_some in F. destruct F as [Hin Heq].
      unfold sound in H. rewrite Forall_forall in H. split.
      + rewrite (H e Hin). apply f_respects. exact Heq.
      + apply Forall_app; split.
        * apply Forall_forall. intros x Hx. apply filter_In in Hx. apply H. tauto.
        * constructor; [apply H; exact Hin|constructor].
    - split; [reflexivity|apply put_sound; exact H].
  Qed.
  Lemma run_sound : forall h tbl k, sound tbl -> memo_run eqv f max tbl h k = f k.
  Proof.
    induction h as [|[k'|] r IH]; intros tbl k H; cbn [memo_run].
    - apply call_sound; exact H.
    - apply IH. apply call_sound; exact H.
    - apply IH. constructor.
  Qed.
  (* whatever was asked before (and whenever the cache was cleared), the cached function answers as f *)
  Theorem memo_transparent : forall (h : list (option K)) (k : K), memo_run eqv f max [] h k = f k.
  Proof. intros h k. apply run_sound. constructor. Qed.

  (* ... also when callers may touch the stored results, provided that cannot change them *)
  Theorem memo_transparent_immutable : forall (g : V -> V), (forall v, g v = v) ->
    forall (h : list K) (k : K), memo_run_mut eqv f max g [] h k = f k.
  Proof.
    intros g Hg h. assert (G : forall tbl k, sound tbl -> memo_run_mut eqv f max g tbl h k = f k).
    { induction h as [|k' r IH]; intros tbl k H; cbn [memo_run_mut].
      - apply call_sound; exact H.
      - apply IH. destruct (call_sound tbl k' H) as [_ S2].
        unfold sound in *. rewrite Forall_forall in *. intros e He. apply in_map_iff in He.
        destruct He as [e0 [E1 E2]]. subst e. cbn [fst snd]. rewrite Hg. apply S2. exact E2. }
    intros k. apply G. constructor.
  Qed.
End MemoProofs.
