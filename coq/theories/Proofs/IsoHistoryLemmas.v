(* Proofs/IsoHistoryLemmas.v -- proof scripts for Model/IsoHistory.v (C04). *)
From Coq Require Import List ZArith Ascii String Bool.
Import ListNotations.
Require Import TL.Model.Duration.
Require Import TL.Model.Temporal.
Require Import TL.Model.Scalars.
Require Import TL.Model.IsoHistory.
Require Import TL.Proofs.ScalarsLemmas.
Open Scope Z_scope.

Section Hist.
Variable rt : Runtime.

Lemma iso_step_text m v : memo_ok m -> snd (iso_step rt m v) = isoformat rt v.
Proof.
  intros Hm. destruct v; try reflexivity.
  cbn [iso_step isoformat]. pose proof (memo_transparent m (d, s, us) Hm) as Ht. unfold cached_iso in Ht.
  destruct (memo_find (d, s, us) m) as [t|]; cbn [snd]; [exact Ht|reflexivity].
Qed.

Lemma iso_step_memo m v : memo_ok m -> memo_ok (fst (iso_step rt m v)).
Proof.
  intros Hm. destruct v; try exact Hm.
  cbn [iso_step]. destruct (memo_find (d, s, us) m) as [t|]; cbn [fst]; [exact Hm|].
  constructor; [reflexivity|exact Hm].
Qed.

(* a history observes what the same calls observe on empty caches: the memo is transparent along ANY history,
   whatever values (equal, equal-but-differently-represented, or unrelated) were formatted before *)
Lemma hist_transparent h : forall m, memo_ok m -> run_hist rt m h = run_cold rt h.
Proof.
  induction h as [|[o v] r IH]; intros m Hm; [reflexivity|].
  cbn [run_hist run_cold map fst snd].
  pose proof (iso_step_text m v Hm) as Ht. pose proof (iso_step_memo m v Hm) as Hm'.
  destruct (iso_step rt m v) as [m' t]. cbn [fst snd] in Ht, Hm'. subst t.
  f_equal. exact (IH m' Hm').
Qed.

(* the emitting operations are the routines of Model/Scalars.v *)
Lemma hop_is_routine v : is_temporal v = true ->
  unm_str rt v = Ok (emit rt HStr v (isoformat rt v)) /\ unm_bytes rt v = Ok (emit rt HBytes v (isoformat rt v)).
Proof. intros H. split; [exact (temporal_to_str rt v H)|exact (temporal_to_bytes rt v H)]. Qed.

(* ... also on the non-temporal scalars: unmarshal(str | bytes, v) writes str(v), whatever was written before *)
Definition plain_scalar (v : val) : bool :=
  match v with VNone | VBool _ | VInt _ | VFloat _ | VDec _ | VFrac _ | VUuid _ | VPath _ => true | _ => false end.
Lemma scalar_is_routine v : plain_scalar v = true ->
  unm_str rt v = Ok (emit rt HStr v (isoformat rt v)) /\ unm_bytes rt v = Ok (emit rt HBytes v (isoformat rt v)).
Proof. destruct v; try discriminate; intros _; split; reflexivity. Qed.

End Hist.
