(* Proofs about the ladder language of Model/SerdesAst.v (source translator tie of serdes.py, part 1). *)
From Coq Require Import List Bool Arith ZArith String.
Import ListNotations.
Require Import TL.Model.Iter TL.Model.SerdesAst.

(* ---------------------------------------------------------------------------------- *)
(* the enumeration of classes is complete up to what guards see                        *)
(* ---------------------------------------------------------------------------------- *)
Lemma rep_in : forall c, In (rep c) all_reps.
Proof.
  intros c; destruct c as [ | | | | k | k | f | d | k]; try destruct k;
    unfold all_reps, all_collkinds, all_mapkinds, all_iterkinds; simpl;
    repeat (try (left; reflexivity); right).
Qed.

Lemma cpred_rep : forall p c, eval_cpred p (rep c) = eval_cpred p c.
Proof. intros p c; destruct p, c; reflexivity. Qed.

Lemma guard_rep : forall g c, eval_guard g (rep c) = eval_guard g c.
Proof.
  induction g; intros c; simpl.
  - apply cpred_rep.
  - now rewrite IHg.
  - now rewrite IHg1, IHg2.
  - now rewrite IHg1, IHg2.
Qed.

Lemma select_rep : forall A (l : ladder A) d c, select l d (rep c) = select l d c.
Proof.
  induction l as [|[g a] r IH]; intros d c; simpl; [reflexivity|].
  rewrite guard_rep, IH; reflexivity.
Qed.

Lemma model_gaction_rep : forall c, model_gaction (rep c) = model_gaction c.
Proof. intros c; destruct c; reflexivity. Qed.
Lemma model_paction_rep : forall c, model_paction (rep c) = model_paction c.
Proof. intros c; destruct c; reflexivity. Qed.

Lemma gaction_eqb_eq : forall a b, gaction_eqb a b = true -> a = b.
Proof. intros a b; destruct a, b; simpl; intros H; try discriminate; reflexivity. Qed.

Lemma cpred_eqb_eq : forall a b, cpred_eqb a b = true -> a = b.
Proof. intros a b; destruct a, b; simpl; intros H; try discriminate; reflexivity. Qed.
Lemma elemtest_eqb_eq : forall a b, elemtest_eqb a b = true -> a = b.
Proof.
  intros [p n] [q m]; simpl; intros H; apply andb_true_iff in H as [H1 H2].
  apply cpred_eqb_eq in H1; apply Nat.eqb_eq in H2; subst; reflexivity.
Qed.
Lemma odefault_eqb_eq : forall a b, odefault_eqb a b = true -> a = b.
Proof. intros [[]|] [[]|]; simpl; intros H; try discriminate; reflexivity. Qed.
Lemma paction_eqb_eq : forall a b, paction_eqb a b = true -> a = b.
Proof.
  intros a b; destruct a, b; simpl; intros H; try discriminate; try reflexivity;
    apply andb_true_iff in H as [H1 H2]; apply odefault_eqb_eq in H1; apply elemtest_eqb_eq in H2;
    subst; reflexivity.
Qed.

Lemma forallb_false_ex : forall A (f : A -> bool) l, forallb f l = false -> exists x, In x l /\ f x = false.
Proof.
  induction l as [|a r IH]; simpl; intros H; [discriminate|].
  destruct (f a) eqn:E.
  - destruct (IH H) as [x [Hi Hx]]; exists x; split; [right; exact Hi | exact Hx].
  - exists a; split; [left; reflexivity | exact E].
Qed.

(* ---------------------------------------------------------------------------------- *)
(* get_items_iter                                                                     *)
(* ---------------------------------------------------------------------------------- *)
Lemma model_gaction_ok : forall cf cl, run_gaction cf (model_gaction cl) cl = get_items_iter cf cl.
Proof. intros cf cl; destruct cl as [ | | | | k | k | f | d | k]; try destruct k; reflexivity. Qed.

Lemma gladder_select : forall l d, gladder_ok l d = true -> forall cl, select l d cl = model_gaction cl.
Proof.
  intros l d H cl. unfold gladder_ok in H. rewrite forallb_forall in H.
  specialize (H (rep cl) (rep_in cl)). apply gaction_eqb_eq in H.
  rewrite select_rep, model_gaction_rep in H. exact H.
Qed.

Lemma gladder_sound : forall l d, gladder_ok l d = true ->
  forall cf cl, get_items_iter_src l d cf cl = get_items_iter cf cl.
Proof.
  intros l d H cf cl. unfold get_items_iter_src. rewrite (gladder_select l d H cl). apply model_gaction_ok.
Qed.

(* the finite check is exact: a ladder it rejects computes another function *)
Lemma run_gaction_inj : forall cf a b cl, run_gaction cf a cl = run_gaction cf b cl -> a = b.
Proof.
  intros cf a b cl; destruct a, b; simpl; try reflexivity; try discriminate;
    destruct cl; try discriminate;
    unfold make_fields_iterator;
    repeat match goal with |- context [match ?x with _ => _ end] => destruct x end; discriminate.
Qed.

Lemma gaction_eqb_refl : forall a, gaction_eqb a a = true.
Proof. destruct a; reflexivity. Qed.

Lemma gladder_complete : forall l d, gladder_ok l d = false ->
  exists cl, get_items_iter_src l d repaired cl <> get_items_iter repaired cl.
Proof.
  intros l d H. apply forallb_false_ex in H as [c [_ Hc]].
  exists c. unfold get_items_iter_src. rewrite <- model_gaction_ok. intros E.
  apply run_gaction_inj in E. rewrite E, gaction_eqb_refl in Hc. discriminate.
Qed.

(* ---------------------------------------------------------------------------------- *)
(* _is_iterable_of_pairs                                                              *)
(* ---------------------------------------------------------------------------------- *)
Lemma model_paction_ok : forall x, run_paction (model_paction (class_of x)) x = is_iterable_of_pairs repaired x.
Proof.
  intros x; destruct x as [ | z | s | b | k l | k l | f l | c sv d ca | k n l]; try reflexivity.
  - destruct s; reflexivity.
  - destruct b; reflexivity.
  - destruct k; destruct l; reflexivity.
Qed.

Lemma pladder_select : forall l d, pladder_ok l d = true -> forall cl, select l d cl = model_paction cl.
Proof.
  intros l d H cl. unfold pladder_ok in H. rewrite forallb_forall in H.
  specialize (H (rep cl) (rep_in cl)). apply paction_eqb_eq in H.
  rewrite select_rep, model_paction_rep in H. exact H.
Qed.

Lemma pladder_sound : forall l d, pladder_ok l d = true ->
  forall x, is_iterable_of_pairs_src l d x = is_iterable_of_pairs repaired x.
Proof.
  intros l d H x. unfold is_iterable_of_pairs_src. rewrite (pladder_select l d H). apply model_paction_ok.
Qed.

(* ---------------------------------------------------------------------------------- *)
(* iteritems / itervalues                                                             *)
(* ---------------------------------------------------------------------------------- *)
Lemma items_canonical : forall cf x, run_items canonical_items cf x = iteritems cf x.
Proof.
  intros cf x. unfold run_items, run_items_with, iteritems.
  destruct (is_iterable_of_pairs cf x) as [[fl it] | e | ]; reflexivity.
Qed.

Lemma items_prog_sound : forall p, items_prog_eqb p canonical_items = true ->
  forall cf x, run_items p cf x = iteritems cf x.
Proof.
  intros [[] []]; simpl; intros H; try discriminate. apply items_canonical.
Qed.

Lemma values_canonical : forall cf x, run_values canonical_values cf x = itervalues cf x.
Proof. intros cf x. reflexivity. Qed.

Lemma values_prog_sound : forall p, values_prog_eqb p canonical_values = true ->
  forall cf x, run_values p cf x = itervalues cf x.
Proof. intros [[]]; simpl; intros H; try discriminate. apply values_canonical. Qed.

(* the four translated pieces composed *)
Lemma iteritems_src_sound : forall pl pd gl gd p,
  pladder_ok pl pd = true -> gladder_ok gl gd = true -> items_prog_eqb p canonical_items = true ->
  forall x, iteritems_src pl pd gl gd p x = iteritems repaired x.
Proof.
  intros pl pd gl gd p Hp Hg Hi x.
  rewrite <- (items_prog_sound p Hi). unfold iteritems_src, run_items, run_items_with.
  rewrite (pladder_sound pl pd Hp x).
  destruct (is_iterable_of_pairs repaired x) as [[fl it] | e | ]; try reflexivity.
  rewrite (gladder_sound gl gd Hg). reflexivity.
Qed.

Lemma itervalues_src_sound : forall gl gd p,
  gladder_ok gl gd = true -> values_prog_eqb p canonical_values = true ->
  forall x, itervalues_src gl gd p x = itervalues repaired x.
Proof.
  intros gl gd p Hg Hv x.
  rewrite <- (values_prog_sound p Hv). unfold itervalues_src, run_values, run_values_with.
  rewrite (gladder_sound gl gd Hg). reflexivity.
Qed.

(* ---------------------------------------------------------------------------------- *)
(* witnesses                                                                          *)
(* ---------------------------------------------------------------------------------- *)
Definition good_gladder : ladder gaction :=
  [(GPred PMapping, AItemsCaller); (GPred PNamedTuple, ANamedTupleItems); (GPred PIterable, AEnumerate)].
Definition bad_gladder_enumerate_first : ladder gaction :=
  [(GPred PIterable, AEnumerate); (GPred PMapping, AItemsCaller); (GPred PNamedTuple, ANamedTupleItems)].
Definition good_pladder : ladder paction :=
  [(GOr (GNot (GPred PIterable)) (GOr (GPred PMapping) (GPred PNamedTuple)), PANo);
   (GPred PSequence, PAHead (Some DEmptyTuple) pair_test)].
Definition good_pdefault : paction := PAPeekable (Some DEmptyTuple) pair_test.
(* the pinned code: named tuples not excluded *)
Definition bad_pladder_namedtuple : ladder paction :=
  [(GOr (GNot (GPred PIterable)) (GPred PMapping), PANo);
   (GPred PSequence, PAHead (Some DEmptyTuple) pair_test)].
(* a named tuple of two fields whose first value is a 2-tuple *)
Definition nt_witness : val := VNamed ["a"%string; "b"%string] [tup (VInt 1%Z) (VInt 2%Z); VInt 3%Z].

Lemma good_ladders_ok : gladder_ok good_gladder AMakeFields = true /\ pladder_ok good_pladder good_pdefault = true.
Proof. split; vm_compute; reflexivity. Qed.

Lemma enumerate_first_refuted :
  gladder_ok bad_gladder_enumerate_first AMakeFields = false /\
  get_items_iter_src bad_gladder_enumerate_first AMakeFields repaired (CDict MDict) = Ok SEnumerate /\
  get_items_iter repaired (CDict MDict) = Ok SItems.
Proof. repeat split; vm_compute; reflexivity. Qed.

Lemma namedtuple_not_excluded_refuted :
  pladder_ok bad_pladder_namedtuple good_pdefault = false /\
  is_iterable_of_pairs_src bad_pladder_namedtuple good_pdefault nt_witness = Ok (true, ItVal nt_witness) /\
  is_iterable_of_pairs repaired nt_witness = Ok (false, ItVal nt_witness) /\
  fst (iteritems_src bad_pladder_namedtuple good_pdefault good_gladder AMakeFields canonical_items nt_witness)
    <> fst (iteritems repaired nt_witness).
Proof. repeat split; try (vm_compute; reflexivity). vm_compute. discriminate. Qed.

(* handing `val` instead of `it` to the strategy loses the element the peekable has drawn *)
Definition gen_witness : val := VIter IGenerator 0 [VInt 7%Z; VInt 8%Z].
Lemma apply_val_refuted :
  items_prog_eqb {| ip_pairs_ret := OIt; ip_apply := OVal |} canonical_items = false /\
  fst (run_items {| ip_pairs_ret := OIt; ip_apply := OVal |} repaired gen_witness) <> fst (iteritems repaired gen_witness).
Proof. split; [reflexivity|]. vm_compute. discriminate. Qed.

Lemma keys_for_values_refuted :
  fst (run_values {| vp_proj := PrKey |} repaired (VColl KList [VInt 7%Z])) <> fst (itervalues repaired (VColl KList [VInt 7%Z])).
Proof. vm_compute. discriminate. Qed.
