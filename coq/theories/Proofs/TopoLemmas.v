(* What graphlib's contract (Topo.is_topo_order) gives for the adjacency built by Graph.bfs:
   root last, members strictly earlier, flags. *)
From Coq Require Import List Arith Bool PeanoNat String Lia.
Import ListNotations.
Require Import TL.Model.Graph TL.Model.Topo TL.Proofs.GraphLemmas.

Lemma node_eqb_true : forall a b, node_eqb a b = true ->
  ntype a = ntype b /\ nunw a = nunw b /\ nvar a = nvar b /\ ncyc a = ncyc b.
Proof.
  intros a b H; unfold node_eqb in H.
  apply andb_true_iff in H; destruct H as [H H4]. apply andb_true_iff in H; destruct H as [H H3].
  apply andb_true_iff in H; destruct H as [H1 H2].
  apply gty_eqb_eq in H1. apply gty_eqb_eq in H2. apply ostr_eqb_eq in H3. apply Bool.eqb_prop in H4. auto.
Qed.

Lemma node_eqb_cong : forall a b, node_eqb a b = true -> forall x, node_eqb a x = node_eqb b x.
Proof.
  intros a b H x. destruct (node_eqb_true _ _ H) as [H1 [H2 [H3 H4]]]. unfold node_eqb. rewrite H1, H2, H3, H4. reflexivity.
Qed.

Lemma pos_cong : forall a b l, node_eqb a b = true -> pos a l = pos b l.
Proof.
  intros a b l H; induction l as [|x r IH]; cbn; [reflexivity|]. rewrite (node_eqb_cong _ _ H x), IH. reflexivity.
Qed.

Lemma before_trans : forall a b c l, before a b l -> before b c l -> before a c l.
Proof.
  intros a b c l [i [j [Hi [Hj Hij]]]] [j' [k [Hj' [Hk Hjk]]]].
  rewrite Hj in Hj'; inversion Hj'; subst j'. exists i, k; repeat split; auto; lia.
Qed.

Lemma before_cong_r : forall a b c l, node_eqb b c = true -> before a b l -> before a c l.
Proof.
  intros a b c l H [i [j [Hi [Hj Hij]]]]. exists i, j; repeat split; auto. rewrite <- (pos_cong _ _ l H); exact Hj.
Qed.

Lemma before_cong_l : forall a b c l, node_eqb a b = true -> before a c l -> before b c l.
Proof.
  intros a b c l H [i [j [Hi [Hj Hij]]]]. exists i, j; repeat split; auto. rewrite <- (pos_cong _ _ l H); exact Hi.
Qed.

Lemma inb_exists : forall n l, inb n l = true -> exists m, In m l /\ node_eqb n m = true.
Proof. intros n l H; unfold inb in H. apply existsb_exists in H. exact H. Qed.

(* every node other than the root comes strictly before the root *)
Lemma chain_before_root : forall g r order, is_topo_order g order ->
  forall n k, chain g [r] n k -> node_eqb n r = true \/ before n r order.
Proof.
  intros g r order [_ [_ [_ Hedge]]] n k Hc; induction Hc as [x Hx | n p preds k Hin Hn Hc IH].
  - destruct Hx as [Hx|[]]; subst; left; apply node_eqb_refl.
  - right. pose proof (Hedge _ _ _ Hin Hn) as Hb. destruct IH as [Heq|Hb2].
    + eapply before_cong_r; eauto.
    + eapply before_trans; eauto.
Qed.

Lemma root_last : forall fuel E root g order,
  type_graph fuel E root = Ok g -> is_topo_order g order ->
  inb (root_node root) order = true /\
  forall n, In n order -> node_eqb n (root_node root) = false -> before n (root_node root) order.
Proof.
  intros fuel E root g order Hg Ht. unfold type_graph in Hg. split.
  - destruct Ht as [_ [Hall _]]. apply Hall.
    destruct (bfs_queue_served _ _ _ _ _ Hg (root_node root)) as [preds Hin]; [left; reflexivity|].
    unfold adj_nodes. apply in_flat_map. exists (root_node root, preds); split; [exact Hin | left; reflexivity].
  - intros n Hn Hne. pose proof Ht as [_ [_ [Hback _]]].
    destruct (inb_exists _ _ (Hback n Hn)) as [m [Hm Hnm]].
    destruct (bfs_chain_nodes _ _ _ _ _ Hg m Hm) as [k Hk]. cbn [map fst] in Hk.
    destruct (chain_before_root g (root_node root) order Ht m k Hk) as [Heq|Hb].
    + rewrite (node_eqb_cong _ _ Hnm) in Hne. congruence.
    + apply (before_cong_l m n); [|exact Hb].
      destruct (node_eqb_true _ _ Hnm) as [H1 [H2 [H3 H4]]]. unfold node_eqb. rewrite H1, H2, H3, H4.
      rewrite !gty_eqb_refl. cbn. rewrite (proj2 (ostr_eqb_eq _ _) eq_refl). cbn. destruct (ncyc m); reflexivity.
Qed.

(* every member of every expanded node is represented strictly earlier *)
Lemma members_before : forall fuel E root g order,
  type_graph fuel E root = Ok g -> is_topo_order g order ->
  forall p preds, In (p, preds) g -> is_literal (unwrap (ntype p)) = false ->
  forall var c, In (var, c) (level E (unwrap (ntype p))) -> skip var c = false ->
  exists m, In m preds /\ before m p order /\ represents E m var c.
Proof.
  intros fuel E root g order Hg Ht p preds Hin Hlit var c Hc Hsk. unfold type_graph in Hg.
  destruct (bfs_entry _ _ _ _ _ Hg _ _ Hin) as [[Hl _]|[_ [st0 [path [st1 Hex]]]]]; [congruence|].
  destruct (expand_complete _ _ _ _ _ _ Hex var c Hc Hsk) as [m [Hm R]].
  exists m; split; [exact Hm|]. split; [|exact R]. destruct Ht as [_ [_ [_ Hedge]]]. eapply Hedge; eauto.
Qed.

(* every node of the sequence is an expanded node or a deferred one *)
Lemma nodes_served : forall fuel E root g,
  type_graph fuel E root = Ok g ->
  forall n, In n (adj_nodes g) -> ncyc n = false -> exists preds, In (n, preds) g.
Proof.
  intros fuel E root g Hg n Hn Hc. unfold type_graph in Hg. unfold adj_nodes in Hn. apply in_flat_map in Hn.
  destruct Hn as [[p preds] [Hin Hn]]. cbn in Hn. destruct Hn as [Hn|Hn].
  - subst; exists preds; exact Hin.
  - eapply bfs_preds_served; eauto.
Qed.

(* flags *)
Lemma flags : forall fuel E root g,
  type_graph fuel E root = Ok g -> is_ref root = false ->
  (forall p preds var c, In (p, preds) g -> In (var, c) (level E (unwrap (ntype p))) -> is_ref c = false) ->
  forall n, In n (adj_nodes g) ->
    (is_ref (ntype n) = true -> ncyc n = true) /\
    (ncyc n = true ->
       exists p preds var c, In (p, preds) g /\ In n preds /\ In (var, c) (level E (unwrap (ntype p))) /\
         skip var c = false /\ nvar n = var /\ nfor n = c /\ can_be_cyclic E (unwrap c) = true /\
         (n = mkdefer c (unwrap c) var \/ mkref E c (unwrap c) var = Some n) /\
         exists st0 path, visitedb E c (unwrap c) var st0 path = true).
Proof.
  intros fuel E root g Hg Hroot Hnoref n Hn. unfold type_graph in Hg.
  assert (Hkey : forall p preds, In (p, preds) g -> ncyc p = false /\ (is_ref (ntype p) = true -> False)).
  { intros p preds Hin. destruct (In_nth_error _ _ Hin) as [i Hi].
    destruct (bfs_keys _ _ _ _ _ Hg _ _ _ Hi) as [Hr|[j [p' [preds' [_ [Hnj [Hip Hc]]]]]]].
    - destruct Hr as [Hr|[]]; subst p; cbn; split; [reflexivity | congruence].
    - split; [exact Hc|]. apply nth_error_In in Hnj.
      destruct (bfs_entry _ _ _ _ _ Hg _ _ Hnj) as [[_ He]|[_ [st0 [path [st1 Hex]]]]]; [subst; contradiction|].
      destruct (expand_sound _ _ _ _ _ _ Hex _ Hip) as [var [c [Hkid [_ [[_ [_ [[_ Hm]|[[Hc' _]|[Hc' _]]]]] _]]]]]; try congruence.
      subst p; cbn. rewrite (Hnoref _ _ _ _ Hnj Hkid). congruence. }
  unfold adj_nodes in Hn. apply in_flat_map in Hn. destruct Hn as [[p preds] [Hin Hn]]. cbn in Hn.
  destruct Hn as [Hn|Hn].
  - subst n. destruct (Hkey _ _ Hin) as [Hc Hr]. split; [intros H; destruct (Hr H) | congruence].
  - destruct (bfs_entry _ _ _ _ _ Hg _ _ Hin) as [[_ He]|[_ [st0 [path [st1 Hex]]]]]; [subst; contradiction|].
    destruct (expand_sound _ _ _ _ _ _ Hex _ Hn) as [var [c [Hkid [Hsk [[Hv [Hf Hcase]] Hrev]]]]].
    split.
    + intros Hr. destruct Hcase as [[_ Hm]|[[Hc' _]|[Hc' _]]]; auto.
      subst n; cbn in Hr. rewrite (Hnoref _ _ _ _ Hin Hkid) in Hr; discriminate.
    + intros Hc. destruct (Hrev Hc) as [st2 Hrv].
      exists p, preds, var, c. repeat split; auto.
      * destruct Hcase as [[Hc' _]|[[_ [_ Hcc]]|[_ [_ Hcc]]]]; [congruence | exact Hcc | exact Hcc].
      * destruct Hcase as [[Hc' _]|[[_ [Hd _]]|[_ [Hm _]]]]; [congruence | left; exact Hd | right; exact Hm].
      * exists st2, path; exact Hrv.
Qed.

(* a string alias is one node carrying the reference to its body, and it is not expanded *)
Lemma string_alias : forall fuel E root g,
  type_graph fuel E root = Ok g ->
  forall p preds m n body, In (p, preds) g -> ntype p = GAliasStr m n body ->
    preds = [] /\ ncyc p = false /\ nunw p = GRef (remove_lead (sapp m "."%string) body) (Some m).
Proof.
  intros fuel E root g Hg p preds m n body Hin Ht. unfold type_graph in Hg.
  assert (Hshape : ncyc p = false /\ nunw p = unwrap (ntype p)).
  { eapply bfs_key_shape; eauto. intros q [Hq|[]]; subst q; cbn; auto. }
  destruct Hshape as [Hc Hu]. rewrite Ht in Hu. cbn in Hu. split; [|split; [exact Hc | exact Hu]].
  destruct (bfs_entry _ _ _ _ _ Hg _ _ Hin) as [[_ He]|[_ [st0 [path [st1 Hex]]]]]; [exact He|].
  rewrite Ht in Hex. cbn in Hex. inversion Hex; reflexivity.
Qed.
