(* Proofs/LeafBridge.v -- proof scripts for Model/LeafBridge.v: the leaf-law records of the core theorems
   (RoundLaws, NoneLaws, PassLaws, IdemLaws, LeafLaws, MarshalLaws) derived for the bridged runtime from the scalar
   model and Scalars.RuntimeLaws.  [res]/[Ok]/[Raise] are Temporal's; the core model's are written Core.xxx. *)
From Coq Require Import List ZArith Arith Ascii String Bool PeanoNat Lia.
Import ListNotations.
Require Import TL.Model.Duration.
Require Import TL.Model.Temporal.
Require Import TL.Model.Scalars.
Require Import TL.Proofs.ScalarsLemmas.
Require Import TL.Model.IsoText.
Require Import TL.Model.ScalarsToy.
Require Import TL.Proofs.ScalarsToyLemmas.
Require TL.Model.Core.
Require TL.Model.CoreTables.
Require TL.Model.CoreC01.
Require TL.Model.CoreValid.
Require TL.Model.CoreC06.
Require TL.Proofs.CoreC03.
Require TL.Model.Serdes.
Require TL.Proofs.SerdesLemmas.
Require Import TL.Model.LeafBridge.
Local Open Scope nat_scope.

Ltac inv H := inversion H; subst; clear H.
(* case analysis along the matches of a routine that returned [Ok] *)
Ltac crush H :=
  repeat (unfold bind in H;
    match type of H with
    | Ok _ = Ok _ => inv H
    | Raise _ = Ok _ => discriminate H
    | Unmodelled = Ok _ => discriminate H
    | context [match ?x with _ => _ end] => let E := fresh "E" in destruct x eqn:E
    end).

(* ================================================================== A. the scalar level *)
(* ---- structural equality decides equality ---- *)
Lemma opt_eqb_eq a b : opt_eqb a b = true -> a = b.
Proof. destruct a, b; cbn; intros H; try discriminate; [apply Z.eqb_eq in H; subst|]; reflexivity. Qed.
Lemma same_dt_eq a b : same_dt a b = true -> dfold a = dfold b -> a = b.
Proof.
  destruct a, b. unfold same_dt. cbn. intros H Hf.
  repeat (apply andb_true_iff in H; destruct H as [H ?]).
  repeat match goal with X : (_ =? _)%Z = true |- _ => apply Z.eqb_eq in X end.
  match goal with X : opt_eqb _ _ = true |- _ => apply opt_eqb_eq in X end. subst. reflexivity.
Qed.
Lemma same_tm_eq a b : same_tm a b = true -> tfold a = tfold b -> a = b.
Proof.
  destruct a, b. unfold same_tm. cbn. intros H Hf.
  repeat (apply andb_true_iff in H; destruct H as [H ?]).
  repeat match goal with X : (_ =? _)%Z = true |- _ => apply Z.eqb_eq in X end.
  match goal with X : opt_eqb _ _ = true |- _ => apply opt_eqb_eq in X end. subst. reflexivity.
Qed.
Lemma opt_eqb_refl a : opt_eqb a a = true.
Proof. destruct a; cbn; [apply Z.eqb_refl|reflexivity]. Qed.
Lemma same_dt_refl d : same_dt d d = true.
Proof. unfold same_dt. rewrite !Z.eqb_refl, opt_eqb_refl. reflexivity. Qed.
Lemma same_tm_refl t : same_tm t t = true.
Proof. unfold same_tm. rewrite !Z.eqb_refl, opt_eqb_refl. reflexivity. Qed.
Lemma carrier_eqb_eq a b : carrier_eqb a b = true -> a = b.
Proof. destruct a, b; cbn; intros H; try discriminate; reflexivity. Qed.
Lemma carrier_eqb_refl a : carrier_eqb a a = true.
Proof. destruct a; reflexivity. Qed.
Lemma val_eqb_refl x : val_eqb x x = true.
Proof.
  destruct x; cbn [val_eqb]; rewrite ?Z.eqb_refl, ?String.eqb_refl, ?carrier_eqb_refl; try reflexivity.
  - destruct b; reflexivity.
  - unfold dtf_eqb. rewrite same_dt_refl, Z.eqb_refl. reflexivity.
  - unfold tmf_eqb. rewrite same_tm_refl, Z.eqb_refl. reflexivity.
Qed.
Lemma val_eqb_eq x y : val_eqb x y = true -> x = y.
Proof.
  destruct x, y; cbn [val_eqb]; intros H; try discriminate H;
    try (apply String.eqb_eq in H; subst; reflexivity).
  - reflexivity.
  - apply Bool.eqb_prop in H. subst. reflexivity.
  - apply Z.eqb_eq in H. subst. reflexivity.
  - apply andb_true_iff in H as [H1 H2]. apply carrier_eqb_eq in H1. apply String.eqb_eq in H2. subst. reflexivity.
  - repeat (apply andb_true_iff in H; destruct H as [H ?]).
    repeat match goal with X : (_ =? _)%Z = true |- _ => apply Z.eqb_eq in X end. subst. reflexivity.
  - unfold dtf_eqb in H. apply andb_true_iff in H as [H1 H2]. apply Z.eqb_eq in H2. rewrite (same_dt_eq _ _ H1 H2). reflexivity.
  - unfold tmf_eqb in H. apply andb_true_iff in H as [H1 H2]. apply Z.eqb_eq in H2. rewrite (same_tm_eq _ _ H1 H2). reflexivity.
  - repeat (apply andb_true_iff in H; destruct H as [H ?]).
    repeat match goal with X : (_ =? _)%Z = true |- _ => apply Z.eqb_eq in X end. subst. reflexivity.
Qed.
Lemma sim_val_refl x : sim_val x x.
Proof. destruct x; try reflexivity; cbn [sim_val]; [apply same_dt_refl|apply same_tm_refl]. Qed.
Lemma same_class_refl x : same_class x x = true.
Proof. destruct x; cbn [same_class]; rewrite ?String.eqb_refl, ?carrier_eqb_refl; reflexivity. Qed.

Section Scalar.
Variable rt : Runtime.
Variable ev : tok -> res val.

Lemma eqv_refl x : eqv rt x x = true.
Proof. unfold eqv. rewrite val_eqb_refl. reflexivity. Qed.
Lemma mem_of_member x vs : existsb (val_eqb x) vs = true -> mem rt x vs = true.
Proof.
  unfold mem. intros H. apply existsb_exists in H as (m & Hin & He). apply existsb_exists. exists m. split; [exact Hin|].
  unfold eqv. rewrite He. reflexivity.
Qed.

(* ---- whatever a scalar unmarshaller returns is an instance of its class ---- *)
Lemma view_plain_num y : (forall m, y <> VEnum m) -> view rt y = y.
Proof. destruct y; try reflexivity. intros H. destruct (H t eq_refl). Qed.

Lemma num_ctor_shape k x y : num_ctor rt k x = Ok y -> isinstance_num rt k y = true.
Proof. unfold num_ctor. intros H. destruct k; crush H; reflexivity. Qed.

Lemma unm_number_shape k x y : unm_number rt k x = Ok y -> isinstance_num rt k y = true.
Proof.
  unfold unm_number. intros H.
  destruct (decode rt x) as [d| |] eqn:Ed; cbn [bind] in H; try discriminate.
  destruct (isinstance_num rt k d) eqn:Ei; [inv H; exact Ei|].
  destruct (is_temporal x).
  - destruct (unixtime rt x); cbn [bind] in H; try discriminate. exact (num_ctor_shape _ _ _ H).
  - cbn [bind] in H. exact (num_ctor_shape _ _ _ H).
Qed.

Lemma unm_str_shape x y : unm_str rt x = Ok y -> inst rt LStr y = true.
Proof.
  unfold unm_str. intros H. destruct (decode rt x) as [d| |]; cbn [bind] in H; try discriminate.
  cbn [inst]. destruct (as_str rt d) eqn:E; [inv H; rewrite E; reflexivity|].
  destruct (is_temporal x); inv H; reflexivity.
Qed.

Lemma unm_literal_shape vs x y : unm_literal rt vs x = Ok y -> mem rt y vs = true.
Proof.
  unfold unm_literal. intros H. destruct (mem rt x vs) eqn:E1; [inv H; exact E1|].
  destruct (decode rt x) as [t| |]; cbn [bind] in H; try discriminate.
  destruct (mem rt t vs) eqn:E2; [inv H; exact E2|].
  destruct (load rt x) as [d| |]; cbn [bind] in H; try discriminate.
  destruct (mem rt d vs) eqn:E3; [inv H; exact E3|discriminate].
Qed.

Lemma unm_shape k x y : unm_of rt k x = Ok y -> cls rt k y = true.
Proof.
  destruct k; cbn [unm_of]; intros H; unfold cls.
  - apply unm_number_shape in H. destruct y; exact H.
  - apply unm_number_shape in H. destruct y; exact H.
  - apply unm_str_shape in H. destruct y; exact H.
  - unfold unm_bytes in H. crush H; reflexivity.
  - apply unm_number_shape in H. destruct y; exact H.
  - apply unm_number_shape in H. destruct y; exact H.
  - unfold unm_uuid in H. crush H; reflexivity.
  - unfold unm_path in H. crush H; reflexivity.
  - unfold unm_enum in H. destruct (match x with VEnum m => is_member rt m | _ => false end) eqn:E.
    + inv H. destruct y; try discriminate E. reflexivity.
    + crush H; reflexivity.
  - unfold unm_date in H. crush H; reflexivity.
  - unfold unm_datetime in H. crush H; reflexivity.
  - unfold unm_time in H. crush H; reflexivity.
  - unfold unm_timedelta in H. crush H; reflexivity.
  - apply unm_number_shape in H. destruct y; exact H.
  - unfold unm_pattern in H. crush H; reflexivity.
  - unfold unm_none in H. crush H; reflexivity.
  - apply unm_literal_shape in H. destruct y; exact H.
  - destruct y; reflexivity.
Qed.

(* ---- the isinstance short-circuit ---- *)
Lemma decode_nontext x : (forall c s, x <> VText c s) -> decode rt x = Ok x.
Proof. destruct x; try reflexivity. intros H. destruct (H c s eq_refl). Qed.

Lemma isinstance_num_decode k x : isinstance_num rt k x = true -> decode rt x = Ok x.
Proof. intros H. apply decode_nontext. intros c s ->. destruct k; discriminate H. Qed.

Lemma unm_pass k x : inst rt k x = true -> (k = LUuid -> LoadLaws rt) -> unm_of rt k x = Ok x.
Proof.
  intros Hs HL.
  assert (N : forall nk, isinstance_num rt nk x = true -> unm_number rt nk x = Ok x).
  { intros nk Hn. unfold unm_number. rewrite (isinstance_num_decode nk x Hn). cbn [bind]. rewrite Hn. reflexivity. }
  destruct k; cbn [inst] in Hs; cbn [unm_of]; try (apply N; exact Hs).
  - unfold unm_str. destruct (as_str rt x) eqn:E; [|discriminate Hs].
    destruct x; try (cbn [decode bind]; rewrite E; reflexivity).
    destruct c; try (unfold as_str in E; cbn [view] in E; discriminate E). reflexivity.
  - destruct x; try discriminate Hs. destruct c; try discriminate Hs. reflexivity.
  - destruct x; try discriminate Hs. unfold unm_uuid. rewrite (load_uuid_self rt (HL eq_refl)). reflexivity.
  - destruct x; try discriminate Hs. reflexivity.
  - destruct x; try discriminate Hs. unfold unm_enum. rewrite Hs. reflexivity.
  - destruct x; try discriminate Hs. reflexivity.
  - destruct x; try discriminate Hs. reflexivity.
  - destruct x; try discriminate Hs. reflexivity.
  - destruct x; try discriminate Hs. unfold unm_timedelta. reflexivity.
  - destruct x; try discriminate Hs. reflexivity.
  - destruct x; try discriminate Hs. reflexivity.
  - unfold unm_literal. rewrite Hs. reflexivity.
  - reflexivity.
Qed.

(* with "E(v) is a member of E": whatever a routine returns is an instance *)
Lemma unm_inst k x y : (forall w m, enum_of_val rt w = Ok m -> is_member rt m = true) ->
  unm_of rt k x = Ok y -> inst rt k y = true.
Proof.
  intros HE H. pose proof (unm_shape k x y H) as Hc.
  destruct k; try (unfold cls in Hc; destruct y; exact Hc).
  cbn [unm_of] in H. unfold unm_enum in H. destruct (match x with VEnum m => is_member rt m | _ => false end) eqn:E.
  - inv H. exact E.
  - cbn [inst]. destruct (decode rt x >>= enum_of_val rt) as [m|e|] eqn:E1.
    + inv H. unfold bind in E1. destruct (decode rt x); try discriminate E1. exact (HE _ _ E1).
    + assert (G : load rt x >>= enum_of_val rt >>= (fun m => Ok (VEnum m)) = Ok y) by (destruct e; try discriminate H; exact H).
      unfold bind in G. destruct (load rt x) as [d| |]; try discriminate G.
      destruct (enum_of_val rt d) as [m| |] eqn:E2; try discriminate G. inv G. exact (HE _ _ E2).
    + discriminate H.
Qed.

(* an exact instance is an instance *)
Lemma exact_inst k x : exact rt k x = true -> inst rt k x = true.
Proof.
  destruct k; cbn [exact inst]; intros H.
  17: { apply andb_true_iff in H as [_ H]. apply mem_of_member. exact H. }
  all: destruct x; try discriminate H; try reflexivity; try exact H.
  destruct c; try discriminate H. reflexivity.
Qed.

(* ---- robust marshallers return wire data ---- *)
Lemma find_forallb (A : Type) (p q : A -> bool) l m : find p l = Some m -> forallb q l = true -> q m = true.
Proof. intros Hf Hq. apply find_some in Hf as [Hin _]. rewrite forallb_forall in Hq. exact (Hq m Hin). Qed.

Lemma mar_prim k x w : robust_kind k = true -> mar_of rt ev k x = Ok w -> prim_val w = true.
Proof.
  intros Hk H. destruct k; try discriminate Hk; cbn [mar_of] in H;
    try (unfold mar_int, mar_float, mar_tostring, mar_iso, mar_bool, mar_none in H; crush H; reflexivity).
  unfold mar_literal in H. destruct (find (lit_match rt x) vs) as [m|] eqn:E; [|discriminate]. inv H.
  exact (find_forallb _ _ _ vs w E Hk).
Qed.

(* ---- NoneTypeUnmarshaller ---- *)
Lemma unm_none_ok x y : unm_none rt x = Ok y -> y = VNone.
Proof. unfold unm_none. intros H. destruct (decode rt x) as [d| |]; cbn [bind] in H; try discriminate. destruct d; inv H; reflexivity. Qed.

Lemma unm_none_rejects x : x <> VNone -> (forall b, utf8_decode rt b <> Unmodelled) ->
  exists e, unm_none rt x = Raise e.
Proof.
  intros Hx Ht. unfold unm_none.
  destruct x; try (eexists; reflexivity); [congruence|].
  destruct c; cbn [decode bind]; try (eexists; reflexivity);
    (destruct (utf8_decode rt s) as [s'|e|] eqn:E; cbn [bind]; [eexists; reflexivity|eexists; reflexivity|destruct (Ht s E)]).
Qed.

(* ---- LiteralMarshaller: a declared plain value is what it answers with ---- *)
Lemma lit_match_plain x m : lit_plain x = true -> lit_match rt x m = true -> m = x.
Proof.
  unfold lit_match, eqv. intros Hp H. apply andb_true_iff in H as [Hc He].
  apply orb_true_iff in He as [He|He]; [apply val_eqb_eq; exact He|].
  destruct x; try discriminate Hp; destruct m; try discriminate Hc; cbn [same_class] in Hc.
  - reflexivity.
  - unfold as_int in He. cbn [view] in He. apply Z.eqb_eq in He. destruct b, b0; try discriminate He; reflexivity.
  - unfold as_int in He. cbn [view] in He. apply Z.eqb_eq in He. subst. reflexivity.
  - apply carrier_eqb_eq in Hc. subst c0. unfold as_int in He. cbn [view] in He.
    destruct c; try discriminate Hp; apply String.eqb_eq in He; subst; reflexivity.
  - apply String.eqb_eq in Hc. subst. reflexivity.
Qed.

Lemma mar_literal_member vs x : lit_plain x = true -> existsb (val_eqb x) vs = true -> mar_literal rt vs x = Ok x.
Proof.
  intros Hp Hin. unfold mar_literal.
  destruct (find (lit_match rt x) vs) as [m|] eqn:E.
  - apply find_some in E as [_ Hm]. rewrite (lit_match_plain x m Hp Hm). reflexivity.
  - apply existsb_exists in Hin as (m & Hi & He). apply val_eqb_eq in He. subst m.
    pose proof (find_none _ _ E x Hi) as Hn. unfold lit_match in Hn. rewrite same_class_refl, eqv_refl in Hn. discriminate.
Qed.

Section WithLaws.
Hypothesis L : RuntimeLaws rt.

(* datetime: the value the text unmarshals to IS what pendulum parsed *)
Lemma datetime_of_parse d d' : pendulum_parse rt (canon_text rt (VDateTime d)) = Ok (PDT d') ->
  unm_datetime rt (VText CStr (canon_text rt (VDateTime d))) = Ok (VDateTime d').
Proof.
  intros Hp. unfold unm_datetime. cbn [is_number view bind decode].
  rewrite (dateparse_plain rt _ KDateTime (PDT d')); [reflexivity|discriminate| |exact Hp|intros e; discriminate].
  apply (canon_unsigned rt L (VDateTime d)). reflexivity.
Qed.

Lemma time_of_iso t t' : time_fromisoformat rt (canon_text rt (VTime t)) = Ok t' -> is_some_off t' = true ->
  unm_time rt (VText CStr (canon_text rt (VTime t))) = Ok (VTime t').
Proof.
  intros Hp Ho. unfold unm_time. cbn [decode bind is_number view]. unfold dateparse. rewrite Hp, Ho. reflexivity.
Qed.

Lemma same_tm_off t t' : valid_tm t = true -> same_tm t t' = true -> is_some_off t' = true.
Proof.
  intros Hv Hs. unfold valid_tm in Hv. apply andb_true_iff in Hv as [_ Hv].
  destruct (valid_off_some _ Hv) as [z Hz]. unfold same_tm in Hs. rewrite Hz in Hs.
  unfold is_some_off. destruct (toff t'); [reflexivity|]. cbn [opt_eqb] in Hs. rewrite andb_false_r in Hs. discriminate.
Qed.

(* ---- the scalar round trip: kinds whose wire form carries the whole value ---- *)
Lemma enum_round m w : enum_value_ok rt ev m = true -> ev m = Ok w -> unm_enum rt w = Ok (VEnum m).
Proof.
  unfold enum_value_ok. intros Hok Hw. rewrite Hw in Hok. apply andb_true_iff in Hok as [Hp Hm].
  unfold res_tok_is in Hm. destruct (enum_of_val rt w) as [m'| |] eqn:Ee; try discriminate.
  apply String.eqb_eq in Hm. subst m'.
  assert (Hd : decode rt w = Ok w) by (destruct w; try reflexivity; destruct c; try discriminate Hp; reflexivity).
  unfold unm_enum. destruct w; try discriminate Hp; rewrite Hd; cbn [bind]; rewrite Ee; reflexivity.
Qed.

Lemma pattern_round p : pattern_ok rt p = true -> unm_pattern rt (pattern_text rt p) = Ok (VPattern p).
Proof.
  unfold pattern_ok. intros H. destruct (pattern_text rt p) as [| | | |c s| | | | | | | | | | |]; try discriminate H.
  destruct c; try discriminate H. unfold res_tok_is in H.
  destruct (re_compile rt s) as [p'| |] eqn:E; try discriminate H. apply String.eqb_eq in H. subst p'.
  unfold unm_pattern. cbn [decode bind as_str view]. rewrite E. reflexivity.
Qed.

Lemma round_lit vs x w : exact rt (LLit vs) x = true -> mar_of rt ev (LLit vs) x = Ok w -> unm_of rt (LLit vs) w = Ok x.
Proof.
  intros Hs Hm. cbn [exact] in Hs. apply andb_true_iff in Hs as [Hp Hi]. cbn [mar_of] in Hm.
  rewrite (mar_literal_member vs x Hp Hi) in Hm. inv Hm. cbn [unm_of]. unfold unm_literal.
  rewrite (mem_of_member _ _ Hi). reflexivity.
Qed.

Lemma round_nonfold strict k x w : in_kind rt ev strict k x = true -> k <> LDateTime -> k <> LTime ->
  mar_of rt ev k x = Ok w -> unm_of rt k w = Ok x.
Proof.
  unfold in_kind. intros Hin Hk1 Hk2 Hm. apply andb_true_iff in Hin as [Hs Hr].
  destruct k; try congruence; try (exact (round_lit vs x w Hs Hm));
    try (cbn [mar_of] in Hm; unfold mar_noop in Hm; inv Hm; reflexivity).
  all: destruct x; try discriminate Hs; try (destruct c; try discriminate Hs);
    cbn [mar_of mar_int mar_float mar_bool mar_tostring mar_noop mar_enum mar_iso mar_pattern mar_none isoformat view truth bind range] in Hm, Hr.
  - inv Hm. reflexivity.
  - inv Hm. reflexivity.
  - inv Hm. reflexivity.
  - inv Hm. reflexivity.
  - inv Hm. exact (text_dec rt L CStr t).
  - inv Hm. exact (text_frac rt L CStr t).
  - inv Hm. exact (text_uuid rt L CStr t eq_refl).
  - inv Hm. exact (text_path rt L CStr t).
  - exact (enum_round t w Hr Hm).
  - inv Hm. exact (text_date rt L CStr y m d Hr).
  - inv Hm. exact (text_timedelta rt L CStr (d, s, us) Hr).
  - inv Hm. reflexivity.
  - inv Hm. exact (pattern_round t Hr).
  - inv Hm. reflexivity.
Qed.

Lemma round_dt_sim d w : valid_dt d = true -> mar_of rt ev LDateTime (VDateTime d) = Ok w ->
  exists d', unm_of rt LDateTime w = Ok (VDateTime d') /\ same_dt d d' = true.
Proof. intros Hv Hm. inv Hm. exact (text_datetime rt L CStr d Hv). Qed.
Lemma round_tm_sim t w : valid_tm t = true -> mar_of rt ev LTime (VTime t) = Ok w ->
  exists t', unm_of rt LTime w = Ok (VTime t') /\ same_tm t t' = true.
Proof. intros Hv Hm. inv Hm. exact (text_time rt L CStr t Hv). Qed.

Lemma round_dt_exact d w : FoldLaws rt -> valid_dt d = true -> dfold d = 0%Z ->
  mar_of rt ev LDateTime (VDateTime d) = Ok w -> unm_of rt LDateTime w = Ok (VDateTime d).
Proof.
  intros F Hv Hf Hm. inv Hm. destruct (parse_dt_rt rt L d Hv) as (d' & Hp & Hs).
  cbn [unm_of isoformat]. rewrite (datetime_of_parse d d' Hp). f_equal. f_equal. symmetry.
  apply same_dt_eq; [exact Hs|]. rewrite Hf. symmetry. exact (parse_fold0 rt F d d' Hv Hp).
Qed.
Lemma round_tm_exact t w : FoldLaws rt -> valid_tm t = true -> tfold t = 0%Z ->
  mar_of rt ev LTime (VTime t) = Ok w -> unm_of rt LTime w = Ok (VTime t).
Proof.
  intros F Hv Hf Hm. inv Hm. destruct (time_iso_rt rt L t Hv) as (t' & Hp & Hs).
  cbn [unm_of isoformat]. rewrite (time_of_iso t t' Hp (same_tm_off t t' Hv Hs)). f_equal. f_equal. symmetry.
  apply same_tm_eq; [exact Hs|]. rewrite Hf. symmetry. exact (timeiso_fold0 rt F t t' Hv Hp).
Qed.

(* exact: inside the strict range *)
Lemma round_exact k x w : FoldLaws rt -> in_kind rt ev true k x = true ->
  mar_of rt ev k x = Ok w -> unm_of rt k w = Ok x.
Proof.
  intros F Hin Hm.
  destruct k; try (apply (round_nonfold true _ x w Hin); [discriminate|discriminate|exact Hm]).
  - unfold in_kind in Hin. apply andb_true_iff in Hin as [Hs Hr]. destruct x; try discriminate Hs.
    cbn [range negb orb] in Hr. apply andb_true_iff in Hr as [Hv Hf]. apply Z.eqb_eq in Hf.
    exact (round_dt_exact d w F Hv Hf Hm).
  - unfold in_kind in Hin. apply andb_true_iff in Hin as [Hs Hr]. destruct x; try discriminate Hs.
    cbn [range negb orb] in Hr. apply andb_true_iff in Hr as [Hv Hf]. apply Z.eqb_eq in Hf.
    exact (round_tm_exact t w F Hv Hf Hm).
Qed.

(* up to the fold: the whole range, no law about folds *)
Lemma round_sim k x w : in_kind rt ev false k x = true -> mar_of rt ev k x = Ok w ->
  exists x', unm_of rt k w = Ok x' /\ sim_val x x'.
Proof.
  intros Hin Hm.
  destruct k; try (exists x; split; [apply (round_nonfold false _ x w Hin); [discriminate|discriminate|exact Hm]|
                                     apply sim_val_refl]).
  - unfold in_kind in Hin. apply andb_true_iff in Hin as [Hs Hr]. destruct x; try discriminate Hs.
    cbn [range negb orb] in Hr. rewrite andb_true_r in Hr.
    destruct (round_dt_sim d w Hr Hm) as (d' & H1 & H2). exists (VDateTime d'). split; [exact H1|exact H2].
  - unfold in_kind in Hin. apply andb_true_iff in Hin as [Hs Hr]. destruct x; try discriminate Hs.
    cbn [range negb orb] in Hr. rewrite andb_true_r in Hr.
    destruct (round_tm_sim t w Hr Hm) as (t' & H1 & H2). exists (VTime t'). split; [exact H1|exact H2].
Qed.

End WithLaws.

(* C04's guard for str-valued enums gives this bridge's guard *)
Lemma enum_value_ok_of_text m :
  ev m = Ok (VText CStr (canon_text rt (VEnum m))) ->
  enum_of_val rt (VText CStr (canon_text rt (VEnum m))) = Ok m -> enum_value_ok rt ev m = true.
Proof. intros H1 H2. unfold enum_value_ok. rewrite H1. cbn [plain andb]. rewrite H2. cbn [res_tok_is]. apply String.eqb_refl. Qed.

(* LiteralMarshaller rejects what is no declared value (by == and class) *)
Lemma mar_literal_rejects vs x : existsb (lit_match rt x) vs = false -> mar_literal rt vs x = Raise EValue.
Proof.
  intros H. unfold mar_literal. destruct (find (lit_match rt x) vs) as [m|] eqn:E; [|reflexivity].
  apply find_some in E as [Hin Hm]. assert (existsb (lit_match rt x) vs = true) by (apply existsb_exists; eauto). congruence.
Qed.

End Scalar.

(* ================================================================== B. the bridged runtime *)
Definition Utf8Total (rt : Runtime) : Prop := forall b, utf8_decode rt b <> Unmodelled.

Section Bridged.
Variable C : coding.
Variable kind_of : nat -> option leafkind.
Variable rts : nat -> Runtime.
Variable ev : tok -> res val.
Variable rt0 : Runtime.
Variable base : Core.runtime.
Hypothesis CL : coding_law C.

Notation brt := (bridged C kind_of rts ev rt0 base).
Notation cdec := (cdec C).
Notation encp := (encp C).
Notation decp := (decp C).
Notation lv := (lv C kind_of rts ev).

Lemma cdec_enc v : cdec (enc C v) = Some v.
Proof. unfold LeafBridge.cdec. rewrite (proj1 CL v), Nat.eqb_refl. reflexivity. Qed.
Lemma cdec_inv a x : cdec a = Some x -> a = enc C x.
Proof.
  unfold LeafBridge.cdec. destruct (dec C a) as [y|]; [|discriminate].
  destruct (Nat.eqb (enc C y) a) eqn:E; [|discriminate]. intros H. inv H. symmetry. apply Nat.eqb_eq. exact E.
Qed.

(* the two laws of the coding at the level of core values *)
Lemma decp_encp x : decp (encp x) = Some x.
Proof.
  destruct CL as (_ & K1 & K2). unfold LeafBridge.encp.
  assert (G : forall y, (forall s, y <> VText CStr s) -> decp (Core.PAtom (enc C y)) = Some y).
  { intros y Hy. cbn [LeafBridge.decp]. rewrite cdec_enc. destruct y; try reflexivity. destruct c; try reflexivity.
    destruct (Hy s eq_refl). }
  destruct x; try (apply G; intros; discriminate). destruct c; try (apply G; intros; discriminate).
  destruct (key_of C s) as [f|] eqn:Ek.
  - cbn [LeafBridge.decp]. rewrite (K2 s f Ek). reflexivity.
  - cbn [LeafBridge.decp]. rewrite cdec_enc, Ek. reflexivity.
Qed.
Lemma decp_inv p x : decp p = Some x -> p = encp x.
Proof.
  destruct CL as (_ & K1 & K2). unfold LeafBridge.decp, LeafBridge.encp.
  destruct p as [a|f| | | |]; try discriminate.
  - destruct (cdec a) as [y|] eqn:Ea; [|discriminate]. pose proof (cdec_inv a y Ea) as ->.
    destruct y; try (intros H; inv H; reflexivity). destruct c; try (intros H; inv H; reflexivity).
    destruct (key_of C s) eqn:Ek; [discriminate|]. intros H. inv H. rewrite Ek. reflexivity.
  - destruct (key_text C f) as [s|] eqn:Et; [|discriminate]. intros H. inv H. rewrite (K1 f s Et). reflexivity.
Qed.
Lemma encp_inj x y : encp x = encp y -> x = y.
Proof. intros H. pose proof (decp_encp x) as Hx. rewrite H, decp_encp in Hx. inv Hx. reflexivity. Qed.
Lemma encp_shape x : (exists a, encp x = Core.PAtom a) \/ (exists f, encp x = Core.PKey f).
Proof.
  unfold LeafBridge.encp. destruct x; eauto. destruct c; eauto. destruct (key_of C s); eauto.
Qed.
Lemma encp_none : encp VNone = b_none C.
Proof. reflexivity. Qed.

Lemma atom_eqb_eq (v : Core.pv) a : Core.pv_eqb v (Core.PAtom a) = true -> v = Core.PAtom a.
Proof. destruct v; cbn; intros H; try discriminate. apply Nat.eqb_eq in H. subst. reflexivity. Qed.

(* inversion of a leaf call that returned *)
Lemma run_leaf_ok f p w : run_leaf C f p = Core.Ok w ->
  exists x y, decp p = Some x /\ f x = Ok y /\ w = encp y.
Proof.
  unfold run_leaf. destruct (decp p) as [x|] eqn:Ea; [|discriminate]. unfold lift. destruct (f x) as [y|e|] eqn:Ef; try discriminate.
  intros H. inv H. exists x, y. repeat split; assumption.
Qed.
Lemma run_leaf_enc f x : run_leaf C f (encp x) = lift C (f x).
Proof. unfold run_leaf. rewrite decp_encp. reflexivity. Qed.

Lemma on_scalar_inv f p : on_scalar C f p = true -> exists x, decp p = Some x /\ f x = true.
Proof. unfold on_scalar. destruct (decp p) as [x|] eqn:E; [|discriminate]. intros H. exists x. split; [reflexivity|assumption]. Qed.

Lemma leaf_m_ok s k p w : kind_of s = Some k -> k <> LAny -> b_leaf_m C kind_of rts ev base s p = Core.Ok w ->
  exists x y, decp p = Some x /\ mar_of (rts s) ev k x = Ok y /\ w = encp y.
Proof.
  unfold b_leaf_m. intros Ek Hk H. rewrite Ek in H.
  assert (G : run_leaf C (mar_of (rts s) ev k) p = Core.Ok w).
  { destruct k; try exact H; try congruence. unfold run_leaf. cbn [mar_of]. destruct (decp p); [exact H|discriminate H]. }
  exact (run_leaf_ok _ _ _ G).
Qed.
Lemma leaf_u_ok s k p w : kind_of s = Some k -> k <> LAny -> b_leaf_u C kind_of rts base s p = Core.Ok w ->
  exists x y, decp p = Some x /\ unm_of (rts s) k x = Ok y /\ w = encp y.
Proof.
  unfold b_leaf_u. intros Ek Hk H. rewrite Ek in H.
  assert (G : run_leaf C (unm_of (rts s) k) p = Core.Ok w) by (destruct k; try exact H; congruence).
  exact (run_leaf_ok _ _ _ G).
Qed.
Lemma leaf_m_enc s k x : kind_of s = Some k -> k <> LAny ->
  b_leaf_m C kind_of rts ev base s (encp x) = lift C (mar_of (rts s) ev k x).
Proof.
  unfold b_leaf_m. intros Ek Hk. rewrite Ek. destruct k; try apply run_leaf_enc; try congruence.
  rewrite decp_encp. reflexivity.
Qed.
Lemma leaf_u_enc s k x : kind_of s = Some k -> k <> LAny ->
  b_leaf_u C kind_of rts base s (encp x) = lift C (unm_of (rts s) k x).
Proof. unfold b_leaf_u. intros Ek Hk. rewrite Ek. destruct k; try apply run_leaf_enc; congruence. Qed.
(* the pass-through leaves: every core value, both ways *)
Lemma any_leaf_u s p : any_leaf kind_of s = true -> Core.leaf_u brt s p = Core.Ok p.
Proof. unfold any_leaf. cbn [Core.leaf_u bridged]. unfold b_leaf_u. destruct (kind_of s) as [[]|]; try discriminate. reflexivity. Qed.
Lemma any_leaf_m s p : any_leaf kind_of s = true -> Core.leaf_m brt s p = Core.Ok p.
Proof. unfold any_leaf. cbn [Core.leaf_m bridged]. unfold b_leaf_m. destruct (kind_of s) as [[]|]; try discriminate. reflexivity. Qed.
Lemma any_leaf_lv strict s p : any_leaf kind_of s = true -> lv strict s p = true.
Proof. unfold any_leaf, LeafBridge.lv. destruct (kind_of s) as [[]|]; try discriminate. reflexivity. Qed.
(* validity at a leaf of the table: a pass-through leaf, or a scalar of the kind *)
Lemma lv_cases strict s v : lv strict s v = true ->
  any_leaf kind_of s = true \/
  exists k x, kind_of s = Some k /\ k <> LAny /\ decp v = Some x /\ in_kind (rts s) ev strict k x = true.
Proof.
  unfold LeafBridge.lv, any_leaf. destruct (kind_of s) as [k|] eqn:Ek; [|discriminate]. intros H.
  destruct k; try (right; destruct (on_scalar_inv _ _ H) as (x & Ea & Hin); eexists _, x; repeat split; [discriminate|exact Ea|exact Hin]).
  left. reflexivity.
Qed.
Lemma lv_inst_cases s v : lv_inst C kind_of rts s v = true ->
  any_leaf kind_of s = true \/
  exists k x, kind_of s = Some k /\ k <> LAny /\ decp v = Some x /\ inst (rts s) k x = true.
Proof.
  unfold lv_inst, any_leaf. destruct (kind_of s) as [k|] eqn:Ek; [|discriminate]. intros H.
  destruct k; try (right; destruct (on_scalar_inv _ _ H) as (x & Ea & Hin); eexists _, x; repeat split; [discriminate|exact Ea|exact Hin]).
  left. reflexivity.
Qed.

(* ---- NoneLaws ---- *)
Lemma b_none_pass : Core.none_u brt (Core.none brt) = Core.Ok (Core.none brt).
Proof. cbn [Core.none_u Core.none bridged]. unfold b_none_u. rewrite <- encp_none, decp_encp. reflexivity. Qed.

Lemma bridged_none_laws : Utf8Total rt0 -> (forall e, Core.suppressed base (exn_map e) = true) ->
  CoreValid.NoneLaws brt.
Proof.
  intros Ht Hsup. split; [exact b_none_pass|].
  intros v Hv. cbn [Core.none_u Core.none Core.suppressed bridged] in *. unfold b_none_u.
  destruct (decp v) as [x|] eqn:Ea; [|exists Core.EValue; split; [reflexivity|exact (Hsup EValue)]].
  assert (Hx : x <> VNone).
  { intros ->. apply decp_inv in Ea. subst v. rewrite encp_none in Hv. unfold b_none in Hv. cbn [Core.pv_eqb] in Hv.
    rewrite Nat.eqb_refl in Hv. discriminate. }
  destruct (unm_none_rejects rt0 x Hx Ht) as [e He]. rewrite He. exists (exn_map e). split; [reflexivity|apply Hsup].
Qed.

(* ---- RoundLaws (C01), exact equality, strict range ---- *)
Lemma bridged_leaf_round : (forall s, RuntimeLaws (rts s)) -> (forall s, FoldLaws (rts s)) ->
  forall s v w, lv true s v = true -> Core.leaf_m brt s v = Core.Ok w -> Core.leaf_u brt s w = Core.Ok v.
Proof.
  intros HL HF s v w Hv Hm. destruct (lv_cases _ _ _ Hv) as [Ha|(k & x & Ek & Hk & Ea & Hin)].
  - rewrite (any_leaf_m s v Ha) in Hm. inv Hm. exact (any_leaf_u s w Ha).
  - cbn [Core.leaf_m Core.leaf_u bridged] in *.
    destruct (leaf_m_ok s k _ _ Ek Hk Hm) as (x' & y & Ea' & Hf & ->). rewrite Ea in Ea'. inv Ea'.
    rewrite (leaf_u_enc s k y Ek Hk). rewrite (round_exact (rts s) ev (HL s) k x' y (HF s) Hin Hf). cbn [lift].
    rewrite (decp_inv _ _ Ea). reflexivity.
Qed.

Lemma bridged_none_round v : Core.is_none_val brt v = true -> Core.none_u brt v = Core.Ok v.
Proof.
  unfold Core.is_none_val. cbn [Core.none bridged]. unfold b_none. intros H. apply atom_eqb_eq in H. subst v.
  exact b_none_pass.
Qed.

Lemma bridged_round_laws : (forall s, RuntimeLaws (rts s)) -> (forall s, FoldLaws (rts s)) ->
  CoreC01.RoundLaws brt (lv true).
Proof. intros HL HF. split; [exact (bridged_leaf_round HL HF)|exact bridged_none_round]. Qed.

(* ---- the round trip up to the fold, on the whole range, from RuntimeLaws alone ---- *)
Lemma bridged_leaf_round_sim : (forall s, RuntimeLaws (rts s)) ->
  forall s v w, lv false s v = true -> Core.leaf_m brt s v = Core.Ok w ->
  exists v', Core.leaf_u brt s w = Core.Ok v' /\ sim_pv C v v'.
Proof.
  intros HL s v w Hv Hm. destruct (lv_cases _ _ _ Hv) as [Ha|(k & x & Ek & Hk & Ea & Hin)].
  - rewrite (any_leaf_m s v Ha) in Hm. inv Hm. exists w. split; [exact (any_leaf_u s w Ha)|left; reflexivity].
  - cbn [Core.leaf_m Core.leaf_u bridged] in *.
    destruct (leaf_m_ok s k _ _ Ek Hk Hm) as (x' & y & Ea' & Hf & ->). rewrite Ea in Ea'. inv Ea'.
    destruct (round_sim (rts s) ev (HL s) k x' y Hin Hf) as (x'' & Hu & Hsim).
    exists (encp x''). rewrite (leaf_u_enc s k y Ek Hk), Hu. split; [reflexivity|].
    right. exists x', x''. repeat split; [exact Ea|apply decp_encp|exact Hsim].
Qed.

(* ---- PassLaws / IdemLaws (C13) ---- *)
Lemma bridged_lv_inst_pass : (forall s, LoadLaws (rts s)) ->
  forall s v, lv_inst C kind_of rts s v = true -> Core.leaf_u brt s v = Core.Ok v.
Proof.
  intros HLd s v Hv. destruct (lv_inst_cases _ _ Hv) as [Ha|(k & x & Ek & Hk & Ea & Hs)]; [exact (any_leaf_u s v Ha)|].
  cbn [Core.leaf_u bridged]. rewrite (decp_inv _ _ Ea), (leaf_u_enc s k x Ek Hk).
  rewrite (unm_pass (rts s) k x Hs (fun _ => HLd s)). reflexivity.
Qed.

Lemma bridged_lv_pass strict : (forall s, LoadLaws (rts s)) ->
  forall s v, lv strict s v = true -> Core.leaf_u brt s v = Core.Ok v.
Proof.
  intros HLd s v Hv. destruct (lv_cases _ _ _ Hv) as [Ha|(k & x & Ek & Hk & Ea & Hin)]; [exact (any_leaf_u s v Ha)|].
  unfold in_kind in Hin. apply andb_true_iff in Hin as [Hs _]. apply exact_inst in Hs.
  cbn [Core.leaf_u bridged]. rewrite (decp_inv _ _ Ea), (leaf_u_enc s k x Ek Hk).
  rewrite (unm_pass (rts s) k x Hs (fun _ => HLd s)). reflexivity.
Qed.

(* a leaf id the table does not know keeps the routine of [base]: idempotence there is the base runtime's business *)
Definition base_idem : Prop :=
  forall s x y, kind_of s = None -> Core.leaf_u base s x = Core.Ok y -> Core.leaf_u base s y = Core.Ok y.

Lemma bridged_leaf_idem : (forall s, LoadLaws (rts s)) ->
  (forall s w m, enum_of_val (rts s) w = Ok m -> is_member (rts s) m = true) -> base_idem ->
  forall s x y, Core.leaf_u brt s x = Core.Ok y -> Core.leaf_u brt s y = Core.Ok y.
Proof.
  intros HLd HE HB s x y H. cbn [Core.leaf_u bridged] in *.
  destruct (kind_of s) as [k|] eqn:Ek.
  - assert (Dk : k = LAny \/ k <> LAny) by (destruct k; try (right; discriminate); left; reflexivity).
    destruct Dk as [->|Hk].
    + unfold b_leaf_u in *. rewrite Ek in *. reflexivity.
    + destruct (leaf_u_ok s k _ _ Ek Hk H) as (x0 & y0 & Ea & Hf & ->).
      rewrite (leaf_u_enc s k y0 Ek Hk).
      rewrite (unm_pass (rts s) k y0 (unm_inst (rts s) k x0 y0 (HE s) Hf) (fun _ => HLd s)). reflexivity.
  - unfold b_leaf_u in *. rewrite Ek in *. exact (HB s x y Ek H).
Qed.

Lemma bridged_pass_laws strict : Utf8Total rt0 -> (forall e, Core.suppressed base (exn_map e) = true) ->
  (forall s, LoadLaws (rts s)) -> CoreValid.PassLaws brt (lv strict).
Proof. intros Ht Hs HLd. split; [exact (bridged_none_laws Ht Hs)|exact (bridged_lv_pass strict HLd)]. Qed.
Lemma bridged_idem_laws : Utf8Total rt0 -> (forall e, Core.suppressed base (exn_map e) = true) ->
  (forall s, LoadLaws (rts s)) -> (forall s w m, enum_of_val (rts s) w = Ok m -> is_member (rts s) m = true) ->
  base_idem -> CoreValid.IdemLaws brt.
Proof. intros Ht Hs HLd HE HB. split; [exact (bridged_none_laws Ht Hs)|exact (bridged_leaf_idem HLd HE HB)]. Qed.
Lemma bridged_pass_laws_inst : Utf8Total rt0 -> (forall e, Core.suppressed base (exn_map e) = true) ->
  (forall s, LoadLaws (rts s)) -> CoreValid.PassLaws brt (lv_inst C kind_of rts).
Proof. intros Ht Hs HLd. split; [exact (bridged_none_laws Ht Hs)|exact (bridged_lv_inst_pass HLd)]. Qed.

(* ---- LeafLaws (C03): no interpreter law at all ---- *)
Lemma bridged_leaf_laws : CoreC03.LeafLaws brt (leaf_class_ok C kind_of rts).
Proof.
  split.
  - intros s x v H. cbn [Core.leaf_u bridged] in H. unfold leaf_class_ok.
    destruct (kind_of s) as [k|] eqn:Ek; [|reflexivity].
    assert (Dk : k = LAny \/ k <> LAny) by (destruct k; try (right; discriminate); left; reflexivity).
    destruct Dk as [->|Hk]; [reflexivity|].
    destruct (leaf_u_ok s k _ _ Ek Hk H) as (x0 & y0 & Ea & Hf & ->).
    assert (G : on_scalar C (cls (rts s) k) (encp y0) = true)
      by (unfold on_scalar; rewrite decp_encp; exact (unm_shape (rts s) k x0 y0 Hf)).
    destruct k; try exact G. congruence.
  - intros x v H. cbn [Core.none_u Core.none bridged] in *. unfold b_none_u in H.
    destruct (decp x) as [x0|]; [|discriminate].
    unfold lift in H. destruct (unm_none rt0 x0) as [y| |] eqn:E; try discriminate. inv H.
    rewrite (unm_none_ok rt0 x0 y E). reflexivity.
Qed.

(* ---- MarshalLaws (C06): no interpreter law at all ---- *)
Lemma is_wire_encp w : prim_val w = true -> CoreC06.is_wire (prim_atom C) (encp w) = true.
Proof.
  intros Hw. pose proof (decp_encp w) as Hd. destruct (encp_shape w) as [[a E]|[f E]]; rewrite E in *; [|reflexivity].
  cbn [CoreC06.is_wire]. unfold prim_atom, on_scalar. rewrite Hd. exact Hw.
Qed.

Lemma bridged_marshal_laws strict :
  CoreC06.MarshalLaws brt (prim_atom C) (robust_leaf kind_of) (robust_leaf kind_of) (lv strict)
    (lit_leaf kind_of) (lit_member C kind_of rts).
Proof.
  assert (R : forall s x w, robust_leaf kind_of s = true -> Core.leaf_m brt s x = Core.Ok w ->
                            CoreC06.is_wire (prim_atom C) w = true).
  { intros s x w Hr H. cbn [Core.leaf_m bridged] in H. unfold robust_leaf in Hr.
    destruct (kind_of s) as [k|] eqn:Ek; [|discriminate].
    assert (Hk : k <> LAny) by (intros ->; discriminate Hr).
    destruct (leaf_m_ok s k _ _ Ek Hk H) as (x0 & y0 & Ea & Hf & ->).
    apply is_wire_encp. exact (mar_prim (rts s) ev k x0 y0 Hr Hf). }
  split.
  - exists (enc C VNone). split; [reflexivity|]. unfold prim_atom, on_scalar. change (Core.PAtom (enc C VNone)) with (encp VNone).
    rewrite decp_encp. reflexivity.
  - exact R.
  - intros s x w Hr _ H. exact (R s x w Hr H).
  - intros s x Hl Hm. cbn [Core.leaf_m bridged]. unfold lit_leaf in Hl. unfold lit_member in Hm. unfold b_leaf_m.
    destruct (kind_of s) as [k|]; [|discriminate Hl]. destruct k; try discriminate Hl.
    unfold on_scalar in Hm. destruct (decp x) as [x0|]; [|reflexivity].
    rewrite (mar_literal_rejects (rts s) vs x0 Hm). reflexivity.
Qed.

(* ---- marshalling a leaf is injective (C01_keys_of_leaf_law), when == between distinct atoms is never claimed ---- *)
Lemma pyeq_encp y1 y2 : (forall a b, Core.atom_eq base a b = true -> a = b) ->
  Core.pv_pyeq brt (encp y1) (encp y2) = true -> encp y1 = encp y2.
Proof.
  intros Hae. destruct (encp_shape y1) as [[a E1]|[f E1]]; destruct (encp_shape y2) as [[b E2]|[g E2]]; rewrite E1, E2;
    cbn [Core.pv_pyeq Core.pv_eqb Core.atom_eq bridged]; intros H; try discriminate H.
  - apply orb_true_iff in H as [H|H]; [apply Nat.eqb_eq in H; subst; reflexivity|rewrite (Hae _ _ H); reflexivity].
  - apply Nat.eqb_eq in H. subst. reflexivity.
Qed.

Lemma bridged_leaf_m_inj : (forall s, RuntimeLaws (rts s)) -> (forall s, FoldLaws (rts s)) ->
  (forall a b, Core.atom_eq base a b = true -> a = b) -> CoreC01.leaf_m_inj brt (lv true).
Proof.
  intros HL HF Hae s v1 v2 w1 w2 H1 H2 M1 M2 Heq.
  destruct (lv_cases _ _ _ H1) as [Ha|(k & x1 & Ek & Hk & D1 & _)].
  - rewrite (any_leaf_m s v1 Ha) in M1. rewrite (any_leaf_m s v2 Ha) in M2. inv M1. inv M2. exact Heq.
  - pose proof (bridged_leaf_round HL HF s v1 w1 H1 M1) as U1.
    pose proof (bridged_leaf_round HL HF s v2 w2 H2 M2) as U2.
    cbn [Core.leaf_m bridged] in M1, M2.
    destruct (leaf_m_ok s k _ _ Ek Hk M1) as (x1' & y1 & _ & _ & ->).
    destruct (leaf_m_ok s k _ _ Ek Hk M2) as (x2 & y2 & D2 & _ & ->).
    rewrite (pyeq_encp y1 y2 Hae Heq) in U1. rewrite U1 in U2. inv U2.
    rewrite (decp_inv _ _ D2). destruct (encp_shape x2) as [[a E]|[f E]]; rewrite E;
      cbn [Core.pv_pyeq Core.pv_eqb]; rewrite Nat.eqb_refl; reflexivity.
Qed.

(* C06's wire law does NOT hold at a pass-through leaf (it is outside fully_annotated: robust_leaf is false there):
   whatever goes in comes out, a set for instance *)
Lemma any_leaf_not_wire s : any_leaf kind_of s = true ->
  robust_leaf kind_of s = false /\
  Core.leaf_m brt s (Core.PSeq Core.KSet []) = Core.Ok (Core.PSeq Core.KSet []) /\
  CoreC06.is_wire (prim_atom C) (Core.PSeq Core.KSet []) = false.
Proof.
  intros Ha. split; [|split; [exact (any_leaf_m s _ Ha)|reflexivity]].
  unfold any_leaf in Ha. unfold robust_leaf. destruct (kind_of s) as [[]|]; try discriminate Ha. reflexivity.
Qed.

End Bridged.

(* ================================================================== C. the concrete coding satisfies the coding law *)
Lemma pz_app z r : pz (tz z ++ r) = Some (z, r).
Proof.
  unfold tz, pz. cbn [app]. destruct (Z.ltb z 0) eqn:E; cbn [Nat.eqb]; f_equal; f_equal.
  - apply Z.ltb_lt in E. rewrite Zabs2Nat.id_abs. lia.
  - apply Z.ltb_ge in E. rewrite Zabs2Nat.id_abs. lia.
Qed.
Lemma pz_end z : pz (tz z) = Some (z, []).
Proof. rewrite <- (app_nil_r (tz z)). apply pz_app. Qed.
Lemma take_chars_app cs r : take_chars (List.length cs) (map nat_of_ascii cs ++ r) = Some (cs, r).
Proof.
  induction cs as [|c cs IH]; [reflexivity|]. cbn [List.length map app take_chars]. rewrite IH. cbn [obind].
  rewrite ascii_nat_embedding. reflexivity.
Qed.
Lemma pstr_app s r : pstr (tstr s ++ r) = Some (s, r).
Proof.
  unfold tstr, pstr. cbn [app]. rewrite take_chars_app. cbn [obind]. rewrite string_of_list_ascii_of_string. reflexivity.
Qed.
Lemma ptag_tstr f s : ptag f (tstr s) = Some (f s).
Proof. unfold ptag. rewrite <- (app_nil_r (tstr s)), pstr_app. reflexivity. Qed.
Lemma poz_app o r : poz (toz o ++ r) = Some (o, r).
Proof.
  destruct o as [z|]; cbn [toz app poz]; [|reflexivity]. rewrite pz_app. reflexivity.
Qed.
Lemma pcar_tcar c : pcar (tcar c) = c.
Proof. destruct c; reflexivity. Qed.

Lemma val_of_tokens_of v : val_of_tokens (tokens_of v) = Some v.
Proof.
  destruct v; cbn [tokens_of val_of_tokens]; rewrite ?ptag_tstr, ?pcar_tcar; try reflexivity.
  - destruct b; reflexivity.
  - rewrite pz_end. reflexivity.
  - rewrite !pz_app. cbn [obind]. rewrite !pz_app. cbn [obind]. rewrite pz_end. reflexivity.
  - destruct d as [y mo dd0 h mi s us o fo]. cbn [dy dmo dd dh dmi ds dus doff dfold].
    repeat (rewrite ?pz_app, ?poz_app; cbn [obind]). rewrite pz_end. reflexivity.
  - destruct t as [h mi s us o fo]. cbn [th tmi ts tus toff tfold].
    repeat (rewrite ?pz_app, ?poz_app; cbn [obind]). rewrite pz_end. reflexivity.
  - repeat (rewrite ?pz_app; cbn [obind]). rewrite pz_end. reflexivity.
Qed.

Lemma tokens_of_bits_app acc n r :
  tokens_of_bits acc (repeat true n ++ false :: r) = (acc + n) :: tokens_of_bits 0 r.
Proof.
  revert acc. induction n as [|n IH]; intros acc; cbn [repeat app tokens_of_bits].
  - rewrite Nat.add_0_r. reflexivity.
  - rewrite IH. f_equal. lia.
Qed.
Lemma tokens_of_bits_of l : tokens_of_bits 0 (bits_of_tokens l) = l.
Proof. induction l as [|n l IH]; [reflexivity|]. cbn [bits_of_tokens]. rewrite tokens_of_bits_app, IH. reflexivity. Qed.
Lemma bits_of_pos_of l : bits_of_pos (pos_of_bits l) = l.
Proof. induction l as [|[|] l IH]; cbn [pos_of_bits bits_of_pos]; rewrite ?IH; reflexivity. Qed.

Lemma std_dec_enc v : std_dec (std_enc v) = Some v.
Proof. unfold std_dec, std_enc. rewrite Pos2Nat.id, bits_of_pos_of, tokens_of_bits_of. apply val_of_tokens_of. Qed.

Lemma with_keys_law e d : (forall v, d (e v) = Some v) -> coding_law (with_keys e d).
Proof.
  intros H. split; [exact H|]. split.
  - intros [|f] s E; cbn in E; inv E. reflexivity.
  - intros s f E. cbn in E. destruct (String.eqb s "kids") eqn:Es; inv E. apply String.eqb_eq in Es. subst. reflexivity.
Qed.
Lemma std_coding_law : coding_law std_coding.
Proof. exact (with_keys_law std_enc std_dec std_dec_enc). Qed.

(* ================================================================== D. the toy runtime satisfies the extra laws *)
Lemma toy_load_laws : LoadLaws toy_rt.
Proof. split. reflexivity. Qed.
Lemma toy_utf8_total : Utf8Total toy_rt.
Proof. intros b. discriminate. Qed.

Ltac crush_opt H :=
  repeat (unfold IsoText.obind in H;
    match type of H with
    | Some _ = Some _ => inv H
    | None = Some _ => discriminate H
    | context [match ?x with _ => _ end] => let E := fresh "E" in destruct x eqn:E
    end).

Lemma read_clock_fold0 s t : read_clock s = Some t -> tfold t = 0%Z.
Proof. unfold read_clock. intros H. crush_opt H; reflexivity. Qed.

Lemma toy_parse_fold0 s d : toy_parse s = Ok (PDT d) -> dfold d = 0%Z.
Proof.
  unfold toy_parse, toy_parse_chars. intros H.
  destruct (read_date_prefix (list_ascii_of_string s)) as [[[[y m] dd0] rest]|].
  - destruct rest as [|c r]; [inv H; reflexivity|].
    destruct (Ascii.eqb c "T"); [|discriminate]. destruct (read_clock r) as [t|]; [|discriminate]. inv H. reflexivity.
  - destruct (read_iso_duration_chars (list_ascii_of_string s)) as [[[a b] c]|]; [discriminate|].
    destruct (list_ascii_of_string s) as [|a [|b [|c r]]]; try discriminate.
    destruct (Ascii.eqb a "P" && Ascii.eqb b "T"); discriminate.
Qed.

Lemma toy_fold_laws : FoldLaws toy_rt.
Proof.
  split.
  - intros d d' _ H. exact (toy_parse_fold0 _ _ H).
  - intros t t' _ H. cbn [time_fromisoformat toy_rt] in H. unfold toy_time_fromiso in H.
    destruct (read_iso_time (canon_text toy_rt (VTime t))) as [t0|] eqn:E; [|discriminate]. inv H.
    exact (read_clock_fold0 _ _ E).
Qed.

(* the laws of RuntimeLaws do not mention the enum class at hand *)
Lemma with_enum_laws rt f : RuntimeLaws rt -> (forall w m, f w = Ok m -> is_member rt m = true) ->
  RuntimeLaws (with_enum rt f).
Proof.
  intros L HF. split.
  - exact (utf8_rt rt L). - exact (int_text_rt rt L). - exact (float_text_rt rt L). - exact (dec_text_rt rt L).
  - exact (frac_text_rt rt L). - exact (uuid_text_rt rt L). - exact (path_text_rt rt L).
  - exact (uuid_text_not_loadable rt L). - exact (parse_date_rt rt L). - exact (parse_dt_rt rt L).
  - exact (time_iso_rt rt L). - exact (canon_unsigned rt L). - exact (parse_dur_rt rt L). - exact HF.
Qed.

(* ================================================================== E. witnesses and the example instance *)
(* ---- scalar level, by computation on the toy runtime ---- *)
Local Open Scope string_scope.
Lemma fold_round_fails_scalar :
  in_kind toy_rt ex_ev false LDateTime (VDateTime ex_dt_fold1) = true /\
  in_kind toy_rt ex_ev true LDateTime (VDateTime ex_dt_fold1) = false /\
  mar_of toy_rt ex_ev LDateTime (VDateTime ex_dt_fold1) = Ok (VText CStr "2020-01-01T17:00:00.999999+05:30") /\
  unm_of toy_rt LDateTime (VText CStr "2020-01-01T17:00:00.999999+05:30") = Ok (VDateTime ex_dt) /\
  same_dt ex_dt_fold1 ex_dt = true /\ ex_dt <> ex_dt_fold1.
Proof. vm_compute. repeat split; discriminate. Qed.

Lemma enum_bytes_round_fails :
  RuntimeLaws (with_enum toy_rt bytes_enum_of_val) /\
  exact (with_enum toy_rt bytes_enum_of_val) LEnum (VEnum "E.c") = true /\
  bytes_enum_value "E.c" = Ok (VText CBytes "yy") /\
  enum_of_val (with_enum toy_rt bytes_enum_of_val) (VText CBytes "yy") = Ok "E.c"%string /\
  enum_value_ok (with_enum toy_rt bytes_enum_of_val) bytes_enum_value "E.c" = false /\
  mar_of (with_enum toy_rt bytes_enum_of_val) bytes_enum_value LEnum (VEnum "E.c") = Ok (VText CBytes "yy") /\
  unm_of (with_enum toy_rt bytes_enum_of_val) LEnum (VText CBytes "yy") = Raise EValue.
Proof. split; [exact (with_enum_laws toy_rt _ toy_laws (fun _ _ _ => eq_refl))|]. vm_compute. repeat split. Qed.

Lemma zero_duration_facts :
  (forall rt, RuntimeLaws rt ->
     mar_of rt ex_ev LTimeDelta (VTimeDelta 0 0 0) = Ok (VText CStr "PT") /\
     unm_of rt LTimeDelta (VText CStr "PT") = Ok (VTimeDelta 0 0 0)) /\
  iso8601_duration "PT" = false /\ read_iso_duration "PT" = None /\
  unm_of (with_parse toy_rt (strict_parse toy_parse)) LTimeDelta (VText CStr "PT") = Raise EValue /\
  unm_of (with_parse toy_rt (strict_parse toy_parse)) LTimeDelta (VText CStr "PT1S") = Ok (VTimeDelta 0 1 0).
Proof.
  split; [|vm_compute; repeat split].
  intros rt L. split; [reflexivity|]. exact (text_timedelta rt L CStr (0, 0, 0)%Z eq_refl).
Qed.

(* a compiled pattern is written without its flags; a bytes pattern is written as bytes and read back as a str pattern *)
Lemma pattern_round_fails :
  exact toy_rt LPattern (VPattern "a+/I") = true /\ pattern_ok toy_rt "a+/I" = false /\
  mar_of toy_rt ex_ev LPattern (VPattern "a+/I") = Ok (VText CStr "a+") /\
  unm_of toy_rt LPattern (VText CStr "a+") = Ok (VPattern "a+") /\
  pattern_ok toy_rt "b:a" = false /\ mar_of toy_rt ex_ev LPattern (VPattern "b:a") = Ok (VText CBytes "a") /\
  unm_of toy_rt LPattern (VText CBytes "a") = Ok (VPattern "a") /\
  pattern_ok toy_rt "a+" = true /\ unm_of toy_rt LPattern (VText CStr "(") = Raise EOther.
Proof. vm_compute. repeat split. Qed.

(* instances that are not of the exact class pass through but do not round-trip: True under int, a member of a
   str-mixin enum under str, a value == to a declared one under a Literal; bool('false') is True *)
Lemma instance_round_fails :
  inst toy_rt LInt (VBool true) = true /\ exact toy_rt LInt (VBool true) = false /\
  unm_of toy_rt LInt (VBool true) = Ok (VBool true) /\ mar_of toy_rt ex_ev LInt (VBool true) = Ok (VInt 1) /\
  unm_of toy_rt LInt (VInt 1) = Ok (VInt 1) /\
  inst toy_rt LStr (VEnum "SM.a") = true /\ unm_of toy_rt LStr (VEnum "SM.a") = Ok (VEnum "SM.a") /\
  mar_of toy_rt ex_ev LStr (VEnum "SM.a") = Ok (VText CStr "SM.a") /\
  inst toy_rt (LLit ex_lit) (VBool true) = true /\ exact toy_rt (LLit ex_lit) (VBool true) = false /\
  unm_of toy_rt (LLit ex_lit) (VBool true) = Ok (VBool true) /\
  mar_of toy_rt ex_ev (LLit ex_lit) (VBool true) = Raise EValue /\
  unm_of toy_rt (LLit ex_lit) (VText CBytes "a") = Ok (VText CStr "a") /\
  unm_of toy_rt LBool (VText CStr "false") = Ok (VBool true) /\ unm_of toy_rt LBool (VText CBytes "") = Ok (VBool false) /\
  unm_of toy_rt LInt (VEnum "IE.one") = Ok (VEnum "IE.one") /\ mar_of toy_rt ex_ev LInt (VEnum "IE.one") = Ok (VInt 1).
Proof. vm_compute. repeat split. Qed.

(* ---- bridged level ---- *)
Section Instance.
Variable e : val -> nat.
Variable d : nat -> option val.
Hypothesis DE : forall v, d (e v) = Some v.

Notation xC := (with_keys e d).
Notation xrt := (bridged (with_keys e d) ex_kinds (fun _ => toy_rt) ex_ev toy_rt ex_base).
Notation xlv := (lv (with_keys e d) ex_kinds (fun _ => toy_rt) ex_ev).
Definition no_env : Core.env := fun _ => None.
Let CLx : coding_law xC := with_keys_law e d DE.

Lemma ex_lv_enc strict s x : xlv strict s (encp xC x) =
  match ex_kinds s with Some k => in_kind toy_rt ex_ev strict k x | None => false end.
Proof. unfold lv, on_scalar. destruct (ex_kinds s) as [k|]; [|reflexivity]. destruct k; rewrite ?(decp_encp xC CLx); reflexivity. Qed.

Lemma ex_hyps :
  CoreC01.valid xrt (xlv true) no_env 4 ex_T (ex_pv xC Core.KTuple ex_vals) = true /\
  CoreC01.c01_guard xrt no_env 4 ex_T (ex_pv xC Core.KTuple ex_vals) = true /\
  CoreC01.union_unamb xrt (xlv true) no_env 4 ex_T (ex_pv xC Core.KTuple ex_vals) = true.
Proof.
  split; [|split; reflexivity].
  unfold ex_T, ex_pv, ex_vals.
  cbn [CoreC01.valid CoreC01.forallb2 forallb Core.seqkind_eqb andb map].
  rewrite !ex_lv_enc. vm_compute. reflexivity.
Qed.

Lemma ex_mar : Core.mar xrt no_env 4 ex_T (ex_pv xC Core.KTuple ex_vals) = Core.Ok (ex_pv xC Core.KList ex_wire).
Proof.
  unfold ex_T, ex_pv, ex_vals, ex_wire.
  cbn [Core.mar Core.itervalues Core.bind Core.mapM Core.zip_trunc map fst snd Core.leaf_m bridged].
  repeat (erewrite (leaf_m_enc xC ex_kinds (fun _ => toy_rt) ex_ev ex_base CLx) by (reflexivity || discriminate)). vm_compute. reflexivity.
Qed.

Lemma ex_unm : Core.unm xrt no_env 4 ex_T (ex_pv xC Core.KList ex_wire) = Core.Ok (ex_pv xC Core.KTuple ex_vals).
Proof.
  unfold ex_T, ex_pv, ex_vals, ex_wire.
  cbn [Core.unm Core.elem_conv Core.hashes Core.load Core.is_scalar Core.itervalues Core.bind Core.mapM Core.zip_trunc map fst snd
       Core.leaf_u bridged Core.construct_seq List.length Nat.ltb Nat.leb].
  unfold b_leaf_u. cbn [ex_kinds]. rewrite !(run_leaf_enc xC CLx). vm_compute. reflexivity.
Qed.

(* a pass-through leaf: tuple[Any, int] with a set (holding a tuple) at the Any position *)
Lemma ex_any :
  CoreC01.valid xrt (xlv true) no_env 3 ex_any_T (ex_any_pv xC Core.KTuple) = true /\
  Core.mar xrt no_env 3 ex_any_T (ex_any_pv xC Core.KTuple) = Core.Ok (ex_any_pv xC Core.KList) /\
  Core.unm xrt no_env 3 ex_any_T (ex_any_pv xC Core.KList) = Core.Ok (ex_any_pv xC Core.KTuple) /\
  any_leaf ex_kinds 10 = true /\ robust_leaf ex_kinds 10 = false.
Proof.
  split; [|split; [|split; [|split; reflexivity]]].
  - unfold ex_any_T, ex_any_pv. cbn [CoreC01.valid CoreC01.forallb2 andb]. rewrite ex_lv_enc. reflexivity.
  - unfold ex_any_T, ex_any_pv.
    cbn [Core.mar Core.itervalues Core.bind Core.mapM Core.zip_trunc map fst snd Core.leaf_m bridged].
    repeat (erewrite (leaf_m_enc xC ex_kinds (fun _ => toy_rt) ex_ev ex_base CLx) by (reflexivity || discriminate)).
    vm_compute. reflexivity.
  - unfold ex_any_T, ex_any_pv.
    cbn [Core.unm Core.load Core.is_scalar Core.itervalues Core.bind Core.mapM Core.zip_trunc map fst snd
         Core.leaf_u bridged List.length Nat.ltb Nat.leb].
    repeat (erewrite (leaf_u_enc xC ex_kinds (fun _ => toy_rt) ex_base CLx) by (reflexivity || discriminate)).
    vm_compute. reflexivity.
Qed.

(* the str "kids" is the field name 0: PKey 0 in the core model, never an atom *)
Lemma ex_key : encp xC (VText CStr "kids") = Core.PKey 0 /\ encp xC (VText CStr "null") = Core.PAtom (e (VText CStr "null")).
Proof. split; reflexivity. Qed.

(* with the lax range (fold 1 allowed) exact equality fails: the wire form of a datetime does not carry the fold *)
Lemma ex_fold_refutes :
  xlv false 5 (encp xC (VDateTime ex_dt_fold1)) = true /\
  Core.leaf_m xrt 5 (encp xC (VDateTime ex_dt_fold1))
    = Core.Ok (encp xC (VText CStr "2020-01-01T17:00:00.999999+05:30")) /\
  Core.leaf_u xrt 5 (encp xC (VText CStr "2020-01-01T17:00:00.999999+05:30"))
    = Core.Ok (encp xC (VDateTime ex_dt)) /\
  encp xC (VDateTime ex_dt) <> encp xC (VDateTime ex_dt_fold1).
Proof.
  split; [rewrite ex_lv_enc; vm_compute; reflexivity|].
  split; [cbn [Core.leaf_m bridged]; erewrite (leaf_m_enc xC ex_kinds (fun _ => toy_rt) ex_ev ex_base CLx) by (reflexivity || discriminate); vm_compute; reflexivity|].
  split; [cbn [Core.leaf_u bridged]; unfold b_leaf_u; cbn [ex_kinds]; rewrite (run_leaf_enc xC CLx); vm_compute; reflexivity|].
  intros H. apply (encp_inj xC CLx) in H. discriminate H.
Qed.

Lemma ex_round_lax_fails : CoreC01.RoundLaws xrt (xlv false) -> False.
Proof.
  intros R. destruct ex_fold_refutes as (H1 & H2 & H3 & H4).
  pose proof (CoreC01.leaf_round _ _ R 5 _ _ H1 H2) as H5. rewrite H3 in H5. apply H4. congruence.
Qed.

End Instance.

Lemma refute_round_full : ~ round_full_stmt.
Proof.
  intros F.
  exact (ex_round_lax_fails std_enc std_dec std_dec_enc
           (F std_coding ex_kinds (fun _ => toy_rt) ex_ev toy_rt ex_base std_coding_law
              (fun _ => toy_laws) (fun _ => toy_fold_laws))).
Qed.

Lemma ex_base_suppresses : forall e, Core.suppressed ex_base (exn_map e) = true.
Proof. intros e. reflexivity. Qed.

(* ================================================================== F. serdes.load from C14's model *)
Lemma sload_nontext T srt rt v : SLoadLaw T srt rt -> SShapeLaws T rt -> textual rt v = false -> load rt v = Ok v.
Proof.
  intros HL HS Ht. rewrite HL. unfold ind_load, S.load.
  rewrite (SerdesLemmas.load_nontext srt true _ (ss_nontext T rt HS v Ht)). rewrite (ss_back T rt HS v Ht). reflexivity.
Qed.
Lemma load_laws_from_serdes T srt rt : SLoadLaw T srt rt -> SShapeLaws T rt -> LoadLaws rt.
Proof. intros HL HS. split. intros u. apply (sload_nontext T srt rt _ HL HS). reflexivity. Qed.
Lemma with_load_law T srt rt : SLoadLaw T srt (with_load rt (ind_load T srt)).
Proof. intros v. reflexivity. Qed.
Lemma with_load_textual rt f v : textual (with_load rt f) v = textual rt v.
Proof. reflexivity. Qed.
Lemma std_sshape_laws rt : SShapeLaws std_sshape rt.
Proof.
  split; intros v Ht; destruct v; try reflexivity; try (unfold textual in Ht; cbn [view] in Ht; discriminate Ht);
    cbn [v_ser v_back std_sshape]; rewrite Nnat.Nat2N.id; apply std_dec_enc.
Qed.

(* uuid_text_not_loadable (a field of Scalars.RuntimeLaws about load on TEXT) is C14_load_plain_text transported, given
   the interpreter facts about the text of a UUID *)
Lemma uuid_text_from_serdes T srt rt cp : SLoadLaw T srt rt -> S.RuntimeLaws srt -> STextLaws T srt rt cp ->
  UuidTextFacts srt rt cp ->
  forall u c, hashable c = true ->
    load rt (text rt c (canon_text rt (VUuid u))) = Ok (VText CStr (canon_text rt (VUuid u))).
Proof.
  intros HL SL ST UF u c Hc. destruct (UF u) as (He & [e1 H1] & [e2 H2]).
  rewrite HL. unfold ind_load. rewrite (st_carrier T srt rt cp ST c _ Hc).
  rewrite (SerdesLemmas.load_plain_text srt SL _ _ e1 e2 He H1 H2).
  rewrite (st_back T srt rt cp ST). reflexivity.
Qed.
(* the runtime whose load is C14's model satisfies ALL of Scalars.RuntimeLaws when the base interpreter does and the
   text interpreter knows the two facts *)
Lemma with_load_runtime_laws_from_serdes T srt rt cp : RuntimeLaws rt -> S.RuntimeLaws srt ->
  STextLaws T srt rt cp -> UuidTextFacts srt rt cp -> RuntimeLaws (with_load rt (ind_load T srt)).
Proof.
  intros L SL ST UF.
  assert (ST' : STextLaws T srt (with_load rt (ind_load T srt)) cp) by (destruct ST; constructor; assumption).
  pose proof (uuid_text_from_serdes T srt (with_load rt (ind_load T srt)) cp (with_load_law T srt rt) SL ST' UF) as Hu.
  destruct L. constructor; assumption.
Qed.
Lemma std_text_laws srt rt : (forall s, utf8_encode rt s = s) -> (forall p, S.utf8_encode srt p = p) ->
  STextLaws std_sshape srt rt codes.
Proof.
  intros Hu Hs. split.
  - intros c s Hc. destruct c; try discriminate Hc; cbn [text v_ser std_sshape std_ckind S.carrier]; rewrite ?Hu, ?Hs; reflexivity.
  - intros s. cbn [v_back std_sshape]. unfold uncodes, codes.
    rewrite map_map, (map_ext _ (fun a => a) ascii_N_embedding), map_id, string_of_list_ascii_of_string. reflexivity.
Qed.
