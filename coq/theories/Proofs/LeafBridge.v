(* Proofs/LeafBridge.v -- proof scripts for Model/LeafBridge.v: the leaf-law records of the core theorems
   (RoundLaws, NoneLaws, PassLaws, IdemLaws, LeafLaws, MarshalLaws) derived for the bridged runtime from the scalar
   model and Scalars.RuntimeLaws.  [res]/[Ok]/[Raise] are Temporal's; the core model's are written Core.xxx. *)
From Coq Require Import List ZArith Arith Ascii String Bool PeanoNat Lia.
Import ListNotations.
Require Import TL.Model.Duration.
Require Import TL.Model.Temporal.
Require Import TL.Model.Scalars.
Require Import TL.Proofs.ScalarsLemmas.
Require Import TL.Model.IsoText.
Require Import TL.Model.ScalarsToy.
Require Import TL.Proofs.ScalarsToyLemmas.
Require TL.Model.Core.
Require TL.Model.CoreTables.
Require TL.Model.CoreC01.
Require TL.Model.CoreValid.
Require TL.Model.CoreC06.
Require TL.Proofs.CoreC03.
Require Import TL.Model.LeafBridge.
Local Open Scope nat_scope.

Ltac inv H := inversion H; subst; clear H.
(* case analysis along the matches of a routine that returned [Ok] *)
Ltac crush H :=
  repeat (unfold bind in H;
    match type of H with
    | Ok _ = Ok _ => inv H
    | Raise _ = Ok _ => discriminate H
    | Unmodelled = Ok _ => discriminate H
    | context [match ?x with _ => _ end] => let E := fresh "E" in destruct x eqn:E
    end).

(* ================================================================== A. the scalar level *)
Section Scalar.
Variable rt : Runtime.
Variable ev : tok -> res val.

(* ---- whatever a scalar unmarshaller returns is of its class ---- *)
Lemma num_ctor_shape k x y : num_ctor rt k x = Ok y -> isinstance_num k y = true.
Proof. unfold num_ctor. intros H. destruct k; crush H; reflexivity. Qed.

Lemma unm_number_shape k x y : unm_number rt k x = Ok y -> isinstance_num k y = true.
Proof.
  unfold unm_number. intros H.
  destruct (decode rt x) as [d| |] eqn:Ed; cbn [bind] in H; try discriminate.
  destruct (isinstance_num k d) eqn:Ei; [inv H; exact Ei|].
  destruct (is_temporal x).
  - destruct (unixtime rt x); cbn [bind] in H; try discriminate. exact (num_ctor_shape _ _ _ H).
  - cbn [bind] in H. exact (num_ctor_shape _ _ _ H).
Qed.

Lemma unm_shape k x y : unm_of rt k x = Ok y -> shape k y = true.
Proof.
  destruct k; cbn [unm_of]; intros H.
  - apply unm_number_shape in H. destruct y; try discriminate; reflexivity.
  - apply unm_number_shape in H. destruct y; try discriminate; reflexivity.
  - unfold unm_str in H. crush H; reflexivity.
  - unfold unm_bytes in H. crush H; reflexivity.
  - apply unm_number_shape in H. destruct y; try discriminate; reflexivity.
  - apply unm_number_shape in H. destruct y; try discriminate; reflexivity.
  - unfold unm_uuid in H. crush H; reflexivity.
  - unfold unm_path in H. crush H; reflexivity.
  - unfold unm_enum in H. crush H; reflexivity.
  - unfold unm_date in H. crush H; reflexivity.
  - unfold unm_datetime in H. crush H; reflexivity.
  - unfold unm_time in H. crush H; reflexivity.
  - unfold unm_timedelta in H. crush H; reflexivity.
Qed.

(* ---- the isinstance short-circuit ---- *)
Lemma unm_pass k x : shape k x = true -> (k = LUuid -> LoadLaws rt) -> unm_of rt k x = Ok x.
Proof.
  intros Hs HL. destruct k, x; try discriminate Hs; try (destruct c; try discriminate Hs); try reflexivity.
  cbn [unm_of]. unfold unm_uuid. rewrite (load_uuid_self rt (HL eq_refl)). reflexivity.
Qed.

(* ---- robust marshallers return wire data ---- *)
Lemma mar_prim k x w : robust_kind k = true -> mar_of rt ev k x = Ok w -> prim_val w = true.
Proof.
  intros Hk H. destruct k; try discriminate Hk; cbn [mar_of] in H;
    unfold mar_int, mar_float, mar_tostring, mar_iso in H; crush H; reflexivity.
Qed.

(* ---- NoneTypeUnmarshaller ---- *)
Lemma unm_none_ok x y : unm_none rt x = Ok y -> y = VNone.
Proof. unfold unm_none. intros H. destruct (decode rt x) as [d| |]; cbn [bind] in H; try discriminate. destruct d; inv H; reflexivity. Qed.

Lemma unm_none_rejects x : x <> VNone -> (forall b, utf8_decode rt b <> Unmodelled) ->
  exists e, unm_none rt x = Raise e.
Proof.
  intros Hx Ht. unfold unm_none.
  destruct x; try (eexists; reflexivity); [congruence|].
  destruct c; cbn [decode bind]; try (eexists; reflexivity);
    (destruct (utf8_decode rt s) as [s'|e|] eqn:E; cbn [bind]; [eexists; reflexivity|eexists; reflexivity|destruct (Ht s E)]).
Qed.

(* ---- equality of temporals from same_dt / same_tm and the fold ---- *)
Lemma opt_eqb_eq a b : opt_eqb a b = true -> a = b.
Proof. destruct a, b; cbn; intros H; try discriminate; [apply Z.eqb_eq in H; subst|]; reflexivity. Qed.
Lemma same_dt_eq a b : same_dt a b = true -> dfold a = dfold b -> a = b.
Proof.
  destruct a, b. unfold same_dt. cbn. intros H Hf.
  repeat (apply andb_true_iff in H; destruct H as [H ?]).
  repeat match goal with X : (_ =? _)%Z = true |- _ => apply Z.eqb_eq in X end.
  match goal with X : opt_eqb _ _ = true |- _ => apply opt_eqb_eq in X end. subst. reflexivity.
Qed.
Lemma same_tm_eq a b : same_tm a b = true -> tfold a = tfold b -> a = b.
Proof.
  destruct a, b. unfold same_tm. cbn. intros H Hf.
  repeat (apply andb_true_iff in H; destruct H as [H ?]).
  repeat match goal with X : (_ =? _)%Z = true |- _ => apply Z.eqb_eq in X end.
  match goal with X : opt_eqb _ _ = true |- _ => apply opt_eqb_eq in X end. subst. reflexivity.
Qed.

Section WithLaws.
Hypothesis L : RuntimeLaws rt.

(* datetime: the value the text unmarshals to IS what pendulum parsed *)
Lemma datetime_of_parse d d' : pendulum_parse rt (canon_text rt (VDateTime d)) = Ok (PDT d') ->
  unm_datetime rt (VText CStr (canon_text rt (VDateTime d))) = Ok (VDateTime d').
Proof.
  intros Hp. unfold unm_datetime. cbn [is_number bind decode].
  rewrite (dateparse_plain rt _ KDateTime (PDT d')); [reflexivity|discriminate| |exact Hp|intros e; discriminate].
  apply (canon_unsigned rt L (VDateTime d)). reflexivity.
Qed.

Lemma time_of_iso t t' : time_fromisoformat rt (canon_text rt (VTime t)) = Ok t' -> is_some_off t' = true ->
  unm_time rt (VText CStr (canon_text rt (VTime t))) = Ok (VTime t').
Proof.
  intros Hp Ho. unfold unm_time. cbn [decode bind is_number]. unfold dateparse. rewrite Hp, Ho. reflexivity.
Qed.

Lemma same_tm_off t t' : valid_tm t = true -> same_tm t t' = true -> is_some_off t' = true.
Proof.
  intros Hv Hs. unfold valid_tm in Hv. apply andb_true_iff in Hv as [_ Hv].
  destruct (valid_off_some _ Hv) as [z Hz]. unfold same_tm in Hs. rewrite Hz in Hs.
  unfold is_some_off. destruct (toff t'); [reflexivity|]. cbn [opt_eqb] in Hs. rewrite andb_false_r in Hs. discriminate.
Qed.

(* ---- the scalar round trip: kinds whose text carries the whole value ---- *)
Lemma enum_round m w : enum_value_ok rt ev m = true -> ev m = Ok w -> unm_enum rt w = Ok (VEnum m).
Proof.
  unfold enum_value_ok. intros Hok Hw. rewrite Hw in Hok. apply andb_true_iff in Hok as [Hp Hm].
  unfold res_tok_is in Hm. destruct (enum_of_val rt w) as [m'| |] eqn:Ee; try discriminate.
  apply String.eqb_eq in Hm. subst m'.
  assert (Hd : decode rt w = Ok w) by (destruct w; try reflexivity; destruct c; try discriminate Hp; reflexivity).
  unfold unm_enum. destruct w; try discriminate Hp; rewrite Hd; cbn [bind]; rewrite Ee; reflexivity.
Qed.

Lemma round_nonfold strict k x w : in_kind rt ev strict k x = true -> k <> LDateTime -> k <> LTime ->
  mar_of rt ev k x = Ok w -> unm_of rt k w = Ok x.
Proof.
  unfold in_kind. intros Hin Hk1 Hk2 Hm. apply andb_true_iff in Hin as [Hs Hr].
  destruct k; try congruence; destruct x; try discriminate Hs; try (destruct c; try discriminate Hs);
    cbn [mar_of mar_int mar_float mar_tostring mar_noop mar_enum mar_iso isoformat] in Hm.
  - inv Hm. reflexivity.
  - inv Hm. reflexivity.
  - inv Hm. reflexivity.
  - inv Hm. reflexivity.
  - inv Hm. exact (text_dec rt L CStr t).
  - inv Hm. exact (text_frac rt L CStr t).
  - inv Hm. exact (text_uuid rt L CStr t eq_refl).
  - inv Hm. exact (text_path rt L CStr t).
  - exact (enum_round t w Hr Hm).
  - inv Hm. exact (text_date rt L CStr y m d Hr).
  - inv Hm. exact (text_timedelta rt L CStr (d, s, us) Hr).
Qed.

Lemma round_dt_sim d w : valid_dt d = true -> mar_of rt ev LDateTime (VDateTime d) = Ok w ->
  exists d', unm_of rt LDateTime w = Ok (VDateTime d') /\ same_dt d d' = true.
Proof. intros Hv Hm. inv Hm. exact (text_datetime rt L CStr d Hv). Qed.
Lemma round_tm_sim t w : valid_tm t = true -> mar_of rt ev LTime (VTime t) = Ok w ->
  exists t', unm_of rt LTime w = Ok (VTime t') /\ same_tm t t' = true.
Proof. intros Hv Hm. inv Hm. exact (text_time rt L CStr t Hv). Qed.

Lemma round_dt_exact d w : FoldLaws rt -> valid_dt d = true -> dfold d = 0%Z ->
  mar_of rt ev LDateTime (VDateTime d) = Ok w -> unm_of rt LDateTime w = Ok (VDateTime d).
Proof.
  intros F Hv Hf Hm. inv Hm. destruct (parse_dt_rt rt L d Hv) as (d' & Hp & Hs).
  cbn [unm_of isoformat]. rewrite (datetime_of_parse d d' Hp). f_equal. f_equal. symmetry.
  apply same_dt_eq; [exact Hs|]. rewrite Hf. symmetry. exact (parse_fold0 rt F d d' Hv Hp).
Qed.
Lemma round_tm_exact t w : FoldLaws rt -> valid_tm t = true -> tfold t = 0%Z ->
  mar_of rt ev LTime (VTime t) = Ok w -> unm_of rt LTime w = Ok (VTime t).
Proof.
  intros F Hv Hf Hm. inv Hm. destruct (time_iso_rt rt L t Hv) as (t' & Hp & Hs).
  cbn [unm_of isoformat]. rewrite (time_of_iso t t' Hp (same_tm_off t t' Hv Hs)). f_equal. f_equal. symmetry.
  apply same_tm_eq; [exact Hs|]. rewrite Hf. symmetry. exact (timeiso_fold0 rt F t t' Hv Hp).
Qed.

(* exact: inside the strict range *)
Lemma round_exact k x w : FoldLaws rt -> in_kind rt ev true k x = true ->
  mar_of rt ev k x = Ok w -> unm_of rt k w = Ok x.
Proof.
  intros F Hin Hm.
  destruct k; try (apply (round_nonfold true _ x w Hin); [discriminate|discriminate|exact Hm]).
  - unfold in_kind in Hin. apply andb_true_iff in Hin as [Hs Hr]. destruct x; try discriminate Hs.
    cbn [range negb orb] in Hr. apply andb_true_iff in Hr as [Hv Hf]. apply Z.eqb_eq in Hf.
    exact (round_dt_exact d w F Hv Hf Hm).
  - unfold in_kind in Hin. apply andb_true_iff in Hin as [Hs Hr]. destruct x; try discriminate Hs.
    cbn [range negb orb] in Hr. apply andb_true_iff in Hr as [Hv Hf]. apply Z.eqb_eq in Hf.
    exact (round_tm_exact t w F Hv Hf Hm).
Qed.

(* up to the fold: the whole range, no law about folds *)
Lemma round_sim k x w : in_kind rt ev false k x = true -> mar_of rt ev k x = Ok w ->
  exists x', unm_of rt k w = Ok x' /\ sim_val x x'.
Proof.
  intros Hin Hm.
  destruct k; try (exists x; split; [apply (round_nonfold false _ x w Hin); [discriminate|discriminate|exact Hm]|
                                     destruct x; reflexivity]).
  - unfold in_kind in Hin. apply andb_true_iff in Hin as [Hs Hr]. destruct x; try discriminate Hs.
    cbn [range negb orb] in Hr. rewrite andb_true_r in Hr.
    destruct (round_dt_sim d w Hr Hm) as (d' & H1 & H2). exists (VDateTime d'). split; [exact H1|exact H2].
  - unfold in_kind in Hin. apply andb_true_iff in Hin as [Hs Hr]. destruct x; try discriminate Hs.
    cbn [range negb orb] in Hr. rewrite andb_true_r in Hr.
    destruct (round_tm_sim t w Hr Hm) as (t' & H1 & H2). exists (VTime t'). split; [exact H1|exact H2].
Qed.

End WithLaws.

(* the strict range is inside the lax one *)
Lemma in_kind_strict_lax k x : in_kind rt ev true k x = true -> in_kind rt ev false k x = true.
Proof.
  unfold in_kind. intros H. apply andb_true_iff in H as [Hs Hr]. rewrite Hs. cbn [andb].
  destruct x; try exact Hr; cbn [range negb orb] in *; apply andb_true_iff in Hr as [Hv _]; rewrite Hv; reflexivity.
Qed.

(* C04's guard for str-valued enums gives this bridge's guard *)
Lemma enum_value_ok_of_text m :
  ev m = Ok (VText CStr (canon_text rt (VEnum m))) ->
  enum_of_val rt (VText CStr (canon_text rt (VEnum m))) = Ok m -> enum_value_ok rt ev m = true.
Proof. intros H1 H2. unfold enum_value_ok. rewrite H1. cbn [plain andb]. rewrite H2. cbn [res_tok_is]. apply String.eqb_refl. Qed.

End Scalar.
