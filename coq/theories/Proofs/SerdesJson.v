(* Proofs/SerdesJson.v -- proof scripts for Model/SerdesJson.v: the laws of C14's runtime hold of the concrete UTF-8
   codec and reader of Model/Json.v for BOTH backends (strload hands the decoder text only, since
   C14-strload-decode-first.diff); C14's load theorems restated with the decoder no longer abstract; the code before
   that repair (load_rawjson: decoder on the bytes) is unchanged by it for orjson and refuted for json.loads. *)
From Coq Require Import List ZArith NArith Bool Lia.
Import ListNotations.
Require Import TL.Model.Serdes TL.Model.SerdesEq TL.Proofs.SerdesLemmas.
Require Import TL.Model.Json TL.Model.JsonEq TL.Proofs.JsonLemmas TL.Proofs.CodecBridge TL.Model.SerdesJson.

Lemma scalar_cp_ok c : scalar_cp c = cp_ok c.
Proof. unfold scalar_cp, cp_ok. lia. Qed.
Lemma encodable_str_ok s : encodable s = str_ok s.
Proof. unfold encodable, str_ok. induction s as [|c s IH]; [reflexivity|]. cbn [forallb]. rewrite scalar_cp_ok, IH. reflexivity. Qed.

Lemma sj_utf8_rt s : encodable s = true -> sj_utf8_decode (utf8_enc s) = Ok s.
Proof.
  intros H. unfold sj_utf8_decode. rewrite utf8_roundtrip; [reflexivity|].
  intros c Hin. rewrite encodable_str_ok in H. unfold str_ok in H. rewrite forallb_forall in H. specialize (H c Hin).
  unfold cp_ok in H. unfold is_surr. split; [lia|]. right. lia.
Qed.

Section Inst.
Variable strict : bool.
Variable float_of : list N -> pv.
Variable float_tok : pv -> list N.
Variable lit_eval : str -> res pv.
Variable py_repr_f : pv -> str.
Notation rt := (serdes_rt strict float_of float_tok lit_eval py_repr_f).

(* ---------------------------------------------------------------- the laws of Serdes.RuntimeLaws, either backend *)
Lemma of_read_errors (o : option jv) e : of_read float_of o = Raise e -> is_value_error e = true.
Proof. destruct o; cbn [of_read]; intros H; inversion H; reflexivity. Qed.

(* utf8_rt and json_errors_value are theorems; what is left is the documented behaviour of ast.literal_eval *)
Lemma laws_inst :
  (forall s e, lit_eval s = Raise e -> literal_suppressed e = true) -> RuntimeLaws rt.
Proof.
  intros Hl. split; cbn [utf8_encode utf8_decode json_loads_str literal_eval serdes_rt].
  - exact sj_utf8_rt.
  - intros s e. apply of_read_errors.
  - exact Hl.
Qed.

Hypothesis Hlit : forall s e, lit_eval s = Raise e -> literal_suppressed e = true.

(* ---------------------------------------------------------------- C14's load theorems on the concrete reader *)

Lemma load_json_str k s j : encodable s = true -> parse_text strict s = Some j ->
  load rt (carrier rt k s) = Ok (pv_of float_of (jv_norm j)) /\
  match carrier rt k s with PText k' p => strload rt k' p = Ok (pv_of float_of (jv_norm j)) | _ => False end.
Proof.
  intros He Hp. apply (load_json rt (laws_inst Hlit) k s _ He).
  cbn [json_loads_str serdes_rt]. unfold sj_loads_str. rewrite Hp. reflexivity.
Qed.
Lemma strload_json_bytes k b s j : is_bin k = true -> utf8_dec false b = Some s -> parse_text strict s = Some j ->
  strload rt k b = Ok (pv_of float_of (jv_norm j)).
Proof.
  intros Hk Hd Hr. apply (strload_json_bin rt k b s _ Hk).
  - cbn [utf8_decode serdes_rt]. unfold sj_utf8_decode. rewrite Hd. reflexivity.
  - cbn [json_loads_str serdes_rt]. unfold sj_loads_str. rewrite Hr. reflexivity.
Qed.

(* the boundary: text the reader rejects goes to the literal reader, and comes back as str when that rejects too *)
Lemma load_rejected k s : encodable s = true -> parse_text strict s = None ->
  load rt (carrier rt k s) = match lit_eval s with Ok r => Ok r | Raise _ => Ok (PStr s) end.
Proof.
  intros He Hp. rewrite (load_carrier rt (laws_inst Hlit) k s He).
  unfold load, load_gen, strload_gen. cbn [normalise hash_check bind strload_body]. unfold strload_body_dec, decode_text.
  cbn [tobytes bind json_loads_str serdes_rt]. unfold sj_loads_str. rewrite Hp. cbn [of_read is_value_error]. unfold literal_step.
  cbn [literal_eval serdes_rt]. destruct (lit_eval s) as [r|e] eqn:E; [reflexivity|]. rewrite (Hlit s e E). reflexivity.
Qed.

(* JSON text of ANY wire value, either backend's form, any carrier: load returns exactly that value *)
Lemma wr_encodable st j : forallb is_ws (st_sp st) = true -> jv_ok j = true -> encodable (wr st j) = true.
Proof. intros Hs Hok. rewrite encodable_str_ok. exact (wr_cp_ok st Hs j Hok). Qed.
Lemma load_wire st k j : forallb is_ws (st_sp st) = true -> jv_ok j = true -> nodup_keys j = true ->
  load rt (carrier rt k (wr st j)) = Ok (pv_of float_of j) /\
  carrier rt CBytes (wr st j) = PText CBytes (json_write st j).
Proof.
  intros Hs Hok Hn. split; [|reflexivity].
  destruct (load_json_str k (wr st j) j (wr_encodable st j Hs Hok) (parse_wr st Hs strict j Hok)) as [H _].
  rewrite (jv_norm_id j Hn) in H. exact H.
Qed.

(* ---------------------------------------------------------------- loads (dumps m) = m *)
Definition is_float (v : pv) : bool := match v with PFloat _ _ | PFloatS _ => true | _ => false end.
Hypothesis Hfloat : forall v, is_float v = true -> float_of (float_tok v) = v.

Section PvInd.
Variable P : pv -> Prop.
Hypothesis H0 : forall v, (match v with PList _ | PTuple _ | PSet _ | PDict _ => False | _ => True end) -> P v.
Hypothesis HL : forall l, Forall P l -> P (PList l).
Hypothesis HT : forall l, P (PTuple l).
Hypothesis HS : forall l, P (PSet l).
Hypothesis HD : forall d, Forall (fun kx => P (snd kx)) d -> P (PDict d).
Fixpoint spv_ind (v : pv) : P v :=
  match v with
  | PList l => HL l ((fix go (l : list pv) : Forall P l :=
                        match l with [] => Forall_nil _ | x :: r => Forall_cons x (spv_ind x) (go r) end) l)
  | PDict d => HD d ((fix go (d : list (pv * pv)) : Forall (fun kx => P (snd kx)) d :=
                        match d with [] => Forall_nil _ | (k, x) :: r => Forall_cons (k, x) (spv_ind x) (go r) end) d)
  | PTuple l => HT l
  | PSet l => HS l
  | PNone => H0 PNone I | PBool b => H0 (PBool b) I | PInt z => H0 (PInt z) I | PFloat m e => H0 (PFloat m e) I
  | PFloatS n => H0 (PFloatS n) I | PText k p => H0 (PText k p) I | POther i => H0 (POther i) I
  end.
End PvInd.

Lemma pv_of_jv_of m : forall j, jv_of float_tok m = Some j -> pv_of float_of j = m.
Proof.
  induction m as [v Hv | l IH | l | l | d IH] using spv_ind; intros j H.
  - destruct v as [| b | z | mm e | n | k p | | | | | i]; try contradiction; cbn [jv_of] in H;
      try (inversion H; subst; cbn [pv_of]; try reflexivity; apply Hfloat; reflexivity).
    destruct k; try discriminate. inversion H; reflexivity.
  - cbn [jv_of] in H. destruct (omapj (jv_of float_tok) l) as [l'|] eqn:El; [|discriminate]. inversion H; subst.
    cbn [pv_of]. f_equal. clear H. revert l' El. induction l as [|x l IHl]; intros l' El; cbn in El.
    + inversion El. reflexivity.
    + inversion IH as [|x' l'' Px Pl]; subst. destruct (jv_of float_tok x) as [y|] eqn:Ex; [|discriminate].
      destruct (omapj (jv_of float_tok) l) as [t|] eqn:Et; [|discriminate]. inversion El; subst.
      cbn [map]. rewrite (Px y eq_refl), (IHl Pl t eq_refl). reflexivity.
  - discriminate.
  - discriminate.
  - cbn [jv_of] in H. destruct (omapj _ d) as [d'|] eqn:Ed; [|discriminate]. inversion H; subst.
    cbn [pv_of]. f_equal. clear H. revert d' Ed. induction d as [|[k x] d IHd]; intros d' Ed; cbn in Ed.
    + inversion Ed. reflexivity.
    + inversion IH as [|kx' d'' Px Pd]; subst. cbn [snd] in Px.
      destruct k as [| | | | | kk p | | | | | ]; try discriminate. destruct kk; try discriminate.
      destruct (jv_of float_tok x) as [y|] eqn:Ex; [|discriminate].
      destruct (omapj _ d) as [t|] eqn:Et; [|discriminate]. inversion Ed; subst.
      cbn [map]. rewrite (Px y eq_refl), (IHd Pd t eq_refl). reflexivity.
Qed.

Lemma dumps_ascii j : jv_ok j = true -> encodable (wr stdlib_style j) = true.
Proof. apply wr_encodable. reflexivity. Qed.

Lemma loads_dumps m j : jv_of float_tok m = Some j -> jv_ok j = true -> nodup_keys j = true ->
  encodable (Serdes.json_dumps rt m) = true /\ json_loads_str rt (Serdes.json_dumps rt m) = Ok m.
Proof.
  intros Hj Hok Hn. cbn [Serdes.json_dumps json_loads_str serdes_rt]. unfold sj_dumps, sj_loads_str. rewrite Hj. split.
  - exact (dumps_ascii j Hok).
  - rewrite (parse_wr stdlib_style eq_refl strict j Hok). cbn [of_read]. rewrite (jv_norm_id j Hn), (pv_of_jv_of m j Hj).
    reflexivity.
Qed.

(* C14_json_text without its JSON hypothesis *)
Lemma entry_json_text_inst rest whole sup h k m j : load_first h = true -> is_text m = false ->
  jv_of float_tok m = Some j -> jv_ok j = true -> nodup_keys j = true ->
  entry rt rest whole sup h (carrier rt k (Serdes.json_dumps rt m)) = entry rt rest whole sup h m.
Proof.
  intros Hh Ht Hj Hok Hn. destruct (loads_dumps m j Hj Hok Hn) as [He Hl].
  exact (entry_json_text rt (laws_inst Hlit) rest whole sup h k m Hh Ht He Hl).
Qed.
End Inst.

(* ---------------------------------------------------------------- the code before C14-strload-decode-first.diff *)
Section Raw.
Variable float_of : list N -> pv.
Variable float_tok : pv -> list N.
Variable lit_eval : str -> res pv.
Variable py_repr_f : pv -> str.
Notation rt_of_strict b := (serdes_rt b float_of float_tok lit_eval py_repr_f).

(* orjson: handing the decoder the bytes or their decoding is the same on EVERY input (valid UTF-8 or not):
   the repair changes nothing for the configured backend *)
Lemma rawjson_strict_same v : load_rawjson (rt_of_strict true) v = load (rt_of_strict true) v.
Proof.
  destruct v as [| | | | | k p | | | | |]; try reflexivity.
  unfold load_rawjson, strload_rawjson, load, load_gen, strload_gen.
  destruct (hash_check (normalise k)) as [[]|e]; [|reflexivity]. cbn [bind strload_body].
  unfold strload_body_raw, strload_body_dec, decode_text.
  destruct k; cbn [normalise tobytes Serdes.json_loads json_loads_str json_loads_bin utf8_decode serdes_rt bind];
    try (destruct (sj_loads_str true float_of p) as [r|e] eqn:E; [reflexivity|];
         unfold sj_loads_str in E; destruct (parse_text true p); inversion E; reflexivity);
    unfold sj_loads_bin, sj_utf8_decode, json_read_strict, json_read_gen;
    (destruct (utf8_dec false p) as [t|]; [|reflexivity]); cbn [bind json_loads_str serdes_rt];
    unfold sj_loads_str; (destruct (parse_text true t); reflexivity).
Qed.

(* json.loads: a UTF-8 signature is stripped from bytes and rejected in a str *)
Definition bom1 : list N := [239; 187; 191; 49].
Definition bom1_text : list N := [65279; 49].
Lemma lenient_bin_str_refuted :
  utf8_decode (rt_of_strict false) bom1 = Ok bom1_text /\
  json_loads_bin (rt_of_strict false) bom1 = Ok (PInt 1) /\
  json_loads_str (rt_of_strict false) bom1_text = Raise EValue.
Proof. repeat split. Qed.
(* before the repair the bytes / bytearray carriers of that text load as the int 1, the str as itself;
   after it every carrier loads as the str *)
Lemma lenient_rawjson_refuted : lit_eval bom1_text = Raise ESyntax ->
  encodable bom1_text = true /\
  load_rawjson (rt_of_strict false) (carrier (rt_of_strict false) CBytes bom1_text) = Ok (PInt 1) /\
  load_rawjson (rt_of_strict false) (carrier (rt_of_strict false) CBytearray bom1_text) = Ok (PInt 1) /\
  load_rawjson (rt_of_strict false) (PStr bom1_text) = Ok (PStr bom1_text) /\
  (forall k, load (rt_of_strict false) (carrier (rt_of_strict false) k bom1_text) = Ok (PStr bom1_text)).
Proof.
  intros H. repeat split.
  - unfold load_rawjson, strload_rawjson, strload_body_raw. cbn [normalise hash_check bind Serdes.json_loads].
    change (json_loads_str (rt_of_strict false) bom1_text) with (@Raise pv EValue). cbn [is_value_error decode_text tobytes bind].
    unfold literal_step. cbn [literal_eval serdes_rt]. rewrite H. reflexivity.
  - intros k. assert (Hs : load (rt_of_strict false) (PStr bom1_text) = Ok (PStr bom1_text)).
    { unfold load, load_gen, strload_gen. cbn [normalise hash_check bind strload_body]. unfold strload_body_dec, decode_text.
      cbn [tobytes bind]. change (json_loads_str (rt_of_strict false) bom1_text) with (@Raise pv EValue).
      cbn [is_value_error]. unfold literal_step. cbn [literal_eval serdes_rt]. rewrite H. reflexivity. }
    destruct k; exact Hs.
Qed.
End Raw.
