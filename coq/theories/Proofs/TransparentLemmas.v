(* Wrappers (NewType, TypeAliasType, Final, ClassVar) and references are transparent for the
   reference semantics: unm / mar depend on an annotation only through its deep normal form. *)
From Coq Require Import List Arith Bool Lia PeanoNat.
Import ListNotations.
Require Import TL.Model.Core TL.Model.Build TL.Proofs.CoreMono TL.Proofs.BuildLemmas TL.Proofs.BuildSemLemmas.

Section Root.
Variable rt : runtime.
Variable E : env.

(* a terminal result of unm on t is the eventual result on its normal form, and back *)
Lemma unm_to_norm t n x : done (unm rt E n t x) = true -> ev (fun m => unm rt E m (norm t) x) (unm rt E n t x).
Proof. intros Hd. exists n. intros m' Hm'. rewrite <- unm_norm.
  apply unm_mono_le; [lia|exact Hd]. Qed.
Lemma mar_to_norm t n x : done (mar rt E n t x) = true -> ev (fun m => mar rt E m (norm t) x) (mar rt E n t x).
Proof. intros Hd. exists n. intros m' Hm'. rewrite <- mar_norm.
  apply mar_mono_le; [lia|exact Hd]. Qed.

Theorem root_transparent_unm t t' n x :
  norm t = norm t' -> done (unm rt E n t x) = true -> ev (fun m => unm rt E m t' x) (unm rt E n t x).
Proof. intros Hn Hd. apply ev_unm_of_norm. rewrite <- Hn. apply unm_to_norm. exact Hd. Qed.
Theorem root_transparent_mar t t' n x :
  norm t = norm t' -> done (mar rt E n t x) = true -> ev (fun m => mar rt E m t' x) (mar rt E n t x).
Proof. intros Hn Hd. apply ev_mar_of_norm. rewrite <- Hn. apply mar_to_norm. exact Hd. Qed.

(* alias objects of the environment (E n = NType v) are transparent as well: annotations whose normal forms are
   equivalent up to "the name of an alias object stands for its value" (BuildLemmas.aeq) are indistinguishable *)
Theorem root_transparent_aeq_unm t t' n x :
  aeq E (norm t) (norm t') -> done (unm rt E n t x) = true -> ev (fun m => unm rt E m t' x) (unm rt E n t x).
Proof. intros Hn Hd. apply ev_unm_of_norm. apply (proj1 (ev_unm_aeq rt E _ _ Hn x _)). apply unm_to_norm. exact Hd. Qed.
Theorem root_transparent_aeq_mar t t' n x :
  aeq E (norm t) (norm t') -> done (mar rt E n t x) = true -> ev (fun m => mar rt E m t' x) (mar rt E n t x).
Proof. intros Hn Hd. apply ev_mar_of_norm. apply (proj1 (ev_mar_aeq rt E _ _ Hn x _)). apply mar_to_norm. exact Hd. Qed.
End Root.

(* ------------------------------------------------------------ deep normal form *)
Fixpoint dnorm (t : ty) : ty :=
  match t with
  | TFinal t' | TClassVar t' | TAlias _ t' | TNewType _ t' | TRefTo t' => dnorm t'
  | TAliasStr _ c | TRef c => TName c
  | TRefLeaf s => TLeaf s
  | TSeq k a => TSeq k (dnorm a)
  | TMap k a b => TMap k (dnorm a) (dnorm b)
  | TTuple ts => TTuple (map dnorm ts)
  | TUnion ts => TUnion (map dnorm ts)
  | _ => t
  end.
Definition dnorm_field (f : field) : field := {| fname := fname f; fty := dnorm (fty f); fdefault := fdefault f |}.
Definition dnorm_cd (cd : classdef) : classdef :=
  {| cflavour := cflavour cd; cfields := map dnorm_field (cfields cd); crequired := crequired cd |}.
Definition dnorm_env (E : env) : env := fun c =>
  match E c with
  | Some (NClass cd) => Some (NClass (dnorm_cd cd))
  | Some (NType t) => Some (NType (dnorm t))
  | None => None
  end.

(* no wrapper hides None: typing decides "optional" on the spelled members *)
Fixpoint ok_ty (t : ty) : bool :=
  match t with
  | TFinal t' | TClassVar t' | TAlias _ t' | TNewType _ t' | TRefTo t' => negb (is_none_ty (dnorm t')) && ok_ty t'
  | TSeq _ a => ok_ty a
  | TMap _ a b => ok_ty a && ok_ty b
  | TTuple ts => forallb ok_ty ts
  | TUnion ts => forallb ok_ty ts
  | _ => true
  end.
Definition ok_env (E : env) : Prop :=
  forall c, match E c with
            | Some (NClass cd) => forallb (fun fd => ok_ty (fty fd)) (cfields cd) = true
            | Some (NType t) => ok_ty t = true
            | None => True end.

Lemma is_none_dnorm t : ok_ty t = true -> is_none_ty (dnorm t) = is_none_ty t.
Proof. destruct t; cbn [ok_ty dnorm is_none_ty]; intros H; try reflexivity;
  try (apply andb_true_iff in H; destruct H as [H _]; apply negb_true_iff in H; exact H). Qed.

Lemma filter_map_dnorm (p : ty -> bool) ts :
  (forall t, In t ts -> p (dnorm t) = p t) -> filter p (map dnorm ts) = map dnorm (filter p ts).
Proof. induction ts as [|t r IH]; intros H; [reflexivity|]. cbn [map filter].
  rewrite (H t (or_introl eq_refl)). destruct (p t); cbn [map]; rewrite IH by (intros t' Ht'; apply H; right; exact Ht'); reflexivity. Qed.

Lemma union_stack_dnorm ts : forallb ok_ty ts = true ->
  union_stack_u (map dnorm ts) = map dnorm (union_stack_u ts) /\ isoptional (map dnorm ts) = isoptional ts.
Proof. intros Hok. rewrite forallb_forall in Hok.
  assert (Hopt : isoptional (map dnorm ts) = isoptional ts).
  { unfold isoptional. induction ts as [|t r IH]; [reflexivity|]. cbn [map existsb].
    rewrite is_none_dnorm by (apply Hok; left; reflexivity). rewrite IH; [reflexivity|].
    intros t' Ht'. apply Hok. right. exact Ht'. }
  split; [|exact Hopt]. unfold union_stack_u. rewrite Hopt. destruct (isoptional ts); [|reflexivity].
  unfold none_first. rewrite map_app. f_equal.
  - apply filter_map_dnorm. intros t Ht. apply is_none_dnorm. apply Hok. exact Ht.
  - apply filter_map_dnorm. intros t Ht. rewrite is_none_dnorm by (apply Hok; exact Ht). reflexivity. Qed.

Section Deep.
Variable rt : runtime.
Variable E : env.
Hypothesis HE : ok_env E.
Notation E' := (dnorm_env E).

Lemma named_fields_dnorm c : named_fields E' c = named_fields E c.
Proof. unfold named_fields, dnorm_env. destruct (E c) as [[cd|t]|]; try reflexivity.
  cbn [dnorm_cd cfields]. rewrite map_map. reflexivity. Qed.
Lemma iteritems_dnorm d : iteritems rt E' d = iteritems rt E d.
Proof. destruct d; cbn [iteritems]; try reflexivity. rewrite named_fields_dnorm. reflexivity. Qed.
Lemma field_ty_dnorm cd f : field_ty (dnorm_cd cd) f = option_map dnorm (field_ty cd f).
Proof. unfold field_ty. cbn [dnorm_cd cfields]. induction (cfields cd) as [|fd l IH]; [reflexivity|].
  cbn [map find dnorm_field fname]. destruct (Nat.eqb (fname fd) f); [reflexivity|exact IH]. Qed.
Lemma fill_fields_dnorm l kw : fill_fields (map dnorm_field l) kw = fill_fields l kw.
Proof. induction l as [|f r IH]; [reflexivity|]. cbn [map fill_fields dnorm_field fname fdefault]. rewrite IH. reflexivity. Qed.
Lemma forallb_map_eq {A B} (f : B -> bool) (g : A -> B) l : forallb f (map g l) = forallb (fun x => f (g x)) l.
Proof. induction l as [|x r IH]; [reflexivity|]. cbn [map forallb]. rewrite IH. reflexivity. Qed.
Lemma construct_class_dnorm c cd kw : construct_class c (dnorm_cd cd) kw = construct_class c cd kw.
Proof. unfold construct_class. cbn [dnorm_cd cflavour cfields crequired]. rewrite fill_fields_dnorm.
  rewrite forallb_map_eq. reflexivity. Qed.
Lemma field_ok cd f ft : forallb (fun fd => ok_ty (fty fd)) (cfields cd) = true -> field_ty cd f = Some ft -> ok_ty ft = true.
Proof. unfold field_ty. intros H. rewrite forallb_forall in H.
  destruct (find (fun fd => Nat.eqb (fname fd) f) (cfields cd)) as [fd|] eqn:Ef; [|discriminate].
  intros Hf. injection Hf as <-. apply H. apply (find_some _ _ Ef). Qed.

(* forward: whatever unm gives on t, unm gives on the deep normal form (in the normalised environment) *)
Theorem deep_unm_fwd : forall n t x, ok_ty t = true -> done (unm rt E n t x) = true ->
  ev (fun m => unm rt E' m (dnorm t) x) (unm rt E n t x).
Proof.
  induction n as [|n IH]; intros t x Hok Hd; [discriminate Hd|].
  rewrite unm_S in Hd |- *.
  destruct t; cbn [dnorm ok_ty] in *;
    try (apply andb_true_iff in Hok; destruct Hok as [_ Hok]; apply IH; assumption).
  - (* TLeaf *) apply ev_S. eapply ev_ext; [intros m; apply unm_S|]. exists 0; reflexivity.
  - (* TNone *) apply ev_S. eapply ev_ext; [intros m; apply unm_S|]. exists 0; reflexivity.
  - (* TSeq *) apply ev_S. eapply ev_ext; [intros m; apply unm_S|]. cbv beta iota. unfold seq_body in *.
    destruct (load rt x) as [d|e| |]; cbn [bind done] in *; try discriminate Hd; try apply ev_const.
    destruct (itervalues rt d) as [vs|e| |]; cbn [bind done] in *; try discriminate Hd; try apply ev_const.
    apply ev_bind; [|intros rs _; apply ev_const|exact Hd].
    apply mapM_ev; [intros v _ Hv; apply ev_elem_conv; [intros Hv'; apply IH; assumption|exact Hv]|].
    destruct (bind_done _ _ Hd) as [[rs [Hrs _]]|[e He]]; [rewrite Hrs|rewrite He]; reflexivity.
  - (* TMap *) apply andb_true_iff in Hok. destruct Hok as [Hok1 Hok2].
    apply ev_S. eapply ev_ext; [intros m; apply unm_S|]. cbv beta iota. unfold map_body in *.
    destruct (load rt x) as [d|e| |]; cbn [bind done] in *; try discriminate Hd; try apply ev_const.
    rewrite iteritems_dnorm.
    destruct (iteritems rt E d) as [kvs|e| |]; cbn [bind done] in *; try discriminate Hd; try apply ev_const.
    apply ev_bind; [|intros rs _; apply ev_const|exact Hd].
    apply mapM_ev.
    + intros kv _ Hkh. apply ev_hashing; [|exact Hkh]. clear Hkh. intros Hkv. cbv beta in Hkv |- *. apply ev_bind; [| |exact Hkv].
      * apply IH; [assumption|]. destruct (bind_done _ _ Hkv) as [[k' [Hk _]]|[e He]]; [rewrite Hk|rewrite He]; reflexivity.
      * intros k' Hk'. rewrite Hk' in Hkv. cbn [bind] in Hkv. apply ev_bind; [|intros v' _; apply ev_const|exact Hkv].
        apply IH; [assumption|]. destruct (bind_done _ _ Hkv) as [[v' [Hv _]]|[e He]]; [rewrite Hv|rewrite He]; reflexivity.
    + destruct (bind_done _ _ Hd) as [[rs [Hrs _]]|[e He]]; [rewrite Hrs|rewrite He]; reflexivity.
  - (* TTuple *) apply ev_S. eapply ev_ext; [intros m; apply unm_S|]. cbv beta iota. unfold tuple_body in *.
    destruct (load rt x) as [d|e| |]; cbn [bind done] in *; try discriminate Hd; try apply ev_const.
    destruct (itervalues rt d) as [vs|e| |]; cbn [bind done] in *; try discriminate Hd; try apply ev_const.
    rewrite map_length. destruct (Nat.ltb (length vs) (length ts)); [apply ev_const|].
    apply ev_bind; [|intros out _; apply ev_const|exact Hd].
    assert (Hdm : done (mapM (fun tv => unm rt E n (fst tv) (snd tv)) (zip_trunc ts vs)) = true).
    { destruct (bind_done _ _ Hd) as [[o [Ho _]]|[e He]]; [rewrite Ho|rewrite He]; reflexivity. }
    clear Hd. revert vs Hdm. induction ts as [|t0 ts0 IHt]; intros vs Hdm; [exists 0; reflexivity|].
    cbn [forallb] in Hok. apply andb_true_iff in Hok. destruct Hok as [Hok0 Hoks].
    destruct vs as [|v vs]; [exists 0; reflexivity|]. cbn [map zip_trunc mapM fst snd] in *.
    destruct (unm rt E n t0 v) as [y|e| |] eqn:Ey; cbn [bind done] in Hdm; try discriminate Hdm.
    + destruct (IH t0 v Hok0) as [m1 H1]; [rewrite Ey; reflexivity|].
      assert (Hdr : done (mapM (fun tv => unm rt E n (fst tv) (snd tv)) (zip_trunc ts0 vs)) = true).
      { destruct (mapM _ (zip_trunc ts0 vs)); cbn [bind done] in *; try discriminate Hdm; reflexivity. }
      destruct (IHt Hoks vs Hdr) as [m2 H2]. exists (Nat.max m1 m2). intros m' Hm'.
      rewrite H1 by lia. rewrite Ey. cbn [bind]. rewrite H2 by lia. reflexivity.
    + destruct (IH t0 v Hok0) as [m1 H1]; [rewrite Ey; reflexivity|].
      exists m1. intros m' Hm'. rewrite H1 by lia. rewrite Ey. reflexivity.
  - (* TUnion *) apply ev_S. eapply ev_ext; [intros m; apply unm_S|]. cbv beta iota.
    destruct (union_stack_dnorm ts Hok) as [Hst _]. rewrite Hst.
    apply (first_ok_ev rt (map (unm rt E n) (union_stack_u ts)) (fun m => map (unm rt E' m) (map dnorm (union_stack_u ts))) x).
    + intros m. rewrite !map_length. reflexivity.
    + intros i f Hi Hdf. rewrite nth_error_map in Hi. destruct (nth_error (union_stack_u ts) i) as [ti|] eqn:Eti; [|discriminate Hi].
      injection Hi as <-.
      eapply ev_ext; [intros m; rewrite !nth_error_map, Eti; reflexivity|].
      apply IH; [|exact Hdf]. rewrite forallb_forall in Hok. apply Hok.
      apply nth_error_In in Eti. unfold union_stack_u, none_first in Eti.
      destruct (isoptional ts); [|exact Eti]. apply in_app_or in Eti. destruct Eti as [Ht|Ht]; apply filter_In in Ht; apply Ht.
    + exact Hd.
  - (* TName *) apply ev_S. eapply ev_ext; [intros m; apply unm_S|]. cbv beta iota.
    unfold named_body, dnorm_env in *. pose proof (HE n0) as Hc.
    destruct (E n0) as [[cd|t']|]; [|apply IH; assumption|apply ev_const].
    destruct (load rt x) as [d|e| |]; cbn [bind done] in *; try discriminate Hd; try apply ev_const.
    fold E'. rewrite iteritems_dnorm.
    destruct (iteritems rt E d) as [kvs|e| |]; cbn [bind done] in *; try discriminate Hd; try apply ev_const.
    apply ev_bind; [|intros kw _; rewrite construct_class_dnorm; apply ev_const|exact Hd].
    apply foldM_ev.
    + intros kw kv _ Hk. unfold ustep in *. destruct (fst kv); try apply ev_const.
      rewrite field_ty_dnorm. destruct (field_ty cd f) as [ft|] eqn:Eft; cbn [option_map]; [|apply ev_const].
      apply ev_bind; [|intros v' _; apply ev_const|exact Hk].
      apply IH; [exact (field_ok cd f ft Hc Eft)|].
      destruct (bind_done _ _ Hk) as [[v' [Hv _]]|[e He]]; [rewrite Hv|rewrite He]; reflexivity.
    + destruct (bind_done _ _ Hd) as [[kw [Hk _]]|[e He]]; [rewrite Hk|rewrite He]; reflexivity.
  - (* TRef *) apply ev_S. eapply ev_ext; [intros m; apply unm_S|]. cbv beta iota.
    unfold named_body, dnorm_env in *. pose proof (HE n0) as Hc.
    destruct (E n0) as [[cd|t']|]; [|apply IH; assumption|apply ev_const].
    destruct (load rt x) as [d|e| |]; cbn [bind done] in *; try discriminate Hd; try apply ev_const.
    fold E'. rewrite iteritems_dnorm.
    destruct (iteritems rt E d) as [kvs|e| |]; cbn [bind done] in *; try discriminate Hd; try apply ev_const.
    apply ev_bind; [|intros kw _; rewrite construct_class_dnorm; apply ev_const|exact Hd].
    apply foldM_ev.
    + intros kw kv _ Hk. unfold ustep in *. destruct (fst kv); try apply ev_const.
      rewrite field_ty_dnorm. destruct (field_ty cd f) as [ft|] eqn:Eft; cbn [option_map]; [|apply ev_const].
      apply ev_bind; [|intros v' _; apply ev_const|exact Hk].
      apply IH; [exact (field_ok cd f ft Hc Eft)|].
      destruct (bind_done _ _ Hk) as [[v' [Hv _]]|[e He]]; [rewrite Hv|rewrite He]; reflexivity.
    + destruct (bind_done _ _ Hd) as [[kw [Hk _]]|[e He]]; [rewrite Hk|rewrite He]; reflexivity.
  - (* TRefLeaf *) apply ev_S. eapply ev_ext; [intros m; apply unm_S|]. exists 0; reflexivity.
  - (* TAliasStr *) apply ev_S. eapply ev_ext; [intros m; apply unm_S|]. cbv beta iota.
    unfold named_body, dnorm_env in *. pose proof (HE n0) as Hc.
    destruct (E n0) as [[cd|t']|]; [|apply IH; assumption|apply ev_const].
    destruct (load rt x) as [d|e| |]; cbn [bind done] in *; try discriminate Hd; try apply ev_const.
    fold E'. rewrite iteritems_dnorm.
    destruct (iteritems rt E d) as [kvs|e| |]; cbn [bind done] in *; try discriminate Hd; try apply ev_const.
    apply ev_bind; [|intros kw _; rewrite construct_class_dnorm; apply ev_const|exact Hd].
    apply foldM_ev.
    + intros kw kv _ Hk. unfold ustep in *. destruct (fst kv); try apply ev_const.
      rewrite field_ty_dnorm. destruct (field_ty cd f) as [ft|] eqn:Eft; cbn [option_map]; [|apply ev_const].
      apply ev_bind; [|intros v' _; apply ev_const|exact Hk].
      apply IH; [exact (field_ok cd f ft Hc Eft)|].
      destruct (bind_done _ _ Hk) as [[v' [Hv _]]|[e He]]; [rewrite Hv|rewrite He]; reflexivity.
    + destruct (bind_done _ _ Hd) as [[kw [Hk _]]|[e He]]; [rewrite Hk|rewrite He]; reflexivity.
Qed.

(* forward: whatever mar gives on t, mar gives on the deep normal form (in the normalised environment) *)
Theorem deep_mar_fwd : forall n t x, ok_ty t = true -> done (mar rt E n t x) = true ->
  ev (fun m => mar rt E' m (dnorm t) x) (mar rt E n t x).
Proof.
  induction n as [|n IH]; intros t x Hok Hd; [discriminate Hd|].
  rewrite mar_S in Hd |- *.
  destruct t; cbn [dnorm ok_ty] in *;
    try (apply andb_true_iff in Hok; destruct Hok as [_ Hok]; apply IH; assumption).
  - (* TLeaf *) apply ev_S. eapply ev_ext; [intros m; apply mar_S|]. exists 0; reflexivity.
  - (* TNone *) apply ev_S. eapply ev_ext; [intros m; apply mar_S|]. exists 0; reflexivity.
  - (* TSeq *) apply ev_S. eapply ev_ext; [intros m; apply mar_S|]. cbv beta iota. unfold mseq_body in *.
    destruct (itervalues rt x) as [vs|e| |]; cbn [bind done] in *; try discriminate Hd; try apply ev_const.
    apply ev_bind; [|intros rs _; apply ev_const|exact Hd].
    apply mapM_ev; [intros v _ Hv; apply IH; assumption|].
    destruct (bind_done _ _ Hd) as [[rs [Hrs _]]|[e He]]; [rewrite Hrs|rewrite He]; reflexivity.
  - (* TMap *) apply andb_true_iff in Hok. destruct Hok as [Hok1 Hok2].
    apply ev_S. eapply ev_ext; [intros m; apply mar_S|]. cbv beta iota. unfold mmap_body in *.
    rewrite iteritems_dnorm.
    destruct (iteritems rt E x) as [kvs|e| |]; cbn [bind done] in *; try discriminate Hd; try apply ev_const.
    apply ev_bind; [|intros rs _; apply ev_const|exact Hd].
    apply mapM_ev.
    + intros kv _ Hkh. apply ev_hashing; [|exact Hkh]. clear Hkh. intros Hkv. cbv beta in Hkv |- *. apply ev_bind; [| |exact Hkv].
      * apply IH; [assumption|]. destruct (bind_done _ _ Hkv) as [[k' [Hk _]]|[e He]]; [rewrite Hk|rewrite He]; reflexivity.
      * intros k' Hk'. rewrite Hk' in Hkv. cbn [bind] in Hkv. apply ev_bind; [|intros v' _; apply ev_const|exact Hkv].
        apply IH; [assumption|]. destruct (bind_done _ _ Hkv) as [[v' [Hv _]]|[e He]]; [rewrite Hv|rewrite He]; reflexivity.
    + destruct (bind_done _ _ Hd) as [[rs [Hrs _]]|[e He]]; [rewrite Hrs|rewrite He]; reflexivity.
  - (* TTuple *) apply ev_S. eapply ev_ext; [intros m; apply mar_S|]. cbv beta iota. unfold mtuple_body in *.
    destruct (itervalues rt x) as [vs|e| |]; cbn [bind done] in *; try discriminate Hd; try apply ev_const.
    apply ev_bind; [|intros out _; apply ev_const|exact Hd].
    assert (Hdm : done (mapM (fun tv => mar rt E n (fst tv) (snd tv)) (zip_trunc ts vs)) = true).
    { destruct (bind_done _ _ Hd) as [[o [Ho _]]|[e He]]; [rewrite Ho|rewrite He]; reflexivity. }
    clear Hd. revert vs Hdm. induction ts as [|t0 ts0 IHt]; intros vs Hdm; [exists 0; reflexivity|].
    cbn [forallb] in Hok. apply andb_true_iff in Hok. destruct Hok as [Hok0 Hoks].
    destruct vs as [|v vs]; [exists 0; reflexivity|]. cbn [map zip_trunc mapM fst snd] in *.
    destruct (mar rt E n t0 v) as [y|e| |] eqn:Ey; cbn [bind done] in Hdm; try discriminate Hdm.
    + destruct (IH t0 v Hok0) as [m1 H1]; [rewrite Ey; reflexivity|].
      assert (Hdr : done (mapM (fun tv => mar rt E n (fst tv) (snd tv)) (zip_trunc ts0 vs)) = true).
      { destruct (mapM _ (zip_trunc ts0 vs)); cbn [bind done] in *; try discriminate Hdm; reflexivity. }
      destruct (IHt Hoks vs Hdr) as [m2 H2]. exists (Nat.max m1 m2). intros m' Hm'.
      rewrite H1 by lia. rewrite Ey. cbn [bind]. rewrite H2 by lia. reflexivity.
    + destruct (IH t0 v Hok0) as [m1 H1]; [rewrite Ey; reflexivity|].
      exists m1. intros m' Hm'. rewrite H1 by lia. rewrite Ey. reflexivity.
  - (* TUnion *) apply ev_S. eapply ev_ext; [intros m; apply mar_S|]. cbv beta iota.
    destruct (union_stack_dnorm ts Hok) as [_ Hopt]. rewrite Hopt.
    destruct (isoptional ts && is_none_val rt x); [exists 0; reflexivity|].
    apply (first_ok_ev rt (map (mar rt E n) ts) (fun m => map (mar rt E' m) (map dnorm ts)) x).
    + intros m. rewrite !map_length. reflexivity.
    + intros i f Hi Hdf. rewrite nth_error_map in Hi. destruct (nth_error ts i) as [ti|] eqn:Eti; [|discriminate Hi].
      injection Hi as <-.
      eapply ev_ext; [intros m; rewrite !nth_error_map, Eti; reflexivity|].
      apply IH; [|exact Hdf]. rewrite forallb_forall in Hok. apply Hok. exact (nth_error_In _ _ Eti).
    + exact Hd.
  - (* TName *) apply ev_S. eapply ev_ext; [intros m; apply mar_S|]. cbv beta iota.
    unfold mnamed_body, dnorm_env in *. pose proof (HE n0) as Hc.
    destruct (E n0) as [[cd|t']|]; [|apply IH; assumption|apply ev_const].
    fold E'. rewrite iteritems_dnorm.
    destruct (iteritems rt E x) as [kvs|e| |]; cbn [bind done] in *; try discriminate Hd; try apply ev_const.
    apply ev_bind; [|intros kw _; apply ev_const|exact Hd].
    apply foldM_ev.
    + intros kw kv _ Hk. unfold ustep in *. destruct (fst kv); try apply ev_const.
      rewrite field_ty_dnorm. destruct (field_ty cd f) as [ft|] eqn:Eft; cbn [option_map]; [|apply ev_const].
      apply ev_bind; [|intros v' _; apply ev_const|exact Hk].
      apply IH; [exact (field_ok cd f ft Hc Eft)|].
      destruct (bind_done _ _ Hk) as [[v' [Hv _]]|[e He]]; [rewrite Hv|rewrite He]; reflexivity.
    + destruct (bind_done _ _ Hd) as [[kw [Hk _]]|[e He]]; [rewrite Hk|rewrite He]; reflexivity.
  - (* TRef *) apply ev_S. eapply ev_ext; [intros m; apply mar_S|]. cbv beta iota.
    unfold mnamed_body, dnorm_env in *. pose proof (HE n0) as Hc.
    destruct (E n0) as [[cd|t']|]; [|apply IH; assumption|apply ev_const].
    fold E'. rewrite iteritems_dnorm.
    destruct (iteritems rt E x) as [kvs|e| |]; cbn [bind done] in *; try discriminate Hd; try apply ev_const.
    apply ev_bind; [|intros kw _; apply ev_const|exact Hd].
    apply foldM_ev.
    + intros kw kv _ Hk. unfold ustep in *. destruct (fst kv); try apply ev_const.
      rewrite field_ty_dnorm. destruct (field_ty cd f) as [ft|] eqn:Eft; cbn [option_map]; [|apply ev_const].
      apply ev_bind; [|intros v' _; apply ev_const|exact Hk].
      apply IH; [exact (field_ok cd f ft Hc Eft)|].
      destruct (bind_done _ _ Hk) as [[v' [Hv _]]|[e He]]; [rewrite Hv|rewrite He]; reflexivity.
    + destruct (bind_done _ _ Hd) as [[kw [Hk _]]|[e He]]; [rewrite Hk|rewrite He]; reflexivity.
  - (* TRefLeaf *) apply ev_S. eapply ev_ext; [intros m; apply mar_S|]. exists 0; reflexivity.
  - (* TAliasStr *) apply ev_S. eapply ev_ext; [intros m; apply mar_S|]. cbv beta iota.
    unfold mnamed_body, dnorm_env in *. pose proof (HE n0) as Hc.
    destruct (E n0) as [[cd|t']|]; [|apply IH; assumption|apply ev_const].
    fold E'. rewrite iteritems_dnorm.
    destruct (iteritems rt E x) as [kvs|e| |]; cbn [bind done] in *; try discriminate Hd; try apply ev_const.
    apply ev_bind; [|intros kw _; apply ev_const|exact Hd].
    apply foldM_ev.
    + intros kw kv _ Hk. unfold ustep in *. destruct (fst kv); try apply ev_const.
      rewrite field_ty_dnorm. destruct (field_ty cd f) as [ft|] eqn:Eft; cbn [option_map]; [|apply ev_const].
      apply ev_bind; [|intros v' _; apply ev_const|exact Hk].
      apply IH; [exact (field_ok cd f ft Hc Eft)|].
      destruct (bind_done _ _ Hk) as [[v' [Hv _]]|[e He]]; [rewrite Hv|rewrite He]; reflexivity.
    + destruct (bind_done _ _ Hd) as [[kw [Hk _]]|[e He]]; [rewrite Hk|rewrite He]; reflexivity.
Qed.

End Deep.

Lemma denv_class E c cd : E c = Some (NClass cd) -> dnorm_env E c = Some (NClass (dnorm_cd cd)).
Proof. unfold dnorm_env. intros ->. reflexivity. Qed.
Lemma denv_type E c t : E c = Some (NType t) -> dnorm_env E c = Some (NType (dnorm t)).
Proof. unfold dnorm_env. intros ->. reflexivity. Qed.
Lemma denv_none E c : E c = None -> dnorm_env E c = None.
Proof. unfold dnorm_env. intros ->. reflexivity. Qed.

Section DeepBack.
Variable rt : runtime.
Variable E : env.
Hypothesis HE : ok_env E.
Notation E' := (dnorm_env E).

(* backward: whatever unm gives on the deep normal form, it gives on t *)
Theorem deep_unm_bwd : forall n t x, ok_ty t = true -> done (unm rt E' n (dnorm t) x) = true ->
  ev (fun m => unm rt E m t x) (unm rt E' n (dnorm t) x).
Proof.
  induction n as [|n IH]; intros t; [intros x _ Hd; discriminate Hd|].
  induction t; intros x Hok Hd; cbn [dnorm ok_ty] in *;
    try (apply andb_true_iff in Hok; destruct Hok as [_ Hok]; apply ev_S;
         (eapply ev_ext; [intros m; apply unm_S|]); cbv beta iota; apply IHt; assumption);
    rewrite unm_S in Hd |- *; apply ev_S; (eapply ev_ext; [intros m; apply unm_S|]); cbv beta iota.
  - (* TLeaf *) exists 0; reflexivity.
  - (* TNone *) exists 0; reflexivity.
  - (* TSeq *) unfold seq_body in *.
    destruct (load rt x) as [d|e| |]; cbn [bind done] in *; try discriminate Hd; try (exists 0; reflexivity).
    destruct (itervalues rt d) as [vs|e| |]; cbn [bind done] in *; try discriminate Hd; try (exists 0; reflexivity).
    apply ev_bind; [|intros rs _; apply ev_const|exact Hd].
    apply mapM_ev; [intros v _ Hv; apply ev_elem_conv; [intros Hv'; apply IH; assumption|exact Hv]|].
    destruct (bind_done _ _ Hd) as [[rs [Hrs _]]|[e He]]; [rewrite Hrs|rewrite He]; reflexivity.
  - (* TMap *) apply andb_true_iff in Hok. destruct Hok as [Hok1 Hok2]. unfold map_body in *.
    destruct (load rt x) as [d|e| |]; cbn [bind done] in *; try discriminate Hd; try (exists 0; reflexivity).
    rewrite iteritems_dnorm in Hd |- *.
    destruct (iteritems rt E d) as [kvs|e| |]; cbn [bind done] in *; try discriminate Hd; try (exists 0; reflexivity).
    apply ev_bind; [|intros rs _; apply ev_const|exact Hd].
    apply mapM_ev.
    + intros kv _ Hkh. apply ev_hashing; [|exact Hkh]. clear Hkh. intros Hkv. cbv beta in Hkv |- *. apply ev_bind; [| |exact Hkv].
      * apply IH; [assumption|]. destruct (bind_done _ _ Hkv) as [[k' [Hk _]]|[e He]]; [rewrite Hk|rewrite He]; reflexivity.
      * intros k' Hk'. rewrite Hk' in Hkv. cbn [bind] in Hkv. apply ev_bind; [|intros v' _; apply ev_const|exact Hkv].
        apply IH; [assumption|]. destruct (bind_done _ _ Hkv) as [[v' [Hv _]]|[e He]]; [rewrite Hv|rewrite He]; reflexivity.
    + destruct (bind_done _ _ Hd) as [[rs [Hrs _]]|[e He]]; [rewrite Hrs|rewrite He]; reflexivity.
  - (* TTuple *) unfold tuple_body in *.
    destruct (load rt x) as [d|e| |]; cbn [bind done] in *; try discriminate Hd; try (exists 0; reflexivity).
    destruct (itervalues rt d) as [vs|e| |]; cbn [bind done] in *; try discriminate Hd; try (exists 0; reflexivity).
    rewrite map_length in Hd |- *. destruct (Nat.ltb (length vs) (length ts)); [exists 0; reflexivity|].
    apply ev_bind; [|intros out _; apply ev_const|exact Hd].
    assert (Hdm : done (mapM (fun tv => unm rt E' n (fst tv) (snd tv)) (zip_trunc (map dnorm ts) vs)) = true).
    { destruct (bind_done _ _ Hd) as [[o [Ho _]]|[e He]]; [rewrite Ho|rewrite He]; reflexivity. }
    clear Hd. revert vs Hdm. induction ts as [|t0 ts0 IHt]; intros vs Hdm; [exists 0; reflexivity|].
    cbn [forallb] in Hok. apply andb_true_iff in Hok. destruct Hok as [Hok0 Hoks].
    destruct vs as [|v vs]; [exists 0; reflexivity|]. cbn [map zip_trunc mapM fst snd] in *.
    destruct (unm rt E' n (dnorm t0) v) as [y|e| |] eqn:Ey; cbn [bind done] in Hdm; try discriminate Hdm.
    + destruct (IH t0 v Hok0) as [m1 H1]; [rewrite Ey; reflexivity|].
      assert (Hdr : done (mapM (fun tv => unm rt E' n (fst tv) (snd tv)) (zip_trunc (map dnorm ts0) vs)) = true).
      { destruct (mapM _ (zip_trunc (map dnorm ts0) vs)); cbn [bind done] in *; try discriminate Hdm; reflexivity. }
      destruct (IHt Hoks vs Hdr) as [m2 H2]. exists (Nat.max m1 m2). intros m' Hm'.
      rewrite H1 by lia. rewrite Ey. cbn [bind]. rewrite H2 by lia. reflexivity.
    + destruct (IH t0 v Hok0) as [m1 H1]; [rewrite Ey; reflexivity|].
      exists m1. intros m' Hm'. rewrite H1 by lia. rewrite Ey. reflexivity.
  - (* TUnion *)
    destruct (union_stack_dnorm ts Hok) as [Hst _]. rewrite Hst in Hd |- *.
    apply (first_ok_ev rt (map (unm rt E' n) (map dnorm (union_stack_u ts))) (fun m => map (unm rt E m) (union_stack_u ts)) x).
    + intros m. rewrite !map_length. reflexivity.
    + intros i f Hi Hdf. rewrite !nth_error_map in Hi. destruct (nth_error (union_stack_u ts) i) as [ti|] eqn:Eti; [|discriminate Hi].
      injection Hi as <-.
      eapply ev_ext; [intros m; rewrite nth_error_map, Eti; reflexivity|].
      apply IH; [|exact Hdf]. rewrite forallb_forall in Hok. apply Hok.
      apply nth_error_In in Eti. unfold union_stack_u, none_first in Eti.
      destruct (isoptional ts); [|exact Eti]. apply in_app_or in Eti. destruct Eti as [Ht|Ht]; apply filter_In in Ht; apply Ht.
    + exact Hd.
  - (* TName *)
    unfold named_body in *. pose proof (HE n0) as Hc.
    destruct (E n0) as [[cd|t']|] eqn:Ec.
    2:{ rewrite (denv_type E n0 t' Ec) in Hd |- *. apply IH; assumption. }
    2:{ rewrite (denv_none E n0 Ec) in Hd |- *. exists 0; reflexivity. }
    rewrite (denv_class E n0 cd Ec) in Hd |- *.
    destruct (load rt x) as [d|e| |]; cbn [bind done] in *; try discriminate Hd; try (exists 0; reflexivity).
    rewrite iteritems_dnorm in Hd |- *.
    destruct (iteritems rt E d) as [kvs|e| |]; cbn [bind done] in *; try discriminate Hd; try (exists 0; reflexivity).
    apply ev_bind; [|intros kw _; rewrite construct_class_dnorm; apply ev_const|exact Hd].
    apply foldM_ev.
    + intros kw kv _ Hk. unfold ustep in *. destruct (fst kv); try apply ev_const.
      rewrite field_ty_dnorm in Hk |- *. destruct (field_ty cd f) as [ft|] eqn:Eft; cbn [option_map] in *; [|apply ev_const].
      apply ev_bind; [|intros v' _; apply ev_const|exact Hk].
      apply IH; [exact (field_ok cd f ft Hc Eft)|].
      destruct (bind_done _ _ Hk) as [[v' [Hv _]]|[e He]]; [rewrite Hv|rewrite He]; reflexivity.
    + destruct (bind_done _ _ Hd) as [[kw [Hk _]]|[e He]]; [rewrite Hk|rewrite He]; reflexivity.
  - (* TRef *)
    unfold named_body in *. pose proof (HE n0) as Hc.
    destruct (E n0) as [[cd|t']|] eqn:Ec.
    2:{ rewrite (denv_type E n0 t' Ec) in Hd |- *. apply IH; assumption. }
    2:{ rewrite (denv_none E n0 Ec) in Hd |- *. exists 0; reflexivity. }
    rewrite (denv_class E n0 cd Ec) in Hd |- *.
    destruct (load rt x) as [d|e| |]; cbn [bind done] in *; try discriminate Hd; try (exists 0; reflexivity).
    rewrite iteritems_dnorm in Hd |- *.
    destruct (iteritems rt E d) as [kvs|e| |]; cbn [bind done] in *; try discriminate Hd; try (exists 0; reflexivity).
    apply ev_bind; [|intros kw _; rewrite construct_class_dnorm; apply ev_const|exact Hd].
    apply foldM_ev.
    + intros kw kv _ Hk. unfold ustep in *. destruct (fst kv); try apply ev_const.
      rewrite field_ty_dnorm in Hk |- *. destruct (field_ty cd f) as [ft|] eqn:Eft; cbn [option_map] in *; [|apply ev_const].
      apply ev_bind; [|intros v' _; apply ev_const|exact Hk].
      apply IH; [exact (field_ok cd f ft Hc Eft)|].
      destruct (bind_done _ _ Hk) as [[v' [Hv _]]|[e He]]; [rewrite Hv|rewrite He]; reflexivity.
    + destruct (bind_done _ _ Hd) as [[kw [Hk _]]|[e He]]; [rewrite Hk|rewrite He]; reflexivity.
  - (* TRefLeaf *) exists 0; reflexivity.
  - (* TAliasStr *)
    unfold named_body in *. pose proof (HE n0) as Hc.
    destruct (E n0) as [[cd|t']|] eqn:Ec.
    2:{ rewrite (denv_type E n0 t' Ec) in Hd |- *. apply IH; assumption. }
    2:{ rewrite (denv_none E n0 Ec) in Hd |- *. exists 0; reflexivity. }
    rewrite (denv_class E n0 cd Ec) in Hd |- *.
    destruct (load rt x) as [d|e| |]; cbn [bind done] in *; try discriminate Hd; try (exists 0; reflexivity).
    rewrite iteritems_dnorm in Hd |- *.
    destruct (iteritems rt E d) as [kvs|e| |]; cbn [bind done] in *; try discriminate Hd; try (exists 0; reflexivity).
    apply ev_bind; [|intros kw _; rewrite construct_class_dnorm; apply ev_const|exact Hd].
    apply foldM_ev.
    + intros kw kv _ Hk. unfold ustep in *. destruct (fst kv); try apply ev_const.
      rewrite field_ty_dnorm in Hk |- *. destruct (field_ty cd f) as [ft|] eqn:Eft; cbn [option_map] in *; [|apply ev_const].
      apply ev_bind; [|intros v' _; apply ev_const|exact Hk].
      apply IH; [exact (field_ok cd f ft Hc Eft)|].
      destruct (bind_done _ _ Hk) as [[v' [Hv _]]|[e He]]; [rewrite Hv|rewrite He]; reflexivity.
    + destruct (bind_done _ _ Hd) as [[kw [Hk _]]|[e He]]; [rewrite Hk|rewrite He]; reflexivity.
Qed.

(* backward: whatever mar gives on the deep normal form, it gives on t *)
Theorem deep_mar_bwd : forall n t x, ok_ty t = true -> done (mar rt E' n (dnorm t) x) = true ->
  ev (fun m => mar rt E m t x) (mar rt E' n (dnorm t) x).
Proof.
  induction n as [|n IH]; intros t; [intros x _ Hd; discriminate Hd|].
  induction t; intros x Hok Hd; cbn [dnorm ok_ty] in *;
    try (apply andb_true_iff in Hok; destruct Hok as [_ Hok]; apply ev_S;
         (eapply ev_ext; [intros m; apply mar_S|]); cbv beta iota; apply IHt; assumption);
    rewrite mar_S in Hd |- *; apply ev_S; (eapply ev_ext; [intros m; apply mar_S|]); cbv beta iota.
  - (* TLeaf *) exists 0; reflexivity.
  - (* TNone *) exists 0; reflexivity.
  - (* TSeq *) unfold mseq_body in *.
    destruct (itervalues rt x) as [vs|e| |]; cbn [bind done] in *; try discriminate Hd; try (exists 0; reflexivity).
    apply ev_bind; [|intros rs _; apply ev_const|exact Hd].
    apply mapM_ev; [intros v _ Hv; apply IH; assumption|].
    destruct (bind_done _ _ Hd) as [[rs [Hrs _]]|[e He]]; [rewrite Hrs|rewrite He]; reflexivity.
  - (* TMap *) apply andb_true_iff in Hok. destruct Hok as [Hok1 Hok2]. unfold mmap_body in *.
    rewrite iteritems_dnorm in Hd |- *.
    destruct (iteritems rt E x) as [kvs|e| |]; cbn [bind done] in *; try discriminate Hd; try (exists 0; reflexivity).
    apply ev_bind; [|intros rs _; apply ev_const|exact Hd].
    apply mapM_ev.
    + intros kv _ Hkh. apply ev_hashing; [|exact Hkh]. clear Hkh. intros Hkv. cbv beta in Hkv |- *. apply ev_bind; [| |exact Hkv].
      * apply IH; [assumption|]. destruct (bind_done _ _ Hkv) as [[k' [Hk _]]|[e He]]; [rewrite Hk|rewrite He]; reflexivity.
      * intros k' Hk'. rewrite Hk' in Hkv. cbn [bind] in Hkv. apply ev_bind; [|intros v' _; apply ev_const|exact Hkv].
        apply IH; [assumption|]. destruct (bind_done _ _ Hkv) as [[v' [Hv _]]|[e He]]; [rewrite Hv|rewrite He]; reflexivity.
    + destruct (bind_done _ _ Hd) as [[rs [Hrs _]]|[e He]]; [rewrite Hrs|rewrite He]; reflexivity.
  - (* TTuple *) unfold mtuple_body in *.
    destruct (itervalues rt x) as [vs|e| |]; cbn [bind done] in *; try discriminate Hd; try (exists 0; reflexivity).
    apply ev_bind; [|intros out _; apply ev_const|exact Hd].
    assert (Hdm : done (mapM (fun tv => mar rt E' n (fst tv) (snd tv)) (zip_trunc (map dnorm ts) vs)) = true).
    { destruct (bind_done _ _ Hd) as [[o [Ho _]]|[e He]]; [rewrite Ho|rewrite He]; reflexivity. }
    clear Hd. revert vs Hdm. induction ts as [|t0 ts0 IHt]; intros vs Hdm; [exists 0; reflexivity|].
    cbn [forallb] in Hok. apply andb_true_iff in Hok. destruct Hok as [Hok0 Hoks].
    destruct vs as [|v vs]; [exists 0; reflexivity|]. cbn [map zip_trunc mapM fst snd] in *.
    destruct (mar rt E' n (dnorm t0) v) as [y|e| |] eqn:Ey; cbn [bind done] in Hdm; try discriminate Hdm.
    + destruct (IH t0 v Hok0) as [m1 H1]; [rewrite Ey; reflexivity|].
      assert (Hdr : done (mapM (fun tv => mar rt E' n (fst tv) (snd tv)) (zip_trunc (map dnorm ts0) vs)) = true).
      { destruct (mapM _ (zip_trunc (map dnorm ts0) vs)); cbn [bind done] in *; try discriminate Hdm; reflexivity. }
      destruct (IHt Hoks vs Hdr) as [m2 H2]. exists (Nat.max m1 m2). intros m' Hm'.
      rewrite H1 by lia. rewrite Ey. cbn [bind]. rewrite H2 by lia. reflexivity.
    + destruct (IH t0 v Hok0) as [m1 H1]; [rewrite Ey; reflexivity|].
      exists m1. intros m' Hm'. rewrite H1 by lia. rewrite Ey. reflexivity.
  - (* TUnion *)
    destruct (union_stack_dnorm ts Hok) as [_ Hopt]. rewrite Hopt in Hd |- *.
    destruct (isoptional ts && is_none_val rt x); [exists 0; reflexivity|].
    apply (first_ok_ev rt (map (mar rt E' n) (map dnorm ts)) (fun m => map (mar rt E m) ts) x).
    + intros m. rewrite !map_length. reflexivity.
    + intros i f Hi Hdf. rewrite !nth_error_map in Hi. destruct (nth_error ts i) as [ti|] eqn:Eti; [|discriminate Hi].
      injection Hi as <-.
      eapply ev_ext; [intros m; rewrite nth_error_map, Eti; reflexivity|].
      apply IH; [|exact Hdf]. rewrite forallb_forall in Hok. apply Hok. exact (nth_error_In _ _ Eti).
    + exact Hd.
  - (* TName *)
    unfold mnamed_body in *. pose proof (HE n0) as Hc.
    destruct (E n0) as [[cd|t']|] eqn:Ec.
    2:{ rewrite (denv_type E n0 t' Ec) in Hd |- *. apply IH; assumption. }
    2:{ rewrite (denv_none E n0 Ec) in Hd |- *. exists 0; reflexivity. }
    rewrite (denv_class E n0 cd Ec) in Hd |- *.
    rewrite iteritems_dnorm in Hd |- *.
    destruct (iteritems rt E x) as [kvs|e| |]; cbn [bind done] in *; try discriminate Hd; try (exists 0; reflexivity).
    apply ev_bind; [|intros kw _; apply ev_const|exact Hd].
    apply foldM_ev.
    + intros kw kv _ Hk. unfold ustep in *. destruct (fst kv); try apply ev_const.
      rewrite field_ty_dnorm in Hk |- *. destruct (field_ty cd f) as [ft|] eqn:Eft; cbn [option_map] in *; [|apply ev_const].
      apply ev_bind; [|intros v' _; apply ev_const|exact Hk].
      apply IH; [exact (field_ok cd f ft Hc Eft)|].
      destruct (bind_done _ _ Hk) as [[v' [Hv _]]|[e He]]; [rewrite Hv|rewrite He]; reflexivity.
    + destruct (bind_done _ _ Hd) as [[kw [Hk _]]|[e He]]; [rewrite Hk|rewrite He]; reflexivity.
  - (* TRef *)
    unfold mnamed_body in *. pose proof (HE n0) as Hc.
    destruct (E n0) as [[cd|t']|] eqn:Ec.
    2:{ rewrite (denv_type E n0 t' Ec) in Hd |- *. apply IH; assumption. }
    2:{ rewrite (denv_none E n0 Ec) in Hd |- *. exists 0; reflexivity. }
    rewrite (denv_class E n0 cd Ec) in Hd |- *.
    rewrite iteritems_dnorm in Hd |- *.
    destruct (iteritems rt E x) as [kvs|e| |]; cbn [bind done] in *; try discriminate Hd; try (exists 0; reflexivity).
    apply ev_bind; [|intros kw _; apply ev_const|exact Hd].
    apply foldM_ev.
    + intros kw kv _ Hk. unfold ustep in *. destruct (fst kv); try apply ev_const.
      rewrite field_ty_dnorm in Hk |- *. destruct (field_ty cd f) as [ft|] eqn:Eft; cbn [option_map] in *; [|apply ev_const].
      apply ev_bind; [|intros v' _; apply ev_const|exact Hk].
      apply IH; [exact (field_ok cd f ft Hc Eft)|].
      destruct (bind_done _ _ Hk) as [[v' [Hv _]]|[e He]]; [rewrite Hv|rewrite He]; reflexivity.
    + destruct (bind_done _ _ Hd) as [[kw [Hk _]]|[e He]]; [rewrite Hk|rewrite He]; reflexivity.
  - (* TRefLeaf *) exists 0; reflexivity.
  - (* TAliasStr *)
    unfold mnamed_body in *. pose proof (HE n0) as Hc.
    destruct (E n0) as [[cd|t']|] eqn:Ec.
    2:{ rewrite (denv_type E n0 t' Ec) in Hd |- *. apply IH; assumption. }
    2:{ rewrite (denv_none E n0 Ec) in Hd |- *. exists 0; reflexivity. }
    rewrite (denv_class E n0 cd Ec) in Hd |- *.
    rewrite iteritems_dnorm in Hd |- *.
    destruct (iteritems rt E x) as [kvs|e| |]; cbn [bind done] in *; try discriminate Hd; try (exists 0; reflexivity).
    apply ev_bind; [|intros kw _; apply ev_const|exact Hd].
    apply foldM_ev.
    + intros kw kv _ Hk. unfold ustep in *. destruct (fst kv); try apply ev_const.
      rewrite field_ty_dnorm in Hk |- *. destruct (field_ty cd f) as [ft|] eqn:Eft; cbn [option_map] in *; [|apply ev_const].
      apply ev_bind; [|intros v' _; apply ev_const|exact Hk].
      apply IH; [exact (field_ok cd f ft Hc Eft)|].
      destruct (bind_done _ _ Hk) as [[v' [Hv _]]|[e He]]; [rewrite Hv|rewrite He]; reflexivity.
    + destruct (bind_done _ _ Hd) as [[kw [Hk _]]|[e He]]; [rewrite Hk|rewrite He]; reflexivity.
Qed.

End DeepBack.

Section Nested.
Variable rt : runtime.
Variable E : env.
Hypothesis HE : ok_env E.

(* two annotations with the same deep normal form -- i.e. equal up to wrapper chains and references at
   the root and at every nested member position -- are indistinguishable *)
Theorem nested_transparent_unm t t' n x :
  dnorm t = dnorm t' -> ok_ty t = true -> ok_ty t' = true ->
  done (unm rt E n t x) = true -> ev (fun m => unm rt E m t' x) (unm rt E n t x).
Proof. intros Hn Hok Hok' Hd.
  destruct (deep_unm_fwd rt E HE n t x Hok Hd) as [m1 H1].
  specialize (H1 m1 (le_n m1)). rewrite <- H1. rewrite Hn.
  apply (deep_unm_bwd rt E HE m1 t' x Hok'). rewrite <- Hn, H1. exact Hd. Qed.

Theorem nested_transparent_mar t t' n x :
  dnorm t = dnorm t' -> ok_ty t = true -> ok_ty t' = true ->
  done (mar rt E n t x) = true -> ev (fun m => mar rt E m t' x) (mar rt E n t x).
Proof. intros Hn Hok Hok' Hd.
  destruct (deep_mar_fwd rt E HE n t x Hok Hd) as [m1 H1].
  specialize (H1 m1 (le_n m1)). rewrite <- H1. rewrite Hn.
  apply (deep_mar_bwd rt E HE m1 t' x Hok'). rewrite <- Hn, H1. exact Hd. Qed.
End Nested.
