(* The converse of Proofs/BuildSemLemmas.v.  There: a terminal result of the MECHANISM (Build.run / api_call) is the
   result of the reference semantics for all sufficiently large fuel.  Here:
     - fuel monotonicity of Build.run / api_call (a value or an exception is not changed by more fuel);
     - completeness: a terminal result of the REFERENCE SEMANTICS (Core.unm / Core.mar at some fuel) is the result of
       the mechanism for all sufficiently large fuel -- the mechanism itself never stays OutOfFuel and never is
       Unmodelled.  Delayed proxies re-enter the factory (build_root) at call time; that this terminates needs two
       facts about graph.static_order beyond order_ok, both true of the real function and computable per order:
       the last node of static_order(t) is t's own, expanded node (orders_strict: a proxy is never resolved to a
       proxy for itself), and everything an order defers has an order (node_closed). *)
From Coq Require Import List Arith Bool Lia PeanoNat.
Import ListNotations.
Require Import TL.Model.Core TL.Model.Build TL.Proofs.CoreMono TL.Proofs.BuildLemmas TL.Proofs.BuildSemLemmas.

(* ================================================================================================ *)
(* Part 1: fuel monotonicity of run / api_call                                                       *)
(* ================================================================================================ *)
Section RunMono.
Variable rt : runtime.
Variable E : env.
Variable orders : ty -> option (list node).
Variable dir : bool.

(* one step of run with the recursive calls kept folded *)
Definition run_body (rec : routine -> pv -> res pv) (r : routine) (x : pv) : res pv :=
  if dir then
    match r with
    | RLeaf s => leaf_u rt s x
    | RNone => none_u rt x
    | RNoOp => Ok x
    | RSeq k r' =>
        bind (load rt x) (fun d => bind (itervalues rt d) (fun vs =>
        bind (mapM (elem_conv rt k (rec r')) vs) (fun rs => construct_seq rt k rs)))
    | RMap k rk rv =>
        bind (load rt x) (fun d => bind (iteritems rt E d) (fun kvs =>
        bind (mapM (hashing rt fst (fun kv => bind (rec rk (fst kv)) (fun k' =>
                              bind (rec rv (snd kv)) (fun v' => Ok (k', v'))))) kvs)
             (fun rs => construct_map rt k rs)))
    | RTuple rs =>
        bind (load rt x) (fun d => bind (itervalues rt d) (fun vs =>
        if Nat.ltb (length vs) (length rs) then Raise EValue
        else
        bind (mapM (fun rv => rec (fst rv) (snd rv)) (zip_trunc rs vs)) (fun out => Ok (PSeq KTuple out))))
    | RUnion _ rs => first_ok rt (map rec rs) x
    | RStruct c fields =>
        match E c with
        | Some (NClass cd) =>
            bind (load rt x) (fun d => bind (iteritems rt E d) (fun kvs =>
            bind (struct_kw rt rec fields kvs) (fun kw => construct_class c cd kw)))
        | _ => Raise EOther
        end
    | RDelayed t => bind (build_root E orders dir t) (fun r' => rec r' x)
    end
  else
    match r with
    | RLeaf s => leaf_m rt s x
    | RNone => if is_none_val rt x then Ok x else Raise EValue
    | RNoOp => Ok x
    | RSeq k r' => bind (itervalues rt x) (fun vs => bind (mapM (rec r') vs) (fun rs => Ok (PSeq KList rs)))
    | RMap k rk rv =>
        bind (iteritems rt E x) (fun kvs =>
        bind (mapM (hashing rt fst (fun kv => bind (rec rk (fst kv)) (fun k' =>
                              bind (rec rv (snd kv)) (fun v' => Ok (k', v'))))) kvs)
             (fun rs => construct_map rt KDict rs))
    | RTuple rs =>
        bind (itervalues rt x) (fun vs =>
        bind (mapM (fun rv => rec (fst rv) (snd rv)) (zip_trunc rs vs)) (fun out => Ok (PSeq KList out)))
    | RUnion nullable rs =>
        if nullable && is_none_val rt x then Ok x else first_ok rt (map rec rs) x
    | RStruct c fields =>
        bind (iteritems rt E x) (fun kvs =>
        bind (struct_kw rt rec fields kvs)
             (fun kw => Ok (PDict KDict (map (fun fv => (PKey (fst fv), snd fv)) kw))))
    | RDelayed t => bind (build_root E orders dir t) (fun r' => rec r' x)
    end.

Lemma run_S n r x : run rt E orders dir (S n) r x = run_body (run rt E orders dir n) r x.
Proof. reflexivity. Qed.

Lemma struct_kw_mono (c1 c2 : routine -> pv -> res pv) fields kvs :
  (forall r v, done (c1 r v) = true -> c2 r v = c1 r v) ->
  done (struct_kw rt c1 fields kvs) = true -> struct_kw rt c2 fields kvs = struct_kw rt c1 fields kvs.
Proof. intros Hc. unfold struct_kw.
  change (fold_left _ kvs (Ok [])) with
    (foldM (fun kw (kv : pv * pv) =>
              match fst kv with
              | PKey f => match find (fun fr : nat * routine => Nat.eqb (fst fr) f) fields with
                          | Some fr => bind (c1 (snd fr) (snd kv)) (fun v' => Ok (kw_set f v' kw))
                          | None => Ok kw end
              | k => if unhashable rt k then Raise EType else Ok kw
              end) kvs (Ok [])) at 1 3.
  change (fold_left _ kvs (Ok [])) with
    (foldM (fun kw (kv : pv * pv) =>
              match fst kv with
              | PKey f => match find (fun fr : nat * routine => Nat.eqb (fst fr) f) fields with
                          | Some fr => bind (c2 (snd fr) (snd kv)) (fun v' => Ok (kw_set f v' kw))
                          | None => Ok kw end
              | k => if unhashable rt k then Raise EType else Ok kw
              end) kvs (Ok [])).
  intros Hd. apply foldM_mono; [|exact Hd].
  intros kw kv _ Hk. destruct (fst kv); try reflexivity.
  destruct (find (fun fr : nat * routine => Nat.eqb (fst fr) f) fields) as [fr|]; [|reflexivity].
  destruct (bind_done _ _ Hk) as [[a [Ha _]]|[e He]].
  - rewrite Hc by (rewrite Ha; reflexivity). reflexivity.
  - rewrite Hc by (rewrite He; reflexivity). reflexivity. Qed.

Lemma run_body_mono (c1 c2 : routine -> pv -> res pv) r x :
  (forall r' v, done (c1 r' v) = true -> c2 r' v = c1 r' v) ->
  done (run_body c1 r x) = true -> run_body c2 r x = run_body c1 r x.
Proof.
  intros Hc. unfold run_body. destruct dir; destruct r as [s| | |k r'|k rk rv|rs|nl rs|c fields|t]; try reflexivity.
  - (* u seq *) destruct (load rt x) as [d|e| |]; cbn [bind done]; try reflexivity.
    destruct (itervalues rt d) as [vs|e| |]; cbn [bind done]; try reflexivity. intros Hd.
    rewrite (mapM_mono (elem_conv rt k (c1 r')) (elem_conv rt k (c2 r')));
      [reflexivity|intros y _ Hy; apply elem_conv_mono; [apply Hc|exact Hy]|].
    destruct (bind_done _ _ Hd) as [[o [Ho _]]|[e He]]; [rewrite Ho|rewrite He]; reflexivity.
  - (* u map *) destruct (load rt x) as [d|e| |]; cbn [bind done]; try reflexivity.
    destruct (iteritems rt E d) as [kvs|e| |]; cbn [bind done]; try reflexivity. intros Hd.
    rewrite (mapM_mono (hashing rt fst (fun kv => bind (c1 rk (fst kv)) (fun k' => bind (c1 rv (snd kv)) (fun v' => Ok (k', v')))))
                       (hashing rt fst (fun kv => bind (c2 rk (fst kv)) (fun k' => bind (c2 rv (snd kv)) (fun v' => Ok (k', v')))))).
    + reflexivity.
    + intros kv _. apply hashing_mono. intros Hkv. cbv beta in *. destruct (bind_done _ _ Hkv) as [[k' [Hk Hk2]]|[e He]].
      * rewrite (Hc rk (fst kv)) by (rewrite Hk; reflexivity). rewrite Hk. cbn [bind].
        destruct (bind_done _ _ Hk2) as [[v' [Hv _]]|[e He]].
        -- rewrite (Hc rv (snd kv)) by (rewrite Hv; reflexivity). reflexivity.
        -- rewrite (Hc rv (snd kv)) by (rewrite He; reflexivity). rewrite He. reflexivity.
      * rewrite (Hc rk (fst kv)) by (rewrite He; reflexivity). rewrite He. reflexivity.
    + destruct (bind_done _ _ Hd) as [[o [Ho _]]|[e He]]; [rewrite Ho|rewrite He]; reflexivity.
  - (* u tuple *) destruct (load rt x) as [d|e| |]; cbn [bind done]; try reflexivity.
    destruct (itervalues rt d) as [vs|e| |]; cbn [bind done]; try reflexivity.
    destruct (Nat.ltb (length vs) (length rs)); [reflexivity|]. intros Hd.
    rewrite (mapM_mono (fun rv => c1 (fst rv) (snd rv)) (fun rv => c2 (fst rv) (snd rv)));
      [reflexivity|intros tv _ Htv; apply Hc; exact Htv|].
    destruct (bind_done _ _ Hd) as [[o [Ho _]]|[e He]]; [rewrite Ho|rewrite He]; reflexivity.
  - (* u union *) intros Hd. apply first_ok_mono; [|exact Hd]. apply Forall2_map_same. intros a _ Ha. apply Hc. exact Ha.
  - (* u struct *) destruct (E c) as [[cd|t']|]; try reflexivity.
    destruct (load rt x) as [d|e| |]; cbn [bind done]; try reflexivity.
    destruct (iteritems rt E d) as [kvs|e| |]; cbn [bind done]; try reflexivity. intros Hd.
    rewrite (struct_kw_mono c1 c2); [reflexivity|exact Hc|].
    destruct (bind_done _ _ Hd) as [[o [Ho _]]|[e He]]; [rewrite Ho|rewrite He]; reflexivity.
  - (* u delayed *) destruct (build_root E orders true t) as [r'|e| |]; cbn [bind]; try reflexivity. apply Hc.
  - (* m seq *) destruct (itervalues rt x) as [vs|e| |]; cbn [bind done]; try reflexivity. intros Hd.
    rewrite (mapM_mono (c1 r') (c2 r')); [reflexivity|intros y _ Hy; apply Hc; exact Hy|].
    destruct (bind_done _ _ Hd) as [[o [Ho _]]|[e He]]; [rewrite Ho|rewrite He]; reflexivity.
  - (* m map *) destruct (iteritems rt E x) as [kvs|e| |]; cbn [bind done]; try reflexivity. intros Hd.
    rewrite (mapM_mono (hashing rt fst (fun kv => bind (c1 rk (fst kv)) (fun k' => bind (c1 rv (snd kv)) (fun v' => Ok (k', v')))))
                       (hashing rt fst (fun kv => bind (c2 rk (fst kv)) (fun k' => bind (c2 rv (snd kv)) (fun v' => Ok (k', v')))))).
    + reflexivity.
    + intros kv _. apply hashing_mono. intros Hkv. cbv beta in *. destruct (bind_done _ _ Hkv) as [[k' [Hk Hk2]]|[e He]].
      * rewrite (Hc rk (fst kv)) by (rewrite Hk; reflexivity). rewrite Hk. cbn [bind].
        destruct (bind_done _ _ Hk2) as [[v' [Hv _]]|[e He]].
        -- rewrite (Hc rv (snd kv)) by (rewrite Hv; reflexivity). reflexivity.
        -- rewrite (Hc rv (snd kv)) by (rewrite He; reflexivity). rewrite He. reflexivity.
      * rewrite (Hc rk (fst kv)) by (rewrite He; reflexivity). rewrite He. reflexivity.
    + destruct (bind_done _ _ Hd) as [[o [Ho _]]|[e He]]; [rewrite Ho|rewrite He]; reflexivity.
  - (* m tuple *) destruct (itervalues rt x) as [vs|e| |]; cbn [bind done]; try reflexivity. intros Hd.
    rewrite (mapM_mono (fun rv => c1 (fst rv) (snd rv)) (fun rv => c2 (fst rv) (snd rv)));
      [reflexivity|intros tv _ Htv; apply Hc; exact Htv|].
    destruct (bind_done _ _ Hd) as [[o [Ho _]]|[e He]]; [rewrite Ho|rewrite He]; reflexivity.
  - (* m union *) destruct (nl && is_none_val rt x); [reflexivity|].
    intros Hd. apply first_ok_mono; [|exact Hd]. apply Forall2_map_same. intros a _ Ha. apply Hc. exact Ha.
  - (* m struct *) destruct (iteritems rt E x) as [kvs|e| |]; cbn [bind done]; try reflexivity. intros Hd.
    rewrite (struct_kw_mono c1 c2); [reflexivity|exact Hc|].
    destruct (bind_done _ _ Hd) as [[o [Ho _]]|[e He]]; [rewrite Ho|rewrite He]; reflexivity.
  - (* m delayed *) destruct (build_root E orders false t) as [r'|e| |]; cbn [bind]; try reflexivity. apply Hc.
Qed.

(* a value or an exception is not changed by more fuel *)
Theorem run_mono : forall n r x, done (run rt E orders dir n r x) = true ->
  run rt E orders dir (S n) r x = run rt E orders dir n r x.
Proof. induction n as [|n IH]; intros r x Hd; [discriminate Hd|].
  rewrite (run_S (S n)). rewrite (run_S n) in Hd |- *. apply run_body_mono; [exact IH|exact Hd]. Qed.

Corollary run_mono_le n m r x : n <= m -> done (run rt E orders dir n r x) = true ->
  run rt E orders dir m r x = run rt E orders dir n r x.
Proof. intros Hle Hd. induction Hle as [|m Hle IH]; [reflexivity|].
  rewrite run_mono; [exact IH|rewrite IH; exact Hd]. Qed.

Corollary api_call_mono_le n m T x : n <= m -> done (api_call rt E orders dir n T x) = true ->
  api_call rt E orders dir m T x = api_call rt E orders dir n T x.
Proof. unfold api_call. destruct (build_root E orders dir T) as [r|e| |]; cbn [bind]; try reflexivity.
  apply run_mono_le. Qed.

End RunMono.

(* ================================================================================================ *)
(* Part 2: alias chains, the weight of a proxy target, what a terminal result of unm / mar tells      *)
(* ================================================================================================ *)
Section Chains.
Variable E : env.

(* a normal form that is not the name of an alias object *)
Definition terminal (a : ty) : Prop := forall n v, a = TName n -> E n <> Some (NType v).
(* k expansions of alias names: a -> norm (value of a) -> ... *)
Inductive aexpn : nat -> ty -> ty -> Prop :=
| Ax_0 a : aexpn 0 a a
| Ax_S k n v b : E n = Some (NType v) -> aexpn k (norm v) b -> aexpn (S k) (TName n) b.

Lemma aexpn_split j a b : aexpn j a b -> forall k z, aexpn k a z -> terminal z -> j <= k /\ aexpn (k - j) b z.
Proof. induction 1 as [a|j n v b En H IH]; intros k z Hk Hz.
  - split; [lia|]. rewrite Nat.sub_0_r. exact Hk.
  - inversion Hk as [a'|k' n' v' b' En' Hk']; subst.
    + exfalso. exact (Hz n v eq_refl En).
    + rewrite En in En'. injection En' as <-. destruct (IH _ _ Hk' Hz) as [Hle Hr]. split; [lia|exact Hr]. Qed.

(* equivalent normal forms reach the same terminal form *)
Lemma reach_aeq a b : aeq E a b -> forall z, terminal z -> (exists k, aexpn k a z) <-> (exists k, aexpn k b z).
Proof. induction 1 as [a|a b H IH|a b c H1 IH1 H2 IH2|n v En]; intros z Hz.
  - split; exact (fun H0 => H0).
  - destruct (IH z Hz) as [A B]. split; assumption.
  - destruct (IH1 z Hz) as [A1 B1]. destruct (IH2 z Hz) as [A2 B2]. split; intros H0; [apply A2, A1|apply B1, B2]; exact H0.
  - split; intros [k Hk].
    + inversion Hk as [a'|k' n' v' b' En' Hk']; subst.
      * exfalso. exact (Hz n v eq_refl En).
      * rewrite En in En'. injection En' as <-. exists k'. exact Hk'.
    + exists (S k). exact (Ax_S k n v z En Hk). Qed.

(* how far a proxy target is from something that is built without a proxy, apart from alias expansions *)
Fixpoint pw (t : ty) : nat :=
  match t with
  | TFinal t' | TClassVar t' | TAlias _ t' | TNewType _ t' | TRefTo t' => S (pw t')
  | TAliasStr _ _ => 2
  | TRef _ | TRefLeaf _ => 1
  | _ => 0
  end.
Lemma pw_evaluate t : pw (evaluate t) <= pw t.
Proof. destruct t; cbn [evaluate pw]; lia. Qed.
Lemma pw_unwrap_s_le t : pw (unwrap_s t) <= pw t.
Proof. induction t; cbn [unwrap_s pw]; lia. Qed.
Lemma pw_unwrap_s_lt t : is_ref t = false -> is_ref (unwrap_s t) = true -> pw (unwrap_s t) < pw t.
Proof. destruct t; cbn [unwrap_s pw is_ref]; intros Hn Hr; try discriminate;
  try (pose proof (pw_unwrap_s_le t); lia); lia. Qed.

(* what unwrap does to the chain *)
Lemma unwrap_o_chain h : forall t u, unwrap_o E h t = Some u ->
  (norm u = norm t /\ u = unwrap_s t) \/ (exists j, aexpn (S j) (norm t) (norm u)).
Proof. induction h as [|h IH]; intros t u; cbn [unwrap_o]; pose proof (norm_unwrap_s t) as Hn;
  destruct (unwrap_s t) eqn:Hu; try (intros H; injection H as <-; left; split; [exact Hn|reflexivity]);
  cbn [norm] in Hn;
  (destruct (E n) as [[cd|v]|] eqn:En; try (intros H; injection H as <-; left; split; [exact Hn|reflexivity]));
  rewrite <- Hn;
  (destruct (is_ref v); [intros H; injection H as <-; right; exists 0; exact (Ax_S 0 n v _ En (Ax_0 _))|]).
  - discriminate.
  - intros H. right. destruct (IH v u H) as [[Hnu _]|[j Hj]].
    + exists 0. rewrite Hnu. exact (Ax_S 0 n v _ En (Ax_0 _)).
    + exists (S j). exact (Ax_S (S j) n v _ En Hj). Qed.

(* resolving a proxy to a proxy makes progress: closer to the terminal form, or equally far with a lighter target *)
Lemma hop_decrease t' u k0 z :
  u = unwrap E t' -> is_ref u = true -> is_ref t' = false -> aexpn k0 (norm t') z -> terminal z ->
  exists k1, aexpn k1 (norm u) z /\ (k1 < k0 \/ (k1 = k0 /\ pw u < pw t')).
Proof. intros Hu Hr Hn Hk Hz. unfold unwrap in Hu.
  assert (Hleft : norm u = norm t' -> u = unwrap_s t' -> exists k1, aexpn k1 (norm u) z /\ (k1 < k0 \/ (k1 = k0 /\ pw u < pw t'))).
  { intros H1 H2. exists k0. split; [rewrite H1; exact Hk|]. right. split; [reflexivity|].
    rewrite H2. apply pw_unwrap_s_lt; [exact Hn|rewrite <- H2; exact Hr]. }
  destruct (unwrap_o E alias_hops t') as [u0|] eqn:Ho.
  - subst u0. destruct (unwrap_o_chain _ _ _ Ho) as [[H1 H2]|[j Hj]]; [exact (Hleft H1 H2)|].
    destruct (aexpn_split _ _ _ Hj _ _ Hk Hz) as [Hle Hrest]. exists (k0 - S j). split; [exact Hrest|left; lia].
  - apply Hleft; [rewrite Hu; apply norm_unwrap_s|exact Hu]. Qed.

Lemma routes'_delayed_inv dir noop_leaf t a : routes' E dir noop_leaf (RDelayed t) a -> aeq E (norm t) a.
Proof. intros H. remember (RDelayed t) as r eqn:Hr. induction H; try discriminate Hr.
  - injection Hr as ->. assumption.
  - apply (Aq_trans E _ (norm v)); [apply IHroutes'; exact Hr|apply Aq_sym, Aq_step; assumption]. Qed.

End Chains.

Section CoreFacts.
Variable rt : runtime.
Variable E : env.

(* a terminal result on t is the result on its normal form with no more fuel *)
Lemma unm_done_norm t : forall n x, done (unm rt E n t x) = true ->
  exists m, m <= n /\ unm rt E m (norm t) x = unm rt E n t x.
Proof. induction t; intros fuel x Hd; (destruct fuel as [|fuel]; [discriminate Hd|]); cbn [norm];
  try (exists (S fuel); split; [lia|reflexivity]);
  (rewrite unm_S in Hd |- *; destruct (IHt fuel x Hd) as [m [Hm He]]; exists m; split; [lia|exact He]). Qed.
Lemma mar_done_norm t : forall n x, done (mar rt E n t x) = true ->
  exists m, m <= n /\ mar rt E m (norm t) x = mar rt E n t x.
Proof. induction t; intros fuel x Hd; (destruct fuel as [|fuel]; [discriminate Hd|]); cbn [norm];
  try (exists (S fuel); split; [lia|reflexivity]);
  (rewrite mar_S in Hd |- *; destruct (IHt fuel x Hd) as [m [Hm He]]; exists m; split; [lia|exact He]). Qed.

(* ... and the result on the terminal form its alias chain ends in (the chain is finite: every alias costs fuel) *)
Lemma unm_done_hnf : forall n t x, done (unm rt E n t x) = true ->
  exists z k m, aexpn E k (norm t) z /\ terminal E z /\ m <= n /\ unm rt E m z x = unm rt E n t x.
Proof. induction n as [n IH] using lt_wf_ind. intros t x Hd.
  destruct (unm_done_norm t n x Hd) as [m [Hm He]].
  assert (Hterm : (forall c v, norm t = TName c -> E c <> Some (NType v)) ->
                  exists z k m0, aexpn E k (norm t) z /\ terminal E z /\ m0 <= n /\ unm rt E m0 z x = unm rt E n t x).
  { intros Ht. exists (norm t), 0, m. split; [constructor|]. split; [exact Ht|]. split; assumption. }
  destruct (norm t) as [| | | | | |c| | | | | | | |] eqn:Ha; try (apply Hterm; intros c0 v0 Hc0; discriminate Hc0).
  destruct (E c) as [[cd|v]|] eqn:Ec.
  - apply Hterm. intros c0 v0 Hc0. injection Hc0 as <-. rewrite Ec. discriminate.
  - destruct m as [|m']; [rewrite <- He in Hd; discriminate Hd|].
    assert (Hs : unm rt E (S m') (TName c) x = unm rt E m' v x) by (rewrite unm_S; unfold named_body; rewrite Ec; reflexivity).
    rewrite Hs in He. destruct (IH m' ltac:(lia) v x) as [z [k [m0 [Hk [Hz [Hm0 He0]]]]]]; [rewrite He; exact Hd|].
    exists z, (S k), m0. split; [exact (Ax_S E k c v z Ec Hk)|]. split; [exact Hz|]. split; [lia|]. rewrite He0. exact He.
  - apply Hterm. intros c0 v0 Hc0. injection Hc0 as <-. rewrite Ec. discriminate.
Qed.
Lemma mar_done_hnf : forall n t x, done (mar rt E n t x) = true ->
  exists z k m, aexpn E k (norm t) z /\ terminal E z /\ m <= n /\ mar rt E m z x = mar rt E n t x.
Proof. induction n as [n IH] using lt_wf_ind. intros t x Hd.
  destruct (mar_done_norm t n x Hd) as [m [Hm He]].
  assert (Hterm : (forall c v, norm t = TName c -> E c <> Some (NType v)) ->
                  exists z k m0, aexpn E k (norm t) z /\ terminal E z /\ m0 <= n /\ mar rt E m0 z x = mar rt E n t x).
  { intros Ht. exists (norm t), 0, m. split; [constructor|]. split; [exact Ht|]. split; assumption. }
  destruct (norm t) as [| | | | | |c| | | | | | | |] eqn:Ha; try (apply Hterm; intros c0 v0 Hc0; discriminate Hc0).
  destruct (E c) as [[cd|v]|] eqn:Ec.
  - apply Hterm. intros c0 v0 Hc0. injection Hc0 as <-. rewrite Ec. discriminate.
  - destruct m as [|m']; [rewrite <- He in Hd; discriminate Hd|].
    assert (Hs : mar rt E (S m') (TName c) x = mar rt E m' v x) by (rewrite mar_S; unfold mnamed_body; rewrite Ec; reflexivity).
    rewrite Hs in He. destruct (IH m' ltac:(lia) v x) as [z [k [m0 [Hk [Hz [Hm0 He0]]]]]]; [rewrite He; exact Hd|].
    exists z, (S k), m0. split; [exact (Ax_S E k c v z Ec Hk)|]. split; [exact Hz|]. split; [lia|]. rewrite He0. exact He.
  - apply Hterm. intros c0 v0 Hc0. injection Hc0 as <-. rewrite Ec. discriminate.
Qed.

End CoreFacts.

(* ================================================================================================ *)
(* Part 3: what the factory returns for a proxy target                                               *)
(* ================================================================================================ *)
Section Factory.
Variable E : env.
Variable orders : ty -> option (list node).
Variable dir : bool.
Variable noop_leaf : nat -> bool.

(* the proxy target t can be resolved: graph.static_order has an answer for what it evaluates to *)
Definition defd (t : ty) : bool := match orders (evaluate t) with Some _ => true | None => false end.
(* every proxy inside a routine can be resolved *)
Fixpoint resolvable (r : routine) : bool :=
  match r with
  | RDelayed t => defd t
  | RSeq _ r' => resolvable r'
  | RMap _ rk rv => resolvable rk && resolvable rv
  | RTuple rs => (fix go (l : list routine) : bool := match l with [] => true | x :: t => resolvable x && go t end) rs
  | RUnion _ rs => (fix go (l : list routine) : bool := match l with [] => true | x :: t => resolvable x && go t end) rs
  | RStruct _ fs =>
      (fix go (l : list (nat * routine)) : bool := match l with [] => true | f :: t => resolvable (snd f) && go t end) fs
  | _ => true
  end.
Definition res_list (rs : list routine) : bool := forallb resolvable rs.
Lemma res_tuple rs : resolvable (RTuple rs) = res_list rs.
Proof. cbn [resolvable]. unfold res_list. induction rs as [|x t IH]; [reflexivity|]. cbn [forallb]. rewrite IH. reflexivity. Qed.
Lemma res_union b rs : resolvable (RUnion b rs) = res_list rs.
Proof. cbn [resolvable]. unfold res_list. induction rs as [|x t IH]; [reflexivity|]. cbn [forallb]. rewrite IH. reflexivity. Qed.
Lemma res_struct c fs : resolvable (RStruct c fs) = forallb (fun f => resolvable (snd f)) fs.
Proof. cbn [resolvable]. induction fs as [|x t IH]; [reflexivity|]. cbn [forallb]. rewrite IH. reflexivity. Qed.

(* what an order defers can be resolved: a deferred node's type, and the reference an expanded node unwraps to *)
Definition node_closed (n : node) : bool :=
  if ncyc n then defd (ntype n)
  else match nunw n with
       | TRef _ | TRefLeaf _ | TRefTo _ | TAliasStr _ _ => defd (nunw n)
       | _ => true
       end.
(* graph.static_order(t) ends in t's own, expanded node; keys are evaluated annotations; everything deferred has
   an order.  (All three hold of the real function; computable per order: BuildTables.orders_strict_ok.) *)
Definition orders_strict : Prop :=
  forall t ns, orders t = Some ns ->
    exists pre root, ns = pre ++ [root] /\ ntype root = t /\ ncyc root = false /\ is_ref t = false /\
                     forallb node_closed ns = true.

Definition ctx_res (cx : ctx) : Prop := forall k r, In (k, r) cx -> resolvable r = true.

Lemma find_key_res cx k r : ctx_res cx -> find_key k cx = Some r -> resolvable r = true.
Proof. intros Hc H. destruct (find_key_in _ _ _ H) as [k' [Hin _]]. exact (Hc _ _ Hin). Qed.
Lemma getitem_res cx k r : ctx_res cx -> getitem E cx k = Ok r -> resolvable r = true.
Proof. intros Hc. unfold getitem.
  destruct (find_key k cx) as [r0|] eqn:E1; [intros H; injection H as <-; exact (find_key_res _ _ _ Hc E1)|].
  destruct (is_ref k); [discriminate|].
  destruct (find_key (unwrap E k) cx) as [r1|] eqn:E2; [intros H; injection H as <-; exact (find_key_res _ _ _ Hc E2)|].
  destruct (fref k) as [rf|]; [|discriminate].
  destruct (find_key rf cx) as [r2|] eqn:E4; [|discriminate]. intros H; injection H as <-. exact (find_key_res _ _ _ Hc E4). Qed.
Lemma ctx_get_res cx k r : ctx_res cx -> ctx_get E cx k = Some r -> resolvable r = true.
Proof. unfold ctx_get. intros Hc. destruct (getitem E cx k) as [r0| | |] eqn:Eg; try discriminate.
  intros H; injection H as <-. exact (getitem_res _ _ _ Hc Eg). Qed.

Lemma mapM_res {A} (f : A -> res routine) l rs :
  (forall a b, In a l -> f a = Ok b -> resolvable b = true) -> mapM f l = Ok rs -> res_list rs = true.
Proof. intros Hf Hm. pose proof (mapM_Forall2 f (fun b _ => resolvable b = true) l rs Hf Hm) as HF.
  unfold res_list. clear Hm Hf. induction HF; [reflexivity|]. cbn [forallb]. rewrite H, IHHF. reflexivity. Qed.

Lemma construct_res cx u r :
  ctx_res cx ->
  match u with TRef _ | TRefLeaf _ | TRefTo _ | TAliasStr _ _ => defd u = true | _ => True end ->
  construct E dir cx u = Ok r -> resolvable r = true.
Proof. intros Hc Hu. unfold construct. destruct u; intros H; try discriminate H;
    try (injection H as <-; first [exact Hu|reflexivity]).
  - destruct (getitem E cx (evaluate u)) as [r0| | |] eqn:Eg; cbn [bind] in H; try discriminate H.
    injection H as <-. cbn [resolvable]. exact (getitem_res _ _ _ Hc Eg).
  - destruct (getitem E cx (evaluate u1)) as [rk| | |] eqn:Ek; cbn [bind] in H; try discriminate H.
    destruct (getitem E cx (evaluate u2)) as [rv| | |] eqn:Ev; cbn [bind] in H; try discriminate H.
    injection H as <-. cbn [resolvable]. rewrite (getitem_res _ _ _ Hc Ek), (getitem_res _ _ _ Hc Ev). reflexivity.
  - destruct (mapM (fun t => getitem E cx (evaluate t)) ts) as [rs| | |] eqn:Em; cbn [bind] in H; try discriminate H.
    injection H as <-. rewrite res_tuple. apply (mapM_res _ _ _ (fun a b _ Hg => getitem_res _ _ _ Hc Hg) Em).
  - destruct (mapM (getitem E cx) (members_u dir ts)) as [rs| | |] eqn:Em; cbn [bind] in H; try discriminate H.
    injection H as <-. rewrite res_union. apply (mapM_res _ _ _ (fun a b _ Hg => getitem_res _ _ _ Hc Hg) Em).
  - destruct (E n) as [[cd|t']|]; try discriminate H. injection H as <-. rewrite res_struct.
    induction (cfields cd) as [|fd l IH]; [reflexivity|]. cbn [map forallb snd]. rewrite IH. rewrite andb_true_r.
    destruct (ctx_get E cx (fty fd)) as [r0|] eqn:E1; [exact (ctx_get_res _ _ _ Hc E1)|].
    destruct (ctx_get E cx (evaluate (fty fd))) as [r1|] eqn:E2; [exact (ctx_get_res _ _ _ Hc E2)|reflexivity].
Qed.

Lemma build_node_res cx n r : ctx_res cx -> node_closed n = true -> build_node E dir cx n = Ok r -> resolvable r = true.
Proof. intros Hc Hn. unfold build_node, node_closed in *. destruct (ncyc n).
  - intros H. injection H as <-. exact Hn.
  - assert (Hcons : construct E dir cx (nunw n) = Ok r -> resolvable r = true).
    { apply construct_res; [exact Hc|]. destruct (nunw n); try exact I; exact Hn. }
    destruct (find_key (ntype n) cx) as [r0|] eqn:Ef; [|exact Hcons].
    destruct (is_delayed r0); [exact Hcons|]. intros H. injection H as <-. exact (find_key_res _ _ _ Hc Ef). Qed.

Lemma ctx_res_set cx k r : ctx_res cx -> resolvable r = true -> ctx_res (ctx_set k r cx).
Proof. intros Hc Hr k' r' [Hin|Hin]; [injection Hin as <- <-; exact Hr|exact (Hc _ _ Hin)]. Qed.

(* the loop: every stored routine is resolvable; the last node's routine is what build_node gave for it *)
Lemma build_loop_last' pre : forall cx root cx',
  ctx_res cx -> forallb node_closed (pre ++ [root]) = true ->
  order_ok E dir noop_leaf cx (pre ++ [root]) = true -> build_loop E dir cx (pre ++ [root]) = Ok cx' ->
  exists cx0 r, node_ok E dir noop_leaf cx0 root = true /\ build_node E dir cx0 root = Ok r /\
                resolvable r = true /\ find_key (ntype root) cx' = Some r.
Proof. induction pre as [|n rest IH]; intros cx root cx' Hc Hcl Ho H; cbn [app build_loop order_ok forallb] in *.
  - apply andb_true_iff in Hcl. destruct Hcl as [Hcl _]. apply andb_true_iff in Ho. destruct Ho as [Hn _].
    destruct (build_node E dir cx root) as [r| | |] eqn:Eb; cbn [bind] in H; try discriminate H. injection H as <-.
    exists cx, r. split; [exact Hn|]. split; [exact Eb|]. split; [exact (build_node_res _ _ _ Hc Hcl Eb)|].
    unfold ctx_set. cbn [find_key]. destruct (ty_eqb (ntype root) (nunw root)); [reflexivity|].
    rewrite ty_eqb_refl. reflexivity.
  - apply andb_true_iff in Hcl. destruct Hcl as [Hcl1 Hcl]. apply andb_true_iff in Ho. destruct Ho as [_ Ho].
    destruct (build_node E dir cx n) as [r| | |] eqn:Eb; cbn [bind] in H; try discriminate H; try discriminate Ho.
    pose proof (build_node_res _ _ _ Hc Hcl1 Eb) as Hr.
    exact (IH _ _ _ (ctx_res_set _ _ _ (ctx_res_set _ _ _ Hc Hr) Hr) Hcl Ho H). Qed.

Lemma construct_delayed cx w u : construct E dir cx w = Ok (RDelayed u) ->
  w = u /\ (is_ref u = true \/ exists i c, u = TAliasStr i c).
Proof. unfold construct. destruct w; intros H; try discriminate H;
    try (injection H as <-; split; [reflexivity|left; reflexivity]).
  - destruct (getitem E cx (evaluate w)); cbn [bind] in H; discriminate H.
  - destruct (getitem E cx (evaluate w1)); cbn [bind] in H; try discriminate H.
    destruct (getitem E cx (evaluate w2)); cbn [bind] in H; discriminate H.
  - destruct (mapM (fun t => getitem E cx (evaluate t)) ts); cbn [bind] in H; discriminate H.
  - destruct (mapM (getitem E cx) (members_u dir ts)); cbn [bind] in H; discriminate H.
  - destruct (E n) as [[cd|t']|]; discriminate H.
  - injection H as <-. split; [reflexivity|]. right. exists i, n. reflexivity.
Qed.

Hypothesis orders_ok : forall t ns, orders t = Some ns ->
  exists pre root, ns = pre ++ [root] /\ order_ok E dir noop_leaf [] ns = true /\ norm (ntype root) = norm t.
Hypothesis orders_st : orders_strict.

(* The factory on a resolvable proxy target: it answers, the routine routes the target and is resolvable; and when
   the answer is again a proxy, it is the proxy for the reference that the (evaluated) target UNWRAPS to. *)
Lemma build_root_shape t0 : defd t0 = true ->
  exists r', build_root E orders dir t0 = Ok r' /\ routes' E dir noop_leaf r' (norm t0) /\ resolvable r' = true /\
    (forall u, r' = RDelayed u -> u = unwrap E (evaluate t0) /\ is_ref u = true /\ is_ref (evaluate t0) = false).
Proof.
  unfold defd. intros Hdef. destruct (orders (evaluate t0)) as [ns|] eqn:Eo; [|discriminate Hdef].
  destruct (orders_ok _ _ Eo) as [pre [root [Hns [Hord Hroot]]]].
  destruct (orders_st _ _ Eo) as [pre' [root' [Hns' [Hty [Hcy [Hnr Hcl]]]]]].
  assert (Heq : pre' = pre /\ root' = root) by (apply app_inj_tail; rewrite <- Hns, <- Hns'; reflexivity).
  destruct Heq as [-> ->]. subst ns.
  destruct (build_routes E dir noop_leaf orders t0 pre root Eo Hord) as [r' [Hb Hr']]; [rewrite Hroot; apply norm_evaluate|].
  exists r'. split; [exact Hb|]. split; [exact Hr'|].
  unfold build_root in Hb. rewrite Eo in Hb. rewrite rev_app_distr in Hb. cbn [rev app] in Hb.
  destruct (build_loop E dir [] (pre ++ [root])) as [cx'| | |] eqn:El; cbn [bind] in Hb; try discriminate Hb.
  destruct (build_loop_last' pre [] root cx' (fun k r H => match H with end) Hcl Hord El) as [cx0 [r [Hnode [Hbn [Hres Hfind]]]]].
  unfold getitem in Hb. rewrite Hfind in Hb. injection Hb as <-.
  split; [exact Hres|]. intros u ->.
  unfold build_node in Hbn. unfold node_ok in Hnode. rewrite Hcy in Hbn, Hnode.
  apply andb_true_iff in Hnode. destruct Hnode as [Hu _]. apply ty_eqb_eq in Hu.
  assert (Hc : construct E dir cx0 (nunw root) = Ok (RDelayed u)).
  { destruct (find_key (ntype root) cx0) as [r0|]; [|exact Hbn].
    destruct (is_delayed r0) eqn:Hd0; [exact Hbn|]. injection Hbn as ->. discriminate Hd0. }
  destruct (construct_delayed _ _ _ Hc) as [Hw Hk]. rewrite Hty in Hu. rewrite Hw in Hu.
  split; [exact Hu|]. split; [|exact Hnr].
  destruct Hk as [Hk|[i [c Hk]]]; [exact Hk|]. exfalso.
  pose proof (unwrap_head_normal E u (evaluate t0) Hu) as Hh. rewrite Hk in Hh. exact Hh.
Qed.

End Factory.

(* ================================================================================================ *)
(* Part 4: completeness                                                                              *)
(* ================================================================================================ *)
Lemma aexpn_terminal E k a z : aexpn E k a z -> terminal E a -> z = a.
Proof. intros H Ht. inversion H as [a'|k' n v b En Hk]; subst; [reflexivity|]. exfalso. exact (Ht n v eq_refl En). Qed.

Lemma Forall2_nth_r {A B} (P : A -> B -> Prop) l l' i b :
  Forall2 P l l' -> nth_error l' i = Some b -> exists a, nth_error l i = Some a /\ P a b.
Proof. intros H. revert i. induction H as [|x y l l' Hxy H IH]; intros i Hi; [destruct i; discriminate Hi|].
  destruct i; cbn [nth_error] in *; [injection Hi as <-; exists x; split; [reflexivity|exact Hxy]|apply IH; exact Hi]. Qed.

Section Complete.
Variable rt : runtime.
Variable E : env.
Variable noop_leaf : nat -> bool.
Variable orders : ty -> option (list node).
Notation res := (resolvable orders).

Lemma res_in rs r : res_list orders rs = true -> In r rs -> res r = true.
Proof. unfold res_list. intros H Hin. rewrite forallb_forall in H. exact (H r Hin). Qed.

(* ------------------------------------------------------------ unmarshal side *)
Section U.
Hypothesis orders_ok_u : forall t ns, orders t = Some ns ->
  exists pre root, ns = pre ++ [root] /\ order_ok E true noop_leaf [] ns = true /\ norm (ntype root) = norm t.
Hypothesis orders_st : orders_strict orders.
Hypothesis noop_u : forall s x, noop_leaf s = true -> leaf_u rt s x = Ok x.

Notation runu := (run rt E orders true).
Notation R := (routes' E true noop_leaf).

Theorem run_u_complete : forall m r a x z k,
  R r a -> res r = true -> aexpn E k a z -> terminal E z -> done (unm rt E m z x) = true ->
  ev (fun f => runu f r x) (unm rt E m z x).
Proof.
  induction m as [m IH] using lt_wf_ind.
  destruct m as [|n]; [intros r a x z k _ _ _ _ Hd; discriminate Hd|].
  assert (IHmem : forall r' a' v, R r' (norm a') -> res r' = true -> done (unm rt E n a' v) = true ->
                   ev (fun f => runu f r' v) (unm rt E n a' v)).
  { intros r' a' v Hr' Hres' Hdv. destruct (unm_done_hnf rt E n a' v Hdv) as [z' [k' [m' [Hk' [Hz' [Hm' He']]]]]].
    rewrite <- He'. apply (IH m' ltac:(lia) r' (norm a') v z' k' Hr' Hres' Hk' Hz'). rewrite He'. exact Hdv. }
  (* routines that are not proxies *)
  assert (ND : forall r a, R r a -> is_delayed r = false -> forall x z k, res r = true -> aexpn E k a z -> terminal E z ->
                 done (unm rt E (S n) z x) = true -> ev (fun f => runu f r x) (unm rt E (S n) z x)).
  { intros r a Hr.
    induction Hr as [s| |k0 r a Hra _|k0 rk rv kt vt Hrk _ Hrv _|rs ts HF|rs ts HF|c cd frs Ec HF|t a Ha|s Hs|n0 v r En Hr IHr];
      intros Hnd x z k Hres Hch Hz Hd.
    - (* leaf *) rewrite (aexpn_terminal _ _ _ _ Hch) by (intros n1 v1 Hq; discriminate Hq).
      apply ev_S. cbn [run]. rewrite unm_S. apply ev_const.
    - (* none *) rewrite (aexpn_terminal _ _ _ _ Hch) by (intros n1 v1 Hq; discriminate Hq).
      apply ev_S. cbn [run]. rewrite unm_S. apply ev_const.
    - (* seq *) rewrite (aexpn_terminal _ _ _ _ Hch) in Hd |- * by (intros n1 v1 Hq; discriminate Hq).
      cbn [resolvable] in Hres. apply ev_S. cbn [run]. rewrite unm_S in Hd |- *. unfold seq_body in *.
      destruct (load rt x) as [d|e| |]; cbn [bind done] in *; try discriminate Hd; try apply ev_const.
      destruct (itervalues rt d) as [vs|e| |]; cbn [bind done] in *; try discriminate Hd; try apply ev_const.
      apply ev_bind; [|intros rs0 _; apply ev_const|exact Hd].
      apply (mapM_ev (elem_conv rt k0 (unm rt E n a)) (fun m => elem_conv rt k0 (runu m r)));
        [intros v0 _ Hv; apply ev_elem_conv; [intros Hv'; apply IHmem; assumption|exact Hv]|].
      destruct (bind_done _ _ Hd) as [[o [Ho _]]|[e He]]; [rewrite Ho|rewrite He]; reflexivity.
    - (* map *) rewrite (aexpn_terminal _ _ _ _ Hch) in Hd |- * by (intros n1 v1 Hq; discriminate Hq).
      cbn [resolvable] in Hres. apply andb_true_iff in Hres. destruct Hres as [Hresk Hresv].
      apply ev_S. cbn [run]. rewrite unm_S in Hd |- *. unfold map_body in *.
      destruct (load rt x) as [d|e| |]; cbn [bind done] in *; try discriminate Hd; try apply ev_const.
      destruct (iteritems rt E d) as [kvs|e| |]; cbn [bind done] in *; try discriminate Hd; try apply ev_const.
      apply ev_bind; [|intros rs0 _; apply ev_const|exact Hd].
      apply mapM_ev.
      + intros kv _ Hkh.
        apply (ev_hashing rt fst _ (fun m (kv : pv * pv) => bind (runu m rk (fst kv))
                 (fun k' => bind (runu m rv (snd kv)) (fun v' => Ok (k', v')))) kv); [|exact Hkh].
        clear Hkh. intros Hkv. apply ev_bind; [| |exact Hkv].
        * apply IHmem; [assumption|assumption|].
          destruct (bind_done _ _ Hkv) as [[k' [Hk _]]|[e He]]; [rewrite Hk|rewrite He]; reflexivity.
        * intros k' Hk'. rewrite Hk' in Hkv. cbn [bind] in Hkv. apply ev_bind; [|intros v' _; apply ev_const|exact Hkv].
          apply IHmem; [assumption|assumption|].
          destruct (bind_done _ _ Hkv) as [[v' [Hv _]]|[e He]]; [rewrite Hv|rewrite He]; reflexivity.
      + destruct (bind_done _ _ Hd) as [[o [Ho _]]|[e He]]; [rewrite Ho|rewrite He]; reflexivity.
    - (* tuple *) rewrite (aexpn_terminal _ _ _ _ Hch) in Hd |- * by (intros n1 v1 Hq; discriminate Hq).
      rewrite res_tuple in Hres. unfold res_list in Hres.
      apply ev_S. cbn [run]. rewrite unm_S in Hd |- *. unfold tuple_body in *.
      destruct (load rt x) as [d|e| |]; cbn [bind done] in *; try discriminate Hd; try apply ev_const.
      destruct (itervalues rt d) as [vs|e| |]; cbn [bind done] in *; try discriminate Hd; try apply ev_const.
      rewrite (Forall2_length _ _ _ HF).
      destruct (Nat.ltb (length vs) (length ts)); [apply ev_const|].
      apply ev_bind; [|intros out _; apply ev_const|exact Hd].
      assert (Hdm : done (mapM (fun tv => unm rt E n (fst tv) (snd tv)) (zip_trunc ts vs)) = true).
      { destruct (bind_done _ _ Hd) as [[o [Ho _]]|[e He]]; [rewrite Ho|rewrite He]; reflexivity. }
      clear Hd Hch Hnd. revert vs Hdm. induction HF as [|r0 t0 rs0 ts0 Hrt HF IHF]; intros vs Hdm; [exists 0; reflexivity|].
      cbn [forallb] in Hres. apply andb_true_iff in Hres. destruct Hres as [Hres0 Hress].
      destruct vs as [|v0 vs]; [exists 0; reflexivity|]. cbn [zip_trunc mapM fst snd] in *.
      destruct (unm rt E n t0 v0) as [y|e| |] eqn:Ey; cbn [bind done] in Hdm; try discriminate Hdm.
      + destruct (IHmem r0 t0 v0 Hrt Hres0) as [m1 H1]; [rewrite Ey; reflexivity|].
        assert (Hdr : done (mapM (fun tv => unm rt E n (fst tv) (snd tv)) (zip_trunc ts0 vs)) = true).
        { destruct (mapM _ (zip_trunc ts0 vs)); cbn [bind done] in *; try discriminate Hdm; reflexivity. }
        destruct (IHF Hress vs Hdr) as [m2 H2]. exists (Nat.max m1 m2). intros m' Hm'.
        rewrite H1 by lia. rewrite Ey. cbn [bind]. rewrite H2 by lia. reflexivity.
      + destruct (IHmem r0 t0 v0 Hrt Hres0) as [m1 H1]; [rewrite Ey; reflexivity|].
        exists m1. intros m' Hm'. rewrite H1 by lia. rewrite Ey. reflexivity.
    - (* union *) rewrite (aexpn_terminal _ _ _ _ Hch) in Hd |- * by (intros n1 v1 Hq; discriminate Hq).
      rewrite res_union in Hres.
      apply ev_S. cbn [run]. rewrite unm_S in Hd |- *.
      apply (first_ok_ev rt (map (unm rt E n) (union_stack_u ts)) (fun m => map (runu m) rs) x).
      + intros m. rewrite !map_length. exact (Forall2_length _ _ _ HF).
      + intros i f Hi Hdf. rewrite nth_error_map in Hi.
        destruct (nth_error (union_stack_u ts) i) as [ti|] eqn:Eti; [|discriminate Hi]. injection Hi as <-.
        destruct (Forall2_nth_r _ _ _ _ _ HF Eti) as [ri [Hri Hrti]].
        eapply ev_ext; [intros m; rewrite nth_error_map, Hri; reflexivity|].
        apply IHmem; [exact Hrti|exact (res_in _ _ Hres (nth_error_In _ _ Hri))|exact Hdf].
      + exact Hd.
    - (* struct *)
      assert (Hzc : z = TName c).
      { apply (aexpn_terminal _ _ _ _ Hch). intros n1 v1 Hq. injection Hq as <-. rewrite Ec. discriminate. }
      rewrite Hzc in Hd |- *. rewrite res_struct in Hres.
      apply ev_S. cbn [run]. rewrite Ec. rewrite unm_S in Hd |- *. unfold named_body in *. rewrite Ec in Hd |- *.
      destruct (load rt x) as [d|e| |]; cbn [bind done] in *; try discriminate Hd; try apply ev_const.
      destruct (iteritems rt E d) as [kvs|e| |]; cbn [bind done] in *; try discriminate Hd; try apply ev_const.
      apply ev_bind; [|intros kw _; apply ev_const|exact Hd].
      unfold struct_kw.
      change (fun m : nat => fold_left _ kvs (Ok [])) with
        (fun m : nat => foldM (fun kw (kv : pv * pv) =>
                  match fst kv with
                  | PKey f => match find (fun fr : nat * routine => Nat.eqb (fst fr) f) frs with
                              | Some fr => bind (runu m (snd fr) (snd kv)) (fun v' => Ok (kw_set f v' kw))
                              | None => Ok kw end
                  | k1 => if unhashable rt k1 then Raise EType else Ok kw
                  end) kvs (Ok [])).
      apply (foldM_ev (ustep rt (unm rt E n) cd)
               (fun m kw (kv : pv * pv) =>
                  match fst kv with
                  | PKey f => match find (fun fr : nat * routine => Nat.eqb (fst fr) f) frs with
                              | Some fr => bind (runu m (snd fr) (snd kv)) (fun v' => Ok (kw_set f v' kw))
                              | None => Ok kw end
                  | k1 => if unhashable rt k1 then Raise EType else Ok kw
                  end)).
      + intros kw kv _ Hk. unfold ustep in *. destruct (fst kv); try apply ev_const.
        pose proof (fields_find R frs (cfields cd) f HF) as Hff. unfold field_ty in *.
        destruct (find (fun fr : nat * routine => Nat.eqb (fst fr) f) frs) as [fr|] eqn:Efr;
          destruct (find (fun fd => Nat.eqb (fname fd) f) (cfields cd)) as [fd|]; try contradiction; [|apply ev_const].
        apply ev_bind; [|intros v' _; apply ev_const|exact Hk].
        apply IHmem; [exact Hff| |].
        * rewrite forallb_forall in Hres. exact (Hres fr (proj1 (find_some _ _ Efr))).
        * destruct (bind_done _ _ Hk) as [[v' [Hv _]]|[e He]]; [rewrite Hv|rewrite He]; reflexivity.
      + destruct (bind_done _ _ Hd) as [[kw [Hk _]]|[e He]]; [rewrite Hk|rewrite He]; reflexivity.
    - (* delayed *) discriminate Hnd.
    - (* noop *) rewrite (aexpn_terminal _ _ _ _ Hch) by (intros n1 v1 Hq; discriminate Hq).
      apply ev_S. cbn [run]. rewrite unm_S. rewrite noop_u by exact Hs. apply ev_const.
    - (* the name of an alias object *)
      inversion Hch as [a'|k' n' v' b' En' Hk']; subst.
      + exfalso. exact (Hz n0 v eq_refl En).
      + rewrite En in En'. injection En' as <-. exact (IHr Hnd x z k' Hres Hk' Hz Hd). }
  (* proxies: resolved through the factory; a proxy resolved to a proxy makes progress (hop_decrease) *)
  assert (DL : forall k0 wv t0 x z, pw t0 = wv -> defd orders t0 = true -> aexpn E k0 (norm t0) z -> terminal E z ->
                 done (unm rt E (S n) z x) = true -> ev (fun f => runu f (RDelayed t0) x) (unm rt E (S n) z x)).
  { induction k0 as [k0 IHk] using lt_wf_ind. induction wv as [wv IHw] using lt_wf_ind.
    intros t0 x z Hw Hdef Hch Hz Hd.
    destruct (build_root_shape E orders true noop_leaf orders_ok_u orders_st t0 Hdef) as [r' [Hb [Hr' [Hres' Hshape]]]].
    apply ev_S. eapply ev_ext; [intros f; cbn [run]; rewrite Hb; cbn [bind]; reflexivity|].
    destruct (is_delayed r') eqn:Hdl.
    - destruct r' as [| | | | | | | |u]; try discriminate Hdl.
      destruct (Hshape u eq_refl) as [Hu [Hru Hne]].
      rewrite <- (norm_evaluate t0) in Hch.
      destruct (hop_decrease E (evaluate t0) u k0 z Hu Hru Hne Hch Hz) as [k1 [Hk1 Hlt]].
      destruct Hlt as [Hlt|[-> Hlt]].
      + exact (IHk k1 Hlt (pw u) u x z eq_refl Hres' Hk1 Hz Hd).
      + apply (IHw (pw u)); [pose proof (pw_evaluate t0); lia|reflexivity|exact Hres'|exact Hk1|exact Hz|exact Hd].
    - exact (ND r' (norm t0) Hr' Hdl x z k0 Hres' Hch Hz Hd). }
  intros r a x z k Hr Hres Hch Hz Hd.
  destruct (is_delayed r) eqn:Hdl; [|exact (ND r a Hr Hdl x z k Hres Hch Hz Hd)].
  destruct r as [| | | | | | | |t0]; try discriminate Hdl.
  pose proof (routes'_delayed_inv E true noop_leaf t0 a Hr) as Ha.
  destruct (proj2 (reach_aeq E _ _ Ha z Hz) (ex_intro _ k Hch)) as [k0 Hk0].
  exact (DL k0 (pw t0) t0 x z eq_refl Hres Hk0 Hz Hd).
Qed.

(* unmarshal(T, x) through the mechanism: whatever terminal result the reference semantics gives at some fuel, the
   mechanism gives for all sufficiently large fuel *)
Theorem api_u_complete T n x :
  defd orders T = true -> done (unm rt E n T x) = true ->
  ev (fun f => api_call rt E orders true f T x) (unm rt E n T x).
Proof. intros Hdef Hd.
  destruct (build_root_shape E orders true noop_leaf orders_ok_u orders_st T Hdef) as [r [Hb [Hr [Hres _]]]].
  destruct (unm_done_hnf rt E n T x Hd) as [z [k [m [Hk [Hz [Hm He]]]]]].
  unfold api_call. rewrite Hb. cbn [bind]. rewrite <- He.
  apply (run_u_complete m r (norm T) x z k Hr Hres Hk Hz). rewrite He. exact Hd. Qed.

End U.

(* ------------------------------------------------------------ marshal side *)
Section M.
Hypothesis orders_ok_m : forall t ns, orders t = Some ns ->
  exists pre root, ns = pre ++ [root] /\ order_ok E false noop_leaf [] ns = true /\ norm (ntype root) = norm t.
Hypothesis orders_st : orders_strict orders.
Hypothesis noop_m : forall s x, noop_leaf s = true -> leaf_m rt s x = Ok x.

Notation runm := (run rt E orders false).
Notation R := (routes' E false noop_leaf).

Theorem run_m_complete : forall m r a x z k,
  R r a -> res r = true -> aexpn E k a z -> terminal E z -> done (mar rt E m z x) = true ->
  ev (fun f => runm f r x) (mar rt E m z x).
Proof.
  induction m as [m IH] using lt_wf_ind.
  destruct m as [|n]; [intros r a x z k _ _ _ _ Hd; discriminate Hd|].
  assert (IHmem : forall r' a' v, R r' (norm a') -> res r' = true -> done (mar rt E n a' v) = true ->
                   ev (fun f => runm f r' v) (mar rt E n a' v)).
  { intros r' a' v Hr' Hres' Hdv. destruct (mar_done_hnf rt E n a' v Hdv) as [z' [k' [m' [Hk' [Hz' [Hm' He']]]]]].
    rewrite <- He'. apply (IH m' ltac:(lia) r' (norm a') v z' k' Hr' Hres' Hk' Hz'). rewrite He'. exact Hdv. }
  (* routines that are not proxies *)
  assert (ND : forall r a, R r a -> is_delayed r = false -> forall x z k, res r = true -> aexpn E k a z -> terminal E z ->
                 done (mar rt E (S n) z x) = true -> ev (fun f => runm f r x) (mar rt E (S n) z x)).
  { intros r a Hr.
    induction Hr as [s| |k0 r a Hra _|k0 rk rv kt vt Hrk _ Hrv _|rs ts HF|rs ts HF|c cd frs Ec HF|t a Ha|s Hs|n0 v r En Hr IHr];
      intros Hnd x z k Hres Hch Hz Hd.
    - (* leaf *) rewrite (aexpn_terminal _ _ _ _ Hch) by (intros n1 v1 Hq; discriminate Hq).
      apply ev_S. cbn [run]. rewrite mar_S. apply ev_const.
    - (* none *) rewrite (aexpn_terminal _ _ _ _ Hch) by (intros n1 v1 Hq; discriminate Hq).
      apply ev_S. cbn [run]. rewrite mar_S. apply ev_const.
    - (* seq *) rewrite (aexpn_terminal _ _ _ _ Hch) in Hd |- * by (intros n1 v1 Hq; discriminate Hq).
      cbn [resolvable] in Hres. apply ev_S. cbn [run]. rewrite mar_S in Hd |- *. unfold mseq_body in *.
      destruct (itervalues rt x) as [vs|e| |]; cbn [bind done] in *; try discriminate Hd; try apply ev_const.
      apply ev_bind; [|intros rs0 _; apply ev_const|exact Hd].
      apply mapM_ev; [intros v0 _ Hv; apply IHmem; assumption|].
      destruct (bind_done _ _ Hd) as [[o [Ho _]]|[e He]]; [rewrite Ho|rewrite He]; reflexivity.
    - (* map *) rewrite (aexpn_terminal _ _ _ _ Hch) in Hd |- * by (intros n1 v1 Hq; discriminate Hq).
      cbn [resolvable] in Hres. apply andb_true_iff in Hres. destruct Hres as [Hresk Hresv].
      apply ev_S. cbn [run]. rewrite mar_S in Hd |- *. unfold mmap_body in *.
      destruct (iteritems rt E x) as [kvs|e| |]; cbn [bind done] in *; try discriminate Hd; try apply ev_const.
      apply ev_bind; [|intros rs0 _; apply ev_const|exact Hd].
      apply mapM_ev.
      + intros kv _ Hkh.
        apply (ev_hashing rt fst _ (fun m (kv : pv * pv) => bind (runm m rk (fst kv))
                 (fun k' => bind (runm m rv (snd kv)) (fun v' => Ok (k', v')))) kv); [|exact Hkh].
        clear Hkh. intros Hkv. apply ev_bind; [| |exact Hkv].
        * apply IHmem; [assumption|assumption|].
          destruct (bind_done _ _ Hkv) as [[k' [Hk _]]|[e He]]; [rewrite Hk|rewrite He]; reflexivity.
        * intros k' Hk'. rewrite Hk' in Hkv. cbn [bind] in Hkv. apply ev_bind; [|intros v' _; apply ev_const|exact Hkv].
          apply IHmem; [assumption|assumption|].
          destruct (bind_done _ _ Hkv) as [[v' [Hv _]]|[e He]]; [rewrite Hv|rewrite He]; reflexivity.
      + destruct (bind_done _ _ Hd) as [[o [Ho _]]|[e He]]; [rewrite Ho|rewrite He]; reflexivity.
    - (* tuple *) rewrite (aexpn_terminal _ _ _ _ Hch) in Hd |- * by (intros n1 v1 Hq; discriminate Hq).
      rewrite res_tuple in Hres. unfold res_list in Hres.
      apply ev_S. cbn [run]. rewrite mar_S in Hd |- *. unfold mtuple_body in *.
      destruct (itervalues rt x) as [vs|e| |]; cbn [bind done] in *; try discriminate Hd; try apply ev_const.
      apply ev_bind; [|intros out _; apply ev_const|exact Hd].
      assert (Hdm : done (mapM (fun tv => mar rt E n (fst tv) (snd tv)) (zip_trunc ts vs)) = true).
      { destruct (bind_done _ _ Hd) as [[o [Ho _]]|[e He]]; [rewrite Ho|rewrite He]; reflexivity. }
      clear Hd Hch Hnd. revert vs Hdm. induction HF as [|r0 t0 rs0 ts0 Hrt HF IHF]; intros vs Hdm; [exists 0; reflexivity|].
      cbn [forallb] in Hres. apply andb_true_iff in Hres. destruct Hres as [Hres0 Hress].
      destruct vs as [|v0 vs]; [exists 0; reflexivity|]. cbn [zip_trunc mapM fst snd] in *.
      destruct (mar rt E n t0 v0) as [y|e| |] eqn:Ey; cbn [bind done] in Hdm; try discriminate Hdm.
      + destruct (IHmem r0 t0 v0 Hrt Hres0) as [m1 H1]; [rewrite Ey; reflexivity|].
        assert (Hdr : done (mapM (fun tv => mar rt E n (fst tv) (snd tv)) (zip_trunc ts0 vs)) = true).
        { destruct (mapM _ (zip_trunc ts0 vs)); cbn [bind done] in *; try discriminate Hdm; reflexivity. }
        destruct (IHF Hress vs Hdr) as [m2 H2]. exists (Nat.max m1 m2). intros m' Hm'.
        rewrite H1 by lia. rewrite Ey. cbn [bind]. rewrite H2 by lia. reflexivity.
      + destruct (IHmem r0 t0 v0 Hrt Hres0) as [m1 H1]; [rewrite Ey; reflexivity|].
        exists m1. intros m' Hm'. rewrite H1 by lia. rewrite Ey. reflexivity.
    - (* union *) rewrite (aexpn_terminal _ _ _ _ Hch) in Hd |- * by (intros n1 v1 Hq; discriminate Hq).
      rewrite res_union in Hres.
      apply ev_S. cbn [run]. rewrite mar_S in Hd |- *.
      destruct (isoptional ts && is_none_val rt x); [apply ev_const|].
      apply (first_ok_ev rt (map (mar rt E n) ts) (fun m => map (runm m) rs) x).
      + intros m. rewrite !map_length. exact (Forall2_length _ _ _ HF).
      + intros i f Hi Hdf. rewrite nth_error_map in Hi.
        destruct (nth_error ts i) as [ti|] eqn:Eti; [|discriminate Hi]. injection Hi as <-.
        destruct (Forall2_nth_r _ _ _ _ _ HF Eti) as [ri [Hri Hrti]].
        eapply ev_ext; [intros m; rewrite nth_error_map, Hri; reflexivity|].
        apply IHmem; [exact Hrti|exact (res_in _ _ Hres (nth_error_In _ _ Hri))|exact Hdf].
      + exact Hd.
    - (* struct *)
      assert (Hzc : z = TName c).
      { apply (aexpn_terminal _ _ _ _ Hch). intros n1 v1 Hq. injection Hq as <-. rewrite Ec. discriminate. }
      rewrite Hzc in Hd |- *. rewrite res_struct in Hres.
      apply ev_S. cbn [run]. rewrite mar_S in Hd |- *. unfold mnamed_body in *. rewrite Ec in Hd |- *.
      destruct (iteritems rt E x) as [kvs|e| |]; cbn [bind done] in *; try discriminate Hd; try apply ev_const.
      apply ev_bind; [|intros kw _; apply ev_const|exact Hd].
      unfold struct_kw.
      change (fun m : nat => fold_left _ kvs (Ok [])) with
        (fun m : nat => foldM (fun kw (kv : pv * pv) =>
                  match fst kv with
                  | PKey f => match find (fun fr : nat * routine => Nat.eqb (fst fr) f) frs with
                              | Some fr => bind (runm m (snd fr) (snd kv)) (fun v' => Ok (kw_set f v' kw))
                              | None => Ok kw end
                  | k1 => if unhashable rt k1 then Raise EType else Ok kw
                  end) kvs (Ok [])).
      apply (foldM_ev (ustep rt (mar rt E n) cd)
               (fun m kw (kv : pv * pv) =>
                  match fst kv with
                  | PKey f => match find (fun fr : nat * routine => Nat.eqb (fst fr) f) frs with
                              | Some fr => bind (runm m (snd fr) (snd kv)) (fun v' => Ok (kw_set f v' kw))
                              | None => Ok kw end
                  | k1 => if unhashable rt k1 then Raise EType else Ok kw
                  end)).
      + intros kw kv _ Hk. unfold ustep in *. destruct (fst kv); try apply ev_const.
        pose proof (fields_find R frs (cfields cd) f HF) as Hff. unfold field_ty in *.
        destruct (find (fun fr : nat * routine => Nat.eqb (fst fr) f) frs) as [fr|] eqn:Efr;
          destruct (find (fun fd => Nat.eqb (fname fd) f) (cfields cd)) as [fd|]; try contradiction; [|apply ev_const].
        apply ev_bind; [|intros v' _; apply ev_const|exact Hk].
        apply IHmem; [exact Hff| |].
        * rewrite forallb_forall in Hres. exact (Hres fr (proj1 (find_some _ _ Efr))).
        * destruct (bind_done _ _ Hk) as [[v' [Hv _]]|[e He]]; [rewrite Hv|rewrite He]; reflexivity.
      + destruct (bind_done _ _ Hd) as [[kw [Hk _]]|[e He]]; [rewrite Hk|rewrite He]; reflexivity.
    - (* delayed *) discriminate Hnd.
    - (* noop *) rewrite (aexpn_terminal _ _ _ _ Hch) by (intros n1 v1 Hq; discriminate Hq).
      apply ev_S. cbn [run]. rewrite mar_S. rewrite noop_m by exact Hs. apply ev_const.
    - (* the name of an alias object *)
      inversion Hch as [a'|k' n' v' b' En' Hk']; subst.
      + exfalso. exact (Hz n0 v eq_refl En).
      + rewrite En in En'. injection En' as <-. exact (IHr Hnd x z k' Hres Hk' Hz Hd). }
  (* proxies: resolved through the factory; a proxy resolved to a proxy makes progress (hop_decrease) *)
  assert (DL : forall k0 wv t0 x z, pw t0 = wv -> defd orders t0 = true -> aexpn E k0 (norm t0) z -> terminal E z ->
                 done (mar rt E (S n) z x) = true -> ev (fun f => runm f (RDelayed t0) x) (mar rt E (S n) z x)).
  { induction k0 as [k0 IHk] using lt_wf_ind. induction wv as [wv IHw] using lt_wf_ind.
    intros t0 x z Hw Hdef Hch Hz Hd.
    destruct (build_root_shape E orders false noop_leaf orders_ok_m orders_st t0 Hdef) as [r' [Hb [Hr' [Hres' Hshape]]]].
    apply ev_S. eapply ev_ext; [intros f; cbn [run]; rewrite Hb; cbn [bind]; reflexivity|].
    destruct (is_delayed r') eqn:Hdl.
    - destruct r' as [| | | | | | | |u]; try discriminate Hdl.
      destruct (Hshape u eq_refl) as [Hu [Hru Hne]].
      rewrite <- (norm_evaluate t0) in Hch.
      destruct (hop_decrease E (evaluate t0) u k0 z Hu Hru Hne Hch Hz) as [k1 [Hk1 Hlt]].
      destruct Hlt as [Hlt|[-> Hlt]].
      + exact (IHk k1 Hlt (pw u) u x z eq_refl Hres' Hk1 Hz Hd).
      + apply (IHw (pw u)); [pose proof (pw_evaluate t0); lia|reflexivity|exact Hres'|exact Hk1|exact Hz|exact Hd].
    - exact (ND r' (norm t0) Hr' Hdl x z k0 Hres' Hch Hz Hd). }
  intros r a x z k Hr Hres Hch Hz Hd.
  destruct (is_delayed r) eqn:Hdl; [|exact (ND r a Hr Hdl x z k Hres Hch Hz Hd)].
  destruct r as [| | | | | | | |t0]; try discriminate Hdl.
  pose proof (routes'_delayed_inv E false noop_leaf t0 a Hr) as Ha.
  destruct (proj2 (reach_aeq E _ _ Ha z Hz) (ex_intro _ k Hch)) as [k0 Hk0].
  exact (DL k0 (pw t0) t0 x z eq_refl Hres Hk0 Hz Hd).
Qed.

(* marshal(x, t=T) through the mechanism: whatever terminal result the reference semantics gives at some fuel, the
   mechanism gives for all sufficiently large fuel *)
Theorem api_m_complete T n x :
  defd orders T = true -> done (mar rt E n T x) = true ->
  ev (fun f => api_call rt E orders false f T x) (mar rt E n T x).
Proof. intros Hdef Hd.
  destruct (build_root_shape E orders false noop_leaf orders_ok_m orders_st T Hdef) as [r [Hb [Hr [Hres _]]]].
  destruct (mar_done_hnf rt E n T x Hd) as [z [k [m [Hk [Hz [Hm He]]]]]].
  unfold api_call. rewrite Hb. cbn [bind]. rewrite <- He.
  apply (run_m_complete m r (norm T) x z k Hr Hres Hk Hz). rewrite He. exact Hd. Qed.

End M.
(* both directions (with api_u_sound / api_m_sound) *)
Lemma api_u_equiv :
  (forall t ns, orders t = Some ns ->
     exists pre root, ns = pre ++ [root] /\ order_ok E true noop_leaf [] ns = true /\ norm (ntype root) = norm t) ->
  orders_strict orders -> (forall s x, noop_leaf s = true -> leaf_u rt s x = Ok x) ->
  forall T x (r : Core.res pv), defd orders T = true -> done r = true ->
    (ev (fun m => unm rt E m T x) r <-> ev (fun f => api_call rt E orders true f T x) r).
Proof. intros Ho Hs Hn T x r Hdef Hd. split; intros [m Hm].
  - rewrite <- (Hm m (le_n m)). apply (api_u_complete Ho Hs Hn T m x Hdef). rewrite (Hm m (le_n m)). exact Hd.
  - rewrite <- (Hm m (le_n m)). apply (api_u_sound rt E noop_leaf orders Ho Hn T m x). rewrite (Hm m (le_n m)). exact Hd. Qed.
Lemma api_m_equiv :
  (forall t ns, orders t = Some ns ->
     exists pre root, ns = pre ++ [root] /\ order_ok E false noop_leaf [] ns = true /\ norm (ntype root) = norm t) ->
  orders_strict orders -> (forall s x, noop_leaf s = true -> leaf_m rt s x = Ok x) ->
  forall T x (r : Core.res pv), defd orders T = true -> done r = true ->
    (ev (fun m => mar rt E m T x) r <-> ev (fun f => api_call rt E orders false f T x) r).
Proof. intros Ho Hs Hn T x r Hdef Hd. split; intros [m Hm].
  - rewrite <- (Hm m (le_n m)). apply (api_m_complete Ho Hs Hn T m x Hdef). rewrite (Hm m (le_n m)). exact Hd.
  - rewrite <- (Hm m (le_n m)). apply (api_m_sound rt E noop_leaf orders Ho Hn T m x). rewrite (Hm m (le_n m)). exact Hd. Qed.

End Complete.

(* ================================================================================================ *)
(* orders_strict is necessary                                                                        *)
(* ================================================================================================ *)
(* class N0 (no fields); static_order(N0) "returning" a single node that is a REFERENCE to N0: order_ok holds and the
   node has N0's normal form, but the factory answers the proxy for that reference, which resolves to itself *)
Definition loop_rt : runtime :=
  {| leaf_u := fun _ x => Ok x; leaf_m := fun _ x => Ok x; none_u := fun x => Ok x;
     load_scalar := fun x => Ok x; values_scalar := fun _ => Raise EType; items_scalar := fun _ => Raise EType;
     unpack_scalar := fun _ => Raise EType; pairlike_scalar := fun _ => false; index := fun i => PAtom i;
     unhashable_class := fun _ => false; atom_eq := fun _ _ => false; none := PAtom 0; suppressed := fun _ => true |}.
Definition loop_E : env :=
  fun n => match n with 0 => Some (NClass {| cflavour := FDataclass; cfields := []; crequired := [] |}) | _ => None end.
Definition loop_orders (t : ty) : option (list node) :=
  match t with TName 0 => Some ([] ++ [ {| ntype := TRef 0; nunw := TRef 0; ncyc := false |} ]) | _ => None end.
Lemma complete_refuted_without_strict_roots :
  (forall dir t ns, loop_orders t = Some ns ->
     exists pre root, ns = pre ++ [root] /\ order_ok loop_E dir (fun _ => false) [] ns = true /\ norm (ntype root) = norm t) /\
  unm loop_rt loop_E 5 (TName 0) (PDict KDict []) = Ok (PObj 0 []) /\
  mar loop_rt loop_E 5 (TName 0) (PObj 0 []) = Ok (PDict KDict []) /\
  (forall dir fuel x, api_call loop_rt loop_E loop_orders dir fuel (TName 0) x = OutOfFuel).
Proof. split; [|split; [vm_compute; reflexivity|split; [vm_compute; reflexivity|]]].
  - intros dir t ns H. destruct t as [| | | | | |[|c]| | | | | | | |]; try discriminate H. injection H as <-.
    exists [], {| ntype := TRef 0; nunw := TRef 0; ncyc := false |}. split; [reflexivity|].
    split; [destruct dir; vm_compute; reflexivity|reflexivity].
  - intros dir fuel x. unfold api_call.
    assert (Hb : forall t, t = TName 0 \/ t = TRef 0 -> build_root loop_E loop_orders dir t = Ok (RDelayed (TRef 0)))
      by (intros t [-> | ->]; destruct dir; vm_compute; reflexivity).
    rewrite (Hb (TName 0) (or_introl eq_refl)). cbn [bind].
    induction fuel as [|f IH]; [reflexivity|]. rewrite run_S. unfold run_body.
    destruct dir; rewrite (Hb (TRef 0) (or_intror eq_refl)); cbn [bind]; exact IH.
Qed.
