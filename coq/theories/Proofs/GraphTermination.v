(* Termination of the breadth-first walk of Model/Graph.v with an explicit fuel bound.

   Potential:  W * #(annotations of the universe not yet in visited)  +  sum over the deque of w(type, path).
   A child that is pushed either enters `visited` for the first time (classes and other non-generic
   cyclic-capable annotations: they are pushed only when unseen) and is paid for by W, or it is a
   "re-pushable" child (not cyclic-capable, or a generic that is not its own ancestor) and is paid for by
   the weight of its parent.  The weight function is a certificate given to the theorem; its defining
   inequation says exactly that re-pushable children are counted in their parent's weight. *)
From Coq Require Import List Arith Bool PeanoNat String Lia.
Import ListNotations.
Require Import TL.Model.Graph TL.Proofs.GraphLemmas.

(* children that may be pushed although their type is already in `visited` *)
Definition repush (E : env) (path : list gty) (k : option str * gty) : bool :=
  let (var, c) := k in
  let u := unwrap c in
  negb (skip var c) && (negb (can_be_cyclic E u) || (is_generic E u && negb (revisit c u path))).

Definition wsum (w : gty -> list gty -> nat) (path : list gty) (kids : list (option str * gty)) : nat :=
  fold_right (fun k acc => w (snd k) (snd k :: path) + acc) 0 kids.

Lemma filter_len_le : forall (f : gty -> bool) l, List.length (filter f l) <= List.length l.
Proof. intros f l; induction l as [|x r IH]; cbn; [lia | destruct (f x); cbn; lia]. Qed.

Section Termination.
  Variable E : env.
  Variable univ : list gty.
  Variable w : gty -> list gty -> nat.
  Variable W : nat.
  Hypothesis closed : forall t var c, In t univ -> In (var, c) (level E (unwrap t)) -> skip var c = false -> In c univ.
  Hypothesis weight_ok : forall t path, In t univ ->
    1 + wsum w path (filter (repush E path) (level E (unwrap t))) <= w t path.
  Hypothesis weight_bound : forall t path, In t univ -> w t path <= W.

  Definition unvis (V : list gty) : nat := List.length (filter (fun t => negb (mem t V)) univ).

  Lemma filter_le : forall (f g : gty -> bool) l, (forall x, f x = true -> g x = true) ->
    List.length (filter f l) <= List.length (filter g l).
  Proof.
    intros f g l H; induction l as [|x r IH]; cbn; [lia|].
    destruct (f x) eqn:Hf; [rewrite (H x Hf); cbn; lia | destruct (g x); cbn; lia].
  Qed.
  Lemma filter_lt : forall (f g : gty -> bool) l x, (forall y, f y = true -> g y = true) ->
    In x l -> g x = true -> f x = false -> S (List.length (filter f l)) <= List.length (filter g l).
  Proof.
    intros f g l x H; induction l as [|y r IH]; cbn; intros Hin Hg Hf; [contradiction|].
    destruct Hin as [Heq|Hin].
    - subst y. rewrite Hg, Hf. cbn. pose proof (filter_le f g r H). lia.
    - specialize (IH Hin Hg Hf). destruct (f y) eqn:Hfy; [rewrite (H y Hfy); cbn; lia | destruct (g y); cbn; lia].
  Qed.

  Lemma unvis_cons_le : forall c V, unvis (c :: V) <= unvis V.
  Proof.
    intros c V; unfold unvis. apply filter_le. intros x Hx. apply negb_true_iff in Hx. apply negb_true_iff.
    unfold mem in *. cbn in Hx. apply orb_false_iff in Hx. tauto.
  Qed.
  Lemma unvis_cons_lt : forall c V, In c univ -> mem c V = false -> S (unvis (c :: V)) <= unvis V.
  Proof.
    intros c V Hin Hm; unfold unvis. apply (filter_lt _ _ univ c).
    - intros x Hx. apply negb_true_iff in Hx. apply negb_true_iff. unfold mem in *. cbn in Hx.
      apply orb_false_iff in Hx. tauto.
    - exact Hin.
    - rewrite Hm; reflexivity.
    - unfold mem; cbn. rewrite gty_eqb_refl. reflexivity.
  Qed.
  Lemma unvis_le_univ : forall V, unvis V <= List.length univ.
  Proof. intros V; unfold unvis. apply filter_len_le. Qed.

  Definition qsum (q : list (node * list gty)) : nat :=
    fold_right (fun e acc => w (ntype (fst e)) (snd e) + acc) 0 q.
  Lemma qsum_app : forall a b, qsum (a ++ b) = qsum a + qsum b.
  Proof.
    intros a b; induction a as [|x r IH]; [reflexivity|].
    change (w (ntype (fst x)) (snd x) + qsum (r ++ b) = w (ntype (fst x)) (snd x) + qsum r + qsum b).
    rewrite IH; lia.
  Qed.

  (* one expansion does not increase the potential beyond the weight of the re-pushable children *)
  Lemma expand_potential : forall kids st path preds st',
    expand E kids st path = Some (preds, st') ->
    (forall var c, In (var, c) kids -> skip var c = false -> In c univ) ->
    W * unvis (fst st') + qsum (pushed path preds) <= W * unvis (fst st) + wsum w path (filter (repush E path) kids) /\
    (forall n, In n (map fst (pushed path preds)) -> In (ntype n) univ).
  Proof.
    induction kids as [|[var c] rest IH]; intros st path preds st' H Hu; cbn in H.
    - inversion H; subst; cbn. split; [lia | intros n []].
    - assert (Hu' : forall v2 c2, In (v2, c2) rest -> skip v2 c2 = false -> In c2 univ)
        by (intros v2 c2 Hin; apply Hu; right; exact Hin).
      cbn [filter repush]. destruct (skip var c) eqn:Hsk; cbn [negb andb].
      + exact (IH _ _ _ _ H Hu').
      + assert (Hc : In c univ) by (apply (Hu var c); [left; reflexivity | exact Hsk]).
        destruct (visitedb E c (unwrap c) var st path && can_be_cyclic E (unwrap c)) eqn:Hcut.
        * (* deferred: nothing pushed *)
          assert (Hgen : forall r ps, expand E rest st path = Some (ps, st') -> ncyc r = true -> preds = r :: ps ->
                    W * unvis (fst st') + qsum (pushed path preds) <=
                    W * unvis (fst st) + wsum w path (if negb (can_be_cyclic E (unwrap c)) || is_generic E (unwrap c) && negb (revisit c (unwrap c) path)
                                               then (var, c) :: filter (repush E path) rest else filter (repush E path) rest) /\
                    (forall n, In n (map fst (pushed path preds)) -> In (ntype n) univ)).
          { intros r ps Hrest Hrc Hp. subst preds. destruct (IH _ _ _ _ Hrest Hu') as [I1 I2].
            unfold pushed in *. cbn [filter]. rewrite Hrc. cbn [negb]. split; [|exact I2].
            destruct (negb (can_be_cyclic E (unwrap c)) || is_generic E (unwrap c) && negb (revisit c (unwrap c) path)).
            - cbn [wsum fold_right snd]. etransitivity; [exact I1|]. apply Nat.add_le_mono_l. apply Nat.le_add_l.
            - exact I1. }
          destruct (is_generic E (unwrap c) || should_unwrap c || is_ref c).
          -- destruct (expand E rest st path) as [[ps st1]|] eqn:Hrest; [|discriminate]. inversion H; subst.
             apply (Hgen (mkdefer c (unwrap c) var) ps); auto.
          -- destruct (mkref E c (unwrap c) var) as [r|] eqn:Hmk; [|discriminate].
             destruct (expand E rest st path) as [[ps st1]|] eqn:Hrest; [|discriminate]. inversion H; subst.
             destruct (mkref_shape _ _ _ _ _ Hmk) as [Hrc _]. apply (Hgen r ps); auto.
        * (* pushed *)
          destruct (expand E rest (push_st c (unwrap c) var st) path) as [[ps st1]|] eqn:Hrest; [|discriminate]. inversion H; subst; clear H.
          destruct (IH _ _ _ _ Hrest Hu') as [I1 I2]. cbn [push_st fst] in I1.
          unfold pushed in *. cbn [filter mknode ncyc negb map qsum fold_right fst snd ntype]. split.
          -- destruct (negb (can_be_cyclic E (unwrap c)) || is_generic E (unwrap c) && negb (revisit c (unwrap c) path)) eqn:Hrp.
             ++ cbn [wsum fold_right snd]. pose proof (unvis_cons_le c (fst st)).
                assert (W * unvis (c :: fst st) <= W * unvis (fst st)) by (apply Nat.mul_le_mono_l; exact H).
                unfold qsum in I1. unfold wsum in I1. lia.
             ++ (* a first visit: the type is new to visited *)
                apply orb_false_iff in Hrp. destruct Hrp as [Hcc Hg]. apply negb_false_iff in Hcc.
                rewrite Hcc, andb_true_r in Hcut. unfold visitedb in Hcut. apply orb_false_iff in Hcut. destruct Hcut as [Hcut _].
                assert (Hgen : is_generic E (unwrap c) = false).
                { destruct (is_generic E (unwrap c)) eqn:Hig; [|reflexivity]. cbn in Hg. apply negb_false_iff in Hg.
                  unfold seen_set in Hcut. rewrite Hig in Hcut. congruence. }
                unfold seen_set in Hcut. rewrite Hgen in Hcut. unfold revisit in Hcut. apply orb_false_iff in Hcut.
                destruct Hcut as [Hm _]. pose proof (unvis_cons_lt c (fst st) Hc Hm) as Hlt.
                pose proof (weight_bound c (c :: path) Hc).
                assert (H0 : W * S (unvis (c :: fst st)) <= W * unvis (fst st)) by (apply Nat.mul_le_mono_l; exact Hlt).
                rewrite Nat.mul_succ_r in H0. unfold qsum in I1. unfold wsum in *. lia.
          -- intros n [Hn|Hn]; [subst n; exact Hc | apply I2; exact Hn].
  Qed.

  Lemma bfs_fuel_enough : forall fuel q st,
    (forall n, In n (map fst q) -> In (ntype n) univ) ->
    W * unvis (fst st) + qsum q <= fuel -> bfs fuel E q st <> OutOfFuel.
  Proof.
    induction fuel as [|f IH]; intros q st Hq Hphi.
    - destruct q as [|[p path] rest]; cbn; [discriminate|].
      exfalso. assert (Hp : In (ntype p) univ) by (apply Hq; left; reflexivity).
      pose proof (weight_ok (ntype p) path Hp). cbn in Hphi. lia.
    - destruct q as [|[p path] rest]; cbn; [discriminate|].
      assert (Hp : In (ntype p) univ) by (apply Hq; left; reflexivity).
      assert (Hrest : forall n, In n (map fst rest) -> In (ntype n) univ) by (intros n Hn; apply Hq; right; exact Hn).
      pose proof (weight_ok (ntype p) path Hp) as Hw. cbn [qsum fold_right fst snd] in Hphi.
      destruct (is_literal (unwrap (ntype p))).
      + assert (Hne : bfs f E rest st <> OutOfFuel) by (apply IH; [exact Hrest | unfold qsum; lia]).
        destruct (bfs f E rest st); congruence.
      + destruct (expand E (level E (unwrap (ntype p))) st path) as [[preds st']|] eqn:Hex; [|discriminate].
        destruct (expand_potential _ _ _ _ _ Hex) as [I1 I2].
        { intros var c Hin Hsk. eapply closed; eauto. }
        assert (Hne : bfs f E (rest ++ pushed path preds) st' <> OutOfFuel).
        { apply IH.
          - intros n Hn. rewrite map_app in Hn. apply in_app_or in Hn. destruct Hn as [Hn|Hn]; [apply Hrest | apply I2]; exact Hn.
          - rewrite qsum_app. unfold qsum in *. lia. }
        destruct (bfs f E (rest ++ pushed path preds) st'); congruence.
  Qed.

  Theorem terminates : forall root, In root univ ->
    forall fuel, fuel >= W * S (List.length univ) -> type_graph fuel E root <> OutOfFuel.
  Proof.
    intros root Hr fuel Hf. unfold type_graph. apply bfs_fuel_enough.
    - intros n [Hn|[]]; subst n; exact Hr.
    - cbn [fst qsum fold_right root_node ntype mknode snd]. pose proof (unvis_le_univ [root; unwrap root]). pose proof (weight_bound root [root; unwrap root] Hr).
      assert (W * unvis [root; unwrap root] <= W * List.length univ) by (apply Nat.mul_le_mono_l; exact H). lia.
  Qed.
End Termination.
