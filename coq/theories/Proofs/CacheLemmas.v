(* Proofs about Model/Cache.v (property C12): under the guard (no equal-but-not-identical
   key met in a cache, no cache-owned object mutated) the output of an operation after any
   history equals the output of the same operation in a cold process. *)
From Coq Require Import List NArith Bool Arith Lia.
Import ListNotations.
Require Import TL.Model.Cache.

(* ---------------------------------------------------------------- 1. basics *)
Lemma sty_eqb_eq : forall a b, sty_eqb a b = true -> a = b.
Proof. intros a b; destruct a, b; cbn; intros H; try discriminate H; reflexivity. Qed.

Lemma ann_ind' (P : ann -> Prop)
  (HS : forall s, P (AS s)) (HBL : P ABareList) (HBD : P ABareDict)
  (HL : forall a, P a -> P (AList a)) (HD : forall a, P a -> P (ADict a))
  (HU : forall ms, Forall P ms -> P (AUnion ms)) : forall a, P a.
Proof.
  fix IH 1. intros [s| | |a|a|ms].
  - apply HS.
  - apply HBL.
  - apply HBD.
  - apply HL, IH.
  - apply HD, IH.
  - apply HU. induction ms as [|m ms IHms]; constructor; [apply IH | exact IHms].
Qed.

Lemma ann_eqb_eq : forall a b, ann_eqb a b = true -> a = b.
Proof.
  induction a as [s| | |a IHa|a IHa|ms IHms] using ann_ind'; intros b Hb; destruct b as [t| | |b|b|ns];
    cbn [ann_eqb] in Hb; try discriminate Hb.
  - f_equal. apply sty_eqb_eq. exact Hb.
  - reflexivity.
  - reflexivity.
  - f_equal. apply IHa. exact Hb.
  - f_equal. apply IHa. exact Hb.
  - f_equal. revert ns Hb. induction IHms as [|m ms Hm _ IH]; intros ns Hb; destruct ns as [|n ns]; try discriminate Hb.
    + reflexivity.
    + apply andb_prop in Hb. destruct Hb as [H1 H2]. f_equal; [apply Hm; exact H1 | apply IH; exact H2].
Qed.

Lemma ps_same_eq : forall k k', ps_same k k' = true -> k = k'.
Proof.
  intros [a t] [a' t'] H. unfold ps_same in H. cbn [fst snd] in H. apply andb_prop in H. destruct H as [H1 H2].
  apply N.eqb_eq in H1. apply sty_eqb_eq in H2. subst. reflexivity.
Qed.

Lemma kw_same_eq : forall k k', kw_eq ann_eqb k k' = true -> k = k'.
Proof.
  intros [b a] [b' a'] H. unfold kw_eq in H. cbn [fst snd] in H. apply andb_prop in H. destruct H as [H1 H2].
  apply eqb_prop in H1. apply ann_eqb_eq in H2. subst. reflexivity.
Qed.

(* ---------------------------------------------------------------- 2. memo tables *)
Section MemoL.
  Context {K V : Type}.
  Variables (eqv same : K -> K -> bool).

  Lemma memo_get_some : forall tbl k v tbl' coll,
    memo_get eqv same tbl k = Some (v, tbl', coll) ->
    exists k', In (k', v) tbl /\ coll = negb (same k' k) /\ forall P : K * V -> Prop, Forall P tbl -> Forall P tbl'.
  Proof.
    intros tbl k v tbl' coll H. unfold memo_get in H.
    destruct (find (fun e => eqv (fst e) k) tbl) as [e|] eqn:Ef; [|discriminate H].
    injection H as Hv Ht Hc. apply find_some in Ef. destruct Ef as [Hin _].
    exists (fst e). split; [|split].
    - rewrite <- Hv. destruct e; exact Hin.
    - symmetry. exact Hc.
    - intros P HP. rewrite <- Ht. apply Forall_app. split.
      + rewrite Forall_forall in HP |- *. intros y Hy. apply filter_In in Hy. apply HP. apply Hy.
      + constructor; [|constructor]. rewrite Forall_forall in HP. apply HP. exact Hin.
  Qed.

  Lemma trim_Forall : forall (P : K * V -> Prop) n tbl, Forall P tbl -> Forall P (trim n tbl).
  Proof.
    intros P n. induction n as [|n IH]; intros tbl H; cbn [trim]; [exact H|].
    destruct tbl as [|e r]; [constructor|]. apply IH. inversion H; assumption.
  Qed.

  Lemma memo_put_Forall : forall (P : K * V -> Prop) max tbl k v,
    Forall P tbl -> P (k, v) -> Forall P (memo_put max tbl k v).
  Proof.
    intros P max tbl k v H Hk. unfold memo_put, cap.
    assert (Hall : Forall P (tbl ++ [(k, v)])) by (apply Forall_app; split; [exact H | constructor; [exact Hk | constructor]]).
    destruct max as [m|]; [apply trim_Forall|]; exact Hall.
  Qed.
End MemoL.

(* ---------------------------------------------------------------- 3. erasure *)
Lemma val_ind' (P : val -> Prop)
  (HA : forall a, P (VA a))
  (HL : forall pr l, Forall P l -> P (VL pr l))
  (HD : forall pr kvs, Forall (fun kv => P (snd kv)) kvs -> P (VD pr kvs)) : forall v, P v.
Proof.
  fix IH 1. intros [a|pr l|pr kvs].
  - apply HA.
  - apply HL. induction l as [|x l IHl]; constructor; [apply IH | exact IHl].
  - apply HD. induction kvs as [|kv kvs IHl]; constructor; [apply IH | exact IHl].
Qed.

Definition ekv (kv : N * val) : N * val := (fst kv, erase (snd kv)).

Lemma erase_VL : forall pr l, erase (VL pr l) = VL PFresh (map erase l).
Proof. reflexivity. Qed.
Lemma erase_VD : forall pr kvs, erase (VD pr kvs) = VD PFresh (map ekv kvs).
Proof. reflexivity. Qed.

Lemma erase_tag : forall v mk p, erase (tag mk p v) = erase v.
Proof.
  induction v as [a|pr l IHl|pr kvs IHk] using val_ind'; intros mk p.
  - reflexivity.
  - cbn [tag]. rewrite !erase_VL. f_equal. generalize 0 as i.
    induction IHl as [|x l Hx _ IH]; intros i; cbn [map]; [reflexivity|].
    f_equal; [apply Hx | apply IH].
  - cbn [tag]. rewrite !erase_VD. f_equal. generalize 0 as i.
    induction IHk as [|kv kvs Hx _ IH]; intros i; cbn [map]; [reflexivity|].
    f_equal; [unfold ekv; cbn [fst snd]; f_equal; apply Hx | apply IH].
Qed.

Lemma erase_idem : forall v, erase (erase v) = erase v.
Proof.
  induction v as [a|pr l IHl|pr kvs IHk] using val_ind'.
  - reflexivity.
  - rewrite !erase_VL. f_equal. rewrite map_map.
    induction IHl as [|x l Hx _ IH]; cbn [map]; [reflexivity | f_equal; assumption].
  - rewrite !erase_VD. f_equal. rewrite map_map.
    induction IHk as [|kv kvs Hx _ IH]; cbn [map]; [reflexivity | f_equal; [|assumption]].
    unfold ekv; cbn [fst snd]. f_equal. exact Hx.
Qed.

Lemma erase_eq_cases : forall x1 x2, erase x1 = erase x2 ->
  match x1, x2 with
  | VA a, VA b => a = b
  | VL _ l1, VL _ l2 => map erase l1 = map erase l2
  | VD _ k1, VD _ k2 => map ekv k1 = map ekv k2
  | _, _ => False
  end.
Proof.
  intros x1 x2 H. destruct x1, x2; try rewrite !erase_VL in H; try rewrite !erase_VD in H; cbn [erase] in H;
    try discriminate H; injection H as H; exact H.
Qed.

Lemma ekv_fst : forall k1 k2, map ekv k1 = map ekv k2 -> map fst k1 = map fst k2.
Proof.
  induction k1 as [|a k1 IH]; intros [|b k2] H; cbn [map] in *; try discriminate H; [reflexivity|].
  injection H as H1 H2 H3. f_equal; [exact H1 | apply IH; exact H3].
Qed.
Lemma ekv_snd : forall k1 k2, map ekv k1 = map ekv k2 -> map erase (map snd k1) = map erase (map snd k2).
Proof.
  induction k1 as [|a k1 IH]; intros [|b k2] H; cbn [map] in *; try discriminate H; [reflexivity|].
  injection H as H1 H2 H3. f_equal; [exact H2 | apply IH; exact H3].
Qed.

(* ---------------------------------------------------------------- 4. the loops of [run], named *)
Section Go.
  Variable W : world.
  Variable St : Type.
  Definition list_go (f : val -> St -> res val * St) :=
    fix go (vs : list val) (acc : list val) (s : St) {struct vs} : res val * St :=
      match vs with
      | [] => (Ok (VL PFresh (rev acc)), s)
      | v :: r => match f v s with
                  | (Ok v', s') => go r (v' :: acc) s'
                  | (rr, s') => (rr, s')
                  end
      end.
  Definition dict_go (kf : N -> St -> res val * St) (f : val -> St -> res val * St) :=
    fix go (kvs : list (N * val)) (acc : list (N * val)) (s : St) {struct kvs} : res val * St :=
      match kvs with
      | [] => (Ok (VD PFresh acc), s)
      | kv :: r =>
          match kf (fst kv) s with
          | (Ok (VA k'), s') =>
              match f (snd kv) s' with
              | (Ok v', s'') => go r (dict_set W acc k' v') s''
              | (rr, s'') => (rr, s'')
              end
          | (Ok _, s') => (Unmodelled, s')
          | (rr, s') => (rr, s')
          end
      end.
  Definition union_go (f : ann -> St -> res val * St) :=
    fix go (ms : list ann) (s : St) {struct ms} : res val * St :=
      match ms with
      | [] => (Raise EValue, s)
      | m :: r => match f m s with
                  | (Raise ex, s') => if suppressed ex then go r s' else (Raise ex, s')
                  | (rr, s') => (rr, s')
                  end
      end.

  Variable load : val -> St -> val * St.
  Variable iso : N -> St -> res N * St.
  Variable parse : N * sty -> St -> res N * St.
  Definition keyf (d : bool) (k : N) (s : St) : res val * St :=
    if d then scalar_u W St iso parse SStr (VA k) s else scalar_m W St iso SStr (VA k) s.
  Definition pre_load (d : bool) (x : val) (s : St) : val * St := if d then load x s else (x, s).

  Lemma run_AList : forall d e x s,
    run W St load iso parse d (AList e) x s =
    let (y, s1) := pre_load d x s in
    match itervalues W y with
    | Ok vs => list_go (run W St load iso parse d e) vs [] s1
    | Raise ex => (Raise ex, s1)
    | Unmodelled => (Unmodelled, s1)
    end.
  Proof. reflexivity. Qed.
  Lemma run_ADict : forall d e x s,
    run W St load iso parse d (ADict e) x s =
    let (y, s1) := pre_load d x s in
    match iteritems W y with
    | Ok kvs => dict_go (keyf d) (run W St load iso parse d e) kvs [] s1
    | Raise ex => (Raise ex, s1)
    | Unmodelled => (Unmodelled, s1)
    end.
  Proof. reflexivity. Qed.
  Lemma run_AUnion : forall d ms x s,
    run W St load iso parse d (AUnion ms) x s =
    if negb d && has_none ms && match x with VA b => w_isnone W b | _ => false end then (Ok x, s)
    else union_go (fun m => run W St load iso parse d m x) ms s.
  Proof. reflexivity. Qed.
  Lemma run_ABareList : forall d x s,
    run W St load iso parse d ABareList x s =
    let (y, s1) := pre_load d x s in
    match y with
    | VL _ l => (Ok (if d then y else VL PFresh l), s1)
    | VD _ kvs => (Ok (VL PFresh (atoms (map fst kvs))), s1)
    | VA b =>
        if d then (w_cast W true b, s1)
        else (match w_chars W b with Ok cs => Ok (VL PFresh (atoms cs)) | Raise e => Raise e | Unmodelled => Unmodelled end, s1)
    end.
  Proof. reflexivity. Qed.
  Lemma run_ABareDict : forall d x s,
    run W St load iso parse d ABareDict x s =
    let (y, s1) := pre_load d x s in
    match y with
    | VD _ kvs => (Ok (if d then y else VD PFresh kvs), s1)
    | VL _ [] => (if d then Ok (VD PFresh []) else Raise EType, s1)
    | VL _ _ => (if d then Unmodelled else Raise EType, s1)
    | VA b => (if d then w_cast W false b else Raise EType, s1)
    end.
  Proof. reflexivity. Qed.
  Lemma run_AS : forall d t x s,
    run W St load iso parse d (AS t) x s = if d then scalar_u W St iso parse t x s else scalar_m W St iso t x s.
  Proof. reflexivity. Qed.
End Go.

(* ---------------------------------------------------------------- 5. a preorder on states kept by the oracles is kept by [run] *)
Section Pres.
  Variable W : world.
  Variable St : Type.
  Variable load : val -> St -> val * St.
  Variable iso : N -> St -> res N * St.
  Variable parse : N * sty -> St -> res N * St.
  Variable Rl : St -> St -> Prop.
  Hypothesis Rl_refl : forall s, Rl s s.
  Hypothesis Rl_trans : forall s1 s2 s3, Rl s1 s2 -> Rl s2 s3 -> Rl s1 s3.
  Hypothesis load_R : forall x s, Rl s (snd (load x s)).
  Hypothesis iso_R : forall a s, Rl s (snd (iso a s)).
  Hypothesis parse_R : forall k s, Rl s (snd (parse k s)).

  Lemma snd_lift : forall (A : Type) r (s : A), snd (lift r s) = s.
  Proof. reflexivity. Qed.

  Lemma scalar_u_R : forall t x s, Rl s (snd (scalar_u W St iso parse t x s)).
  Proof.
    intros t x s. unfold scalar_u. destruct x as [a|pr l|pr kvs]; try apply Rl_refl.
    destruct (is_text_sty t && w_temporal W a).
    - pose proof (iso_R a s) as H. destruct (iso a s) as [[i|e|] s1]; cbn [snd] in H; rewrite snd_lift; exact H.
    - destruct (is_temporal_sty t && w_text W a).
      + destruct (w_decode W a) as [dd|e|]; try (rewrite snd_lift; apply Rl_refl).
        pose proof (parse_R (dd, t) s) as H. destruct (parse (dd, t) s) as [[i|e|] s1]; cbn [snd] in H; rewrite snd_lift; exact H.
      + rewrite snd_lift. apply Rl_refl.
  Qed.
  Lemma scalar_m_R : forall t x s, Rl s (snd (scalar_m W St iso t x s)).
  Proof.
    intros t x s. unfold scalar_m. destruct x as [a|pr l|pr kvs].
    - destruct (is_temporal_sty t); rewrite snd_lift; [apply iso_R | apply Rl_refl].
    - destruct t; apply Rl_refl.
    - destruct t; apply Rl_refl.
  Qed.
  Lemma keyf_R : forall d k s, Rl s (snd (keyf W St iso parse d k s)).
  Proof. intros d k s. unfold keyf. destruct d; [apply scalar_u_R | apply scalar_m_R]. Qed.
  Lemma pre_load_R : forall d x s, Rl s (snd (pre_load St load d x s)).
  Proof. intros d x s. unfold pre_load. destruct d; [apply load_R | apply Rl_refl]. Qed.

  Lemma list_go_R : forall f, (forall v s, Rl s (snd (f v s))) ->
    forall vs acc s, Rl s (snd (list_go St f vs acc s)).
  Proof.
    intros f Hf. induction vs as [|v r IH]; intros acc s; cbn [list_go].
    - apply Rl_refl.
    - pose proof (Hf v s) as H. destruct (f v s) as [[v'|e|] s1]; cbn [snd] in H |- *; try exact H.
      eapply Rl_trans; [exact H | apply IH].
  Qed.
  Lemma dict_go_R : forall kf f, (forall k s, Rl s (snd (kf k s))) -> (forall v s, Rl s (snd (f v s))) ->
    forall kvs acc s, Rl s (snd (dict_go W St kf f kvs acc s)).
  Proof.
    intros kf f Hk Hf. induction kvs as [|kv r IH]; intros acc s; cbn [dict_go].
    - apply Rl_refl.
    - pose proof (Hk (fst kv) s) as H. destruct (kf (fst kv) s) as [[[k'|pr l|pr l]|e|] s1]; cbn [snd] in H |- *; try exact H.
      pose proof (Hf (snd kv) s1) as H2. destruct (f (snd kv) s1) as [[v'|e|] s2]; cbn [snd] in H2 |- *;
        try (eapply Rl_trans; [exact H | exact H2]).
      eapply Rl_trans; [exact H |]. eapply Rl_trans; [exact H2 | apply IH].
  Qed.
  Lemma union_go_R : forall f ms, Forall (fun m => forall s, Rl s (snd (f m s))) ms ->
    forall s, Rl s (snd (union_go St f ms s)).
  Proof.
    intros f ms Hms. induction Hms as [|m r Hm _ IH]; intros s; cbn [union_go].
    - apply Rl_refl.
    - pose proof (Hm s) as H. destruct (f m s) as [[v'|e|] s1]; cbn [snd] in H |- *; try exact H.
      destruct (suppressed e); [|exact H]. eapply Rl_trans; [exact H | apply IH].
  Qed.

  Lemma run_R : forall a d x s, Rl s (snd (run W St load iso parse d a x s)).
  Proof.
    induction a as [t| | |e IHe|e IHe|ms IHms] using ann_ind'; intros d x s.
    - rewrite run_AS. destruct d; [apply scalar_u_R | apply scalar_m_R].
    - rewrite run_ABareList. pose proof (pre_load_R d x s) as H. destruct (pre_load St load d x s) as [y s1]. cbn [snd] in H.
      destruct y as [b|pr l|pr kvs]; [destruct d|..]; exact H.
    - rewrite run_ABareDict. pose proof (pre_load_R d x s) as H. destruct (pre_load St load d x s) as [y s1]. cbn [snd] in H.
      destruct y as [b|pr [|? ?]|pr kvs]; exact H.
    - rewrite run_AList. pose proof (pre_load_R d x s) as H. destruct (pre_load St load d x s) as [y s1]. cbn [snd] in H.
      destruct (itervalues W y) as [vs|ex|]; try exact H.
      eapply Rl_trans; [exact H | apply list_go_R]. intros v s'. apply IHe.
    - rewrite run_ADict. pose proof (pre_load_R d x s) as H. destruct (pre_load St load d x s) as [y s1]. cbn [snd] in H.
      destruct (iteritems W y) as [vs|ex|]; try exact H.
      eapply Rl_trans; [exact H | apply dict_go_R]; [intros k s'; apply keyf_R | intros v s'; apply IHe].
    - rewrite run_AUnion. destruct (negb d && has_none ms && match x with VA b => w_isnone W b | _ => false end).
      + apply Rl_refl.
      + apply union_go_R. eapply Forall_impl; [|exact IHms]. intros m Hm s'. apply Hm.
  Qed.
End Pres.

(* ---------------------------------------------------------------- 6. helpers are insensitive to tags *)
Definition eres (r : res val) : res val := match r with Ok v => Ok (erase v) | r' => r' end.
Definition rres {A : Type} (R : A -> A -> Prop) (r1 r2 : res A) : Prop :=
  match r1, r2 with
  | Ok a, Ok b => R a b
  | Raise e1, Raise e2 => e1 = e2
  | Unmodelled, Unmodelled => True
  | _, _ => False
  end.

Section Helpers.
  Variable W : world.

  Lemma is_pair_rel : forall v1 v2, erase v1 = erase v2 -> is_pair W v1 = is_pair W v2.
  Proof.
    intros v1 v2 H. apply erase_eq_cases in H. destruct v1 as [a|p1 l1|p1 l1], v2 as [b|p2 l2|p2 l2]; try contradiction.
    - subst. reflexivity.
    - destruct l1 as [|? [|? [|? ?]]], l2 as [|? [|? [|? ?]]]; cbn [map] in H; try discriminate H; reflexivity.
    - destruct l1 as [|? [|? [|? ?]]], l2 as [|? [|? [|? ?]]]; cbn [map] in H; try discriminate H; reflexivity.
  Qed.

  Lemma enum_rel : forall l1 l2 i, map erase l1 = map erase l2 -> map ekv (enum W i l1) = map ekv (enum W i l2).
  Proof.
    induction l1 as [|x l1 IH]; intros [|y l2] i H; cbn [map] in H; try discriminate H; [reflexivity|].
    injection H as H1 H2. cbn [enum map]. f_equal; [|apply IH; exact H2].
    unfold ekv; cbn [fst snd]. f_equal. exact H1.
  Qed.

  Lemma itervalues_rel : forall y1 y2, erase y1 = erase y2 ->
    rres (fun l1 l2 => map erase l1 = map erase l2) (itervalues W y1) (itervalues W y2).
  Proof.
    intros y1 y2 H. apply erase_eq_cases in H. destruct y1 as [a|p1 l1|p1 l1], y2 as [b|p2 l2|p2 l2]; try contradiction.
    - subst. cbn [itervalues]. destruct (w_chars W b); cbn [rres]; auto.
    - exact H.
    - cbn [itervalues rres]. apply ekv_snd. exact H.
  Qed.

  Lemma iteritems_rel : forall y1 y2, erase y1 = erase y2 ->
    rres (fun l1 l2 => map ekv l1 = map ekv l2) (iteritems W y1) (iteritems W y2).
  Proof.
    intros y1 y2 H. apply erase_eq_cases in H. destruct y1 as [a|p1 l1|p1 l1], y2 as [b|p2 l2|p2 l2]; try contradiction.
    - subst. cbn [iteritems]. destruct (w_chars W b); cbn [rres]; auto.
    - cbn [iteritems]. destruct l1 as [|x1 l1], l2 as [|x2 l2]; cbn [map] in H; try discriminate H; [reflexivity|].
      assert (Hp : is_pair W x1 = is_pair W x2) by (apply is_pair_rel; injection H as H1 _; exact H1).
      rewrite Hp. destruct (is_pair W x2); cbn [rres]; [exact Logic.I|].
      apply enum_rel. cbn [map]. exact H.
    - exact H.
  Qed.

  Lemma dict_set_rel : forall acc1 acc2 k v1 v2, map ekv acc1 = map ekv acc2 -> erase v1 = erase v2 ->
    map ekv (dict_set W acc1 k v1) = map ekv (dict_set W acc2 k v2).
  Proof.
    induction acc1 as [|a acc1 IH]; intros [|b acc2] k v1 v2 H Hv; cbn [map] in H; try discriminate H.
    - cbn [dict_set map]. unfold ekv; cbn [fst snd]. rewrite Hv. reflexivity.
    - injection H as H1 H2 H3. cbn [dict_set]. rewrite H1. destruct (atom_eqv W (fst b) k); cbn [map].
      + f_equal; [|exact H3]. unfold ekv; cbn [fst snd]. rewrite Hv. reflexivity.
      + f_equal; [|apply IH; assumption]. unfold ekv. rewrite H1, H2. reflexivity.
  Qed.

  Lemma isnone_rel : forall x1 x2, erase x1 = erase x2 ->
    match x1 with VA b => w_isnone W b | _ => false end = match x2 with VA b => w_isnone W b | _ => false end.
  Proof.
    intros x1 x2 H. apply erase_eq_cases in H. destruct x1, x2; try contradiction; [subst|..]; reflexivity.
  Qed.

  (* json *)
  Definition json_lgo := fix go (l : list val) (acc : list val) : res val :=
    match l with
    | [] => Ok (VL PFresh (rev acc))
    | x :: r => match to_json W x with Ok y => go r (y :: acc) | rr => rr end
    end.
  Definition json_dgo := fix go (l : list (N * val)) (acc : list (N * val)) : res val :=
    match l with
    | [] => Ok (VD PFresh (rev acc))
    | kv :: r =>
        match w_jkey W (fst kv) with
        | Ok k => match to_json W (snd kv) with Ok y => go r ((k, y) :: acc) | rr => rr end
        | Raise e => Raise e
        | Unmodelled => Unmodelled
        end
    end.
  Lemma to_json_VL : forall pr l, to_json W (VL pr l) = json_lgo l [].
  Proof. reflexivity. Qed.
  Lemma to_json_VD : forall pr l, to_json W (VD pr l) = json_dgo l [].
  Proof. reflexivity. Qed.

  Lemma to_json_erase : forall v, to_json W (erase v) = to_json W v.
  Proof.
    induction v as [a|pr l IHl|pr kvs IHk] using val_ind'.
    - reflexivity.
    - rewrite erase_VL, !to_json_VL. generalize (@nil val) as acc.
      induction IHl as [|x l Hx _ IH]; intros acc; cbn [map json_lgo]; [reflexivity|].
      rewrite Hx. destruct (to_json W x); try reflexivity. apply IH.
    - rewrite erase_VD, !to_json_VD. generalize (@nil (N * val)) as acc.
      induction IHk as [|kv kvs Hx _ IH]; intros acc; cbn [map json_dgo]; [reflexivity|].
      unfold ekv at 1 2. cbn [fst snd]. rewrite Hx. destruct (w_jkey W (fst kv)); try reflexivity.
      destruct (to_json W (snd kv)); try reflexivity. apply IH.
  Qed.
  Lemma to_json_rel : forall v1 v2, erase v1 = erase v2 -> to_json W v1 = to_json W v2.
  Proof. intros v1 v2 H. rewrite <- (to_json_erase v1), <- (to_json_erase v2), H. reflexivity. Qed.
  Lemma encode_out_rel : forall r1 r2, eres r1 = eres r2 -> encode_out W r1 = encode_out W r2.
  Proof.
    intros [v1|e1|] [v2|e2|] H; cbn [eres] in H; try discriminate H; cbn [encode_out]; try exact H; try reflexivity.
    injection H as H. apply to_json_rel. exact H.
  Qed.
End Helpers.

(* ---------------------------------------------------------------- 7. cached run against the uncached run *)
Section Rel.
  Variable W : world.
  Variable St : Type.
  Variable load : val -> St -> val * St.
  Variable iso : N -> St -> res N * St.
  Variable parse : N * sty -> St -> res N * St.
  Variable I : St -> Prop.
  Variable B : St -> bool.

  Definition Mono (s s' : St) : Prop := B s' = false -> B s = false.
  Lemma Mono_refl : forall s, Mono s s.
  Proof. intros s H. exact H. Qed.
  Lemma Mono_trans : forall s1 s2 s3, Mono s1 s2 -> Mono s2 s3 -> Mono s1 s3.
  Proof. intros s1 s2 s3 H1 H2 H. apply H1, H2, H. Qed.

  Hypothesis load_M : forall x s, Mono s (snd (load x s)).
  Hypothesis iso_M : forall a s, Mono s (snd (iso a s)).
  Hypothesis parse_M : forall k s, Mono s (snd (parse k s)).
  Hypothesis load_rel : forall x1 x2 s u, erase x1 = erase x2 -> B (snd (load x1 s)) = false -> I s ->
    I (snd (load x1 s)) /\ erase (fst (load x1 s)) = erase (fst (load_p W x2 u)).
  Hypothesis iso_rel : forall a s, B (snd (iso a s)) = false -> I s -> I (snd (iso a s)) /\ fst (iso a s) = w_iso W a.
  Hypothesis parse_rel : forall k s, B (snd (parse k s)) = false -> I s ->
    I (snd (parse k s)) /\ fst (parse k s) = w_parse W (fst k) (snd k).

  Definition run_M := run_R W St load iso parse Mono Mono_refl Mono_trans load_M iso_M parse_M.
  Definition keyf_M := keyf_R W St iso parse Mono Mono_refl iso_M parse_M.

  Notation runL := (run W St load iso parse).
  Notation runP := (run W unit (load_p W) (iso_p W) (parse_p W)).

  Lemma fst_lift : forall (A : Type) r (s : A),
    fst (lift r s) = match r with Ok a => Ok (VA a) | Raise e => Raise e | Unmodelled => Unmodelled end.
  Proof. reflexivity. Qed.

  Lemma scalar_u_rel : forall t x1 x2 s u, erase x1 = erase x2 ->
    B (snd (scalar_u W St iso parse t x1 s)) = false -> I s ->
    I (snd (scalar_u W St iso parse t x1 s)) /\
    eres (fst (scalar_u W St iso parse t x1 s)) = eres (fst (scalar_u W unit (iso_p W) (parse_p W) t x2 u)).
  Proof.
    intros t x1 x2 s u H. apply erase_eq_cases in H.
    destruct x1 as [a|p1 l1|p1 l1], x2 as [b|p2 l2|p2 l2]; try contradiction;
      try (intros _ Is; split; [exact Is | reflexivity]).
    subst b. unfold scalar_u. destruct (is_text_sty t && w_temporal W a).
    - pose proof (iso_rel a s) as HR. unfold iso_p. destruct (iso a s) as [r s1]. cbn [fst snd] in HR.
      intros HB Is. assert (HB1 : B s1 = false) by (destruct r; rewrite snd_lift in HB; exact HB).
      destruct (HR HB1 Is) as [Is1 Hr]. rewrite <- Hr.
      destruct r as [i|e|]; rewrite !snd_lift, !fst_lift; split; try exact Is1; reflexivity.
    - destruct (is_temporal_sty t && w_text W a).
      + destruct (w_decode W a) as [dd|e|]; try (intros HB Is; rewrite snd_lift in *; split; [exact Is | reflexivity]).
        pose proof (parse_rel (dd, t) s) as HR. unfold parse_p. cbn [fst snd] in HR |- *.
        destruct (parse (dd, t) s) as [r s1]. cbn [fst snd] in HR.
        intros HB Is. assert (HB1 : B s1 = false) by (destruct r; rewrite snd_lift in HB; exact HB).
        destruct (HR HB1 Is) as [Is1 Hr]. rewrite <- Hr.
        destruct r as [i|e|]; rewrite !snd_lift, !fst_lift; split; try exact Is1; reflexivity.
      + intros HB Is; rewrite snd_lift in *; split; [exact Is | reflexivity].
  Qed.

  Lemma scalar_m_rel : forall t x1 x2 s u, erase x1 = erase x2 ->
    B (snd (scalar_m W St iso t x1 s)) = false -> I s ->
    I (snd (scalar_m W St iso t x1 s)) /\
    eres (fst (scalar_m W St iso t x1 s)) = eres (fst (scalar_m W unit (iso_p W) t x2 u)).
  Proof.
    intros t x1 x2 s u H. pose proof (erase_eq_cases _ _ H) as Hc.
    destruct x1 as [a|p1 l1|p1 l1], x2 as [b|p2 l2|p2 l2]; try contradiction.
    - subst b. unfold scalar_m. destruct (is_temporal_sty t).
      + rewrite !snd_lift, !fst_lift. intros HB Is. destruct (iso_rel a s HB Is) as [Is1 Hr].
        split; [exact Is1|]. rewrite Hr. reflexivity.
      + intros HB Is; rewrite snd_lift in *; split; [exact Is | reflexivity].
    - unfold scalar_m. intros HB Is. destruct t; cbn [fst snd eres] in *; (split; [exact Is|]); try reflexivity; f_equal; exact H.
    - unfold scalar_m. intros HB Is. destruct t; cbn [fst snd eres] in *; (split; [exact Is|]); try reflexivity; f_equal; exact H.
  Qed.

  Lemma keyf_rel : forall d k s u,
    B (snd (keyf W St iso parse d k s)) = false -> I s ->
    I (snd (keyf W St iso parse d k s)) /\
    eres (fst (keyf W St iso parse d k s)) = eres (fst (keyf W unit (iso_p W) (parse_p W) d k u)).
  Proof. intros d k s u. unfold keyf. destruct d; [apply scalar_u_rel | apply scalar_m_rel]; reflexivity. Qed.

  Lemma pre_load_rel : forall d x1 x2 s u, erase x1 = erase x2 ->
    B (snd (pre_load St load d x1 s)) = false -> I s ->
    I (snd (pre_load St load d x1 s)) /\
    erase (fst (pre_load St load d x1 s)) = erase (fst (pre_load unit (load_p W) d x2 u)).
  Proof.
    intros d x1 x2 s u H. unfold pre_load. destruct d; [apply load_rel; exact H|].
    intros _ Is. split; [exact Is | exact H].
  Qed.

  Lemma list_go_rel : forall f1 f2,
    (forall v s, Mono s (snd (f1 v s))) ->
    (forall v1 v2 s u, erase v1 = erase v2 -> B (snd (f1 v1 s)) = false -> I s ->
       I (snd (f1 v1 s)) /\ eres (fst (f1 v1 s)) = eres (fst (f2 v2 u))) ->
    forall vs1 vs2 acc1 acc2 s u, map erase vs1 = map erase vs2 -> map erase acc1 = map erase acc2 ->
      B (snd (list_go St f1 vs1 acc1 s)) = false -> I s ->
      I (snd (list_go St f1 vs1 acc1 s)) /\
      eres (fst (list_go St f1 vs1 acc1 s)) = eres (fst (list_go unit f2 vs2 acc2 u)).
  Proof.
    intros f1 f2 Hm Hr. induction vs1 as [|v1 r1 IH]; intros [|v2 r2] acc1 acc2 s u Hvs Hacc; cbn [map] in Hvs; try discriminate Hvs.
    - cbn [list_go fst snd eres]. intros _ Is. split; [exact Is|]. rewrite !erase_VL, !map_rev, Hacc. reflexivity.
    - injection Hvs as Hv Hvs. cbn [list_go].
      pose proof (Hr v1 v2 s u Hv) as H.
      pose proof (list_go_R St Mono Mono_refl Mono_trans f1 Hm r1) as HM.
      destruct (f1 v1 s) as [rr1 s1]. destruct (f2 v2 u) as [rr2 u1]. cbn [fst snd] in H.
      intros HB Is.
      assert (HB1 : B s1 = false) by (destruct rr1 as [w1|e1|]; [apply (HM _ _ HB) | exact HB | exact HB]).
      destruct (H HB1 Is) as [Is1 Hres].
      destruct rr1 as [w1|e1|], rr2 as [w2|e2|]; cbn [eres] in Hres; try discriminate Hres.
      + injection Hres as Hres. apply IH; try assumption. cbn [map]. rewrite Hres, Hacc. reflexivity.
      + split; [exact Is1 | exact Hres].
      + split; [exact Is1 | reflexivity].
  Qed.

  Lemma dict_go_rel : forall kf1 kf2 f1 f2,
    (forall k s, Mono s (snd (kf1 k s))) ->
    (forall v s, Mono s (snd (f1 v s))) ->
    (forall k s u, B (snd (kf1 k s)) = false -> I s ->
       I (snd (kf1 k s)) /\ eres (fst (kf1 k s)) = eres (fst (kf2 k u))) ->
    (forall v1 v2 s u, erase v1 = erase v2 -> B (snd (f1 v1 s)) = false -> I s ->
       I (snd (f1 v1 s)) /\ eres (fst (f1 v1 s)) = eres (fst (f2 v2 u))) ->
    forall kvs1 kvs2 acc1 acc2 s u, map ekv kvs1 = map ekv kvs2 -> map ekv acc1 = map ekv acc2 ->
      B (snd (dict_go W St kf1 f1 kvs1 acc1 s)) = false -> I s ->
      I (snd (dict_go W St kf1 f1 kvs1 acc1 s)) /\
      eres (fst (dict_go W St kf1 f1 kvs1 acc1 s)) = eres (fst (dict_go W unit kf2 f2 kvs2 acc2 u)).
  Proof.
    intros kf1 kf2 f1 f2 Hkm Hfm Hkr Hfr.
    induction kvs1 as [|kv1 r1 IH]; intros [|kv2 r2] acc1 acc2 s u Hkvs Hacc; cbn [map] in Hkvs; try discriminate Hkvs.
    - cbn [dict_go fst snd eres]. intros _ Is. split; [exact Is|]. rewrite !erase_VD, Hacc. reflexivity.
    - injection Hkvs as Hk Hv Hkvs. cbn [dict_go]. rewrite Hk.
      pose proof (Hkr (fst kv2) s u) as H.
      pose proof (dict_go_R W St Mono Mono_refl Mono_trans kf1 f1 Hkm Hfm r1) as HM.
      destruct (kf1 (fst kv2) s) as [rk1 s1]. destruct (kf2 (fst kv2) u) as [rk2 u1]. cbn [fst snd] in H.
      intros HB Is.
      assert (HB1 : B s1 = false).
      { destruct rk1 as [[k1|? ?|? ?]|e1|]; try exact HB.
        pose proof (Hfm (snd kv1) s1) as HM2. destruct (f1 (snd kv1) s1) as [[w1|e1|] s2]; cbn [snd] in HM2; apply HM2;
          [apply (HM _ _ HB) | exact HB | exact HB]. }
      destruct (H HB1 Is) as [Is1 Hres].
      destruct rk1 as [[k1|? ?|? ?]|e1|], rk2 as [[k2|? ?|? ?]|e2|]; cbn [eres erase] in Hres; try discriminate Hres;
        try (split; [exact Is1 | first [exact Hres | reflexivity]]).
      injection Hres as Hres. subst k2.
      pose proof (Hfr (snd kv1) (snd kv2) s1 u1 Hv) as H2.
      destruct (f1 (snd kv1) s1) as [rr1 s2]. destruct (f2 (snd kv2) u1) as [rr2 u2]. cbn [fst snd] in H2.
      assert (HB2 : B s2 = false) by (destruct rr1 as [w1|e1|]; [apply (HM _ _ HB) | exact HB | exact HB]).
      destruct (H2 HB2 Is1) as [Is2 Hres2].
      destruct rr1 as [w1|e1|], rr2 as [w2|e2|]; cbn [eres] in Hres2; try discriminate Hres2.
      + injection Hres2 as Hres2. apply IH; try assumption. apply dict_set_rel; assumption.
      + split; [exact Is2 | exact Hres2].
      + split; [exact Is2 | reflexivity].
  Qed.

  Lemma union_go_rel : forall f1 f2 ms,
    (forall m s, Mono s (snd (f1 m s))) ->
    Forall (fun m => forall s u, B (snd (f1 m s)) = false -> I s ->
       I (snd (f1 m s)) /\ eres (fst (f1 m s)) = eres (fst (f2 m u))) ms ->
    forall s u, B (snd (union_go St f1 ms s)) = false -> I s ->
      I (snd (union_go St f1 ms s)) /\
      eres (fst (union_go St f1 ms s)) = eres (fst (union_go unit f2 ms u)).
  Proof.
    intros f1 f2 ms Hm Hms. induction Hms as [|m r Hr Hall IH]; intros s u; cbn [union_go].
    - intros _ Is. split; [exact Is | reflexivity].
    - pose proof (Hr s u) as H.
      assert (HM : forall s', Mono s' (snd (union_go St f1 r s'))).
      { apply (union_go_R St Mono Mono_refl Mono_trans f1 r). apply Forall_forall. intros m' _ s'. apply Hm. }
      destruct (f1 m s) as [rr1 s1]. destruct (f2 m u) as [rr2 u1]. cbn [fst snd] in H.
      intros HB Is.
      assert (HB1 : B s1 = false).
      { destruct rr1 as [w1|e1|]; try exact HB. destruct (suppressed e1); [apply (HM _ HB) | exact HB]. }
      destruct (H HB1 Is) as [Is1 Hres].
      destruct rr1 as [w1|e1|], rr2 as [w2|e2|]; cbn [eres] in Hres; try discriminate Hres.
      + split; [exact Is1 | exact Hres].
      + injection Hres as Hres. subst e2. destruct (suppressed e1).
        * apply IH; assumption.
        * split; [exact Is1 | reflexivity].
      + split; [exact Is1 | reflexivity].
  Qed.

  Theorem run_rel : forall a d x1 x2 s u, erase x1 = erase x2 ->
    B (snd (runL d a x1 s)) = false -> I s ->
    I (snd (runL d a x1 s)) /\ eres (fst (runL d a x1 s)) = eres (fst (runP d a x2 u)).
  Proof.
    induction a as [t| | |e IHe|e IHe|ms IHms] using ann_ind'; intros d x1 x2 s u Hx.
    - rewrite !run_AS. destruct d; [apply scalar_u_rel | apply scalar_m_rel]; exact Hx.
    - rewrite !run_ABareList. pose proof (pre_load_rel d x1 x2 s u Hx) as H.
      destruct (pre_load St load d x1 s) as [y1 s1]. destruct (pre_load unit (load_p W) d x2 u) as [y2 u1]. cbn [fst snd] in H.
      intros HB Is.
      assert (HB1 : B s1 = false) by (destruct y1 as [b|pr l|pr kvs]; [destruct d|..]; exact HB).
      destruct (H HB1 Is) as [Is1 Hy]. pose proof (erase_eq_cases _ _ Hy) as Hc.
      destruct y1 as [b1|p1 l1|p1 l1], y2 as [b2|p2 l2|p2 l2]; try contradiction.
      + subst b2. destruct d; (split; [exact Is1 | reflexivity]).
      + cbn [fst snd]. split; [exact Is1|]. destruct d; cbn [eres]; [rewrite Hy; reflexivity|].
        rewrite !erase_VL, Hc. reflexivity.
      + cbn [fst snd]. split; [exact Is1|]. rewrite (ekv_fst _ _ Hc). reflexivity.
    - rewrite !run_ABareDict. pose proof (pre_load_rel d x1 x2 s u Hx) as H.
      destruct (pre_load St load d x1 s) as [y1 s1]. destruct (pre_load unit (load_p W) d x2 u) as [y2 u1]. cbn [fst snd] in H.
      intros HB Is.
      assert (HB1 : B s1 = false) by (destruct y1 as [b|pr [|? ?]|pr kvs]; exact HB).
      destruct (H HB1 Is) as [Is1 Hy]. pose proof (erase_eq_cases _ _ Hy) as Hc.
      destruct y1 as [b1|p1 l1|p1 l1], y2 as [b2|p2 l2|p2 l2]; try contradiction.
      + subst b2. split; [exact Is1 | reflexivity].
      + destruct l1 as [|? ?], l2 as [|? ?]; cbn [map] in Hc; try discriminate Hc; (split; [exact Is1 | reflexivity]).
      + cbn [fst snd]. split; [exact Is1|]. destruct d; cbn [eres]; [rewrite Hy; reflexivity|].
        rewrite !erase_VD, Hc. reflexivity.
    - rewrite !run_AList. pose proof (pre_load_rel d x1 x2 s u Hx) as H.
      pose proof (fun vs => list_go_R St Mono Mono_refl Mono_trans (runL d e) (fun v s' => run_M e d v s') vs []) as HM.
      destruct (pre_load St load d x1 s) as [y1 s1]. destruct (pre_load unit (load_p W) d x2 u) as [y2 u1]. cbn [fst snd] in H.
      intros HB Is.
      assert (HB1 : B s1 = false) by (destruct (itervalues W y1) as [vs|ex|]; [apply (HM _ _ HB) | exact HB | exact HB]).
      destruct (H HB1 Is) as [Is1 Hy]. pose proof (itervalues_rel W _ _ Hy) as Hi.
      destruct (itervalues W y1) as [vs1|ex1|], (itervalues W y2) as [vs2|ex2|]; cbn [rres] in Hi; try contradiction.
      + apply list_go_rel; try assumption; [intros v s'; apply run_M | intros v1 v2 s' u' Hv; apply IHe; exact Hv | reflexivity].
      + subst ex2. split; [exact Is1 | reflexivity].
      + split; [exact Is1 | reflexivity].
    - rewrite !run_ADict. pose proof (pre_load_rel d x1 x2 s u Hx) as H.
      pose proof (fun vs => dict_go_R W St Mono Mono_refl Mono_trans (keyf W St iso parse d) (runL d e)
                              (keyf_M d) (fun v s' => run_M e d v s') vs []) as HM.
      destruct (pre_load St load d x1 s) as [y1 s1]. destruct (pre_load unit (load_p W) d x2 u) as [y2 u1]. cbn [fst snd] in H.
      intros HB Is.
      assert (HB1 : B s1 = false) by (destruct (iteritems W y1) as [vs|ex|]; [apply (HM _ _ HB) | exact HB | exact HB]).
      destruct (H HB1 Is) as [Is1 Hy]. pose proof (iteritems_rel W _ _ Hy) as Hi.
      destruct (iteritems W y1) as [vs1|ex1|], (iteritems W y2) as [vs2|ex2|]; cbn [rres] in Hi; try contradiction.
      + apply dict_go_rel; try assumption;
          [apply keyf_M | intros v s'; apply run_M | intros k s' u'; apply keyf_rel
          | intros v1 v2 s' u' Hv; apply IHe; exact Hv | reflexivity].
      + subst ex2. split; [exact Is1 | reflexivity].
      + split; [exact Is1 | reflexivity].
    - rewrite !run_AUnion. rewrite (isnone_rel W _ _ Hx).
      destruct (negb d && has_none ms && match x2 with VA b => w_isnone W b | _ => false end).
      + intros _ Is. split; [exact Is|]. cbn [fst eres]. rewrite Hx. reflexivity.
      + apply union_go_rel.
        * intros m s'. apply run_M.
        * eapply Forall_impl; [|exact IHms]. intros m Hm s' u'. apply Hm. exact Hx.
  Qed.
End Rel.

(* ---------------------------------------------------------------- 8. the invariant: every cache entry is pristine *)
Record Inv (W : world) (s : state) : Prop := {
  inv_load : Forall (fun e : N * (nat * val) => snd (snd e) = tag (PCache (fst (snd e))) [] (w_strload W (fst e))) (t_load s);
  inv_iso : Forall (fun e : N * N => w_iso W (fst e) = Ok (snd e)) (t_iso s);
  inv_parse : Forall (fun e : (N * sty) * N => w_parse W (fst (fst e)) (snd (fst e)) = Ok (snd e)) (t_parse s);
  inv_uw : Forall (fun e : ann * ann => snd e = fst e) (t_uw s);
  inv_so : Forall (fun e : ann * ann => snd e = fst e) (t_so s);
  inv_um : Forall (fun e : (bool * ann) * ann => snd e = snd (fst e)) (t_um s);
  inv_mm : Forall (fun e : (bool * ann) * ann => snd e = snd (fst e)) (t_mm s);
  inv_cd : Forall (fun e : ann * (ann * ann) => snd e = (fst e, fst e)) (t_cd s)
}.

Section InvSetters.
  Variable W : world.
  Lemma Inv_init : Inv W init.
  Proof. constructor; constructor. Qed.
  Lemma Inv_flag : forall s b, Inv W s -> Inv W (flag s b).
  Proof. intros s b [? ? ? ? ? ? ? ?]. constructor; assumption. Qed.
  Lemma Inv_set_io : forall s i r, Inv W s -> Inv W (set_io s i r).
  Proof. intros s i r [? ? ? ? ? ? ? ?]. constructor; assumption. Qed.
  Lemma Inv_clear : forall s, Inv W (clear s).
  Proof. intros s. constructor; constructor. Qed.
  Lemma Inv_set_load : forall s t n, Inv W s ->
    Forall (fun e : N * (nat * val) => snd (snd e) = tag (PCache (fst (snd e))) [] (w_strload W (fst e))) t ->
    Inv W (set_load s t n).
  Proof. intros s t n [? ? ? ? ? ? ? ?] Ht. constructor; assumption. Qed.
  Lemma Inv_set_iso : forall s t, Inv W s -> Forall (fun e : N * N => w_iso W (fst e) = Ok (snd e)) t -> Inv W (set_iso s t).
  Proof. intros s t [? ? ? ? ? ? ? ?] Ht. constructor; assumption. Qed.
  Lemma Inv_set_parse : forall s t, Inv W s ->
    Forall (fun e : (N * sty) * N => w_parse W (fst (fst e)) (snd (fst e)) = Ok (snd e)) t -> Inv W (set_parse s t).
  Proof. intros s t [? ? ? ? ? ? ? ?] Ht. constructor; assumption. Qed.
  Lemma Inv_set_uw : forall s t, Inv W s -> Forall (fun e : ann * ann => snd e = fst e) t -> Inv W (set_uw s t).
  Proof. intros s t [? ? ? ? ? ? ? ?] Ht. constructor; assumption. Qed.
  Lemma Inv_set_so : forall s t, Inv W s -> Forall (fun e : ann * ann => snd e = fst e) t -> Inv W (set_so s t).
  Proof. intros s t [? ? ? ? ? ? ? ?] Ht. constructor; assumption. Qed.
  Lemma Inv_set_um : forall s t, Inv W s -> Forall (fun e : (bool * ann) * ann => snd e = snd (fst e)) t -> Inv W (set_um s t).
  Proof. intros s t [? ? ? ? ? ? ? ?] Ht. constructor; assumption. Qed.
  Lemma Inv_set_mm : forall s t, Inv W s -> Forall (fun e : (bool * ann) * ann => snd e = snd (fst e)) t -> Inv W (set_mm s t).
  Proof. intros s t [? ? ? ? ? ? ? ?] Ht. constructor; assumption. Qed.
  Lemma Inv_set_cd : forall s t, Inv W s -> Forall (fun e : ann * (ann * ann) => snd e = (fst e, fst e)) t -> Inv W (set_cd s t).
  Proof. intros s t [? ? ? ? ? ? ? ?] Ht. constructor; assumption. Qed.
End InvSetters.

(* the inner loop of [resolve], named *)
Definition resolve_go (n' : nat) :=
  fix go (ms : list ann) (s : state) : list ann * state :=
    match ms with
    | [] => ([], s)
    | m :: r => let (m', s') := resolve n' m s in let (r', s'') := go r s' in (m' :: r', s'')
    end.
Lemma resolve_S : forall n' a s,
  resolve (S n') a s =
  let (u, s1) := get_uw a s in
  match u with
  | AList e => let (e', s2) := resolve n' e s1 in (AList e', s2)
  | ADict e => let (e', s2) := resolve n' e s1 in (ADict e', s2)
  | AUnion ms => let (ms', s2) := resolve_go n' ms s1 in (AUnion ms', s2)
  | _ => (u, s1)
  end.
Proof. reflexivity. Qed.

(* ---------------------------------------------------------------- 9. a preorder kept by the setters is kept by every cached function *)
Section SR.
  Variable W : world.
  Variable Rl : state -> state -> Prop.
  Hypothesis Rl_refl : forall s, Rl s s.
  Hypothesis Rl_trans : forall s1 s2 s3, Rl s1 s2 -> Rl s2 s3 -> Rl s1 s3.
  Hypothesis Rl_flag : forall s b, Rl s (flag s b).
  Hypothesis Rl_set_load : forall s t n, Rl s (set_load s t n).
  Hypothesis Rl_set_iso : forall s t, Rl s (set_iso s t).
  Hypothesis Rl_set_parse : forall s t, Rl s (set_parse s t).
  Hypothesis Rl_set_uw : forall s t, Rl s (set_uw s t).
  Hypothesis Rl_set_so : forall s t, Rl s (set_so s t).
  Hypothesis Rl_set_um : forall s t, Rl s (set_um s t).
  Hypothesis Rl_set_mm : forall s t, Rl s (set_mm s t).
  Hypothesis Rl_set_cd : forall s t, Rl s (set_cd s t).

  Lemma load_w_R : forall x s, Rl s (snd (load_w W x s)).
  Proof.
    intros x s. unfold load_w. destruct x as [a|? ?|? ?]; try apply Rl_refl.
    destruct (w_text W a); [|apply Rl_refl].
    destruct (memo_get (atom_eqv W) N.eqb (t_load s) a) as [[[cv tbl] coll]|]; cbn [snd].
    - eapply Rl_trans; [apply Rl_set_load | apply Rl_flag].
    - apply Rl_set_load.
  Qed.
  Lemma iso_w_R : forall a s, Rl s (snd (iso_w W a s)).
  Proof.
    intros a s. unfold iso_w.
    destruct (negb (w_isdelta W a)); [cbn [snd]; apply Rl_refl|].
    destruct (memo_get (atom_eqv W) N.eqb (t_iso s) a) as [[[cv tbl] coll]|]; cbn [snd].
    - eapply Rl_trans; [apply Rl_set_iso | apply Rl_flag].
    - destruct (w_iso W a); cbn [snd]; [apply Rl_set_iso | apply Rl_refl | apply Rl_refl].
  Qed.
  Lemma parse_w_R : forall k s, Rl s (snd (parse_w W k s)).
  Proof.
    intros k s. unfold parse_w.
    destruct (memo_get (ps_eq W) ps_same (t_parse s) k) as [[[cv tbl] coll]|]; cbn [snd].
    - eapply Rl_trans; [apply Rl_set_parse | apply Rl_flag].
    - destruct (w_parse W (fst k) (snd k)); cbn [snd]; [apply Rl_set_parse | apply Rl_refl | apply Rl_refl].
  Qed.
  Lemma run_w_R : forall d a x s, Rl s (snd (run_w W d a x s)).
  Proof.
    intros d a x s. unfold run_w.
    apply (run_R W state (load_w W) (iso_w W) (parse_w W) Rl Rl_refl Rl_trans load_w_R iso_w_R parse_w_R).
  Qed.
  Lemma get_uw_R : forall a s, Rl s (snd (get_uw a s)).
  Proof.
    intros a s. unfold get_uw.
    destruct a; try apply Rl_refl;
      (match goal with |- context [memo_get ?e ?sm ?t ?k] => destruct (memo_get e sm t k) as [[[cv tbl] coll]|] end; cbn [snd];
       [eapply Rl_trans; [apply Rl_set_uw | apply Rl_flag] | apply Rl_set_uw]).
  Qed.
  Lemma resolve_R : forall n a s, Rl s (snd (resolve n a s)).
  Proof.
    induction n as [|n' IH]; intros a s; [apply Rl_refl|].
    rewrite resolve_S. pose proof (get_uw_R a s) as H. destruct (get_uw a s) as [u s1]. cbn [snd] in H.
    destruct u as [t| | |e|e|ms]; try exact H.
    - pose proof (IH e s1) as H2. destruct (resolve n' e s1) as [e' s2]. cbn [snd] in H2 |- *. eapply Rl_trans; eassumption.
    - pose proof (IH e s1) as H2. destruct (resolve n' e s1) as [e' s2]. cbn [snd] in H2 |- *. eapply Rl_trans; eassumption.
    - assert (HG : forall ms s', Rl s' (snd (resolve_go n' ms s'))).
      { induction ms0 as [|m r IHr]; intros s'; cbn [resolve_go]; [apply Rl_refl|].
        pose proof (IH m s') as H2. destruct (resolve n' m s') as [m' s2]. cbn [snd] in H2.
        pose proof (IHr s2) as H3. destruct (resolve_go n' r s2) as [r' s3]. cbn [snd] in H3 |- *. eapply Rl_trans; eassumption. }
      pose proof (HG ms s1) as H2. destruct (resolve_go n' ms s1) as [ms' s2]. cbn [snd] in H2 |- *. eapply Rl_trans; eassumption.
  Qed.
  Lemma get_so_R : forall a s, Rl s (snd (get_so a s)).
  Proof.
    intros a s. unfold get_so. destruct (memo_get key_eq ann_eqb (t_so s) a) as [[[cv tbl] coll]|]; cbn [snd].
    - eapply Rl_trans; [apply Rl_set_so | apply Rl_flag].
    - pose proof (resolve_R (depth a) a s) as H. destruct (resolve (depth a) a s) as [sp s1]. cbn [snd] in H |- *.
      eapply Rl_trans; [exact H | apply Rl_set_so].
  Qed.
  Lemma get_um_R : forall kw a s, Rl s (snd (get_um kw a s)).
  Proof.
    intros kw a s. unfold get_um.
    destruct (memo_get (kw_eq key_eq) (kw_eq ann_eqb) (t_um s) (kw, a)) as [[[cv tbl] coll]|]; cbn [snd].
    - eapply Rl_trans; [apply Rl_set_um | apply Rl_flag].
    - pose proof (get_so_R a s) as H. destruct (get_so a s) as [sp s1]. cbn [snd] in H |- *.
      eapply Rl_trans; [exact H | apply Rl_set_um].
  Qed.
  Lemma get_mm_R : forall kw a s, Rl s (snd (get_mm kw a s)).
  Proof.
    intros kw a s. unfold get_mm.
    destruct (memo_get (kw_eq key_eq) (kw_eq ann_eqb) (t_mm s) (kw, a)) as [[[cv tbl] coll]|]; cbn [snd].
    - eapply Rl_trans; [apply Rl_set_mm | apply Rl_flag].
    - pose proof (get_so_R a s) as H. destruct (get_so a s) as [sp s1]. cbn [snd] in H |- *.
      eapply Rl_trans; [exact H | apply Rl_set_mm].
  Qed.
  Lemma get_cd_R : forall a s, Rl s (snd (get_cd a s)).
  Proof.
    intros a s. unfold get_cd. destruct (memo_get key_eq ann_eqb (t_cd s) a) as [[[cv tbl] coll]|]; cbn [snd].
    - eapply Rl_trans; [apply Rl_set_cd | apply Rl_flag].
    - pose proof (get_mm_R true a s) as H. destruct (get_mm true a s) as [m s1]. cbn [snd] in H.
      pose proof (get_um_R true a s1) as H2. destruct (get_um true a s1) as [u s2]. cbn [snd] in H2 |- *.
      eapply Rl_trans; [exact H|]. eapply Rl_trans; [exact H2 | apply Rl_set_cd].
  Qed.
End SR.

(* the ghost flag only ever goes up *)
Definition MonoS : state -> state -> Prop := Mono state bad.
Section MonoInst.
  Variable W : world.
  Lemma MonoS_flag : forall s b, MonoS s (flag s b).
  Proof. intros s b H. cbn [flag bad] in H. apply orb_false_elim in H. apply H. Qed.
  Lemma load_w_M : forall x s, MonoS s (snd (load_w W x s)).
  Proof. apply load_w_R; first [apply Mono_refl | apply Mono_trans | apply MonoS_flag | (intros; intro H; exact H)]. Qed.
  Lemma iso_w_M : forall a s, MonoS s (snd (iso_w W a s)).
  Proof. apply iso_w_R; first [apply Mono_refl | apply Mono_trans | apply MonoS_flag | (intros; intro H; exact H)]. Qed.
  Lemma parse_w_M : forall k s, MonoS s (snd (parse_w W k s)).
  Proof. apply parse_w_R; first [apply Mono_refl | apply Mono_trans | apply MonoS_flag | (intros; intro H; exact H)]. Qed.
  Lemma run_w_M : forall d a x s, MonoS s (snd (run_w W d a x s)).
  Proof. apply run_w_R; first [apply Mono_refl | apply Mono_trans | apply MonoS_flag | (intros; intro H; exact H)]. Qed.
  Lemma get_uw_M : forall a s, MonoS s (snd (get_uw a s)).
  Proof. apply get_uw_R; first [apply Mono_refl | apply Mono_trans | apply MonoS_flag | (intros; intro H; exact H)]. Qed.
  Lemma resolve_M : forall n a s, MonoS s (snd (resolve n a s)).
  Proof. apply resolve_R; first [apply Mono_refl | apply Mono_trans | apply MonoS_flag | (intros; intro H; exact H)]. Qed.
  Lemma get_so_M : forall a s, MonoS s (snd (get_so a s)).
  Proof. apply get_so_R; first [apply Mono_refl | apply Mono_trans | apply MonoS_flag | (intros; intro H; exact H)]. Qed.
  Lemma get_um_M : forall kw a s, MonoS s (snd (get_um kw a s)).
  Proof. apply get_um_R; first [apply Mono_refl | apply Mono_trans | apply MonoS_flag | (intros; intro H; exact H)]. Qed.
  Lemma get_mm_M : forall kw a s, MonoS s (snd (get_mm kw a s)).
  Proof. apply get_mm_R; first [apply Mono_refl | apply Mono_trans | apply MonoS_flag | (intros; intro H; exact H)]. Qed.
  Lemma get_cd_M : forall a s, MonoS s (snd (get_cd a s)).
  Proof. apply get_cd_R; first [apply Mono_refl | apply Mono_trans | apply MonoS_flag | (intros; intro H; exact H)]. Qed.
End MonoInst.

(* ---------------------------------------------------------------- 10. the caches against their bodies *)
Section Concrete.
  Variable W : world.

  Lemma bad_flag_false : forall s b, bad (flag s b) = false -> bad s = false /\ b = false.
  Proof. intros s b H. cbn [flag bad] in H. apply orb_false_elim in H. exact H. Qed.

  Lemma load_w_rel : forall x1 x2 s (u : unit), erase x1 = erase x2 ->
    bad (snd (load_w W x1 s)) = false -> Inv W s ->
    Inv W (snd (load_w W x1 s)) /\ erase (fst (load_w W x1 s)) = erase (fst (load_p W x2 u)).
  Proof.
    intros x1 x2 s u H. pose proof (erase_eq_cases _ _ H) as Hc.
    destruct x1 as [a|p1 l1|p1 l1], x2 as [b|p2 l2|p2 l2]; try contradiction;
      try (intros _ Is; split; [exact Is | exact H]).
    subst b. unfold load_w, load_p. destruct (w_text W a); [|intros _ Is; split; [exact Is | reflexivity]].
    destruct (memo_get (atom_eqv W) N.eqb (t_load s) a) as [[[cv tbl] coll]|] eqn:E; cbn [fst snd].
    - intros HB Is. apply bad_flag_false in HB. destruct HB as [_ Hcoll].
      apply memo_get_some in E. destruct E as [k' [Hin [Hc' HF]]].
      rewrite Hc' in Hcoll. apply negb_false_iff in Hcoll. apply N.eqb_eq in Hcoll. subst k'.
      split.
      + apply Inv_flag, Inv_set_load; [exact Is | apply HF, (inv_load W s Is)].
      + pose proof (inv_load W s Is) as HL. rewrite Forall_forall in HL. specialize (HL _ Hin). cbn [fst snd] in HL.
        rewrite HL, erase_idem, erase_tag. reflexivity.
    - intros _ Is. split; [|rewrite erase_idem; apply erase_tag].
      apply Inv_set_load; [exact Is|]. apply memo_put_Forall; [apply (inv_load W s Is) | reflexivity].
  Qed.

  Lemma iso_w_rel : forall a s, bad (snd (iso_w W a s)) = false -> Inv W s ->
    Inv W (snd (iso_w W a s)) /\ fst (iso_w W a s) = w_iso W a.
  Proof.
    intros a s. unfold iso_w.
    destruct (negb (w_isdelta W a)); [cbn [fst snd]; intros _ Is; split; [exact Is|reflexivity]|].
    destruct (memo_get (atom_eqv W) N.eqb (t_iso s) a) as [[[t tbl] coll]|] eqn:E; cbn [fst snd].
    - intros HB Is. apply bad_flag_false in HB. destruct HB as [_ Hcoll].
      apply memo_get_some in E. destruct E as [k' [Hin [Hc' HF]]].
      rewrite Hc' in Hcoll. apply negb_false_iff in Hcoll. apply N.eqb_eq in Hcoll. subst k'.
      split.
      + apply Inv_flag, Inv_set_iso; [exact Is | apply HF, (inv_iso W s Is)].
      + pose proof (inv_iso W s Is) as HL. rewrite Forall_forall in HL. specialize (HL _ Hin). cbn [fst snd] in HL.
        symmetry. exact HL.
    - destruct (w_iso W a) as [t|e|] eqn:Ea; cbn [fst snd]; intros _ Is; (split; [|reflexivity]); try exact Is.
      apply Inv_set_iso; [exact Is|]. apply memo_put_Forall; [apply (inv_iso W s Is) | exact Ea].
  Qed.

  Lemma parse_w_rel : forall k s, bad (snd (parse_w W k s)) = false -> Inv W s ->
    Inv W (snd (parse_w W k s)) /\ fst (parse_w W k s) = w_parse W (fst k) (snd k).
  Proof.
    intros k s. unfold parse_w.
    destruct (memo_get (ps_eq W) ps_same (t_parse s) k) as [[[t tbl] coll]|] eqn:E; cbn [fst snd].
    - intros HB Is. apply bad_flag_false in HB. destruct HB as [_ Hcoll].
      apply memo_get_some in E. destruct E as [k' [Hin [Hc' HF]]].
      rewrite Hc' in Hcoll. apply negb_false_iff in Hcoll. apply ps_same_eq in Hcoll. subst k'.
      split.
      + apply Inv_flag, Inv_set_parse; [exact Is | apply HF, (inv_parse W s Is)].
      + pose proof (inv_parse W s Is) as HL. rewrite Forall_forall in HL. specialize (HL _ Hin). cbn [fst snd] in HL.
        symmetry. exact HL.
    - destruct (w_parse W (fst k) (snd k)) as [t|e|] eqn:Ea; cbn [fst snd]; intros _ Is; (split; [|reflexivity]); try exact Is.
      apply Inv_set_parse; [exact Is|]. apply memo_put_Forall; [apply (inv_parse W s Is) | exact Ea].
  Qed.

  Lemma eres_idem : forall r, eres (eres r) = eres r.
  Proof. intros [v|e|]; cbn [eres]; [rewrite erase_idem|..]; reflexivity. Qed.
  Lemma spec_val_eres : forall d a x, spec_val W d a x = eres (run_p W d a x).
  Proof. intros d a x. unfold spec_val. destruct (run_p W d a x); reflexivity. Qed.

  Lemma run_w_ok : forall d a x1 x2 s, erase x1 = erase x2 ->
    bad (snd (run_w W d a x1 s)) = false -> Inv W s ->
    Inv W (snd (run_w W d a x1 s)) /\ eres (fst (run_w W d a x1 s)) = spec_val W d a x2.
  Proof.
    intros d a x1 x2 s H. rewrite spec_val_eres. unfold run_w, run_p.
    apply (run_rel W state (load_w W) (iso_w W) (parse_w W) (Inv W) bad
             (load_w_M W) (iso_w_M W) (parse_w_M W) load_w_rel iso_w_rel parse_w_rel). exact H.
  Qed.

  (* ---- factories *)
  Lemma get_uw_ok : forall a s, bad (snd (get_uw a s)) = false -> Inv W s ->
    Inv W (snd (get_uw a s)) /\ fst (get_uw a s) = a.
  Proof.
    intros a s. unfold get_uw.
    assert (HH : bad (snd (match memo_get key_eq ann_eqb (t_uw s) a with
                           | Some (u, tbl, coll) => (u, flag (set_uw s tbl) coll)
                           | None => (a, set_uw s (memo_put None (t_uw s) a a)) end)) = false -> Inv W s ->
                 Inv W (snd (match memo_get key_eq ann_eqb (t_uw s) a with
                           | Some (u, tbl, coll) => (u, flag (set_uw s tbl) coll)
                           | None => (a, set_uw s (memo_put None (t_uw s) a a)) end)) /\
                 fst (match memo_get key_eq ann_eqb (t_uw s) a with
                           | Some (u, tbl, coll) => (u, flag (set_uw s tbl) coll)
                           | None => (a, set_uw s (memo_put None (t_uw s) a a)) end) = a).
    { destruct (memo_get key_eq ann_eqb (t_uw s) a) as [[[t tbl] coll]|] eqn:E; cbn [fst snd].
      - intros HB Is. apply bad_flag_false in HB. destruct HB as [_ Hcoll].
        apply memo_get_some in E. destruct E as [k' [Hin [Hc' HF]]].
        rewrite Hc' in Hcoll. apply negb_false_iff in Hcoll. apply ann_eqb_eq in Hcoll. subst k'.
        split.
        + apply Inv_flag, Inv_set_uw; [exact Is | apply HF, (inv_uw W s Is)].
        + pose proof (inv_uw W s Is) as HL. rewrite Forall_forall in HL. specialize (HL _ Hin). exact HL.
      - intros _ Is. split; [|reflexivity]. apply Inv_set_uw; [exact Is|].
        apply memo_put_Forall; [apply (inv_uw W s Is) | reflexivity]. }
    destruct a; try exact HH; intros _ Is; (split; [exact Is | reflexivity]).
  Qed.

  Lemma resolve_ok : forall n a s, bad (snd (resolve n a s)) = false -> Inv W s ->
    Inv W (snd (resolve n a s)) /\ fst (resolve n a s) = a.
  Proof.
    induction n as [|n' IH]; intros a s; [intros _ Is; split; [exact Is | reflexivity]|].
    rewrite resolve_S. pose proof (get_uw_ok a s) as H. pose proof (get_uw_M a s) as HM.
    destruct (get_uw a s) as [u s1]. cbn [fst snd] in H, HM.
    assert (HG : forall ms s', bad (snd (resolve_go n' ms s')) = false -> Inv W s' ->
                   Inv W (snd (resolve_go n' ms s')) /\ fst (resolve_go n' ms s') = ms).
    { induction ms as [|m r IHr]; intros s'; cbn [resolve_go]; [intros _ Is; split; [exact Is | reflexivity]|].
      pose proof (IH m s') as H2. destruct (resolve n' m s') as [m' s2]. cbn [fst snd] in H2.
      pose proof (IHr s2) as H3. assert (HM3 : MonoS s2 (snd (resolve_go n' r s2))).
      { clear. revert s2. induction r as [|m r IHr]; intros s2; cbn [resolve_go]; [apply Mono_refl|].
        pose proof (resolve_M n' m s2) as H2. destruct (resolve n' m s2) as [m' s3]. cbn [snd] in H2.
        pose proof (IHr s3) as H3. destruct (resolve_go n' r s3) as [r' s4]. cbn [snd] in H3 |- *.
        eapply Mono_trans; eassumption. }
      destruct (resolve_go n' r s2) as [r' s3]. cbn [fst snd] in H3, HM3 |- *.
      intros HB Is. destruct (H2 (HM3 HB) Is) as [Is2 Hm]. destruct (H3 HB Is2) as [Is3 Hr].
      split; [exact Is3|]. rewrite Hm, Hr. reflexivity. }
    assert (HGM : forall ms s', MonoS s' (snd (resolve_go n' ms s'))).
    { induction ms as [|m r IHr]; intros s2; cbn [resolve_go]; [apply Mono_refl|].
      pose proof (resolve_M n' m s2) as H2. destruct (resolve n' m s2) as [m' s3]. cbn [snd] in H2.
      pose proof (IHr s3) as H3. destruct (resolve_go n' r s3) as [r' s4]. cbn [snd] in H3 |- *.
      eapply Mono_trans; eassumption. }
    intros HB Is.
    assert (HB1 : bad s1 = false).
    { destruct u as [t| | |e|e|ms]; try exact HB.
      - pose proof (resolve_M n' e s1) as H2. destruct (resolve n' e s1) as [e' s2]. apply H2, HB.
      - pose proof (resolve_M n' e s1) as H2. destruct (resolve n' e s1) as [e' s2]. apply H2, HB.
      - pose proof (HGM ms s1) as H2. destruct (resolve_go n' ms s1) as [e' s2]. apply H2, HB. }
    destruct (H HB1 Is) as [Is1 Hu]. subst u.
    destruct a as [t| | |e|e|ms]; try (split; [exact Is1 | reflexivity]).
    - pose proof (IH e s1) as H2. destruct (resolve n' e s1) as [e' s2]. cbn [fst snd] in *.
      destruct (H2 HB Is1) as [Is2 He]. subst e'. split; [exact Is2 | reflexivity].
    - pose proof (IH e s1) as H2. destruct (resolve n' e s1) as [e' s2]. cbn [fst snd] in *.
      destruct (H2 HB Is1) as [Is2 He]. subst e'. split; [exact Is2 | reflexivity].
    - pose proof (HG ms s1) as H2. destruct (resolve_go n' ms s1) as [e' s2]. cbn [fst snd] in *.
      destruct (H2 HB Is1) as [Is2 He]. subst e'. split; [exact Is2 | reflexivity].
  Qed.

  Lemma get_so_ok : forall a s, bad (snd (get_so a s)) = false -> Inv W s ->
    Inv W (snd (get_so a s)) /\ fst (get_so a s) = a.
  Proof.
    intros a s. unfold get_so.
    destruct (memo_get key_eq ann_eqb (t_so s) a) as [[[t tbl] coll]|] eqn:E; cbn [fst snd].
    - intros HB Is. apply bad_flag_false in HB. destruct HB as [_ Hcoll].
      apply memo_get_some in E. destruct E as [k' [Hin [Hc' HF]]].
      rewrite Hc' in Hcoll. apply negb_false_iff in Hcoll. apply ann_eqb_eq in Hcoll. subst k'.
      split.
      + apply Inv_flag, Inv_set_so; [exact Is | apply HF, (inv_so W s Is)].
      + pose proof (inv_so W s Is) as HL. rewrite Forall_forall in HL. specialize (HL _ Hin). exact HL.
    - pose proof (resolve_ok (depth a) a s) as H. destruct (resolve (depth a) a s) as [sp s1]. cbn [fst snd] in H |- *.
      intros HB Is. destruct (H HB Is) as [Is1 Hsp]. subst sp. split; [|reflexivity].
      apply Inv_set_so; [exact Is1|]. apply memo_put_Forall; [apply (inv_so W s1 Is1) | reflexivity].
  Qed.

  Lemma get_um_ok : forall kw a s, bad (snd (get_um kw a s)) = false -> Inv W s ->
    Inv W (snd (get_um kw a s)) /\ fst (get_um kw a s) = a.
  Proof.
    intros kw a s. unfold get_um.
    destruct (memo_get (kw_eq key_eq) (kw_eq ann_eqb) (t_um s) (kw, a)) as [[[t tbl] coll]|] eqn:E; cbn [fst snd].
    - intros HB Is. apply bad_flag_false in HB. destruct HB as [_ Hcoll].
      apply memo_get_some in E. destruct E as [k' [Hin [Hc' HF]]].
      rewrite Hc' in Hcoll. apply negb_false_iff in Hcoll. apply kw_same_eq in Hcoll. subst k'.
      split.
      + apply Inv_flag, Inv_set_um; [exact Is | apply HF, (inv_um W s Is)].
      + pose proof (inv_um W s Is) as HL. rewrite Forall_forall in HL. specialize (HL _ Hin). exact HL.
    - pose proof (get_so_ok a s) as H. destruct (get_so a s) as [sp s1]. cbn [fst snd] in H |- *.
      intros HB Is. destruct (H HB Is) as [Is1 Hsp]. subst sp. split; [|reflexivity].
      apply Inv_set_um; [exact Is1|]. apply memo_put_Forall; [apply (inv_um W s1 Is1) | reflexivity].
  Qed.

  Lemma get_mm_ok : forall kw a s, bad (snd (get_mm kw a s)) = false -> Inv W s ->
    Inv W (snd (get_mm kw a s)) /\ fst (get_mm kw a s) = a.
  Proof.
    intros kw a s. unfold get_mm.
    destruct (memo_get (kw_eq key_eq) (kw_eq ann_eqb) (t_mm s) (kw, a)) as [[[t tbl] coll]|] eqn:E; cbn [fst snd].
    - intros HB Is. apply bad_flag_false in HB. destruct HB as [_ Hcoll].
      apply memo_get_some in E. destruct E as [k' [Hin [Hc' HF]]].
      rewrite Hc' in Hcoll. apply negb_false_iff in Hcoll. apply kw_same_eq in Hcoll. subst k'.
      split.
      + apply Inv_flag, Inv_set_mm; [exact Is | apply HF, (inv_mm W s Is)].
      + pose proof (inv_mm W s Is) as HL. rewrite Forall_forall in HL. specialize (HL _ Hin). exact HL.
    - pose proof (get_so_ok a s) as H. destruct (get_so a s) as [sp s1]. cbn [fst snd] in H |- *.
      intros HB Is. destruct (H HB Is) as [Is1 Hsp]. subst sp. split; [|reflexivity].
      apply Inv_set_mm; [exact Is1|]. apply memo_put_Forall; [apply (inv_mm W s1 Is1) | reflexivity].
  Qed.

  Lemma get_cd_ok : forall a s, bad (snd (get_cd a s)) = false -> Inv W s ->
    Inv W (snd (get_cd a s)) /\ fst (get_cd a s) = (a, a).
  Proof.
    intros a s. unfold get_cd.
    destruct (memo_get key_eq ann_eqb (t_cd s) a) as [[[t tbl] coll]|] eqn:E; cbn [fst snd].
    - intros HB Is. apply bad_flag_false in HB. destruct HB as [_ Hcoll].
      apply memo_get_some in E. destruct E as [k' [Hin [Hc' HF]]].
      rewrite Hc' in Hcoll. apply negb_false_iff in Hcoll. apply ann_eqb_eq in Hcoll. subst k'.
      split.
      + apply Inv_flag, Inv_set_cd; [exact Is | apply HF, (inv_cd W s Is)].
      + pose proof (inv_cd W s Is) as HL. rewrite Forall_forall in HL. specialize (HL _ Hin). exact HL.
    - pose proof (get_mm_ok true a s) as H. destruct (get_mm true a s) as [m s1]. cbn [fst snd] in H.
      pose proof (get_um_ok true a s1) as H2. pose proof (get_um_M true a s1) as HM2.
      destruct (get_um true a s1) as [u s2]. cbn [fst snd] in H2, HM2 |- *.
      intros HB Is. destruct (H (HM2 HB) Is) as [Is1 Hm]. destruct (H2 HB Is1) as [Is2 Hu]. subst m u.
      split; [|reflexivity].
      apply Inv_set_cd; [exact Is2|]. apply memo_put_Forall; [apply (inv_cd W s2 Is2) | reflexivity].
  Qed.
End Concrete.

(* ---------------------------------------------------------------- 11. one operation *)
(* the reference output as a function of the current content of the operation's input *)
Definition op_inp (o : op) : option inp :=
  match o with
  | OUnmarshal _ i | OMarshal _ i | OEncode _ i | ODecode _ i | OCEncode _ i | OCDecode _ i => Some i
  | _ => None
  end.
Definition cur (W : world) (s : state) (o : op) : val :=
  match op_inp o with Some i => input_now W s i | None => VA (w_none W) end.
Definition spec_on (W : world) (o : op) (X : val) : out :=
  match o with
  | OUnmarshal a _ => OVal (spec_val W true a X)
  | OMarshal a _ => OVal (spec_val W false a X)
  | OEncode a _ | OCEncode a _ => OVal (encode_out W (spec_val W false a X))
  | ODecode a _ | OCDecode a _ =>
      match X with
      | VA b => match w_loads W b with
                | Ok t => OVal (spec_val W true a t)
                | Raise e => OVal (Raise e)
                | Unmodelled => OVal Unmodelled
                end
      | _ => OVal Unmodelled
      end
  | _ => OUnit
  end.

Section Step.
  Variable W : world.

  Lemma spec_spec_on : forall s o, spec W s o = spec_on W o (cur W s o).
  Proof. intros s o. destruct o; reflexivity. Qed.

  Lemma spec_on_cold : forall s o X, spec_on W (cold_op W s o) X = spec_on W o X.
  Proof. intros s o X. destruct o; reflexivity. Qed.

  Lemma cur_cold : forall s s' o, erase (cur W s' (cold_op W s o)) = erase (cur W s o).
  Proof.
    intros s s' o. destruct o as [a|a|a|a i|a i|a i|a i|a i|a i|i p|j p|]; try reflexivity;
      destruct i as [t|j]; unfold cur; cbn [cold_op op_inp cold_inp input_now]; try reflexivity; apply erase_idem.
  Qed.

  Lemma erase_out_OVal : forall r, erase_out (OVal r) = OVal (eres r).
  Proof. intros [v|e|]; reflexivity. Qed.

  Lemma get_input_ok : forall i s,
    bad (snd (get_input W i s)) = bad s /\
    (Inv W s -> Inv W (snd (get_input W i s))) /\
    erase (fst (get_input W i s)) = erase (input_now W s i).
  Proof.
    intros [t|j] s; cbn [get_input input_now fst snd].
    - split; [reflexivity|]. split; [apply Inv_set_io | apply erase_tag].
    - split; [reflexivity|]. split; [intros H; exact H | reflexivity].
  Qed.

  Lemma Inv_push : forall r s, Inv W s -> Inv W (push W r s).
  Proof. intros r s H. unfold push. apply Inv_set_io. exact H. Qed.
  Lemma Inv_push_unit : forall s, Inv W s -> Inv W (push_unit W s).
  Proof. intros s H. unfold push_unit. apply Inv_set_io. exact H. Qed.
  Lemma Inv_mutate : forall pr s, Inv W s -> bad (mutate W pr s) = false -> Inv W (mutate W pr s).
  Proof.
    intros pr s Is HB. destruct pr as [[|j q|c q]|]; cbn [mutate] in *; try exact Is.
    - apply Inv_set_io. exact Is.
    - apply bad_flag_false in HB. destruct HB as [_ HB]. discriminate HB.
  Qed.

  (* generic pipeline: factory, then run *)
  Lemma pipeline : forall (d : bool) (a : ann) (fac : state -> ann * state) x X s0,
    (forall s, MonoS s (snd (fac s))) ->
    (forall s, bad (snd (fac s)) = false -> Inv W s -> Inv W (snd (fac s)) /\ fst (fac s) = a) ->
    erase x = erase X -> Inv W s0 ->
    bad (snd (run_w W d (fst (fac s0)) x (snd (fac s0)))) = false ->
    Inv W (snd (run_w W d (fst (fac s0)) x (snd (fac s0)))) /\
    eres (fst (run_w W d (fst (fac s0)) x (snd (fac s0)))) = spec_val W d a X.
  Proof.
    intros d a fac x X s0 HM Hok Hx Is HB.
    pose proof (run_w_M W d (fst (fac s0)) x (snd (fac s0)) HB) as HB1.
    destruct (Hok s0 HB1 Is) as [Is1 Hr]. rewrite Hr in *.
    apply run_w_ok; assumption.
  Qed.

  Lemma step_ok : forall s o X, Inv W s -> bad (fst (step W s o)) = false -> erase X = erase (cur W s o) ->
    Inv W (fst (step W s o)) /\ erase_out (snd (step W s o)) = erase_out (spec_on W o X).
  Proof.
    intros s o X Is HB HX.
    destruct o as [a|a|a|a i|a i|a i|a i|a i|a i|i p|j p|]; cbn [step] in *.
    - (* OBuildU *)
      pose proof (get_um_ok W false a s) as H. destruct (get_um false a s) as [r s1]. cbn [fst snd] in *.
      split; [|reflexivity]. apply Inv_push_unit. apply H; assumption.
    - pose proof (get_mm_ok W false a s) as H. destruct (get_mm false a s) as [r s1]. cbn [fst snd] in *.
      split; [|reflexivity]. apply Inv_push_unit. apply H; assumption.
    - pose proof (get_cd_ok W a s) as H. destruct (get_cd a s) as [r s1]. cbn [fst snd] in *.
      split; [|reflexivity]. apply Inv_push_unit. apply H; assumption.
    - (* OUnmarshal *)
      unfold cur in HX. cbn [op_inp] in HX.
      destruct (get_input_ok i s) as [Hb [Hi Hx]]. destruct (get_input W i s) as [x s0]. cbn [fst snd] in Hb, Hi, Hx.
      pose proof (pipeline true a (get_um false a) x X s0 (get_um_M false a) (get_um_ok W false a)) as HP.
      destruct (get_um false a s0) as [r s1]. cbn [fst snd] in HP.
      destruct (run_w W true r x s1) as [v s2]. cbn [fst snd] in *.
      destruct HP as [Is2 Hv]; [congruence | auto | exact HB |].
      split; [apply Inv_push; exact Is2|]. cbn [spec_on]. rewrite !erase_out_OVal, Hv, spec_val_eres, eres_idem. reflexivity.
    - (* OMarshal *)
      unfold cur in HX. cbn [op_inp] in HX.
      destruct (get_input_ok i s) as [Hb [Hi Hx]]. destruct (get_input W i s) as [x s0]. cbn [fst snd] in Hb, Hi, Hx.
      pose proof (pipeline false a (get_mm false a) x X s0 (get_mm_M false a) (get_mm_ok W false a)) as HP.
      destruct (get_mm false a s0) as [r s1]. cbn [fst snd] in HP.
      destruct (run_w W false r x s1) as [v s2]. cbn [fst snd] in *.
      destruct HP as [Is2 Hv]; [congruence | auto | exact HB |].
      split; [apply Inv_push; exact Is2|]. cbn [spec_on]. rewrite !erase_out_OVal, Hv, spec_val_eres, eres_idem. reflexivity.
    - (* OEncode *)
      unfold cur in HX. cbn [op_inp] in HX.
      destruct (get_input_ok i s) as [Hb [Hi Hx]]. destruct (get_input W i s) as [x s0]. cbn [fst snd] in Hb, Hi, Hx.
      pose proof (pipeline false a (get_mm false a) x X s0 (get_mm_M false a) (get_mm_ok W false a)) as HP.
      destruct (get_mm false a s0) as [r s1]. cbn [fst snd] in HP.
      destruct (run_w W false r x s1) as [v s2]. cbn [fst snd] in *.
      destruct HP as [Is2 Hv]; [congruence | auto | exact HB |].
      split; [apply Inv_push_unit; exact Is2|]. cbn [spec_on]. f_equal. f_equal. apply encode_out_rel.
      rewrite Hv, spec_val_eres, eres_idem. reflexivity.
    - (* ODecode *)
      unfold cur in HX. cbn [op_inp] in HX.
      destruct (get_input_ok i s) as [Hb [Hi Hx]]. destruct (get_input W i s) as [x s0]. cbn [fst snd] in Hb, Hi, Hx.
      assert (HxX : erase x = erase X) by congruence. pose proof (erase_eq_cases _ _ HxX) as Hc.
      destruct x as [b|? ?|? ?], X as [b'|? ?|? ?]; try contradiction; cbn [spec_on];
        try (split; [apply Inv_push_unit; auto | reflexivity]).
      subst b'. destruct (w_loads W b) as [t|e|]; try (split; [apply Inv_push_unit; auto | reflexivity]).
      pose proof (pipeline true a (get_um false a) t t s0 (get_um_M false a) (get_um_ok W false a)) as HP.
      destruct (get_um false a s0) as [r s1]. cbn [fst snd] in HP.
      destruct (run_w W true r t s1) as [v s2]. cbn [fst snd] in *.
      destruct HP as [Is2 Hv]; [reflexivity | auto | exact HB |].
      split; [apply Inv_push; exact Is2|]. cbn [spec_on]. rewrite !erase_out_OVal, Hv, spec_val_eres, eres_idem. reflexivity.
    - (* OCEncode *)
      unfold cur in HX. cbn [op_inp] in HX.
      destruct (get_input_ok i s) as [Hb [Hi Hx]]. destruct (get_input W i s) as [x s0]. cbn [fst snd] in Hb, Hi, Hx.
      pose proof (get_cd_ok W a s0) as H. pose proof (get_cd_M a s0) as HM.
      destruct (get_cd a s0) as [mu s1]. cbn [fst snd] in H, HM.
      pose proof (run_w_M W false (fst mu) x s1) as HM2.
      pose proof (fun r => run_w_ok W false r x X s1) as HR.
      destruct (run_w W false (fst mu) x s1) as [v s2] eqn:E. cbn [fst snd] in *.
      destruct (H (HM2 HB) (Hi Is)) as [Is1 Hmu]. subst mu. cbn [fst] in *.
      specialize (HR a). rewrite E in HR. cbn [fst snd] in HR. destruct HR as [Is2 Hv]; [congruence | exact HB | exact Is1 |].
      split; [apply Inv_push_unit; exact Is2|]. cbn [spec_on]. f_equal. f_equal. apply encode_out_rel.
      rewrite Hv, spec_val_eres, eres_idem. reflexivity.
    - (* OCDecode *)
      unfold cur in HX. cbn [op_inp] in HX.
      destruct (get_input_ok i s) as [Hb [Hi Hx]]. destruct (get_input W i s) as [x s0]. cbn [fst snd] in Hb, Hi, Hx.
      pose proof (get_cd_ok W a s0) as H. pose proof (get_cd_M a s0) as HM.
      destruct (get_cd a s0) as [mu s1]. cbn [fst snd] in H, HM.
      assert (HxX : erase x = erase X) by congruence. pose proof (erase_eq_cases _ _ HxX) as Hc.
      destruct x as [b|? ?|? ?], X as [b'|? ?|? ?]; try contradiction; cbn [spec_on];
        try (cbn [fst snd] in *; split; [apply Inv_push_unit; apply H; auto | reflexivity]).
      subst b'. destruct (w_loads W b) as [t|e|];
        try (cbn [fst snd] in *; split; [apply Inv_push_unit; apply H; auto | reflexivity]).
      pose proof (run_w_M W true (snd mu) t s1) as HM2.
      pose proof (fun r => run_w_ok W true r t t s1) as HR.
      destruct (run_w W true (snd mu) t s1) as [v s2] eqn:E. cbn [fst snd] in *.
      destruct (H (HM2 HB) (Hi Is)) as [Is1 Hmu]. subst mu. cbn [snd] in *.
      specialize (HR a). rewrite E in HR. cbn [fst snd] in HR. destruct HR as [Is2 Hv]; [reflexivity | exact HB | exact Is1 |].
      split; [apply Inv_push; exact Is2|]. cbn [spec_on]. rewrite !erase_out_OVal, Hv, spec_val_eres, eres_idem. reflexivity.
    - (* OMutResult *)
      cbn [fst snd] in *. split; [|reflexivity]. apply Inv_push_unit. apply Inv_mutate; [exact Is | exact HB].
    - cbn [fst snd] in *. split; [|reflexivity]. apply Inv_push_unit. apply Inv_set_io. exact Is.
    - cbn [fst snd] in *. split; [|reflexivity]. apply Inv_push_unit. apply Inv_clear.
  Qed.
End Step.

(* ---------------------------------------------------------------- 12. the reference output carries no tags *)
Section SpecErased.
  Variable W : world.

  Lemma map_fix : forall (A : Type) (f : A -> A) l, Forall (fun y => f y = y) l -> map f l = l.
  Proof. intros A f l H. induction H as [|x l Hx _ IH]; cbn [map]; [reflexivity | rewrite Hx, IH; reflexivity]. Qed.

  Lemma to_json_erased : forall v j, to_json W v = Ok j -> erase j = j.
  Proof.
    induction v as [a|pr l IHl|pr kvs IHk] using val_ind'; intros j Hj.
    - cbn [to_json] in Hj. destruct (w_json W a); try discriminate Hj. injection Hj as Hj. subst j. reflexivity.
    - rewrite to_json_VL in Hj. revert Hj.
      assert (Hacc : Forall (fun y => erase y = y) (@nil val)) by constructor. revert Hacc. generalize (@nil val) as acc.
      induction IHl as [|x l Hx _ IH]; intros acc Hacc Hj; cbn [json_lgo] in Hj.
      + injection Hj as Hj. subst j. rewrite erase_VL. f_equal. apply map_fix. apply Forall_rev. exact Hacc.
      + destruct (to_json W x) as [y|e|] eqn:Ey; try discriminate Hj.
        apply (IH (y :: acc)); [constructor; [apply Hx; reflexivity | exact Hacc] | exact Hj].
    - rewrite to_json_VD in Hj. revert Hj.
      assert (Hacc : Forall (fun kv => ekv kv = kv) (@nil (N * val))) by constructor. revert Hacc.
      generalize (@nil (N * val)) as acc.
      induction IHk as [|kv kvs Hx _ IH]; intros acc Hacc Hj; cbn [json_dgo] in Hj.
      + injection Hj as Hj. subst j. rewrite erase_VD. f_equal. apply map_fix. apply Forall_rev. exact Hacc.
      + destruct (w_jkey W (fst kv)) as [k|e|]; try discriminate Hj.
        destruct (to_json W (snd kv)) as [y|e|] eqn:Ey; try discriminate Hj.
        apply (IH ((k, y) :: acc)); [constructor; [|exact Hacc] | exact Hj].
        unfold ekv; cbn [fst snd]. f_equal. apply Hx. reflexivity.
  Qed.

  Lemma eres_spec_val : forall d a x, eres (spec_val W d a x) = spec_val W d a x.
  Proof. intros d a x. rewrite spec_val_eres. apply eres_idem. Qed.
  Lemma eres_encode_out : forall r, eres (encode_out W r) = encode_out W r.
  Proof.
    intros [v|e|]; cbn [encode_out eres]; try reflexivity.
    destruct (to_json W v) as [j|e|] eqn:E; cbn [eres]; try reflexivity. f_equal. apply (to_json_erased v j E).
  Qed.

  Lemma spec_on_erased : forall o X, erase_out (spec_on W o X) = spec_on W o X.
  Proof.
    intros o X. destruct o as [a|a|a|a i|a i|a i|a i|a i|a i|i p|j p|]; cbn [spec_on]; try reflexivity;
      try (rewrite erase_out_OVal; f_equal; first [apply eres_spec_val | apply eres_encode_out]);
      (destruct X as [b|? ?|? ?]; try reflexivity; destruct (w_loads W b); try reflexivity;
       rewrite erase_out_OVal; f_equal; apply eres_spec_val).
  Qed.
End SpecErased.

(* ---------------------------------------------------------------- 13. histories *)
Section History.
  Variable W : world.

  Lemma step_spec : forall s o, Inv W s -> bad (fst (step W s o)) = false ->
    Inv W (fst (step W s o)) /\ erase_out (snd (step W s o)) = spec W s o.
  Proof.
    intros s o Is HB. destruct (step_ok W s o (cur W s o) Is HB eq_refl) as [Is' Ho].
    split; [exact Is'|]. rewrite Ho, spec_on_erased, spec_spec_on. reflexivity.
  Qed.

  Lemma clean_inv : forall h s, Inv W s -> clean_from W s h = true -> Inv W (run_hist W s h).
  Proof.
    induction h as [|o h IH]; intros s Is Hc; [exact Is|].
    cbn [clean_from] in Hc. apply andb_prop in Hc. destruct Hc as [Hb Hc]. apply negb_true_iff in Hb.
    unfold run_hist. cbn [fold_left]. apply IH; [|exact Hc]. apply step_spec; assumption.
  Qed.

  Lemma clean_app : forall h s o, clean_from W s (h ++ [o]) = true ->
    clean_from W s h = true /\ bad (fst (step W (run_hist W s h) o)) = false.
  Proof.
    induction h as [|o' h IH]; intros s o Hc.
    - cbn [app clean_from] in Hc. apply andb_prop in Hc. destruct Hc as [Hb _]. apply negb_true_iff in Hb.
      split; [reflexivity | exact Hb].
    - cbn [app clean_from] in Hc |- *. apply andb_prop in Hc. destruct Hc as [Hb Hc].
      destruct (IH _ _ Hc) as [H1 H2]. split; [rewrite Hb, H1; reflexivity | exact H2].
  Qed.
End History.

Theorem warm_is_spec : forall (W : world) (h : list op) (o : op),
  clean_from W init (h ++ [o]) = true ->
  warm W h o = spec W (run_hist W init h) o.
Proof.
  intros W h o Hc. apply clean_app in Hc. destruct Hc as [Hh Hb].
  unfold warm. apply step_spec; [|exact Hb]. apply clean_inv; [apply Inv_init | exact Hh].
Qed.

Theorem history_independent : forall (W : world) (h : list op) (o : op),
  c12_guard W h o = true -> warm W h o = cold W (run_hist W init h) o.
Proof.
  intros W h o Hg. unfold c12_guard in Hg. apply andb_prop in Hg. destruct Hg as [Hc Hcold].
  apply negb_true_iff in Hcold. rewrite (warm_is_spec W h o Hc).
  set (s := run_hist W init h) in *. unfold cold.
  destruct (step_ok W init (cold_op W s o) (cur W s o) (Inv_init W) Hcold) as [_ Ho].
  - symmetry. apply cur_cold.
  - rewrite Ho, spec_on_cold, spec_on_erased, spec_spec_on. reflexivity.
Qed.

(* ---------------------------------------------------------------- 14. only the caller touches the inputs *)
Definition SameIn (s s' : state) : Prop := inputs s' = inputs s.
Section Inputs.
  Variable W : world.
  Local Ltac sr L := apply L; first [ (intros; reflexivity) | (unfold SameIn; intros; congruence) ].
  Lemma run_w_inputs : forall d a x s, inputs (snd (run_w W d a x s)) = inputs s.
  Proof. sr (run_w_R W SameIn). Qed.
  Lemma get_um_inputs : forall kw a s, inputs (snd (get_um kw a s)) = inputs s.
  Proof. sr (get_um_R SameIn). Qed.
  Lemma get_mm_inputs : forall kw a s, inputs (snd (get_mm kw a s)) = inputs s.
  Proof. sr (get_mm_R SameIn). Qed.
  Lemma get_cd_inputs : forall a s, inputs (snd (get_cd a s)) = inputs s.
  Proof. sr (get_cd_R SameIn). Qed.
  Lemma get_input_inputs : forall i s, exists extra, inputs (snd (get_input W i s)) = inputs s ++ extra.
  Proof.
    intros [t|j] s; cbn [get_input snd].
    - eexists. reflexivity.
    - exists []. rewrite app_nil_r. reflexivity.
  Qed.
End Inputs.

Theorem inputs_untouched : forall (W : world) (s : state) (o : op),
  match o with OMutResult _ _ | OMutInput _ _ => False | _ => True end ->
  exists extra, inputs (fst (step W s o)) = inputs s ++ extra.
Proof.
  intros W s o Ho.
  destruct o as [a|a|a|a i|a i|a i|a i|a i|a i|i p|j p|]; try contradiction; cbn [step].
  - pose proof (get_um_inputs false a s) as H. destruct (get_um false a s) as [r s1]. cbn [fst snd] in *.
    exists []. rewrite app_nil_r. exact H.
  - pose proof (get_mm_inputs false a s) as H. destruct (get_mm false a s) as [r s1]. cbn [fst snd] in *.
    exists []. rewrite app_nil_r. exact H.
  - pose proof (get_cd_inputs a s) as H. destruct (get_cd a s) as [r s1]. cbn [fst snd] in *.
    exists []. rewrite app_nil_r. exact H.
  - destruct (get_input_inputs W i s) as [extra He]. exists extra. destruct (get_input W i s) as [x s0].
    pose proof (get_um_inputs false a s0) as H. destruct (get_um false a s0) as [r s1].
    pose proof (run_w_inputs W true r x s1) as H2. destruct (run_w W true r x s1) as [v s2].
    cbn [fst snd push set_io inputs] in *. congruence.
  - destruct (get_input_inputs W i s) as [extra He]. exists extra. destruct (get_input W i s) as [x s0].
    pose proof (get_mm_inputs false a s0) as H. destruct (get_mm false a s0) as [r s1].
    pose proof (run_w_inputs W false r x s1) as H2. destruct (run_w W false r x s1) as [v s2].
    cbn [fst snd push set_io inputs] in *. congruence.
  - destruct (get_input_inputs W i s) as [extra He]. exists extra. destruct (get_input W i s) as [x s0].
    pose proof (get_mm_inputs false a s0) as H. destruct (get_mm false a s0) as [r s1].
    pose proof (run_w_inputs W false r x s1) as H2. destruct (run_w W false r x s1) as [v s2].
    cbn [fst snd push_unit set_io inputs] in *. congruence.
  - destruct (get_input_inputs W i s) as [extra He]. exists extra. destruct (get_input W i s) as [x s0].
    cbn [snd] in He.
    destruct x as [b|? ?|? ?]; try (cbn [fst push_unit set_io inputs]; exact He).
    destruct (w_loads W b) as [t|e|]; try (cbn [fst push_unit set_io inputs]; exact He).
    pose proof (get_um_inputs false a s0) as H. destruct (get_um false a s0) as [r s1].
    pose proof (run_w_inputs W true r t s1) as H2. destruct (run_w W true r t s1) as [v s2].
    cbn [fst snd push set_io inputs] in *. congruence.
  - destruct (get_input_inputs W i s) as [extra He]. exists extra. destruct (get_input W i s) as [x s0].
    pose proof (get_cd_inputs a s0) as H. destruct (get_cd a s0) as [mu s1].
    pose proof (run_w_inputs W false (fst mu) x s1) as H2. destruct (run_w W false (fst mu) x s1) as [v s2].
    cbn [fst snd push_unit set_io inputs] in *. congruence.
  - destruct (get_input_inputs W i s) as [extra He]. exists extra. destruct (get_input W i s) as [x s0].
    pose proof (get_cd_inputs a s0) as H. destruct (get_cd a s0) as [mu s1]. cbn [snd] in He, H.
    destruct x as [b|? ?|? ?]; try (cbn [fst push_unit set_io inputs]; congruence).
    destruct (w_loads W b) as [t|e|]; try (cbn [fst push_unit set_io inputs]; congruence).
    pose proof (run_w_inputs W true (snd mu) t s1) as H2. destruct (run_w W true (snd mu) t s1) as [v s2].
    cbn [fst snd push set_io inputs] in *. congruence.
  - exists []. rewrite app_nil_r. reflexivity.
Qed.

Print Assumptions history_independent.
