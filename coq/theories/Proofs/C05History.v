(* Call histories on ONE built routine (round 3 of C05).
   api.unmarshaller / api.marshaller cache the routine they build per annotation, so in a running program the SAME
   routine object converts one input after the other.  In the mechanism model a routine is a term and `run` is a
   function of (routine, input): there is nothing a call could leave behind for the next one.  The lemmas below
   say what that means for a whole history: every terminal result of the history is the reference semantics of
   ITS OWN input, whatever the routine converted before or converts afterwards.  (That the implementation's routines
   really have no memory is not proved here: it is what the history stream of the correspondence checks.) *)
From Coq Require Import List Arith Bool Lia.
Import ListNotations.
Require Import TL.Model.Core TL.Model.Build TL.Proofs.CoreMono TL.Proofs.BuildLemmas TL.Proofs.BuildSemLemmas.

(* one routine, built once, run on each input of the history in order *)
Definition run_history (rt : runtime) (E : env) (orders : ty -> option (list node)) (dir : bool)
  (fuel : nat) (r : routine) (xs : list pv) : list (res pv) :=
  map (run rt E orders dir fuel r) xs.

Section Hist.
Variable rt : runtime.
Variable E : env.
Variable noop_leaf : nat -> bool.
Variable orders : ty -> option (list node).

Lemma history_u_sound :
  (forall t ns, orders t = Some ns ->
     exists pre root, ns = pre ++ [root] /\ order_ok E true noop_leaf [] ns = true /\ norm (ntype root) = norm t) ->
  (forall s x, noop_leaf s = true -> leaf_u rt s x = Ok x) ->
  forall (T : ty) (r : routine), build_root E orders true T = Ok r ->
  forall (fuel : nat) (xs : list pv),
    Forall2 (fun x res => done res = true -> ev (fun m => unm rt E m T x) res)
            xs (run_history rt E orders true fuel r xs).
Proof.
  intros Ho Hn T r Hb fuel xs. unfold run_history.
  induction xs as [|x xs IH]; cbn [map]; constructor; [|exact IH].
  intros Hd. pose proof (api_u_sound rt E noop_leaf orders Ho Hn T fuel x) as H.
  unfold api_call in H. rewrite Hb in H. cbn [bind] in H. apply H. exact Hd.
Qed.

Lemma history_m_sound :
  (forall t ns, orders t = Some ns ->
     exists pre root, ns = pre ++ [root] /\ order_ok E false noop_leaf [] ns = true /\ norm (ntype root) = norm t) ->
  (forall s x, noop_leaf s = true -> leaf_m rt s x = Ok x) ->
  forall (T : ty) (r : routine), build_root E orders false T = Ok r ->
  forall (fuel : nat) (xs : list pv),
    Forall2 (fun x res => done res = true -> ev (fun m => mar rt E m T x) res)
            xs (run_history rt E orders false fuel r xs).
Proof.
  intros Ho Hn T r Hb fuel xs. unfold run_history.
  induction xs as [|x xs IH]; cbn [map]; constructor; [|exact IH].
  intros Hd. pose proof (api_m_sound rt E noop_leaf orders Ho Hn T fuel x) as H.
  unfold api_call in H. rewrite Hb in H. cbn [bind] in H. apply H. exact Hd.
Qed.

(* the result a history gives for an input does not depend on where in the history, or in which history, it occurs *)
Lemma history_position_independent (dir : bool) (fuel : nat) (r : routine) (xs ys : list pv) (i j : nat) (x : pv) :
  nth_error xs i = Some x -> nth_error ys j = Some x ->
  nth_error (run_history rt E orders dir fuel r xs) i = nth_error (run_history rt E orders dir fuel r ys) j.
Proof.
  intros Hx Hy. unfold run_history.
  rewrite (map_nth_error _ _ _ Hx), (map_nth_error _ _ _ Hy). reflexivity.
Qed.

End Hist.
