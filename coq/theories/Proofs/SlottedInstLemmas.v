(* Proofs about the instance-level model (Model/SlottedInst.v). *)
From Coq Require Import List String Bool Arith PeanoNat.
Import ListNotations.
Require Import TL.Model.Slotted TL.Model.SlottedState TL.Model.SlottedInst.
Require Import TL.Proofs.SlottedLemmas TL.Proofs.SlottedStateLemmas.

(* ---------------------------------------------------------------------------------- *)
(* A. views                                                                            *)
(* ---------------------------------------------------------------------------------- *)
Lemma vassoc_own_view : forall E a d,
  vassoc a (own_view E d) = match assoc a d with Some o => Some (kind_of E o) | None => None end.
Proof.
  intros E a d. induction d as [|[k o] r IH]; [reflexivity|].
  cbn [own_view map vassoc assoc fst snd]. destruct (String.eqb a k); [reflexivity|exact IH].
Qed.

Lemma lookup_view_of : forall E c a,
  lookup (view_of E c) a
  = match assoc a (c_dict c) with Some o => Some (kind_of E o) | None => lookup (e_bases E) a end.
Proof.
  intros E c a. unfold view_of. cbn [lookup]. rewrite vassoc_own_view.
  destruct (assoc a (c_dict c)); reflexivity.
Qed.

Lemma vassoc_some_key : forall a d k, vassoc a d = Some k -> mem a (map fst d) = true.
Proof.
  intros a d k. induction d as [|p r IH]; [discriminate|].
  cbn [vassoc map mem existsb]. destruct (String.eqb a (fst p)); [reflexivity|]. intros H. cbn [orb]. apply IH. exact H.
Qed.

Lemma lookup_some_key : forall V a k, lookup V a = Some k -> mem a (vkeys V) = true.
Proof.
  intros V a k. induction V as [|d r IH]; [discriminate|].
  unfold vkeys in *. cbn [lookup flat_map]. rewrite mem_app. destruct (vassoc a d) eqn:E.
  - intros _. rewrite (vassoc_some_key a d c E). reflexivity.
  - intros H. rewrite (IH H). apply orb_true_r.
Qed.

Lemma mem_member_names : forall V a, mem a (member_names V) = is_member V a.
Proof.
  intros V a. unfold member_names. rewrite mem_filter.
  destruct (is_member V a) eqn:E; [|apply andb_false_r]. rewrite andb_true_r.
  unfold is_member in E. destruct (lookup V a) as [k|] eqn:L; [|discriminate].
  apply (lookup_some_key V a k L).
Qed.

(* ---------------------------------------------------------------------------------- *)
(* B. the class dict of the result, entry by entry                                     *)
(* ---------------------------------------------------------------------------------- *)
Lemma has_key_map_descr : forall a l, has_key a (map descr l) = mem a l.
Proof.
  intros a l. induction l as [|x r IH]; [reflexivity|].
  cbn [map has_key existsb mem]. unfold descr at 1. cbn [fst]. fold (has_key a (map descr r)). rewrite IH. reflexivity.
Qed.

Section ResultDict.
Variable c : cls.
Variable d : dcinfo.
Hypothesis Hdc : c_dc c = Some d.
Hypothesis Hng : names_guard c = true.
Variable fl : flags.

Let names := all_names repaired fl c d.
Let slots := new_slots repaired fl c d.
Let d1 := set_key k_slots (OSlots slots) (c_dict c).
Let d3 := remove_key k_weakref (remove_key k_dict (remove_keys names d1)).
Let d4 := new_dict repaired fl c d.

Lemma d4_eq : d4 = if fix_applies c d then set_key k_setstate OSetstateFix d3 else d3.
Proof. reflexivity. Qed.

Lemma result_dict_eq : c_dict (result repaired fl c d) = d4 ++ map descr slots ++ doc_of d4.
Proof. reflexivity. Qed.

Lemma assoc_d3_other : forall a, mem a names = false -> is_extra a = false -> String.eqb a k_slots = false ->
  assoc a d3 = assoc a (c_dict c).
Proof.
  intros a Hn He Hs. destruct (is_extra_false a He) as [E1 E2]. unfold d3.
  rewrite assoc_remove_key by exact E2. rewrite assoc_remove_key by exact E1.
  rewrite assoc_remove_keys by exact Hn. unfold d1. apply assoc_set_key_other. exact Hs.
Qed.

Lemma has_key_d3_named : forall a, mem a names = true -> has_key a d3 = false.
Proof.
  intros a Hn. unfold d3, d1, names, slots. rewrite (has_key_d3 c d repaired fl a).
  fold names. rewrite Hn. cbn [negb]. rewrite andb_false_r. reflexivity.
Qed.

Lemma has_key_assoc : forall a (e : cdict), has_key a e = match assoc a e with Some _ => true | None => false end.
Proof.
  intros a e. destruct (assoc a e) eqn:E.
  - destruct (has_key a e) eqn:Hk; [reflexivity|]. apply assoc_none_has_key in Hk. congruence.
  - apply assoc_none_has_key. exact E.
Qed.

Lemma assoc_app : forall a (e1 e2 : cdict),
  assoc a (e1 ++ e2) = match assoc a e1 with Some o => Some o | None => assoc a e2 end.
Proof.
  intros a e1 e2. destruct (assoc a e1) eqn:E.
  - rewrite assoc_app_l; [exact E|]. rewrite has_key_assoc, E. reflexivity.
  - rewrite assoc_app_r; [reflexivity|]. apply assoc_none_has_key. exact E.
Qed.

Lemma assoc_tail_none : forall a, mem a slots = false -> String.eqb a k_doc = false ->
  assoc a (map descr slots ++ doc_of d4) = None.
Proof.
  intros a Hs Hd. rewrite assoc_app.
  assert (A : assoc a (map descr slots) = None) by (apply assoc_none_has_key; rewrite has_key_map_descr; exact Hs).
  rewrite A. unfold doc_of. destruct (has_key k_doc d4); [reflexivity|]. cbn [assoc fst]. rewrite Hd. reflexivity.
Qed.

(* a field whose slot is inherited: no entry at all in the new class (the default is gone, and
   no descriptor is made) *)
Lemma assoc_result_inherited_field : forall f, In f (fnames d) -> mem f slots = false ->
  assoc f (c_dict (result repaired fl c d)) = None.
Proof.
  intros f Hf Hs. rewrite result_dict_eq, assoc_app.
  pose proof (guard_not_reserved c d Hdc Hng f Hf) as Hr.
  assert (Hn : mem f names = true).
  { unfold names. rewrite (all_names_eq c d Hdc Hng), mem_app. apply mem_In in Hf. rewrite Hf. reflexivity. }
  assert (A3 : assoc f d3 = None) by (apply assoc_none_has_key; apply has_key_d3_named; exact Hn).
  assert (A4 : assoc f d4 = None).
  { rewrite d4_eq. destruct (fix_applies c d); [|exact A3].
    rewrite assoc_set_key_other; [exact A3|]. apply (reserved_neq f k_setstate Hr). reflexivity. }
  rewrite A4. apply assoc_tail_none; [exact Hs|]. apply (reserved_neq f k_doc Hr). reflexivity.
Qed.

(* every name that is not a field, __dict__, __weakref__, __slots__, __setstate__ or __doc__ *)
Lemma assoc_result_other : forall a, mem a (fnames d) = false -> is_extra a = false ->
  String.eqb a k_slots = false -> String.eqb a k_setstate = false -> String.eqb a k_doc = false ->
  assoc a (c_dict (result repaired fl c d)) = assoc a (c_dict c).
Proof.
  intros a Hf He Hs Hss Hd. rewrite result_dict_eq, assoc_app.
  pose proof (not_named c d Hdc Hng fl a Hf He) as Hn. fold names in Hn.
  assert (A4 : assoc a d4 = assoc a (c_dict c)).
  { rewrite d4_eq. destruct (fix_applies c d).
    - rewrite assoc_set_key_other by exact Hss. apply assoc_d3_other; assumption.
    - apply assoc_d3_other; assumption. }
  rewrite A4. destruct (assoc a (c_dict c)); [reflexivity|].
  apply assoc_tail_none; [|exact Hd].
  destruct (mem a slots) eqn:E; [|reflexivity]. apply mem_In in E.
  pose proof (slots_in_names c d repaired fl a E) as X. fold names in X. congruence.
Qed.

(* __setstate__ *)
Lemma assoc_result_setstate :
  assoc k_setstate (c_dict (result repaired fl c d))
  = if fix_applies c d then Some OSetstateFix else assoc k_setstate (c_dict c).
Proof.
  rewrite result_dict_eq, assoc_app.
  assert (Hn : mem k_setstate names = false) by (apply (names_no c d Hdc Hng repaired fl); reflexivity).
  assert (A3 : assoc k_setstate d3 = assoc k_setstate (c_dict c)) by (apply assoc_d3_other; [exact Hn|reflexivity|reflexivity]).
  assert (A4 : assoc k_setstate d4 = if fix_applies c d then Some OSetstateFix else assoc k_setstate (c_dict c)).
  { rewrite d4_eq. destruct (fix_applies c d); [apply assoc_set_key_same|exact A3]. }
  rewrite A4. destruct (fix_applies c d); [reflexivity|].
  destruct (assoc k_setstate (c_dict c)); [reflexivity|].
  apply assoc_tail_none; [|reflexivity].
  destruct (mem k_setstate slots) eqn:E; [|reflexivity]. apply mem_In in E.
  pose proof (slots_in_names c d repaired fl k_setstate E) as X. fold names in X. congruence.
Qed.

End ResultDict.

(* ---------------------------------------------------------------------------------- *)
(* C. storage: object.__setattr__ and sequences of assignments                         *)
(* ---------------------------------------------------------------------------------- *)
Definition settable (i : inst) (a : attr) : bool := mem a (i_slotnames i) || is_some (i_dict i).

(* the value held under a after the assignments l, given the value held before *)
Fixpoint wr (l : store) (a : attr) (s0 : option obj) : option obj :=
  match l with [] => s0 | p :: r => wr r a (if String.eqb a (fst p) then Some (snd p) else s0) end.

Lemma wr_some_init : forall l a s0, s0 <> None -> wr l a s0 <> None.
Proof.
  induction l as [|p r IH]; intros a s0 H; [exact H|]. cbn [wr]. apply IH.
  destruct (String.eqb a (fst p)); [discriminate|exact H].
Qed.

Lemma wr_some_key : forall l a s0, In a (keys l) -> wr l a s0 <> None.
Proof.
  induction l as [|p r IH]; intros a s0 H; [contradiction|]. cbn [wr]. cbn [keys map] in H. destruct H as [H|H].
  - subst a. rewrite seqb_refl. apply wr_some_init. discriminate.
  - apply IH. exact H.
Qed.

Lemma stored_setattr : forall i a v, settable i a = true ->
  exists j, obj_setattr i a v = SOk j /\ i_slotnames j = i_slotnames i /\ is_some (i_dict j) = is_some (i_dict i)
            /\ forall b, stored j b = if String.eqb b a then Some v else stored i b.
Proof.
  intros i a v H. unfold settable in H. unfold obj_setattr. destruct (mem a (i_slotnames i)) eqn:M.
  - eexists. split; [reflexivity|]. cbn [i_slotnames i_dict]. split; [reflexivity|]. split; [reflexivity|].
    intros b. unfold stored. cbn [i_slotnames i_slots i_dict]. destruct (String.eqb b a) eqn:Eb.
    + apply seqb_true in Eb. subst b. rewrite M. apply assoc_set_key_same.
    + destruct (mem b (i_slotnames i)); [|reflexivity]. apply assoc_set_key_other. exact Eb.
  - cbn [orb] in H. destruct (i_dict i) as [d0|] eqn:Ed; [|discriminate].
    eexists. split; [reflexivity|]. cbn [i_slotnames i_dict]. split; [reflexivity|]. split; [reflexivity|].
    intros b. unfold stored. cbn [i_slotnames i_slots i_dict]. rewrite Ed. destruct (String.eqb b a) eqn:Eb.
    + apply seqb_true in Eb. subst b. rewrite M. apply assoc_set_key_same.
    + destruct (mem b (i_slotnames i)); [reflexivity|]. apply assoc_set_key_other. exact Eb.
Qed.

Lemma setattr_unsettable : forall i a v, settable i a = false -> obj_setattr i a v = SRaise SAttribute.
Proof.
  intros i a v H. unfold settable in H. apply orb_false_iff in H. destruct H as [M D].
  unfold obj_setattr. rewrite M. destruct (i_dict i); [discriminate|reflexivity].
Qed.

Lemma settable_ext : forall i j a, i_slotnames j = i_slotnames i -> is_some (i_dict j) = is_some (i_dict i) ->
  settable j a = settable i a.
Proof. intros i j a H1 H2. unfold settable. rewrite H1, H2. reflexivity. Qed.

Lemma set_items_stored : forall l i, (forall a, In a (keys l) -> settable i a = true) ->
  exists j, set_items i l = SOk j /\ i_slotnames j = i_slotnames i /\ is_some (i_dict j) = is_some (i_dict i)
            /\ forall a, stored j a = wr l a (stored i a).
Proof.
  induction l as [|[k v] r IH]; intros i H.
  - exists i. repeat split; reflexivity.
  - destruct (stored_setattr i k v (H k (or_introl eq_refl))) as [i1 [S1 [N1 [D1 St1]]]].
    cbn [set_items]. rewrite S1.
    destruct (IH i1) as [j [Sj [Nj [Dj Stj]]]].
    { intros a Ha. rewrite (settable_ext i i1 a N1 D1). apply H. right. exact Ha. }
    exists j. split; [exact Sj|]. split; [congruence|]. split; [congruence|].
    intros a. rewrite Stj, St1. reflexivity.
Qed.

(* the first name that cannot be stored raises AttributeError *)
Lemma set_items_unsettable : forall l i a, In a (keys l) -> settable i a = false ->
  set_items i l = SRaise SAttribute.
Proof.
  induction l as [|[k v] r IH]; intros i a Ha Hs; [contradiction|].
  cbn [set_items]. destruct (settable i k) eqn:Sk.
  - destruct (stored_setattr i k v Sk) as [i1 [S1 [N1 [D1 _]]]]. rewrite S1.
    cbn [keys map fst] in Ha. destruct Ha as [Ha|Ha]; [subst k; congruence|].
    apply (IH i1 a Ha). rewrite (settable_ext i i1 a N1 D1). exact Hs.
  - rewrite (setattr_unsettable i k v Sk). reflexivity.
Qed.

(* well-formedness is kept *)
Lemma has_key_keys : forall a (s : store), has_key a s = mem a (keys s).
Proof.
  intros a s. induction s as [|p r IH]; [reflexivity|].
  cbn [has_key existsb keys map mem]. fold (has_key a r). fold (keys r). rewrite IH. reflexivity.
Qed.

Lemma keys_set_key : forall k v (s : store), keys (set_key k v s) = if has_key k s then keys s else keys s ++ [k].
Proof.
  intros k v s. unfold set_key. destruct (has_key k s).
  - unfold keys. rewrite map_map. symmetry. apply map_ext. intros p. destruct (String.eqb k (fst p)); reflexivity.
  - unfold keys. rewrite map_app. reflexivity.
Qed.

Lemma nodupb_snoc : forall l k, nodupb (l ++ [k]) = nodupb l && negb (mem k l).
Proof.
  induction l as [|x r IH]; intros k; [reflexivity|].
  cbn [app nodupb]. rewrite IH, mem_app, (mem_cons k x r), (mem_cons x k []), (String.eqb_sym k x).
  cbn [mem existsb]. rewrite orb_false_r.
  generalize (mem x r) (String.eqb x k) (nodupb r) (mem k r). intros [|] [|] [|] [|]; reflexivity.
Qed.

Lemma forallb_snoc : forall {A} (f : A -> bool) l k, forallb f (l ++ [k]) = forallb f l && f k.
Proof. intros A f l k. rewrite forallb_app. cbn [forallb]. rewrite andb_true_r. reflexivity. Qed.

Lemma setattr_wf : forall i a v j, wf_inst i = true -> obj_setattr i a v = SOk j -> wf_inst j = true.
Proof.
  intros i a v j Hwf H. unfold wf_inst in *. apply andb_true_iff in Hwf. destruct Hwf as [Hwf Hd].
  apply andb_true_iff in Hwf. destruct Hwf as [Hs1 Hs2].
  unfold obj_setattr in H. destruct (mem a (i_slotnames i)) eqn:M.
  - inversion H. subst j. cbn [i_slotnames i_slots i_dict]. rewrite Hd, andb_true_r.
    rewrite keys_set_key. destruct (has_key a (i_slots i)) eqn:Hk.
    + rewrite Hs1, Hs2. reflexivity.
    + rewrite forallb_snoc, nodupb_snoc, Hs1, Hs2, M. rewrite has_key_keys in Hk. rewrite Hk. reflexivity.
  - destruct (i_dict i) as [d0|] eqn:Ed; [|discriminate]. inversion H. subst j.
    cbn [i_slotnames i_slots i_dict]. rewrite Hs1, Hs2. cbn [andb].
    apply andb_true_iff in Hd. destruct Hd as [Hd1 Hd2]. rewrite keys_set_key. destruct (has_key a d0) eqn:Hk.
    + rewrite Hd1, Hd2. reflexivity.
    + rewrite forallb_snoc, nodupb_snoc, Hd1, Hd2, M. rewrite has_key_keys in Hk. rewrite Hk. reflexivity.
Qed.

Lemma set_items_wf : forall l i j, wf_inst i = true -> set_items i l = SOk j -> wf_inst j = true.
Proof.
  induction l as [|[k v] r IH]; intros i j Hwf H.
  - inversion H. subst j. exact Hwf.
  - cbn [set_items] in H. destruct (obj_setattr i k v) as [i1|e] eqn:S1; [|discriminate].
    apply (IH i1 j); [|exact H]. apply (setattr_wf i k v i1 Hwf S1).
Qed.

Lemma wf_blank : forall K, wf_inst (blank_of K) = true.
Proof. intros K. unfold wf_inst, blank_of. cbn [i_slots i_dict keys map forallb nodupb andb]. destruct (kl_dict K); reflexivity. Qed.

Lemma stored_blank : forall K a, stored (blank_of K) a = None.
Proof.
  intros K a. unfold stored, blank_of. cbn [i_slotnames i_slots i_dict assoc].
  destruct (mem a (member_names (kl_view K))); [reflexivity|]. destruct (kl_dict K); reflexivity.
Qed.

(* ---------------------------------------------------------------------------------- *)
(* D. binding                                                                          *)
(* ---------------------------------------------------------------------------------- *)
Lemma bind_keys : forall D fs pos kw l, bind D fs pos kw = Some l -> keys l = map f_name fs.
Proof.
  intros D fs. induction fs as [|f r IH]; intros pos kw l H.
  - cbn [bind] in H. destruct pos; [|discriminate]. inversion H. reflexivity.
  - cbn [bind] in H. destruct pos as [|v pos'].
    + match type of H with match ?x with _ => _ end = _ => destruct x as [v|]; [|discriminate] end.
      destruct (bind D r [] kw) as [l'|] eqn:B; [|discriminate]. inversion H. subst l.
      cbn [keys map fst]. f_equal. apply (IH [] kw l' B).
    + destruct (has_key (f_name f) kw); [discriminate|].
      destruct (bind D r pos' kw) as [l'|] eqn:B; [|discriminate]. inversion H. subst l.
      cbn [keys map fst]. f_equal. apply (IH pos' kw l' B).
Qed.

Lemma bind_args_keys : forall D fs pos kw l, bind_args D fs pos kw = Some l -> keys l = map f_name fs.
Proof.
  intros D fs pos kw l H. unfold bind_args in H.
  destruct (forallb (fun k => mem k (map f_name fs)) (keys kw) && nodupb (keys kw)); [|discriminate].
  apply (bind_keys D fs pos kw l H).
Qed.


(* ---------------------------------------------------------------------------------- *)
(* D2. reading                                                                         *)
(* ---------------------------------------------------------------------------------- *)
Lemma ogetattr_stored : forall V i a v, stored i a = Some v -> ogetattr V i a = GVal v.
Proof. intros V i a v H. unfold ogetattr. rewrite H. reflexivity. Qed.

Lemma field_vals_sim : forall VC VS iC iS names, sim iC iS -> (forall a, In a names -> stored iS a <> None) ->
  field_vals VS iS names = field_vals VC iC names.
Proof.
  intros VC VS iC iS names Hsim. induction names as [|a r IH]; intros Hset; [reflexivity|].
  cbn [field_vals]. destruct (stored iS a) as [v|] eqn:Sa; [|exfalso; apply (Hset a (or_introl eq_refl)); exact Sa].
  rewrite (ogetattr_stored VS iS a v Sa). rewrite <- (Hsim a) in Sa. rewrite (ogetattr_stored VC iC a v Sa).
  rewrite IH; [reflexivity|]. intros b Hb. apply Hset. right. exact Hb.
Qed.

Lemma forallb_mem_incl : forall l k, forallb (fun a => mem a k) l = true -> forall a, In a l -> In a k.
Proof. intros l k H a Ha. rewrite forallb_forall in H. apply mem_In. apply H. exact Ha. Qed.

(* ---------------------------------------------------------------------------------- *)
(* E. the slotted class against the original: lookups, construction                     *)
(* ---------------------------------------------------------------------------------- *)
Section Twin.
Variable E : cenv.
Variable fl : flags.
Variables st st' : stack.
Variables c n : cls.
Variable d : dcinfo.
Hypothesis Hg : c19_guard c = true.
Hypothesis Hdc : c_dc c = Some d.
Hypothesis W : wrap repaired fl st c = (st', Ok n).

Let Hng := c19_guard_names c Hg.
Let Hn : n = result repaired fl c d := wrap_result fl st st' c n d Hng Hdc W.
Let VC := view_of E c.
Let VS := view_of E n.
Let KC := klass_of E c false.
Let KS := klass_of E n true.

Lemma new_slots_field : forall f, In f (fnames d) ->
  mem f (new_slots repaired fl c d) = negb (mem f (inherited_slots (c_mro c))).
Proof.
  intros f Hf. rewrite (slots_exact fl c d Hdc Hg), mem_app, mem_filter.
  apply mem_In in Hf. rewrite Hf. cbn [andb]. unfold not_inherited.
  destruct (mem f (extras_for fl c)) eqn:Ex; [|apply orb_false_r].
  apply mem_In in Ex. apply In_extras_for in Ex. destruct Ex as [Ex _].
  apply mem_In in Hf. rewrite (fnames_not_extra c d Hdc Hng f Hf) in Ex. discriminate.
Qed.

Lemma lookup_S_new : forall f, In f (fnames d) -> mem f (inherited_slots (c_mro c)) = false ->
  lookup VS f = Some CMember.
Proof.
  intros f Hf Hi. unfold VS. rewrite lookup_view_of, Hn.
  rewrite (field_is_member c d Hdc Hng fl f Hf); [reflexivity|].
  apply mem_In. rewrite (new_slots_field f Hf), Hi. reflexivity.
Qed.

Lemma lookup_S_inherited : forall f, In f (fnames d) -> mem f (inherited_slots (c_mro c)) = true ->
  lookup VS f = lookup (e_bases E) f.
Proof.
  intros f Hf Hi. unfold VS. rewrite lookup_view_of, Hn.
  rewrite (assoc_result_inherited_field c d Hdc Hng fl f Hf); [reflexivity|].
  rewrite (new_slots_field f Hf), Hi. reflexivity.
Qed.

Lemma lookup_S_other : forall a, mem a (fnames d) = false -> is_extra a = false ->
  String.eqb a k_slots = false -> String.eqb a k_setstate = false -> String.eqb a k_doc = false ->
  lookup VS a = lookup VC a.
Proof.
  intros a H1 H2 H3 H4 H5. unfold VS, VC. rewrite !lookup_view_of, Hn.
  rewrite (assoc_result_other c d Hdc Hng fl a H1 H2 H3 H4 H5). reflexivity.
Qed.

Lemma lookup_S_reserved : forall a, mem a reserved = true -> is_extra a = false ->
  String.eqb a k_slots = false -> String.eqb a k_setstate = false -> String.eqb a k_doc = false ->
  lookup VS a = lookup VC a.
Proof. intros a Hr. apply lookup_S_other. apply (fnames_no c d Hdc Hng a Hr). Qed.

Lemma kl_dict_C : kl_dict KC = true.
Proof.
  unfold KC, klass_of. cbn [kl_dict]. unfold full_mro. rewrite layout_cons. unfold provides. cbn [own_sum s_slots].
  rewrite (c19_guard_own c Hg). reflexivity.
Qed.

Lemma kl_dict_S : kl_dict KS = dict_after fl c.
Proof. unfold KS, klass_of. cbn [kl_dict]. apply (st_no_dict fl st st' c n d Hg Hdc W). Qed.

Lemma settable_blank : forall K a, settable (blank_of K) a = is_member (kl_view K) a || kl_dict K.
Proof.
  intros K a. unfold settable, blank_of. cbn [i_slotnames i_dict]. rewrite mem_member_names.
  destruct (kl_dict K); reflexivity.
Qed.

Lemma field_settable_S : forall post f, construct_guard E fl c d post = true -> In f (fnames d) ->
  settable (blank_of KS) f = true.
Proof.
  intros post f G Hf. rewrite settable_blank, kl_dict_S. unfold KS, klass_of. cbn [kl_view]. fold VS.
  unfold construct_guard in G. apply andb_true_iff in G. destruct G as [G _].
  rewrite forallb_forall in G. specialize (G f Hf).
  destruct (dict_after fl c); [apply orb_true_r|]. rewrite !orb_false_r in *.
  unfold is_member. destruct (mem f (inherited_slots (c_mro c))) eqn:Hi.
  - rewrite (lookup_S_inherited f Hf Hi). cbn [negb orb] in G. exact G.
  - rewrite (lookup_S_new f Hf Hi). reflexivity.
Qed.

Lemma post_settable_S : forall post a, construct_guard E fl c d post = true -> In a (keys post) ->
  settable (blank_of KS) a = true.
Proof.
  intros post a G Ha. rewrite settable_blank, kl_dict_S.
  unfold construct_guard in G. apply andb_true_iff in G. destruct G as [_ G].
  destruct (dict_after fl c); [apply orb_true_r|]. cbn [orb] in G. destruct post; [contradiction|discriminate].
Qed.

Definition inst_okb (K : klass) (i : inst) : Prop :=
  i_slotnames i = member_names (kl_view K) /\ wf_inst i = true /\ is_some (i_dict i) = kl_dict K.

Lemma inst_okb_inst_of : forall K i, inst_okb K i -> inst_of K i.
Proof.
  intros K i [H1 [H2 H3]]. split; [exact H1|]. split; [exact H2|].
  destruct (i_dict i); cbn [is_some] in H3; symmetry; exact H3.
Qed.

Lemma blank_is_some : forall K, is_some (i_dict (blank_of K)) = kl_dict K.
Proof. intros K. unfold blank_of. cbn [i_dict]. destruct (kl_dict K); reflexivity. Qed.

(* running the same assignments on a blank instance of each class *)
Lemma fill_sim : forall l,
  (forall a, In a (keys l) -> settable (blank_of KS) a = true) ->
  exists iC iS, set_items (blank_of KC) l = SOk iC /\ set_items (blank_of KS) l = SOk iS
    /\ sim iC iS /\ inst_of KC iC /\ inst_of KS iS /\ (forall a, In a (keys l) -> stored iS a <> None).
Proof.
  intros l HS.
  destruct (set_items_stored l (blank_of KC)) as [iC [SC [NC [DC StC]]]].
  { intros a _. rewrite settable_blank, kl_dict_C. apply orb_true_r. }
  destruct (set_items_stored l (blank_of KS) HS) as [iS [SS [NS [DS StS]]]].
  exists iC, iS. split; [exact SC|]. split; [exact SS|]. split; [|split; [|split]].
  - intros a. rewrite StC, StS, !stored_blank. reflexivity.
  - apply inst_okb_inst_of. split; [exact NC|]. split; [apply (set_items_wf l _ iC (wf_blank KC) SC)|].
    rewrite DC. apply blank_is_some.
  - apply inst_okb_inst_of. split; [exact NS|]. split; [apply (set_items_wf l _ iS (wf_blank KS) SS)|].
    rewrite DS. apply blank_is_some.
  - intros a Ha. rewrite StS. apply wr_some_key. exact Ha.
Qed.

(* construction: the same outcome, and field-wise (indeed name-wise) equal instances *)
Lemma construct_twin : forall D post pos kw, construct_guard E fl c d post = true ->
  match construct KC d D post pos kw, construct KS d D post pos kw with
  | SOk iC, SOk iS => sim iC iS /\ all_set iS (fnames d) /\ inst_of KC iC /\ inst_of KS iS
  | SRaise e1, SRaise e2 => e1 = e2
  | _, _ => False
  end.
Proof.
  intros D post pos kw G. unfold construct.
  replace (kl_view KS) with VS by reflexivity. replace (kl_view KC) with VC by reflexivity.
  rewrite (lookup_S_reserved k_init eq_refl eq_refl eq_refl eq_refl eq_refl).
  destruct (lookup VC k_init) as [[| |v|names| |k]|]; try reflexivity.
  destruct (names_eqb names (fnames d)); [|reflexivity].
  destruct (bind_args D (d_fields d) pos kw) as [vals|] eqn:B; [|reflexivity].
  pose proof (bind_args_keys D (d_fields d) pos kw vals B) as Kv. fold (fnames d) in Kv.
  destruct (fill_sim (vals ++ post)) as [iC [iS [SC [SS [Hsim [HC [HS Hset]]]]]]].
  { intros a Ha. unfold keys in Ha. rewrite map_app in Ha. apply in_app_or in Ha. destruct Ha as [Ha|Ha].
    - apply (field_settable_S post a G). fold (keys vals) in Ha. rewrite Kv in Ha. exact Ha.
    - apply (post_settable_S post a G Ha). }
  rewrite SC, SS. split; [exact Hsim|]. split; [|split; assumption].
  intros a Ha. apply Hset. unfold keys. rewrite map_app. apply in_or_app. left. fold (keys vals). rewrite Kv. exact Ha.
Qed.

(* no per-instance __dict__ unless requested or inherited *)
Lemma construct_no_dict : forall D post pos kw iS, construct KS d D post pos kw = SOk iS ->
  (i_dict iS = None <-> fl_dict fl || layout_has k_dict (c_mro c) = false).
Proof.
  intros D post pos kw iS H. unfold construct in H.
  destruct (lookup (kl_view KS) k_init) as [[| |v|names| |k]|]; try discriminate.
  destruct (names_eqb names (fnames d)); [|discriminate].
  destruct (bind_args D (d_fields d) pos kw) as [vals|]; [|discriminate].
  assert (Hd : is_some (i_dict iS) = dict_after fl c).
  { destruct (kl_dict KS) eqn:Kd.
    - destruct (set_items_stored (vals ++ post) (blank_of KS)) as [j [Sj [_ [Dj _]]]].
      { intros a _. rewrite settable_blank, Kd. apply orb_true_r. }
      rewrite Sj in H. inversion H. subst j. rewrite Dj, blank_is_some, Kd. symmetry. rewrite <- kl_dict_S. exact Kd.
    - rewrite <- kl_dict_S, Kd.
      assert (forall l i j, i_dict i = None -> set_items i l = SOk j -> i_dict j = None) as Hnone.
      { induction l as [|[k v] r IH]; intros i j Hi Hs.
        - inversion Hs. subst j. exact Hi.
        - cbn [set_items] in Hs. destruct (obj_setattr i k v) as [i1|e] eqn:S1; [|discriminate].
          apply (IH i1 j); [|exact Hs]. unfold obj_setattr in S1. destruct (mem k (i_slotnames i)).
          + inversion S1. cbn [i_dict]. exact Hi.
          + rewrite Hi in S1. discriminate. }
      rewrite (Hnone (vals ++ post) (blank_of KS) iS); [reflexivity| |exact H].
      unfold blank_of. cbn [i_dict]. rewrite Kd. reflexivity. }
  unfold dict_after in Hd. rewrite <- Hd. destruct (i_dict iS); cbn [is_some]; split; intros X; try reflexivity; discriminate.
Qed.


(* ---- the generated methods -------------------------------------------------------- *)
Lemma special_not_field : forall m, methods_guard E c d = true -> In m specials -> mem m (fnames d) = false.
Proof.
  intros m G Hm. unfold methods_guard in G. apply andb_true_iff in G. destruct G as [G _].
  destruct (mem m (fnames d)) eqn:X; [|reflexivity]. apply mem_In in X.
  rewrite forallb_forall in G. specialize (G m X). apply negb_true_iff in G. apply mem_In in Hm. congruence.
Qed.

Lemma lookup_S_special : forall m, methods_guard E c d = true -> In m specials -> lookup VS m = lookup VC m.
Proof.
  intros m G Hm. pose proof (special_not_field m G Hm) as Hf.
  cbn [specials In] in Hm.
  destruct Hm as [X|[X|[X|[X|[X|[]]]]]]; subst m; apply lookup_S_other; try exact Hf; reflexivity.
Qed.

Lemma special_names : forall m l, methods_guard E c d = true -> In m specials -> lookup VC m = Some (CGen l) ->
  forall a, In a l -> In a (fnames d).
Proof.
  intros m l G Hm L. unfold methods_guard in G. apply andb_true_iff in G. destruct G as [_ G].
  rewrite forallb_forall in G. specialize (G m Hm). fold VC in G. rewrite L in G.
  apply (forallb_mem_incl l (fnames d) G).
Qed.

Lemma qualname_S : kl_qualname KS = kl_qualname KC.
Proof. unfold KS, KC, klass_of. cbn [kl_qualname]. rewrite Hn. reflexivity. Qed.

Lemma methods_twin : forall O iC iS jC jS, methods_guard E c d = true ->
  sim iC iS -> sim jC jS -> all_set iS (fnames d) -> all_set jS (fnames d) ->
  dc_eq O KS iS jS = dc_eq O KC iC jC /\ dc_lt O KS iS jS = dc_lt O KC iC jC
  /\ dc_hash KS iS = dc_hash KC iC /\ dc_repr KS iS = dc_repr KC iC.
Proof.
  intros O iC iS jC jS G Si Sj Ai Aj.
  assert (FV : forall m l i' i'', In m specials -> lookup VC m = Some (CGen l) -> sim i' i'' -> all_set i'' (fnames d) ->
               field_vals VS i'' l = field_vals VC i' l).
  { intros m l i' i'' Hm L Hs Ha. apply field_vals_sim; [exact Hs|].
    intros a Hal. apply Ha. apply (special_names m l G Hm L a Hal). }
  unfold dc_eq, dc_lt, dc_hash, dc_repr.
  replace (kl_view KS) with VS by reflexivity. replace (kl_view KC) with VC by reflexivity.
  rewrite qualname_S.
  rewrite (lookup_S_special k_eq G), (lookup_S_special k_lt G), (lookup_S_special k_hash G), (lookup_S_special k_repr G);
    try (cbn [specials In]; tauto).
  split; [|split; [|split]].
  - destruct (lookup VC k_eq) as [[| |v|l| |k]|] eqn:L; try reflexivity.
    rewrite (FV k_eq l iC iS), (FV k_eq l jC jS); try assumption; try reflexivity; cbn [specials In]; tauto.
  - destruct (lookup VC k_lt) as [[| |v|l| |k]|] eqn:L; try reflexivity.
    rewrite (FV k_lt l iC iS), (FV k_lt l jC jS); try assumption; try reflexivity; cbn [specials In]; tauto.
  - destruct (lookup VC k_hash) as [[| |v|l| |k]|] eqn:L; try reflexivity.
    rewrite (FV k_hash l iC iS); try assumption; try reflexivity; cbn [specials In]; tauto.
  - destruct (lookup VC k_repr) as [[| |v|l| |k]|] eqn:L; try reflexivity.
    rewrite (FV k_repr l iC iS); try assumption; try reflexivity; cbn [specials In]; tauto.
Qed.

(* frozen-ness: assigning to a field name the generated __setattr__ knows behaves alike (FrozenInstanceError) *)
Lemma setattr_field_twin : forall iC iS f v names, methods_guard E c d = true ->
  lookup VC k_setattr = Some (CGen names) -> In f names ->
  py_setattr KS iS f v = py_setattr KC iC f v.
Proof.
  intros iC iS f v names G L Hin. assert (Hsp : In k_setattr specials) by (cbn [specials In]; tauto).
  pose proof (lookup_S_special k_setattr G Hsp) as LS. rewrite L in LS.
  assert (Own : vassoc k_setattr (own_view E (c_dict n)) = vassoc k_setattr (own_view E (c_dict c))).
  { rewrite !vassoc_own_view, Hn.
    rewrite (assoc_result_other c d Hdc Hng fl k_setattr (special_not_field k_setattr G Hsp)); reflexivity. }
  apply mem_In in Hin.
  unfold py_setattr. replace (kl_view KS) with VS by reflexivity. replace (kl_view KC) with VC by reflexivity.
  rewrite LS, L. unfold VS, VC, view_of. cbn [hd]. rewrite Own, Hin. reflexivity.
Qed.

End Twin.

(* ---------------------------------------------------------------------------------- *)
(* F. the state protocol on a plainly laid out class                                    *)
(* ---------------------------------------------------------------------------------- *)
Lemma fold_setkv_fresh : forall (l s0 : store), (forall k, In k (keys l) -> has_key k s0 = false) ->
  nodupb (keys l) = true -> fold_left setkv l s0 = s0 ++ l.
Proof.
  induction l as [|[k v] r IH]; intros s0 Hf Hn; [symmetry; apply app_nil_r|].
  cbn [keys map fst nodupb] in Hn. apply andb_true_iff in Hn. destruct Hn as [Hk Hr]. apply negb_true_iff in Hk.
  cbn [fold_left]. unfold setkv at 2. cbn [fst snd]. unfold set_key. rewrite (Hf k (or_introl eq_refl)).
  rewrite IH; [rewrite <- app_assoc; reflexivity| |exact Hr].
  intros k' Hk'. rewrite has_key_app, (Hf k' (or_intror Hk')). cbn [has_key existsb fst orb].
  rewrite orb_false_r. destruct (String.eqb k' k) eqn:X; [|reflexivity].
  apply seqb_true in X. subst k'. apply mem_In in Hk'. unfold keys in *. congruence.
Qed.

Lemma fold_setkv_nil : forall l : store, nodupb (keys l) = true -> fold_left setkv l [] = l.
Proof. intros l H. apply (fold_setkv_fresh l []); [reflexivity|exact H]. Qed.

Lemma keys_map_store : forall f s, keys (map_store f s) = keys s.
Proof. intros f s. unfold keys, map_store. rewrite map_map. reflexivity. Qed.

Lemma assoc_map_store : forall f a s, assoc a (map_store f s) = omap f (assoc a s).
Proof.
  intros f a s. induction s as [|[k v] r IH]; [reflexivity|].
  cbn [map_store map assoc fst snd]. destruct (String.eqb a k); [reflexivity|exact IH].
Qed.

Lemma flat_map_ext_in : forall {A B} (f g : A -> list B) l, (forall x, In x l -> f x = g x) -> flat_map f l = flat_map g l.
Proof.
  intros A B f g l H. induction l as [|x r IH]; [reflexivity|].
  cbn [flat_map]. rewrite (H x (or_introl eq_refl)), IH; [reflexivity|]. intros y Hy. apply H. right. exact Hy.
Qed.

Definition pick (g : attr -> option obj) (l : list attr) : store :=
  flat_map (fun a => match g a with Some v => [(a, v)] | None => [] end) l.

Lemma keys_pick : forall g l, keys (pick g l) = filter (fun a => is_some (g a)) l.
Proof.
  intros g l. induction l as [|x r IH]; [reflexivity|].
  unfold pick in *. cbn [flat_map filter]. unfold keys in *. rewrite map_app, IH.
  destruct (g x); reflexivity.
Qed.

Lemma nodupb_filter : forall (p : attr -> bool) l, nodupb l = true -> nodupb (filter p l) = true.
Proof.
  intros p l. induction l as [|x r IH]; intros H; [reflexivity|].
  cbn [nodupb] in H. apply andb_true_iff in H. destruct H as [Hx Hr]. cbn [filter].
  destruct (p x); [|apply IH; exact Hr]. cbn [nodupb]. rewrite (IH Hr), andb_true_r.
  rewrite mem_filter. apply negb_true_iff in Hx. rewrite Hx. reflexivity.
Qed.

Lemma assoc_pick : forall g l a, assoc a (pick g l) = if mem a l then g a else None.
Proof.
  intros g l a. induction l as [|x r IH]; [reflexivity|].
  unfold pick in *. cbn [flat_map]. rewrite mem_cons. destruct (g x) as [v|] eqn:Gx.
  - cbn [app assoc fst snd]. destruct (String.eqb a x) eqn:Ex.
    + apply seqb_true in Ex. subst x. rewrite Gx. reflexivity.
    + exact IH.
  - cbn [app]. rewrite IH. destruct (String.eqb a x) eqn:Ex; [|reflexivity].
    apply seqb_true in Ex. subst x. rewrite Gx. destruct (mem a r); reflexivity.
Qed.

Lemma mem_dedup : forall a l, mem a (dedup l) = mem a l.
Proof.
  intros a l. induction l as [|x r IH]; [reflexivity|].
  cbn [dedup]. rewrite !mem_cons, mem_filter, IH. destruct (String.eqb a x) eqn:Ex; [reflexivity|].
  cbn [orb]. rewrite String.eqb_sym, Ex. apply andb_true_r.
Qed.

Lemma nodupb_dedup_all : forall l, nodupb (dedup l) = true.
Proof.
  induction l as [|x r IH]; [reflexivity|]. cbn [dedup nodupb].
  rewrite mem_filter, seqb_refl. cbn [negb]. rewrite andb_false_r. cbn [negb andb].
  apply nodupb_filter. exact IH.
Qed.

Lemma py_set_items_obj : forall K l i, lookup (kl_view K) k_setattr = None -> py_set_items K i l = set_items i l.
Proof.
  intros K l. induction l as [|[k v] r IH]; intros i Hl; [reflexivity|].
  cbn [py_set_items set_items]. unfold py_setattr. rewrite Hl. destruct (obj_setattr i k v); [apply IH; exact Hl|reflexivity].
Qed.

Section Plain.
Variable U : Type.
Variable H : hooks U.
Variable K : klass.
Variable f : obj -> obj.
Let V := kl_view K.
Hypothesis Hget : lookup V k_getstate = None.
Hypothesis Hset : lookup V k_setstate = Some CFix \/ (lookup V k_setstate = None /\ lookup V k_setattr = None).
Hypothesis Hreg1 : forall a, In a (kl_regnames K) -> is_member V a = true.
Hypothesis Hreg2 : forall a, is_member V a = true -> mem a (kl_regnames K) = true.
Hypothesis Hnd : nodupb (kl_regnames K) = true.

Lemma roundtrip_plain : forall i, inst_of K i ->
  exists j, roundtrip H K f i = SOk j /\ inst_of K j /\ forall a, stored j a = omap f (stored i a).
Proof.
  intros i [Hsn [Hwf Hdict]].
  assert (Hmem : forall a, mem a (i_slotnames i) = is_member V a) by (intros a; rewrite Hsn; apply mem_member_names).
  unfold wf_inst in Hwf. apply andb_true_iff in Hwf. destruct Hwf as [Hwf Hwd].
  apply andb_true_iff in Hwf. destruct Hwf as [Hs1 Hs2]. rewrite forallb_forall in Hs1.
  set (b := blank_of K).
  assert (Hbn : i_slotnames b = i_slotnames i) by (unfold b, blank_of; cbn [i_slotnames]; symmetry; exact Hsn).
  (* the slot part of the state *)
  set (sp := pick (fun a => assoc a (i_slots i)) (kl_regnames K)).
  assert (SP : slot_part K i = sp).
  { unfold slot_part, sp, pick. apply flat_map_ext_in. intros a Ha.
    unfold ogetattr, stored. fold V. rewrite Hmem, (Hreg1 a Ha). destruct (assoc a (i_slots i)); reflexivity. }
  assert (Asp : forall a, assoc a sp = assoc a (i_slots i)).
  { intros a. unfold sp. rewrite assoc_pick. destruct (mem a (kl_regnames K)) eqn:M; [reflexivity|].
    destruct (assoc a (i_slots i)) as [v|] eqn:A; [|reflexivity]. exfalso.
    assert (Hk : In a (keys (i_slots i))).
    { apply mem_In. rewrite <- has_key_keys, has_key_assoc, A. reflexivity. }
    specialize (Hs1 a Hk). rewrite Hmem in Hs1. rewrite (Hreg2 a Hs1) in M. discriminate. }
  assert (Ksp : forall k, In k (keys sp) -> mem k (i_slotnames b) = true).
  { intros k Hk. unfold sp in Hk. rewrite keys_pick in Hk. apply filter_In in Hk. destruct Hk as [Hk _].
    rewrite Hbn, Hmem. apply Hreg1. exact Hk. }
  assert (Nsp : nodupb (keys sp) = true) by (unfold sp; rewrite keys_pick; apply nodupb_filter; exact Hnd).
  set (sp' := map_store f sp).
  assert (Ksp' : keys sp' = keys sp) by apply keys_map_store.
  (* the dict part *)
  assert (DP : forall dd, dict_part i = Some dd ->
             i_dict i = Some dd /\ dd <> [] /\ i_dict b = Some []
             /\ (forall k, In k (keys (map_store f dd)) -> mem k (i_slotnames b) = false)
             /\ nodupb (keys dd) = true).
  { intros dd Hdp. destruct (dict_part_some i dd Hdp) as [Hid Hne]. rewrite Hid in Hwd, Hdict.
    apply andb_true_iff in Hwd. destruct Hwd as [Hd1 Hd2]. rewrite forallb_forall in Hd1.
    split; [exact Hid|]. split; [exact Hne|]. split; [unfold b, blank_of; cbn [i_dict]; rewrite Hdict; reflexivity|].
    split; [|exact Hd2]. intros k Hk. rewrite keys_map_store in Hk. rewrite Hbn. apply negb_true_iff. apply Hd1. exact Hk. }
  (* the instance that comes back *)
  set (R := {| i_slotnames := i_slotnames b; i_slots := sp';
               i_dict := match dict_part i with Some dd => Some (map_store f dd) | None => i_dict b end |}).
  assert (RB : rebuild H K (map_rstate H f (RDefault' (getstate_default K i))) = SOk R).
  { unfold getstate_default. rewrite SP. cbn [map_rstate]. destruct sp as [|x s] eqn:Esp.
    - (* no slot holds a value *)
      destruct (dict_part i) as [dd|] eqn:Edp.
      + destruct (DP dd eq_refl) as [Hid [Hne [Hbd [Hkd Hnd2]]]].
        cbn [map_pstate rebuild]. fold b. fold V.
        assert (FN : fold_left setkv (map_store f dd) [] = map_store f dd)
          by (apply fold_setkv_nil; rewrite keys_map_store; exact Hnd2).
        assert (X : set_items b (map_store f dd) = SOk R).
        { rewrite (set_items_dict (map_store f dd) b [] Hbd Hkd). rewrite FN. reflexivity. }
        destruct Hset as [Hs|[Hs _]]; rewrite Hs.
        * cbn [slots_setstate]. exact X.
        * cbn [default_setstate]. unfold dict_update. rewrite Hbd. unfold upd_store.
          change (fold_left (fun s p => set_key (fst p) (snd p) s) (map_store f dd) []) with (fold_left setkv (map_store f dd) []).
          rewrite FN. reflexivity.
      + cbn [map_pstate rebuild]. fold b. reflexivity.
    - (* a pair *)
      set (s0 := x :: s) in *.
      assert (Hne' : exists y t, sp' = y :: t).
      { unfold sp', s0. destruct x as [k0 v0]. eexists. eexists. reflexivity. }
      destruct Hne' as [y [t Hyt]].
      assert (Hks : forall k, In k (keys sp') -> mem k (i_slotnames b) = true).
      { intros k Hk. rewrite Ksp' in Hk. apply Ksp. exact Hk. }
      assert (Hns : nodupb (keys sp') = true) by (rewrite Ksp'; exact Nsp).
      assert (FS : fold_left setkv sp' [] = sp') by (apply fold_setkv_nil; exact Hns).
      unfold s0. cbn [map_pstate map]. fold s0. fold (map_store f s0). fold sp'.
      destruct (dict_part i) as [dd|] eqn:Edp.
      + destruct (DP dd eq_refl) as [Hid [Hne [Hbd [Hkd Hnd2]]]].
        assert (Hdne : exists z u, map_store f dd = z :: u).
        { destruct dd as [|[k0 v0] u]; [contradiction|]. eexists. eexists. reflexivity. }
        destruct Hdne as [z [u Hzu]].
        assert (FN : fold_left setkv (map_store f dd) [] = map_store f dd)
          by (apply fold_setkv_nil; rewrite keys_map_store; exact Hnd2).
        set (j1 := {| i_slotnames := i_slotnames b; i_slots := i_slots b; i_dict := Some (map_store f dd) |}).
        assert (X1 : set_items b (map_store f dd) = SOk j1).
        { rewrite (set_items_dict (map_store f dd) b [] Hbd Hkd). rewrite FN. reflexivity. }
        assert (X2 : set_items j1 sp' = SOk R).
        { rewrite set_items_slots; [|exact Hks]. unfold j1. cbn [i_slotnames i_slots i_dict].
          change (i_slots b) with (@nil (attr * obj)). rewrite FS. reflexivity. }
        unfold rebuild. fold b. fold V. destruct Hset as [Hs|[Hs Ha]]; rewrite Hs.
        * cbn [slots_setstate set_parts]. rewrite Hzu. cbn [set_parts]. rewrite <- Hzu, X1.
          rewrite Hyt. cbn [set_parts]. rewrite <- Hyt, X2. reflexivity.
        * cbn [default_setstate]. unfold dict_update. rewrite Hbd. unfold upd_store.
          change (fold_left (fun s p => set_key (fst p) (snd p) s) (map_store f dd) []) with (fold_left setkv (map_store f dd) []).
          rewrite FN. fold j1. rewrite (py_set_items_obj K sp' j1 Ha). exact X2.
      + assert (X2 : set_items b sp' = SOk R).
        { rewrite set_items_slots; [|exact Hks]. change (i_slots b) with (@nil (attr * obj)). rewrite FS. reflexivity. }
        unfold rebuild. fold b. fold V. destruct Hset as [Hs|[Hs Ha]]; rewrite Hs.
        * cbn [slots_setstate set_parts]. rewrite Hyt. cbn [set_parts]. rewrite <- Hyt, X2. reflexivity.
        * cbn [default_setstate]. rewrite (py_set_items_obj K sp' b Ha). exact X2. }
  exists R. split.
  { unfold roundtrip, reduce_state. fold V. rewrite Hget. exact RB. }
  assert (Ksp'2 : forall k, In k (keys sp') -> mem k (i_slotnames b) = true) by (intros k Hk; rewrite Ksp' in Hk; apply Ksp; exact Hk).
  split.
  - (* inst_of K R *)
    split; [reflexivity|]. split.
    + unfold wf_inst, R. cbn [i_slotnames i_slots i_dict].
      assert (A1 : forallb (fun k => mem k (i_slotnames b)) (keys sp') = true) by (apply forallb_forall; exact Ksp'2).
      rewrite A1, Ksp', Nsp. cbn [andb].
      destruct (dict_part i) as [dd|] eqn:Edp.
      * destruct (DP dd eq_refl) as [_ [_ [_ [Hkd Hnd2]]]]. rewrite keys_map_store, Hnd2, andb_true_r.
        apply forallb_forall. intros k Hk. apply negb_true_iff. apply Hkd. rewrite keys_map_store. exact Hk.
      * unfold b, blank_of. cbn [i_dict]. destruct (kl_dict K); reflexivity.
    + unfold R. cbn [i_dict]. destruct (dict_part i) as [dd|] eqn:Edp.
      * destruct (DP dd eq_refl) as [Hid _]. rewrite Hid in Hdict. exact Hdict.
      * unfold b, blank_of. cbn [i_dict]. destruct (kl_dict K); reflexivity.
  - intros a. unfold stored, R. cbn [i_slotnames i_slots i_dict]. rewrite Hbn.
    destruct (mem a (i_slotnames i)) eqn:Ma.
    + unfold sp'. rewrite assoc_map_store, Asp. reflexivity.
    + destruct (dict_part i) as [dd|] eqn:Edp.
      * destruct (DP dd eq_refl) as [Hid _]. rewrite Hid. apply assoc_map_store.
      * destruct (dict_part_none i Edp) as [X|X]; rewrite X.
        -- unfold b, blank_of. cbn [i_dict]. destruct (kl_dict K); reflexivity.
        -- unfold b, blank_of. cbn [i_dict]. destruct (kl_dict K); reflexivity.
Qed.

End Plain.

(* ---------------------------------------------------------------------------------- *)
(* G. the state protocol of the slotted class                                          *)
(* ---------------------------------------------------------------------------------- *)
Lemma assoc_In : forall a (o : obj) (e : cdict), assoc a e = Some o -> In (a, o) e.
Proof.
  intros a o e. induction e as [|[k v] r IH]; [discriminate|].
  cbn [assoc fst snd]. destruct (String.eqb a k) eqn:X.
  - intros H. inversion H. subst v. apply seqb_true in X. subst k. left. reflexivity.
  - intros H. right. apply IH. exact H.
Qed.

Lemma mem_flat_map : forall {A} (g : A -> list attr) a l, mem a (flat_map g l) = existsb (fun s => mem a (g s)) l.
Proof.
  intros A g a l. induction l as [|x r IH]; [reflexivity|]. cbn [flat_map existsb]. rewrite mem_app, IH. reflexivity.
Qed.

Lemma mem_regnames : forall a m, mem a (regnames m) = mem a (inherited_slots m) && negb (is_extra a).
Proof.
  intros a m. unfold regnames. rewrite mem_dedup, mem_filter, mem_flat_map, inherited_as_union.
  f_equal. induction m as [|s r IH]; [reflexivity|]. cbn [existsb]. rewrite IH.
  destruct (s_slots s); reflexivity.
Qed.

Section TwinState.
Variable E : cenv.
Variable fl : flags.
Variables st st' : stack.
Variables c n : cls.
Variable d : dcinfo.
Hypothesis Hg : c19_guard c = true.
Hypothesis Hdc : c_dc c = Some d.
Hypothesis W : wrap repaired fl st c = (st', Ok n).

Let Hng := c19_guard_names c Hg.
Let Hn : n = result repaired fl c d := wrap_result fl st st' c n d Hng Hdc W.
Let VC := view_of E c.
Let VS := view_of E n.
Let KS := klass_of E n true.

Lemma regnames_S : forall a, mem a (kl_regnames KS)
  = (mem a (new_slots repaired fl c d) || mem a (inherited_slots (c_mro c))) && negb (is_extra a).
Proof.
  intros a. unfold KS, klass_of. cbn [kl_regnames]. rewrite mem_regnames.
  rewrite (proj1 (st_chain fl st st' c n d Hg Hdc W) a), (slots_exact fl c d Hdc Hg). reflexivity.
Qed.

Lemma lookup_S_getstate : lookup VS k_getstate = lookup VC k_getstate.
Proof. apply (lookup_S_reserved E fl st st' c n d Hg Hdc W k_getstate); reflexivity. Qed.

Lemma lookup_S_setstate : lookup VS k_setstate
  = if fix_applies c d then Some CFix else lookup VC k_setstate.
Proof.
  unfold VS, VC. rewrite !lookup_view_of, Hn, (assoc_result_setstate c d Hdc Hng fl).
  destruct (fix_applies c d); reflexivity.
Qed.

Section DefaultState.
Hypothesis G : default_state_guard E c d = true.

Let G_parts :
  hooks_consistent E c = true /\ plain_bases E c d = true /\ existsb s_getstate (full_mro c) = false
  /\ existsb s_setstate (full_mro c) = false /\ (d_frozen d || negb (is_some (lookup VC k_setattr))) = true
  /\ mem k_setattr (fnames d) = false.
Proof.
  pose proof G as G0. unfold default_state_guard in G0.
  repeat (apply andb_true_iff in G0; destruct G0 as [G0 ?]).
  repeat match goal with X : negb _ = true |- _ => apply negb_true_iff in X end.
  repeat split; try assumption.
  unfold hooks_consistent. apply andb_true_iff. split; assumption.
Qed.

Lemma no_getstate_S : lookup VS k_getstate = None.
Proof.
  destruct G_parts as [Hc [_ [Hgs _]]]. rewrite lookup_S_getstate.
  unfold hooks_consistent in Hc. apply andb_true_iff in Hc. destruct Hc as [Hc _].
  rewrite Hgs in Hc. fold VC in Hc. destruct (lookup VC k_getstate); [discriminate|reflexivity].
Qed.

Lemma setstate_S : lookup VS k_setstate = Some CFix \/ (lookup VS k_setstate = None /\ lookup VS k_setattr = None).
Proof.
  destruct G_parts as [Hc [_ [Hgs [Hss [Hfz Hsa]]]]]. rewrite lookup_S_setstate.
  unfold fix_applies. rewrite Hgs, Hss. cbn [negb andb].
  destruct (d_frozen d) eqn:Fz; [left; reflexivity|right]. cbn [orb] in Hfz. apply negb_true_iff in Hfz.
  unfold hooks_consistent in Hc. apply andb_true_iff in Hc. destruct Hc as [_ Hc]. rewrite Hss in Hc. fold VC in Hc.
  split.
  - destruct (lookup VC k_setstate); [discriminate|reflexivity].
  - unfold VS. rewrite (lookup_S_other E fl st st' c n d Hg Hdc W k_setattr Hsa); try reflexivity.
    fold VC. destruct (lookup VC k_setattr); [discriminate|reflexivity].
Qed.

Lemma plain_parts :
  (forall a, mem a (regnames (c_mro c)) = true ->
     is_member (e_bases E) a = true /\ (has_key a (c_dict c) = false \/ mem a (fnames d) = true)
     /\ String.eqb a k_slots = false /\ String.eqb a k_setstate = false /\ String.eqb a k_doc = false)
  /\ (forall a, is_member (e_bases E) a = true -> mem a (regnames (c_mro c)) = true)
  /\ (forall a o, In (a, o) (c_dict c) -> exists k, o = OId k).
Proof.
  destruct G_parts as [_ [Hp _]]. unfold plain_bases in Hp.
  apply andb_true_iff in Hp. destruct Hp as [Hp H3]. apply andb_true_iff in Hp. destruct Hp as [H1 H2].
  rewrite forallb_forall in H1, H2. split; [|split].
  - intros a Ha. apply mem_In in Ha. specialize (H1 a Ha).
    apply andb_true_iff in H1. destruct H1 as [H1 Hx]. apply andb_true_iff in H1. destruct H1 as [Hm Hk].
    split; [exact Hm|]. split.
    + apply orb_true_iff in Hk. destruct Hk as [Hk|Hk]; [left; apply negb_true_iff; exact Hk|right; exact Hk].
    + apply negb_true_iff in Hx. cbn [mem existsb] in Hx. apply orb_false_iff in Hx. destruct Hx as [X1 Hx].
      apply orb_false_iff in Hx. destruct Hx as [X2 Hx]. apply orb_false_iff in Hx. destruct Hx as [X3 _].
      repeat split; assumption.
  - intros a Ha. apply H2. apply mem_In. rewrite mem_member_names. exact Ha.
  - intros a o Hin. unfold own_dict_plain in H3. rewrite forallb_forall in H3. specialize (H3 (a, o) Hin).
    cbn [snd] in H3. destruct o; try discriminate. eexists. reflexivity.
Qed.

Lemma regnames_members_S : forall a, In a (kl_regnames KS) -> is_member (kl_view KS) a = true.
Proof.
  intros a Ha. apply mem_In in Ha. rewrite regnames_S in Ha. apply andb_true_iff in Ha. destruct Ha as [Ha Hx].
  apply negb_true_iff in Hx. replace (kl_view KS) with (view_of E n) by reflexivity. unfold is_member.
  destruct (mem a (fnames d)) eqn:Hf.
  - apply mem_In in Hf. destruct (mem a (inherited_slots (c_mro c))) eqn:Hi.
    + rewrite (lookup_S_inherited E fl st st' c n d Hg Hdc W a Hf Hi).
      destruct plain_parts as [P1 _].
      assert (Hr : mem a (regnames (c_mro c)) = true) by (rewrite mem_regnames, Hi, Hx; reflexivity).
      destruct (P1 a Hr) as [Hm _]. exact Hm.
    + rewrite (lookup_S_new E fl st st' c n d Hg Hdc W a Hf Hi). reflexivity.
  - assert (Hi : mem a (inherited_slots (c_mro c)) = true).
    { rewrite (slots_exact fl c d Hdc Hg), mem_app, mem_filter, Hf in Ha. cbn [andb orb] in Ha.
      destruct (mem a (extras_for fl c)) eqn:Ex; [|exact Ha].
      apply mem_In in Ex. apply In_extras_for in Ex. destruct Ex as [Ex _]. congruence. }
    destruct plain_parts as [P1 _].
    assert (Hr : mem a (regnames (c_mro c)) = true) by (rewrite mem_regnames, Hi, Hx; reflexivity).
    destruct (P1 a Hr) as [Hm [Hk [X1 [X2 X3]]]]. destruct Hk as [Hk|Hk]; [|congruence].
    rewrite (lookup_S_other E fl st st' c n d Hg Hdc W a Hf Hx X1 X2 X3).
    rewrite lookup_view_of. apply assoc_none_has_key in Hk. rewrite Hk. exact Hm.
Qed.

Lemma members_regnames_S : forall a, is_member (kl_view KS) a = true -> mem a (kl_regnames KS) = true.
Proof.
  intros a Ha. replace (kl_view KS) with VS in Ha by reflexivity. unfold is_member, VS in Ha.
  rewrite lookup_view_of in Ha. rewrite regnames_S.
  destruct (assoc a (c_dict n)) as [o|] eqn:A.
  - destruct o; cbn [kind_of] in Ha; try discriminate.
    + destruct (e_kind E n0); discriminate.
    + apply assoc_In in A.
      destruct (st_nothing_else fl st st' c n d Hg Hdc W a _ A) as [X|[[_ X]|[[_ [X _]]|[[X1 X2]|[_ X]]]]]; try discriminate.
      * destruct plain_parts as [_ [_ P3]]. destruct (P3 a _ X) as [k Hk]. discriminate.
      * unfold descr in X2. cbn [snd] in X2. destruct (is_extra a) eqn:Ex; [discriminate|].
        apply mem_In in X1. rewrite X1. reflexivity.
  - destruct plain_parts as [_ [P2 _]]. specialize (P2 a).
    unfold is_member in P2. destruct (lookup (e_bases E) a) as [[| | | | |]|]; try discriminate.
    specialize (P2 eq_refl). rewrite mem_regnames in P2. apply andb_true_iff in P2. destruct P2 as [P2 Px].
    rewrite P2, Px, orb_true_r. reflexivity.
Qed.

(* copy.copy / copy.deepcopy / pickle of an instance of the slotted class, default protocol *)
Lemma roundtrip_default_S : forall U (H : hooks U) f i, inst_of KS i ->
  exists j, roundtrip H KS f i = SOk j /\ inst_of KS j /\ forall a, stored j a = omap f (stored i a).
Proof.
  intros U H f i Hi. apply (roundtrip_plain U H KS f).
  - exact no_getstate_S.
  - exact setstate_S.
  - exact regnames_members_S.
  - exact members_regnames_S.
  - unfold KS, klass_of. cbn [kl_regnames]. unfold regnames. apply nodupb_dedup_all.
  - exact Hi.
Qed.

End DefaultState.

(* user hooks anywhere in the MRO: the round trip is the user's pair, nothing of slotted() in between *)
Lemma roundtrip_user_S : forall U (H : hooks U) f i, user_state_guard E c = true ->
  roundtrip H KS f i = h_set H (blank_of KS) (h_map H f (h_get H i)).
Proof.
  intros U H f i G. unfold user_state_guard in G.
  apply andb_true_iff in G. destruct G as [G G4]. apply andb_true_iff in G. destruct G as [G G3].
  apply andb_true_iff in G. destruct G as [G1 G2].
  unfold roundtrip, reduce_state. replace (kl_view KS) with VS by reflexivity.
  rewrite lookup_S_getstate. unfold VC. destruct (lookup (view_of E c) k_getstate) as [[| | | | |k1]|]; try discriminate.
  cbn [map_rstate rebuild]. replace (kl_view KS) with VS by reflexivity. rewrite lookup_S_setstate.
  assert (F : fix_applies c d = false) by (unfold fix_applies; rewrite G3; reflexivity).
  rewrite F. unfold VC. destruct (lookup (view_of E c) k_setstate) as [[| | | | |k2]|]; try discriminate. reflexivity.
Qed.

End TwinState.

(* ---------------------------------------------------------------------------------- *)
(* H. the statements of Props/C19.v (instance level)                                   *)
(* ---------------------------------------------------------------------------------- *)
Lemma sim_reads : forall VC VS iC iS a, sim iC iS -> stored iS a <> None ->
  exists v, ogetattr VC iC a = GVal v /\ ogetattr VS iS a = GVal v.
Proof.
  intros VC VS iC iS a Hs Ha. destruct (stored iS a) as [v|] eqn:S; [|contradiction].
  exists v. split; apply ogetattr_stored; [rewrite (Hs a)|]; exact S.
Qed.

(* construction: same outcome (the same exception kind, or success on both sides), and then every
   name -- in particular every field -- holds the same value, every field is set and reads alike *)
Lemma st_construct : forall (E : cenv) fl (st st' : stack) c n d,
  c19_guard c = true -> c_dc c = Some d -> wrap repaired fl st c = (st', Ok n) ->
  forall D post pos kw, construct_guard E fl c d post = true ->
  match construct (klass_of E c false) d D post pos kw, construct (klass_of E n true) d D post pos kw with
  | SOk iC, SOk iS =>
      sim iC iS /\ all_set iS (fnames d)
      /\ inst_of (klass_of E c false) iC /\ inst_of (klass_of E n true) iS
      /\ (forall f, In f (fnames d) -> exists v, ogetattr (view_of E c) iC f = GVal v /\ ogetattr (view_of E n) iS f = GVal v)
  | SRaise e1, SRaise e2 => e1 = e2
  | _, _ => False
  end.
Proof.
  intros E fl st st' c n d Hg Hdc W D post pos kw G.
  pose proof (construct_twin E fl st st' c n d Hg Hdc W D post pos kw G) as T.
  destruct (construct (klass_of E c false) d D post pos kw) as [iC|e1];
    destruct (construct (klass_of E n true) d D post pos kw) as [iS|e2]; try exact T.
  destruct T as [T1 [T2 [T3 T4]]].
  split; [exact T1|]. split; [exact T2|]. split; [exact T3|]. split; [exact T4|].
  intros f Hf. apply sim_reads; [exact T1|apply T2; exact Hf].
Qed.

(* after a round trip: every name reads as the transported value; with an __eq__ generated by
   dataclasses and values that compare equal to their transported copies, the copy equals the source *)
Lemma field_vals_map : forall V f i j names, (forall a, stored j a = omap f (stored i a)) ->
  (forall a, In a names -> stored i a <> None) ->
  exists l, field_vals V i names = Some l /\ field_vals V j names = Some (map f l).
Proof.
  intros V f i j names Hst. induction names as [|a r IH]; intros Hset; [exists []; split; reflexivity|].
  destruct (stored i a) as [v|] eqn:Sa; [|exfalso; apply (Hset a (or_introl eq_refl)); exact Sa].
  destruct IH as [l [L1 L2]]; [intros b Hb; apply Hset; right; exact Hb|].
  exists (v :: l). cbn [field_vals map]. rewrite (ogetattr_stored V i a v Sa), L1.
  assert (Sj : stored j a = Some (f v)) by (rewrite Hst, Sa; reflexivity).
  rewrite (ogetattr_stored V j a (f v) Sj), L2. split; reflexivity.
Qed.

Lemma tuple_eqb_map : forall O f l, (forall v, v_eq O (f v) v = true) -> tuple_eqb O (map f l) l = true.
Proof. intros O f l H. induction l as [|x r IH]; [reflexivity|]. cbn [map tuple_eqb]. rewrite H, IH. reflexivity. Qed.

Lemma st_copy_equal : forall O K f i j names, lookup (kl_view K) k_eq = Some (CGen names) ->
  (forall a, stored j a = omap f (stored i a)) -> (forall a, In a names -> stored i a <> None) ->
  (forall v, v_eq O (f v) v = true) -> dc_eq O K j i = MBool true.
Proof.
  intros O K f i j names L Hst Hset Hf. unfold dc_eq. rewrite L.
  destruct (field_vals_map (kl_view K) f i j names Hst Hset) as [l [L1 L2]]. rewrite L1, L2.
  rewrite (tuple_eqb_map O f l Hf). reflexivity.
Qed.

Lemma st_roundtrip_user : forall (E : cenv) fl (st st' : stack) c n d,
  c19_guard c = true -> c_dc c = Some d -> wrap repaired fl st c = (st', Ok n) ->
  forall U (H : hooks U) f i, user_state_guard E c = true -> hooks_restore H (klass_of E n true) f i ->
  restores f i (roundtrip H (klass_of E n true) f i).
Proof.
  intros E fl st st' c n d Hg Hdc W U H f i G L.
  rewrite (roundtrip_user_S E fl st st' c n d Hg Hdc W U H f i G). exact L.
Qed.

(* chains: the bases clause of construct_guard for a subclass of a slotted class.  Seen from a
   subclass, a field of b resolves to a member descriptor through the new class iff it got a new slot
   or already resolved to one through b's bases *)
Lemma st_chain_members : forall (E : cenv) fl (st st' : stack) b nb d,
  c19_guard b = true -> c_dc b = Some d -> wrap repaired fl st b = (st', Ok nb) ->
  forall f, In f (fnames d) ->
  is_member (view_of E nb) f = negb (mem f (inherited_slots (c_mro b))) || is_member (e_bases E) f.
Proof.
  intros E fl st st' b nb d Hg Hdc W f Hf. unfold is_member at 1.
  destruct (mem f (inherited_slots (c_mro b))) eqn:Hi.
  - rewrite (lookup_S_inherited E fl st st' b nb d Hg Hdc W f Hf Hi). reflexivity.
  - rewrite (lookup_S_new E fl st st' b nb d Hg Hdc W f Hf Hi). reflexivity.
Qed.

(* end to end: construct an instance of the slotted class, send it through copy / deepcopy / pickle,
   compare with ==: equal, when transported values compare equal to the originals *)
Lemma st_construct_copy_equal : forall (E : cenv) fl (st st' : stack) c n d,
  c19_guard c = true -> c_dc c = Some d -> wrap repaired fl st c = (st', Ok n) ->
  forall D post pos kw O U (H : hooks U) f iS names,
  construct_guard E fl c d post = true -> methods_guard E c d = true -> default_state_guard E c d = true ->
  construct (klass_of E n true) d D post pos kw = SOk iS ->
  lookup (view_of E c) k_eq = Some (CGen names) ->
  (forall v, v_eq O (f v) v = true) ->
  exists j, roundtrip H (klass_of E n true) f iS = SOk j /\ inst_of (klass_of E n true) j
            /\ (forall a, stored j a = omap f (stored iS a))
            /\ dc_eq O (klass_of E n true) j iS = MBool true.
Proof.
  intros E fl st st' c n d Hg Hdc W D post pos kw O U H f iS names G1 G2 G3 HC L Hf.
  pose proof (construct_twin E fl st st' c n d Hg Hdc W D post pos kw G1) as T. rewrite HC in T.
  destruct (construct (klass_of E c false) d D post pos kw) as [iC|e]; [|contradiction].
  destruct T as [_ [Hset [_ Hi]]].
  destruct (roundtrip_default_S E fl st st' c n d Hg Hdc W G3 U H f iS Hi) as [j [R [Hj Hst]]].
  exists j. split; [exact R|]. split; [exact Hj|]. split; [exact Hst|].
  assert (Hsp : In k_eq specials) by (cbn [specials In]; tauto).
  apply (st_copy_equal O (klass_of E n true) f iS j names); try assumption.
  - cbn [klass_of kl_view]. rewrite (lookup_S_special E fl st st' c n d Hg Hdc W k_eq G2 Hsp). exact L.
  - intros a Ha. apply Hset. apply (special_names E c d k_eq names G2 Hsp L a Ha).
Qed.
