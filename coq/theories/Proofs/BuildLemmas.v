(* The routing theorem for Model/Build.v: along any node order in which every member
   annotation is represented earlier (the contract of graph.static_order, C09), the
   factory loop stores under every key a routine that ROUTES that key: its head is the
   one dispatch assigns to the annotation, every member slot holds a routine that routes
   the member's own annotation, and a delayed proxy refers to the annotation it stands for. *)
From Coq Require Import List Arith Bool Lia PeanoNat.
Import ListNotations.
Require Import TL.Model.Core TL.Model.Build.

(* ---------------------------------------------------------------- ty_eqb is equality *)
Lemma seqkind_eqb_eq a b : seqkind_eqb a b = true -> a = b.
Proof. destruct a, b; cbn; congruence. Qed.
Lemma dictkind_eqb_eq a b : dictkind_eqb a b = true -> a = b.
Proof. destruct a, b; cbn; congruence. Qed.

Fixpoint ty_eqb_eq (a b : ty) {struct a} : ty_eqb a b = true -> a = b.
Proof.
  destruct a, b; cbn [ty_eqb]; intros H; try discriminate H; try reflexivity.
  - apply Nat.eqb_eq in H. congruence.
  - apply andb_true_iff in H. destruct H as [H1 H2]. apply seqkind_eqb_eq in H1. apply ty_eqb_eq in H2. congruence.
  - apply andb_true_iff in H. destruct H as [H H3]. apply andb_true_iff in H. destruct H as [H1 H2].
    apply dictkind_eqb_eq in H1. apply ty_eqb_eq in H2. apply ty_eqb_eq in H3. congruence.
  - f_equal. revert ts0 H. induction ts as [|x r IH]; intros [|y t] H; try discriminate H; [reflexivity|].
    apply andb_true_iff in H. destruct H as [H1 H2]. f_equal; [apply ty_eqb_eq; exact H1|apply IH; exact H2].
  - f_equal. revert ts0 H. induction ts as [|x r IH]; intros [|y t] H; try discriminate H; [reflexivity|].
    apply andb_true_iff in H. destruct H as [H1 H2]. f_equal; [apply ty_eqb_eq; exact H1|apply IH; exact H2].
  - apply Nat.eqb_eq in H. congruence.
  - apply Nat.eqb_eq in H. congruence.
  - apply Nat.eqb_eq in H. congruence.
  - apply ty_eqb_eq in H. congruence.
  - apply andb_true_iff in H. destruct H as [H1 H2]. apply Nat.eqb_eq in H1. apply ty_eqb_eq in H2. congruence.
  - apply andb_true_iff in H. destruct H as [H1 H2]. apply Nat.eqb_eq in H1. apply ty_eqb_eq in H2. congruence.
  - apply andb_true_iff in H. destruct H as [H1 H2]. apply Nat.eqb_eq in H1. apply Nat.eqb_eq in H2. congruence.
  - apply ty_eqb_eq in H. congruence.
  - apply ty_eqb_eq in H. congruence.
Qed.

(* ---------------------------------------------------------------- normal form of an annotation *)
(* what an annotation means once wrappers are peeled and references evaluated *)
Fixpoint norm (t : ty) : ty :=
  match t with
  | TFinal t' | TClassVar t' | TAlias _ t' | TNewType _ t' | TRefTo t' => norm t'
  | TAliasStr _ c | TRef c => TName c
  | TRefLeaf s => TLeaf s
  | _ => t
  end.

Lemma norm_unwrap t : norm (unwrap t) = norm t.
Proof. induction t; cbn [unwrap norm]; try reflexivity; assumption. Qed.
Lemma norm_evaluate t : norm (evaluate t) = norm t.
Proof. destruct t; cbn [evaluate norm]; reflexivity. Qed.
Lemma norm_fref t rf : fref t = Some rf -> norm rf = norm t.
Proof. destruct t; cbn [fref]; intros H; try discriminate H; injection H as <-; cbn [norm]; reflexivity. Qed.
Lemma norm_idem t : norm (norm t) = norm t.
Proof. induction t; cbn [norm]; try reflexivity; assumption. Qed.

Section Routing.
Variable E : env.
Variable dir : bool.
(* leaf types whose positions pass through (Any): a field of such a type gets no graph node and the
   structured routine falls back to the no-op routine, which is that leaf's own routine *)
Variable noop_leaf : nat -> bool.

(* r routes (normal) annotation a *)
Inductive routes' : routine -> ty -> Prop :=
| Ro_leaf s : routes' (RLeaf s) (TLeaf s)
| Ro_none : routes' RNone TNone
| Ro_seq k r a : routes' r (norm a) -> routes' (RSeq k r) (TSeq k a)
| Ro_map k rk rv kt vt : routes' rk (norm kt) -> routes' rv (norm vt) -> routes' (RMap k rk rv) (TMap k kt vt)
| Ro_tuple rs ts : Forall2 (fun r t => routes' r (norm t)) rs ts -> routes' (RTuple rs) (TTuple ts)
| Ro_union rs ts :
    Forall2 (fun r t => routes' r (norm t)) rs (if dir then union_stack_u ts else ts) ->
    routes' (RUnion (isoptional ts) rs) (TUnion ts)
| Ro_struct c cd frs :
    E c = Some (NClass cd) ->
    Forall2 (fun fr fd => fst fr = fname fd /\ routes' (snd fr) (norm (fty fd))) frs (cfields cd) ->
    routes' (RStruct c frs) (TName c)
| Ro_delayed t a : norm t = a -> routes' (RDelayed t) a
| Ro_noop s : noop_leaf s = true -> routes' RNoOp (TLeaf s).

Definition routes (r : routine) (a : ty) : Prop := routes' r (norm a).

Lemma routes_norm_eq r a b : norm a = norm b -> routes r a -> routes r b.
Proof. unfold routes. intros <-. exact (fun H => H). Qed.

(* ---------------------------------------------------------------- the context invariant *)
Definition ctx_ok (cx : ctx) : Prop := forall k r, In (k, r) cx -> routes r k.

Lemma find_key_in k cx r : find_key k cx = Some r -> exists k', In (k', r) cx /\ k' = k.
Proof. induction cx as [|[k' r'] rest IH]; cbn [find_key]; intros H; [discriminate H|].
  destruct (ty_eqb k k') eqn:Ek.
  - injection H as <-. apply ty_eqb_eq in Ek. exists k'. split; [left; reflexivity|symmetry; exact Ek].
  - destruct (IH H) as [k'' [Hin Hk]]. exists k''. split; [right; exact Hin|exact Hk]. Qed.

Lemma find_key_routes cx k r : ctx_ok cx -> find_key k cx = Some r -> routes r k.
Proof. intros Hok H. destruct (find_key_in _ _ _ H) as [k' [Hin ->]]. exact (Hok _ _ Hin). Qed.

(* whatever route of __missing__ finds the routine, it routes the key that was asked *)
Lemma getitem_routes cx k r : ctx_ok cx -> getitem cx k = Ok r -> routes r k.
Proof. intros Hok. unfold getitem.
  destruct (find_key k cx) as [r0|] eqn:E1.
  - intros H; injection H as <-. exact (find_key_routes _ _ _ Hok E1).
  - destruct (is_ref k); [discriminate|].
    destruct (find_key (unwrap k) cx) as [r1|] eqn:E2.
    + intros H; injection H as <-. apply (routes_norm_eq r1 (unwrap k) k); [apply norm_unwrap|].
      exact (find_key_routes _ _ _ Hok E2).
    + destruct (fref k) as [rf|] eqn:E3; [|discriminate].
      destruct (find_key rf cx) as [r2|] eqn:E4; [|discriminate].
      intros H; injection H as <-. apply (routes_norm_eq r2 rf k); [exact (norm_fref _ _ E3)|].
      exact (find_key_routes _ _ _ Hok E4). Qed.

Lemma ctx_get_routes cx k r : ctx_ok cx -> ctx_get cx k = Some r -> routes r k.
Proof. unfold ctx_get. intros Hok. destruct (getitem cx k) as [r0| | |] eqn:Eg; try discriminate.
  intros H; injection H as <-. exact (getitem_routes _ _ _ Hok Eg). Qed.

Lemma mapM_Forall2 {A B} (f : A -> res B) (P : B -> A -> Prop) l rs :
  (forall a b, In a l -> f a = Ok b -> P b a) -> mapM f l = Ok rs -> Forall2 P rs l.
Proof. revert rs. induction l as [|a l IH]; intros rs HP H; cbn [mapM] in H.
  - injection H as <-. constructor.
  - destruct (f a) as [b| | |] eqn:Ea; cbn [bind] in H; try discriminate H.
    destruct (mapM f l) as [t| | |] eqn:El; cbn [bind] in H; try discriminate H. injection H as <-.
    constructor; [apply HP; [left; reflexivity|exact Ea]|].
    apply IH; [intros a' b' Hin; apply HP; right; exact Hin|reflexivity]. Qed.

(* ---------------------------------------------------------------- the contract of the node order *)
(* every lookup a constructor performs for the members of u finds an entry *)
Definition found (cx : ctx) (k : ty) : bool := match getitem cx k with Ok _ => true | _ => false end.
Definition is_noop (a : ty) : bool := match a with TLeaf s => noop_leaf s | _ => false end.
Definition members_found (cx : ctx) (u : ty) : bool :=
  match u with
  | TSeq _ a => found cx (evaluate a)
  | TMap _ kt vt => found cx (evaluate kt) && found cx (evaluate vt)
  | TTuple ts => forallb (fun t => found cx (evaluate t)) ts
  | TUnion ts => forallb (found cx) (members_u dir ts)
  | TName c => match E c with
               | Some (NClass cd) =>
                   forallb (fun fd => found cx (fty fd) || found cx (evaluate (fty fd)) || is_noop (norm (fty fd))) (cfields cd)
               | _ => false end
  | TLeaf _ | TNone | TRef _ | TRefLeaf _ | TRefTo _ | TAliasStr _ _ => true
  | _ => false
  end.

(* a node is acceptable after the context cx when: it is a deferred node (any), or its unwrapped
   annotation is the unwrapped form of its type and every member lookup succeeds *)
Definition node_ok (cx : ctx) (n : node) : bool :=
  if ncyc n then ty_eqb (norm (nunw n)) (norm (ntype n))
  else ty_eqb (nunw n) (unwrap (ntype n)) && members_found cx (nunw n).

(* order_ok: checked along the loop itself, so it is a property of the order alone (the context
   is determined by the nodes before) *)
Fixpoint order_ok (cx : ctx) (ns : list node) : bool :=
  match ns with
  | [] => true
  | n :: rest =>
      node_ok cx n &&
      match build_node E dir cx n with
      | Ok r => order_ok (ctx_set (nunw n) r (ctx_set (ntype n) r cx)) rest
      | _ => false
      end
  end.

(* ---------------------------------------------------------------- constructors route *)
Lemma found_getitem cx k : found cx k = true -> exists r, getitem cx k = Ok r.
Proof. unfold found. destruct (getitem cx k) as [r| | |]; try discriminate. intros _. exists r. reflexivity. Qed.

Lemma unwrap_head_normal u t : u = unwrap t ->
  match u with TFinal _ | TClassVar _ | TAlias _ _ | TNewType _ _ | TAliasStr _ _ => False | _ => True end.
Proof. intros ->. induction t; cbn [unwrap]; try exact I; assumption. Qed.

Lemma found_get cx k : found cx k = true -> exists r, ctx_get cx k = Some r.
Proof. unfold found, ctx_get. destruct (getitem cx k) as [r| | |]; try discriminate. intros _. exists r. reflexivity. Qed.

Lemma construct_routes cx u r :
  ctx_ok cx -> members_found cx u = true -> construct E dir cx u = Ok r -> routes r u.
Proof.
  intros Hok Hmf. unfold construct, routes.
  destruct u; cbn [norm]; intros H.
  - (* TLeaf *) injection H as <-. constructor.
  - (* TNone *) injection H as <-. constructor.
  - (* TSeq *) destruct (getitem cx (evaluate u)) as [r0| | |] eqn:Eg; cbn [bind] in H; try discriminate H.
    injection H as <-. constructor. pose proof (getitem_routes _ _ _ Hok Eg) as Hr. unfold routes in Hr.
    rewrite norm_evaluate in Hr. exact Hr.
  - (* TMap *) destruct (getitem cx (evaluate u1)) as [rk| | |] eqn:Ek; cbn [bind] in H; try discriminate H.
    destruct (getitem cx (evaluate u2)) as [rv| | |] eqn:Ev; cbn [bind] in H; try discriminate H.
    injection H as <-. constructor.
    + pose proof (getitem_routes _ _ _ Hok Ek) as Hr. unfold routes in Hr. rewrite norm_evaluate in Hr. exact Hr.
    + pose proof (getitem_routes _ _ _ Hok Ev) as Hr. unfold routes in Hr. rewrite norm_evaluate in Hr. exact Hr.
  - (* TTuple *) destruct (mapM (fun t => getitem cx (evaluate t)) ts) as [rs| | |] eqn:Em; cbn [bind] in H; try discriminate H.
    injection H as <-. constructor.
    apply (mapM_Forall2 (fun t => getitem cx (evaluate t)) (fun r t => routes' r (norm t)) ts rs); [|exact Em].
    intros a b _ Hg. pose proof (getitem_routes _ _ _ Hok Hg) as Hr. unfold routes in Hr.
    rewrite norm_evaluate in Hr. exact Hr.
  - (* TUnion *) destruct (mapM (getitem cx) (members_u dir ts)) as [rs| | |] eqn:Em; cbn [bind] in H; try discriminate H.
    injection H as <-. constructor. unfold members_u in Em.
    assert (HF : Forall2 (fun r t => routes' r (norm t)) rs (map evaluate (if dir then union_stack_u ts else ts))).
    { apply (mapM_Forall2 (getitem cx) (fun r t => routes' r (norm t)) _ rs); [|exact Em].
      intros a b _ Hg. exact (getitem_routes _ _ _ Hok Hg). }
    clear Em. revert HF. generalize (if dir then union_stack_u ts else ts). intros l. revert rs.
    induction l as [|t l IH]; intros rs HF; cbn [map] in HF; inversion HF; subst; constructor.
    + rewrite <- norm_evaluate. assumption.
    + apply IH. assumption.
  - (* TName *) cbn [members_found] in Hmf.
    destruct (E n) as [[cd|t']|] eqn:En; try discriminate H. injection H as <-.
    apply (Ro_struct n cd); [exact En|].
    rewrite forallb_forall in Hmf.
    assert (Hall : forall fd, In fd (cfields cd) -> In fd (cfields cd)) by (intros fd Hfd; exact Hfd).
    revert Hall. generalize (cfields cd) at 1 3 4. intros l Hall.
    induction l as [|fd l IH]; cbn [map]; constructor.
    + cbn [fst snd]. split; [reflexivity|].
      specialize (Hmf fd (Hall fd (or_introl eq_refl))).
      destruct (ctx_get cx (fty fd)) as [r0|] eqn:E1.
      * exact (ctx_get_routes _ _ _ Hok E1).
      * destruct (ctx_get cx (evaluate (fty fd))) as [r1|] eqn:E2.
        -- pose proof (ctx_get_routes _ _ _ Hok E2) as Hr. unfold routes in Hr.
           rewrite norm_evaluate in Hr. exact Hr.
        -- apply orb_true_iff in Hmf. destruct Hmf as [Hmf|Hno].
           ++ apply orb_true_iff in Hmf.
              destruct Hmf as [Hf|Hf]; apply found_get in Hf; destruct Hf as [r2 Hr2]; congruence.
           ++ unfold is_noop in Hno. destruct (norm (fty fd)); try discriminate Hno. constructor. exact Hno.
    + apply IH. intros fd' Hfd'. apply Hall. right. exact Hfd'.
  - (* TRef *) injection H as <-. constructor. reflexivity.
  - (* TRefLeaf *) injection H as <-. constructor. reflexivity.
  - (* TRefTo *) injection H as <-. constructor. reflexivity.
  - discriminate H.
  - discriminate H.
  - (* TAliasStr *) injection H as <-. constructor. reflexivity.
  - discriminate H.
  - discriminate H.
Qed.

(* ---------------------------------------------------------------- one node, the loop, the root *)
Lemma build_node_routes cx n r :
  ctx_ok cx -> node_ok cx n = true -> build_node E dir cx n = Ok r ->
  routes r (ntype n) /\ routes r (nunw n).
Proof.
  intros Hok Hn. unfold build_node, node_ok in *.
  destruct (ncyc n).
  - intros H. injection H as <-. apply ty_eqb_eq in Hn. split.
    + unfold routes. constructor. reflexivity.
    + unfold routes. constructor. symmetry. exact Hn.
  - apply andb_true_iff in Hn. destruct Hn as [Hu Hmf]. apply ty_eqb_eq in Hu.
    assert (Hsame : norm (nunw n) = norm (ntype n)) by (rewrite Hu; apply norm_unwrap).
    assert (Hcons : construct E dir cx (nunw n) = Ok r -> routes r (ntype n) /\ routes r (nunw n)).
    { intros Hc. pose proof (construct_routes _ _ _ Hok Hmf Hc) as Hr. split; [|exact Hr].
      apply (routes_norm_eq r (nunw n) (ntype n) Hsame Hr). }
    destruct (find_key (ntype n) cx) as [r0|] eqn:Ef; [|exact Hcons].
    destruct (is_delayed r0); [exact Hcons|].
    intros H. injection H as <-. pose proof (find_key_routes _ _ _ Hok Ef) as Hr. split; [exact Hr|].
    apply (routes_norm_eq r0 (ntype n) (nunw n)); [symmetry; exact Hsame|exact Hr].
Qed.

Lemma ctx_ok_set cx k r : ctx_ok cx -> routes r k -> ctx_ok (ctx_set k r cx).
Proof. intros Hok Hr k' r' [Hin|Hin]; [injection Hin as <- <-; exact Hr|exact (Hok _ _ Hin)]. Qed.

Lemma build_loop_ok ns : forall cx cx',
  ctx_ok cx -> order_ok cx ns = true -> build_loop E dir cx ns = Ok cx' -> ctx_ok cx'.
Proof. induction ns as [|n rest IH]; intros cx cx' Hok Hord H; cbn [build_loop order_ok] in *.
  - injection H as <-. exact Hok.
  - apply andb_true_iff in Hord. destruct Hord as [Hn Hrest].
    destruct (build_node E dir cx n) as [r| | |] eqn:Eb; cbn [bind] in H; try discriminate H; try discriminate Hrest.
    destruct (build_node_routes _ _ _ Hok Hn Eb) as [H1 H2].
    apply (IH _ _ (ctx_ok_set _ _ _ (ctx_ok_set _ _ _ Hok H1) H2) Hrest H). Qed.

(* a well-ordered loop never fails: every constructor finds its members *)
Lemma build_loop_total ns : forall cx, order_ok cx ns = true -> exists cx', build_loop E dir cx ns = Ok cx'.
Proof. induction ns as [|n rest IH]; intros cx Hord; cbn [build_loop order_ok] in *.
  - exists cx. reflexivity.
  - apply andb_true_iff in Hord. destruct Hord as [_ Hrest].
    destruct (build_node E dir cx n) as [r| | |]; try discriminate Hrest. cbn [bind]. apply IH. exact Hrest. Qed.

Fixpoint ty_eqb_refl (a : ty) : ty_eqb a a = true.
Proof.
  destruct a; cbn [ty_eqb]; try reflexivity; try apply Nat.eqb_refl;
    try (rewrite ?Nat.eqb_refl, ?ty_eqb_refl; reflexivity).
  - destruct k; cbn; apply ty_eqb_refl.
  - destruct k; cbn; rewrite !ty_eqb_refl; reflexivity.
  - induction ts as [|x r IH]; [reflexivity|]. rewrite ty_eqb_refl. exact IH.
  - induction ts as [|x r IH]; [reflexivity|]. rewrite ty_eqb_refl. exact IH.
Qed.

Lemma build_loop_last pre : forall cx root cx',
  build_loop E dir cx (pre ++ [root]) = Ok cx' -> exists r, find_key (ntype root) cx' = Some r.
Proof. induction pre as [|n rest IH]; intros cx root cx' H; cbn [app build_loop] in H.
  - destruct (build_node E dir cx root) as [r| | |]; cbn [bind] in H; try discriminate H. injection H as <-.
    unfold ctx_set. cbn [find_key]. destruct (ty_eqb (ntype root) (nunw root)); [exists r; reflexivity|].
    rewrite ty_eqb_refl. exists r. reflexivity.
  - destruct (build_node E dir cx n) as [r| | |]; cbn [bind] in H; try discriminate H. exact (IH _ _ _ H). Qed.

(* The routing theorem.  `orders` is graph.static_order; for the annotation T it returns pre ++ [root]. *)
Theorem build_routes (orders : ty -> option (list node)) T pre root :
  orders (evaluate T) = Some (pre ++ [root]) ->
  order_ok [] (pre ++ [root]) = true ->
  norm (ntype root) = norm T ->
  exists r, build_root E orders dir T = Ok r /\ routes r T.
Proof.
  intros Ho Hord Hroot. unfold build_root. rewrite Ho. rewrite rev_app_distr. cbn [rev app].
  destruct (build_loop_total _ _ Hord) as [cx' Hb]. rewrite Hb. cbn [bind].
  assert (Hok : ctx_ok cx') by (apply (build_loop_ok (pre ++ [root]) [] cx'); [intros k r []|exact Hord|exact Hb]).
  destruct (build_loop_last _ _ _ _ Hb) as [r Hf].
  exists r. split.
  - unfold getitem. rewrite Hf. reflexivity.
  - apply (routes_norm_eq r (ntype root) T Hroot). exact (find_key_routes _ _ _ Hok Hf).
Qed.

End Routing.
