(* The comparison used by the Future correspondence is sound: expr_eqb a b = true only when a = b,
   so a case that passes future_case_strict really has the observed tree equal to the model's. *)
From Coq Require Import List String Ascii Bool.
Import ListNotations.
Require Import TL.Model.Future TL.Model.FutureEq.
Local Open Scope list_scope.

Lemma const_eqb_sound a b : const_eqb a b = true -> a = b.
Proof. destruct a, b; cbn [const_eqb]; intros H; try discriminate H; try reflexivity;
  try (apply String.eqb_eq in H; subst; reflexivity).
  apply Bool.eqb_prop in H. subst. reflexivity. Qed.

Lemma binop_eqb_sound a b : binop_eqb a b = true -> a = b.
Proof. destruct a, b; cbn [binop_eqb]; intros H; try discriminate H; reflexivity. Qed.

Lemma list_eqb_sound {A} (e : A -> A -> bool) l :
  Forall (fun x => forall y, e x y = true -> x = y) l -> forall m, list_eqb e l m = true -> l = m.
Proof. induction 1 as [|x r Hx _ IH]; intros m H; destruct m as [|y t]; cbn [list_eqb] in H;
  try discriminate H; [reflexivity|].
  apply andb_true_iff in H. destruct H as [H1 H2]. rewrite (Hx y H1), (IH t H2). reflexivity. Qed.

Theorem expr_eqb_sound a : forall b, expr_eqb a b = true -> a = b.
Proof. induction a as [id|v a IHv|c|v s IHv IHs|l IHl|l IHl|op l r IHl IHr|t l IHl] using expr_ind';
  intros b H; destruct b; cbn [expr_eqb] in H; try discriminate H.
  - apply String.eqb_eq in H. subst. reflexivity.
  - apply andb_true_iff in H. destruct H as [H1 H2]. apply String.eqb_eq in H2. rewrite (IHv _ H1), H2. reflexivity.
  - rewrite (const_eqb_sound _ _ H). reflexivity.
  - apply andb_true_iff in H. destruct H as [H1 H2]. rewrite (IHv _ H1), (IHs _ H2). reflexivity.
  - rewrite (list_eqb_sound expr_eqb l IHl _ H). reflexivity.
  - rewrite (list_eqb_sound expr_eqb l IHl _ H). reflexivity.
  - apply andb_true_iff in H. destruct H as [H H3]. apply andb_true_iff in H. destruct H as [H1 H2].
    rewrite (binop_eqb_sound _ _ H1), (IHl _ H2), (IHr _ H3). reflexivity.
  - apply andb_true_iff in H. destruct H as [H1 H2]. apply String.eqb_eq in H1.
    rewrite H1, (list_eqb_sound expr_eqb l IHl _ H2). reflexivity. Qed.

(* a passing strict case: the implementation's tree is exactly the model's *)
Corollary strict_case_exact g u e obs ann :
  future_case_strict g u (e, obs, ann) = true -> reparse (transform g u e) = obs /\ parsed e = true.
Proof. unfold future_case_strict. intros H. apply andb_true_iff in H. destruct H as [H _].
  apply andb_true_iff in H. destruct H as [H1 H2]. split; [exact (expr_eqb_sound _ _ H1)|exact H2]. Qed.
