(* Proofs about Model/Heap.v: refinement (the heap-level routines denote Core.mar / Core.unm), frame (nothing is
   ever overwritten), freshness (mutable objects of the result are new, inside fresh_ty), separation of the
   results of a call history, which positions of an unmarshalled value are copies. *)
From Coq Require Import List Arith Bool PeanoNat Lia.
Import ListNotations.
Require Import TL.Model.Core.
Require Import TL.Model.Heap.

(* ------------------------------------------------------------------ induction on values *)
Section PvInd.
Variable P : pv -> Prop.
Hypothesis HA : forall a, P (PAtom a).
Hypothesis HK : forall f, P (PKey f).
Hypothesis HS : forall k l, Forall P l -> P (PSeq k l).
Hypothesis HD : forall k l, Forall (fun kv => P (fst kv) /\ P (snd kv)) l -> P (PDict k l).
Hypothesis HO : forall c l, Forall (fun fv => P (snd fv)) l -> P (PObj c l).
Hypothesis HN : forall c l, Forall P l -> P (PNamed c l).
Fixpoint pv_ind' (v : pv) : P v :=
  match v with
  | PAtom a => HA a
  | PKey f => HK f
  | PSeq k l =>
      HS k l ((fix go (l : list pv) : Forall P l :=
                 match l with [] => Forall_nil _ | x :: r => Forall_cons _ (pv_ind' x) (go r) end) l)
  | PDict k l =>
      HD k l ((fix go (l : list (pv * pv)) : Forall (fun kv => P (fst kv) /\ P (snd kv)) l :=
                 match l with
                 | [] => Forall_nil _
                 | kv :: r => Forall_cons _ (conj (pv_ind' (fst kv)) (pv_ind' (snd kv))) (go r)
                 end) l)
  | PObj c l =>
      HO c l ((fix go (l : list (nat * pv)) : Forall (fun fv => P (snd fv)) l :=
                 match l with [] => Forall_nil _ | fv :: r => Forall_cons _ (pv_ind' (snd fv)) (go r) end) l)
  | PNamed c l =>
      HN c l ((fix go (l : list pv) : Forall P l :=
                 match l with [] => Forall_nil _ | x :: r => Forall_cons _ (pv_ind' x) (go r) end) l)
  end.
End PvInd.

Lemma Forall2_imp {A B} (R S : A -> B -> Prop) : (forall a b, R a b -> S a b) ->
  forall l l', Forall2 R l l' -> Forall2 S l l'.
Proof. intros H l l' HF. induction HF; constructor; auto. Qed.

(* ------------------------------------------------------------------ heaps *)
Lemma ext_refl h : ext h h.
Proof. exists []. symmetry. apply app_nil_r. Qed.
Lemma ext_trans h1 h2 h3 : ext h1 h2 -> ext h2 h3 -> ext h1 h3.
Proof. intros [e1 ->] [e2 ->]. exists (e1 ++ e2). rewrite app_assoc. reflexivity. Qed.
Lemma ext_alloc h n : ext h (fst (alloc h n)).
Proof. exists [n]. reflexivity. Qed.
Lemma ext_length h h' : ext h h' -> length h <= length h'.
Proof. intros [e ->]. rewrite app_length. lia. Qed.
Lemma hget_ext h h' l n : ext h h' -> hget h l = Some n -> hget h' l = Some n.
Proof.
  intros [e ->] H. unfold hget in *. rewrite nth_error_app1; [exact H|].
  apply nth_error_Some. congruence.
Qed.
Lemma hget_dom h l n : hget h l = Some n -> l < length h.
Proof. unfold hget. intros H. apply nth_error_Some. congruence. Qed.
Lemma hget_alloc h n : hget (h ++ [n]) (length h) = Some n.
Proof. unfold hget. rewrite nth_error_app2; [|lia]. rewrite Nat.sub_diag. reflexivity. Qed.
Lemma hget_ext_dom h h' l : ext h h' -> l < length h -> hget h' l = hget h l.
Proof. intros [e ->] H. unfold hget. apply nth_error_app1. exact H. Qed.
Lemma mutable_at_ext_dom h h' p : ext h h' -> p < length h -> mutable_at h' p = mutable_at h p.
Proof. intros He Hp. unfold mutable_at. rewrite (hget_ext_dom h h' p He Hp). reflexivity. Qed.

(* ------------------------------------------------------------------ mapO *)
Lemma mapO_impl {A B} (f g : A -> option B) l ys :
  (forall x y, In x l -> f x = Some y -> g x = Some y) -> mapO f l = Some ys -> mapO g l = Some ys.
Proof.
  revert ys. induction l as [|a l IH]; intros ys Hfg H; cbn [mapO] in *; [exact H|].
  destruct (f a) as [y|] eqn:Hf; [|discriminate].
  destruct (mapO f l) as [t|] eqn:Hm; [|discriminate].
  rewrite (Hfg a y (or_introl eq_refl) Hf).
  rewrite (IH t); [exact H | | reflexivity]. intros x y0 Hin. apply Hfg. right. exact Hin.
Qed.

Lemma mapO_Forall2 {A B} (f : A -> option B) l ys :
  mapO f l = Some ys <-> Forall2 (fun x y => f x = Some y) l ys.
Proof.
  revert ys. induction l as [|a l IH]; intros ys; cbn [mapO].
  - split; intros H; [injection H as <-; constructor | inversion H; reflexivity].
  - split.
    + destruct (f a) as [y|] eqn:Hf; [|discriminate]. destruct (mapO f l) as [t|] eqn:Hm; [|discriminate].
      intros H. injection H as <-. constructor; [exact Hf | apply IH; reflexivity].
    + intros H. inversion H as [|? y ? t Hy Ht]; subst. rewrite Hy. apply IH in Ht. rewrite Ht. reflexivity.
Qed.

(* ------------------------------------------------------------------ read *)
Lemma read_mono : forall n h l x, read n h l = Some x -> read (S n) h l = Some x.
Proof.
  induction n as [|n IH]; intros h l x H; [discriminate|].
  cbn [read] in H. remember (S n) as m. cbn [read]. subst m.
  destruct (hget h l) as [[a|f|k ls|k kls|c fls|c ls]|]; try exact H.
  - destruct (mapO (read n h) ls) as [vs|] eqn:Hm; [|discriminate].
    rewrite (mapO_impl _ (read (S n) h) ls vs (fun x y _ => IH h x y) Hm). exact H.
  - match type of H with option_map _ (mapO ?f kls) = _ => destruct (mapO f kls) as [vs|] eqn:Hm end; [|discriminate].
    erewrite mapO_impl; [exact H | | exact Hm].
    intros kv y _ Hy. cbn beta in *.
    destruct (read n h (fst kv)) as [a|] eqn:Ha; [|discriminate].
    destruct (read n h (snd kv)) as [b|] eqn:Hb; [|discriminate].
    rewrite (IH _ _ _ Ha), (IH _ _ _ Hb). exact Hy.
  - match type of H with option_map _ (mapO ?f fls) = _ => destruct (mapO f fls) as [vs|] eqn:Hm end; [|discriminate].
    erewrite mapO_impl; [exact H | | exact Hm].
    intros fv y _ Hy. cbn beta in *.
    destruct (read n h (snd fv)) as [a|] eqn:Ha; [|discriminate].
    rewrite (IH _ _ _ Ha). exact Hy.
  - destruct (mapO (read n h) ls) as [vs|] eqn:Hm; [|discriminate].
    rewrite (mapO_impl _ (read (S n) h) ls vs (fun x y _ => IH h x y) Hm). exact H.
Qed.

Lemma read_le n m h l x : n <= m -> read n h l = Some x -> read m h l = Some x.
Proof. intros Hle. induction Hle as [|m Hle IH]; [auto|]. intros Hr. apply read_mono. auto. Qed.

Lemma read_ext : forall n h h' l x, ext h h' -> read n h l = Some x -> read n h' l = Some x.
Proof.
  induction n as [|n IH]; intros h h' l x He H; [discriminate|].
  cbn [read] in *. destruct (hget h l) as [nd|] eqn:Hg; [|discriminate].
  rewrite (hget_ext h h' l nd He Hg).
  destruct nd as [a|f|k ls|k kls|c fls|c ls]; try exact H.
  - destruct (mapO (read n h) ls) as [vs|] eqn:Hm; [|discriminate].
    rewrite (mapO_impl _ (read n h') ls vs (fun x y _ => IH h h' x y He) Hm). exact H.
  - match type of H with option_map _ (mapO ?f kls) = _ => destruct (mapO f kls) as [vs|] eqn:Hm end; [|discriminate].
    erewrite mapO_impl; [exact H | | exact Hm].
    intros kv y _ Hy. cbn beta in *.
    destruct (read n h (fst kv)) as [a|] eqn:Ha; [|discriminate].
    destruct (read n h (snd kv)) as [b|] eqn:Hb; [|discriminate].
    rewrite (IH _ _ _ _ He Ha), (IH _ _ _ _ He Hb). exact Hy.
  - match type of H with option_map _ (mapO ?f fls) = _ => destruct (mapO f fls) as [vs|] eqn:Hm end; [|discriminate].
    erewrite mapO_impl; [exact H | | exact Hm].
    intros fv y _ Hy. cbn beta in *.
    destruct (read n h (snd fv)) as [a|] eqn:Ha; [|discriminate].
    rewrite (IH _ _ _ _ He Ha). exact Hy.
  - destruct (mapO (read n h) ls) as [vs|] eqn:Hm; [|discriminate].
    rewrite (mapO_impl _ (read n h') ls vs (fun x y _ => IH h h' x y He) Hm). exact H.
Qed.

Lemma reads_ext h h' l x : ext h h' -> reads h l x -> reads h' l x.
Proof. intros He [n H]. exists n. eapply read_ext; eauto. Qed.

Lemma reads_det h l x y : reads h l x -> reads h l y -> x = y.
Proof.
  intros [n Hn] [m Hm].
  apply (read_le n (n + m)) in Hn; [|lia]. apply (read_le m (n + m)) in Hm; [|lia]. congruence.
Qed.

(* a common fuel for a list of readable locations *)
Lemma Forall2_reads_fuel {A B} (R : nat -> A -> B -> Prop) :
  (forall n m a b, n <= m -> R n a b -> R m a b) ->
  forall l vs, Forall2 (fun a b => exists n, R n a b) l vs -> exists n, Forall2 (R n) l vs.
Proof.
  intros Hmono l vs H. induction H as [|a b l vs [n Hn] _ [m Hm]].
  - exists 0. constructor.
  - exists (n + m). constructor; [eapply Hmono; [|exact Hn]; lia|].
    eapply Forall2_imp; [|exact Hm]. intros a0 b0 H0. eapply Hmono; [|exact H0]. lia.
Qed.

(* the shape of a readable object *)
Definition node_denotes (h : heap) (nd : node) (x : pv) : Prop :=
  match nd, x with
  | HAtom a, PAtom b => a = b
  | HKey f, PKey g => f = g
  | HSeq k ls, PSeq k' vs => k = k' /\ Forall2 (reads h) ls vs
  | HDict k kls, PDict k' kvs =>
      k = k' /\ Forall2 (fun kl kv => reads h (fst kl) (fst kv) /\ reads h (snd kl) (snd kv)) kls kvs
  | HObj c fls, PObj c' fvs => c = c' /\ Forall2 (fun fl fv => fst fl = fst fv /\ reads h (snd fl) (snd fv)) fls fvs
  | HNamed c ls, PNamed c' vs => c = c' /\ Forall2 (reads h) ls vs
  | _, _ => False
  end.

Lemma reads_inv h l x : reads h l x -> exists nd, hget h l = Some nd /\ node_denotes h nd x.
Proof.
  intros [n H]. destruct n as [|n]; [discriminate|]. cbn [read] in H.
  destruct (hget h l) as [nd|]; [|discriminate]. exists nd. split; [reflexivity|].
  destruct nd as [a|f|k ls|k kls|c fls|c ls]; cbn [node_denotes].
  - injection H as <-. reflexivity.
  - injection H as <-. reflexivity.
  - destruct (mapO (read n h) ls) as [vs|] eqn:Hm; [|discriminate]. injection H as <-.
    split; [reflexivity|]. apply mapO_Forall2 in Hm. eapply Forall2_imp; [|exact Hm].
    intros a b Hab. exists n. exact Hab.
  - match type of H with option_map _ (mapO ?f kls) = _ => destruct (mapO f kls) as [vs|] eqn:Hm end; [|discriminate].
    injection H as <-. split; [reflexivity|]. apply mapO_Forall2 in Hm. eapply Forall2_imp; [|exact Hm].
    intros kl kv Hab. cbn beta in Hab.
    destruct (read n h (fst kl)) as [a|] eqn:Ha; [|discriminate].
    destruct (read n h (snd kl)) as [b|] eqn:Hb; [|discriminate].
    injection Hab as <-. split; exists n; assumption.
  - match type of H with option_map _ (mapO ?f fls) = _ => destruct (mapO f fls) as [vs|] eqn:Hm end; [|discriminate].
    injection H as <-. split; [reflexivity|]. apply mapO_Forall2 in Hm. eapply Forall2_imp; [|exact Hm].
    intros fl fv Hab. cbn beta in Hab.
    destruct (read n h (snd fl)) as [a|] eqn:Ha; [|discriminate].
    injection Hab as <-. split; [reflexivity | exists n; assumption].
  - destruct (mapO (read n h) ls) as [vs|] eqn:Hm; [|discriminate]. injection H as <-.
    split; [reflexivity|]. apply mapO_Forall2 in Hm. eapply Forall2_imp; [|exact Hm].
    intros a b Hab. exists n. exact Hab.
Qed.

Lemma reads_intro h l nd x : hget h l = Some nd -> node_denotes h nd x -> reads h l x.
Proof.
  intros Hg Hd. destruct nd as [a|f|k ls|k kls|c fls|c ls]; destruct x as [a'|f'|k' vs|k' kvs|c' fvs|c' vs];
    cbn [node_denotes] in Hd; try contradiction.
  - subst. exists 1. cbn [read]. rewrite Hg. reflexivity.
  - subst. exists 1. cbn [read]. rewrite Hg. reflexivity.
  - destruct Hd as [<- Hd].
    apply (Forall2_reads_fuel (fun n a b => read n h a = Some b)) in Hd; [|intros; eapply read_le; eauto].
    destruct Hd as [n Hn]. exists (S n). cbn [read]. rewrite Hg.
    apply mapO_Forall2 in Hn. rewrite Hn. reflexivity.
  - destruct Hd as [<- Hd].
    assert (Hd' : Forall2 (fun kl kv => exists n, read n h (fst kl) = Some (fst kv) /\ read n h (snd kl) = Some (snd kv)) kls kvs).
    { eapply Forall2_imp; [|exact Hd]. intros a b [[n1 H1] [n2 H2]]. exists (n1 + n2).
      split; eapply read_le; [| exact H1 | | exact H2]; lia. }
    apply (Forall2_reads_fuel (fun n kl kv => read n h (fst kl) = Some (fst kv) /\ read n h (snd kl) = Some (snd kv))) in Hd'.
    2:{ intros n m a b Hle [H1 H2]. split; eapply read_le; eauto. }
    destruct Hd' as [n Hn]. exists (S n). cbn [read]. rewrite Hg.
    match goal with |- option_map _ (mapO ?f kls) = _ => assert (Hm : mapO f kls = Some kvs) end.
    { apply mapO_Forall2. eapply Forall2_imp; [|exact Hn]. intros kl [a b] [H1 H2]. cbn [fst snd] in *.
      rewrite H1, H2. reflexivity. }
    rewrite Hm. reflexivity.
  - destruct Hd as [<- Hd].
    assert (Hd' : Forall2 (fun fl fv => exists n, fst fl = fst fv /\ read n h (snd fl) = Some (snd fv)) fls fvs).
    { eapply Forall2_imp; [|exact Hd]. intros a b [H0 [n1 H1]]. exists n1. split; assumption. }
    apply (Forall2_reads_fuel (fun n fl fv => fst fl = fst fv /\ read n h (snd fl) = Some (snd fv))) in Hd'.
    2:{ intros n m a b Hle [H1 H2]. split; [exact H1 | eapply read_le; eauto]. }
    destruct Hd' as [n Hn]. exists (S n). cbn [read]. rewrite Hg.
    match goal with |- option_map _ (mapO ?f fls) = _ => assert (Hm : mapO f fls = Some fvs) end.
    { apply mapO_Forall2. eapply Forall2_imp; [|exact Hn]. intros fl [g b] [H1 H2]. cbn [fst snd] in *.
      rewrite H2, H1. reflexivity. }
    rewrite Hm. reflexivity.
  - destruct Hd as [<- Hd].
    apply (Forall2_reads_fuel (fun n a b => read n h a = Some b)) in Hd; [|intros; eapply read_le; eauto].
    destruct Hd as [n Hn]. exists (S n). cbn [read]. rewrite Hg.
    apply mapO_Forall2 in Hn. rewrite Hn. reflexivity.
Qed.

Lemma node_denotes_ext h h' nd x : ext h h' -> node_denotes h nd x -> node_denotes h' nd x.
Proof.
  intros He. destruct nd, x; cbn [node_denotes]; try exact (fun H => H);
    intros [Hk H]; (split; [exact Hk|]); (eapply Forall2_imp; [|exact H]); cbn beta.
  - intros a b. apply reads_ext. exact He.
  - intros a b [H1 H2]. split; eapply reads_ext; eauto.
  - intros a b [H1 H2]. split; [exact H1 | eapply reads_ext; eauto].
  - intros a b. apply reads_ext. exact He.
Qed.

(* ------------------------------------------------------------------ reachability *)
Lemma reads_child h l x nd c : reads h l x -> hget h l = Some nd -> In c (children nd) -> exists y, reads h c y.
Proof.
  intros Hr Hg Hc. destruct (reads_inv h l x Hr) as (nd' & Hg' & Hd). rewrite Hg in Hg'. injection Hg' as <-.
  destruct nd as [a|f|k ls|k kls|c0 fls|c0 ls]; destruct x as [a'|f'|k' vs|k' kvs|c' fvs|c' vs];
    cbn [node_denotes children] in *; try contradiction.
  - destruct Hd as [_ Hd]. clear - Hd Hc. induction Hd as [|a b ls vs Hab _ IH]; [contradiction|].
    destruct Hc as [<-|Hc]; [exists b; exact Hab | apply IH; exact Hc].
  - destruct Hd as [_ Hd]. clear - Hd Hc. induction Hd as [|a b ls vs [H1 H2] _ IH]; [contradiction|].
    cbn [flat_map app] in Hc. destruct Hc as [<-|[<-|Hc]]; [exists (fst b); exact H1 | exists (snd b); exact H2 | apply IH; exact Hc].
  - destruct Hd as [_ Hd]. clear - Hd Hc. induction Hd as [|a b ls vs [H1 H2] _ IH]; [contradiction|].
    cbn [map] in Hc. destruct Hc as [<-|Hc]; [exists (snd b); exact H2 | apply IH; exact Hc].
  - destruct Hd as [_ Hd]. clear - Hd Hc. induction Hd as [|a b ls vs Hab _ IH]; [contradiction|].
    destruct Hc as [<-|Hc]; [exists b; exact Hab | apply IH; exact Hc].
Qed.

(* what is reachable from a readable object in a larger heap was reachable before, and lies in the old heap *)
Lemma reach_ext_back h h' l p : ext h h' -> reach h' l p -> forall x, reads h l x -> reach h l p /\ p < length h.
Proof.
  intros He Hr. induction Hr as [l|l nd c p Hg Hc Hr IH]; intros x Hx.
  - destruct (reads_inv h l x Hx) as (nd & Hg & _). split; [constructor | eapply hget_dom; eauto].
  - destruct (reads_inv h l x Hx) as (nd' & Hg' & _).
    rewrite (hget_ext h h' l nd' He Hg') in Hg. injection Hg as <-.
    destruct (reads_child h l x nd' c Hx Hg' Hc) as (y & Hy).
    destruct (IH y Hy) as [H1 H2]. split; [econstructor; eauto | exact H2].
Qed.

Lemma reach_dom h l p x : reads h l x -> reach h l p -> p < length h.
Proof. intros Hx Hr. eapply (reach_ext_back h h l p (ext_refl h) Hr). exact Hx. Qed.

Lemma fresh_from_ext n h h' l x : ext h h' -> reads h l x -> fresh_from n h l -> fresh_from n h' l.
Proof.
  intros He Hx Hf p Hr Hm. destruct (reach_ext_back h h' l p He Hr x Hx) as [Hr' Hp].
  apply Hf; [exact Hr'|]. rewrite <- (mutable_at_ext_dom h h' p He Hp). exact Hm.
Qed.

Lemma fresh_from_le n m h l : n <= m -> fresh_from m h l -> fresh_from n h l.
Proof. intros Hle Hf p Hr Hm. specialize (Hf p Hr Hm). lia. Qed.

(* an immutable childless object shares nothing mutable *)
Lemma fresh_from_atom n h l a : hget h l = Some (HAtom a) -> fresh_from n h l.
Proof.
  intros Hg p Hr Hm. inversion Hr as [|? nd c ? Hg' Hc _]; subst.
  - unfold mutable_at in Hm. rewrite Hg in Hm. discriminate.
  - rewrite Hg in Hg'. injection Hg' as <-. contradiction.
Qed.

(* a new node over members each of which is fresh *)
Lemma fresh_from_new n h nd :
  n <= length h ->
  (forall c, In c (children nd) -> (exists y, reads h c y) /\ fresh_from n h c) ->
  fresh_from n (h ++ [nd]) (length h).
Proof.
  intros Hn Hch p Hr Hm. inversion Hr as [|? nd' c ? Hg Hc Hr']; subst; [exact Hn|].
  rewrite hget_alloc in Hg. injection Hg as <-.
  destruct (Hch c Hc) as [[y Hy] Hf].
  assert (He : ext h (h ++ [nd])) by (exists [nd]; reflexivity).
  destruct (reach_ext_back h (h ++ [nd]) c p He Hr' y Hy) as [Hr0 Hp].
  apply Hf; [exact Hr0|]. rewrite <- (mutable_at_ext_dom h (h ++ [nd]) p He Hp). exact Hm.
Qed.

(* ------------------------------------------------------------------ allocation of whole values *)
(* the part of the heap from index n on points only into itself *)
Definition new_closed (n : nat) (h : heap) : Prop :=
  forall p nd c, n <= p -> hget h p = Some nd -> In c (children nd) -> n <= c.

Lemma new_closed_reach n h l p : new_closed n h -> n <= l -> reach h l p -> n <= p.
Proof. intros Hc Hl Hr. induction Hr as [|l nd c p Hg Hin _ IH]; [assumption|]. apply IH. eapply Hc; eauto. Qed.

Lemma new_closed_trans n h1 h2 :
  ext h1 h2 -> n <= length h1 -> new_closed n h1 -> new_closed (length h1) h2 -> new_closed n h2.
Proof.
  intros He Hn H1 H2 p nd c Hp Hg Hc. destruct (Nat.lt_ge_cases p (length h1)) as [Hlt|Hge].
  - rewrite (hget_ext_dom h1 h2 p He Hlt) in Hg. eapply H1; eauto.
  - specialize (H2 p nd c Hge Hg Hc). lia.
Qed.

Lemma new_closed_self h : new_closed (length h) h.
Proof. intros p nd c Hp Hg _. apply hget_dom in Hg. lia. Qed.

Lemma new_closed_alloc n h nd :
  new_closed n h -> n <= length h -> (forall c, In c (children nd) -> n <= c) -> new_closed n (h ++ [nd]).
Proof.
  intros Hc Hn Hch p nd' c Hp Hg Hin. destruct (Nat.lt_ge_cases p (length h)) as [Hlt|Hge].
  - rewrite (hget_ext_dom h (h ++ [nd]) p (ext_alloc h nd) Hlt) in Hg. eapply Hc; eauto.
  - assert (p = length h).
    { apply hget_dom in Hg. rewrite app_length in Hg. cbn [length] in Hg. lia. }
    subst p. rewrite hget_alloc in Hg. injection Hg as <-. apply Hch. exact Hin.
Qed.

Definition alloc_ok (h : heap) (v : pv) (r : heap * loc) : Prop :=
  ext h (fst r) /\ length h <= snd r /\ reads (fst r) (snd r) v /\ new_closed (length h) (fst r).

Lemma alloc_list_ok f l : Forall (fun x => forall h, alloc_ok h x (f h x)) l ->
  forall h, ext h (fst (alloc_list f h l)) /\ Forall2 (reads (fst (alloc_list f h l))) (snd (alloc_list f h l)) l /\
            Forall (fun c => length h <= c) (snd (alloc_list f h l)) /\ new_closed (length h) (fst (alloc_list f h l)).
Proof.
  induction 1 as [|x l Hx _ IH]; intros h; cbn [alloc_list].
  - cbn [fst snd]. repeat split; [apply ext_refl | constructor | constructor | apply new_closed_self].
  - destruct (Hx h) as (E1 & L1 & R1 & C1). destruct (f h x) as [h1 lx]. cbn [fst snd] in *.
    destruct (IH h1) as (E2 & R2 & L2 & C2). destruct (alloc_list f h1 l) as [h2 lr]. cbn [fst snd] in *.
    pose proof (ext_length _ _ E1) as Hl1.
    repeat split.
    + eapply ext_trans; eauto.
    + constructor; [eapply reads_ext; eauto | exact R2].
    + constructor; [exact L1|]. eapply Forall_impl; [|exact L2]. cbn beta. intros; lia.
    + eapply new_closed_trans; eauto.
Qed.

Lemma alloc_pairs_ok f l : Forall (fun kv => (forall h, alloc_ok h (fst kv) (f h (fst kv))) /\ (forall h, alloc_ok h (snd kv) (f h (snd kv)))) l ->
  forall h, ext h (fst (alloc_pairs f h l)) /\
            Forall2 (fun kl kv => reads (fst (alloc_pairs f h l)) (fst kl) (fst kv) /\ reads (fst (alloc_pairs f h l)) (snd kl) (snd kv))
                    (snd (alloc_pairs f h l)) l /\
            Forall (fun c => length h <= fst c /\ length h <= snd c) (snd (alloc_pairs f h l)) /\
            new_closed (length h) (fst (alloc_pairs f h l)).
Proof.
  induction 1 as [|[a b] l [Ha Hb] _ IH]; intros h; cbn [alloc_pairs].
  - cbn [fst snd]. repeat split; [apply ext_refl | constructor | constructor | apply new_closed_self].
  - cbn [fst snd] in Ha, Hb.
    destruct (Ha h) as (E1 & L1 & R1 & C1). destruct (f h a) as [h1 la]. cbn [fst snd] in *.
    destruct (Hb h1) as (E2 & L2 & R2 & C2). destruct (f h1 b) as [h2 lb]. cbn [fst snd] in *.
    destruct (IH h2) as (E3 & R3 & L3 & C3). destruct (alloc_pairs f h2 l) as [h3 lr]. cbn [fst snd] in *.
    pose proof (ext_length _ _ E1) as Hl1. pose proof (ext_length _ _ E2) as Hl2.
    assert (E12 : ext h h2) by (eapply ext_trans; eauto).
    repeat split.
    + eapply ext_trans; eauto.
    + constructor; [|exact R3]. cbn [fst snd]. split; [apply (reads_ext h1 h3); [eapply ext_trans; [exact E2|exact E3] | exact R1] | apply (reads_ext h2 h3); assumption].
    + constructor; [cbn [fst snd]; lia|]. eapply Forall_impl; [|exact L3]. cbn beta. intros; lia.
    + apply (new_closed_trans (length h) h2 h3); [exact E3 | lia | | exact C3].
      apply (new_closed_trans (length h) h1 h2); assumption.
Qed.

Lemma alloc_fields_ok f l : Forall (fun fv => forall h, alloc_ok h (snd fv) (f h (snd fv))) l ->
  forall h, ext h (fst (alloc_fields f h l)) /\
            Forall2 (fun fl fv => fst fl = fst fv /\ reads (fst (alloc_fields f h l)) (snd fl) (snd fv)) (snd (alloc_fields f h l)) l /\
            Forall (fun c => length h <= snd c) (snd (alloc_fields f h l)) /\
            new_closed (length h) (fst (alloc_fields f h l)).
Proof.
  induction 1 as [|[g a] l Ha _ IH]; intros h; cbn [alloc_fields].
  - cbn [fst snd]. repeat split; [apply ext_refl | constructor | constructor | apply new_closed_self].
  - cbn [fst snd] in Ha.
    destruct (Ha h) as (E1 & L1 & R1 & C1). destruct (f h a) as [h1 la]. cbn [fst snd] in *.
    destruct (IH h1) as (E2 & R2 & L2 & C2). destruct (alloc_fields f h1 l) as [h2 lr]. cbn [fst snd] in *.
    pose proof (ext_length _ _ E1) as Hl1.
    repeat split.
    + eapply ext_trans; eauto.
    + constructor; [|exact R2]. cbn [fst snd]. split; [reflexivity | eapply reads_ext; eauto].
    + constructor; [exact L1|]. eapply Forall_impl; [|exact L2]. cbn beta. intros; lia.
    + eapply new_closed_trans; eauto.
Qed.

Lemma alloc_node_ok h h' nd v :
  ext h h' -> new_closed (length h) h' -> (forall c, In c (children nd) -> length h <= c) -> node_denotes h' nd v ->
  alloc_ok h v (alloc h' nd).
Proof.
  intros He Hc Hch Hd. unfold alloc, alloc_ok. cbn [fst snd]. pose proof (ext_length _ _ He) as Hl.
  repeat split.
  - eapply ext_trans; [exact He | apply ext_alloc].
  - exact Hl.
  - eapply reads_intro; [apply hget_alloc|]. eapply node_denotes_ext; [apply ext_alloc | exact Hd].
  - apply new_closed_alloc; assumption.
Qed.

Lemma alloc_pv_ok : forall v h, alloc_ok h v (alloc_pv h v).
Proof.
  induction v as [a|f|k l IH|k l IH|c l IH|c l IH] using pv_ind'; intros h; cbn [alloc_pv].
  - apply alloc_node_ok; [apply ext_refl | apply new_closed_self | intros c [] | reflexivity].
  - apply alloc_node_ok; [apply ext_refl | apply new_closed_self | intros c [] | reflexivity].
  - destruct (alloc_list_ok alloc_pv l IH h) as (E1 & R1 & L1 & C1). destruct (alloc_list alloc_pv h l) as [h' ls].
    cbn [fst snd] in *. apply alloc_node_ok; try assumption.
    + cbn [children]. intros c Hc. eapply Forall_forall in L1; eauto.
    + split; [reflexivity | exact R1].
  - destruct (alloc_pairs_ok alloc_pv l IH h) as (E1 & R1 & L1 & C1). destruct (alloc_pairs alloc_pv h l) as [h' ls].
    cbn [fst snd] in *. apply alloc_node_ok; try assumption.
    + cbn [children]. intros c Hc. apply in_flat_map in Hc. destruct Hc as (kl & Hin & Hc).
      eapply Forall_forall in L1; [|exact Hin]. destruct Hc as [<-|[<-|[]]]; apply L1.
    + split; [reflexivity | exact R1].
  - destruct (alloc_fields_ok alloc_pv l IH h) as (E1 & R1 & L1 & C1). destruct (alloc_fields alloc_pv h l) as [h' ls].
    cbn [fst snd] in *. apply alloc_node_ok; try assumption.
    + cbn [children]. intros c0 Hc. apply in_map_iff in Hc. destruct Hc as (fl & <- & Hin).
      eapply Forall_forall in L1; [|exact Hin]. exact L1.
    + split; [reflexivity | exact R1].
  - destruct (alloc_list_ok alloc_pv l IH h) as (E1 & R1 & L1 & C1). destruct (alloc_list alloc_pv h l) as [h' ls].
    cbn [fst snd] in *. apply alloc_node_ok; try assumption.
    + cbn [children]. intros c0 Hc. eapply Forall_forall in L1; eauto.
    + split; [reflexivity | exact R1].
Qed.

Lemma alloc_ok_fresh h v r : alloc_ok h v r -> fresh_from (length h) (fst r) (snd r).
Proof. intros (_ & L & _ & C) p Hr _. eapply new_closed_reach; eauto. Qed.

(* ------------------------------------------------------------------ the invariant on located values *)
(* a is readable and (when b holds) every mutable object reachable from it is newer than n *)
Definition okf (b : Prop) (n : nat) (h : heap) (a : lv) : Prop := lv_ok h a /\ (b -> fresh_from n h (fst a)).
Definition okf2 (b : Prop) (n : nat) (h : heap) (p : lv * lv) : Prop := okf b n h (fst p) /\ okf b n h (snd p).

Lemma okf_mono (b b' : Prop) n n' h h' a : ext h h' -> n' <= n -> (b' -> b) -> okf b n h a -> okf b' n' h' a.
Proof.
  intros He Hn Hb [H1 H2]. split; [eapply reads_ext; eauto|].
  intros Hb'. eapply fresh_from_le; [exact Hn|]. eapply fresh_from_ext; eauto.
Qed.
Lemma okf_ext (b : Prop) n h h' a : ext h h' -> okf b n h a -> okf b n h' a.
Proof. intros He. apply okf_mono; [exact He | apply Nat.le_refl | exact (fun x => x)]. Qed.
Lemma okf_lv (b : Prop) n h a : okf b n h a -> lv_ok h a.
Proof. intros [H _]. exact H. Qed.
Lemma lv_okf h a n : lv_ok h a -> okf False n h a.
Proof. intros H. split; [exact H | intros []]. Qed.

Lemma alloc_lv_ok (b : Prop) h v :
  ext h (fst (alloc_lv h v)) /\ snd (snd (alloc_lv h v)) = v /\ okf b (length h) (fst (alloc_lv h v)) (snd (alloc_lv h v)).
Proof.
  unfold alloc_lv. pose proof (alloc_pv_ok v h) as Hok. pose proof (alloc_ok_fresh _ _ _ Hok) as Hf.
  destruct Hok as (E1 & _ & R1 & _). destruct (alloc_pv h v) as [h' l]. cbn [fst snd] in *.
  repeat split; try assumption. intros _. exact Hf.
Qed.

Lemma alloc_lvs_ok (b : Prop) vs : forall h,
  ext h (fst (alloc_lvs h vs)) /\ map snd (snd (alloc_lvs h vs)) = vs /\
  Forall (okf b (length h) (fst (alloc_lvs h vs))) (snd (alloc_lvs h vs)).
Proof.
  induction vs as [|v vs IH]; intros h; cbn [alloc_lvs].
  - cbn [fst snd map]. repeat split; [apply ext_refl | constructor].
  - destruct (alloc_lv_ok b h v) as (E1 & V1 & O1). destruct (alloc_lv h v) as [h1 a]. cbn [fst snd] in *.
    destruct (IH h1) as (E2 & V2 & O2). destruct (alloc_lvs h1 vs) as [h2 t]. cbn [fst snd map] in *.
    pose proof (ext_length _ _ E1) as Hl.
    repeat split.
    + eapply ext_trans; eauto.
    + rewrite V1, V2. reflexivity.
    + constructor; [eapply okf_mono; [exact E2 | apply Nat.le_refl | exact (fun x => x) | exact O1]|].
      eapply Forall_impl; [|exact O2]. intros a0. apply okf_mono; [apply ext_refl | exact Hl | exact (fun x => x)].
Qed.

Lemma alloc_lvpairs_ok (b : Prop) l : forall h,
  ext h (fst (alloc_lvpairs h l)) /\ map vpair (snd (alloc_lvpairs h l)) = l /\
  Forall (okf2 b (length h) (fst (alloc_lvpairs h l))) (snd (alloc_lvpairs h l)).
Proof.
  induction l as [|[k v] l IH]; intros h; cbn [alloc_lvpairs].
  - cbn [fst snd map]. repeat split; [apply ext_refl | constructor].
  - cbn [fst snd].
    destruct (alloc_lv_ok b h k) as (E1 & V1 & O1). destruct (alloc_lv h k) as [h1 a]. cbn [fst snd] in *.
    destruct (alloc_lv_ok b h1 v) as (E2 & V2 & O2). destruct (alloc_lv h1 v) as [h2 c]. cbn [fst snd] in *.
    destruct (IH h2) as (E3 & V3 & O3). destruct (alloc_lvpairs h2 l) as [h3 t]. cbn [fst snd map] in *.
    pose proof (ext_length _ _ E1) as Hl1. pose proof (ext_length _ _ E2) as Hl2.
    repeat split.
    + eapply ext_trans; [|exact E3]. eapply ext_trans; eauto.
    + unfold vpair at 1. cbn [fst snd]. rewrite V1, V2, V3. reflexivity.
    + constructor.
      * split; cbn [fst snd].
        -- eapply okf_mono; [eapply ext_trans; [exact E2|exact E3] | apply Nat.le_refl | exact (fun x => x) | exact O1].
        -- eapply okf_mono; [exact E3 | exact Hl1 | exact (fun x => x) | exact O2].
      * eapply Forall_impl; [|exact O3]. intros p [P1 P2].
        split; (eapply okf_mono; [apply ext_refl | | exact (fun x => x) | eassumption]); lia.
Qed.

(* new keys for existing members *)
Lemma alloc_keyed_ok (b : Prop) n l : forall h, n <= length h -> Forall (fun kv => okf b n h (snd kv)) l ->
  ext h (fst (alloc_keyed h l)) /\ map vpair (snd (alloc_keyed h l)) = map (fun kv => (fst kv, snd (snd kv))) l /\
  map snd (snd (alloc_keyed h l)) = map snd l /\
  Forall (okf2 b n (fst (alloc_keyed h l))) (snd (alloc_keyed h l)).
Proof.
  induction l as [|[k v] l IH]; intros h Hn Hl; cbn [alloc_keyed].
  - cbn [fst snd map]. repeat split; [apply ext_refl | constructor].
  - inversion Hl as [|? ? Hv Hl']; subst. cbn [fst snd] in *.
    destruct (alloc_lv_ok b h k) as (E1 & V1 & O1). destruct (alloc_lv h k) as [h1 a]. cbn [fst snd] in *.
    pose proof (ext_length _ _ E1) as Hl1.
    destruct (IH h1) as (E2 & V2 & S2 & O2); [lia | |].
    { eapply Forall_impl; [|exact Hl']. intros kv. apply okf_mono; [exact E1 | apply Nat.le_refl | exact (fun x => x)]. }
    destruct (alloc_keyed h1 l) as [h2 t]. cbn [fst snd map] in *.
    repeat split.
    + eapply ext_trans; eauto.
    + unfold vpair at 1. cbn [fst snd]. rewrite V1, V2. reflexivity.
    + rewrite S2. reflexivity.
    + constructor; [|exact O2]. split; cbn [fst snd].
      * eapply okf_mono; [exact E2 | exact Hn | exact (fun x => x) | exact O1].
      * apply (okf_mono b b n n h h2); [eapply ext_trans; [exact E1|exact E2] | apply Nat.le_refl | exact (fun x => x) | exact Hv].
Qed.

(* ------------------------------------------------------------------ heap-level step  vs  value-level step *)
Definition hspec {A B} (proj : A -> B) (okA : heap -> A -> Prop) (h : heap) (r : hres A) (v : res B) : Prop :=
  match r, v with
  | Ok (h', a), Ok b => ext h h' /\ proj a = b /\ okA h' a
  | Raise e, Raise e' => e = e'
  | OutOfFuel, OutOfFuel => True
  | Unmodelled, Unmodelled => True
  | _, _ => False
  end.

Lemma hspec_base {A B} (pa : A -> B) okA h0 h r v : ext h0 h -> hspec pa okA h r v -> hspec pa okA h0 r v.
Proof.
  intros He. destruct r as [[h' a]|e| |], v as [b|e'| |]; cbn [hspec]; try exact (fun H => H).
  intros (E & P & O). repeat split; try assumption. eapply ext_trans; eauto.
Qed.

Lemma hspec_weaken {A B} (pa : A -> B) (okA okA' : heap -> A -> Prop) h r v :
  (forall h' a, ext h h' -> okA h' a -> okA' h' a) -> hspec pa okA h r v -> hspec pa okA' h r v.
Proof.
  intros Hw. destruct r as [[h' a]|e| |], v as [b|e'| |]; cbn [hspec]; try exact (fun H => H).
  intros (E & P & O). repeat split; try assumption. apply Hw; assumption.
Qed.

Lemma hspec_bind {A B A' B'} (pa : A -> A') (pb : B -> B') okA okB h r v f g :
  hspec pa okA h r v ->
  (forall h' a, ext h h' -> okA h' a -> hspec pb okB h' (f h' a) (g (pa a))) ->
  hspec pb okB h (hbind r f) (bind v g).
Proof.
  intros H Hf. destruct r as [[h' a]|e| |], v as [b|e'| |]; cbn [hspec hbind bind] in *; try contradiction; try exact H.
  destruct H as (E & <- & O). eapply hspec_base; [exact E|]. apply Hf; assumption.
Qed.

Lemma hspec_ok {A B} (pa : A -> B) (okA : heap -> A -> Prop) h h' a b :
  ext h h' -> pa a = b -> okA h' a -> hspec pa okA h (Ok (h', a)) (Ok b).
Proof. intros. cbn [hspec]. auto. Qed.

Lemma hmapM_spec {A B A' B'} (pa : A -> A') (pb : B -> B') (okA : heap -> A -> Prop) (okB : heap -> B -> Prop) f g :
  (forall h h' a, ext h h' -> okA h a -> okA h' a) ->
  (forall h h' b, ext h h' -> okB h b -> okB h' b) ->
  forall l h, Forall (okA h) l ->
  (forall h' a, ext h h' -> In a l -> okA h' a -> hspec pb okB h' (f h' a) (g (pa a))) ->
  hspec (map pb) (fun h' l' => Forall (okB h') l') h (hmapM f h l) (mapM g (map pa l)).
Proof.
  intros MA MB. induction l as [|x l IH]; intros h Hl Hf; cbn [hmapM mapM map].
  - apply hspec_ok; [apply ext_refl | reflexivity | constructor].
  - inversion Hl as [|? ? Hx Hl']; subst.
    eapply hspec_bind; [apply Hf; [apply ext_refl | left; reflexivity | exact Hx]|].
    intros h1 y E1 Oy. cbn beta.
    eapply (hspec_bind (map pb) (map pb)); [apply IH|].
    + eapply Forall_impl; [|exact Hl']. intros a. apply MA. exact E1.
    + intros h' a E' Hin. apply Hf; [eapply ext_trans; eauto | right; exact Hin].
    + intros h2 t E2 Ot. cbn beta. apply hspec_ok; [apply ext_refl | reflexivity|].
      constructor; [eapply MB; eauto | exact Ot].
Qed.

(* ------------------------------------------------------------------ list helpers *)
Lemma combine_reads h ls vs : Forall2 (reads h) ls vs ->
  map snd (combine ls vs) = vs /\ map fst (combine ls vs) = ls /\ Forall (lv_ok h) (combine ls vs) /\ length ls = length vs.
Proof.
  induction 1 as [|a b ls vs Hab _ IH]; cbn [combine map length]; [repeat split; constructor|].
  destruct IH as (I1 & I2 & I3 & I4). rewrite I1, I2, I4. repeat split. constructor; [exact Hab | exact I3].
Qed.

Lemma Forall2_map {A B A' B'} (R : A' -> B' -> Prop) (f : A -> A') (g : B -> B') l l' :
  Forall2 (fun a b => R (f a) (g b)) l l' -> Forall2 R (map f l) (map g l').
Proof. induction 1; cbn [map]; constructor; auto. Qed.

Lemma Forall_snd_combine {A B} (P : B -> Prop) (ks : list A) : forall m, Forall P m -> Forall P (map snd (combine ks m)).
Proof.
  induction ks as [|k ks IH]; intros m Hm; cbn [combine map]; [constructor|].
  destruct m as [|x m]; cbn [map]; [constructor|]. inversion Hm; subst. constructor; auto.
Qed.

Lemma combine3 {K} (ks : list K) : forall (ls : list loc) (vs : list pv), length ls = length vs ->
  map (fun kv : K * lv => (fst kv, snd (snd kv))) (combine ks (combine ls vs)) = combine ks vs.
Proof.
  induction ks as [|k ks IH]; intros ls vs Hl; cbn [combine map]; [reflexivity|].
  destruct ls as [|l ls], vs as [|v vs]; cbn [combine map length] in *; try discriminate; [reflexivity|].
  cbn [fst snd]. rewrite IH; [reflexivity | lia].
Qed.

Lemma combine_map2 {A B C} (f : A -> B) (g : A -> C) l : combine (map f l) (map g l) = map (fun x => (f x, g x)) l.
Proof. induction l as [|x l IH]; cbn [map combine]; [reflexivity|]. rewrite IH. reflexivity. Qed.

Section IO.
Variable rt : runtime.
Variable E : env.

Lemma enumerate_snd : forall l i, map snd (enumerate_from rt i l) = l.
Proof. induction l as [|x l IH]; intros i; cbn [enumerate_from map]; [reflexivity|]. cbn [snd]. rewrite IH. reflexivity. Qed.
Lemma combine_fst_snd {A B} (l : list (A * B)) : combine (map fst l) (map snd l) = l.
Proof. induction l as [|[a b] l IH]; cbn [map combine]; [reflexivity|]. cbn [fst snd]. rewrite IH. reflexivity. Qed.

Definition lvs_ok (h : heap) (l : list lv) : Prop := Forall (lv_ok h) l.
Definition pair_ok (h : heap) (p : lv * lv) : Prop := lv_ok h (fst p) /\ lv_ok h (snd p).
Definition pairs_ok (h : heap) (l : list (lv * lv)) : Prop := Forall (pair_ok h) l.

Lemma lv_ok_ext h h' a : ext h h' -> lv_ok h a -> lv_ok h' a.
Proof. intros He. apply reads_ext. exact He. Qed.
Lemma pair_ok_ext h h' p : ext h h' -> pair_ok h p -> pair_ok h' p.
Proof. intros He [H1 H2]. split; eapply lv_ok_ext; eauto. Qed.

Lemma okf2_pair_ok b n h p : okf2 b n h p -> pair_ok h p.
Proof. intros [[H1 _] [H2 _]]. split; assumption. Qed.

Lemma hload_spec h a : lv_ok h a -> hspec snd lv_ok h (hload rt h a) (load rt (snd a)).
Proof.
  intros Ha. unfold hload, load. destruct (is_scalar (snd a)).
  - destruct (load_scalar rt (snd a)) as [d|e| |]; cbn [bind hspec]; try reflexivity; try exact I.
    destruct (alloc_lv_ok False h d) as (E1 & V1 & O1). destruct (alloc_lv h d) as [h' r]. cbn [fst snd] in *.
    repeat split; try assumption. apply O1.
  - apply hspec_ok; [apply ext_refl | reflexivity | exact Ha].
Qed.

Lemma hitervalues_spec h a : lv_ok h a -> hspec (map snd) lvs_ok h (hitervalues rt h a) (itervalues rt (snd a)).
Proof.
  intros Ha. destruct a as [l x]. unfold hitervalues. cbn [fst snd] in *.
  destruct (itervalues rt x) as [vs|e| |] eqn:Hi; cbn [bind hspec]; try reflexivity; try exact I.
  destruct (is_scalar x) eqn:Hs.
  - destruct (alloc_lvs_ok False vs h) as (E1 & V1 & O1). destruct (alloc_lvs h vs) as [h' r]. cbn [fst snd hspec] in *.
    repeat split; try assumption. eapply Forall_impl; [|exact O1]. intros a0. apply okf_lv.
  - destruct (reads_inv h l x Ha) as (nd & Hg & Hd). rewrite Hg.
    destruct x as [a'|f'|k' ws|k' kvs|c' fvs|c' ws]; try discriminate Hs;
      destruct nd as [a|f|k ls|k kls|c fls|c ls]; cbn [node_denotes] in Hd; try contradiction;
      cbn [itervalues] in Hi; injection Hi as <-; destruct Hd as [_ Hd]; cbn [value_locs hspec].
    + destruct (combine_reads h ls ws Hd) as (C1 & _ & C3 & _). repeat split; [apply ext_refl | exact C1 | exact C3].
    + assert (Hd' : Forall2 (reads h) (map snd kls) (map snd kvs)).
      { apply Forall2_map. eapply Forall2_imp; [|exact Hd]. intros a b [_ H]. exact H. }
      destruct (combine_reads h _ _ Hd') as (C1 & _ & C3 & _). repeat split; [apply ext_refl | exact C1 | exact C3].
    + assert (Hd' : Forall2 (reads h) (map snd fls) (map snd fvs)).
      { apply Forall2_map. eapply Forall2_imp; [|exact Hd]. intros a b [_ H]. exact H. }
      destruct (combine_reads h _ _ Hd') as (C1 & _ & C3 & _). repeat split; [apply ext_refl | exact C1 | exact C3].
    + destruct (combine_reads h ls ws Hd) as (C1 & _ & C3 & _). repeat split; [apply ext_refl | exact C1 | exact C3].
Qed.

Lemma hunpack2_spec h a : lv_ok h a -> hspec vpair pair_ok h (hunpack2 rt h a) (unpack2 rt (snd a)).
Proof.
  intros Ha. destruct a as [l x]. unfold hunpack2. cbn [fst snd] in *.
  destruct (unpack2 rt x) as [[p1 p2]|e| |] eqn:Hu; cbn [bind hspec]; try reflexivity; try exact I.
  destruct (is_scalar x) eqn:Hs.
  - cbn [fst snd].
    destruct (alloc_lv_ok False h p1) as (E1 & V1 & O1). destruct (alloc_lv h p1) as [h1 r1]. cbn [fst snd] in *.
    destruct (alloc_lv_ok False h1 p2) as (E2 & V2 & O2). destruct (alloc_lv h1 p2) as [h2 r2]. cbn [fst snd hspec] in *.
    repeat split.
    + eapply ext_trans; eauto.
    + unfold vpair. cbn [fst snd]. rewrite V1, V2. reflexivity.
    + cbn [fst]. eapply lv_ok_ext; [exact E2 | apply O1].
    + cbn [snd]. apply O2.
  - destruct (reads_inv h l x Ha) as (nd & Hg & Hd). rewrite Hg.
    destruct x as [a'|f'|k' ws|k' kvs|c' fvs|c' ws]; try discriminate Hs;
      destruct nd as [a|f|k ls|k kls|c fls|c ls]; cbn [node_denotes] in Hd; try contradiction;
      cbn [unpack2] in Hu; try discriminate Hu; destruct Hd as [_ Hd]; cbn [iter_locs].
    + destruct ws as [|w1 [|w2 [|w3 ws]]]; try discriminate Hu. injection Hu as <- <-.
      inversion Hd as [|l1 ? ls1 ? H1 Hd1]; subst. inversion Hd1 as [|l2 ? ls2 ? H2 Hd2]; subst. inversion Hd2; subst.
      cbn [hspec fst snd]. repeat split; try assumption. apply ext_refl.
    + destruct kvs as [|[w1 v1] [|[w2 v2] [|w3 kvs]]]; try discriminate Hu. injection Hu as <- <-.
      inversion Hd as [|l1 ? ls1 ? [H1 _] Hd1]; subst. inversion Hd1 as [|l2 ? ls2 ? [H2 _] Hd2]; subst. inversion Hd2; subst.
      cbn [map hspec fst snd]. repeat split; try assumption. apply ext_refl.
    + destruct ws as [|w1 [|w2 [|w3 ws]]]; try discriminate Hu. injection Hu as <- <-.
      inversion Hd as [|l1 ? ls1 ? H1 Hd1]; subst. inversion Hd1 as [|l2 ? ls2 ? H2 Hd2]; subst. inversion Hd2; subst.
      cbn [hspec fst snd]. repeat split; try assumption. apply ext_refl.
Qed.

Lemma combine_pairs_ok h kls kvs :
  Forall2 (fun kl kv => reads h (fst kl) (fst kv) /\ reads h (snd kl) (snd kv)) kls kvs ->
  map vpair (combine (combine (map fst kls) (map fst kvs)) (combine (map snd kls) (map snd kvs))) = kvs /\
  pairs_ok h (combine (combine (map fst kls) (map fst kvs)) (combine (map snd kls) (map snd kvs))).
Proof.
  induction 1 as [|[la lb] [va vb] kls kvs [H1 H2] _ [I1 I2]]; cbn [map combine fst snd]; [split; constructor|].
  split; [unfold vpair at 1; cbn [fst snd]; rewrite I1; reflexivity|].
  constructor; [split; assumption | exact I2].
Qed.

Lemma hiteritems_spec h a : lv_ok h a -> hspec (map vpair) pairs_ok h (hiteritems rt E h a) (iteritems rt E (snd a)).
Proof.
  intros Ha. destruct a as [l x]. unfold hiteritems. cbn [fst snd] in *.
  assert (Hsc : forall y, is_scalar y = true -> y = x ->
            hspec (map vpair) pairs_ok h (bind (items_scalar rt y) (fun kvs => Ok (alloc_lvpairs h kvs))) (items_scalar rt y)).
  { intros y _ _. destruct (items_scalar rt y) as [kvs|e| |]; cbn [bind hspec]; try reflexivity; try exact I.
    destruct (alloc_lvpairs_ok False kvs h) as (E1 & V1 & O1). destruct (alloc_lvpairs h kvs) as [h' r]. cbn [fst snd] in *.
    repeat split; try assumption. eapply Forall_impl; [|exact O1]. intros p. apply okf2_pair_ok. }
  destruct x as [a'|f'|k' ws|k' kvs|c' fvs|c' ws]; cbn [iteritems].
  - apply Hsc; reflexivity.
  - apply Hsc; reflexivity.
  - destruct (reads_inv h l _ Ha) as (nd & Hg & Hd). rewrite Hg.
    destruct nd as [a|f|k ls|k kls|c fls|c ls]; cbn [node_denotes] in Hd; try contradiction. destruct Hd as [_ Hd].
    destruct (combine_reads h ls ws Hd) as (C1 & C2 & C3 & C4).
    destruct ws as [|w ws]; [apply hspec_ok; [apply ext_refl | reflexivity | constructor]|].
    destruct (pairlike rt w).
    + rewrite <- C1 at 2.
      apply (hmapM_spec snd vpair lv_ok pair_ok); [intros; eapply lv_ok_ext; eauto | intros; eapply pair_ok_ext; eauto | exact C3 |].
      intros h' a0 E' _ Ha0. apply hunpack2_spec. exact Ha0.
    + set (en := enumerate_from rt 0 (w :: ws)).
      destruct (alloc_keyed_ok False 0 (combine (map fst en) (combine ls (w :: ws))) h) as (E1 & V1 & _ & O1); [lia | |].
      { apply Forall_forall. intros kv Hin. apply lv_okf.
        assert (Hin' : In (snd kv) (map snd (combine (map fst en) (combine ls (w :: ws))))) by (apply in_map; exact Hin).
        eapply Forall_forall in Hin'; [exact Hin' | apply Forall_snd_combine; exact C3]. }
      destruct (alloc_keyed h (combine (map fst en) (combine ls (w :: ws)))) as [h' r]. cbn [fst snd hspec] in *.
      repeat split; [exact E1 | | eapply Forall_impl; [|exact O1]; intros p; apply okf2_pair_ok].
      rewrite V1. etransitivity; [apply (combine3 (map fst en) ls (w :: ws) C4)|].
      rewrite <- (enumerate_snd (w :: ws) 0) at 1. apply combine_fst_snd.
  - destruct (reads_inv h l _ Ha) as (nd & Hg & Hd). rewrite Hg.
    destruct nd as [a|f|k ls|k kls|c fls|c ls]; cbn [node_denotes] in Hd; try contradiction. destruct Hd as [_ Hd].
    destruct (combine_pairs_ok h kls kvs Hd) as [C1 C2].
    apply hspec_ok; [apply ext_refl | exact C1 | exact C2].
  - destruct (reads_inv h l _ Ha) as (nd & Hg & Hd). rewrite Hg.
    destruct nd as [a|f|k ls|k kls|c fls|c ls]; cbn [node_denotes] in Hd; try contradiction. destruct Hd as [_ Hd].
    assert (Hd' : Forall2 (reads h) (map snd fls) (map snd fvs)).
    { apply Forall2_map. eapply Forall2_imp; [|exact Hd]. intros a b [_ H]. exact H. }
    destruct (combine_reads h _ _ Hd') as (C1 & C2 & C3 & C4).
    set (ks := map (fun fv : nat * pv => PKey (fst fv)) fvs).
    destruct (alloc_keyed_ok False 0 (combine ks (combine (map snd fls) (map snd fvs))) h) as (E1 & V1 & _ & O1); [lia | |].
    { apply Forall_forall. intros kv Hin. apply lv_okf.
      assert (Hin' : In (snd kv) (map snd (combine ks (combine (map snd fls) (map snd fvs))))) by (apply in_map; exact Hin).
      eapply Forall_forall in Hin'; [exact Hin' | apply Forall_snd_combine; exact C3]. }
    destruct (alloc_keyed h (combine ks (combine (map snd fls) (map snd fvs)))) as [h' r]. cbn [fst snd hspec] in *.
    repeat split; [exact E1 | | eapply Forall_impl; [|exact O1]; intros p; apply okf2_pair_ok].
    rewrite V1. etransitivity; [apply (combine3 ks _ _ C4)|]. unfold ks. apply combine_map2.
  - destruct (reads_inv h l _ Ha) as (nd & Hg & Hd). rewrite Hg.
    destruct nd as [a|f|k ls|k kls|c fls|c ls]; cbn [node_denotes] in Hd; try contradiction. destruct Hd as [_ Hd].
    destruct (combine_reads h ls ws Hd) as (C1 & C2 & C3 & C4).
    set (ks := map PKey (named_fields E c')).
    destruct (alloc_keyed_ok False 0 (combine ks (combine ls ws)) h) as (E1 & V1 & _ & O1); [lia | |].
    { apply Forall_forall. intros kv Hin. apply lv_okf.
      assert (Hin' : In (snd kv) (map snd (combine ks (combine ls ws)))) by (apply in_map; exact Hin).
      eapply Forall_forall in Hin'; [exact Hin' | apply Forall_snd_combine; exact C3]. }
    destruct (alloc_keyed h (combine ks (combine ls ws))) as [h' r]. cbn [fst snd hspec] in *.
    repeat split; [exact E1 | | eapply Forall_impl; [|exact O1]; intros p; apply okf2_pair_ok].
    rewrite V1. apply combine3. exact C4.
Qed.

End IO.

(* ------------------------------------------------------------------ new containers over existing members *)
Lemma Forall2_fst_snd (R : loc -> pv -> Prop) (l : list lv) : Forall (fun a => R (fst a) (snd a)) l -> Forall2 R (map fst l) (map snd l).
Proof. induction 1; cbn [map]; constructor; auto. Qed.

Lemma alloc_new_node (b : Prop) n h nd v :
  n <= length h -> node_denotes h nd v ->
  (forall c, In c (children nd) -> (exists y, reads h c y) /\ (b -> fresh_from n h c)) ->
  ext h (h ++ [nd]) /\ okf b n (h ++ [nd]) (length h, v).
Proof.
  intros Hn Hd Hch. split; [apply ext_alloc|]. split.
  - eapply reads_intro; [apply hget_alloc|]. eapply node_denotes_ext; [apply ext_alloc | exact Hd].
  - intros Hb. cbn [fst]. apply fresh_from_new; [exact Hn|]. intros c Hc. destruct (Hch c Hc) as [H1 H2]. split; auto.
Qed.

Lemma alloc_seq_ok (b : Prop) n h k l : n <= length h -> Forall (okf b n h) l ->
  ext h (fst (alloc_seq h k l)) /\ snd (snd (alloc_seq h k l)) = PSeq k (map snd l) /\
  okf b n (fst (alloc_seq h k l)) (snd (alloc_seq h k l)) /\ length h <= fst (snd (alloc_seq h k l)).
Proof.
  intros Hn Hl. unfold alloc_seq, alloc. cbn [fst snd].
  destruct (alloc_new_node b n h (HSeq k (map fst l)) (PSeq k (map snd l)) Hn) as [E1 O1].
  - split; [reflexivity|]. apply Forall2_fst_snd. eapply Forall_impl; [|exact Hl]. intros a [H _]. exact H.
  - cbn [children]. intros c Hc. apply in_map_iff in Hc. destruct Hc as (a & <- & Hin).
    eapply Forall_forall in Hl; [|exact Hin]. destruct Hl as [H1 H2]. split; [exists (snd a); exact H1 | exact H2].
  - repeat split; try assumption; try apply O1. apply Nat.le_refl.
Qed.

Lemma alloc_named_ok (b : Prop) n h c l : n <= length h -> Forall (fun q : nat * lv => okf b n h (snd q)) l ->
  ext h (fst (alloc_named h c l)) /\ snd (snd (alloc_named h c l)) = PNamed c (map (fun q => snd (snd q)) l) /\
  okf b n (fst (alloc_named h c l)) (snd (alloc_named h c l)) /\ length h <= fst (snd (alloc_named h c l)).
Proof.
  intros Hn Hl. unfold alloc_named, alloc. cbn [fst snd].
  destruct (alloc_new_node b n h (HNamed c (map (fun q => fst (snd q)) l)) (PNamed c (map (fun q => snd (snd q)) l)) Hn) as [E1 O1].
  - split; [reflexivity|]. induction Hl as [|q l [Hq _] _ IH]; cbn [map]; constructor; [exact Hq | exact IH].
  - cbn [children]. intros c0 Hc. apply in_map_iff in Hc. destruct Hc as (q & <- & Hin).
    eapply Forall_forall in Hl; [|exact Hin]. destruct Hl as [H1 H2]. split; [exists (snd (snd q)); exact H1 | exact H2].
  - repeat split; try assumption; try apply O1. apply Nat.le_refl.
Qed.

Lemma alloc_obj_ok (b : Prop) n h c l : n <= length h -> Forall (fun q : nat * lv => okf b n h (snd q)) l ->
  ext h (fst (alloc_obj h c l)) /\ snd (snd (alloc_obj h c l)) = PObj c (map vfield l) /\
  okf b n (fst (alloc_obj h c l)) (snd (alloc_obj h c l)) /\ length h <= fst (snd (alloc_obj h c l)).
Proof.
  intros Hn Hl. unfold alloc_obj, alloc. cbn [fst snd].
  destruct (alloc_new_node b n h (HObj c (map lfield l)) (PObj c (map vfield l)) Hn) as [E1 O1].
  - split; [reflexivity|]. induction Hl as [|q l [Hq _] _ IH]; cbn [map]; constructor; [split; [reflexivity | exact Hq] | exact IH].
  - cbn [children]. intros c0 Hc. rewrite map_map in Hc. apply in_map_iff in Hc. destruct Hc as (q & <- & Hin).
    eapply Forall_forall in Hl; [|exact Hin]. destruct Hl as [H1 H2]. split; [exists (snd (snd q)); exact H1 | exact H2].
  - repeat split; try assumption; try apply O1. apply Nat.le_refl.
Qed.

Lemma alloc_dict_ok (b : Prop) n h k l : n <= length h -> Forall (okf2 b n h) l ->
  ext h (fst (alloc_dict h k l)) /\ snd (snd (alloc_dict h k l)) = PDict k (map vpair l) /\
  okf b n (fst (alloc_dict h k l)) (snd (alloc_dict h k l)) /\ length h <= fst (snd (alloc_dict h k l)).
Proof.
  intros Hn Hl. unfold alloc_dict, alloc. cbn [fst snd].
  destruct (alloc_new_node b n h (HDict k (map lpair l)) (PDict k (map vpair l)) Hn) as [E1 O1].
  - split; [reflexivity|]. induction Hl as [|q l [[H1 _] [H2 _]] _ IH]; cbn [map]; constructor; [split; assumption | exact IH].
  - cbn [children]. intros c0 Hc. apply in_flat_map in Hc. destruct Hc as (kl & Hin & Hc).
    apply in_map_iff in Hin. destruct Hin as (q & <- & Hin).
    eapply Forall_forall in Hl; [|exact Hin]. destruct Hl as [[H1 H2] [H3 H4]].
    destruct Hc as [<-|[<-|[]]]; cbn [lpair fst snd].
    + split; [exists (snd (fst q)); exact H1 | exact H2].
    + split; [exists (snd (snd q)); exact H3 | exact H4].
  - repeat split; try assumption; try apply O1. apply Nat.le_refl.
Qed.

Lemma forallb_ext' {A} (f g : A -> bool) l : (forall x, f x = g x) -> forallb f l = forallb g l.
Proof. intros H. induction l as [|x l IH]; cbn [forallb]; [reflexivity|]. rewrite H, IH. reflexivity. Qed.

Section Construct.
Variable rt : runtime.
Variable b : Prop.
Variable n : nat.

Lemma hdedupe_spec l : forall seen, map snd (hdedupe rt l seen) = dedupe rt (map snd l) seen.
Proof.
  induction l as [|x l IH]; intros seen; cbn [hdedupe dedupe map]; [reflexivity|].
  destruct (mem_pv rt (snd x) seen); [apply IH|]. cbn [map]. rewrite IH. reflexivity.
Qed.
Lemma hdedupe_Forall (P : lv -> Prop) l : Forall P l -> forall seen, Forall P (hdedupe rt l seen).
Proof.
  induction 1 as [|x l Hx _ IH]; intros seen; cbn [hdedupe]; [constructor|].
  destruct (mem_pv rt (snd x) seen); [apply IH|]. constructor; [exact Hx | apply IH].
Qed.

Lemma hdict_set_spec k v d : map vpair (hdict_set rt k v d) = dict_set rt (snd k) (snd v) (map vpair d).
Proof.
  induction d as [|[k' v'] d IH]; cbn [hdict_set dict_set map]; [reflexivity|].
  unfold vpair at 2. cbn [fst snd]. destruct (pv_pyeq rt (snd k) (snd k')); cbn [map]; [reflexivity|]. rewrite IH. reflexivity.
Qed.
Lemma hdict_of_spec l : map vpair (hdict_of rt l) = dict_of rt (map vpair l).
Proof.
  unfold hdict_of, dict_of.
  assert (G : forall d, map vpair (fold_left (fun d kv => hdict_set rt (fst kv) (snd kv) d) l d) =
                        fold_left (fun d kv => dict_set rt (fst kv) (snd kv) d) (map vpair l) (map vpair d)).
  { induction l as [|kv l IH]; intros d; cbn [fold_left map]; [reflexivity|]. rewrite IH, hdict_set_spec. reflexivity. }
  apply (G []).
Qed.
Lemma hdict_set_Forall (P : lv -> Prop) k v d : P k -> P v ->
  Forall (fun p => P (fst p) /\ P (snd p)) d -> Forall (fun p => P (fst p) /\ P (snd p)) (hdict_set rt k v d).
Proof.
  intros Hk Hv Hd. induction Hd as [|[k' v'] d [H1 H2] Hd' IH]; cbn [hdict_set].
  - constructor; [split; assumption | constructor].
  - cbn [fst snd] in *. destruct (pv_pyeq rt (snd k) (snd k')); constructor; try assumption; try (split; assumption).
Qed.
Lemma hdict_of_Forall (P : lv -> Prop) l :
  Forall (fun p => P (fst p) /\ P (snd p)) l -> Forall (fun p => P (fst p) /\ P (snd p)) (hdict_of rt l).
Proof.
  unfold hdict_of. intros Hl.
  assert (G : forall d, Forall (fun p => P (fst p) /\ P (snd p)) d ->
                        Forall (fun p => P (fst p) /\ P (snd p)) (fold_left (fun d kv => hdict_set rt (fst kv) (snd kv) d) l d)).
  { induction Hl as [|kv l [H1 H2] _ IH]; intros d Hd; cbn [fold_left]; [exact Hd|]. apply IH. apply hdict_set_Forall; assumption. }
  apply G. constructor.
Qed.

Definition new_ok (h0 : heap) (h' : heap) (a : lv) : Prop := okf b n h' a /\ length h0 <= fst a.

Lemma hconstruct_seq_spec k h l : n <= length h -> Forall (okf b n h) l ->
  hspec snd (new_ok h) h (hconstruct_seq rt k h l) (construct_seq rt k (map snd l)).
Proof.
  intros Hn Hl. unfold hconstruct_seq, construct_seq.
  assert (Hplain : hspec snd (new_ok h) h (Ok (alloc_seq h k l)) (Ok (PSeq k (map snd l)))).
  { destruct (alloc_seq_ok b n h k l Hn Hl) as (E1 & V1 & O1 & L1). destruct (alloc_seq h k l) as [h' r]. cbn [fst snd hspec] in *.
    split; [exact E1 | split; [exact V1 | split; assumption]]. }
  assert (Hset : hspec snd (new_ok h) h
                   (if existsb (unhashable rt) (map snd l) then Raise EType else Ok (alloc_seq h k (hdedupe rt l [])))
                   (if existsb (unhashable rt) (map snd l) then Raise EType else Ok (PSeq k (dedupe rt (map snd l) [])))).
  { destruct (existsb (unhashable rt) (map snd l)); [reflexivity|].
    destruct (alloc_seq_ok b n h k (hdedupe rt l []) Hn (hdedupe_Forall _ l Hl [])) as (E1 & V1 & O1 & L1).
    destruct (alloc_seq h k (hdedupe rt l [])) as [h' r]. cbn [fst snd hspec] in *.
    rewrite hdedupe_spec in V1. split; [exact E1 | split; [exact V1 | split; assumption]]. }
  destruct k; assumption.
Qed.

Lemma hconstruct_map_spec k h l : n <= length h -> Forall (okf2 b n h) l ->
  hspec snd (new_ok h) h (hconstruct_map rt k h l) (construct_map rt k (map vpair l)).
Proof.
  intros Hn Hl. unfold hconstruct_map, construct_map.
  destruct (existsb (fun kv => unhashable rt (fst kv)) (map vpair l)); [reflexivity|].
  destruct (alloc_dict_ok b n h k (hdict_of rt l) Hn (hdict_of_Forall (okf b n h) l Hl)) as (E1 & V1 & O1 & L1).
  destruct (alloc_dict h k (hdict_of rt l)) as [h' r]. cbn [fst snd hspec] in *.
  rewrite hdict_of_spec in V1. split; [exact E1 | split; [exact V1 | split; assumption]].
Qed.

Definition kw_okf (h : heap) (kw : list (nat * lv)) : Prop := Forall (fun q => okf b n h (snd q)) kw.
Lemma kw_okf_ext h h' kw : ext h h' -> kw_okf h kw -> kw_okf h' kw.
Proof.
  intros He. apply Forall_impl. intros q. apply okf_mono; [exact He | apply Nat.le_refl | exact (fun x => x)].
Qed.

Lemma hkw_dict_ok h kw : n <= length h -> kw_okf h kw ->
  ext h (fst (hkw_dict h kw)) /\ snd (snd (hkw_dict h kw)) = PDict KDict (map (fun fv => (PKey (fst fv), snd fv)) (map vfield kw)) /\
  okf b n (fst (hkw_dict h kw)) (snd (hkw_dict h kw)) /\ length h <= fst (snd (hkw_dict h kw)).
Proof.
  intros Hn Hkw. unfold hkw_dict.
  destruct (alloc_keyed_ok b n (map (fun fv : nat * lv => (PKey (fst fv), snd fv)) kw) h Hn) as (E1 & V1 & _ & O1).
  { apply Forall_forall. intros kv Hin. apply in_map_iff in Hin. destruct Hin as (q & <- & Hin).
    eapply Forall_forall in Hkw; [|exact Hin]. exact Hkw. }
  destruct (alloc_keyed h (map (fun fv : nat * lv => (PKey (fst fv), snd fv)) kw)) as [h1 ps]. cbn [fst snd] in *.
  pose proof (ext_length _ _ E1) as Hl1.
  destruct (alloc_dict_ok b n h1 KDict ps) as (E2 & V2 & O2 & L2); [lia | exact O1 |].
  destruct (alloc_dict h1 KDict ps) as [h2 r]. cbn [fst snd] in *.
  split; [eapply ext_trans; eauto | split; [| split; [exact O2 | lia]]].
  rewrite V2, V1, !map_map. reflexivity.
Qed.

Lemma kw_lookup_vfield f kw : kw_lookup f (map vfield kw) = option_map snd (kw_lookupG f kw).
Proof.
  induction kw as [|[g v] kw IH]; cbn [kw_lookup kw_lookupG map]; [reflexivity|].
  unfold vfield at 1. cbn [fst snd]. destruct (Nat.eqb f g); [reflexivity | exact IH].
Qed.
Lemma kw_lookupG_In {A} f (kw : list (nat * A)) v : kw_lookupG f kw = Some v -> exists g, In (g, v) kw.
Proof.
  induction kw as [|[g w] kw IH]; cbn [kw_lookupG]; [discriminate|].
  destruct (Nat.eqb f g); [intros H; injection H as <-; exists g; left; reflexivity|].
  intros H. destruct (IH H) as (g' & Hin). exists g'. right. exact Hin.
Qed.
Lemma kw_set_vfield g v kw : map vfield (kw_setG g v kw) = kw_set g (snd v) (map vfield kw).
Proof.
  induction kw as [|[g' w] kw IH]; cbn [kw_setG kw_set map]; [reflexivity|].
  unfold vfield at 2. cbn [fst snd]. destruct (Nat.eqb g g'); cbn [map]; [reflexivity|]. rewrite IH. reflexivity.
Qed.
Lemma kw_setG_okf h g v kw : okf b n h v -> kw_okf h kw -> kw_okf h (kw_setG g v kw).
Proof.
  intros Hv Hkw. induction Hkw as [|[g' w] kw Hw Hkw' IH]; cbn [kw_setG].
  - constructor; [exact Hv | constructor].
  - destruct (Nat.eqb g g'); constructor; try assumption.
Qed.
Lemma has_kw_vfield f kw : has_kw f (map vfield kw) = has_kwG f kw.
Proof. unfold has_kw, has_kwG. rewrite kw_lookup_vfield. destruct (kw_lookupG f kw); reflexivity. Qed.

Lemma hfill_fields_spec fs : forall h kw, n <= length h -> kw_okf h kw ->
  hspec (map vfield) kw_okf h (hfill_fields h fs kw) (fill_fields fs (map vfield kw)).
Proof.
  induction fs as [|f fs IH]; intros h kw Hn Hkw; cbn [hfill_fields fill_fields].
  - apply hspec_ok; [apply ext_refl | reflexivity | constructor].
  - rewrite kw_lookup_vfield. destruct (kw_lookupG (fname f) kw) as [v|] eqn:Hlk; cbn [option_map].
    + eapply (hspec_bind (map vfield) (map vfield)); [apply IH; assumption|].
      intros h' t E' Ot. cbn beta. apply hspec_ok; [apply ext_refl | reflexivity|].
      constructor; [|exact Ot]. cbn [snd]. destruct (kw_lookupG_In _ _ _ Hlk) as (g & Hin).
      eapply Forall_forall in Hkw; [|exact Hin]. cbn [snd] in Hkw.
      eapply okf_mono; [exact E' | apply Nat.le_refl | exact (fun x => x) | exact Hkw].
    + destruct (fdefault f) as [d|]; [|reflexivity].
      destruct (alloc_lv_ok b h d) as (E1 & V1 & O1). destruct (alloc_lv h d) as [h1 dv]. cbn [fst snd] in *.
      pose proof (ext_length _ _ E1) as Hl1.
      eapply hspec_base; [exact E1|].
      eapply (hspec_bind (map vfield) (map vfield)); [apply IH; [lia | eapply kw_okf_ext; eauto]|].
      intros h' t E' Ot. cbn beta. apply hspec_ok; [apply ext_refl | unfold vfield at 1; cbn [fst snd map]; rewrite V1; reflexivity|].
      constructor; [|exact Ot]. cbn [snd]. eapply okf_mono; [exact E' | exact Hn | exact (fun x => x) | exact O1].
Qed.

Lemma hconstruct_class_spec c cd h kw : n <= length h -> kw_okf h kw ->
  hspec snd (new_ok h) h (hconstruct_class c cd h kw) (construct_class c cd (map vfield kw)).
Proof.
  intros Hn Hkw. unfold hconstruct_class, construct_class.
  assert (Hfill : forall (mk : heap -> list (nat * lv) -> heap * lv) (mv : list (nat * pv) -> pv),
            (forall h' l, n <= length h' -> kw_okf h' l ->
               ext h' (fst (mk h' l)) /\ snd (snd (mk h' l)) = mv (map vfield l) /\ okf b n (fst (mk h' l)) (snd (mk h' l)) /\
               length h' <= fst (snd (mk h' l))) ->
            hspec snd (new_ok h) h (hbind (hfill_fields h (cfields cd) kw) (fun h' l => Ok (mk h' l)))
                  (bind (fill_fields (cfields cd) (map vfield kw)) (fun l => Ok (mv l)))).
  { intros mk mv Hmk. eapply hspec_bind; [apply hfill_fields_spec; assumption|].
    intros h' l E' Ol. cbn beta. pose proof (ext_length _ _ E') as Hl'.
    destruct (Hmk h' l) as (E2 & V2 & O2 & L2); [lia | exact Ol |].
    destruct (mk h' l) as [h2 r]. cbn [fst snd hspec] in *. split; [exact E2 | split; [exact V2 | split; [exact O2 | lia]]]. }
  destruct (cflavour cd).
  - apply (Hfill (fun h' l => alloc_obj h' c l) (fun l => PObj c l)). intros h' l. apply alloc_obj_ok.
  - apply (Hfill (fun h' l => alloc_named h' c l) (fun l => PNamed c (map snd l))). intros h' l H1 H2.
    destruct (alloc_named_ok b n h' c l H1 H2) as (E2 & V2 & O2 & L2).
    split; [exact E2 | split; [| split; assumption]].
    rewrite V2, map_map. reflexivity.
  - match goal with |- hspec _ _ _ (if ?x then _ else _) (if ?y then _ else _) => replace y with x end.
    2:{ apply forallb_ext'. intros fd. rewrite has_kw_vfield. reflexivity. }
    match goal with |- hspec _ _ _ (if ?x then _ else _) _ => destruct x end; [|reflexivity].
    destruct (hkw_dict_ok h kw Hn Hkw) as (E1 & V1 & O1 & L1). destruct (hkw_dict h kw) as [h' r]. cbn [fst snd hspec] in *.
    split; [exact E1 | split; [exact V1 | split; assumption]].
  - apply (Hfill (fun h' l => alloc_obj h' c l) (fun l => PObj c l)). intros h' l. apply alloc_obj_ok.
Qed.

End Construct.

(* ------------------------------------------------------------------ one level of the routines *)
Lemma pv_eqb_atom x a : pv_eqb x (PAtom a) = true -> x = PAtom a.
Proof. destruct x; cbn [pv_eqb]; try discriminate. intros H. apply Nat.eqb_eq in H. subst. reflexivity. Qed.

Lemma zip_trunc_In {A B} (a : list A) : forall (b : list B) x y, In (x, y) (zip_trunc a b) -> In x a /\ In y b.
Proof.
  induction a as [|a0 a IH]; intros b x y H; cbn [zip_trunc] in H; [contradiction|].
  destruct b as [|b0 b]; [contradiction|]. destruct H as [H|H].
  - injection H as <- <-. split; left; reflexivity.
  - apply IH in H. destruct H. split; right; assumption.
Qed.
Lemma zip_trunc_map {A} (ts : list A) : forall (vs : list lv),
  map (fun tv : A * lv => (fst tv, snd (snd tv))) (zip_trunc ts vs) = zip_trunc ts (map snd vs).
Proof.
  induction ts as [|t ts IH]; intros vs; cbn [zip_trunc map]; [reflexivity|].
  destruct vs as [|v vs]; cbn [zip_trunc map]; [reflexivity|]. cbn [fst snd]. rewrite IH. reflexivity.
Qed.
Lemma find_field_In cd g ft : field_ty cd g = Some ft -> exists fd, In fd (cfields cd) /\ fty fd = ft.
Proof.
  unfold field_ty. destruct (find (fun fd => Nat.eqb (fname fd) g) (cfields cd)) as [fd|] eqn:H; [|discriminate].
  intros Hs. injection Hs as <-. apply find_some in H. exists fd. split; [apply H | reflexivity].
Qed.
Lemma composite_leaf_false E n t : (forall m, composite_ty E (S m) t = false) -> composite_ty E n t = true -> False.
Proof. intros H Hc. destruct n as [|n]; [cbn [composite_ty] in Hc; discriminate | rewrite H in Hc; discriminate]. Qed.

Section Steps.
Variable rt : runtime.
Variable hr : hruntime.
Variable E : env.
Variables fm fu : nat -> bool.
Variable G : nat -> bool.
Hypothesis HA : AllocLaws hr.

(* the hypotheses of the freshness half *)
Definition FHyp (fl : nat -> bool) : Prop := FreshLaws hr fm fu /\ env_fresh fl G E /\ (exists a, none rt = PAtom a).
(* the result of the routine of t called in heap h0: readable; inside fresh_ty its mutable objects are new;
   the result of a composite routine is a new object *)
Definition res_ok (fl : nat -> bool) (t : ty) (h0 h' : heap) (a : lv) : Prop :=
  okf (FHyp fl /\ fresh_ty fl G t = true) (length h0) h' a /\ (forall n, composite_ty E n t = true -> length h0 <= fst a).

Lemma res_ok_okf fl t (b : Prop) h0 h1 h' a :
  (b -> FHyp fl /\ fresh_ty fl G t = true) -> ext h0 h1 -> res_ok fl t h1 h' a -> okf b (length h0) h' a.
Proof.
  intros Hb He [O _]. eapply okf_mono; [apply ext_refl | apply ext_length; exact He | exact Hb | exact O].
Qed.

Lemma hfirst_ok_spec (ok : heap -> lv -> Prop) h a hrecs recs :
  Forall2 (fun hf f => hspec snd ok h (hf h a) (f (snd a))) hrecs recs ->
  hspec snd ok h (hfirst_ok rt hrecs h a) (first_ok rt recs (snd a)).
Proof.
  induction 1 as [|hf f hrecs recs Hf _ IH]; cbn [hfirst_ok first_ok]; [reflexivity|].
  destruct (hf h a) as [[h' r]|e| |], (f (snd a)) as [w|e'| |]; cbn [hspec] in Hf; try contradiction; try exact Hf.
  subst e'. destruct (suppressed rt e); [exact IH | reflexivity].
Qed.

(* hash-as-produced: the heap-level check reads the same value as the value-level one and leaves the heap alone *)
Lemma hhashing_spec {A B A' B'} (pa : A -> A') (pb : B -> B') (okB : heap -> B -> Prop)
  (keyh : B -> pv) (keyv : B' -> pv) (f : heap -> A -> hres B) (g : A' -> res B') h x :
  (forall y, keyh y = keyv (pb y)) ->
  hspec pb okB h (f h x) (g (pa x)) ->
  hspec pb okB h (hhashing rt keyh f h x) (hashing rt keyv g (pa x)).
Proof.
  intros Hkey Hf. unfold hhashing, hashing.
  eapply (hspec_bind pb pb okB okB); [exact Hf|].
  intros h' y E' Oy. cbn beta. unfold hash_check. rewrite Hkey.
  destruct (unhashable rt (keyv (pb y))); [reflexivity | apply hspec_ok; [apply ext_refl | reflexivity | exact Oy]].
Qed.

Lemma helem_conv_spec (okB : heap -> lv -> Prop) k (f : heap -> lv -> hres lv) (g : pv -> res pv) h x :
  hspec snd okB h (f h x) (g (snd x)) ->
  hspec snd okB h (helem_conv rt k f h x) (elem_conv rt k g (snd x)).
Proof.
  intros Hf. unfold helem_conv, elem_conv. destruct (hashes k); [|exact Hf].
  apply (hhashing_spec snd snd okB snd (fun v => v)); [reflexivity | exact Hf].
Qed.

Lemma hmap_step_spec (b : Prop) n hrec rec kt vt h kv :
  n <= length h ->
  (forall t h' a, (t = kt \/ t = vt) -> ext h h' -> lv_ok h' a -> hspec snd (okf b n) h' (hrec t h' a) (rec t (snd a))) ->
  pair_ok h kv ->
  hspec vpair (okf2 b n) h (hmap_step hrec kt vt h kv) (vmap_step rec kt vt (vpair kv)).
Proof.
  intros Hn Hrec [Hk Hv]. unfold hmap_step, vmap_step. cbn [vpair fst snd].
  eapply (hspec_bind snd vpair); [apply Hrec; [left; reflexivity | apply ext_refl | exact Hk]|].
  intros h1 k' E1 Ok'. cbn beta.
  eapply (hspec_bind snd vpair); [apply Hrec; [right; reflexivity | exact E1 | eapply lv_ok_ext; eauto]|].
  intros h2 v' E2 Ov'. cbn beta. apply hspec_ok; [apply ext_refl | reflexivity|].
  split; cbn [fst snd]; [eapply okf_mono; [exact E2 | apply Nat.le_refl | exact (fun x => x) | exact Ok'] | exact Ov'].
Qed.

Lemma hfold_kw_spec (b : Prop) n cd hrec rec kvs : forall (acc : hres (list (nat * lv))) (accv : res (list (nat * pv))) h,
  (forall g ft h' a, field_ty cd g = Some ft -> ext h h' -> lv_ok h' a -> hspec snd (okf b n) h' (hrec ft h' a) (rec ft (snd a))) ->
  pairs_ok h kvs ->
  hspec (map vfield) (kw_okf b n) h acc accv ->
  hspec (map vfield) (kw_okf b n) h (fold_left (hkw_step rt hrec cd) kvs acc) (fold_left (vkw_step rt rec cd) (map vpair kvs) accv).
Proof.
  induction kvs as [|kv kvs IH]; intros acc accv h Hrec Hkvs Hacc; cbn [fold_left map]; [exact Hacc|].
  inversion Hkvs as [|? ? [Hk Hv] Hkvs']; subst.
  apply IH; [exact Hrec | exact Hkvs'|].
  unfold hkw_step, vkw_step. eapply (hspec_bind (map vfield) (map vfield)); [exact Hacc|].
  intros h1 kw E1 Okw. cbn beta. unfold vpair at 1. cbn [fst snd].
  destruct (snd (fst kv)) as [a0|g|k0 l0|k0 l0|c0 l0|c0 l0] eqn:Hkey;
    try (match goal with |- hspec _ _ _ (if ?c then _ else _) _ => destruct c end;
         [reflexivity | apply hspec_ok; [apply ext_refl | reflexivity | exact Okw]]).
  destruct (field_ty cd g) as [ft|] eqn:Hft; [|apply hspec_ok; [apply ext_refl | reflexivity | exact Okw]].
  eapply (hspec_bind snd (map vfield)); [apply (Hrec g ft); [exact Hft | exact E1 | eapply lv_ok_ext; eauto]|].
  intros h2 v' E2 Ov'. cbn beta. apply hspec_ok; [apply ext_refl | apply kw_set_vfield|].
  apply kw_setG_okf; [exact Ov' | eapply kw_okf_ext; eauto].
Qed.

(* ---- marshal ---- *)
Section MarStep.
Variable hrec : ty -> heap -> lv -> hres lv.
Variable rec : ty -> pv -> res pv.
Hypothesis IH : forall t h a, lv_ok h a -> hspec snd (res_ok fm t h) h (hrec t h a) (rec t (snd a)).

Let bT (t : ty) : Prop := FHyp fm /\ fresh_ty fm G t = true.

Lemma IH_okf t (b : Prop) h0 h a :
  (b -> bT t) -> ext h0 h -> lv_ok h a -> hspec snd (okf b (length h0)) h (hrec t h a) (rec t (snd a)).
Proof.
  intros Hb He Ha. eapply hspec_weaken; [|apply IH; exact Ha].
  intros h' r E' Hr. eapply res_ok_okf; [exact Hb | exact He | exact Hr].
Qed.

Lemma none_input_ok t h a : lv_ok h a -> is_none_val rt (snd a) = true ->
  (forall m, composite_ty E (S m) t = false) -> hspec snd (res_ok fm t h) h (Ok (h, a)) (Ok (snd a)).
Proof.
  intros Ha Hn Hc. apply hspec_ok; [apply ext_refl | reflexivity|]. split; [split; [exact Ha|] | intros n Hn'; exfalso; eapply composite_leaf_false; eauto].
  intros [(_ & _ & (a0 & Hnone)) _]. unfold is_none_val in Hn. rewrite Hnone in Hn. apply pv_eqb_atom in Hn.
  destruct a as [l x]. cbn [fst snd] in *. subst x.
  destruct (reads_inv h l _ Ha) as (nd & Hg & Hd). destruct nd; cbn [node_denotes] in Hd; try contradiction. subst.
  eapply fresh_from_atom; eauto.
Qed.

Lemma seq_result (b0 : Prop) h0 h2 k rs : ext h0 h2 -> Forall (okf b0 (length h0) h2) rs ->
  forall t, (bT t -> b0) -> hspec snd (res_ok fm t h0) h2 (Ok (alloc_seq h2 k rs)) (Ok (PSeq k (map snd rs))).
Proof.
  intros He Hrs t Hb. pose proof (ext_length _ _ He) as Hl.
  destruct (alloc_seq_ok b0 (length h0) h2 k rs Hl Hrs) as (E1 & V1 & O1 & L1).
  destruct (alloc_seq h2 k rs) as [h' r]. cbn [fst snd hspec] in *.
  split; [exact E1 | split; [exact V1|]]. split; [|intros; lia].
  eapply okf_mono; [apply ext_refl | apply Nat.le_refl | exact Hb | exact O1].
Qed.

Lemma new_ok_res (b0 : Prop) t h0 h2 r w : ext h0 h2 -> (bT t -> b0) ->
  hspec snd (new_ok b0 (length h0) h2) h2 r w -> hspec snd (res_ok fm t h0) h2 r w.
Proof.
  intros He Hb. apply hspec_weaken. intros h' a E' [O L]. pose proof (ext_length _ _ He). split; [|intros; lia].
  eapply okf_mono; [apply ext_refl | apply Nat.le_refl | exact Hb | exact O].
Qed.

Lemma class_case_m t c cd h a :
  lv_ok h a -> E c = Some (NClass cd) -> (fresh_ty fm G t = true -> G c = true) ->
  hspec snd (res_ok fm t h) h
    (hbind (hiteritems rt E h a) (fun h1 kvs =>
     hbind (fold_left (hkw_step rt hrec cd) kvs (Ok (h1, []))) (fun h2 kw => Ok (hkw_dict h2 kw))))
    (bind (iteritems rt E (snd a)) (fun kvs =>
     bind (fold_left (vkw_step rt rec cd) kvs (Ok []))
          (fun kw => Ok (PDict KDict (map (fun fv => (PKey (fst fv), snd fv)) kw))))).
Proof.
  intros Ha HE HG.
  eapply hspec_bind; [apply hiteritems_spec; exact Ha|].
  intros h1 kvs E1 Okvs. cbn beta.
  eapply (hspec_bind (map vfield) snd (kw_okf (bT t) (length h))).
  - apply hfold_kw_spec; [| exact Okvs | apply hspec_ok; [apply ext_refl | reflexivity | constructor]].
    intros g ft h' a0 Hft E' Ha0. apply IH_okf; [| eapply ext_trans; eauto | exact Ha0].
    intros [HF Ht]. split; [exact HF|]. destruct HF as (_ & Henv & _).
    specialize (Henv c _ (HG Ht) HE). cbn [fresh_def] in Henv.
    destruct (find_field_In cd g ft Hft) as (fd & Hin & <-). eapply forallb_forall in Henv; eauto.
  - intros h2 kw E2 Okw. cbn beta.
    assert (Hl : length h <= length h2) by (apply ext_length; eapply ext_trans; eauto).
    destruct (hkw_dict_ok (bT t) (length h) h2 kw Hl Okw) as (E3 & V3 & O3 & L3).
    destruct (hkw_dict h2 kw) as [h3 r]. cbn [fst snd hspec] in *.
    split; [exact E3 | split; [exact V3|]]. split; [exact O3 | intros; lia].
Qed.

Lemma hmar_step_spec : forall t h a, lv_ok h a ->
  hspec snd (res_ok fm t h) h (hmar_step rt hr E hrec t h a) (mar_step rt E rec t (snd a)).
Proof.
  intros t h a Ha.
  assert (Hleaf : forall s, (forall b0 : bool, fresh_ty fm G t = true -> fm s = true) -> (forall m, composite_ty E (S m) t = false) ->
            hspec snd (res_ok fm t h) h
              (bind (leaf_m rt s (snd a)) (fun w => let hl := leaf_alloc_m hr s h (fst a) (snd a) w in Ok (fst hl, (snd hl, w))))
              (leaf_m rt s (snd a))).
  { intros s Hs Hc. destruct (leaf_m rt s (snd a)) as [w|e| |]; cbn [bind hspec]; try reflexivity; try exact I.
    split; [apply (am_ext hr HA)|]. split; [reflexivity|]. cbn [snd].
    split; [split; [apply (am_read hr HA); exact Ha|] | intros n Hn; exfalso; eapply composite_leaf_false; eauto].
    intros [(HF & _ & _) Ht]. cbn [fst]. apply (fm_fresh hr fm fu HF); [apply (Hs true Ht) | exact Ha]. }
  assert (Hwrap : forall t', (fresh_ty fm G t = true -> fresh_ty fm G t' = true) ->
                             (forall m, composite_ty E (S m) t = composite_ty E m t') ->
            hspec snd (res_ok fm t h) h (hrec t' h a) (rec t' (snd a))).
  { intros t' Hf Hc. eapply hspec_weaken; [|apply IH; exact Ha]. intros h' r E' [O L]. split.
    - eapply okf_mono; [apply ext_refl | apply Nat.le_refl | | exact O]. intros [HF Ht]. split; [exact HF | apply Hf; exact Ht].
    - intros n Hn. destruct n as [|n]; [discriminate|]. rewrite Hc in Hn. apply (L n Hn). }
  assert (Hname : forall c, (fresh_ty fm G t = true -> G c = true) ->
            (forall m, composite_ty E (S m) t = match E c with Some (NClass _) => true | Some (NType t') => composite_ty E m t' | None => false end) ->
            hspec snd (res_ok fm t h) h
              (match E c with
               | None => Raise EOther
               | Some (NType t') => hrec t' h a
               | Some (NClass cd) =>
                   hbind (hiteritems rt E h a) (fun h1 kvs =>
                   hbind (fold_left (hkw_step rt hrec cd) kvs (Ok (h1, []))) (fun h2 kw => Ok (hkw_dict h2 kw)))
               end)
              (match E c with
               | None => Raise EOther
               | Some (NType t') => rec t' (snd a)
               | Some (NClass cd) =>
                   bind (iteritems rt E (snd a)) (fun kvs =>
                   bind (fold_left (vkw_step rt rec cd) kvs (Ok []))
                        (fun kw => Ok (PDict KDict (map (fun fv => (PKey (fst fv), snd fv)) kw))))
               end)).
  { intros c HG Hc. destruct (E c) as [[cd|t']|] eqn:HE; [| |reflexivity].
    - apply (class_case_m t c cd); assumption.
    - eapply hspec_weaken; [|apply IH; exact Ha]. intros h' r E' [O L]. split.
      + eapply okf_mono; [apply ext_refl | apply Nat.le_refl | | exact O]. intros [HF Ht]. split; [exact HF|].
        destruct HF as (_ & Henv & _). apply (Henv c _ (HG Ht) HE).
      + intros n Hn. destruct n as [|n]; [discriminate|]. rewrite Hc in Hn. apply (L n Hn). }
  destruct t as [s| |k e|k kt vt|ts|ts|c|c|s|t'|i t'|i t'|i c|t'|t']; cbn [hmar_step mar_step].
  - apply Hleaf; [intros _ H; exact H | reflexivity].
  - destruct (is_none_val rt (snd a)) eqn:Hn; [apply none_input_ok; [exact Ha | exact Hn | reflexivity] | reflexivity].
  - eapply hspec_bind; [apply hitervalues_spec; exact Ha|].
    intros h1 vs E1 Ovs. cbn beta.
    eapply (hspec_bind (map snd) snd (fun h' l' => Forall (okf (bT (TSeq k e)) (length h) h') l')).
    + apply (hmapM_spec snd snd lv_ok); [intros; eapply lv_ok_ext; eauto | | exact Ovs |].
      * intros h0 h' b0 E'. apply okf_ext. exact E'.
      * intros h' a0 E' _ Ha0. apply IH_okf; [exact (fun x => x) | eapply ext_trans; eauto | exact Ha0].
    + intros h2 rs E2 Ors. cbn beta. apply (seq_result (bT (TSeq k e))); [eapply ext_trans; eauto | exact Ors | exact (fun x => x)].
  - eapply hspec_bind; [apply hiteritems_spec; exact Ha|].
    intros h1 kvs E1 Okvs. cbn beta.
    eapply (hspec_bind (map vpair) snd (fun h' l' => Forall (okf2 (bT (TMap k kt vt)) (length h) h') l')).
    + apply (hmapM_spec vpair vpair pair_ok); [intros; eapply pair_ok_ext; eauto | | exact Okvs |].
      * intros h0 h' p E' [P1 P2]. split; eapply okf_ext; eauto.
      * intros h' kv E' _ Hkv. apply (hhashing_spec vpair vpair); [reflexivity|].
        eapply hspec_weaken; [|apply (hmap_step_spec (bT (TMap k kt vt)) (length h)); [| |exact Hkv]].
        -- intros h'' p _ Hp. exact Hp.
        -- apply ext_length. eapply ext_trans; eauto.
        -- intros t0 h'' a0 Ht0 E'' Ha0. apply IH_okf; [| eapply ext_trans; [eapply ext_trans; eauto|exact E''] | exact Ha0].
           intros [HF Ht]. cbn [fresh_ty] in Ht. apply andb_true_iff in Ht. split; [exact HF|]. destruct Ht0 as [->| ->]; apply Ht.
    + intros h2 rs E2 Ors. cbn beta.
      assert (E02 : ext h h2) by (eapply ext_trans; eauto).
      eapply hspec_base; [apply ext_refl|]. apply (new_ok_res (bT (TMap k kt vt))); [exact E02 | exact (fun x => x)|].
      apply hconstruct_map_spec; [apply ext_length; exact E02 | exact Ors].
  - eapply hspec_bind; [apply hitervalues_spec; exact Ha|].
    intros h1 vs E1 Ovs. cbn beta. rewrite <- zip_trunc_map.
    eapply (hspec_bind (map snd) snd (fun h' l' => Forall (okf (bT (TTuple ts)) (length h) h') l')).
    + apply (hmapM_spec (fun tv : ty * lv => (fst tv, snd (snd tv))) snd (fun h' tv => lv_ok h' (snd tv))).
      * intros h0 h' tv E'. apply lv_ok_ext. exact E'.
      * intros h0 h' b0 E'. apply okf_ext. exact E'.
      * apply Forall_forall. intros [t0 v0] Hin. apply zip_trunc_In in Hin. cbn [snd]. eapply Forall_forall in Ovs; [exact Ovs | apply Hin].
      * intros h' [t0 v0] E' Hin Hv0. cbn [fst snd] in *. apply IH_okf; [| eapply ext_trans; eauto | exact Hv0].
        intros [HF Ht]. split; [exact HF|]. cbn [fresh_ty] in Ht. apply zip_trunc_In in Hin. eapply forallb_forall in Ht; [exact Ht | apply Hin].
    + intros h2 rs E2 Ors. cbn beta. apply (seq_result (bT (TTuple ts))); [eapply ext_trans; eauto | exact Ors | exact (fun x => x)].
  - destruct (isoptional ts && is_none_val rt (snd a)) eqn:Hc.
    + apply andb_true_iff in Hc. apply none_input_ok; [exact Ha | apply Hc | reflexivity].
    + apply hfirst_ok_spec. clear Hc.
      assert (Hall : forall t0, In t0 ts -> fresh_ty fm G (TUnion ts) = true -> fresh_ty fm G t0 = true).
      { intros t0 Hin Ht. cbn [fresh_ty] in Ht. eapply forallb_forall in Ht; eauto. }
      clear Hleaf Hwrap Hname. induction ts as [|t0 ts IHts]; cbn [map]; constructor.
      * eapply hspec_weaken; [|apply IH; exact Ha]. intros h' r E' [O _]. split; [|intros n Hn; exfalso; eapply composite_leaf_false; eauto; reflexivity].
        eapply okf_mono; [apply ext_refl | apply Nat.le_refl | | exact O]. intros [HF Ht]. split; [exact HF | apply Hall; [left; reflexivity | exact Ht]].
      * assert (IH' : Forall2 (fun hf f => hspec snd (res_ok fm (TUnion ts) h) h (hf h a) (f (snd a))) (map hrec ts) (map rec ts)).
        { apply IHts. intros t1 Hin Ht. cbn [fresh_ty] in Ht. eapply forallb_forall in Ht; eauto. }
        clear IHts. revert IH'. generalize (map hrec ts), (map rec ts). intros l1 l2 HF2.
        eapply Forall2_imp; [|exact HF2]. intros hf f. apply hspec_weaken. intros h' r E' [O L]. split; [|intros n Hn; exfalso; eapply composite_leaf_false; eauto; reflexivity].
        destruct O as [O1 O2]. split; [exact O1|]. intros [HF Ht]. apply O2. split; [exact HF|].
        cbn [fresh_ty] in *. cbn [forallb] in Ht. apply andb_true_iff in Ht. apply Ht.
  - apply Hname; [intros H; exact H | reflexivity].
  - apply Hname; [intros H; exact H | reflexivity].
  - apply Hleaf; [intros _ H; exact H | reflexivity].
  - apply Hwrap; [intros H; exact H | reflexivity].
  - apply Hwrap; [intros H; exact H | reflexivity].
  - apply Hwrap; [intros H; exact H | reflexivity].
  - apply Hname; [intros H; exact H | reflexivity].
  - apply Hwrap; [intros H; exact H | reflexivity].
  - apply Hwrap; [intros H; exact H | reflexivity].
Qed.

End MarStep.

(* ---- unmarshal ---- *)
Lemma union_stack_In ts t : In t (union_stack_u ts) -> In t ts.
Proof.
  unfold union_stack_u, none_first. destruct (isoptional ts); [|exact (fun H => H)].
  intros H. apply in_app_or in H. destruct H as [H|H]; apply filter_In in H; apply H.
Qed.

Section UnmStep.
Variable hrec : ty -> heap -> lv -> hres lv.
Variable rec : ty -> pv -> res pv.
Hypothesis IH : forall t h a, lv_ok h a -> hspec snd (res_ok fu t h) h (hrec t h a) (rec t (snd a)).

Let bU (t : ty) : Prop := FHyp fu /\ fresh_ty fu G t = true.

Lemma IH_okf_u t (b : Prop) h0 h a :
  (b -> bU t) -> ext h0 h -> lv_ok h a -> hspec snd (okf b (length h0)) h (hrec t h a) (rec t (snd a)).
Proof.
  intros Hb He Ha. eapply hspec_weaken; [|apply IH; exact Ha].
  intros h' r E' Hr. eapply res_ok_okf; [exact Hb | exact He | exact Hr].
Qed.

Lemma new_ok_res_u (b0 : Prop) t h0 h2 r w : ext h0 h2 -> (bU t -> b0) ->
  hspec snd (new_ok b0 (length h0) h2) h2 r w -> hspec snd (res_ok fu t h0) h2 r w.
Proof.
  intros He Hb. apply hspec_weaken. intros h' a E' [O L]. pose proof (ext_length _ _ He). split; [|intros; lia].
  eapply okf_mono; [apply ext_refl | apply Nat.le_refl | exact Hb | exact O].
Qed.

Lemma class_case_u t c cd h a :
  lv_ok h a -> E c = Some (NClass cd) -> (fresh_ty fu G t = true -> G c = true) ->
  hspec snd (res_ok fu t h) h
    (hbind (hload rt h a) (fun h0 d => hbind (hiteritems rt E h0 d) (fun h1 kvs =>
     hbind (fold_left (hkw_step rt hrec cd) kvs (Ok (h1, []))) (fun h2 kw => hconstruct_class c cd h2 kw))))
    (bind (load rt (snd a)) (fun d => bind (iteritems rt E d) (fun kvs =>
     bind (fold_left (vkw_step rt rec cd) kvs (Ok [])) (fun kw => construct_class c cd kw)))).
Proof.
  intros Ha HE HG.
  eapply hspec_bind; [apply hload_spec; exact Ha|].
  intros h0 d E0 Od. cbn beta.
  eapply hspec_bind; [apply hiteritems_spec; exact Od|].
  intros h1 kvs E1 Okvs. cbn beta.
  assert (E01 : ext h h1) by (eapply ext_trans; eauto).
  eapply (hspec_bind (map vfield) snd (kw_okf (bU t) (length h))).
  - apply hfold_kw_spec; [| exact Okvs | apply hspec_ok; [apply ext_refl | reflexivity | constructor]].
    intros g ft h' a0 Hft E' Ha0. apply IH_okf_u; [| eapply ext_trans; eauto | exact Ha0].
    intros [HF Ht]. split; [exact HF|]. destruct HF as (_ & Henv & _).
    specialize (Henv c _ (HG Ht) HE). cbn [fresh_def] in Henv.
    destruct (find_field_In cd g ft Hft) as (fd & Hin & <-). eapply forallb_forall in Henv; eauto.
  - intros h2 kw E2 Okw. cbn beta.
    assert (E02 : ext h h2) by (eapply ext_trans; eauto).
    apply (new_ok_res_u (bU t)); [exact E02 | exact (fun x => x)|].
    apply hconstruct_class_spec; [apply ext_length; exact E02 | exact Okw].
Qed.

Lemma hunm_step_spec : forall t h a, lv_ok h a ->
  hspec snd (res_ok fu t h) h (hunm_step rt hr E hrec t h a) (unm_step rt E rec t (snd a)).
Proof.
  intros t h a Ha.
  assert (Hleaf : forall s, (forall b0 : bool, fresh_ty fu G t = true -> fu s = true) -> (forall m, composite_ty E (S m) t = false) ->
            hspec snd (res_ok fu t h) h
              (bind (leaf_u rt s (snd a)) (fun w => let hl := leaf_alloc_u hr s h (fst a) (snd a) w in Ok (fst hl, (snd hl, w))))
              (leaf_u rt s (snd a))).
  { intros s Hs Hc. destruct (leaf_u rt s (snd a)) as [w|e| |]; cbn [bind hspec]; try reflexivity; try exact I.
    split; [apply (au_ext hr HA)|]. split; [reflexivity|]. cbn [snd].
    split; [split; [apply (au_read hr HA); exact Ha|] | intros n Hn; exfalso; eapply composite_leaf_false; eauto].
    intros [(HF & _ & _) Ht]. cbn [fst]. apply (fu_fresh hr fm fu HF); [apply (Hs true Ht) | exact Ha]. }
  assert (Hwrap : forall t', (fresh_ty fu G t = true -> fresh_ty fu G t' = true) ->
                             (forall m, composite_ty E (S m) t = composite_ty E m t') ->
            hspec snd (res_ok fu t h) h (hrec t' h a) (rec t' (snd a))).
  { intros t' Hf Hc. eapply hspec_weaken; [|apply IH; exact Ha]. intros h' r E' [O L]. split.
    - eapply okf_mono; [apply ext_refl | apply Nat.le_refl | | exact O]. intros [HF Ht]. split; [exact HF | apply Hf; exact Ht].
    - intros n Hn. destruct n as [|n]; [discriminate|]. rewrite Hc in Hn. apply (L n Hn). }
  assert (Hname : forall c, (fresh_ty fu G t = true -> G c = true) ->
            (forall m, composite_ty E (S m) t = match E c with Some (NClass _) => true | Some (NType t') => composite_ty E m t' | None => false end) ->
            hspec snd (res_ok fu t h) h
              (match E c with
               | None => Raise EOther
               | Some (NType t') => hrec t' h a
               | Some (NClass cd) =>
                   hbind (hload rt h a) (fun h0 d => hbind (hiteritems rt E h0 d) (fun h1 kvs =>
                   hbind (fold_left (hkw_step rt hrec cd) kvs (Ok (h1, []))) (fun h2 kw => hconstruct_class c cd h2 kw)))
               end)
              (match E c with
               | None => Raise EOther
               | Some (NType t') => rec t' (snd a)
               | Some (NClass cd) =>
                   bind (load rt (snd a)) (fun d => bind (iteritems rt E d) (fun kvs =>
                   bind (fold_left (vkw_step rt rec cd) kvs (Ok [])) (fun kw => construct_class c cd kw)))
               end)).
  { intros c HG Hc. destruct (E c) as [[cd|t']|] eqn:HE; [| |reflexivity].
    - apply (class_case_u t c cd); assumption.
    - eapply hspec_weaken; [|apply IH; exact Ha]. intros h' r E' [O L]. split.
      + eapply okf_mono; [apply ext_refl | apply Nat.le_refl | | exact O]. intros [HF Ht]. split; [exact HF|].
        destruct HF as (_ & Henv & _). apply (Henv c _ (HG Ht) HE).
      + intros n Hn. destruct n as [|n]; [discriminate|]. rewrite Hc in Hn. apply (L n Hn). }
  destruct t as [s| |k e|k kt vt|ts|ts|c|c|s|t'|i t'|i t'|i c|t'|t']; cbn [hunm_step unm_step].
  - apply Hleaf; [intros _ H; exact H | reflexivity].
  - destruct (none_u rt (snd a)) as [w|e| |]; cbn [bind hspec]; try reflexivity; try exact I.
    destruct (alloc_lv_ok (bU TNone) h w) as (E1 & V1 & O1). destruct (alloc_lv h w) as [h' r]. cbn [fst snd] in *.
    split; [exact E1 | split; [exact V1|]]. split; [exact O1 | intros n Hn; exfalso; eapply composite_leaf_false; eauto; reflexivity].
  - eapply hspec_bind; [apply hload_spec; exact Ha|].
    intros h0 d E0 Od. cbn beta.
    eapply hspec_bind; [apply hitervalues_spec; exact Od|].
    intros h1 vs E1 Ovs. cbn beta.
    assert (E01 : ext h h1) by (eapply ext_trans; eauto).
    eapply (hspec_bind (map snd) snd (fun h' l' => Forall (okf (bU (TSeq k e)) (length h) h') l')).
    + apply (hmapM_spec snd snd lv_ok); [intros; eapply lv_ok_ext; eauto | | exact Ovs |].
      * intros h3 h' b0 E'. apply okf_ext. exact E'.
      * intros h' a0 E' _ Ha0. apply helem_conv_spec. apply IH_okf_u; [exact (fun x => x) | eapply ext_trans; eauto | exact Ha0].
    + intros h2 rs E2 Ors. cbn beta.
      assert (E02 : ext h h2) by (eapply ext_trans; eauto).
      apply (new_ok_res_u (bU (TSeq k e))); [exact E02 | exact (fun x => x)|].
      apply hconstruct_seq_spec; [apply ext_length; exact E02 | exact Ors].
  - eapply hspec_bind; [apply hload_spec; exact Ha|].
    intros h0 d E0 Od. cbn beta.
    eapply hspec_bind; [apply hiteritems_spec; exact Od|].
    intros h1 kvs E1 Okvs. cbn beta.
    assert (E01 : ext h h1) by (eapply ext_trans; eauto).
    eapply (hspec_bind (map vpair) snd (fun h' l' => Forall (okf2 (bU (TMap k kt vt)) (length h) h') l')).
    + apply (hmapM_spec vpair vpair pair_ok); [intros; eapply pair_ok_ext; eauto | | exact Okvs |].
      * intros h3 h' p E' [P1 P2]. split; eapply okf_ext; eauto.
      * intros h' kv E' _ Hkv. apply (hhashing_spec vpair vpair); [reflexivity|].
        eapply hspec_weaken; [|apply (hmap_step_spec (bU (TMap k kt vt)) (length h)); [| |exact Hkv]].
        -- intros h'' p _ Hp. exact Hp.
        -- apply ext_length. eapply ext_trans; eauto.
        -- intros t0 h'' a0 Ht0 E'' Ha0. apply IH_okf_u; [| eapply ext_trans; [eapply ext_trans; [exact E01|exact E']|exact E''] | exact Ha0].
           intros [HF Ht]. cbn [fresh_ty] in Ht. apply andb_true_iff in Ht. split; [exact HF|]. destruct Ht0 as [->| ->]; apply Ht.
    + intros h2 rs E2 Ors. cbn beta.
      assert (E02 : ext h h2) by (eapply ext_trans; eauto).
      apply (new_ok_res_u (bU (TMap k kt vt))); [exact E02 | exact (fun x => x)|].
      apply hconstruct_map_spec; [apply ext_length; exact E02 | exact Ors].
  - eapply hspec_bind; [apply hload_spec; exact Ha|].
    intros h0 d E0 Od. cbn beta.
    eapply hspec_bind; [apply hitervalues_spec; exact Od|].
    intros h1 vs E1 Ovs. cbn beta. rewrite map_length.
    assert (E01 : ext h h1) by (eapply ext_trans; eauto).
    match goal with |- hspec _ _ _ (if ?c then _ else _) (if ?c' then _ else _) => change c' with c; destruct c end; [exact eq_refl|]. rewrite <- zip_trunc_map.
    eapply (hspec_bind (map snd) snd (fun h' l' => Forall (okf (bU (TTuple ts)) (length h) h') l')).
    + apply (hmapM_spec (fun tv : ty * lv => (fst tv, snd (snd tv))) snd (fun h' tv => lv_ok h' (snd tv))).
      * intros h3 h' tv E'. apply lv_ok_ext. exact E'.
      * intros h3 h' b0 E'. apply okf_ext. exact E'.
      * apply Forall_forall. intros [t0 v0] Hin. apply zip_trunc_In in Hin. cbn [snd]. eapply Forall_forall in Ovs; [exact Ovs | apply Hin].
      * intros h' [t0 v0] E' Hin Hv0. cbn [fst snd] in *. apply IH_okf_u; [| eapply ext_trans; eauto | exact Hv0].
        intros [HF Ht]. split; [exact HF|]. cbn [fresh_ty] in Ht. apply zip_trunc_In in Hin. eapply forallb_forall in Ht; [exact Ht | apply Hin].
    + intros h2 rs E2 Ors. cbn beta.
      assert (E02 : ext h h2) by (eapply ext_trans; eauto). pose proof (ext_length _ _ E02) as Hl.
      destruct (alloc_seq_ok (bU (TTuple ts)) (length h) h2 KTuple rs Hl Ors) as (E3 & V3 & O3 & L3).
      destruct (alloc_seq h2 KTuple rs) as [h3 r]. cbn [fst snd hspec] in *.
      split; [exact E3 | split; [exact V3|]]. split; [exact O3 | intros; lia].
  - apply hfirst_ok_spec.
    assert (Hall : forall t0, In t0 (union_stack_u ts) -> fresh_ty fu G (TUnion ts) = true -> fresh_ty fu G t0 = true).
    { intros t0 Hin Ht. cbn [fresh_ty] in Ht. eapply forallb_forall in Ht; [exact Ht | apply union_stack_In; exact Hin]. }
    clear Hleaf Hwrap Hname. revert Hall. generalize (union_stack_u ts). intros us Hall.
    induction us as [|t0 us IHus]; cbn [map]; constructor.
    + eapply hspec_weaken; [|apply IH; exact Ha]. intros h' r E' [O _]. split; [|intros n Hn; exfalso; eapply composite_leaf_false; eauto; reflexivity].
      eapply okf_mono; [apply ext_refl | apply Nat.le_refl | | exact O]. intros [HF Ht]. split; [exact HF | apply Hall; [left; reflexivity | exact Ht]].
    + apply IHus. intros t1 Hin. apply Hall. right. exact Hin.
  - apply Hname; [intros H; exact H | reflexivity].
  - apply Hname; [intros H; exact H | reflexivity].
  - apply Hleaf; [intros _ H; exact H | reflexivity].
  - apply Hwrap; [intros H; exact H | reflexivity].
  - apply Hwrap; [intros H; exact H | reflexivity].
  - apply Hwrap; [intros H; exact H | reflexivity].
  - apply Hname; [intros H; exact H | reflexivity].
  - apply Hwrap; [intros H; exact H | reflexivity].
  - apply Hwrap; [intros H; exact H | reflexivity].
Qed.

End UnmStep.

(* ---- the routines ---- *)
Lemma mar_unfold n t x : mar rt E (S n) t x = mar_step rt E (mar rt E n) t x.
Proof. reflexivity. Qed.
Lemma unm_unfold n t x : unm rt E (S n) t x = unm_step rt E (unm rt E n) t x.
Proof. reflexivity. Qed.

Lemma hmar_w_spec : forall fuel t h a, lv_ok h a ->
  hspec snd (res_ok fm t h) h (hmar_w rt hr E fuel t h a) (mar rt E fuel t (snd a)).
Proof.
  induction fuel as [|n IHn]; intros t h a Ha; [exact I|].
  rewrite mar_unfold. cbn [hmar_w]. apply hmar_step_spec; [exact IHn | exact Ha].
Qed.
Lemma hunm_w_spec : forall fuel t h a, lv_ok h a ->
  hspec snd (res_ok fu t h) h (hunm_w rt hr E fuel t h a) (unm rt E fuel t (snd a)).
Proof.
  induction fuel as [|n IHn]; intros t h a Ha; [exact I|].
  rewrite unm_unfold. cbn [hunm_w]. apply hunm_step_spec; [exact IHn | exact Ha].
Qed.

End Steps.

(* ------------------------------------------------------------------ the theorems about hmar / hunm *)
Section Top.
Variable rt : runtime.
Variable hr : hruntime.
Variable E : env.
Hypothesis HA : AllocLaws hr.

Let nofl : nat -> bool := fun _ => false.

(* (a) refinement *)
Lemma hmar_refines fuel t h l x : read fuel h l = Some x ->
  refines (hmar rt hr E fuel t h l) (mar rt E fuel t x).
Proof.
  intros Hr. unfold hmar. rewrite Hr.
  assert (Ha : lv_ok h (l, x)) by (exists fuel; exact Hr).
  pose proof (hmar_w_spec rt hr E nofl nofl nofl HA fuel t h (l, x) Ha) as H. cbn [snd] in H.
  destruct (hmar_w rt hr E fuel t h (l, x)) as [[h' [l' w']]|e| |], (mar rt E fuel t x) as [w|e'| |];
    cbn [hspec bind refines fst snd] in *; try contradiction; try exact H.
  destruct H as (_ & <- & [O _] & _). exact O.
Qed.
Lemma hunm_refines fuel t h l x : read fuel h l = Some x ->
  refines (hunm rt hr E fuel t h l) (unm rt E fuel t x).
Proof.
  intros Hr. unfold hunm. rewrite Hr.
  assert (Ha : lv_ok h (l, x)) by (exists fuel; exact Hr).
  pose proof (hunm_w_spec rt hr E nofl nofl nofl HA fuel t h (l, x) Ha) as H. cbn [snd] in H.
  destruct (hunm_w rt hr E fuel t h (l, x)) as [[h' [l' w']]|e| |], (unm rt E fuel t x) as [w|e'| |];
    cbn [hspec bind refines fst snd] in *; try contradiction; try exact H.
  destruct H as (_ & <- & [O _] & _). exact O.
Qed.

(* what a successful call establishes, all at once *)
Lemma hmar_ok fm fu G fuel t h l h' l' : hmar rt hr E fuel t h l = Ok (h', l') ->
  exists x w, read fuel h l = Some x /\ mar rt E fuel t x = Ok w /\ ext h h' /\ reads h' l' w /\
              (FHyp rt hr E fm fu G fm /\ fresh_ty fm G t = true -> fresh_from (length h) h' l') /\
              (forall n, composite_ty E n t = true -> length h <= l').
Proof.
  unfold hmar. destruct (read fuel h l) as [x|] eqn:Hr; [|discriminate]. intros H.
  assert (Ha : lv_ok h (l, x)) by (exists fuel; exact Hr).
  pose proof (hmar_w_spec rt hr E fm fu G HA fuel t h (l, x) Ha) as S. cbn [snd] in S.
  destruct (hmar_w rt hr E fuel t h (l, x)) as [[h2 [l2 w2]]|e| |]; cbn [bind fst snd] in H; try discriminate.
  injection H as <- <-.
  destruct (mar rt E fuel t x) as [w|e'| |] eqn:Hm; cbn [hspec] in S; try contradiction.
  destruct S as (E1 & Hw & [O1 O2] & L). cbn [fst snd] in *. subst w.
  exists x, w2. repeat split; try assumption; try reflexivity.
Qed.
Lemma hunm_ok fm fu G fuel t h l h' l' : hunm rt hr E fuel t h l = Ok (h', l') ->
  exists x w, read fuel h l = Some x /\ unm rt E fuel t x = Ok w /\ ext h h' /\ reads h' l' w /\
              (FHyp rt hr E fm fu G fu /\ fresh_ty fu G t = true -> fresh_from (length h) h' l') /\
              (forall n, composite_ty E n t = true -> length h <= l').
Proof.
  unfold hunm. destruct (read fuel h l) as [x|] eqn:Hr; [|discriminate]. intros H.
  assert (Ha : lv_ok h (l, x)) by (exists fuel; exact Hr).
  pose proof (hunm_w_spec rt hr E fm fu G HA fuel t h (l, x) Ha) as S. cbn [snd] in S.
  destruct (hunm_w rt hr E fuel t h (l, x)) as [[h2 [l2 w2]]|e| |]; cbn [bind fst snd] in H; try discriminate.
  injection H as <- <-.
  destruct (unm rt E fuel t x) as [w|e'| |] eqn:Hm; cbn [hspec] in S; try contradiction.
  destruct S as (E1 & Hw & [O1 O2] & L). cbn [fst snd] in *. subst w.
  exists x, w2. repeat split; try assumption; try reflexivity.
Qed.

(* (b) frame *)
Lemma hmar_frame fuel t h l h' l' : hmar rt hr E fuel t h l = Ok (h', l') -> ext h h'.
Proof. intros H. destruct (hmar_ok nofl nofl nofl fuel t h l h' l' H) as (x & w & _ & _ & He & _). exact He. Qed.
Lemma hunm_frame fuel t h l h' l' : hunm rt hr E fuel t h l = Ok (h', l') -> ext h h'.
Proof. intros H. destruct (hunm_ok nofl nofl nofl fuel t h l h' l' H) as (x & w & _ & _ & He & _). exact He. Qed.

End Top.

(* every object that existed is still there, and denotes the same value *)
Lemma ext_unchanged h h' : ext h h' ->
  (forall p nd, hget h p = Some nd -> hget h' p = Some nd) /\ (forall n p v, read n h p = Some v -> read n h' p = Some v).
Proof. intros He. split; [intros p nd; apply hget_ext; exact He | intros n p v; apply read_ext; exact He]. Qed.

(* ------------------------------------------------------------------ the concrete allocation obeys the laws *)
Lemma seqkind_eqb_eq : forall a b, seqkind_eqb a b = true -> a = b.
Proof. destruct a, b; cbn; intros H; try reflexivity; discriminate. Qed.
Lemma dictkind_eqb_eq : forall a b, dictkind_eqb a b = true -> a = b.
Proof. destruct a, b; cbn; intros H; try reflexivity; discriminate. Qed.
Lemma pv_eqb_eq : forall a b, pv_eqb a b = true -> a = b.
Proof.
  induction a as [x|x|k l IH|k l IH|c l IH|c l IH] using pv_ind'; intros b H; destruct b; cbn in H; try discriminate.
  - apply Nat.eqb_eq in H. now subst.
  - apply Nat.eqb_eq in H. now subst.
  - apply andb_true_iff in H as [Hk Hl]. apply seqkind_eqb_eq in Hk. subst. f_equal.
    revert l0 Hl. induction IH as [|x r Hx _ IHr]; intros [|y t] Hl; try discriminate; [reflexivity|].
    apply andb_true_iff in Hl as [H1 H2]. f_equal; [now apply Hx | now apply IHr].
  - apply andb_true_iff in H as [Hk Hl]. apply dictkind_eqb_eq in Hk. subst. f_equal.
    revert l0 Hl. induction IH as [|[x1 x2] r [Hx1 Hx2] _ IHr]; intros [|[y1 y2] t] Hl; try discriminate; [reflexivity|].
    apply andb_true_iff in Hl as [H1 H3]. apply andb_true_iff in H1 as [H1 H2]. cbn in Hx1, Hx2.
    f_equal; [f_equal; [now apply Hx1 | now apply Hx2] | now apply IHr].
  - apply andb_true_iff in H as [Hk Hl]. apply Nat.eqb_eq in Hk. subst. f_equal.
    revert l0 Hl. induction IH as [|[f x] r Hx _ IHr]; intros [|[g y] t] Hl; try discriminate; [reflexivity|].
    apply andb_true_iff in Hl as [H1 H3]. apply andb_true_iff in H1 as [H1 H2]. cbn in Hx.
    apply Nat.eqb_eq in H1. subst. f_equal; [f_equal; now apply Hx | now apply IHr].
  - apply andb_true_iff in H as [Hk Hl]. apply Nat.eqb_eq in Hk. subst. f_equal.
    revert l0 Hl. induction IH as [|x r Hx _ IHr]; intros [|y t] Hl; try discriminate; [reflexivity|].
    apply andb_true_iff in Hl as [H1 H2]. f_equal; [now apply Hx | now apply IHr].
Qed.
Lemma list_eqb_eq {A} (e : A -> A -> bool) : (forall a b, e a b = true -> a = b) ->
  forall l l', list_eqb e l l' = true -> l = l'.
Proof.
  intros He. induction l as [|x l IH]; intros [|y l'] H; cbn [list_eqb] in H; try discriminate; [reflexivity|].
  apply andb_true_iff in H as [H1 H2]. f_equal; [apply He; exact H1 | apply IH; exact H2].
Qed.

Lemma iter_reads h l x nd : reads h l x -> hget h l = Some nd ->
  length (iter_locs nd) = length (iter_vals x) -> Forall2 (reads h) (iter_locs nd) (iter_vals x).
Proof.
  intros Hr Hg Hlen. destruct (reads_inv h l x Hr) as (nd' & Hg' & Hd). rewrite Hg in Hg'. injection Hg' as <-.
  destruct nd as [a|f|k ls|k kls|c fls|c ls]; destruct x as [a'|f'|k' vs|k' kvs|c' fvs|c' vs];
    cbn [node_denotes iter_locs iter_vals] in *; try contradiction; try constructor; try apply Hd.
  - destruct Hd as [_ Hd]. apply Forall2_map. eapply Forall2_imp; [|exact Hd]. intros a b [H _]. exact H.
Qed.

Lemma place_alloc_ext pl h l x w : ext h (fst (place_alloc pl h l x w)).
Proof.
  assert (Hp : ext h (fst (alloc_pv h w))) by (apply (alloc_pv_ok w h)).
  unfold place_alloc. destruct pl.
  - destruct (pv_eqb x w); [apply ext_refl | exact Hp].
  - destruct w as [a|f|k ws|k kvs|c fvs|c ws]; try exact Hp; destruct (hget h l) as [nd|]; try exact Hp.
    + match goal with |- ext h (fst (if ?c then _ else _)) => destruct c end; [apply ext_alloc | exact Hp].
    + destruct nd; try exact Hp. destruct x; try exact Hp.
      match goal with |- ext h (fst (if ?c then _ else _)) => destruct c end; [apply ext_alloc | exact Hp].
  - exact Hp.
Qed.

Lemma place_alloc_read pl h l x w : reads h l x -> reads (fst (place_alloc pl h l x w)) (snd (place_alloc pl h l x w)) w.
Proof.
  intros Hr.
  assert (Hp : reads (fst (alloc_pv h w)) (snd (alloc_pv h w)) w) by (apply (alloc_pv_ok w h)).
  unfold place_alloc. destruct pl.
  - destruct (pv_eqb x w) eqn:He; [|exact Hp]. apply pv_eqb_eq in He. subst. exact Hr.
  - destruct w as [a|f|k ws|k kvs|c fvs|c ws]; try exact Hp; destruct (hget h l) as [nd|] eqn:Hg; try exact Hp.
    + match goal with |- context [if ?c then _ else _] => destruct c eqn:Hc end; [|exact Hp].
      apply andb_true_iff in Hc as [H1 H2]. apply (list_eqb_eq pv_eqb pv_eqb_eq) in H1. apply Nat.eqb_eq in H2.
      unfold alloc. cbn [fst snd]. eapply reads_intro; [apply hget_alloc|]. cbn [node_denotes]. split; [reflexivity|].
      eapply Forall2_imp; [intros a b; apply (reads_ext h); apply ext_alloc|].
      rewrite <- H1. eapply iter_reads; eauto. rewrite H1. exact H2.
    + destruct nd as [a|f|k0 ls|k0 kls|c fls|c ls]; try exact Hp. destruct x as [a'|f'|k' vs|k' kvs0|c' fvs|c' vs]; try exact Hp.
      match goal with |- context [if ?c then _ else _] => destruct c eqn:Hc end; [|exact Hp].
      apply andb_true_iff in Hc as [H1 H2].
      apply (list_eqb_eq pair_eqb) in H1.
      2:{ intros [a1 a2] [b1 b2] H. unfold pair_eqb in H. cbn [fst snd] in H. apply andb_true_iff in H as [Ha Hb].
          apply pv_eqb_eq in Ha. apply pv_eqb_eq in Hb. subst. reflexivity. }
      subst kvs0. destruct (reads_inv h l _ Hr) as (nd' & Hg' & Hd). rewrite Hg in Hg'. injection Hg' as <-.
      cbn [node_denotes] in Hd. destruct Hd as [_ Hd].
      unfold alloc. cbn [fst snd]. eapply reads_intro; [apply hget_alloc|]. cbn [node_denotes]. split; [reflexivity|].
      eapply Forall2_imp; [|exact Hd]. intros a b [Ha Hb]. split; eapply reads_ext; try apply ext_alloc; assumption.
  - exact Hp.
Qed.

Lemma place_alloc_laws pm pu : AllocLaws (place_hr pm pu).
Proof.
  split; cbn [place_hr leaf_alloc_m leaf_alloc_u]; intros.
  - apply place_alloc_ext.
  - apply place_alloc_read. assumption.
  - apply place_alloc_ext.
  - apply place_alloc_read. assumption.
Qed.

Lemma fresh_from_scalar n h l x : reads h l x -> is_scalar_pv x = true -> fresh_from n h l.
Proof.
  intros Hr Hs. destruct (reads_inv h l x Hr) as (nd & Hg & Hd).
  destruct x; try discriminate; destruct nd; cbn [node_denotes] in Hd; try contradiction; subst.
  - eapply fresh_from_atom; eauto.
  - intros p Hp Hm. inversion Hp as [|? nd c ? Hg' Hc _]; subst.
    + unfold mutable_at in Hm. rewrite Hg in Hm. discriminate.
    + rewrite Hg in Hg'. injection Hg' as <-. contradiction.
Qed.

Lemma place_fresh_alloc pl h l x w : reads h l x ->
  (pl = PFresh \/ (pl = PInput /\ is_scalar_pv x = true)) ->
  fresh_from (length h) (fst (place_alloc pl h l x w)) (snd (place_alloc pl h l x w)).
Proof.
  intros Hr [-> | [-> Hs]]; cbn [place_alloc].
  - apply alloc_ok_fresh with (v := w). apply alloc_pv_ok.
  - destruct (pv_eqb x w); [cbn [fst snd]; eapply fresh_from_scalar; eauto|].
    apply alloc_ok_fresh with (v := w). apply alloc_pv_ok.
Qed.

Lemma place_fresh_laws pm pu (fm fu : nat -> bool) :
  (forall s, fm s = true -> place_fresh pm s) -> (forall s, fu s = true -> place_fresh pu s) ->
  FreshLaws (place_hr pm pu) fm fu.
Proof.
  intros Hm Hu. split; cbn [place_hr leaf_alloc_m leaf_alloc_u]; intros s h l x w Hs Hr.
  - apply place_fresh_alloc; [exact Hr | apply (Hm s Hs x)].
  - apply place_fresh_alloc; [exact Hr | apply (Hu s Hs x)].
Qed.

(* ------------------------------------------------------------------ C06's "fully annotated" lies inside fresh_ty *)
Require Import TL.Model.CoreC06.

Section FaFresh.
Variables rl wl fl : nat -> bool.
Variables R F : nat -> bool.
Hypothesis Hrl : forall s, rl s = true -> fl s = true.
Hypothesis Hwl : forall s, wl s = true -> fl s = true.
Let G (c : nat) : bool := R c || F c.

Lemma robust_fresh : forall t, robust_ty rl true R t = true -> fresh_ty fl G t = true.
Proof.
  fix IH 1. intros t. destruct t as [s| |k e|k kt vt|ts|ts|c|c|s|t'|i t'|i t'|i c|t'|t']; cbn [robust_ty fresh_ty]; intros H;
    try reflexivity; try (apply Hrl; exact H); try (apply IH; exact H); try (unfold G; rewrite H; reflexivity).
  - apply andb_true_iff in H as [H1 H2]. rewrite (IH kt H1), (IH vt H2). reflexivity.
  - induction ts as [|t ts IHts]; cbn [forallb] in *; [reflexivity|].
    apply andb_true_iff in H as [H1 H2]. rewrite (IH t H1), (IHts H2). reflexivity.
  - induction ts as [|t ts IHts]; cbn [forallb] in *; [reflexivity|].
    apply andb_true_iff in H as [H1 H2]. rewrite (IH t H1), (IHts H2). reflexivity.
Qed.

Lemma fa_fresh : forall t, fa_ty rl wl true R F t = true -> fresh_ty fl G t = true.
Proof.
  fix IH 1. intros t. destruct t as [s| |k e|k kt vt|ts|ts|c|c|s|t'|i t'|i t'|i c|t'|t']; cbn [fa_ty fresh_ty]; intros H;
    try reflexivity; try (apply Hwl; exact H); try (apply IH; exact H); try (unfold G; rewrite H; apply orb_true_r).
  - apply andb_true_iff in H as [H1 H2]. rewrite (IH kt H1), (IH vt H2). reflexivity.
  - induction ts as [|t ts IHts]; cbn [forallb] in *; [reflexivity|].
    apply andb_true_iff in H as [H1 H2]. rewrite (IH t H1), (IHts H2). reflexivity.
  - induction ts as [|t ts IHts]; cbn [forallb] in *; [reflexivity|].
    apply andb_true_iff in H as [H1 H2]. rewrite (robust_fresh t H1), (IHts H2). reflexivity.
Qed.

Lemma fa_env_fresh E : env_robust E rl true R -> env_fa E rl wl true R F -> env_fresh fl G E.
Proof.
  intros HR HF c d Hc HE. unfold G in Hc. destruct (R c) eqn:HRc.
  - specialize (HR c d HRc HE). destruct d as [cd|t]; cbn [def_ok fresh_def] in *; [|apply robust_fresh; exact HR].
    apply forallb_forall. intros f Hin. apply robust_fresh. eapply forallb_forall in HR; eauto.
  - cbn [orb] in Hc. specialize (HF c d Hc HE). destruct d as [cd|t]; cbn [def_ok fresh_def] in *; [|apply fa_fresh; exact HF].
    apply forallb_forall. intros f Hin. apply fa_fresh. eapply forallb_forall in HF; eauto.
Qed.
End FaFresh.

(* ------------------------------------------------------------------ call histories *)
Section Hist.
Variable rt : runtime.
Variable hr : hruntime.
Variable E : env.
Variables fm fu : nat -> bool.
Variable G : nat -> bool.
Hypothesis HA : AllocLaws hr.
Hypothesis HFm : FHyp rt hr E fm fu G fm.
Hypothesis HFu : FHyp rt hr E fm fu G fu.

Definition call_fresh (c : call) : Prop :=
  match c with CMar t _ => fresh_ty fm G t = true | CUnm t _ => fresh_ty fu G t = true | CNew _ => True end.
Definition result_ok (n : nat) (h' : heap) (r : loc) : Prop := (exists w, reads h' r w) /\ fresh_from n h' r.

Lemma hcall_ok fuel c h h' r : hcall rt hr E fuel c h = Ok (h', r) -> call_fresh c -> ext h h' /\ result_ok (length h) h' r.
Proof.
  destruct c as [t l|t l|v]; cbn [hcall call_fresh]; intros H Hc.
  - destruct (hmar_ok rt hr E HA fm fu G fuel t h l h' r H) as (x & w & _ & _ & He & Hr & Hf & _).
    split; [exact He | split; [exists w; exact Hr | apply Hf; split; assumption]].
  - destruct (hunm_ok rt hr E HA fm fu G fuel t h l h' r H) as (x & w & _ & _ & He & Hr & Hf & _).
    split; [exact He | split; [exists w; exact Hr | apply Hf; split; assumption]].
  - injection H as H. pose proof (alloc_pv_ok v h) as Hok. pose proof (alloc_ok_fresh _ _ _ Hok) as Hfr.
    destruct Hok as (He & _ & Hr & _). rewrite H in *. cbn [fst snd] in *.
    split; [exact He | split; [exists v; exact Hr | exact Hfr]].
Qed.

Lemma result_ok_ext n n' h h' r : ext h h' -> n' <= n -> result_ok n h r -> result_ok n' h' r.
Proof.
  intros He Hn [[w Hr] Hf]. split; [exists w; eapply reads_ext; eauto|].
  eapply fresh_from_le; [exact Hn|]. eapply fresh_from_ext; eauto.
Qed.

Lemma hrun_ok fuel : forall cs h h' rs, hrun rt hr E fuel cs h = Ok (h', rs) -> Forall call_fresh cs ->
  ext h h' /\ Forall (result_ok (length h) h') rs.
Proof.
  induction cs as [|c cs IH]; intros h h' rs H Hcs; cbn [hrun] in H.
  - injection H as <- <-. split; [apply ext_refl | constructor].
  - inversion Hcs as [|? ? Hc Hcs']; subst.
    destruct (hcall rt hr E fuel c h) as [[h1 r1]|e| |] eqn:H1; cbn [bind fst snd] in H; try discriminate.
    destruct (hrun rt hr E fuel cs h1) as [[h2 rs2]|e| |] eqn:H2; cbn [bind fst snd] in H; try discriminate.
    injection H as <- <-.
    destruct (hcall_ok fuel c h h1 r1 H1 Hc) as [E1 R1]. destruct (IH h1 h2 rs2 H2 Hcs') as [E2 R2].
    pose proof (ext_length _ _ E1) as Hl.
    split; [eapply ext_trans; eauto|]. constructor; [eapply result_ok_ext; [exact E2 | apply Nat.le_refl | exact R1]|].
    eapply Forall_impl; [|exact R2]. intros r. apply result_ok_ext; [apply ext_refl | exact Hl].
Qed.

(* (d) two results of one history share no mutable object *)
Lemma hrun_separate fuel : forall cs h h' rs, hrun rt hr E fuel cs h = Ok (h', rs) -> Forall call_fresh cs ->
  forall i j ri rj, i < j -> nth_error rs i = Some ri -> nth_error rs j = Some rj ->
  forall p, reach h' ri p -> reach h' rj p -> mutable_at h' p = true -> False.
Proof.
  induction cs as [|c cs IH]; intros h h' rs H Hcs i j ri rj Hij Hi Hj p Pi Pj Pm; cbn [hrun] in H.
  - injection H as <- <-. destruct i; discriminate.
  - inversion Hcs as [|? ? Hc Hcs']; subst.
    destruct (hcall rt hr E fuel c h) as [[h1 r1]|e| |] eqn:H1; cbn [bind fst snd] in H; try discriminate.
    destruct (hrun rt hr E fuel cs h1) as [[h2 rs2]|e| |] eqn:H2; cbn [bind fst snd] in H; try discriminate.
    injection H as <- <-.
    destruct j as [|j]; [lia|]. cbn [nth_error] in Hj.
    destruct i as [|i]; cbn [nth_error] in Hi.
    + injection Hi as <-.
      destruct (hcall_ok fuel c h h1 r1 H1 Hc) as [E1 [[w R1] _]]. destruct (hrun_ok fuel cs h1 h2 rs2 H2 Hcs') as [E2 R2].
      destruct (reach_ext_back h1 h2 r1 p E2 Pi w R1) as [_ Hp].
      apply nth_error_In in Hj. eapply Forall_forall in R2; [|exact Hj]. destruct R2 as [_ Hf].
      specialize (Hf p Pj Pm). lia.
    + eapply (IH h1 h2 rs2 H2 Hcs' i j ri rj); eauto. lia.
Qed.

(* ... and none with anything that existed before the history *)
Lemma hrun_fresh_all fuel cs h h' rs : hrun rt hr E fuel cs h = Ok (h', rs) -> Forall call_fresh cs ->
  forall r p, In r rs -> reach h' r p -> mutable_at h' p = true -> length h <= p.
Proof.
  intros H Hcs r p Hin Hr Hm. destruct (hrun_ok fuel cs h h' rs H Hcs) as [_ R].
  eapply Forall_forall in R; [|exact Hin]. destruct R as [_ Hf]. apply Hf; assumption.
Qed.

End Hist.

Lemma hrun_frame rt hr E (HA : AllocLaws hr) fuel : forall cs h h' rs, hrun rt hr E fuel cs h = Ok (h', rs) -> ext h h'.
Proof.
  induction cs as [|c cs IH]; intros h h' rs H; cbn [hrun] in H.
  - injection H as <- <-. apply ext_refl.
  - destruct (hcall rt hr E fuel c h) as [[h1 r1]|e| |] eqn:H1; cbn [bind fst snd] in H; try discriminate.
    destruct (hrun rt hr E fuel cs h1) as [[h2 rs2]|e| |] eqn:H2; cbn [bind fst snd] in H; try discriminate.
    injection H as <- <-. eapply ext_trans; [|eapply IH; eauto].
    destruct c as [t l|t l|v]; cbn [hcall] in H1.
    + eapply hmar_frame; eauto.
    + eapply hunm_frame; eauto.
    + injection H1 as H1. pose proof (alloc_pv_ok v h) as (He & _). rewrite H1 in He. exact He.
Qed.

(* ------------------------------------------------------------------ the table-driven allocation of the tie *)
Require Import TL.Model.CoreTables.
Require Import TL.Model.HeapEq.

Lemma lookup_leaf_In {A} s x (tbl : list (nat * pv * A)) p :
  lookup_leaf s x tbl = Some p -> exists x', In (s, x', p) tbl /\ x = x'.
Proof.
  induction tbl as [|[[s' x'] a] tbl IH]; cbn [lookup_leaf]; [discriminate|].
  destruct (Nat.eqb s s' && pv_eqb x x') eqn:Hc.
  - intros H. injection H as <-. apply andb_true_iff in Hc as [H1 H2]. apply Nat.eqb_eq in H1. apply pv_eqb_eq in H2. subst.
    exists x'. split; [left; reflexivity | reflexivity].
  - intros H. destruct (IH H) as (y & Hin & Hy). exists y. split; [right; exact Hin | exact Hy].
Qed.
Lemma lookup_nat_In {A} s (tbl : list (nat * A)) p : lookup_nat s tbl = Some p -> In (s, p) tbl.
Proof.
  induction tbl as [|[s' a] tbl IH]; cbn [lookup_nat]; [discriminate|].
  destruct (Nat.eqb s s') eqn:Hc; [|intros H; right; apply IH; exact H].
  intros H. injection H as <-. apply Nat.eqb_eq in Hc. subst. left. reflexivity.
Qed.

Lemma place_tbl_fresh_sound fl tbl dflt : place_tbl_fresh fl tbl dflt = true ->
  forall s, fl s = true -> place_fresh (place_of tbl dflt) s.
Proof.
  unfold place_tbl_fresh. intros H s Hs x. apply andb_true_iff in H as [H1 H2]. unfold place_of.
  destruct (lookup_leaf s x tbl) as [p|] eqn:Hl.
  - destruct (lookup_leaf_In s x tbl p Hl) as (x' & Hin & <-).
    eapply forallb_forall in H1; [|exact Hin]. cbn beta iota in H1. rewrite Hs in H1. cbn [negb orb] in H1.
    destruct p; [right; split; [reflexivity | exact H1] | discriminate | left; reflexivity].
  - destruct (lookup_nat s dflt) as [p|] eqn:Hn; [|left; reflexivity].
    apply lookup_nat_In in Hn. eapply forallb_forall in H2; [|exact Hn]. cbn [fst snd] in H2. rewrite Hs in H2. cbn [negb orb] in H2.
    destruct p; try discriminate. left; reflexivity.
Qed.

Lemma tables_laws pm pu dm du :
  AllocLaws (mk_hruntime pm pu dm du) /\
  forall fl, place_tbl_fresh fl pm dm = true -> place_tbl_fresh fl pu du = true -> FreshLaws (mk_hruntime pm pu dm du) fl fl.
Proof.
  split; [apply place_alloc_laws|]. intros fl Hm Hu. apply place_fresh_laws; apply place_tbl_fresh_sound; assumption.
Qed.

Lemma env_fresh_b_sound E fl G names : (forall c, G c = true -> In c names) -> env_fresh_b E fl G names = true -> env_fresh fl G E.
Proof.
  intros Hn H c d Hc HE. unfold env_fresh_b in H. eapply forallb_forall in H; [|apply Hn; exact Hc].
  cbn beta in H. rewrite Hc, HE in H. exact H.
Qed.
