(* Proofs/JsonLemmas.v -- proof scripts for Model/Json.v (the JSON wire layer of C02).
   A. UTF-8: the decoder inverts the encoder on code points below 0x110000 (surrogates with surrogatepass).
   B. decimal integers: the reader's digit scanner on Python's str(int).
   C. the number scanner is stable under an appended rest that cannot continue a number.
   D. strings: the string reader inverts every escape form either backend emits.
   E. the recursive-descent reader on the writer's output (induction on fuel, three mutually dependent statements).
   F. nested induction on wire values; every character the writer emits.
   G. top level: reader after writer, injectivity, well-formedness of the bytes, necessity of the guard. *)
From Coq Require Import List ZArith NArith Bool Decimal DecimalN DecimalFacts Lia ZifyBool.
Import ListNotations.
Require Import TL.Model.Json.
Open Scope N_scope.
Ltac dm x k := pose proof (N.div_mod x k ltac:(discriminate)); pose proof (N.mod_lt x k ltac:(discriminate));
  pose proof (N.le_0_l (x / k)); pose proof (N.le_0_l (x mod k)).

Lemma utf8_step surr c t : c < 1114112 -> (surr = true \/ is_surr c = false) ->
  utf8_dec surr (utf8_enc1 c ++ t) = ocons1 c (utf8_dec surr t).
Proof.
  intros Hc Hs. unfold utf8_enc1.
  dm c 64. dm c 4096. dm (c / 64) 64. dm c 262144. dm (c / 4096) 64.
  destruct (c <? 128) eqn:E1.
  { cbn [List.app]. cbn [utf8_dec]. rewrite E1. reflexivity. }
  destruct (c <? 2048) eqn:E2.
  { cbn [List.app]. cbn [utf8_dec].
    replace (192 + c / 64 <? 128) with false by lia.
    replace (192 + c / 64 <? 194) with false by lia.
    replace (192 + c / 64 <? 224) with true by lia.
    unfold cont. replace ((128 <=? 128 + c mod 64) && (128 + c mod 64 <? 192)) with true by lia.
    f_equal. lia. }
  destruct (c <? 65536) eqn:E3.
  { cbn [List.app]. cbn [utf8_dec].
    replace (224 + c / 4096 <? 128) with false by lia.
    replace (224 + c / 4096 <? 194) with false by lia.
    replace (224 + c / 4096 <? 224) with false by lia.
    replace (224 + c / 4096 <? 240) with true by lia.
    replace ((224 + c / 4096 - 224) * 4096 + (128 + (c / 64) mod 64 - 128) * 64 + (128 + c mod 64 - 128)) with c by lia.
    unfold cont.
    replace ((128 <=? 128 + (c / 64) mod 64) && (128 + (c / 64) mod 64 <? 192)) with true by lia.
    replace ((128 <=? 128 + c mod 64) && (128 + c mod 64 <? 192)) with true by lia.
    replace (2048 <=? c) with true by lia.
    destruct Hs as [-> | ->]; [reflexivity | rewrite orb_true_r; reflexivity]. }
  cbn [List.app]. cbn [utf8_dec].
  replace (240 + c / 262144 <? 128) with false by lia.
  replace (240 + c / 262144 <? 194) with false by lia.
  replace (240 + c / 262144 <? 224) with false by lia.
  replace (240 + c / 262144 <? 240) with false by lia.
  replace (240 + c / 262144 <? 245) with true by lia.
  replace ((240 + c / 262144 - 240) * 262144 + (128 + (c / 4096) mod 64 - 128) * 4096 + (128 + (c / 64) mod 64 - 128) * 64 + (128 + c mod 64 - 128)) with c by lia.
  unfold cont.
  replace ((128 <=? 128 + (c / 4096) mod 64) && (128 + (c / 4096) mod 64 <? 192)) with true by lia.
  replace ((128 <=? 128 + (c / 64) mod 64) && (128 + (c / 64) mod 64 <? 192)) with true by lia.
  replace ((128 <=? 128 + c mod 64) && (128 + c mod 64 <? 192)) with true by lia.
  replace (65536 <=? c) with true by lia. replace (c <? 1114112) with true by lia. reflexivity.
Qed.

Lemma utf8_roundtrip surr s :
  (forall c, In c s -> c < 1114112 /\ (surr = true \/ is_surr c = false)) ->
  utf8_dec surr (utf8_enc s) = Some s.
Proof.
  induction s as [|c s IH]; intros H; [reflexivity|].
  unfold utf8_enc. cbn [flat_map]. fold (utf8_enc s).
  destruct (H c (or_introl eq_refl)) as [Hc Hs].
  rewrite utf8_step by assumption. rewrite IH; [reflexivity|].
  intros c' Hin. apply H. right. exact Hin.
Qed.

(* ---------------------------------------------------------------- decimal integers *)
Lemma uint_of_show u : uint_of (show_uint u) = u.
Proof. induction u; cbn [show_uint uint_of]; try rewrite IHu; reflexivity. Qed.

Lemma digits_val_show n : digits_val (show_nat n) = n.
Proof. unfold digits_val, show_nat. rewrite uint_of_show. apply DecimalN.Unsigned.of_to. Qed.

Lemma span_show_end u : span_digits (show_uint u) = (show_uint u, []).
Proof. induction u; cbn [show_uint span_digits]; try rewrite IHu; reflexivity. Qed.

Lemma to_uint_shape n : N.to_uint n = unorm (N.to_uint n).
Proof. rewrite <- (DecimalN.Unsigned.to_of (N.to_uint n)). rewrite DecimalN.Unsigned.of_to. reflexivity. Qed.

Lemma scan_int_show n : scan_int (show_nat n) = Some (show_nat n, []).
Proof.
  unfold show_nat. rewrite to_uint_shape. unfold unorm.
  pose proof (nzhead_nonzero (N.to_uint n)) as Hz.
  destruct (nzhead (N.to_uint n)) as [|d|d|d|d|d|d|d|d|d|d] eqn:E; try reflexivity;
    try (cbn [show_uint scan_int]; rewrite span_show_end; reflexivity).
  exfalso. exact (Hz d eq_refl).
Qed.

Lemma show_nat_head n : exists c r, show_nat n = c :: r /\ is_digit c = true.
Proof.
  pose proof (scan_int_show n) as H. destruct (show_nat n) as [|c r]; [discriminate|].
  exists c, r. split; [reflexivity|]. cbn [scan_int] in H.
  destruct (c =? 48) eqn:E; [apply N.eqb_eq in E; subst; reflexivity|].
  destruct (is_digit c); [reflexivity|discriminate].
Qed.

(* ---------------------------------------------------------------- the number scanner under an appended rest *)
Definition follow_ok (rest : list N) : bool :=
  match rest with [] => true | c :: _ => negb (is_digit c || (c =? 46) || is_e c || is_sign c) end.

Lemma follow_parts c r : follow_ok (c :: r) = true ->
  is_digit c = false /\ (c =? 46) = false /\ is_e c = false /\ is_sign c = false.
Proof.
  unfold follow_ok. destruct (is_digit c), (c =? 46), (is_e c), (is_sign c); cbn; intros H;
    try discriminate; repeat split.
Qed.

Lemma span_app s : forall d r rest, span_digits s = (d, r) -> follow_ok rest = true ->
  span_digits (s ++ rest) = (d, r ++ rest).
Proof.
  induction s as [|c s IH]; intros d r rest H F.
  - cbn in H. inversion H; subst. cbn [List.app]. destruct rest as [|c rest]; [reflexivity|].
    destruct (follow_parts _ _ F) as [Hd _]. cbn [span_digits]. rewrite Hd. reflexivity.
  - cbn [List.app span_digits] in *. destruct (is_digit c) eqn:E.
    + destruct (span_digits s) as [d' r'] eqn:Es. inversion H; subst.
      rewrite (IH d' r rest eq_refl F). reflexivity.
    + inversion H; subst. reflexivity.
Qed.

Lemma scan_int_app s ip r rest : scan_int s = Some (ip, r) -> follow_ok rest = true ->
  scan_int (s ++ rest) = Some (ip, r ++ rest).
Proof.
  destruct s as [|c s]; [discriminate|]. cbn [List.app scan_int]. intros H F.
  destruct (c =? 48); [inversion H; subst; reflexivity|].
  destruct (is_digit c); [|discriminate].
  destruct (span_digits s) as [d r'] eqn:Es. inversion H; subst.
  rewrite (span_app s d r rest Es F). reflexivity.
Qed.

Lemma scan_frac_app s fr r rest : scan_frac s = (fr, r) -> follow_ok rest = true ->
  scan_frac (s ++ rest) = (fr, r ++ rest).
Proof.
  intros H F. destruct s as [|c [|d s]].
  - cbn in H. inversion H; subst. cbn [List.app]. destruct rest as [|c [|d rest]]; try reflexivity.
    destruct (follow_parts _ _ F) as (_ & Hdot & _). cbn [scan_frac]. rewrite Hdot. reflexivity.
  - cbn in H. inversion H; subst. cbn [List.app]. destruct rest as [|d rest]; [reflexivity|].
    destruct (follow_parts _ _ F) as (Hd & _). cbn [scan_frac]. rewrite Hd, andb_false_r. reflexivity.
  - cbn [List.app scan_frac] in *. destruct ((c =? 46) && is_digit d).
    + destruct (span_digits s) as [ds r'] eqn:Es. inversion H; subst.
      rewrite (span_app s ds r rest Es F). reflexivity.
    + inversion H; subst. reflexivity.
Qed.

Lemma scan_exp_app s ex r rest : scan_exp s = (ex, r) -> follow_ok rest = true ->
  scan_exp (s ++ rest) = (ex, r ++ rest).
Proof.
  intros H F. destruct s as [|e [|d s]].
  - cbn in H. inversion H; subst. cbn [List.app]. destruct rest as [|e [|d rest]]; try reflexivity.
    destruct (follow_parts _ _ F) as (_ & _ & He & _). cbn [scan_exp]. rewrite He. reflexivity.
  - cbn in H. inversion H; subst. cbn [List.app]. destruct rest as [|d rest]; [reflexivity|].
    destruct (follow_parts _ _ F) as (Hd & _ & _ & Hs). cbn [scan_exp]. rewrite Hd, Hs.
    destruct (is_e e); reflexivity.
  - cbn [List.app scan_exp] in *. destruct (is_e e); [|inversion H; subst; reflexivity].
    destruct (is_digit d).
    + destruct (span_digits s) as [ds r'] eqn:Es. inversion H; subst.
      rewrite (span_app s ds r rest Es F). reflexivity.
    + destruct (is_sign d); [|inversion H; subst; reflexivity].
      destruct s as [|d2 s].
      * inversion H; subst. cbn [List.app]. destruct rest as [|d2 rest]; [reflexivity|].
        destruct (follow_parts _ _ F) as (Hd & _). rewrite Hd. reflexivity.
      * cbn [List.app]. destruct (is_digit d2); [|inversion H; subst; reflexivity].
        destruct (span_digits s) as [ds r'] eqn:Es. inversion H; subst.
        rewrite (span_app s ds r rest Es F). reflexivity.
Qed.

Definition pnum_body (neg : bool) (s1 : list N) : option (jv * list N) :=
  match scan_int s1 with
  | None => None
  | Some (ip, s2) =>
    let '(fr, s3) := scan_frac s2 in
    let '(ex, s4) := scan_exp s3 in
    if is_nil fr && is_nil ex
    then Some (JInt (if neg then (- Z.of_N (digits_val ip))%Z else Z.of_N (digits_val ip)), s4)
    else Some (JFloat ((if neg then [45] else []) ++ ip ++ fr ++ ex), s4)
  end.
Lemma pnum_unfold s : pnum s =
  match s with c :: r => if c =? 45 then pnum_body true r else pnum_body false s | [] => None end.
Proof. destruct s as [|c r]; [reflexivity|]. unfold pnum, pnum_body. destruct (c =? 45); reflexivity. Qed.

Lemma pnum_body_app neg s v r rest : pnum_body neg s = Some (v, r) -> follow_ok rest = true ->
  pnum_body neg (s ++ rest) = Some (v, r ++ rest).
Proof.
  unfold pnum_body. intros H1 F. destruct (scan_int s) as [[ip s2]|] eqn:E1; [|discriminate].
  rewrite (scan_int_app _ _ _ _ E1 F).
  destruct (scan_frac s2) as [fr s3] eqn:E2. rewrite (scan_frac_app _ _ _ _ E2 F).
  destruct (scan_exp s3) as [ex s4] eqn:E3. rewrite (scan_exp_app _ _ _ _ E3 F).
  destruct (is_nil fr && is_nil ex); inversion H1; subst; reflexivity.
Qed.

Lemma pnum_app s v r rest : pnum s = Some (v, r) -> follow_ok rest = true ->
  pnum (s ++ rest) = Some (v, r ++ rest).
Proof.
  rewrite !pnum_unfold. intros H F. destruct s as [|c s]; [discriminate|].
  cbn [List.app]. destruct (c =? 45).
  - apply pnum_body_app; assumption.
  - apply (pnum_body_app false (c :: s)); assumption.
Qed.

Lemma pnum_show_int z : pnum (show_int z) = Some (JInt z, []).
Proof.
  unfold show_int. destruct (z <? 0)%Z eqn:Ez.
  - rewrite pnum_unfold. change (45 =? 45) with true. cbv iota. unfold pnum_body.
    rewrite scan_int_show. cbn [scan_frac scan_exp is_nil andb]. rewrite digits_val_show.
    replace (- Z.of_N (Z.to_N (- z)))%Z with z by lia. reflexivity.
  - destruct (show_nat_head (Z.to_N z)) as (c & r & Hs & Hd). rewrite pnum_unfold, Hs.
    assert (Hc : (c =? 45) = false) by (unfold is_digit in Hd; lia).
    rewrite Hc. rewrite <- Hs. unfold pnum_body. rewrite scan_int_show. cbn [scan_frac scan_exp is_nil andb].
    rewrite digits_val_show. replace (Z.of_N (Z.to_N z)) with z by lia. reflexivity.
Qed.

(* ---------------------------------------------------------------- strings *)
Lemma hexv_hexd d : d < 16 -> hexv (hexd d) = Some d.
Proof.
  intros Hd. unfold hexd, hexv. destruct (d <? 10) eqn:E.
  - replace ((48 <=? 48 + d) && (48 + d <=? 57)) with true by lia. f_equal. lia.
  - replace ((48 <=? 87 + d) && (87 + d <=? 57)) with false by lia.
    replace ((97 <=? 87 + d) && (87 + d <=? 102)) with true by lia. f_equal. lia.
Qed.

Lemma hex4_u4 c : c < 65536 ->
  hex4 (hexd (c / 4096)) (hexd ((c / 256) mod 16)) (hexd ((c / 16) mod 16)) (hexd (c mod 16)) = Some c.
Proof.
  intros Hc. dm c 4096. dm c 256. dm (c / 256) 16. dm c 16. dm (c / 16) 16.
  unfold hex4. rewrite !hexv_hexd by lia. f_equal. lia.
Qed.

Lemma pstr_raw strict c r : (c =? 34) = false -> (c =? 92) = false -> (c <? 32) = false ->
  strict && is_surr c = false -> pstr strict (c :: r) = ocons c (pstr strict r).
Proof. intros H1 H2 H3 H4. cbn [pstr]. rewrite H1, H2, H3, H4. reflexivity. Qed.

Lemma pstr_u_plain strict h1 h2 h3 h4 r2 u : hex4 h1 h2 h3 h4 = Some u -> is_high u = false ->
  is_low u = false -> pstr strict (92 :: 117 :: h1 :: h2 :: h3 :: h4 :: r2) = ocons u (pstr strict r2).
Proof.
  intros H1 H2 H3. cbn [pstr]. change (92 =? 34) with false. change (92 =? 92) with true.
  change (117 =? 117) with true. cbv iota. rewrite H1, H2, H3. reflexivity.
Qed.

Lemma pstr_u_pair strict h1 h2 h3 h4 g1 g2 g3 g4 r3 u u2 :
  hex4 h1 h2 h3 h4 = Some u -> is_high u = true -> hex4 g1 g2 g3 g4 = Some u2 -> is_low u2 = true ->
  pstr strict (92 :: 117 :: h1 :: h2 :: h3 :: h4 :: 92 :: 117 :: g1 :: g2 :: g3 :: g4 :: r3) =
  ocons (65536 + (u - 55296) * 1024 + (u2 - 56320)) (pstr strict r3).
Proof.
  intros H1 H2 H3 H4. cbn [pstr]. change (92 =? 34) with false. change (92 =? 92) with true.
  change (117 =? 117) with true. cbv iota. rewrite H1, H2. cbn [andb]. cbv iota. rewrite H3, H4. reflexivity.
Qed.

Lemma pstr_esc strict a c t : cp_ok c = true -> pstr strict (esc a c ++ t) = ocons c (pstr strict t).
Proof.
  intros Hok. unfold esc.
  destruct (c =? 34) eqn:E1. { apply N.eqb_eq in E1; subst; reflexivity. }
  destruct (c =? 92) eqn:E2. { apply N.eqb_eq in E2; subst; reflexivity. }
  destruct (c =? 8) eqn:E3. { apply N.eqb_eq in E3; subst; reflexivity. }
  destruct (c =? 9) eqn:E4. { apply N.eqb_eq in E4; subst; reflexivity. }
  destruct (c =? 10) eqn:E5. { apply N.eqb_eq in E5; subst; reflexivity. }
  destruct (c =? 12) eqn:E6. { apply N.eqb_eq in E6; subst; reflexivity. }
  destruct (c =? 13) eqn:E7. { apply N.eqb_eq in E7; subst; reflexivity. }
  unfold cp_ok in Hok.
  destruct (c <? 32) eqn:E8.
  { unfold u4. cbn [List.app]. apply pstr_u_plain; [apply hex4_u4; lia | unfold is_high; lia | unfold is_low; lia]. }
  destruct (a && (127 <=? c)) eqn:EA.
  - destruct (c <? 65536) eqn:E9.
    + unfold u4. cbn [List.app].
      apply pstr_u_plain; [apply hex4_u4; lia | unfold is_high; lia | unfold is_low; lia].
    + dm (c - 65536) 1024. rewrite <- List.app_assoc. unfold u4. cbn [List.app].
      rewrite (pstr_u_pair strict _ _ _ _ _ _ _ _ t (55296 + (c - 65536) / 1024) (56320 + (c - 65536) mod 1024));
        [ | apply hex4_u4; lia | unfold is_high; lia | apply hex4_u4; lia | unfold is_low; lia].
      f_equal. lia.
  - cbn [List.app]. apply pstr_raw; try assumption.
    unfold is_surr. destruct strict; [|reflexivity]. cbn [andb]. lia.
Qed.

Lemma pstr_chars strict a s rest : str_ok s = true ->
  pstr strict (flat_map (esc a) s ++ 34 :: rest) = Some (s, rest).
Proof.
  induction s as [|c s IH]; intros H; [reflexivity|].
  cbn [str_ok forallb] in H. apply andb_prop in H. destruct H as [Hc Hs].
  cbn [flat_map]. rewrite <- List.app_assoc. rewrite pstr_esc by exact Hc.
  rewrite (IH Hs). reflexivity.
Qed.

Lemma wr_str_app st s rest : wr_str st s ++ rest = 34 :: flat_map (esc (st_ascii st)) s ++ 34 :: rest.
Proof. unfold wr_str. cbn [List.app]. rewrite <- List.app_assoc. reflexivity. Qed.

(* ---------------------------------------------------------------- what a number token looks like *)
Lemma span_spec s : forall d r, span_digits s = (d, r) -> s = d ++ r.
Proof.
  induction s as [|c s IH]; intros d r H; cbn [span_digits] in H.
  - inversion H; reflexivity.
  - destruct (is_digit c).
    + destruct (span_digits s) as [d' r'] eqn:E. inversion H; subst. cbn [List.app]. f_equal. apply IH. reflexivity.
    + inversion H; reflexivity.
Qed.
Lemma scan_int_spec s ip r : scan_int s = Some (ip, r) -> s = ip ++ r.
Proof.
  destruct s as [|c s]; [discriminate|]. cbn [scan_int]. destruct (c =? 48) eqn:E.
  - intros H; inversion H; subst. apply N.eqb_eq in E; subst. reflexivity.
  - destruct (is_digit c); [|discriminate]. destruct (span_digits s) as [d r'] eqn:Es.
    intros H; inversion H; subst. cbn [List.app]. f_equal. apply span_spec, Es.
Qed.
Lemma scan_frac_spec s fr r : scan_frac s = (fr, r) -> s = fr ++ r.
Proof.
  destruct s as [|c [|d s]]; cbn [scan_frac]; try (intros H; inversion H; reflexivity).
  destruct ((c =? 46) && is_digit d); [|intros H; inversion H; reflexivity].
  destruct (span_digits s) as [ds r'] eqn:Es. intros H; inversion H; subst.
  cbn [List.app]. do 2 f_equal. apply span_spec, Es.
Qed.
Lemma scan_exp_spec s ex r : scan_exp s = (ex, r) -> s = ex ++ r.
Proof.
  destruct s as [|e [|d s]]; cbn [scan_exp]; try (intros H; inversion H; reflexivity).
  destruct (is_e e); [|intros H; inversion H; reflexivity].
  destruct (is_digit d).
  - destruct (span_digits s) as [ds r'] eqn:Es. intros H; inversion H; subst.
    cbn [List.app]. do 2 f_equal. apply span_spec, Es.
  - destruct (is_sign d); [|intros H; inversion H; reflexivity].
    destruct s as [|d2 s]; [intros H; inversion H; reflexivity|].
    destruct (is_digit d2); [|intros H; inversion H; reflexivity].
    destruct (span_digits s) as [ds r'] eqn:Es. intros H; inversion H; subst.
    cbn [List.app]. do 3 f_equal. apply span_spec, Es.
Qed.
Lemma pnum_body_tok neg s t r : pnum_body neg s = Some (JFloat t, r) ->
  (if neg then [45] else []) ++ s = t ++ r.
Proof.
  unfold pnum_body. destruct (scan_int s) as [[ip s2]|] eqn:E1; [|discriminate].
  destruct (scan_frac s2) as [fr s3] eqn:E2. destruct (scan_exp s3) as [ex s4] eqn:E3.
  destruct (is_nil fr && is_nil ex); intros H; inversion H; subst.
  rewrite (scan_int_spec _ _ _ E1), (scan_frac_spec _ _ _ E2), (scan_exp_spec _ _ _ E3).
  rewrite <- !List.app_assoc. reflexivity.
Qed.
Lemma pnum_tok s t r : pnum s = Some (JFloat t, r) -> s = t ++ r.
Proof.
  rewrite pnum_unfold. destruct s as [|c s]; [discriminate|]. destruct (c =? 45) eqn:E.
  - apply N.eqb_eq in E; subst. intros H. apply pnum_body_tok in H. exact H.
  - intros H. apply pnum_body_tok in H. exact H.
Qed.

Lemma float_tok_pnum t : float_tok_ok t = true -> pnum t = Some (JFloat t, []).
Proof.
  unfold float_tok_ok. destruct (pnum t) as [[v r]|] eqn:E; [|discriminate].
  destruct v; try discriminate. destruct r; [|discriminate]. intros _.
  apply pnum_tok in E. rewrite List.app_nil_r in E. subst. reflexivity.
Qed.

Definition num_start (c : N) (r : list N) : Prop :=
  is_digit c = true \/ (c = 45 /\ exists d r', r = d :: r' /\ is_digit d = true).
Lemma num_head s v r0 : pnum s = Some (v, r0) -> exists c r, s = c :: r /\ num_start c r.
Proof.
  rewrite pnum_unfold. destruct s as [|c r]; [discriminate|]. intros H. exists c, r. split; [reflexivity|].
  destruct (c =? 45) eqn:E.
  - apply N.eqb_eq in E; subst. right. split; [reflexivity|]. unfold pnum_body in H.
    destruct r as [|d r']; [discriminate|]. exists d, r'. split; [reflexivity|]. cbn [scan_int] in H.
    destruct (d =? 48) eqn:E0; [apply N.eqb_eq in E0; subst; reflexivity|].
    destruct (is_digit d); [reflexivity|discriminate].
  - left. unfold pnum_body in H. cbn [scan_int] in H.
    destruct (c =? 48) eqn:E0; [apply N.eqb_eq in E0; subst; reflexivity|].
    destruct (is_digit c); [reflexivity|discriminate].
Qed.
Lemma num_start_tests c r : num_start c r ->
  is_ws c = false /\ (c =? 34) = false /\ (c =? 91) = false /\ (c =? 123) = false /\ (c =? 110) = false /\
  (c =? 116) = false /\ (c =? 102) = false /\ (c =? 78) = false /\ (c =? 73) = false /\
  (c =? 93) = false /\ (c =? 125) = false /\
  ((c =? 45) && match r with i :: _ => i =? 73 | [] => false end) = false /\ (c <? 128) = true.
Proof.
  unfold num_start, is_ws, is_digit. intros [H | (-> & d & r' & -> & H)].
  - repeat split; try lia; replace (c =? 45) with false by lia; reflexivity.
  - repeat split; try reflexivity; cbn [andb]; lia.
Qed.

(* ---------------------------------------------------------------- the reader on the writer's output *)
Definition szl (l : list jv) : nat := fold_right (fun x a => S (sz x + a)) O l.
Definition szd (d : list (list N * jv)) : nat := fold_right (fun kx a => S (sz (snd kx) + a)) O d.
Definition dict_ok (d : list (list N * jv)) : bool := forallb (fun kx => str_ok (fst kx) && jv_ok (snd kx)) d.
Lemma sz_pos w : (1 <= sz w)%nat.
Proof. destruct w; cbn [sz]; lia. Qed.

Section Main.
Variable strict : bool.
Variable st : style.
Hypothesis Hsp : forallb is_ws (st_sp st) = true.

Definition tl_items (l : list jv) : list N := flat_map (fun y => 44 :: st_sp st ++ wr st y) l.
Definition tl_members (d : list (list N * jv)) : list N :=
  flat_map (fun ky => 44 :: st_sp st ++ wr_member st (wr st) ky) d.

Lemma skip_sp s : skip_ws (st_sp st ++ s) = skip_ws s.
Proof.
  revert Hsp. generalize (st_sp st). intros l. induction l as [|a l IH]; cbn [forallb List.app skip_ws]; intros H; [reflexivity|].
  apply andb_prop in H. destruct H as [Ha Hl]. rewrite Ha. apply IH, Hl.
Qed.
Lemma pval_S n s : pval strict (S n) s =
    match skip_ws s with
    | [] => None
    | c :: r =>
      if c =? 34 then match pstr strict r with Some (cs, r') => Some (JStr cs, r') | None => None end
      else if c =? 91 then
        match skip_ws r with
        | c2 :: r2 => if c2 =? 93 then Some (JList [], r2)
                      else match pelems strict n r with Some (l, r') => Some (JList l, r') | None => None end
        | [] => None
        end
      else if c =? 123 then
        match skip_ws r with
        | c2 :: r2 => if c2 =? 125 then Some (JDict [], r2)
                      else match pmembers strict n r with Some (d, r') => Some (JDict d, r') | None => None end
        | [] => None
        end
      else if c =? 110 then match lit [117; 108; 108] r with Some r' => Some (JNull, r') | None => None end
      else if c =? 116 then match lit [114; 117; 101] r with Some r' => Some (JBool true, r') | None => None end
      else if c =? 102 then match lit [97; 108; 115; 101] r with Some r' => Some (JBool false, r') | None => None end
      else if negb strict && (c =? 78) then
        match lit NaN_t (c :: r) with Some r' => Some (JFloat NaN_t, r') | None => None end
      else if negb strict && (c =? 73) then
        match lit Inf_t (c :: r) with Some r' => Some (JFloat Inf_t, r') | None => None end
      else if negb strict && (c =? 45) && (match r with i :: _ => i =? 73 | [] => false end) then
        match lit Inf_t r with Some r' => Some (JFloat (45 :: Inf_t), r') | None => None end
      else pnum (c :: r)
    end.
Proof. reflexivity. Qed.
Lemma pelems_S n s : pelems strict (S n) s =
    match pval strict n s with
    | None => None
    | Some (x, r) =>
      match skip_ws r with
      | c :: r' =>
        if c =? 93 then Some ([x], r')
        else if c =? 44 then match pelems strict n r' with Some (xs, r'') => Some (x :: xs, r'') | None => None end
        else None
      | [] => None
      end
    end.
Proof. reflexivity. Qed.
Lemma pmembers_S n s : pmembers strict (S n) s =
    match skip_ws s with
    | q :: r0 =>
      if q =? 34 then
        match pstr strict r0 with
        | None => None
        | Some (k, r1) =>
          match skip_ws r1 with
          | c :: r2 =>
            if c =? 58 then
              match pval strict n r2 with
              | None => None
              | Some (x, r3) =>
                match skip_ws r3 with
                | c' :: r4 =>
                  if c' =? 125 then Some ([(k, x)], r4)
                  else if c' =? 44 then
                    match pmembers strict n r4 with Some (d, r5) => Some ((k, x) :: d, r5) | None => None end
                  else None
                | [] => None
                end
              end
            else None
          | [] => None
          end
        end
      else None
    | [] => None
    end.
Proof. reflexivity. Qed.

Lemma pval_ws n s s' : skip_ws s = skip_ws s' -> pval strict n s = pval strict n s'.
Proof. intros H. destruct n; [reflexivity|]. rewrite !pval_S, H. reflexivity. Qed.
Lemma pelems_ws n s s' : skip_ws s = skip_ws s' -> pelems strict n s = pelems strict n s'.
Proof. intros H. destruct n; [reflexivity|]. rewrite !pelems_S, (pval_ws n s s' H). reflexivity. Qed.
Lemma pmembers_ws n s s' : skip_ws s = skip_ws s' -> pmembers strict n s = pmembers strict n s'.
Proof. intros H. destruct n; [reflexivity|]. rewrite !pmembers_S, H. reflexivity. Qed.

Lemma pval_str n s : pval strict (S n) (34 :: s) =
  match pstr strict s with Some (cs, r') => Some (JStr cs, r') | None => None end.
Proof. reflexivity. Qed.
Lemma pval_list n r : pval strict (S n) (91 :: r) =
  match skip_ws r with
  | c2 :: r2 => if c2 =? 93 then Some (JList [], r2)
                else match pelems strict n r with Some (l, r') => Some (JList l, r') | None => None end
  | [] => None end.
Proof. reflexivity. Qed.
Lemma pval_dict n r : pval strict (S n) (123 :: r) =
  match skip_ws r with
  | c2 :: r2 => if c2 =? 125 then Some (JDict [], r2)
                else match pmembers strict n r with Some (d, r') => Some (JDict d, r') | None => None end
  | [] => None end.
Proof. reflexivity. Qed.

Lemma pval_num n s v rest : pnum s = Some (v, []) -> follow_ok rest = true ->
  pval strict (S n) (s ++ rest) = Some (v, rest).
Proof.
  intros H F. pose proof (pnum_app _ _ _ _ H F) as Ha. cbn [List.app] in Ha.
  destruct (num_head _ _ _ H) as (c & r & -> & Hst).
  assert (Hst' : num_start c (r ++ rest)).
  { destruct Hst as [Hd | (-> & d & r' & -> & Hd)]; [left; exact Hd|].
    right. split; [reflexivity|]. exists d, (r' ++ rest). split; [reflexivity|exact Hd]. }
  destruct (num_start_tests _ _ Hst') as (T0 & T1 & T2 & T3 & T4 & T5 & T6 & T7 & T8 & _ & _ & T9 & _).
  cbn [List.app] in *. rewrite pval_S. cbn [skip_ws]. rewrite T0. cbv iota.
  rewrite T1, T2, T3, T4, T5, T6, T7, T8. rewrite !andb_false_r. cbv iota.
  rewrite <- andb_assoc, T9, andb_false_r. exact Ha.
Qed.

Lemma wr_head w : jv_ok w = true ->
  exists c r, wr st w = c :: r /\ is_ws c = false /\ (c =? 93) = false /\ (c =? 125) = false /\ (c <? 128) = true.
Proof.
  intros Hok.
  assert (Hn : forall s v, pnum s = Some (v, []) ->
            exists c r, s = c :: r /\ is_ws c = false /\ (c =? 93) = false /\ (c =? 125) = false /\ (c <? 128) = true).
  { intros s v H. destruct (num_head _ _ _ H) as (c & r & -> & Hst). exists c, r.
    destruct (num_start_tests _ _ Hst) as (T0 & _ & _ & _ & _ & _ & _ & _ & _ & T1 & T2 & _ & T3).
    repeat split; assumption. }
  destruct w as [|b|z|t|s|l|d]; cbn [wr].
  - eexists _, _. repeat split.
  - destruct b; eexists _, _; repeat split.
  - apply (Hn _ _ (pnum_show_int z)).
  - cbn [jv_ok] in Hok. apply (Hn _ _ (float_tok_pnum t Hok)).
  - unfold wr_str. eexists _, _. repeat split.
  - eexists _, _. repeat split.
  - eexists _, _. repeat split.
Qed.

Lemma follow_tl_items l rest : follow_ok (tl_items l ++ 93 :: rest) = true.
Proof. destruct l; reflexivity. Qed.
Lemma follow_tl_members d rest : follow_ok (tl_members d ++ 125 :: rest) = true.
Proof. destruct d; reflexivity. Qed.

Definition Pval (n : nat) : Prop := forall w rest, jv_ok w = true -> (sz w <= n)%nat ->
  follow_ok rest = true -> pval strict n (wr st w ++ rest) = Some (w, rest).
Definition Pelems (n : nat) : Prop := forall x l rest, jv_ok x = true -> forallb jv_ok l = true ->
  (S (sz x + szl l) <= n)%nat ->
  pelems strict n (wr st x ++ tl_items l ++ 93 :: rest) = Some (x :: l, rest).
Definition Pmembers (n : nat) : Prop := forall k x d rest, str_ok k = true -> jv_ok x = true ->
  dict_ok d = true -> (S (sz x + szd d) <= n)%nat ->
  pmembers strict n (wr_member st (wr st) (k, x) ++ tl_members d ++ 125 :: rest) = Some ((k, x) :: d, rest).

Lemma step_elems n : Pval n -> Pelems n -> Pelems (S n).
Proof.
  intros HV HE x l rest Hx Hl Hsz. rewrite pelems_S.
  rewrite (HV x (tl_items l ++ 93 :: rest) Hx ltac:(lia) (follow_tl_items l rest)).
  destruct l as [|y l'].
  - reflexivity.
  - cbn [forallb] in Hl. apply andb_prop in Hl. destruct Hl as [Hy Hl']. cbn [szl fold_right] in Hsz. fold (szl l') in Hsz.
    unfold tl_items at 1. cbn [flat_map]. fold (tl_items l'). cbn [List.app]. rewrite <- !List.app_assoc.
    change (skip_ws (44 :: ?t)) with (44 :: t). cbv iota.
    change (44 =? 93) with false. change (44 =? 44) with true. cbv iota.
    rewrite (pelems_ws n _ _ (skip_sp _)).
    rewrite (HE y l' rest Hy Hl' ltac:(lia)). reflexivity.
Qed.

Lemma step_members n : Pval n -> Pmembers n -> Pmembers (S n).
Proof.
  intros HV HM k x d rest Hk Hx Hd Hsz. unfold wr_member at 1. cbn [fst snd].
  rewrite <- !List.app_assoc. rewrite wr_str_app. cbn [List.app]. rewrite <- !List.app_assoc.
  rewrite pmembers_S. change (skip_ws (34 :: ?t)) with (34 :: t). cbv iota. change (34 =? 34) with true. cbv iota.
  rewrite (pstr_chars strict _ k _ Hk).
  change (skip_ws (58 :: ?t)) with (58 :: t). cbv iota. change (58 =? 58) with true. cbv iota.
  rewrite (pval_ws n _ _ (skip_sp _)).
  rewrite (HV x (tl_members d ++ 125 :: rest) Hx ltac:(lia) (follow_tl_members d rest)).
  destruct d as [|[k' y] d'].
  - reflexivity.
  - unfold dict_ok in Hd. cbn [forallb fst snd] in Hd. apply andb_prop in Hd. destruct Hd as [Hky Hd'].
    apply andb_prop in Hky. destruct Hky as [Hk' Hy].
    cbn [szd fold_right snd] in Hsz. fold (szd d') in Hsz.
    unfold tl_members at 1. cbn [flat_map]. fold (tl_members d'). cbn [List.app]. rewrite <- !List.app_assoc.
    change (skip_ws (44 :: ?t)) with (44 :: t). cbv iota.
    change (44 =? 125) with false. change (44 =? 44) with true. cbv iota.
    rewrite (pmembers_ws n _ _ (skip_sp _)).
    rewrite (HM k' y d' rest Hk' Hy Hd' ltac:(lia)). reflexivity.
Qed.

Lemma step_val n : Pelems n -> Pmembers n -> Pval (S n).
Proof.
  intros HE HM w rest Hok Hsz F. destruct w as [|b|z|t|s|l|d].
  - reflexivity.
  - destruct b; reflexivity.
  - cbn [wr]. apply pval_num; [apply pnum_show_int|exact F].
  - cbn [wr]. cbn [jv_ok] in Hok. apply pval_num; [apply float_tok_pnum, Hok|exact F].
  - cbn [wr]. cbn [jv_ok] in Hok. rewrite wr_str_app, pval_str, (pstr_chars strict _ s _ Hok). reflexivity.
  - cbn [wr]. destruct l as [|x l'].
    + reflexivity.
    + cbn [jv_ok forallb] in Hok. apply andb_prop in Hok. destruct Hok as [Hx Hl'].
      cbn [sz fold_right] in Hsz. fold (szl l') in Hsz.
      unfold wr_items. fold (tl_items l'). cbn [List.app]. rewrite <- !List.app_assoc. cbn [List.app].
      rewrite pval_list.
      destruct (wr_head x Hx) as (c & r & Hw & Hws & H93 & _ & _).
      assert (Hsk : skip_ws (wr st x ++ tl_items l' ++ 93 :: rest) = c :: r ++ tl_items l' ++ 93 :: rest).
      { rewrite Hw. cbn [List.app skip_ws]. rewrite Hws. reflexivity. }
      rewrite Hsk, H93. rewrite (HE x l' rest Hx Hl' ltac:(lia)). reflexivity.
  - cbn [wr]. destruct d as [|[k x] d'].
    + reflexivity.
    + cbn [jv_ok forallb fst snd] in Hok. apply andb_prop in Hok. destruct Hok as [Hkx Hd'].
      apply andb_prop in Hkx. destruct Hkx as [Hk Hx].
      cbn [sz fold_right snd] in Hsz. fold (szd d') in Hsz.
      unfold wr_members. fold (tl_members d'). cbn [List.app]. rewrite <- !List.app_assoc. cbn [List.app].
      rewrite pval_dict.
      assert (Hsk : exists r, skip_ws (wr_member st (wr st) (k, x) ++ tl_members d' ++ 125 :: rest) = 34 :: r).
      { unfold wr_member, wr_str. cbn [fst List.app]. eexists. reflexivity. }
      destruct Hsk as [r Hsk]. rewrite Hsk. change (34 =? 125) with false. cbv iota.
      rewrite (HM k x d' rest Hk Hx Hd' ltac:(lia)). reflexivity.
Qed.

Lemma all_n n : Pval n /\ Pelems n /\ Pmembers n.
Proof.
  induction n as [|n (HV & HE & HM)].
  - repeat split.
    + intros w rest _ Hsz. pose proof (sz_pos w). lia.
    + intros x l rest _ _ Hsz. lia.
    + intros k x d rest _ _ _ Hsz. lia.
  - repeat split; [apply step_val | apply step_elems | apply step_members]; assumption.
Qed.

Lemma pval_wr n w rest : jv_ok w = true -> (sz w <= n)%nat -> follow_ok rest = true ->
  pval strict n (wr st w ++ rest) = Some (w, rest).
Proof. apply (proj1 (all_n n)). Qed.
End Main.

(* ---------------------------------------------------------------- nested induction on wire values *)
Section JvInd.
Variable P : jv -> Prop.
Hypothesis HN : P JNull.
Hypothesis HB : forall b, P (JBool b).
Hypothesis HI : forall z, P (JInt z).
Hypothesis HF : forall t, P (JFloat t).
Hypothesis HS : forall s, P (JStr s).
Hypothesis HL : forall l, Forall P l -> P (JList l).
Hypothesis HD : forall d, Forall (fun kx => P (snd kx)) d -> P (JDict d).
Fixpoint jv_ind' (w : jv) : P w :=
  match w with
  | JNull => HN | JBool b => HB b | JInt z => HI z | JFloat t => HF t | JStr s => HS s
  | JList l => HL l ((fix go (l : list jv) : Forall P l :=
                        match l with [] => Forall_nil _ | x :: r => Forall_cons x (jv_ind' x) (go r) end) l)
  | JDict d => HD d ((fix go (d : list (list N * jv)) : Forall (fun kx => P (snd kx)) d :=
                        match d with
                        | [] => Forall_nil _
                        | (k, x) :: r => Forall_cons (k, x) (jv_ind' x) (go r)
                        end) d)
  end.
End JvInd.

(* ---------------------------------------------------------------- every character the writer emits *)
Definition numch (c : N) : bool := is_digit c || (c =? 46) || is_e c || is_sign c.
Lemma span_digits_all s : forall d r, span_digits s = (d, r) -> forallb numch d = true.
Proof.
  induction s as [|c s IH]; intros d r H; cbn [span_digits] in H.
  - inversion H; reflexivity.
  - destruct (is_digit c) eqn:E.
    + destruct (span_digits s) as [d' r'] eqn:Es. inversion H; subst. cbn [forallb].
      unfold numch at 1. rewrite E. cbn [orb]. eapply IH. reflexivity.
    + inversion H; reflexivity.
Qed.
Lemma scan_int_all s ip r : scan_int s = Some (ip, r) -> forallb numch ip = true.
Proof.
  destruct s as [|c s]; [discriminate|]. cbn [scan_int]. destruct (c =? 48) eqn:E.
  - intros H; inversion H; reflexivity.
  - destruct (is_digit c) eqn:Ed; [|discriminate]. destruct (span_digits s) as [d r'] eqn:Es.
    intros H; inversion H; subst. cbn [forallb]. unfold numch at 1. rewrite Ed. cbn [orb].
    apply (span_digits_all _ _ _ Es).
Qed.
Lemma scan_frac_all s fr r : scan_frac s = (fr, r) -> forallb numch fr = true.
Proof.
  destruct s as [|c [|d s]]; cbn [scan_frac]; try (intros H; inversion H; reflexivity).
  destruct ((c =? 46) && is_digit d) eqn:E; [|intros H; inversion H; reflexivity].
  apply andb_prop in E. destruct E as [Ec Ed].
  destruct (span_digits s) as [ds r'] eqn:Es. intros H; inversion H; subst. cbn [forallb].
  unfold numch at 1 2. rewrite Ec, Ed, !orb_true_r. cbn [orb andb]. apply (span_digits_all _ _ _ Es).
Qed.
Lemma scan_exp_all s ex r : scan_exp s = (ex, r) -> forallb numch ex = true.
Proof.
  destruct s as [|e [|d s]]; cbn [scan_exp]; try (intros H; inversion H; reflexivity).
  destruct (is_e e) eqn:Ee; [|intros H; inversion H; reflexivity].
  destruct (is_digit d) eqn:Ed.
  - destruct (span_digits s) as [ds r'] eqn:Es. intros H; inversion H; subst. cbn [forallb].
    unfold numch at 1 2. rewrite Ee, Ed, !orb_true_r. cbn [orb andb]. apply (span_digits_all _ _ _ Es).
  - destruct (is_sign d) eqn:Esg; [|intros H; inversion H; reflexivity].
    destruct s as [|d2 s]; [intros H; inversion H; reflexivity|].
    destruct (is_digit d2) eqn:Ed2; [|intros H; inversion H; reflexivity].
    destruct (span_digits s) as [ds r'] eqn:Es. intros H; inversion H; subst. cbn [forallb].
    unfold numch at 1 2 3. rewrite Ee, Esg, Ed2, !orb_true_r. cbn [orb andb]. apply (span_digits_all _ _ _ Es).
Qed.
Lemma pnum_body_all neg s t r : pnum_body neg s = Some (JFloat t, r) -> forallb numch t = true.
Proof.
  unfold pnum_body. destruct (scan_int s) as [[ip s2]|] eqn:E1; [|discriminate].
  destruct (scan_frac s2) as [fr s3] eqn:E2. destruct (scan_exp s3) as [ex s4] eqn:E3.
  destruct (is_nil fr && is_nil ex); intros H; inversion H; subst.
  rewrite !forallb_app. rewrite (scan_int_all _ _ _ E1), (scan_frac_all _ _ _ E2), (scan_exp_all _ _ _ E3).
  destruct neg; reflexivity.
Qed.
Lemma float_tok_all t : float_tok_ok t = true -> forallb numch t = true.
Proof.
  intros H. apply float_tok_pnum in H. rewrite pnum_unfold in H. destruct t as [|c r]; [discriminate|].
  destruct (c =? 45); apply pnum_body_all in H; exact H.
Qed.
Lemma show_uint_all u : forallb numch (show_uint u) = true.
Proof. induction u; cbn [show_uint forallb]; try rewrite IHu; reflexivity. Qed.
Lemma show_int_all z : forallb numch (show_int z) = true.
Proof. unfold show_int, show_nat. destruct (z <? 0)%Z; cbn [forallb]; rewrite show_uint_all; reflexivity. Qed.

Section Chars.
Variable q : N -> bool.
Variable st : style.
Hypothesis Hq1 : forall c, 32 <= c -> c < 127 -> q c = true.
Hypothesis Hq2 : forallb q (st_sp st) = true.
Hypothesis Hq3 : forall c, cp_ok c = true -> 127 <= c -> st_ascii st = false -> q c = true.

Lemma q_numch c : numch c = true -> q c = true.
Proof. unfold numch, is_digit, is_e, is_sign. intros H. apply Hq1; lia. Qed.
Lemma q_num t : forallb numch t = true -> forallb q t = true.
Proof.
  induction t as [|c t IH]; cbn [forallb]; intros H; [reflexivity|].
  apply andb_prop in H. destruct H as [Hc Ht]. rewrite (q_numch c Hc), (IH Ht). reflexivity.
Qed.
Lemma q_hexd d : d < 16 -> q (hexd d) = true.
Proof. intros H. unfold hexd. destruct (d <? 10) eqn:E; apply Hq1; lia. Qed.
Lemma q_u4 c : c < 65536 -> forallb q (u4 c) = true.
Proof.
  intros Hc. dm c 4096. dm c 256. dm (c / 256) 16. dm c 16. dm (c / 16) 16.
  unfold u4. cbn [forallb]. rewrite !q_hexd by lia. rewrite !Hq1 by lia. reflexivity.
Qed.
Lemma q_esc c : cp_ok c = true -> forallb q (esc (st_ascii st) c) = true.
Proof.
  intros Hok. unfold esc.
  assert (H2 : forall a b, forallb q [a; b] = q a && q b) by (intros; cbn [forallb]; rewrite andb_true_r; reflexivity).
  destruct (c =? 34) eqn:E1. { rewrite H2, !Hq1 by lia. reflexivity. }
  destruct (c =? 92) eqn:E2. { rewrite H2, !Hq1 by lia. reflexivity. }
  destruct (c =? 8) eqn:E3. { rewrite H2, !Hq1 by lia. reflexivity. }
  destruct (c =? 9) eqn:E4. { rewrite H2, !Hq1 by lia. reflexivity. }
  destruct (c =? 10) eqn:E5. { rewrite H2, !Hq1 by lia. reflexivity. }
  destruct (c =? 12) eqn:E6. { rewrite H2, !Hq1 by lia. reflexivity. }
  destruct (c =? 13) eqn:E7. { rewrite H2, !Hq1 by lia. reflexivity. }
  unfold cp_ok in Hok.
  destruct (c <? 32) eqn:E8. { apply q_u4. lia. }
  destruct (st_ascii st) eqn:Ea; cbn [andb].
  - destruct (127 <=? c) eqn:E9.
    + destruct (c <? 65536) eqn:E10; [apply q_u4; lia|].
      dm (c - 65536) 1024. rewrite forallb_app, !q_u4 by lia. reflexivity.
    + cbn [forallb]. rewrite Hq1 by lia. reflexivity.
  - cbn [forallb]. rewrite andb_true_r. destruct (c <? 127) eqn:E9; [apply Hq1; lia|].
    apply Hq3; [unfold cp_ok; lia | lia | reflexivity].
Qed.
Lemma q_str s : str_ok s = true -> forallb q (wr_str st s) = true.
Proof.
  intros H. unfold wr_str. cbn [forallb]. rewrite forallb_app. cbn [forallb]. rewrite !Hq1 by lia.
  rewrite andb_true_r. cbn [andb].
  induction s as [|c s IH]; [reflexivity|]. cbn [str_ok forallb] in H. apply andb_prop in H. destruct H as [Hc Hs].
  cbn [flat_map]. rewrite forallb_app, (q_esc c Hc), (IH Hs). reflexivity.
Qed.

Lemma wr_all w : jv_ok w = true -> forallb q (wr st w) = true.
Proof.
  induction w as [|b|z|t|s|l IH|d IH] using jv_ind'; intros Hok; cbn [wr].
  - cbn [forallb]. rewrite !Hq1 by lia. reflexivity.
  - destruct b; cbn [forallb]; rewrite !Hq1 by lia; reflexivity.
  - apply q_num, show_int_all.
  - apply q_num, float_tok_all, Hok.
  - apply q_str, Hok.
  - cbn [forallb]. rewrite forallb_app. cbn [forallb]. rewrite !Hq1 by lia. rewrite andb_true_r. cbn [andb].
    cbn [jv_ok] in Hok. destruct l as [|x l']; [reflexivity|].
    cbn [forallb] in Hok. apply andb_prop in Hok. destruct Hok as [Hx Hl'].
    inversion IH as [|x' l'' Px Pl']; subst. unfold wr_items. rewrite forallb_app, (Px Hx). cbn [andb].
    clear Px IH Hx. induction l' as [|y l' IHl]; [reflexivity|].
    cbn [forallb] in Hl'. apply andb_prop in Hl'. destruct Hl' as [Hy Hl'].
    inversion Pl' as [|y' l'' Py Pl'']; subst.
    cbn [flat_map]. rewrite forallb_app. cbn [forallb]. rewrite forallb_app, Hq2, (Py Hy), Hq1 by lia.
    cbn [andb]. apply IHl; assumption.
  - cbn [forallb]. rewrite forallb_app. cbn [forallb]. rewrite !Hq1 by lia. rewrite andb_true_r. cbn [andb].
    cbn [jv_ok] in Hok.
    assert (Hm : forall kx, str_ok (fst kx) && jv_ok (snd kx) = true -> (jv_ok (snd kx) = true -> forallb q (wr st (snd kx)) = true) ->
                 forallb q (wr_member st (wr st) kx) = true).
    { intros kx Hkx Pkx. apply andb_prop in Hkx. destruct Hkx as [Hk Hx]. unfold wr_member.
      rewrite forallb_app. cbn [forallb]. rewrite forallb_app, (q_str _ Hk), Hq2, (Pkx Hx), Hq1 by lia. reflexivity. }
    destruct d as [|kx d']; [reflexivity|].
    cbn [forallb] in Hok. apply andb_prop in Hok. destruct Hok as [Hkx Hd'].
    inversion IH as [|kx' d'' Px Pd']; subst. unfold wr_members. rewrite forallb_app, (Hm kx Hkx Px). cbn [andb].
    clear Px IH Hkx. induction d' as [|ky d' IHd]; [reflexivity|].
    cbn [forallb] in Hd'. apply andb_prop in Hd'. destruct Hd' as [Hky Hd'].
    inversion Pd' as [|ky' d'' Py Pd'']; subst.
    cbn [flat_map]. rewrite forallb_app. cbn [forallb]. rewrite forallb_app, Hq2, (Hm ky Hky Py), Hq1 by lia.
    cbn [andb]. apply IHd; assumption.
Qed.
End Chars.

(* ---------------------------------------------------------------- fuel: the measure is below the text length *)
Lemma ws_cp_ok c : is_ws c = true -> cp_ok c = true.
Proof. unfold is_ws, cp_ok. lia. Qed.

Section Top.
Variable st : style.
Hypothesis Hsp : forallb is_ws (st_sp st) = true.

Lemma wr_nonempty w : jv_ok w = true -> (1 <= length (wr st w))%nat.
Proof. intros H. destruct (wr_head st w H) as (c & r & Hw & _). rewrite Hw. cbn [length]. lia. Qed.

Lemma sz_le_len w : jv_ok w = true -> (sz w <= length (wr st w))%nat.
Proof.
  induction w as [|b|z|t|s|l IH|d IH] using jv_ind'; intros Hok;
    try (exact (wr_nonempty _ Hok)).
  - cbn [wr sz length]. rewrite app_length. cbn [length]. fold (szl l). cbn [jv_ok] in Hok.
    enough (szl l <= S (length (wr_items (st_sp st) (wr st) l)))%nat by lia.
    destruct l as [|x l']; [cbn; lia|].
    cbn [forallb] in Hok. apply andb_prop in Hok. destruct Hok as [Hx Hl'].
    inversion IH as [|x' l'' Px Pl']; subst. unfold wr_items. rewrite app_length.
    cbn [szl fold_right]. fold (szl l'). pose proof (Px Hx).
    enough (szl l' <= length (flat_map (fun y => 44%N :: st_sp st ++ wr st y) l'))%nat by lia.
    clear Px IH Hx H. induction l' as [|y l' IHl]; [cbn; lia|].
    cbn [forallb] in Hl'. apply andb_prop in Hl'. destruct Hl' as [Hy Hl'].
    inversion Pl' as [|y' l'' Py Pl'']; subst.
    cbn [flat_map szl fold_right]. fold (szl l'). rewrite app_length. cbn [length]. rewrite app_length.
    pose proof (Py Hy). pose proof (IHl Hl' Pl''). lia.
  - cbn [wr sz length]. rewrite app_length. cbn [length]. fold (szd d). cbn [jv_ok] in Hok.
    enough (szd d <= S (length (wr_members st (wr st) d)))%nat by lia.
    assert (Hm : forall kx, str_ok (fst kx) && jv_ok (snd kx) = true ->
                 (jv_ok (snd kx) = true -> (sz (snd kx) <= length (wr st (snd kx)))%nat) ->
                 (sz (snd kx) <= length (wr_member st (wr st) kx))%nat).
    { intros kx Hkx Pkx. apply andb_prop in Hkx. destruct Hkx as [Hk Hx]. unfold wr_member.
      rewrite app_length. cbn [length]. rewrite app_length. pose proof (Pkx Hx). lia. }
    destruct d as [|kx d']; [cbn; lia|].
    cbn [forallb] in Hok. apply andb_prop in Hok. destruct Hok as [Hkx Hd'].
    inversion IH as [|kx' d'' Px Pd']; subst. unfold wr_members. rewrite app_length.
    cbn [szd fold_right]. fold (szd d'). pose proof (Hm kx Hkx Px).
    enough (szd d' <= length (flat_map (fun ky => 44%N :: st_sp st ++ wr_member st (wr st) ky) d'))%nat by lia.
    clear Px IH Hkx H. induction d' as [|ky d' IHd]; [cbn; lia|].
    cbn [forallb] in Hd'. apply andb_prop in Hd'. destruct Hd' as [Hky Hd'].
    inversion Pd' as [|ky' d'' Py Pd'']; subst.
    cbn [flat_map szd fold_right]. fold (szd d'). rewrite app_length. cbn [length]. rewrite app_length.
    pose proof (Hm ky Hky Py). pose proof (IHd Hd' Pd''). lia.
Qed.

(* ---------------------------------------------------------------- reader after writer *)
Lemma parse_wr strict w : jv_ok w = true -> parse_text strict (wr st w) = Some w.
Proof.
  intros Hok. unfold parse_text.
  pose proof (pval_wr strict st Hsp (S (S (2 * length (wr st w)))) w [] Hok) as H.
  rewrite List.app_nil_r in H. rewrite H; [reflexivity | | reflexivity].
  pose proof (sz_le_len w Hok). lia.
Qed.

Lemma sp_cp_ok : forallb cp_ok (st_sp st) = true.
Proof.
  revert Hsp. generalize (st_sp st). intros l. induction l as [|a l IH]; cbn [forallb]; intros H; [reflexivity|].
  apply andb_prop in H. destruct H as [Ha Hl]. rewrite (ws_cp_ok a Ha), (IH Hl). reflexivity.
Qed.
Lemma wr_cp_ok w : jv_ok w = true -> forallb cp_ok (wr st w) = true.
Proof.
  apply wr_all.
  - intros c H1 H2. unfold cp_ok. lia.
  - exact sp_cp_ok.
  - intros c H _ _. exact H.
Qed.

Lemma utf8_wr surr w : jv_ok w = true -> utf8_dec surr (json_write st w) = Some (wr st w).
Proof.
  intros Hok. unfold json_write. apply utf8_roundtrip. intros c Hin.
  pose proof (wr_cp_ok w Hok) as H. rewrite forallb_forall in H. specialize (H c Hin).
  unfold cp_ok in H. unfold is_surr. split; [lia|]. right. lia.
Qed.

Theorem read_write strict surr w : jv_ok w = true -> json_read_gen strict surr (json_write st w) = Some w.
Proof. intros Hok. unfold json_read_gen. rewrite (utf8_wr surr w Hok). apply parse_wr, Hok. Qed.

Theorem write_injective a b : jv_ok a = true -> jv_ok b = true -> json_write st a = json_write st b -> a = b.
Proof.
  intros Ha Hb H. pose proof (read_write false true a Ha) as Ra. rewrite H in Ra.
  rewrite (read_write false true b Hb) in Ra. inversion Ra. reflexivity.
Qed.

(* the first byte: an ASCII character that is neither a NUL nor part of a byte-order mark *)
Lemma write_head w : jv_ok w = true ->
  exists c r, json_write st w = c :: r /\ (c <? 128) = true /\ is_ws c = false.
Proof.
  intros Hok. destruct (wr_head st w Hok) as (c & r & Hw & Hws & _ & _ & Hc).
  unfold json_write. rewrite Hw. unfold utf8_enc. cbn [flat_map]. unfold utf8_enc1 at 1. rewrite Hc.
  cbn [List.app]. eexists _, _. repeat split; assumption.
Qed.

Theorem std_loads_write w : jv_ok w = true -> std_loads (json_write st w) = Some w.
Proof.
  intros Hok. unfold std_loads. destruct (write_head w Hok) as (c & r & Hw & Hc & _).
  replace (utf8_sig (json_write st w)) with false.
  - apply (read_write false true w Hok).
  - rewrite Hw. unfold utf8_sig, starts. cbn [lit]. replace (239 =? c) with false by lia. reflexivity.
Qed.
End Top.

(* ---------------------------------------------------------------- well-formedness of the emitted bytes *)
Definition byte_ok (b : N) : bool := (32 <=? b) && (b <? 248).
Definition ascii_ok (b : N) : bool := (32 <=? b) && (b <? 127).
Definition text_ok (c : N) : bool := (32 <=? c) && cp_ok c.

Lemma enc1_bytes c : text_ok c = true -> forallb byte_ok (utf8_enc1 c) = true.
Proof.
  unfold text_ok, cp_ok, byte_ok. intros H. dm c 64. dm c 4096. dm (c / 64) 64. dm c 262144. dm (c / 4096) 64.
  unfold utf8_enc1. destruct (c <? 128) eqn:E1; [cbn [forallb]; lia|].
  destruct (c <? 2048) eqn:E2; [cbn [forallb]; lia|].
  destruct (c <? 65536) eqn:E3; cbn [forallb]; lia.
Qed.
Lemma enc_bytes s : forallb text_ok s = true -> forallb byte_ok (utf8_enc s) = true.
Proof.
  induction s as [|c s IH]; cbn [forallb]; intros H; [reflexivity|].
  apply andb_prop in H. destruct H as [Hc Hs]. unfold utf8_enc. cbn [flat_map]. fold (utf8_enc s).
  rewrite forallb_app, (enc1_bytes c Hc), (IH Hs). reflexivity.
Qed.
Lemma enc_ascii s : forallb ascii_ok s = true -> utf8_enc s = s.
Proof.
  induction s as [|c s IH]; cbn [forallb]; intros H; [reflexivity|].
  apply andb_prop in H. destruct H as [Hc Hs]. unfold utf8_enc. cbn [flat_map]. fold (utf8_enc s).
  rewrite (IH Hs). unfold utf8_enc1. unfold ascii_ok in Hc. replace (c <? 128) with true by lia. reflexivity.
Qed.

Lemma wr_text_ok st w : forallb text_ok (st_sp st) = true -> jv_ok w = true -> forallb text_ok (wr st w) = true.
Proof.
  intros Hs. apply wr_all.
  - intros c H1 H2. unfold text_ok, cp_ok. lia.
  - exact Hs.
  - intros c H H1 _. unfold text_ok. rewrite H. lia.
Qed.
Lemma wr_ascii_ok st w : st_ascii st = true -> forallb ascii_ok (st_sp st) = true -> jv_ok w = true ->
  forallb ascii_ok (wr st w) = true.
Proof.
  intros Ha Hs. apply wr_all.
  - intros c H1 H2. unfold ascii_ok. lia.
  - exact Hs.
  - intros c _ _ H. rewrite Ha in H. discriminate.
Qed.

Lemma utf8_branch_bytes b : forallb byte_ok b = true -> std_utf8_branch b = true.
Proof.
  unfold std_utf8_branch, starts, byte_ok.
  destruct b as [|b0 [|b1 [|b2 [|b3 r]]]]; cbn [forallb lit]; intros H; try reflexivity;
    replace (255 =? b0) with false by lia; replace (254 =? b0) with false by lia; replace (0 =? b0) with false by lia;
    cbn [orb]; try reflexivity; lia.
Qed.

Definition known_style (st : style) : Prop := st = orjson_style \/ st = stdlib_style.
Lemma known_sp_ws st : known_style st -> forallb is_ws (st_sp st) = true.
Proof. intros [-> | ->]; reflexivity. Qed.
Lemma known_sp_text st : known_style st -> forallb text_ok (st_sp st) = true.
Proof. intros [-> | ->]; reflexivity. Qed.

Theorem output_wellformed st w : known_style st -> jv_ok w = true ->
  forallb byte_ok (json_write st w) = true /\
  utf8_dec false (json_write st w) = Some (wr st w) /\
  std_utf8_branch (json_write st w) = true.
Proof.
  intros Hst Hok.
  assert (Hb : forallb byte_ok (json_write st w) = true)
    by (apply enc_bytes, wr_text_ok; [apply known_sp_text, Hst | exact Hok]).
  repeat split; [exact Hb | apply utf8_wr; [apply known_sp_ws, Hst | exact Hok] | apply utf8_branch_bytes, Hb].
Qed.

Theorem output_ascii w : jv_ok w = true ->
  json_write stdlib_style w = wr stdlib_style w /\ forallb ascii_ok (json_write stdlib_style w) = true.
Proof.
  intros Hok. assert (H : forallb ascii_ok (wr stdlib_style w) = true) by (apply wr_ascii_ok; [reflexivity | reflexivity | exact Hok]).
  unfold json_write. rewrite (enc_ascii _ H). split; [reflexivity | exact H].
Qed.

(* ---------------------------------------------------------------- the guard is needed *)
Definition read_write_full (st : style) : Prop := forall w, json_read (json_write st w) = Some w.

Lemma refuted_surrogate_pair :
  json_read (json_write stdlib_style (JStr [55357; 56832])) = Some (JStr [128512]).
Proof. vm_compute. reflexivity. Qed.
Lemma refuted_codepoint_range : json_read (json_write orjson_style (JStr [1114112])) = None.
Proof. vm_compute. reflexivity. Qed.
Lemma refuted_float_token : json_read (json_write orjson_style (JFloat [49])) = Some (JInt 1).
Proof. vm_compute. reflexivity. Qed.
Lemma refuted_strict_surrogate :
  json_read_strict (json_write orjson_style (JStr [55296])) = None /\
  json_read (json_write orjson_style (JStr [55296])) = Some (JStr [55296]).
Proof. vm_compute. split; reflexivity. Qed.
Lemma read_write_full_refuted st : known_style st -> ~ read_write_full st.
Proof.
  intros [-> | ->] H.
  - specialize (H (JStr [1114112])). rewrite refuted_codepoint_range in H. discriminate.
  - specialize (H (JStr [55357; 56832])). rewrite refuted_surrogate_pair in H. discriminate.
Qed.
