(* Proofs about Model/SerdesAstLoad.v (source translator tie of serdes.py, part 2). *)
From Coq Require Import List Bool NArith ZArith.
Import ListNotations.
Require Import TL.Model.Serdes TL.Model.SerdesAstLoad.

Lemma desc_in : forall v, In (desc_of v) all_tdesc.
Proof.
  intros v; destruct v; try (left; reflexivity).
  destruct k; unfold all_tdesc, all_ckinds; simpl; repeat (try (left; reflexivity); right).
Qed.
Lemma ckind_in : forall k, In k all_ckinds.
Proof. intros k; destruct k; unfold all_ckinds; simpl; repeat (try (left; reflexivity); right). Qed.

Lemma ckind_eqb_eq : forall a b, ckind_eqb a b = true -> a = b.
Proof. intros a b; destruct a, b; simpl; intros H; try discriminate; reflexivity. Qed.
Lemma tdesc_eqb_eq : forall a b, tdesc_eqb a b = true -> a = b.
Proof. intros [a|] [b|]; simpl; intros H; try discriminate; [apply ckind_eqb_eq in H; subst|]; reflexivity. Qed.
Lemma laction_eqb_eq : forall a b, laction_eqb a b = true -> a = b.
Proof. intros a b; destruct a, b; simpl; intros H; try discriminate; reflexivity. Qed.
Lemma daction_eqb_eq : forall a b, daction_eqb a b = true -> a = b.
Proof. intros a b; destruct a, b; simpl; intros H; try discriminate; reflexivity. Qed.
Lemma sarg_eqb_eq : forall a b, sarg_eqb a b = true -> a = b.
Proof. intros a b; destruct a, b; simpl; intros H; try discriminate; reflexivity. Qed.
Lemma sfun_eqb_eq : forall a b, sfun_eqb a b = true -> a = b.
Proof. intros a b; destruct a, b; simpl; intros H; try discriminate; reflexivity. Qed.

(* ---------------------------------------------------------------- load *)
Lemma lladder_sound : forall l d, lladder_ok l d = true -> forall rt v, load_src l d rt v = load rt v.
Proof.
  intros l d H rt v. unfold lladder_ok in H. rewrite forallb_forall in H.
  specialize (H (desc_of v) (desc_in v)). apply laction_eqb_eq in H.
  unfold load_src. rewrite H. destruct v; reflexivity.
Qed.

(* ---------------------------------------------------------------- strload *)
Lemma slprog_sound : forall P, slprog_ok P = true ->
  forall rt k p, strload_src P (strload_body rt true) k p = strload rt k p.
Proof.
  intros P H rt k p. unfold slprog_ok in H. rewrite forallb_forall in H.
  specialize (H k (ckind_in k)). unfold strload_src.
  destruct (strload_pre P k) as [k'|e]; simpl in H; [|discriminate].
  apply ckind_eqb_eq in H; subst k'. destruct k; reflexivity.
Qed.

(* ---------------------------------------------------------------- _strload *)
Lemma sup_equiv_ok : forall a b, sup_equiv a b = true -> forall e, suppresses a e = suppresses b e.
Proof.
  intros a b H e. unfold sup_equiv in H. rewrite forallb_forall in H.
  apply eqb_prop. apply H. destruct e; unfold all_exn; simpl; repeat (try (left; reflexivity); right).
Qed.

Lemma run_steps_equiv : forall rt a b, steps_equiv a b = true ->
  forall ret k p dec, run_steps rt a ret k p dec = run_steps rt b ret k p dec.
Proof.
  intros rt a; induction a as [|x r IH]; intros b H ret k p dec; destruct b as [|y s]; simpl in H; try discriminate.
  - reflexivity.
  - apply andb_true_iff in H as [Hx Hr].
    destruct x as [|f xa sup], y as [|g ya sup']; simpl in Hx; try discriminate.
    + simpl. destruct (decode_text rt k p); simpl; [apply IH; exact Hr | reflexivity].
    + apply andb_true_iff in Hx as [Hx Hs]. apply andb_true_iff in Hx as [Hf Ha].
      apply sfun_eqb_eq in Hf; apply sarg_eqb_eq in Ha; subst. simpl.
      destruct (arg_val ya k p dec) as [[k' p']|]; [|reflexivity].
      destruct (call rt g k' p') as [v|e]; [reflexivity|].
      rewrite (sup_equiv_ok _ _ Hs e). destruct (suppresses sup' e); [apply IH; exact Hr | reflexivity].
Qed.

Lemma sprog_equiv_run : forall P Q, sprog_equiv P Q = true -> forall rt k p, run_sprog rt P k p = run_sprog rt Q k p.
Proof.
  intros P Q H rt k p. unfold sprog_equiv in H. apply andb_true_iff in H as [Hs Hr].
  apply sarg_eqb_eq in Hr. unfold run_sprog. rewrite Hr. apply run_steps_equiv; exact Hs.
Qed.

Lemma canonical_dec_ok : forall rt k p, run_sprog rt canonical_dec k p = strload_body rt true k p.
Proof.
  intros rt k p. unfold run_sprog, canonical_dec, strload_body, strload_body_dec. simpl.
  destruct (decode_text rt k p) as [s|e]; simpl; [|reflexivity].
  destruct (json_loads_str rt s) as [v|e]; [reflexivity|].
  destruct e; simpl; try reflexivity; unfold literal_step;
    (destruct (literal_eval rt s) as [v'|e']; [reflexivity | destruct e'; reflexivity]).
Qed.

Lemma canonical_raw_ok : forall rt k p, run_sprog rt canonical_raw k p = strload_body_raw rt true k p.
Proof.
  intros rt k p. unfold run_sprog, canonical_raw, strload_body_raw. simpl.
  destruct (json_loads rt k p) as [v|e]; [reflexivity|].
  destruct e; simpl; try reflexivity;
    (destruct (decode_text rt k p) as [s|e]; simpl; [|reflexivity]; unfold literal_step;
     destruct (literal_eval rt s) as [v'|e']; [reflexivity | destruct e'; reflexivity]).
Qed.

Lemma sprog_sound_dec : forall P, sprog_equiv P canonical_dec = true ->
  forall rt k p, run_sprog rt P k p = strload_body rt true k p.
Proof. intros P H rt k p. rewrite (sprog_equiv_run P _ H). apply canonical_dec_ok. Qed.

Lemma sprog_sound_raw : forall P, sprog_equiv P canonical_raw = true ->
  forall rt k p, run_sprog rt P k p = strload_body_raw rt true k p.
Proof. intros P H rt k p. rewrite (sprog_equiv_run P _ H). apply canonical_raw_ok. Qed.

(* ---------------------------------------------------------------- decode *)
Lemma dprog_sound : forall P, dprog_ok P = true -> forall rt v, decode_src P rt v = decode rt v.
Proof.
  intros P H rt v. unfold dprog_ok in H. rewrite forallb_forall in H.
  specialize (H (desc_of v) (desc_in v)). unfold dprog_ok_at in H. unfold decode_src.
  destruct (run_conv (tselect (dp_conv P) (dp_conv_d P) (desc_of v)) (desc_of v)) as [d'|e]; [|discriminate].
  apply andb_true_iff in H as [Ha Hd]. apply daction_eqb_eq in Ha. rewrite Ha.
  destruct v; simpl in *; try (apply tdesc_eqb_eq in Hd; subst d'; reflexivity).
  destruct k; simpl in *; try reflexivity.
  apply tdesc_eqb_eq in Hd; subst d'. reflexivity.
Qed.

(* ---------------------------------------------------------------- witnesses *)
(* a runtime on which the versions of the code can be told apart *)
Definition toy_rt (lit : res pv) : Runtime :=
  {| utf8_encode := fun s => s; utf8_decode := fun b => Ok b;
     json_loads_str := fun _ => Raise EValue; json_loads_bin := fun _ => Ok (PInt 1%Z);
     literal_eval := fun _ => lit; json_dumps := fun _ => []; py_repr := fun _ => [] |}.

Definition good_lladder : tladder laction := [(TIsText, LStrload)].
Definition good_slprog : slprog :=
  {| sl_conv := [(TInst [TBytearray; TMemoryview], NBytesCtor)]; sl_conv_d := NKeep; sl_memo := true |}.
Definition good_dprog : dprog :=
  {| dp_conv := [(TInst [TMemoryview], NTobytes)]; dp_conv_d := NKeep;
     dp_lad := [(TInst [TBytes; TBytearray], DUtf8)]; dp_lad_d := DIdentity |}.

Lemma good_progs_ok :
  lladder_ok good_lladder LIdentity = true /\ slprog_ok good_slprog = true /\ dprog_ok good_dprog = true /\
  sprog_equiv canonical_dec canonical_dec = true.
Proof. repeat split; vm_compute; reflexivity. Qed.

(* JSON decoder on the raw carrier: another function *)
Lemma raw_json_refuted :
  sprog_equiv canonical_raw canonical_dec = false /\
  run_sprog (toy_rt (Raise EValue)) canonical_raw CBytes [] = Ok (PInt 1%Z) /\
  strload_body (toy_rt (Raise EValue)) true CBytes [] = Ok (PStr []).
Proof. repeat split; vm_compute; reflexivity. Qed.

(* RecursionError no longer suppressed around literal_eval *)
Definition prog_no_recursion : sprog :=
  {| sp_steps := [SDecode; SAttempt FJson ADecoded [XValueError];
                  SAttempt FLiteral ADecoded [XValueError; XTypeError; XSyntaxError; XMemoryError]];
     sp_ret := ADecoded |}.
Lemma dropped_kind_refuted :
  sprog_equiv prog_no_recursion canonical_dec = false /\
  run_sprog (toy_rt (Raise ERecursion)) prog_no_recursion CStr [] = Raise ERecursion /\
  strload_body (toy_rt (Raise ERecursion)) true CStr [] = Ok (PStr []).
Proof. repeat split; vm_compute; reflexivity. Qed.

(* the order of the exception classes and a redundant subclass do not matter *)
Lemma sup_order_irrelevant :
  sup_equiv [XSyntaxError; XRecursionError; XUnicodeError; XTypeError; XValueError; XMemoryError] literal_errors = true.
Proof. vm_compute; reflexivity. Qed.

(* strload without the normalisation: a bytearray reaches the memoised body's key and is unhashable *)
Lemma no_normalisation_refuted :
  slprog_ok {| sl_conv := []; sl_conv_d := NKeep; sl_memo := true |} = false /\
  strload_pre {| sl_conv := []; sl_conv_d := NKeep; sl_memo := true |} CBytearray = Raise EType.
Proof. split; vm_compute; reflexivity. Qed.
