(* C06 -- proofs about Model/CoreC06.v (see that file for the definitions). *)
From Coq Require Import List Arith Bool PeanoNat Lia.
Import ListNotations.
Require Import TL.Model.Core.
Require Import TL.Model.CoreC06.
Require Import TL.Model.CoreC06Toy.
Require TL.Proofs.CoreHash.

(* ------------------------------------------------------------------ generic list / monad lemmas *)
Lemma mapM_pres {A B} (Q : A -> Prop) (P : B -> Prop) (f : A -> res B) :
  (forall x y, Q x -> f x = Ok y -> P y) ->
  forall l rs, Forall Q l -> mapM f l = Ok rs -> Forall P rs.
Proof.
  intros Hf l. induction l as [|a l IH]; intros rs HQ HM; cbn [mapM] in HM.
  - injection HM as <-. constructor.
  - inversion HQ as [|? ? Ha Hl]; subst.
    destruct (f a) as [y| | |] eqn:Hfa; cbn [bind] in HM; try discriminate.
    destruct (mapM f l) as [t| | |] eqn:Hml; cbn [bind] in HM; try discriminate.
    injection HM as <-. constructor; [eapply Hf; eauto | eapply IH; eauto].
Qed.

Lemma mapM_ext {A B} (f g : A -> res B) : (forall x, f x = g x) -> forall l, mapM f l = mapM g l.
Proof.
  intros H l. induction l as [|a l IH]; cbn [mapM]; [reflexivity|]. rewrite H, IH. reflexivity.
Qed.

Lemma Forall_True {A} (l : list A) : Forall (fun _ => True) l.
Proof. induction l; constructor; auto. Qed.

Lemma forallb_Forall {A} (f : A -> bool) l : forallb f l = true -> Forall (fun x => f x = true) l.
Proof. intros H. apply Forall_forall. intros x Hx. eapply forallb_forall in H; eauto. Qed.

Lemma Forall_forallb {A} (f : A -> bool) l : Forall (fun x => f x = true) l -> forallb f l = true.
Proof. intros H. apply forallb_forall. intros x Hx. eapply Forall_forall in H; eauto. Qed.

Lemma zip_trunc_In {A B} (a : list A) : forall (b : list B) x y, In (x, y) (zip_trunc a b) -> In x a /\ In y b.
Proof.
  induction a as [|a0 a IH]; intros b x y H; cbn [zip_trunc] in H; [contradiction|].
  destruct b as [|b0 b]; [contradiction|]. destruct H as [H|H].
  - injection H as <- <-. split; left; reflexivity.
  - apply IH in H. destruct H. split; right; assumption.
Qed.

Lemma fold_left_ext {A B} (f g : A -> B -> A) : (forall a b, f a b = g a b) ->
  forall l a, fold_left f l a = fold_left g l a.
Proof. intros H l. induction l as [|b l IH]; intros a; cbn [fold_left]; [reflexivity|]. rewrite H. apply IH. Qed.

(* ------------------------------------------------------------------ runtime-dependent helpers *)
Section Helpers.
Variable rt : runtime.

Lemma first_ok_In : forall rs x w, first_ok rt rs x = Ok w -> exists r, In r rs /\ r x = Ok w.
Proof.
  induction rs as [|r rs IH]; intros x w H; cbn [first_ok] in H; [discriminate|].
  destruct (r x) as [y|e| |] eqn:Hr; try discriminate.
  - injection H as <-. exists r. split; [left; reflexivity | assumption].
  - destruct (suppressed rt e); [|discriminate].
    apply IH in H. destruct H as (r' & Hin & Hr'). exists r'. split; [right; assumption | assumption].
Qed.

Lemma dict_set_Forall (A B : pv -> Prop) k v : A k -> B v ->
  forall d, Forall (fun kv => A (fst kv) /\ B (snd kv)) d ->
            Forall (fun kv => A (fst kv) /\ B (snd kv)) (dict_set rt k v d).
Proof.
  intros Hk Hv d. induction d as [|[k' v'] d IH]; intros H; cbn [dict_set].
  - constructor; [split; assumption | constructor].
  - inversion H as [|? ? H1 H2]; subst. cbn [fst snd] in H1.
    destruct (pv_pyeq rt k k').
    + constructor; [cbn [fst snd]; split; [apply H1 | assumption] | assumption].
    + constructor; [assumption | apply IH; assumption].
Qed.

Lemma dict_of_Forall (A B : pv -> Prop) l :
  Forall (fun kv => A (fst kv) /\ B (snd kv)) l ->
  Forall (fun kv => A (fst kv) /\ B (snd kv)) (dict_of rt l).
Proof.
  unfold dict_of. intros H.
  assert (G : forall d, Forall (fun kv => A (fst kv) /\ B (snd kv)) d ->
                        Forall (fun kv => A (fst kv) /\ B (snd kv))
                               (fold_left (fun d kv => dict_set rt (fst kv) (snd kv) d) l d)).
  { induction H as [|kv l Hkv Hl IH]; intros d Hd; cbn [fold_left]; [assumption|].
    apply IH. apply dict_set_Forall; [apply Hkv | apply Hkv | assumption]. }
  apply G. constructor.
Qed.

Lemma kw_set_Forall (P : pv -> Prop) f v : P v ->
  forall kw, Forall (fun fv : nat * pv => P (snd fv)) kw -> Forall (fun fv : nat * pv => P (snd fv)) (kw_set f v kw).
Proof.
  intros Hv kw. induction kw as [|[g w] kw IH]; intros H; cbn [kw_set].
  - constructor; [assumption | constructor].
  - inversion H as [|? ? H1 H2]; subst. destruct (Nat.eqb f g).
    + constructor; assumption.
    + constructor; [assumption | apply IH; assumption].
Qed.

Lemma fold_kw_notok (f : ty -> pv -> res pv) cd : forall kvs (acc : res (list (nat * pv))),
  (forall kw, acc <> Ok kw) -> forall kw, fold_left (kw_step rt f cd) kvs acc <> Ok kw.
Proof.
  induction kvs as [|kv kvs IH]; intros acc Hacc kw; cbn [fold_left]; [apply Hacc|].
  apply IH. intros kw'. destruct acc as [a|e| |]; cbn [kw_step bind]; try discriminate.
  exfalso. eapply Hacc. reflexivity.
Qed.

Lemma fold_kw_pres (P : pv -> Prop) (f : ty -> pv -> res pv) cd : forall kvs kw0 kw,
  (forall kv g ft v', In kv kvs -> fst kv = PKey g -> field_ty cd g = Some ft -> f ft (snd kv) = Ok v' -> P v') ->
  Forall (fun fv : nat * pv => P (snd fv)) kw0 ->
  fold_left (kw_step rt f cd) kvs (Ok kw0) = Ok kw ->
  Forall (fun fv : nat * pv => P (snd fv)) kw.
Proof.
  induction kvs as [|kv kvs IH]; intros kw0 kw Hf H0 HF; cbn [fold_left] in HF.
  - injection HF as <-. assumption.
  - assert (Hin : forall kv', In kv' kvs -> In kv' (kv :: kvs)) by (intros; right; assumption).
    remember (kw_step rt f cd (Ok kw0) kv) as acc eqn:Hacc.
    destruct acc as [kw1|e| |];
      try (exfalso; eapply fold_kw_notok; [|exact HF]; intros ?; discriminate).
    eapply IH; [intros; eapply Hf; eauto | | exact HF].
    unfold kw_step in Hacc. cbn [bind] in Hacc.
    destruct (fst kv) as [a|g|k l|k l|c l|c l] eqn:Hk.
    1,3,4,5,6: match type of Hacc with Ok _ = (if ?b then _ else _) => destruct b end;
               try discriminate; injection Hacc as ->; assumption.
    destruct (field_ty cd g) as [ft|] eqn:Hft.
    + destruct (f ft (snd kv)) as [v'| | |] eqn:Hv; cbn [bind] in Hacc; try discriminate.
      injection Hacc as ->. apply kw_set_Forall; [|assumption].
      eapply Hf; eauto. left; reflexivity.
    + injection Hacc as ->. assumption.
Qed.

Lemma find_field_In cd g ft : field_ty cd g = Some ft -> exists fd, In fd (cfields cd) /\ fty fd = ft.
Proof.
  unfold field_ty. destruct (find (fun fd => Nat.eqb (fname fd) g) (cfields cd)) as [fd|] eqn:H; [|discriminate].
  intros Hs. injection Hs as <-. apply find_some in H. exists fd. split; [apply H | reflexivity].
Qed.

Lemma is_none_atom a x : none rt = PAtom a -> is_none_val rt x = true -> x = PAtom a.
Proof.
  unfold is_none_val. intros ->. destruct x; cbn [pv_eqb]; try discriminate.
  intros H. apply Nat.eqb_eq in H. subst. reflexivity.
Qed.

End Helpers.

(* ------------------------------------------------------------------ the generic preservation theorem *)
Section Gen.
Variable rt : runtime.
Variable E : env.
Variable nm : pv -> res pv.
Variable P : pv -> Prop.
Variable robust_leaf wire_leaf : nat -> bool.
Variable none_ok : bool.
Variable R F : nat -> bool.
Variable leaf_valid : nat -> pv -> bool.

Notation robust := (robust_ty robust_leaf none_ok R).
Notation fa := (fa_ty robust_leaf wire_leaf none_ok R F).

Hypothesis Hleaf : forall s x w, robust_leaf s = true -> leaf_m rt s x = Ok w -> P w.
Hypothesis Hnm : none_ok = true -> forall x w, nm x = Ok w -> P w.
Hypothesis Hnone : forall x, is_none_val rt x = true -> P x.
Hypothesis Hkey : forall f, P (PKey f).
Hypothesis Hseq : forall l, Forall P l -> P (PSeq KList l).
Hypothesis Hdict : forall l,
  Forall (fun kv => (P (fst kv) /\ unhashable rt (fst kv) = false) /\ P (snd kv)) l -> P (PDict KDict l).
Hypothesis HenvR : env_robust E robust_leaf none_ok R.

Lemma struct_out kw : Forall (fun fv : nat * pv => P (snd fv)) kw ->
  P (PDict KDict (map (fun fv => (PKey (fst fv), snd fv)) kw)).
Proof.
  intros H. apply Hdict. induction H as [|fv kw Hfv Hkw IH]; cbn [map]; constructor; [|assumption].
  cbn [fst snd]. split; [split; [apply Hkey | reflexivity] | assumption].
Qed.

Lemma map_out rs w :
  Forall (fun kv : pv * pv => P (fst kv) /\ P (snd kv)) rs -> construct_map rt KDict rs = Ok w -> P w.
Proof.
  unfold construct_map. intros H HC.
  destruct (existsb (fun kv => unhashable rt (fst kv)) rs) eqn:Hex; [discriminate|].
  injection HC as <-. apply Hdict.
  apply (dict_of_Forall rt (fun k => P k /\ unhashable rt k = false) P).
  apply Forall_forall. intros kv Hin. eapply Forall_forall in H; [|exact Hin].
  split; [split; [apply H|] | apply H].
  destruct (unhashable rt (fst kv)) eqn:Hu; [|reflexivity].
  assert (existsb (fun kv => unhashable rt (fst kv)) rs = true) by (apply existsb_exists; exists kv; auto).
  congruence.
Qed.

(* every input: a robust annotation's routine returns P-data whenever it returns *)
Lemma marG_robust : forall m T x w, robust T = true -> marG rt E nm m T x = Ok w -> P w.
Proof.
  induction m as [|n IH]; intros T x w HR HM; [discriminate|].
  destruct T as [s| |k a|k kt vt|ts|ts|c|c|s|t'|i t'|i t'|i c|t'|t']; cbn [marG] in HM; cbn [robust_ty] in HR.
  - eapply Hleaf; eauto.
  - eapply Hnm; eauto.
  - destruct (itervalues rt x) as [vs| | |]; cbn [bind] in HM; try discriminate.
    destruct (mapM (marG rt E nm n a) vs) as [rs| | |] eqn:Hm; cbn [bind] in HM; try discriminate.
    injection HM as <-. apply Hseq.
    eapply (mapM_pres (fun _ => True)); [|apply Forall_True|exact Hm].
    intros v y _ Hy. eapply IH; eauto.
  - apply andb_true_iff in HR. destruct HR as [HRk HRv].
    destruct (iteritems rt E x) as [kvs| | |]; cbn [bind] in HM; try discriminate.
    apply (proj1 (TL.Proofs.CoreHash.map_step_ok_iff _ _ _ _ _)) in HM.
    destruct (mapM (map_step (marG rt E nm n) kt vt) kvs) as [rs| | |] eqn:Hm; cbn [bind] in HM; try discriminate.
    eapply map_out; [|exact HM].
    eapply (mapM_pres (fun _ => True)); [|apply Forall_True|exact Hm].
    intros kv y _ Hy. unfold map_step in Hy.
    destruct (marG rt E nm n kt (fst kv)) as [k'| | |] eqn:Hk; cbn [bind] in Hy; try discriminate.
    destruct (marG rt E nm n vt (snd kv)) as [v'| | |] eqn:Hv; cbn [bind] in Hy; try discriminate.
    injection Hy as <-. cbn [fst snd].
    split; [eapply IH; [exact HRk|exact Hk] | eapply IH; [exact HRv|exact Hv]].
  - destruct (itervalues rt x) as [vs| | |]; cbn [bind] in HM; try discriminate.
    destruct (mapM (fun tv => marG rt E nm n (fst tv) (snd tv)) (zip_trunc ts vs)) as [rs| | |] eqn:Hm;
      cbn [bind] in HM; try discriminate.
    injection HM as <-. apply Hseq.
    eapply (mapM_pres (fun tv : ty * pv => robust (fst tv) = true)); [| |exact Hm].
    + intros tv y Htv Hy. cbn beta in Hy. eapply IH; [exact Htv|exact Hy].
    + apply Forall_forall. intros [t v] Hin. apply zip_trunc_In in Hin. cbn [fst].
      eapply forallb_forall in HR; [exact HR | apply Hin].
  - destruct (isoptional ts && is_none_val rt x) eqn:Hc.
    + injection HM as <-. apply andb_true_iff in Hc. apply Hnone. apply Hc.
    + apply first_ok_In in HM. destruct HM as (r & Hin & Hr).
      apply in_map_iff in Hin. destruct Hin as (t & <- & Hin).
      eapply IH; [|exact Hr]. eapply forallb_forall in HR; eauto.
  - destruct (E c) as [[cd|t']|] eqn:HE; try discriminate.
    + destruct (iteritems rt E x) as [kvs| | |]; cbn [bind] in HM; try discriminate.
      destruct (fold_left (kw_step rt (marG rt E nm n) cd) kvs (Ok [])) as [kw| | |] eqn:HF; cbn [bind] in HM; try discriminate.
      injection HM as <-. apply struct_out.
      eapply fold_kw_pres; [| |exact HF]; [|constructor].
      intros kv g ft v' _ _ Hft Hv. eapply IH; [|exact Hv].
      apply find_field_In in Hft. destruct Hft as (fd & Hfd & <-).
      specialize (HenvR c _ HR HE). cbn [def_ok] in HenvR. eapply forallb_forall in HenvR; eauto.
    + eapply IH; [|exact HM]. apply (HenvR c _ HR HE).
  - destruct (E c) as [[cd|t']|] eqn:HE; try discriminate.
    + destruct (iteritems rt E x) as [kvs| | |]; cbn [bind] in HM; try discriminate.
      destruct (fold_left (kw_step rt (marG rt E nm n) cd) kvs (Ok [])) as [kw| | |] eqn:HF; cbn [bind] in HM; try discriminate.
      injection HM as <-. apply struct_out.
      eapply fold_kw_pres; [| |exact HF]; [|constructor].
      intros kv g ft v' _ _ Hft Hv. eapply IH; [|exact Hv].
      apply find_field_In in Hft. destruct Hft as (fd & Hfd & <-).
      specialize (HenvR c _ HR HE). cbn [def_ok] in HenvR. eapply forallb_forall in HenvR; eauto.
    + eapply IH; [|exact HM]. apply (HenvR c _ HR HE).
  - eapply Hleaf; eauto.
  - eapply IH; eauto.
  - eapply IH; eauto.
  - eapply IH; eauto.
  - destruct (E c) as [[cd|t']|] eqn:HE; try discriminate.
    + destruct (iteritems rt E x) as [kvs| | |]; cbn [bind] in HM; try discriminate.
      destruct (fold_left (kw_step rt (marG rt E nm n) cd) kvs (Ok [])) as [kw| | |] eqn:HF; cbn [bind] in HM; try discriminate.
      injection HM as <-. apply struct_out.
      eapply fold_kw_pres; [| |exact HF]; [|constructor].
      intros kv g ft v' _ _ Hft Hv. eapply IH; [|exact Hv].
      apply find_field_In in Hft. destruct Hft as (fd & Hfd & <-).
      specialize (HenvR c _ HR HE). cbn [def_ok] in HenvR. eapply forallb_forall in HenvR; eauto.
    + eapply IH; [|exact HM]. apply (HenvR c _ HR HE).
  - eapply IH; eauto.
  - eapply IH; eauto.
Qed.

(* valid inputs of fully annotated types *)
Hypothesis Hleafv : forall s x w, wire_leaf s = true -> leaf_valid s x = true -> leaf_m rt s x = Ok w -> P w.
Hypothesis Hnmv : forall x w, is_none_val rt x = true -> nm x = Ok w -> P w.
Hypothesis HenvF : env_fa E robust_leaf wire_leaf none_ok R F.

Notation val := (valid rt E leaf_valid).

Lemma class_case n n' cd x w :
  (forall T v w, fa T = true -> val n' T v = true -> marG rt E nm n T v = Ok w -> P w) ->
  forallb (fun f => fa (fty f)) (cfields cd) = true ->
  match iteritems rt E x with
  | Ok kvs => forallb (item_valid (val n') cd) kvs
  | _ => false end = true ->
  bind (iteritems rt E x) (fun kvs =>
    bind (fold_left (kw_step rt (marG rt E nm n) cd) kvs (Ok []))
         (fun kw => Ok (PDict KDict (map (fun fv => (PKey (fst fv), snd fv)) kw)))) = Ok w ->
  P w.
Proof.
  intros IH Hfa HV HM.
  destruct (iteritems rt E x) as [kvs| | |]; cbn [bind] in HM; try discriminate.
  destruct (fold_left (kw_step rt (marG rt E nm n) cd) kvs (Ok [])) as [kw| | |] eqn:HF; cbn [bind] in HM; try discriminate.
  injection HM as <-. apply struct_out.
  eapply fold_kw_pres; [| |exact HF]; [|constructor].
  intros kv g ft v' Hin Hk Hft Hv.
  eapply forallb_forall in HV; [|exact Hin]. unfold item_valid in HV. rewrite Hk, Hft in HV.
  eapply IH; [|exact HV|exact Hv].
  apply find_field_In in Hft. destruct Hft as (fd & Hfd & <-).
  eapply forallb_forall in Hfa; eauto.
Qed.

Lemma marG_valid : forall m n T v w,
  fa T = true -> val n T v = true -> marG rt E nm m T v = Ok w -> P w.
Proof.
  induction m as [|m IH]; intros n T v w HA HV HM; [discriminate|].
  destruct n as [|n]; [discriminate|].
  destruct T as [s| |k a|k kt vt|ts|ts|c|c|s|t'|i t'|i t'|i c|t'|t'];
    cbn [marG] in HM; cbn [fa_ty] in HA; cbn [valid] in HV.
  - eapply Hleafv; eauto.
  - eapply Hnmv; eauto.
  - destruct v as [ | |k' l| | | ]; try discriminate. cbn [itervalues bind] in HM.
    destruct (mapM (marG rt E nm m a) l) as [rs| | |] eqn:Hm; cbn [bind] in HM; try discriminate.
    injection HM as <-. apply Hseq.
    eapply (mapM_pres (fun x => val n a x = true)); [|apply forallb_Forall; exact HV|exact Hm].
    intros x y Hx Hy. eapply IH; eauto.
  - apply andb_true_iff in HA. destruct HA as [HAk HAv].
    destruct v as [ | | |k' l| | ]; try discriminate. cbn [iteritems bind] in HM.
    apply (proj1 (TL.Proofs.CoreHash.map_step_ok_iff _ _ _ _ _)) in HM.
    destruct (mapM (map_step (marG rt E nm m) kt vt) l) as [rs| | |] eqn:Hm; cbn [bind] in HM; try discriminate.
    eapply map_out; [|exact HM].
    eapply (mapM_pres (fun kv : pv * pv => val n kt (fst kv) && val n vt (snd kv) = true));
      [|apply forallb_Forall; exact HV|exact Hm].
    intros kv y Hkv Hy. apply andb_true_iff in Hkv. destruct Hkv as [Hk1 Hv1]. unfold map_step in Hy.
    destruct (marG rt E nm m kt (fst kv)) as [k'0| | |] eqn:Hk; cbn [bind] in Hy; try discriminate.
    destruct (marG rt E nm m vt (snd kv)) as [v'| | |] eqn:Hv; cbn [bind] in Hy; try discriminate.
    injection Hy as <-. cbn [fst snd].
    split; [eapply IH; [exact HAk|exact Hk1|exact Hk] | eapply IH; [exact HAv|exact Hv1|exact Hv]].
  - destruct v as [ | |k' l| | | ]; try discriminate. destruct k'; try discriminate.
    apply andb_true_iff in HV. destruct HV as [_ HV]. cbn [itervalues bind] in HM.
    destruct (mapM (fun tv => marG rt E nm m (fst tv) (snd tv)) (zip_trunc ts l)) as [rs| | |] eqn:Hm;
      cbn [bind] in HM; try discriminate.
    injection HM as <-. apply Hseq.
    eapply (mapM_pres (fun tv : ty * pv => fa (fst tv) = true /\ val n (fst tv) (snd tv) = true)); [| |exact Hm].
    + intros tv y [H1 H2] Hy. cbn beta in Hy. eapply IH; [exact H1|exact H2|exact Hy].
    + apply Forall_forall. intros [t x] Hin. cbn [fst snd]. split.
      * apply zip_trunc_In in Hin. eapply forallb_forall in HA; [exact HA | apply Hin].
      * eapply forallb_forall in HV; [|exact Hin]. exact HV.
  - eapply (marG_robust (S m) (TUnion ts)); [exact HA | exact HM].
  - destruct (E c) as [[cd|t']|] eqn:HE; try discriminate.
    + specialize (HenvF c _ HA HE). cbn [def_ok] in HenvF.
      destruct v; try discriminate; eapply class_case; eauto.
    + eapply IH; [|exact HV|exact HM]. apply (HenvF c _ HA HE).
  - destruct (E c) as [[cd|t']|] eqn:HE; try discriminate.
    + specialize (HenvF c _ HA HE). cbn [def_ok] in HenvF.
      destruct v; try discriminate; eapply class_case; eauto.
    + eapply IH; [|exact HV|exact HM]. apply (HenvF c _ HA HE).
  - eapply Hleafv; eauto.
  - eapply IH; eauto.
  - eapply IH; eauto.
  - eapply IH; eauto.
  - destruct (E c) as [[cd|t']|] eqn:HE; try discriminate.
    + specialize (HenvF c _ HA HE). cbn [def_ok] in HenvF.
      destruct v; try discriminate; eapply class_case; eauto.
    + eapply IH; [|exact HV|exact HM]. apply (HenvF c _ HA HE).
  - eapply IH; eauto.
  - eapply IH; eauto.
Qed.

End Gen.

(* ------------------------------------------------------------------ Core.mar is marG with the echoing None routine *)
Lemma first_ok_ext rt (f g : ty -> pv -> res pv) : (forall t x, f t x = g t x) ->
  forall ts x, first_ok rt (map f ts) x = first_ok rt (map g ts) x.
Proof.
  intros H ts x. induction ts as [|t ts IH]; cbn [map first_ok]; [reflexivity|].
  rewrite H. destruct (g t x) as [y|e| |]; try reflexivity. rewrite IH. reflexivity.
Qed.

(* Core.mar (NoneTypeMarshaller arm since /repo ae6ba7e) and mar_fixed have convertible fixpoint bodies
   (none_m, kw_step, map_step unfold to the text of Core.mar) *)
Lemma mar_is_marG rt E : forall m T x, mar rt E m T x = mar_fixed rt E m T x.
Proof. intros m T x. reflexivity. Qed.

(* ------------------------------------------------------------------ instances: is_wire *)
Section WireInst.
Variable rt : runtime.
Variable E : env.
Variable prim_atom : nat -> bool.
Notation wire := (is_wire prim_atom).

Lemma wire_seq l : Forall (fun w => wire w = true) l -> wire (PSeq KList l) = true.
Proof. intros H. cbn [is_wire]. apply Forall_forallb. exact H. Qed.

Lemma wire_hashable_prim w : wire w = true -> unhashable rt w = false -> is_prim prim_atom w = true.
Proof.
  destruct w as [a|f|k l|k l|c l|c l]; cbn [is_wire is_prim unhashable]; intros Hw Hu;
    try assumption; try reflexivity; try discriminate.
  destruct k; discriminate.
Qed.

Lemma wire_dict l :
  Forall (fun kv => (wire (fst kv) = true /\ unhashable rt (fst kv) = false) /\ wire (snd kv) = true) l ->
  wire (PDict KDict l) = true.
Proof.
  intros H. cbn [is_wire]. apply forallb_forall. intros [k w] Hin.
  eapply Forall_forall in H; [|exact Hin]. cbn [fst snd] in H. destruct H as [[H1 H2] H3].
  rewrite H3, (wire_hashable_prim k H1 H2). reflexivity.
Qed.

Lemma wire_only_list_dict : forall w, wire w = true -> only_list_dict w = true.
Proof.
  fix IH 1. intros w. destruct w as [a|f|k l|k l|c l|c l]; cbn [is_wire only_list_dict]; try (intros; reflexivity || discriminate).
  - destruct k; try discriminate. induction l as [|x l IHl]; cbn [forallb]; [reflexivity|].
    intros H. apply andb_true_iff in H. destruct H as [H1 H2]. rewrite (IH x H1), (IHl H2). reflexivity.
  - destruct k; try discriminate. induction l as [|[k w] l IHl]; cbn [forallb]; [reflexivity|].
    intros H. apply andb_true_iff in H. destruct H as [H1 H2]. apply andb_true_iff in H1. destruct H1 as [Hk Hw].
    rewrite (IH w Hw), (IHl H2).
    destruct k; cbn [is_prim] in Hk; try discriminate; reflexivity.
Qed.

End WireInst.

(* ------------------------------------------------------------------ the property lemmas *)
Section Props.
Variable rt : runtime.
Variable E : env.
Variable prim_atom : nat -> bool.
Variable robust_leaf wire_leaf : nat -> bool.
Variable R F : nat -> bool.
Variable leaf_valid : nat -> pv -> bool.
Variable lit_leaf : nat -> bool.
Variable lit_member : nat -> pv -> bool.

Notation wire := (is_wire prim_atom).
Notation Laws := (MarshalLaws rt prim_atom robust_leaf wire_leaf leaf_valid lit_leaf lit_member).

Lemma none_is_wire : Laws -> forall x, is_none_val rt x = true -> wire x = true.
Proof.
  intros L x Hx. destruct (law_none _ _ _ _ _ _ _ L) as (a & Ha & Hp).
  rewrite (is_none_atom rt a x Ha Hx). exact Hp.
Qed.

Lemma none_m_wire : Laws -> forall x w, none_m rt x = Ok w -> wire w = true.
Proof.
  intros L x w. unfold none_m. destruct (is_none_val rt x) eqn:Hx; [|discriminate].
  intros H. injection H as <-. apply none_is_wire; assumption.
Qed.

(* repaired routine, every input *)
Lemma fixed_wire_any : Laws -> env_robust E robust_leaf true R ->
  forall m T x w, robust_ty robust_leaf true R T = true -> mar_fixed rt E m T x = Ok w -> wire w = true.
Proof.
  intros L HR. unfold mar_fixed.
  apply (marG_robust rt E (none_m rt) (fun w => wire w = true) robust_leaf true R).
  - intros s x w. apply (law_robust _ _ _ _ _ _ _ L).
  - intros _. apply none_m_wire. exact L.
  - apply none_is_wire. exact L.
  - reflexivity.
  - apply wire_seq.
  - apply wire_dict.
  - exact HR.
Qed.

(* repaired routine, valid inputs of fully annotated types *)
Lemma fixed_wire_valid : Laws -> forall T, fully_annotated E robust_leaf wire_leaf true R F T ->
  forall m n v w, valid rt E leaf_valid n T v = true -> mar_fixed rt E m T v = Ok w -> wire w = true.
Proof.
  intros L T (HR & HF & HT) m n v w. unfold mar_fixed. revert HT.
  apply (marG_valid rt E (none_m rt) (fun w => wire w = true) robust_leaf wire_leaf true R F leaf_valid).
  - intros s x w0. apply (law_robust _ _ _ _ _ _ _ L).
  - intros _. apply none_m_wire. exact L.
  - apply none_is_wire. exact L.
  - reflexivity.
  - apply wire_seq.
  - apply wire_dict.
  - exact HR.
  - intros s x w0. apply (law_wire _ _ _ _ _ _ _ L).
  - intros x w0 _. apply none_m_wire. exact L.
  - exact HF.
Qed.

(* freshness: holds for every annotation and every input, no law needed *)
Lemma robust_all : forall T, robust_ty (fun _ => true) true (fun _ => true) T = true.
Proof.
  fix IH 1. intros T. destruct T; cbn [robust_ty]; try reflexivity; try apply IH.
  - rewrite (IH T1), (IH T2). reflexivity.
  - induction ts as [|t ts IHts]; cbn [forallb]; [reflexivity|]. rewrite (IH t), IHts. reflexivity.
  - induction ts as [|t ts IHts]; cbn [forallb]; [reflexivity|]. rewrite (IH t), IHts. reflexivity.
Qed.

Lemma def_ok_all d : def_ok (robust_ty (fun _ => true) true (fun _ => true)) d = true.
Proof.
  destruct d as [cd|t]; cbn [def_ok]; [|apply robust_all].
  apply forallb_forall. intros f _. apply robust_all.
Qed.

Lemma fixed_built : forall m T x w, mar_fixed rt E m T x = Ok w -> built rt w.
Proof.
  intros m T x w. unfold mar_fixed.
  apply (marG_robust rt E (none_m rt) (built rt) (fun _ => true) true (fun _ => true)).
  - intros s x0 w0 _ H. eapply b_leaf; eauto.
  - intros _ x0 w0. unfold none_m. destruct (is_none_val rt x0) eqn:Hx; [|discriminate].
    intros H. injection H as <-. apply b_none. exact Hx.
  - apply b_none.
  - apply b_key.
  - apply b_seq.
  - intros l H. apply b_dict. eapply Forall_impl; [|exact H]. intros kv [[H1 _] H2]. split; assumption.
  - intros c d _ _. apply def_ok_all.
  - apply robust_all.
Qed.

Lemma literal_rejects : Laws -> forall s x m, lit_leaf s = true -> lit_member s x = false ->
  mar_fixed rt E (S m) (TLeaf s) x = Raise EValue /\ mar rt E (S m) (TLeaf s) x = Raise EValue.
Proof.
  intros L s x m Hs Hx. cbn. split; apply (law_literal _ _ _ _ _ _ _ L); assumption.
Qed.

Lemma fixed_shape : Laws -> forall T, fully_annotated E robust_leaf wire_leaf true R F T ->
  forall m n v w, valid rt E leaf_valid n T v = true -> mar_fixed rt E m T v = Ok w -> only_list_dict w = true.
Proof.
  intros L T HT m n v w HV HM. eapply wire_only_list_dict. eapply fixed_wire_valid; eauto.
Qed.

(* the statement at full strength, about Core.mar itself *)
Lemma full_holds : Laws -> forall T, fully_annotated E robust_leaf wire_leaf true R F T ->
  forall m n v w, valid rt E leaf_valid n T v = true -> mar rt E m T v = Ok w ->
                  wire w = true /\ built rt w.
Proof.
  intros L T HT m n v w HV HM. rewrite mar_is_marG in HM. split.
  - eapply fixed_wire_valid; eauto.
  - eapply fixed_built; eauto.
Qed.

Lemma fixed_deterministic : forall m T x w1 w2,
  mar_fixed rt E m T x = Ok w1 -> mar_fixed rt E m T x = Ok w2 -> w1 = w2.
Proof. intros m T x w1 w2 H1 H2. rewrite H1 in H2. injection H2 as <-. reflexivity. Qed.

End Props.

(* ------------------------------------------------------------------ the toy runtime satisfies the laws *)
Lemma toy_laws : MarshalLaws (toy_rt false) toy_prim toy_robust toy_robust toy_valid toy_lit toy_lit_member.
Proof.
  split.
  - exists 0. split; reflexivity.
  - intros s x w Hs H. cbn [toy_rt leaf_m] in H.
    destruct s as [|[|[|s]]]; [| | |discriminate Hs];
      (destruct x as [a| | | | | ]; [|discriminate H..]);
      do 8 (try destruct a as [|a]); cbn in H; try discriminate H; injection H as <-; reflexivity.
  - intros s x w Hs _ H. cbn [toy_rt leaf_m] in H.
    destruct s as [|[|[|s]]]; [| | |discriminate Hs];
      (destruct x as [a| | | | | ]; [|discriminate H..]);
      do 8 (try destruct a as [|a]); cbn in H; try discriminate H; injection H as <-; reflexivity.
  - intros s x Hs Hx. cbn [toy_rt leaf_m]. unfold toy_lit in Hs. apply Nat.eqb_eq in Hs. subst s.
    destruct x as [a| | | | | ]; try reflexivity.
    do 8 (try destruct a as [|a]); try reflexivity. discriminate Hx.
Qed.

Lemma toy_env_robust : env_robust toy_E toy_robust true toy_R.
Proof.
  intros c d HR HE. destruct c as [|c]; [|discriminate HR]. cbn in HE. injection HE as <-. reflexivity.
Qed.

Lemma toy_env_fa : env_fa toy_E toy_robust toy_robust true toy_R toy_R.
Proof.
  intros c d _ HE. destruct c as [|c]; [|discriminate HE]. cbn in HE. injection HE as <-. reflexivity.
Qed.

Lemma empty_env_robust b R : env_robust empty_E toy_robust b R.
Proof. intros c d _ HE. discriminate HE. Qed.
Lemma empty_env_fa b R F : env_fa empty_E toy_robust toy_robust b R F.
Proof. intros c d _ HE. discriminate HE. Qed.
