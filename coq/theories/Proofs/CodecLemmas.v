(* Proof scripts for the codec layer (property C02). *)
From Coq Require Import List Bool Arith.
Import ListNotations.
Require Import TL.Model.Codec.

Lemma bind_ok_inv : forall {A B} (r : res A) (f : A -> res B) b,
  bind r f = Ok b -> exists a, r = Ok a /\ f a = Ok b.
Proof. intros A B r f b H. destruct r as [a|x]; cbn [bind] in H; [exists a; split; [reflexivity|exact H] | discriminate H]. Qed.

Section L.
Variables ty obj : Type.
Variable mk_mar : ty -> res (routine obj).
Variable mk_unm : ty -> res (routine obj).
Variable isbytestype : ty -> bool.
Variable class_of : obj -> ty.
Variables json_dumps json_loads : routine obj.

Notation codec_encode' := (codec_encode ty obj mk_mar mk_unm isbytestype json_dumps json_loads).
Notation codec_decode' := (codec_decode ty obj mk_mar mk_unm isbytestype json_dumps json_loads).
Notation api_encode' := (api_encode ty obj mk_mar isbytestype class_of json_dumps).
Notation api_decode' := (api_decode ty obj mk_unm isbytestype json_loads).
Notation explicit_encode' := (explicit_encode ty obj mk_mar class_of json_dumps).
Notation explicit_decode' := (explicit_decode ty obj mk_unm json_loads).
Notation marshal_fn' := (marshal_fn ty obj mk_mar class_of).
Notation unmarshal_fn' := (unmarshal_fn ty obj mk_unm).
Notation c02_guard' := (c02_guard ty obj mk_mar mk_unm).

Lemma guard_inv : forall T, c02_guard' T = true ->
  exists m u, mk_mar T = Ok m /\ mk_unm T = Ok u.
Proof.
  intros T H. unfold c02_guard in H. apply andb_true_iff in H. destruct H as [Hm Hu].
  destruct (mk_mar T) as [m|x]; [|discriminate Hm]. destruct (mk_unm T) as [u|y]; [|discriminate Hu].
  exists m, u. split; reflexivity.
Qed.

(* what the two Codec methods compute once both routines exist *)
Lemma codec_encode_eq : forall T e d v m u, mk_mar T = Ok m -> mk_unm T = Ok u ->
  codec_encode' T e d v = bind (m v) (if isbytestype T then ident obj else dflt obj e json_dumps).
Proof.
  intros T e d v m u Hm Hu. unfold codec_encode, codec. rewrite Hm, Hu. cbn [bind].
  destruct (isbytestype T); reflexivity.
Qed.
Lemma codec_decode_eq : forall T e d b m u, mk_mar T = Ok m -> mk_unm T = Ok u ->
  codec_decode' T e d b = bind ((if isbytestype T then ident obj else dflt obj d json_loads) b) u.
Proof.
  intros T e d b m u Hm Hu. unfold codec_decode, codec. rewrite Hm, Hu. cbn [bind].
  destruct (isbytestype T); reflexivity.
Qed.

Lemma bind_ident : forall (r : res obj), bind r (ident obj) = r.
Proof. intros [a|x]; reflexivity. Qed.

(* ---------------- agreement of the entry points ---------------- *)
Lemma entry_points_encode : forall T v e d, c02_guard' T = true ->
  api_encode' v (Some T) e = codec_encode' T e d v /\
  (isbytestype T = false -> codec_encode' T e d v = explicit_encode' T e v) /\
  (isbytestype T = true -> codec_encode' T e d v = marshal_fn' v (Some T)).
Proof.
  intros T v e d G. destruct (guard_inv T G) as [m [u [Hm Hu]]].
  rewrite (codec_encode_eq T e d v m u Hm Hu).
  unfold api_encode, explicit_encode, marshal_fn. rewrite Hm. cbn [bind].
  destruct (isbytestype T) eqn:Hb.
  - split; [|split]; [ | intro H; discriminate H | intros _; apply bind_ident ].
    destruct (m v); reflexivity.
  - split; [|split]; [ reflexivity | intros _; reflexivity | intro H; discriminate H ].
Qed.

Lemma entry_points_decode : forall T b e d, c02_guard' T = true ->
  api_decode' T b d = codec_decode' T e d b /\
  (isbytestype T = false -> codec_decode' T e d b = explicit_decode' T d b) /\
  (isbytestype T = true -> codec_decode' T e d b = unmarshal_fn' T b).
Proof.
  intros T b e d G. destruct (guard_inv T G) as [m [u [Hm Hu]]].
  rewrite (codec_decode_eq T e d b m u Hm Hu).
  unfold api_decode, explicit_decode, unmarshal_fn. rewrite Hu.
  destruct (isbytestype T) eqn:Hb.
  - split; [|split]; [ reflexivity | intro H; discriminate H | intros _; reflexivity ].
  - split; [|split]; [ | intros _ | intro H; discriminate H ];
      destruct (dflt obj d json_loads b); reflexivity.
Qed.

(* t omitted = t is the class of the value *)
Lemma api_encode_default_t : forall v e, api_encode' v None e = api_encode' v (Some (class_of v)) e.
Proof. intros v e. reflexivity. Qed.

(* which exception surfaces: a failing marshaller wins and the encoder is never consulted;
   otherwise the encoder's own result (value or exception) is the result, at all three entry points *)
Lemma exception_parity_encode : forall T v e d m u, mk_mar T = Ok m -> mk_unm T = Ok u ->
  (forall x, m v = Raise x ->
     api_encode' v (Some T) e = Raise x /\ codec_encode' T e d v = Raise x /\ explicit_encode' T e v = Raise x) /\
  (forall w, m v = Ok w -> isbytestype T = false ->
     api_encode' v (Some T) e = dflt obj e json_dumps w /\ codec_encode' T e d v = dflt obj e json_dumps w /\
     explicit_encode' T e v = dflt obj e json_dumps w).
Proof.
  intros T v e d m u Hm Hu. rewrite (codec_encode_eq T e d v m u Hm Hu).
  unfold api_encode, explicit_encode, marshal_fn. rewrite Hm. cbn [bind]. split.
  - intros x Hx. rewrite Hx. cbn [bind]. repeat split; reflexivity.
  - intros w Hw Hb. rewrite Hw, Hb. cbn [bind]. repeat split; reflexivity.
Qed.
Lemma exception_parity_decode : forall T b e d m u, mk_mar T = Ok m -> mk_unm T = Ok u ->
  isbytestype T = false ->
  (forall x, dflt obj d json_loads b = Raise x ->
     api_decode' T b d = Raise x /\ codec_decode' T e d b = Raise x /\ explicit_decode' T d b = Raise x) /\
  (forall w, dflt obj d json_loads b = Ok w ->
     api_decode' T b d = u w /\ codec_decode' T e d b = u w /\ explicit_decode' T d b = u w).
Proof.
  intros T b e d m u Hm Hu Hb. rewrite (codec_decode_eq T e d b m u Hm Hu).
  unfold api_decode, explicit_decode, unmarshal_fn. rewrite Hu, Hb. split.
  - intros x Hx. rewrite Hx. cbn [bind]. repeat split; reflexivity.
  - intros w Hw. rewrite Hw. cbn [bind]. repeat split; reflexivity.
Qed.
(* construction failures: the marshaller is built first by codec() and is the only thing encode() builds *)
Lemma construction_parity_encode : forall T v e d x, mk_mar T = Raise x ->
  api_encode' v (Some T) e = Raise x /\ codec_encode' T e d v = Raise x.
Proof.
  intros T v e d x Hm. unfold api_encode, marshal_fn, codec_encode, codec. rewrite Hm. split; reflexivity.
Qed.

(* ---------------- bytes-like T is carried verbatim ---------------- *)
Lemma bytes_verbatim : forall T m u, isbytestype T = true -> mk_mar T = Ok m -> mk_unm T = Ok u ->
  forall e d v b,
    codec_encode' T e d v = m v /\ codec_decode' T e d b = u b /\
    api_encode' v (Some T) e = m v /\ api_decode' T b d = u b.
Proof.
  intros T m u Hb Hm Hu e d v b.
  rewrite (codec_encode_eq T e d v m u Hm Hu), (codec_decode_eq T e d b m u Hm Hu).
  unfold api_encode, api_decode, marshal_fn, unmarshal_fn. rewrite Hm, Hu, Hb. cbn [bind ident].
  repeat split; try reflexivity; destruct (m v); reflexivity.
Qed.

(* ---------------- round trip ---------------- *)
Section RT.
Variable T : ty.
Variable v : obj.
Variables e d : option (routine obj).
Variable dom : obj -> Prop.                    (* the encoder's domain *)
(* property C01 for this T and v *)
Hypothesis roundtrip_law : bind (marshal_fn' v (Some T)) (unmarshal_fn' T) = Ok v.
(* C06 + the quantifier of C02 (str keys, 64-bit ints, valid Unicode) *)
Hypothesis wire_in_dom : forall w, marshal_fn' v (Some T) = Ok w -> dom w.
(* the configured pair is a wire codec on its domain *)
Hypothesis coder_law : forall w, dom w -> bind (dflt obj e json_dumps w) (dflt obj d json_loads) = Ok w.

Lemma roundtrip : bind (codec_encode' T e d v) (codec_decode' T e d) = Ok v.
Proof.
  destruct (bind_ok_inv _ _ _ roundtrip_law) as [w [Hw Huw]].
  pose proof (wire_in_dom w Hw) as Hd.
  unfold marshal_fn in Hw. destruct (bind_ok_inv _ _ _ Hw) as [m [Hm Hmv]].
  unfold unmarshal_fn in Huw. destruct (bind_ok_inv _ _ _ Huw) as [u [Hu Huw']].
  rewrite (codec_encode_eq T e d v m u Hm Hu). rewrite Hmv. cbn [bind].
  destruct (isbytestype T) eqn:Hb.
  - cbn [ident bind]. rewrite (codec_decode_eq T e d w m u Hm Hu), Hb. cbn [ident bind]. exact Huw'.
  - destruct (bind_ok_inv _ _ _ (coder_law w Hd)) as [b [Hbe Hbd]].
    rewrite Hbe. cbn [bind]. rewrite (codec_decode_eq T e d b m u Hm Hu), Hb, Hbd. cbn [bind]. exact Huw'.
Qed.

End RT.

(* the bytes on the wire are JSON that an independent standard parser reads back to marshal(v, t=T) *)
Lemma valid_json : forall T v e d w (dom : obj -> Prop) (std_loads : routine obj),
  c02_guard' T = true -> isbytestype T = false ->
  marshal_fn' v (Some T) = Ok w -> dom w ->
  (forall w', dom w' -> exists b, dflt obj e json_dumps w' = Ok b) ->
  (forall w' b, dom w' -> dflt obj e json_dumps w' = Ok b -> std_loads b = Ok w') ->
  exists b, codec_encode' T e d v = Ok b /\ std_loads b = Ok w.
Proof.
  intros T v e d w dom std_loads G Hb Hw Hd Htot Hstd.
  destruct (guard_inv T G) as [m [u [Hm Hu]]].
  unfold marshal_fn in Hw. rewrite Hm in Hw. cbn [bind] in Hw.
  destruct (Htot w Hd) as [b Hbe]. exists b.
  rewrite (codec_encode_eq T e d v m u Hm Hu), Hw, Hb. cbn [bind].
  split; [exact Hbe | exact (Hstd w b Hd Hbe)].
Qed.

End L.

(* ---------------- functools.cache is transparent when key equality is identity ---------------- *)
Section MemoL.
Variables K V : Type.
Variable keq : K -> K -> bool.
Variable f : K -> res V.
Hypothesis keq_sound : forall a b, keq a b = true -> a = b.

Definition memo_inv (tbl : list (K * V)) : Prop := forall k v, In (k, v) tbl -> f k = Ok v.

Lemma memo_find_inv : forall tbl k v, memo_inv tbl -> memo_find K V keq tbl k = Some v -> f k = Ok v.
Proof.
  induction tbl as [|[k' v'] r IH]; intros k v Hinv Hf; cbn [memo_find] in Hf.
  - discriminate Hf.
  - destruct (keq k k') eqn:Hk.
    + injection Hf as Hv. subst v'. rewrite (keq_sound k k' Hk). apply Hinv. left. reflexivity.
    + apply IH; [|exact Hf]. intros k0 v0 Hin. apply Hinv. right. exact Hin.
Qed.
Lemma memo_call_spec : forall tbl k, memo_inv tbl ->
  fst (memo_call K V keq f tbl k) = f k /\ memo_inv (snd (memo_call K V keq f tbl k)).
Proof.
  intros tbl k Hinv. unfold memo_call. destruct (memo_find K V keq tbl k) as [v|] eqn:Hf.
  - cbn [fst snd]. split; [symmetry; exact (memo_find_inv tbl k v Hinv Hf) | exact Hinv].
  - destruct (f k) as [v|x] eqn:Hfk; cbn [fst snd]; split; try reflexivity; try exact Hinv.
    intros k0 v0 [Heq|Hin]; [injection Heq as Hk0 Hv0; subst k0 v0; exact Hfk | apply Hinv; exact Hin].
Qed.
Lemma memo_run_inv : forall hist tbl, memo_inv tbl -> memo_inv (memo_run K V keq f tbl hist).
Proof.
  induction hist as [|k r IH]; intros tbl Hinv; cbn [memo_run]; [exact Hinv|].
  apply IH. apply (memo_call_spec tbl k Hinv).
Qed.
Lemma memo_transparent : forall hist k, fst (memo_call K V keq f (memo_run K V keq f [] hist) k) = f k.
Proof.
  intros hist k. apply memo_call_spec. apply memo_run_inv. intros k0 v0 Hin. destruct Hin.
Qed.
End MemoL.

(* ---------------- the pinned api.py does not carry bytes verbatim ---------------- *)
(* toy instance: two types (true = bytes), objects are numbers, routines are the identity,
   the JSON encoder refuses every object (as it refuses bytes objects), the decoder likewise *)
Definition toy_mk (_ : bool) : res (routine nat) := Ok (ident nat).
Definition toy_isb (t : bool) := t.
Definition toy_class (_ : nat) := true.
Definition toy_dumps : routine nat := fun _ => Raise EType.
Definition toy_loads : routine nat := fun _ => Raise EValue.

Lemma refuted_api_bytes :
  exists (ty obj : Type) (mk_mar mk_unm : ty -> res (routine obj)) (isb : ty -> bool) (class_of : obj -> ty)
         (dumps loads : routine obj) (T : ty) (v : obj),
    c02_guard ty obj mk_mar mk_unm T = true /\ isb T = true /\
    api_encode_pinned ty obj mk_mar class_of dumps v (Some T) None = Raise EType /\
    codec_encode ty obj mk_mar mk_unm isb dumps loads T None None v = Ok v /\
    api_decode_pinned ty obj mk_unm loads T v None = Raise EValue /\
    codec_decode ty obj mk_mar mk_unm isb dumps loads T None None v = Ok v.
Proof.
  exists bool, nat, toy_mk, toy_mk, toy_isb, toy_class, toy_dumps, toy_loads, true, 7.
  vm_compute. repeat split.
Qed.

(* a non-trivial instance for the hypotheses of the positive theorems:
   type false = a number type whose wire form is n+1 and whose bytes are n+1+100 *)
Definition toy2_mk_mar (t : bool) : res (routine nat) := Ok (fun n => Ok (if t then n else S n)).
Definition toy2_mk_unm (t : bool) : res (routine nat) :=
  Ok (fun n => if t then Ok n else match n with 0 => Raise EValue | S k => Ok k end).
Definition toy2_dumps : routine nat := fun n => Ok (n + 100).
Definition toy2_loads : routine nat := fun n => if Nat.ltb n 100 then Raise EValue else Ok (n - 100).
