(* Cache bridge (WP-J): proofs.  The memoised core system (Model/CacheBridge.v) refines the stateless mechanism
   (Build.build_root / Build.run / Build.api_call) on every history inside the guard.

     1. the state monad: a preorder-style "the ghost flag only goes up" (MonoM) and "refines the pure value a
        under the invariant" (SoundM), closed under bind / mapM / first_ok / fold;
     2. the generic cache lemma: mcached / mcached_opt in front of a body that refines f refines f;
     3. the core instance: loadS, get_soS, build_rootS, the factories, runS (= Build.run), one step, histories;
     4. the reference semantics along a history (through Proofs/BuildSemLemmas.v) and the lifted value theorems;
     5. witnesses outside the guard;
     6. Model/Cache.v's cached functions are instances of the generic construction. *)
From Coq Require Import List NArith Arith Bool PeanoNat Lia.
Import ListNotations.
Require Import TL.Model.Core TL.Model.Build TL.Proofs.CoreMono TL.Proofs.BuildLemmas TL.Proofs.BuildSemLemmas.
Require TL.Model.Cache TL.Model.CacheToy TL.Proofs.CacheLemmas TL.Proofs.CoreC01.
Require Import TL.Model.CacheBridge.
Module KL := TL.Proofs.CacheLemmas.

(* ================================================================== 1. the state monad *)
Section Gen.
  Context {St : Type}.
  Variable bad : St -> bool.
  Variable Inv : St -> Prop.

  Definition MonoM {A : Type} (m : M St A) : Prop := forall s, bad s = true -> bad (snd (m s)) = true.
  Definition SoundM {A : Type} (m : M St A) (a : A) : Prop :=
    forall s, Inv s -> bad (snd (m s)) = false -> Inv (snd (m s)) /\ fst (m s) = a.

  Lemma Mono_ret : forall (A : Type) (a : A), MonoM (ret a).
  Proof. intros A a s H. exact H. Qed.
  Lemma Sound_ret : forall (A : Type) (a : A), SoundM (ret a) a.
  Proof. intros A a s Is _. split; [exact Is | reflexivity]. Qed.

  Lemma Mono_bnd : forall (A B : Type) (m : M St A) (k : A -> M St B),
    MonoM m -> (forall a, MonoM (k a)) -> MonoM (bnd m k).
  Proof.
    intros A B m k Hm Hk s Hb. unfold bnd. pose proof (Hm s Hb) as H1.
    destruct (m s) as [a s1]. cbn [snd] in H1. apply Hk. exact H1.
  Qed.
  Lemma Sound_bnd : forall (A B : Type) (m : M St A) (k : A -> M St B) (a : A) (b : B),
    SoundM m a -> (forall x, MonoM (k x)) -> SoundM (k a) b -> SoundM (bnd m k) b.
  Proof.
    intros A B m k a b Hm Hk Hka s Is Hb. unfold bnd in *. pose proof (Hm s Is) as H1.
    destruct (m s) as [x s1]. cbn [fst snd] in H1.
    assert (B1 : bad s1 = false).
    { destruct (bad s1) eqn:B1; [|reflexivity]. rewrite (Hk x s1 B1) in Hb. discriminate Hb. }
    destruct (H1 B1) as [Is1 Hx]. subst x. apply Hka; assumption.
  Qed.

  (* ---- 2. a functools cache in front of a body *)
  Section Cached.
    Context {K V R : Type}.
    Variables (eqv same : K -> K -> bool) (max : option N).
    Variables (get : St -> list (K * V)) (set : St -> list (K * V) -> St) (flag : St -> bool -> St).
    Variable entry_ok : K * V -> Prop.
    Hypothesis same_eq : forall k k', same k k' = true -> k = k'.
    Hypothesis bad_set : forall s t, bad (set s t) = bad s.
    Hypothesis bad_flag : forall s b, bad (flag s b) = bad s || b.
    Hypothesis Inv_flag : forall s b, Inv s -> Inv (flag s b).
    Hypothesis Inv_get : forall s, Inv s -> Forall entry_ok (get s).
    Hypothesis Inv_set : forall s t, Inv s -> Forall entry_ok t -> Inv (set s t).

    Lemma Mono_mcached : forall (body : K -> M St V) k, MonoM (body k) -> MonoM (mcached eqv same max get set flag body k).
    Proof.
      intros body k Hb s B. unfold mcached.
      destruct (KC.memo_get eqv same (get s) k) as [[[v tbl] coll]|]; cbn [snd].
      - rewrite bad_flag, bad_set, B. reflexivity.
      - pose proof (Hb s B) as H1. destruct (body k s) as [v s1]. cbn [snd] in *. rewrite bad_set. exact H1.
    Qed.
    Lemma Mono_mcached_opt : forall (proj : R -> option V) (inj : V -> R) (body : K -> M St R) k,
      MonoM (body k) -> MonoM (mcached_opt eqv same max get set flag proj inj body k).
    Proof.
      intros proj inj body k Hb s B. unfold mcached_opt.
      destruct (KC.memo_get eqv same (get s) k) as [[[v tbl] coll]|]; cbn [snd].
      - rewrite bad_flag, bad_set, B. reflexivity.
      - pose proof (Hb s B) as H1. destruct (body k s) as [r s1]. cbn [snd] in *.
        destruct (proj r); cbn [snd]; [rewrite bad_set|]; exact H1.
    Qed.

    (* the cached function answers as f on k, whatever the table holds, as long as no hit met a different key *)
    Lemma Sound_mcached : forall (f : K -> V) (body : K -> M St V) k,
      (forall e, entry_ok e <-> snd e = f (fst e)) ->
      SoundM (body k) (f k) -> SoundM (mcached eqv same max get set flag body k) (f k).
    Proof.
      intros f body k Hok Hb s Is HB. unfold mcached in *.
      destruct (KC.memo_get eqv same (get s) k) as [[[v tbl] coll]|] eqn:Eg; cbn [fst snd] in *.
      - rewrite bad_flag, bad_set in HB. apply orb_false_elim in HB. destruct HB as [_ Hc].
        apply KL.memo_get_some in Eg. destruct Eg as [k' [Hin [Hc' HF]]].
        rewrite Hc' in Hc. apply negb_false_iff in Hc. apply same_eq in Hc. subst k'.
        pose proof (Inv_get s Is) as HG. split.
        + apply Inv_flag, Inv_set; [exact Is | apply HF; exact HG].
        + rewrite Forall_forall in HG. apply (proj1 (Hok (k, v))). apply HG. exact Hin.
      - pose proof (Hb s Is) as H1. destruct (body k s) as [v s1]. cbn [fst snd] in *. rewrite bad_set in HB.
        destruct (H1 HB) as [Is1 Hv]. split; [|exact Hv].
        apply Inv_set; [exact Is1|]. apply KL.memo_put_Forall; [apply Inv_get; exact Is1|].
        apply (proj2 (Hok (k, v))). exact Hv.
    Qed.
    Lemma Sound_mcached_opt : forall (proj : R -> option V) (inj : V -> R) (f : K -> R) (body : K -> M St R) k,
      (forall r v, proj r = Some v -> r = inj v) ->
      (forall e, entry_ok e <-> f (fst e) = inj (snd e)) ->
      SoundM (body k) (f k) -> SoundM (mcached_opt eqv same max get set flag proj inj body k) (f k).
    Proof.
      intros proj inj f body k Hpi Hok Hb s Is HB. unfold mcached_opt in *.
      destruct (KC.memo_get eqv same (get s) k) as [[[v tbl] coll]|] eqn:Eg; cbn [fst snd] in *.
      - rewrite bad_flag, bad_set in HB. apply orb_false_elim in HB. destruct HB as [_ Hc].
        apply KL.memo_get_some in Eg. destruct Eg as [k' [Hin [Hc' HF]]].
        rewrite Hc' in Hc. apply negb_false_iff in Hc. apply same_eq in Hc. subst k'.
        pose proof (Inv_get s Is) as HG. split.
        + apply Inv_flag, Inv_set; [exact Is | apply HF; exact HG].
        + rewrite Forall_forall in HG. symmetry. apply (proj1 (Hok (k, v))). apply HG. exact Hin.
      - pose proof (Hb s Is) as H1. destruct (body k s) as [r s1]. cbn [fst snd] in *.
        destruct (proj r) as [v|] eqn:Ep; cbn [fst snd] in *.
        + rewrite bad_set in HB. destruct (H1 HB) as [Is1 Hv]. split; [|exact Hv].
          apply Inv_set; [exact Is1|]. apply KL.memo_put_Forall; [apply Inv_get; exact Is1|].
          apply (proj2 (Hok (k, v))). cbn [fst snd]. rewrite <- Hv. apply Hpi. exact Ep.
        + apply H1. exact HB.
    Qed.
  End Cached.
End Gen.

(* a memoised system refines a stateless family when one invariant carries every clean step *)
Section Refines.
  Context {Op Out View : Type}.
  Variable S : memo_system Op Out View.
  Variable F : View -> Op -> Out.
  Variable Inv : ms_state S -> Prop.
  Hypothesis step_ok : forall s o, Inv s -> ms_bad S (fst (ms_step S s o)) = false ->
    Inv (fst (ms_step S s o)) /\ snd (ms_step S s o) = F (ms_view S s) o.
  Lemma refines_history : forall h s, Inv s -> ms_clean S s h = true -> ms_outs S s h = ms_spec_outs S F s h.
  Proof.
    induction h as [|o h IH]; intros s Is Hc; [reflexivity|].
    cbn [ms_clean] in Hc. apply andb_prop in Hc. destruct Hc as [Hb Hc]. apply negb_true_iff in Hb.
    destruct (step_ok s o Is Hb) as [Is' Ho]. cbn [ms_outs ms_spec_outs]. rewrite Ho. f_equal. apply IH; assumption.
  Qed.
End Refines.

(* ================================================================== 3. the core instance *)
Lemma evaluate_nonref : forall t, is_ref t = false -> evaluate t = t.
Proof. intros t H. destruct t; try reflexivity; discriminate H. Qed.

Lemma kwkey_same_eq : forall k k', kwkey ty_eqb k k' = true -> k = k'.
Proof.
  intros [b a] [b' a'] H. unfold kwkey in H. cbn [fst snd] in H. apply andb_prop in H. destruct H as [H1 H2].
  apply eqb_prop in H1. apply ty_eqb_eq in H2. subst. reflexivity.
Qed.

Lemma res_proj_inj : forall (A : Type) (r : res A) v, res_proj r = Some v -> r = Ok v.
Proof. intros A [a|e| |] v H; try discriminate H. injection H as H. subst. reflexivity. Qed.

Section Core.
Variable rt : runtime.
Variable E : env.
Variable orders : ty -> option (list node).
Variable uw_fuel : nat.
Variable is_text : pv -> bool.
Variable max_load : option N.
Variable alias_load : bool.
Variables enc dec : pv -> res pv.
Variable byteslike : ty -> bool.

Record CInv (s : cstate) : Prop := {
  ci_uw : Forall (fun e : ty * ty => snd e = fst e) (c_uw s);
  ci_so : Forall (fun e : ty * option (list node) => snd e = orders (evaluate (fst e))) (c_so s);
  ci_um : Forall (fun e : (bool * ty) * routine => build_root E orders true (snd (fst e)) = Ok (snd e)) (c_um s);
  ci_mm : Forall (fun e : (bool * ty) * routine => build_root E orders false (snd (fst e)) = Ok (snd e)) (c_mm s);
  ci_cd : Forall (fun e : ty * (routine * routine) => codec_spec E orders (fst e) = Ok (snd e)) (c_cd s);
  ci_load : Forall (fun e : pv * pv => load_scalar rt (fst e) = Ok (snd e)) (c_load s)
}.

Lemma CInv_init : CInv cinit.
Proof. constructor; constructor. Qed.
Lemma CInv_flag : forall s b, CInv s -> CInv (cflag s b).
Proof. intros s b [? ? ? ? ? ?]. constructor; assumption. Qed.
Lemma CInv_clear : forall s, CInv (cclear s).
Proof. intros s. constructor; constructor. Qed.
Lemma CInv_clear1 : forall w s, CInv s -> CInv (cclear1 w s).
Proof. intros w s [? ? ? ? ? ?]. destruct w; constructor; cbn; try assumption; constructor. Qed.
Lemma CInv_set_uw : forall s t, CInv s -> Forall (fun e : ty * ty => snd e = fst e) t -> CInv (cset_uw s t).
Proof. intros s t [? ? ? ? ? ?] H. constructor; assumption. Qed.
Lemma CInv_set_so : forall s t, CInv s -> Forall (fun e : ty * option (list node) => snd e = orders (evaluate (fst e))) t -> CInv (cset_so s t).
Proof. intros s t [? ? ? ? ? ?] H. constructor; assumption. Qed.
Lemma CInv_set_um : forall s t, CInv s ->
  Forall (fun e : (bool * ty) * routine => build_root E orders true (snd (fst e)) = Ok (snd e)) t -> CInv (cset_um s t).
Proof. intros s t [? ? ? ? ? ?] H. constructor; assumption. Qed.
Lemma CInv_set_mm : forall s t, CInv s ->
  Forall (fun e : (bool * ty) * routine => build_root E orders false (snd (fst e)) = Ok (snd e)) t -> CInv (cset_mm s t).
Proof. intros s t [? ? ? ? ? ?] H. constructor; assumption. Qed.
Lemma CInv_set_cd : forall s t, CInv s ->
  Forall (fun e : ty * (routine * routine) => codec_spec E orders (fst e) = Ok (snd e)) t -> CInv (cset_cd s t).
Proof. intros s t [? ? ? ? ? ?] H. constructor; assumption. Qed.
Lemma CInv_set_load : forall s t, CInv s -> Forall (fun e : pv * pv => load_scalar rt (fst e) = Ok (snd e)) t -> CInv (cset_load s t).
Proof. intros s t [? ? ? ? ? ?] H. constructor; assumption. Qed.

Notation MonoC := (@MonoM cstate c_bad).
Notation SoundC := (@SoundM cstate c_bad CInv).

Lemma cbad_flag : forall s b, c_bad (cflag s b) = c_bad s || b.
Proof. reflexivity. Qed.

(* ---- combinators on results *)
Lemma Mono_bndR : forall (A B : Type) (m : MC (res A)) (k : A -> MC (res B)),
  MonoC m -> (forall a, MonoC (k a)) -> MonoC (bndR m k).
Proof.
  intros A B m k Hm Hk. unfold bndR. apply Mono_bnd; [exact Hm|].
  intros [a|e| |]; [apply Hk | apply Mono_ret..].
Qed.
Lemma Sound_bndR : forall (A B : Type) (m : MC (res A)) (k : A -> MC (res B)) (a : res A) (k' : A -> res B),
  SoundC m a -> (forall x, MonoC (k x)) -> (forall x, a = Ok x -> SoundC (k x) (k' x)) ->
  SoundC (bndR m k) (bind a k').
Proof.
  intros A B m k a k' Hm Hk Hs. unfold bndR. eapply Sound_bnd; [exact Hm | |].
  - intros [x|e| |]; [apply Hk | apply Mono_ret..].
  - destruct a as [x|e| |]; cbn [bind]; [apply Hs; reflexivity | apply Sound_ret..].
Qed.

Lemma Mono_mapMS : forall (A B : Type) (f : A -> MC (res B)) l, (forall x, MonoC (f x)) -> MonoC (mapMS f l).
Proof.
  intros A B f l Hf. induction l as [|x r IH]; cbn [mapMS]; [apply Mono_ret|].
  apply Mono_bndR; [apply Hf|]. intros y. apply Mono_bndR; [exact IH|]. intros t. apply Mono_ret.
Qed.
Lemma Sound_mapMS : forall (A B : Type) (f : A -> MC (res B)) (g : A -> res B) l,
  (forall x, MonoC (f x)) -> (forall x, SoundC (f x) (g x)) -> SoundC (mapMS f l) (mapM g l).
Proof.
  intros A B f g l Hm Hs. induction l as [|x r IH]; cbn [mapMS mapM]; [apply Sound_ret|].
  apply Sound_bndR; [apply Hs | |].
  - intros y. apply Mono_bndR; [apply Mono_mapMS; exact Hm|]. intros t. apply Mono_ret.
  - intros y _. apply Sound_bndR; [exact IH | intros t; apply Mono_ret | intros t _; apply Sound_ret].
Qed.

Lemma Mono_hashingS : forall (A B : Type) (key : B -> pv) (f : A -> MC (res B)) x,
  MonoC (f x) -> MonoC (hashingS rt key f x).
Proof. intros A B key f x H. unfold hashingS. apply Mono_bndR; [exact H | intros y; apply Mono_ret]. Qed.
Lemma Mono_elem_convS : forall k (f : pv -> MC (res pv)) x, MonoC (f x) -> MonoC (elem_convS rt k f x).
Proof. intros k f x H. unfold elem_convS. destruct (hashes k); [apply Mono_hashingS|]; exact H. Qed.
Lemma Sound_hashingS : forall (A B : Type) (key : B -> pv) (f : A -> MC (res B)) (g : A -> res B) x,
  MonoC (f x) -> SoundC (f x) (g x) -> SoundC (hashingS rt key f x) (hashing rt key g x).
Proof.
  intros A B key f g x Hm Hs. unfold hashingS, hashing.
  apply Sound_bndR; [exact Hs | intros y; apply Mono_ret | intros y _; apply Sound_ret].
Qed.
Lemma Sound_elem_convS : forall k (f : pv -> MC (res pv)) (g : pv -> res pv) x,
  MonoC (f x) -> SoundC (f x) (g x) -> SoundC (elem_convS rt k f x) (elem_conv rt k g x).
Proof.
  intros k f g x Hm Hs. unfold elem_convS, elem_conv. destruct (hashes k); [apply Sound_hashingS|]; assumption.
Qed.

Lemma Mono_first_okS : forall (F : routine -> pv -> MC (res pv)) sup l x,
  (forall r, MonoC (F r x)) -> MonoC (first_okS sup (map F l) x).
Proof.
  intros F sup l x HF. induction l as [|r rest IH]; cbn [map first_okS]; [apply Mono_ret|].
  apply Mono_bnd; [apply HF|]. intros [v|e| |]; try apply Mono_ret. destruct (sup e); [exact IH | apply Mono_ret].
Qed.
Lemma Sound_first_okS : forall (F : routine -> pv -> MC (res pv)) (G : routine -> pv -> res pv) l x,
  (forall r, MonoC (F r x)) -> (forall r, SoundC (F r x) (G r x)) ->
  SoundC (first_okS (suppressed rt) (map F l) x) (first_ok rt (map G l) x).
Proof.
  intros F G l x HM HS. induction l as [|r rest IH]; cbn [map first_okS first_ok]; [apply Sound_ret|].
  eapply Sound_bnd; [apply HS | |].
  - intros [v|e| |]; try apply Mono_ret. destruct (suppressed rt e); [apply Mono_first_okS; exact HM | apply Mono_ret].
  - destruct (G r x) as [v|e| |]; try apply Sound_ret. destruct (suppressed rt e); [exact IH | apply Sound_ret].
Qed.

Definition kw_stepS (run : routine -> pv -> MC (res pv)) (fields : list (nat * routine))
  (acc : MC (res (list (nat * pv)))) (kv : pv * pv) : MC (res (list (nat * pv))) :=
  bndR acc (fun kw =>
    match fst kv with
    | PKey f => match find (fun fr => Nat.eqb (fst fr) f) fields with
                | Some fr => bndR (run (snd fr) (snd kv)) (fun v' => ret (Ok (kw_set f v' kw)))
                | None => ret (Ok kw) end
    | k => ret (if unhashable rt k then Raise EType else Ok kw)
    end).
Definition kw_step (run : routine -> pv -> res pv) (fields : list (nat * routine))
  (acc : res (list (nat * pv))) (kv : pv * pv) : res (list (nat * pv)) :=
  bind acc (fun kw =>
    match fst kv with
    | PKey f => match find (fun fr => Nat.eqb (fst fr) f) fields with
                | Some fr => bind (run (snd fr) (snd kv)) (fun v' => Ok (kw_set f v' kw))
                | None => Ok kw end
    | k => if unhashable rt k then Raise EType else Ok kw
    end).
Lemma struct_kwS_fold : forall run fields kvs,
  struct_kwS rt run fields kvs = fold_left (kw_stepS run fields) kvs (ret (Ok [])).
Proof. reflexivity. Qed.
Lemma struct_kw_fold : forall run fields kvs,
  struct_kw rt run fields kvs = fold_left (kw_step run fields) kvs (Ok []).
Proof. reflexivity. Qed.

Lemma Mono_kw_stepS : forall run fields acc kv,
  (forall r x, MonoC (run r x)) -> MonoC acc -> MonoC (kw_stepS run fields acc kv).
Proof.
  intros run fields acc kv Hr Ha. unfold kw_stepS. apply Mono_bndR; [exact Ha|]. intros kw.
  destruct (fst kv); try apply Mono_ret.
  destruct (find (fun fr => Nat.eqb (fst fr) f) fields) as [fr|]; [|apply Mono_ret].
  apply Mono_bndR; [apply Hr | intros v'; apply Mono_ret].
Qed.
Lemma Mono_struct_kwS : forall run fields kvs,
  (forall r x, MonoC (run r x)) -> MonoC (struct_kwS rt run fields kvs).
Proof.
  intros run fields kvs Hr. rewrite struct_kwS_fold.
  assert (G : forall acc, MonoC acc -> MonoC (fold_left (kw_stepS run fields) kvs acc)).
  { induction kvs as [|kv r IH]; intros acc Ha; cbn [fold_left]; [exact Ha|]. apply IH. apply Mono_kw_stepS; assumption. }
  apply G. apply Mono_ret.
Qed.
Lemma Sound_struct_kwS : forall runS' run' fields kvs,
  (forall r x, MonoC (runS' r x)) -> (forall r x, SoundC (runS' r x) (run' r x)) ->
  SoundC (struct_kwS rt runS' fields kvs) (struct_kw rt run' fields kvs).
Proof.
  intros runS' run' fields kvs HM HS. rewrite struct_kwS_fold, struct_kw_fold.
  assert (G : forall accS acc, MonoC accS -> SoundC accS acc ->
                SoundC (fold_left (kw_stepS runS' fields) kvs accS) (fold_left (kw_step run' fields) kvs acc)).
  { induction kvs as [|kv r IH]; intros accS acc Ha Hs; cbn [fold_left]; [exact Hs|].
    apply IH; [apply Mono_kw_stepS; assumption|].
    unfold kw_stepS, kw_step. apply Sound_bndR; [exact Hs | |].
    - intros kw. destruct (fst kv); try apply Mono_ret.
      destruct (find (fun fr => Nat.eqb (fst fr) f) fields) as [fr|]; [|apply Mono_ret].
      apply Mono_bndR; [apply HM | intros v'; apply Mono_ret].
    - intros kw _. destruct (fst kv); try apply Sound_ret.
      destruct (find (fun fr => Nat.eqb (fst fr) f) fields) as [fr|]; [|apply Sound_ret].
      apply Sound_bndR; [apply HS | intros v'; apply Mono_ret | intros v' _; apply Sound_ret]. }
  apply G; [apply Mono_ret | apply Sound_ret].
Qed.

(* ---- the caches *)
Lemma loadS_mono : forall x, MonoC (loadS rt is_text max_load x).
Proof.
  intros x. unfold loadS. destruct (is_scalar x && is_text x); [|apply Mono_ret].
  apply (Mono_mcached_opt c_bad); [reflexivity | reflexivity | apply Mono_ret].
Qed.
Lemma loadS_sound : forall x, SoundC (loadS rt is_text max_load x) (load rt x).
Proof.
  intros x. unfold loadS. destruct (is_scalar x && is_text x) eqn:Hc; [|apply Sound_ret].
  apply andb_prop in Hc. destruct Hc as [Hsc _]. unfold load. rewrite Hsc.
  apply (Sound_mcached_opt c_bad CInv (pv_pyeq rt) pv_eqb max_load c_load cset_load cflag
           (fun e : pv * pv => load_scalar rt (fst e) = Ok (snd e))
           TL.Proofs.CoreC01.pv_eqb_eq (fun s t => eq_refl) cbad_flag CInv_flag ci_load CInv_set_load
           res_proj (@Ok pv) (load_scalar rt)).
  - apply res_proj_inj.
  - intros e. split; intros H; exact H.
  - apply Sound_ret.
Qed.

(* ---- inspection.unwrap's memo and the annotation the graph is computed from *)
Lemma get_uwS_mono : forall t, MonoC (get_uwS t).
Proof.
  intros t. assert (H : MonoC (mcached pykey_eq ty_eqb None c_uw cset_uw cflag (fun t => ret t) t))
    by (apply (Mono_mcached c_bad); [reflexivity | reflexivity | apply Mono_ret]).
  destruct t; cbn [get_uwS]; first [exact H | apply Mono_ret].
Qed.
Lemma get_uwS_sound : forall t, SoundC (get_uwS t) t.
Proof.
  intros t.
  assert (H : SoundC (mcached pykey_eq ty_eqb None c_uw cset_uw cflag (fun t => ret t) t) t).
  { apply (Sound_mcached c_bad CInv pykey_eq ty_eqb None c_uw cset_uw cflag (fun e : ty * ty => snd e = fst e)
             ty_eqb_eq (fun s t => eq_refl) cbad_flag CInv_flag ci_uw CInv_set_uw (fun t => t)).
    - intros e. split; intros H1; exact H1.
    - apply Sound_ret. }
  destruct t; cbn [get_uwS]; first [exact H | apply Sound_ret].
Qed.
Lemma Mono_mapS : forall (A B : Type) (f : A -> MC B) l, (forall x, MonoC (f x)) -> MonoC (mapS f l).
Proof.
  intros A B f l Hf. induction l as [|x r IH]; cbn [mapS]; [apply Mono_ret|].
  apply Mono_bnd; [apply Hf|]. intros y. apply Mono_bnd; [exact IH | intros t; apply Mono_ret].
Qed.
Lemma Sound_mapS : forall (A B : Type) (f : A -> MC B) (g : A -> B) l,
  (forall x, MonoC (f x)) -> (forall x, SoundC (f x) (g x)) -> SoundC (mapS f l) (map g l).
Proof.
  intros A B f g l Hm Hs. induction l as [|x r IH]; cbn [mapS map]; [apply Sound_ret|].
  eapply Sound_bnd; [apply Hs | |].
  - intros y. apply Mono_bnd; [apply Mono_mapS; exact Hm | intros t; apply Mono_ret].
  - eapply Sound_bnd; [exact IH | intros t; apply Mono_ret | apply Sound_ret].
Qed.
Notation resolveS' := (resolveS E).
Lemma resolveS_mono : forall n seen t, MonoC (resolveS' n seen t).
Proof.
  induction n as [|n IH]; intros seen t; [apply Mono_ret|]. cbn [resolveS].
  apply Mono_bnd; [apply get_uwS_mono|]. intros u.
  assert (HC : forall c, MonoC (if existsb (Nat.eqb c) seen then ret u else
                                match E c with
                                | Some (NClass cd) => bnd (mapS (fun f => resolveS' n (c :: seen) (fty f)) (cfields cd)) (fun _ => ret u)
                                | Some (NType t') => bnd (resolveS' n (c :: seen) t') (fun _ => ret u)
                                | None => ret u end)).
  { intros c. destruct (existsb (Nat.eqb c) seen); [apply Mono_ret|]. destruct (E c) as [[cd|t']|]; [| |apply Mono_ret].
    - apply Mono_bnd; [apply Mono_mapS; intros f; apply IH | intros l; apply Mono_ret].
    - apply Mono_bnd; [apply IH | intros l; apply Mono_ret]. }
  destruct u; try apply Mono_ret; try apply HC;
    try (apply Mono_bnd; [apply IH | intros a'; apply Mono_ret]);
    try (apply Mono_bnd; [apply Mono_mapS; intros a; apply IH | intros a'; apply Mono_ret]).
  apply Mono_bnd; [apply IH|]. intros a'. apply Mono_bnd; [apply IH | intros b'; apply Mono_ret].
Qed.
Lemma map_id_ext : forall (A : Type) (l : list A), map (fun x => x) l = l.
Proof. intros A l. apply map_id. Qed.
Lemma resolveS_sound : forall n seen t, SoundC (resolveS' n seen t) t.
Proof.
  induction n as [|n IH]; intros seen t; [apply Sound_ret|]. cbn [resolveS].
  eapply Sound_bnd; [apply get_uwS_sound | |].
  - intros u.
    assert (HC : forall c, MonoC (if existsb (Nat.eqb c) seen then ret u else
                                  match E c with
                                  | Some (NClass cd) => bnd (mapS (fun f => resolveS' n (c :: seen) (fty f)) (cfields cd)) (fun _ => ret u)
                                  | Some (NType t') => bnd (resolveS' n (c :: seen) t') (fun _ => ret u)
                                  | None => ret u end)).
    { intros c. destruct (existsb (Nat.eqb c) seen); [apply Mono_ret|]. destruct (E c) as [[cd|t']|]; [| |apply Mono_ret].
      - apply Mono_bnd; [apply Mono_mapS; intros f; apply resolveS_mono | intros l; apply Mono_ret].
      - apply Mono_bnd; [apply resolveS_mono | intros l; apply Mono_ret]. }
    destruct u; try apply Mono_ret; try apply HC;
      try (apply Mono_bnd; [apply resolveS_mono | intros a'; apply Mono_ret]);
      try (apply Mono_bnd; [apply Mono_mapS; intros a; apply resolveS_mono | intros a'; apply Mono_ret]).
    apply Mono_bnd; [apply resolveS_mono|]. intros a'. apply Mono_bnd; [apply resolveS_mono | intros b'; apply Mono_ret].
  - assert (HC : forall c, SoundC (if existsb (Nat.eqb c) seen then ret t else
                                   match E c with
                                   | Some (NClass cd) => bnd (mapS (fun f => resolveS' n (c :: seen) (fty f)) (cfields cd)) (fun _ => ret t)
                                   | Some (NType t') => bnd (resolveS' n (c :: seen) t') (fun _ => ret t)
                                   | None => ret t end) t).
    { intros c. destruct (existsb (Nat.eqb c) seen); [apply Sound_ret|]. destruct (E c) as [[cd|t']|]; [| |apply Sound_ret].
      - eapply Sound_bnd; [apply (Sound_mapS _ _ _ (fun f => fty f)); [intros f; apply resolveS_mono | intros f; apply IH]
                          | intros l; apply Mono_ret | apply Sound_ret].
      - eapply Sound_bnd; [apply IH | intros l; apply Mono_ret | apply Sound_ret]. }
    destruct t as [s| |k a|k a b|ts|ts|c|c|s|a|i a|i a|i c|a|a]; try apply Sound_ret; try apply HC;
      try (eapply Sound_bnd; [apply IH | intros a'; apply Mono_ret | apply Sound_ret]).
    + eapply Sound_bnd; [apply IH | |].
      * intros a'. apply Mono_bnd; [apply resolveS_mono | intros b'; apply Mono_ret].
      * eapply Sound_bnd; [apply IH | intros b'; apply Mono_ret | apply Sound_ret].
    + eapply Sound_bnd; [apply (Sound_mapS _ _ _ (fun x => x)); [intros a; apply resolveS_mono | intros a; apply IH] | intros l; apply Mono_ret |].
      rewrite map_id_ext. apply Sound_ret.
    + eapply Sound_bnd; [apply (Sound_mapS _ _ _ (fun x => x)); [intros a; apply resolveS_mono | intros a; apply IH] | intros l; apply Mono_ret |].
      rewrite map_id_ext. apply Sound_ret.
Qed.

Definition so_pure (t : ty) : option (list node) := orders (evaluate t).
Lemma so_body_mono : forall k, MonoC (so_body E orders uw_fuel k).
Proof. intros k. unfold so_body. apply Mono_bnd; [apply resolveS_mono | intros k'; apply Mono_ret]. Qed.
Lemma so_body_sound : forall k, SoundC (so_body E orders uw_fuel k) (orders k).
Proof.
  intros k. unfold so_body. eapply Sound_bnd; [apply resolveS_sound | intros k'; apply Mono_ret | apply Sound_ret].
Qed.
Lemma so_cached_mono : forall body k, MonoC (body k) -> MonoC (so_cached body k).
Proof. intros body k H. unfold so_cached. apply (Mono_mcached c_bad); [reflexivity | reflexivity | exact H]. Qed.
Lemma so_cached_sound : forall body k, SoundC (body k) (so_pure k) -> SoundC (so_cached body k) (so_pure k).
Proof.
  intros body k H. unfold so_cached.
  apply (Sound_mcached c_bad CInv pykey_eq ty_eqb None c_so cset_so cflag
           (fun e : ty * option (list node) => snd e = orders (evaluate (fst e)))
           ty_eqb_eq (fun s t => eq_refl) cbad_flag CInv_flag ci_so CInv_set_so so_pure).
  - intros e. split; intros H1; exact H1.
  - exact H.
Qed.
Lemma get_soS_mono : forall t, MonoC (get_soS E orders uw_fuel t).
Proof.
  intros t. unfold get_soS. apply so_cached_mono.
  destruct (is_ref t && negb (is_ref (evaluate t))); [apply so_cached_mono|]; apply so_body_mono.
Qed.
Lemma get_soS_sound : forall t, SoundC (get_soS E orders uw_fuel t) (orders (evaluate t)).
Proof.
  intros t. unfold get_soS. apply (so_cached_sound _ t).
  destruct (is_ref t && negb (is_ref (evaluate t))) eqn:Hc; [|apply so_body_sound].
  apply andb_prop in Hc. destruct Hc as [_ Hn]. apply negb_true_iff in Hn.
  assert (Heq : so_pure t = so_pure (evaluate t)) by (unfold so_pure; rewrite (evaluate_nonref _ Hn); reflexivity).
  rewrite Heq. apply so_cached_sound. unfold so_pure. rewrite (evaluate_nonref _ Hn). apply so_body_sound.
Qed.

Lemma build_root_from : forall d t, build_root E orders d t = build_from E d (orders (evaluate t)).
Proof. reflexivity. Qed.
Lemma build_rootS_mono : forall d t, MonoC (build_rootS E orders uw_fuel d t).
Proof. intros d t. unfold build_rootS. apply Mono_bnd; [apply get_soS_mono | intros o; apply Mono_ret]. Qed.
Lemma build_rootS_sound : forall d t, SoundC (build_rootS E orders uw_fuel d t) (build_root E orders d t).
Proof.
  intros d t. unfold build_rootS. rewrite build_root_from.
  eapply Sound_bnd; [apply get_soS_sound | intros o; apply Mono_ret | apply Sound_ret].
Qed.

Lemma get_umS_mono : forall kw t, MonoC (get_umS E orders uw_fuel kw t).
Proof.
  intros kw t. unfold get_umS. apply (Mono_mcached_opt c_bad); [reflexivity | reflexivity | apply build_rootS_mono].
Qed.
Lemma get_mmS_mono : forall kw t, MonoC (get_mmS E orders uw_fuel kw t).
Proof.
  intros kw t. unfold get_mmS. apply (Mono_mcached_opt c_bad); [reflexivity | reflexivity | apply build_rootS_mono].
Qed.
Lemma get_umS_sound : forall kw t, SoundC (get_umS E orders uw_fuel kw t) (build_root E orders true t).
Proof.
  intros kw t. unfold get_umS.
  apply (Sound_mcached_opt c_bad CInv (kwkey pykey_eq) (kwkey ty_eqb) None c_um cset_um cflag
           (fun e : (bool * ty) * routine => build_root E orders true (snd (fst e)) = Ok (snd e))
           kwkey_same_eq (fun s t => eq_refl) cbad_flag CInv_flag ci_um CInv_set_um
           res_proj (@Ok routine) (fun k => build_root E orders true (snd k)) _ (kw, t)).
  - apply res_proj_inj.
  - intros e. split; intros H; exact H.
  - apply build_rootS_sound.
Qed.
Lemma get_mmS_sound : forall kw t, SoundC (get_mmS E orders uw_fuel kw t) (build_root E orders false t).
Proof.
  intros kw t. unfold get_mmS.
  apply (Sound_mcached_opt c_bad CInv (kwkey pykey_eq) (kwkey ty_eqb) None c_mm cset_mm cflag
           (fun e : (bool * ty) * routine => build_root E orders false (snd (fst e)) = Ok (snd e))
           kwkey_same_eq (fun s t => eq_refl) cbad_flag CInv_flag ci_mm CInv_set_mm
           res_proj (@Ok routine) (fun k => build_root E orders false (snd k)) _ (kw, t)).
  - apply res_proj_inj.
  - intros e. split; intros H; exact H.
  - apply build_rootS_sound.
Qed.
Lemma get_cdS_mono : forall t, MonoC (get_cdS E orders uw_fuel t).
Proof.
  intros t. unfold get_cdS. apply (Mono_mcached_opt c_bad); [reflexivity | reflexivity |].
  apply Mono_bndR; [apply get_mmS_mono|]. intros m. apply Mono_bndR; [apply get_umS_mono | intros u; apply Mono_ret].
Qed.
Lemma get_cdS_sound : forall t, SoundC (get_cdS E orders uw_fuel t) (codec_spec E orders t).
Proof.
  intros t. unfold get_cdS.
  apply (Sound_mcached_opt c_bad CInv pykey_eq ty_eqb None c_cd cset_cd cflag
           (fun e : ty * (routine * routine) => codec_spec E orders (fst e) = Ok (snd e))
           ty_eqb_eq (fun s t => eq_refl) cbad_flag CInv_flag ci_cd CInv_set_cd
           res_proj (@Ok (routine * routine)) (codec_spec E orders) _ t).
  - apply res_proj_inj.
  - intros e. split; intros H; exact H.
  - unfold codec_spec. apply Sound_bndR; [apply get_mmS_sound | |].
    + intros m. apply Mono_bndR; [apply get_umS_mono | intros u; apply Mono_ret].
    + intros m _. apply Sound_bndR; [apply get_umS_sound | intros u; apply Mono_ret | intros u _; apply Sound_ret].
Qed.

(* ---- Build.run with the caches in the way *)
Notation runS' := (runS rt E orders uw_fuel is_text max_load).
Notation run' := (run rt E orders).

Lemma runS_mono : forall fuel d r x, MonoC (runS' d fuel r x).
Proof.
  induction fuel as [|n IH]; intros d r x; [apply Mono_ret|].
  assert (IHkv : forall rk rv (kv : pv * pv),
            MonoC (bndR (runS' d n rk (fst kv)) (fun k' => bndR (runS' d n rv (snd kv)) (fun v' => ret (Ok (k', v')))))).
  { intros rk rv kv. apply Mono_bndR; [apply IH|]. intros k'. apply Mono_bndR; [apply IH | intros v'; apply Mono_ret]. }
  destruct d; destruct r as [s| | |k r'|k rk rv|rs|nl rs|c fields|t]; cbn [runS]; try apply Mono_ret.
  - apply Mono_bndR; [apply loadS_mono|]. intros dd. apply Mono_bndR; [apply Mono_ret|]. intros vs.
    apply Mono_bndR; [apply Mono_mapMS; intros v; apply Mono_elem_convS; apply IH | intros rs; apply Mono_ret].
  - apply Mono_bndR; [apply loadS_mono|]. intros dd. apply Mono_bndR; [apply Mono_ret|]. intros kvs.
    apply Mono_bndR; [apply Mono_mapMS; intros kv; apply Mono_hashingS; apply IHkv | intros rs; apply Mono_ret].
  - apply Mono_bndR; [apply loadS_mono|]. intros dd. apply Mono_bndR; [apply Mono_ret|]. intros vs.
    destruct (Nat.ltb (length vs) (length rs)); [apply Mono_ret|].
    apply Mono_bndR; [apply Mono_mapMS; intros v; apply IH | intros out; apply Mono_ret].
  - apply Mono_first_okS. intros r. apply IH.
  - destruct (E c) as [[cd|t']|]; try apply Mono_ret.
    apply Mono_bndR; [apply loadS_mono|]. intros dd. apply Mono_bndR; [apply Mono_ret|]. intros kvs.
    apply Mono_bndR; [apply Mono_struct_kwS; intros r x'; apply IH | intros kw; apply Mono_ret].
  - apply Mono_bndR; [apply get_umS_mono | intros r'; apply IH].
  - apply Mono_bndR; [apply Mono_ret|]. intros vs.
    apply Mono_bndR; [apply Mono_mapMS; intros v; apply IH | intros rs; apply Mono_ret].
  - apply Mono_bndR; [apply Mono_ret|]. intros kvs.
    apply Mono_bndR; [apply Mono_mapMS; intros kv; apply Mono_hashingS; apply IHkv | intros rs; apply Mono_ret].
  - apply Mono_bndR; [apply Mono_ret|]. intros vs.
    apply Mono_bndR; [apply Mono_mapMS; intros v; apply IH | intros out; apply Mono_ret].
  - destruct (nl && is_none_val rt x); [apply Mono_ret|]. apply Mono_first_okS. intros r. apply IH.
  - apply Mono_bndR; [apply Mono_ret|]. intros kvs.
    apply Mono_bndR; [apply Mono_struct_kwS; intros r x'; apply IH | intros kw; apply Mono_ret].
  - apply Mono_bndR; [apply get_mmS_mono | intros r'; apply IH].
Qed.

Lemma runS_sound : forall fuel d r x, SoundC (runS' d fuel r x) (run' d fuel r x).
Proof.
  induction fuel as [|n IH]; intros d r x; [apply Sound_ret|].
  assert (IHkv : forall rk rv (kv : pv * pv),
            SoundC (bndR (runS' d n rk (fst kv)) (fun k' => bndR (runS' d n rv (snd kv)) (fun v' => ret (Ok (k', v')))))
                     (bind (run' d n rk (fst kv)) (fun k' => bind (run' d n rv (snd kv)) (fun v' => Ok (k', v'))))).
  { intros rk rv kv. apply Sound_bndR; [apply IH | |].
    - intros k'. apply Mono_bndR; [apply runS_mono | intros v'; apply Mono_ret].
    - intros k' _. apply Sound_bndR; [apply IH | intros v'; apply Mono_ret | intros v' _; apply Sound_ret]. }
  assert (Mkv : forall rk rv (kv : pv * pv),
            MonoC (bndR (runS' d n rk (fst kv)) (fun k' => bndR (runS' d n rv (snd kv)) (fun v' => ret (Ok (k', v')))))).
  { intros rk rv kv. apply Mono_bndR; [apply runS_mono|]. intros k'. apply Mono_bndR; [apply runS_mono | intros v'; apply Mono_ret]. }
  destruct d; destruct r as [s| | |k r'|k rk rv|rs|nl rs|c fields|t]; cbn [runS run]; try apply Sound_ret.
  - (* RSeq, unmarshal *)
    apply Sound_bndR; [apply loadS_sound | |].
    + intros dd. apply Mono_bndR; [apply Mono_ret|]. intros vs.
      apply Mono_bndR; [apply Mono_mapMS; intros v; apply Mono_elem_convS; apply runS_mono | intros rs; apply Mono_ret].
    + intros dd _. apply Sound_bndR; [apply Sound_ret | |].
      * intros vs. apply Mono_bndR; [apply Mono_mapMS; intros v; apply Mono_elem_convS; apply runS_mono | intros rs; apply Mono_ret].
      * intros vs _. apply Sound_bndR; [apply Sound_mapMS; [intros v; apply Mono_elem_convS; apply runS_mono | intros v; apply Sound_elem_convS; [apply runS_mono | apply IH]] | |].
        -- intros rs. apply Mono_ret.
        -- intros rs _. apply Sound_ret.
  - (* RMap, unmarshal *)
    apply Sound_bndR; [apply loadS_sound | |].
    + intros dd. apply Mono_bndR; [apply Mono_ret|]. intros kvs.
      apply Mono_bndR; [apply Mono_mapMS; intros kv; apply Mono_hashingS; apply Mkv | intros rs; apply Mono_ret].
    + intros dd _. apply Sound_bndR; [apply Sound_ret | |].
      * intros kvs. apply Mono_bndR; [apply Mono_mapMS; intros kv; apply Mono_hashingS; apply Mkv | intros rs; apply Mono_ret].
      * intros kvs _. apply Sound_bndR; [apply Sound_mapMS; [intros kv; apply Mono_hashingS; apply Mkv | intros kv; apply Sound_hashingS; [apply Mkv | apply IHkv]] | |].
        -- intros rs. apply Mono_ret.
        -- intros rs _. apply Sound_ret.
  - (* RTuple, unmarshal *)
    apply Sound_bndR; [apply loadS_sound | |].
    + intros dd. apply Mono_bndR; [apply Mono_ret|]. intros vs.
      destruct (Nat.ltb (length vs) (length rs)); [apply Mono_ret|].
      apply Mono_bndR; [apply Mono_mapMS; intros v; apply runS_mono | intros out; apply Mono_ret].
    + intros dd _. apply Sound_bndR; [apply Sound_ret | |].
      * intros vs. destruct (Nat.ltb (length vs) (length rs)); [apply Mono_ret|].
        apply Mono_bndR; [apply Mono_mapMS; intros v; apply runS_mono | intros out; apply Mono_ret].
      * intros vs _. destruct (Nat.ltb (length vs) (length rs)); [apply Sound_ret|].
        apply Sound_bndR; [apply Sound_mapMS; [intros v; apply runS_mono | intros v; apply IH] | |].
        -- intros out. apply Mono_ret.
        -- intros out _. apply Sound_ret.
  - (* RUnion, unmarshal *)
    apply Sound_first_okS; [intros r; apply runS_mono | intros r; apply IH].
  - (* RStruct, unmarshal *)
    destruct (E c) as [[cd|t']|]; try apply Sound_ret.
    apply Sound_bndR; [apply loadS_sound | |].
    + intros dd. apply Mono_bndR; [apply Mono_ret|]. intros kvs.
      apply Mono_bndR; [apply Mono_struct_kwS; intros r x'; apply runS_mono | intros kw; apply Mono_ret].
    + intros dd _. apply Sound_bndR; [apply Sound_ret | |].
      * intros kvs. apply Mono_bndR; [apply Mono_struct_kwS; intros r x'; apply runS_mono | intros kw; apply Mono_ret].
      * intros kvs _. apply Sound_bndR; [apply Sound_struct_kwS; [intros r x'; apply runS_mono | intros r x'; apply IH] | |].
        -- intros kw. apply Mono_ret.
        -- intros kw _. apply Sound_ret.
  - (* RDelayed, unmarshal *)
    apply Sound_bndR; [apply get_umS_sound | intros r'; apply runS_mono | intros r' _; apply IH].
  - (* RSeq, marshal *)
    apply Sound_bndR; [apply Sound_ret | |].
    + intros vs. apply Mono_bndR; [apply Mono_mapMS; intros v; apply runS_mono | intros rs; apply Mono_ret].
    + intros vs _. apply Sound_bndR; [apply Sound_mapMS; [intros v; apply runS_mono | intros v; apply IH] | |].
      * intros rs. apply Mono_ret.
      * intros rs _. apply Sound_ret.
  - (* RMap, marshal *)
    apply Sound_bndR; [apply Sound_ret | |].
    + intros kvs. apply Mono_bndR; [apply Mono_mapMS; intros kv; apply Mono_hashingS; apply Mkv | intros rs; apply Mono_ret].
    + intros kvs _. apply Sound_bndR; [apply Sound_mapMS; [intros kv; apply Mono_hashingS; apply Mkv | intros kv; apply Sound_hashingS; [apply Mkv | apply IHkv]] | |].
      * intros rs. apply Mono_ret.
      * intros rs _. apply Sound_ret.
  - (* RTuple, marshal *)
    apply Sound_bndR; [apply Sound_ret | |].
    + intros vs. apply Mono_bndR; [apply Mono_mapMS; intros v; apply runS_mono | intros out; apply Mono_ret].
    + intros vs _. apply Sound_bndR; [apply Sound_mapMS; [intros v; apply runS_mono | intros v; apply IH] | |].
      * intros out. apply Mono_ret.
      * intros out _. apply Sound_ret.
  - (* RUnion, marshal *)
    destruct (nl && is_none_val rt x); [apply Sound_ret|].
    apply Sound_first_okS; [intros r; apply runS_mono | intros r; apply IH].
  - (* RStruct, marshal *)
    apply Sound_bndR; [apply Sound_ret | |].
    + intros kvs. apply Mono_bndR; [apply Mono_struct_kwS; intros r x'; apply runS_mono | intros kw; apply Mono_ret].
    + intros kvs _. apply Sound_bndR; [apply Sound_struct_kwS; [intros r x'; apply runS_mono | intros r x'; apply IH] | |].
      * intros kw. apply Mono_ret.
      * intros kw _. apply Sound_ret.
  - (* RDelayed, marshal *)
    apply Sound_bndR; [apply get_mmS_sound | intros r'; apply runS_mono | intros r' _; apply IH].
Qed.

(* ---- one operation *)
Notation stepS' := (stepS rt E orders uw_fuel is_text max_load alias_load enc dec byteslike).
Notation spec_op' := (spec_op rt E orders enc dec byteslike).

Lemma use_sound : forall (A : Type) (m : MC A) (a : A) s, SoundC m a -> CInv s -> c_bad (snd (m s)) = false ->
  CInv (snd (m s)) /\ fst (m s) = a.
Proof. intros A m a s H Is HB. exact (H s Is HB). Qed.

Lemma call_mono : forall d fuel (fac : MC (res routine)) x, MonoC fac -> MonoC (bndR fac (fun r => runS' d fuel r x)).
Proof. intros d fuel fac x H. apply Mono_bndR; [exact H | intros r; apply runS_mono]. Qed.
Lemma call_u_sound : forall fuel t x,
  SoundC (bndR (get_umS E orders uw_fuel false t) (fun r => runS' true fuel r x)) (api_call rt E orders true fuel t x).
Proof.
  intros fuel t x. unfold api_call.
  apply Sound_bndR; [apply get_umS_sound | intros r; apply runS_mono | intros r _; apply runS_sound].
Qed.
Lemma call_m_sound : forall fuel t x,
  SoundC (bndR (get_mmS E orders uw_fuel false t) (fun r => runS' false fuel r x)) (api_call rt E orders false fuel t x).
Proof.
  intros fuel t x. unfold api_call.
  apply Sound_bndR; [apply get_mmS_sound | intros r; apply runS_mono | intros r _; apply runS_sound].
Qed.

Lemma existsb_false_forall : forall (A : Type) (f : A -> bool) l, existsb f l = false -> forall x, In x l -> f x = false.
Proof.
  intros A f l H x Hin. destruct (f x) eqn:Hf; [|reflexivity].
  assert (existsb f l = true) by (apply existsb_exists; exists x; split; assumption). congruence.
Qed.

Theorem stepS_ok : forall fuel s o, CInv s -> c_bad (fst (stepS' fuel s o)) = false ->
  CInv (fst (stepS' fuel s o)) /\ snd (stepS' fuel s o) = spec_op' fuel o.
Proof.
  intros fuel s o Is HB.
  destruct o as [t|t|t|t x|t x|t x|t x|t x|t x|g| |w]; cbn [stepS spec_op] in *.
  - pose proof (use_sound _ _ _ s (get_umS_sound false t) Is) as H.
    destruct (get_umS E orders uw_fuel false t s) as [r s1]. cbn [fst snd] in *.
    destruct (H HB) as [Is1 Hr]. subst r. split; [exact Is1 | reflexivity].
  - pose proof (use_sound _ _ _ s (get_mmS_sound false t) Is) as H.
    destruct (get_mmS E orders uw_fuel false t s) as [r s1]. cbn [fst snd] in *.
    destruct (H HB) as [Is1 Hr]. subst r. split; [exact Is1 | reflexivity].
  - pose proof (use_sound _ _ _ s (get_cdS_sound t) Is) as H.
    destruct (get_cdS E orders uw_fuel t s) as [r s1]. cbn [fst snd] in *.
    destruct (H HB) as [Is1 Hr]. subst r. split; [exact Is1 | reflexivity].
  - pose proof (use_sound _ _ _ s (call_u_sound fuel t x) Is) as H.
    destruct (bndR (get_umS E orders uw_fuel false t) (fun r => runS' true fuel r x) s) as [v s1]. cbn [fst snd] in *.
    destruct (H HB) as [Is1 Hr]. subst v. split; [exact Is1 | reflexivity].
  - pose proof (use_sound _ _ _ s (call_m_sound fuel t x) Is) as H.
    destruct (bndR (get_mmS E orders uw_fuel false t) (fun r => runS' false fuel r x) s) as [v s1]. cbn [fst snd] in *.
    destruct (H HB) as [Is1 Hr]. subst v. split; [exact Is1 | reflexivity].
  - pose proof (use_sound _ _ _ s (call_m_sound fuel t x) Is) as H.
    destruct (bndR (get_mmS E orders uw_fuel false t) (fun r => runS' false fuel r x) s) as [v s1]. cbn [fst snd] in *.
    destruct (H HB) as [Is1 Hr]. subst v. split; [exact Is1 | reflexivity].
  - destruct (wire_in dec byteslike t x) as [y|e| |]; cbn [bind fst snd] in *; try (split; [exact Is | reflexivity]).
    pose proof (use_sound _ _ _ s (call_u_sound fuel t y) Is) as H.
    destruct (bndR (get_umS E orders uw_fuel false t) (fun r => runS' true fuel r y) s) as [v s1]. cbn [fst snd] in *.
    destruct (H HB) as [Is1 Hr]. subst v. split; [exact Is1 | reflexivity].
  - assert (HS : SoundC (bndR (get_cdS E orders uw_fuel t) (fun mu => runS' false fuel (fst mu) x))
                        (bind (codec_spec E orders t) (fun mu => run rt E orders false fuel (fst mu) x))).
    { apply Sound_bndR; [apply get_cdS_sound | intros mu; apply runS_mono | intros mu _; apply runS_sound]. }
    pose proof (use_sound _ _ _ s HS Is) as H.
    destruct (bndR (get_cdS E orders uw_fuel t) (fun mu => runS' false fuel (fst mu) x) s) as [v s1]. cbn [fst snd] in *.
    destruct (H HB) as [Is1 Hr]. subst v. split; [exact Is1 | reflexivity].
  - assert (HS : SoundC (bndR (get_cdS E orders uw_fuel t)
                           (fun mu => bndR (ret (wire_in dec byteslike t x)) (fun y => runS' true fuel (snd mu) y)))
                        (bind (codec_spec E orders t)
                           (fun mu => bind (wire_in dec byteslike t x) (fun y => run rt E orders true fuel (snd mu) y)))).
    { apply Sound_bndR; [apply get_cdS_sound | |].
      - intros mu. apply Mono_bndR; [apply Mono_ret | intros y; apply runS_mono].
      - intros mu _. apply Sound_bndR; [apply Sound_ret | intros y; apply runS_mono | intros y _; apply runS_sound]. }
    pose proof (use_sound _ _ _ s HS Is) as H.
    destruct (bndR (get_cdS E orders uw_fuel t)
                (fun mu => bndR (ret (wire_in dec byteslike t x)) (fun y => runS' true fuel (snd mu) y)) s) as [v s1].
    cbn [fst snd] in *. destruct (H HB) as [Is1 Hr]. subst v. split; [exact Is1 | reflexivity].
  - destruct alias_load; cbn [fst snd] in *; [|split; [exact Is | reflexivity]].
    split; [|reflexivity]. rewrite cbad_flag in HB. apply orb_false_elim in HB. destruct HB as [_ HE].
    apply CInv_flag, CInv_set_load; [exact Is|].
    pose proof (ci_load s Is) as HL. rewrite Forall_forall in HL |- *. intros e He.
    apply in_map_iff in He. destruct He as [e0 [He0 Hin]]. subst e. cbn [fst snd].
    pose proof (existsb_false_forall _ _ _ HE e0 Hin) as Hg. apply negb_false_iff in Hg.
    apply TL.Proofs.CoreC01.pv_eqb_eq in Hg. rewrite Hg. apply HL. exact Hin.
  - cbn [fst snd]. split; [apply CInv_clear | reflexivity].
  - cbn [fst snd]. split; [apply CInv_clear1; exact Is | reflexivity].
Qed.

(* ---- histories *)
Notation outsS' := (outsS rt E orders uw_fuel is_text max_load alias_load enc dec byteslike).
Notation clean_hist' := (clean_hist rt E orders uw_fuel is_text max_load alias_load enc dec byteslike).
Notation run_histS' := (run_histS rt E orders uw_fuel is_text max_load alias_load enc dec byteslike).

Theorem history_sound_from : forall fuel h s, CInv s -> clean_hist' fuel s h = true ->
  outsS' fuel s h = map (spec_op' fuel) h /\ CInv (run_histS' fuel s h).
Proof.
  intros fuel. induction h as [|o h IH]; intros s Is Hc; [split; [reflexivity | exact Is]|].
  cbn [clean_hist] in Hc. apply andb_prop in Hc. destruct Hc as [Hb Hc]. apply negb_true_iff in Hb.
  destruct (stepS_ok fuel s o Is Hb) as [Is' Ho]. destruct (IH _ Is' Hc) as [H1 H2].
  cbn [outsS map]. rewrite Ho, H1. split; [reflexivity|]. unfold run_histS in *. cbn [fold_left]. exact H2.
Qed.
Theorem history_sound : forall fuel h, clean_hist' fuel cinit h = true -> outsS' fuel cinit h = map (spec_op' fuel) h.
Proof. intros fuel h Hc. apply (history_sound_from fuel h cinit CInv_init Hc). Qed.

(* the result of the k-th operation is the stateless function of that operation alone *)
Theorem history_nth : forall fuel h k o, clean_hist' fuel cinit h = true -> nth_error h k = Some o ->
  nth_error (outsS' fuel cinit h) k = Some (spec_op' fuel o).
Proof. intros fuel h k o Hc Hk. rewrite (history_sound fuel h Hc). apply map_nth_error. exact Hk. Qed.

(* warm = cold: the k-th call of a clean history answers what the same call answers alone in a fresh process, and what
   it answers at any position of any other clean history *)
Theorem history_warm_is_cold : forall fuel h k o, clean_hist' fuel cinit h = true -> nth_error h k = Some o ->
  clean_hist' fuel cinit [o] = true ->
  nth_error (outsS' fuel cinit h) k = nth_error (outsS' fuel cinit [o]) 0.
Proof.
  intros fuel h k o Hc Hk Hc1. rewrite (history_nth fuel h k o Hc Hk).
  rewrite (history_nth fuel [o] 0 o Hc1 eq_refl). reflexivity.
Qed.
Theorem history_position_free : forall fuel h h' i j o, clean_hist' fuel cinit h = true -> clean_hist' fuel cinit h' = true ->
  nth_error h i = Some o -> nth_error h' j = Some o ->
  nth_error (outsS' fuel cinit h) i = nth_error (outsS' fuel cinit h') j.
Proof.
  intros fuel h h' i j o Hc Hc' Hi Hj. rewrite (history_nth fuel h i o Hc Hi), (history_nth fuel h' j o Hc' Hj). reflexivity.
Qed.

(* the core system in the generic record *)
Lemma core_system_outs : forall fuel h s,
  ms_outs (core_system rt E orders uw_fuel is_text max_load alias_load enc dec byteslike fuel) s h = outsS' fuel s h.
Proof. intros fuel. induction h as [|o h IH]; intros s; [reflexivity|]. cbn [ms_outs outsS]. f_equal. apply IH. Qed.
Lemma core_system_clean : forall fuel h s,
  ms_clean (core_system rt E orders uw_fuel is_text max_load alias_load enc dec byteslike fuel) s h = clean_hist' fuel s h.
Proof. intros fuel. induction h as [|o h IH]; intros s; [reflexivity|]. cbn [ms_clean clean_hist]. f_equal. apply IH. Qed.
Theorem core_system_refines : forall fuel h,
  ms_clean (core_system rt E orders uw_fuel is_text max_load alias_load enc dec byteslike fuel) cinit h = true ->
  ms_outs (core_system rt E orders uw_fuel is_text max_load alias_load enc dec byteslike fuel) cinit h =
  ms_spec_outs (core_system rt E orders uw_fuel is_text max_load alias_load enc dec byteslike fuel)
               (fun _ => spec_op' fuel) cinit h.
Proof.
  intros fuel h Hc.
  apply (refines_history (core_system rt E orders uw_fuel is_text max_load alias_load enc dec byteslike fuel)
           (fun _ => spec_op' fuel) CInv); [|exact CInv_init | exact Hc].
  intros s o Is Hb. exact (stepS_ok fuel s o Is Hb).
Qed.

(* ================================================================== 4. the reference semantics along a history *)
Section Reference.
Variable noop_leaf : nat -> bool.
Hypothesis orders_u : forall t ns, orders t = Some ns ->
  exists pre root, ns = pre ++ [root] /\ order_ok E true noop_leaf [] ns = true /\ norm (ntype root) = norm t.
Hypothesis orders_m : forall t ns, orders t = Some ns ->
  exists pre root, ns = pre ++ [root] /\ order_ok E false noop_leaf [] ns = true /\ norm (ntype root) = norm t.
Hypothesis noop_u : forall s x, noop_leaf s = true -> leaf_u rt s x = Ok x.
Hypothesis noop_m : forall s x, noop_leaf s = true -> leaf_m rt s x = Ok x.

Theorem history_unm : forall fuel h k t x, clean_hist' fuel cinit h = true -> nth_error h k = Some (CUnmarshal t x) ->
  exists r, nth_error (outsS' fuel cinit h) k = Some (COVal r) /\
            (done r = true -> ev (fun m => unm rt E m t x) r).
Proof.
  intros fuel h k t x Hc Hk. exists (api_call rt E orders true fuel t x). split.
  - rewrite (history_nth fuel h k _ Hc Hk). reflexivity.
  - intros Hd. exact (api_u_sound rt E noop_leaf orders orders_u noop_u t fuel x Hd).
Qed.
Theorem history_mar : forall fuel h k t x, clean_hist' fuel cinit h = true -> nth_error h k = Some (CMarshal t x) ->
  exists r, nth_error (outsS' fuel cinit h) k = Some (COVal r) /\
            (done r = true -> ev (fun m => mar rt E m t x) r).
Proof.
  intros fuel h k t x Hc Hk. exists (api_call rt E orders false fuel t x). split.
  - rewrite (history_nth fuel h k _ Hc Hk). reflexivity.
  - intros Hd. exact (api_m_sound rt E noop_leaf orders orders_m noop_m t fuel x Hd).
Qed.
(* observed form: whatever terminal value the k-th call handed out is the reference semantics of that call *)
Lemma history_unm_obs : forall fuel h k t x r, clean_hist' fuel cinit h = true -> nth_error h k = Some (CUnmarshal t x) ->
  nth_error (outsS' fuel cinit h) k = Some (COVal r) -> done r = true -> ev (fun m => unm rt E m t x) r.
Proof.
  intros fuel h k t x r Hc Hk Ho Hd. destruct (history_unm fuel h k t x Hc Hk) as [r' [H1 H2]].
  rewrite H1 in Ho. injection Ho as Ho. subst r'. exact (H2 Hd).
Qed.
Lemma history_mar_obs : forall fuel h k t x r, clean_hist' fuel cinit h = true -> nth_error h k = Some (CMarshal t x) ->
  nth_error (outsS' fuel cinit h) k = Some (COVal r) -> done r = true -> ev (fun m => mar rt E m t x) r.
Proof.
  intros fuel h k t x r Hc Hk Ho Hd. destruct (history_mar fuel h k t x Hc Hk) as [r' [H1 H2]].
  rewrite H1 in Ho. injection Ho as Ho. subst r'. exact (H2 Hd).
Qed.
End Reference.
End Core.

(* ---- the per-run decision on observed orders (BuildTables.orders_hyps_ok) gives the contract the theorems assume *)
Require TL.Model.BuildTables.
Lemma lookup_ty_in : forall (A : Type) k (t : list (ty * A)) a, TL.Model.BuildTables.lookup_ty k t = Some a -> In (k, a) t.
Proof.
  intros A k t a. induction t as [|[k' a'] r IH]; cbn [TL.Model.BuildTables.lookup_ty]; [discriminate|].
  destruct (ty_eqb k k') eqn:Ek.
  - intros H. injection H as H. subst a'. apply ty_eqb_eq in Ek. subst k'. left. reflexivity.
  - intros H. right. apply IH. exact H.
Qed.
Lemma orders_hyps_ok_sound : forall E noops tbl,
  TL.Model.BuildTables.orders_hyps_ok E noops tbl = true ->
  forall dir t ns, TL.Model.BuildTables.lookup_ty t tbl = Some ns ->
    exists pre root, ns = pre ++ [root] /\
      order_ok E dir (fun s => existsb (Nat.eqb s) noops) [] ns = true /\ norm (ntype root) = norm t.
Proof.
  intros E noops tbl H dir t ns Hl. apply lookup_ty_in in Hl.
  unfold TL.Model.BuildTables.orders_hyps_ok in H. apply andb_prop in H. destruct H as [H _].
  rewrite forallb_forall in H. specialize (H _ Hl). cbn [fst snd] in H.
  apply andb_prop in H. destruct H as [H12 H3]. apply andb_prop in H12. destruct H12 as [H1 H2].
  destruct (rev ns) as [|root r] eqn:Er; [discriminate H3|].
  exists (rev r), root. split; [|split].
  - rewrite <- (rev_involutive ns), Er. reflexivity.
  - destruct dir; assumption.
  - apply ty_eqb_eq. exact H3.
Qed.

(* ================================================================== 4b. the stateless value theorems, lifted to histories *)
Require TL.Model.CoreC01 TL.Model.CoreC03 TL.Proofs.CoreC03 TL.Model.CoreValid TL.Props.C01 TL.Props.C03 TL.Props.C13.

Section Lifted.
Variable rt : runtime.
Variable E : env.
Variable orders : ty -> option (list node).
Variable uw_fuel : nat.
Variable is_text : pv -> bool.
Variable max_load : option N.
Variable alias_load : bool.
Variables enc dec : pv -> res pv.
Variable byteslike : ty -> bool.
Variable noop_leaf : nat -> bool.
Hypothesis orders_u : forall t ns, orders t = Some ns ->
  exists pre root, ns = pre ++ [root] /\ order_ok E true noop_leaf [] ns = true /\ norm (ntype root) = norm t.
Hypothesis orders_m : forall t ns, orders t = Some ns ->
  exists pre root, ns = pre ++ [root] /\ order_ok E false noop_leaf [] ns = true /\ norm (ntype root) = norm t.
Hypothesis noop_u : forall s x, noop_leaf s = true -> leaf_u rt s x = Ok x.
Hypothesis noop_m : forall s x, noop_leaf s = true -> leaf_m rt s x = Ok x.

Notation outs := (outsS rt E orders uw_fuel is_text max_load alias_load enc dec byteslike).
Notation clean := (clean_hist rt E orders uw_fuel is_text max_load alias_load enc dec byteslike).

Lemma ev_unique : forall (A : Type) (f : nat -> res A) r1 r2, ev f r1 -> ev f r2 -> r1 = r2.
Proof.
  intros A f r1 r2 [m1 H1] [m2 H2]. rewrite <- (H1 (max m1 m2)), <- (H2 (max m1 m2)); [reflexivity | lia | lia].
Qed.

(* C01: what the i-th call marshalled, the j-th call (earlier or later, whatever ran in between) unmarshals back *)
Theorem C01_roundtrip_hist : forall lv, TL.Model.CoreC01.RoundLaws rt lv ->
  forall fuel h, clean fuel cinit h = true ->
  forall i j n T v w r,
    nth_error h i = Some (CMarshal T v) -> nth_error (outs fuel cinit h) i = Some (COVal (Ok w)) ->
    TL.Model.CoreC01.valid rt lv E n T v = true -> TL.Model.CoreC01.c01_guard rt E n T v = true ->
    TL.Model.CoreC01.union_unamb rt lv E n T v = true -> done (mar rt E n T v) = true ->
    nth_error h j = Some (CUnmarshal T w) -> nth_error (outs fuel cinit h) j = Some (COVal r) -> done r = true ->
    r = Ok v.
Proof.
  intros lv L fuel h Hc i j n T v w r Hi Hoi Hv Hg Hu Hd Hj Hoj Hdr.
  pose proof (history_mar_obs rt E orders uw_fuel is_text max_load alias_load enc dec byteslike noop_leaf orders_m noop_m
                fuel h i T v (Ok w) Hc Hi Hoi eq_refl) as [m0 Hm0].
  assert (Hm : mar rt E n T v = Ok w).
  { destruct (TL.Proofs.CoreC01.mar_ge rt E n (max n m0) T v (Nat.le_max_l _ _)) as [Ho|Ho].
    - rewrite Ho in Hd. discriminate Hd.
    - rewrite Ho. apply Hm0. lia. }
  destruct (TL.Props.C01.C01_roundtrip rt lv E L n n T v w (le_n n) Hv Hg Hu Hm) as [m Hround].
  pose proof (history_unm_obs rt E orders uw_fuel is_text max_load alias_load enc dec byteslike noop_leaf orders_u noop_u
                fuel h j T w r Hc Hj Hoj Hdr) as Hev.
  apply (ev_unique _ (fun m' => unm rt E m' T w)); [exact Hev|]. exists m. exact Hround.
Qed.

(* C03: whatever value any call of any history hands out conforms to the annotation of THAT call *)
Theorem C03_conforms_hist : forall leaf_ok, TL.Proofs.CoreC03.LeafLaws rt leaf_ok -> TL.Proofs.CoreC03.wf_env E ->
  forall fuel h, clean fuel cinit h = true ->
  forall k T x v, nth_error h k = Some (CUnmarshal T x) -> nth_error (outs fuel cinit h) k = Some (COVal (Ok v)) ->
  exists n, TL.Model.CoreC03.conforms rt E leaf_ok n T v = true.
Proof.
  intros lo L WF fuel h Hc k T x v Hk Ho.
  pose proof (history_unm_obs rt E orders uw_fuel is_text max_load alias_load enc dec byteslike noop_leaf orders_u noop_u
                fuel h k T x (Ok v) Hc Hk Ho eq_refl) as [m Hm].
  exact (TL.Props.C03.C03_conforms rt E lo L WF m T x v (Hm m (le_n m))).
Qed.

(* C13: an already valid value passes through the k-th call of any history unchanged *)
Theorem C13_passthrough_hist : forall lv, TL.Model.CoreValid.PassLaws rt lv -> TL.Model.CoreValid.wf_env E ->
  forall fuel h, clean fuel cinit h = true ->
  forall k n T v r, nth_error h k = Some (CUnmarshal T v) -> nth_error (outs fuel cinit h) k = Some (COVal r) ->
  done r = true ->
  TL.Model.CoreValid.optional_only E n T = true -> TL.Model.CoreValid.valid lv rt E n T v = true ->
  r = Ok v.
Proof.
  intros lv L WF fuel h Hc k n T v r Hk Ho Hd Hoo Hv.
  pose proof (history_unm_obs rt E orders uw_fuel is_text max_load alias_load enc dec byteslike noop_leaf orders_u noop_u
                fuel h k T v r Hc Hk Ho Hd) as Hev.
  destruct (TL.Props.C13.C13_passthrough rt E lv L WF n T v Hoo Hv) as [m Hm].
  apply (ev_unique _ (fun m' => unm rt E m' T v)); [exact Hev|]. exists m. intros m' Hm'. apply Hm. exact Hm'.
Qed.

(* C13 idempotence across two calls of one history: what call i returned, call j returns unchanged *)
Theorem C13_idempotent_hist : TL.Model.CoreValid.IdemLaws rt -> TL.Model.CoreValid.wf_env E ->
  TL.Model.CoreValid.DefaultsConform rt E ->
  forall T, (forall k, TL.Model.CoreValid.optional_only E k T = true) ->
  forall fuel h, clean fuel cinit h = true ->
  forall i j x y r, nth_error h i = Some (CUnmarshal T x) -> nth_error (outs fuel cinit h) i = Some (COVal (Ok y)) ->
  nth_error h j = Some (CUnmarshal T y) -> nth_error (outs fuel cinit h) j = Some (COVal r) -> done r = true ->
  r = Ok y.
Proof.
  intros L WF DC T Hoo fuel h Hc i j x y r Hi Hoi Hj Hoj Hd.
  pose proof (history_unm_obs rt E orders uw_fuel is_text max_load alias_load enc dec byteslike noop_leaf orders_u noop_u
                fuel h i T x (Ok y) Hc Hi Hoi eq_refl) as [m0 Hm0].
  destruct (TL.Props.C13.C13_idempotent rt E L WF DC T Hoo m0 x y (Hm0 m0 (le_n m0))) as [m Hm].
  pose proof (history_unm_obs rt E orders uw_fuel is_text max_load alias_load enc dec byteslike noop_leaf orders_u noop_u
                fuel h j T y r Hc Hj Hoj Hd) as Hev.
  apply (ev_unique _ (fun m' => unm rt E m' T y)); [exact Hev|]. exists m. intros m' Hm'. apply Hm. exact Hm'.
Qed.
End Lifted.

(* ================================================================== 5. outside the guard; inside the guard (toy instance) *)
Definition bt_id_wire (x : pv) : res pv := Ok x.
Definition bt_outs (alias : bool) (h : list cop) : list cout :=
  outsS bt_rt bt_env bt_orders 6 bt_is_text (Some 100000%N) alias bt_id_wire bt_id_wire (fun _ => false) 20 cinit h.
Definition bt_clean (alias : bool) (h : list cop) : bool :=
  clean_hist bt_rt bt_env bt_orders 6 bt_is_text (Some 100000%N) alias bt_id_wire bt_id_wire (fun _ => false) 20 cinit h.
Definition bt_spec (h : list cop) : list cout :=
  map (spec_op bt_rt bt_env bt_orders bt_id_wire bt_id_wire (fun _ => false) 20) h.

(* the full statement (no guard), for systems whose strload copies (alias_load = false: /repo HEAD) *)
Definition bridge_full_stmt : Prop :=
  forall rt E orders uw_fuel is_text max_load enc dec byteslike fuel h,
    outsS rt E orders uw_fuel is_text max_load false enc dec byteslike fuel cinit h =
    map (spec_op rt E orders enc dec byteslike fuel) h.

Lemma refute_union_order :
  bt_clean false bt_h_union = false /\ bt_outs false bt_h_union <> bt_spec bt_h_union /\
  nth_error (bt_outs false bt_h_union) 1 = Some (COVal (Ok (PAtom 1))) /\
  nth_error (bt_spec bt_h_union) 1 = Some (COVal (Ok (PAtom 2))) /\
  bt_clean false bt_h_union_nested = false /\ bt_outs false bt_h_union_nested <> bt_spec bt_h_union_nested /\
  nth_error (bt_outs false bt_h_union_nested) 1 = Some (COVal (Ok (PDict KDict [(PAtom 2, PAtom 1)]))) /\
  nth_error (bt_spec bt_h_union_nested) 1 = Some (COVal (Ok (PDict KDict [(PAtom 2, PAtom 2)]))).
Proof. vm_compute. repeat split; try reflexivity; intro H; discriminate H. Qed.

Lemma refute_full : ~ bridge_full_stmt.
Proof.
  intros F. destruct refute_union_order as [_ [D _]]. apply D.
  exact (F bt_rt bt_env bt_orders 6 bt_is_text (Some 100000%N) bt_id_wire bt_id_wire (fun _ => false) 20 bt_h_union).
Qed.

(* a strload that hands out the memoised object itself: the caller's append reaches the memo; with the copy (HEAD)
   the same history is inside the guard and agrees with the stateless model *)
Lemma refute_alias :
  bt_clean true bt_h_alias = false /\ bt_outs true bt_h_alias <> bt_spec bt_h_alias /\
  nth_error (bt_outs true bt_h_alias) 2 = Some (COVal (Ok (PSeq KList [PAtom 3; PAtom 4; PAtom 6]))) /\
  nth_error (bt_spec bt_h_alias) 2 = Some (COVal (Ok (PSeq KList [PAtom 3; PAtom 4]))) /\
  bt_clean false bt_h_alias = true /\ bt_outs false bt_h_alias = bt_spec bt_h_alias.
Proof. vm_compute. repeat split; try reflexivity; intro H; discriminate H. Qed.

Lemma good_history :
  bt_clean false bt_h_good = true /\ bt_outs false bt_h_good = bt_spec bt_h_good /\
  nth_error (bt_outs false bt_h_good) 1 = Some (COVal (Ok (PAtom 1))) /\
  nth_error (bt_outs false bt_h_good) 3 = Some (COVal (Ok (PAtom 2))) /\
  nth_error (bt_outs false bt_h_good) 4 =
    Some (COVal (Ok (PSeq KList [PObj 0 [(0, PSeq KList [PObj 0 [(0, PSeq KList []); (1, PAtom 3)]]); (1, PAtom 1)]]))) /\
  nth_error (bt_outs false bt_h_good) 7 = Some (COVal (Ok (PSeq KList [PAtom 3; PAtom 4]))) /\
  nth_error (bt_outs false bt_h_good) 11 = Some (COVal (Ok (PSeq KList [PAtom 3; PAtom 4]))) /\
  (* a caller that changes nothing may also be served the memoised object *)
  bt_clean true [CUnmarshal L_int (PAtom 5); CMutate bt_id; CUnmarshal L_int (PAtom 5)] = true.
Proof. vm_compute. repeat split. Qed.

Lemma eviction_example :
  clean_hist bt_rt bt_env bt_orders 6 bt_is_text (Some 1%N) false bt_id_wire bt_id_wire (fun _ => false) 20 cinit bt_h_evict = true /\
  outsS bt_rt bt_env bt_orders 6 bt_is_text (Some 1%N) false bt_id_wire bt_id_wire (fun _ => false) 20 cinit bt_h_evict = bt_spec bt_h_evict /\
  length (c_load (run_histS bt_rt bt_env bt_orders 6 bt_is_text (Some 1%N) false bt_id_wire bt_id_wire (fun _ => false) 20 cinit bt_h_evict)) = 1 /\
  length (c_load (run_histS bt_rt bt_env bt_orders 6 bt_is_text None false bt_id_wire bt_id_wire (fun _ => false) 20 cinit bt_h_evict)) = 2 /\
  nth_error (bt_spec bt_h_evict) 4 = Some (COVal (Ok (PSeq KList [PAtom 3; PAtom 4]))).
Proof. vm_compute. repeat split. Qed.

Lemma bt_orders_contract : forall dir t ns, bt_orders t = Some ns ->
  exists pre root, ns = pre ++ [root] /\ order_ok bt_env dir (fun _ => false) [] ns = true /\ norm (ntype root) = norm t.
Proof.
  intros dir t ns H.
  assert (Hin : In (t, ns) bt_table).
  { unfold bt_orders in H. revert H. generalize bt_table as tb. induction tb as [|[k' a'] r IH]; cbn [bt_lookup]; [discriminate|].
    destruct (ty_eqb t k') eqn:Ek.
    - intros H. injection H as H. subst a'. apply ty_eqb_eq in Ek. subst k'. left. reflexivity.
    - intros H. right. apply IH. exact H. }
  assert (Hall : forallb (fun p : ty * list node =>
            order_ok bt_env true (fun _ => false) [] (snd p) && order_ok bt_env false (fun _ => false) [] (snd p) &&
            match rev (snd p) with root :: _ => ty_eqb (norm (ntype root)) (norm (fst p)) | [] => false end) bt_table = true)
    by (vm_compute; reflexivity).
  rewrite forallb_forall in Hall. specialize (Hall _ Hin). cbn [fst snd] in Hall.
  apply andb_prop in Hall. destruct Hall as [H12 H3]. apply andb_prop in H12. destruct H12 as [H1 H2].
  destruct (rev ns) as [|root r] eqn:Er; [discriminate H3|].
  exists (rev r), root. split; [|split].
  - rewrite <- (rev_involutive ns), Er. reflexivity.
  - destruct dir; assumption.
  - apply ty_eqb_eq. exact H3.
Qed.

(* ================================================================== 6. Model/Cache.v's cached functions are instances *)
Definition kres_proj {A : Type} (r : KC.res A) : option A := match r with KC.Ok a => Some a | _ => None end.

Lemma c12_get_uw_instance : forall a s,
  KC.get_uw a s =
  match a with
  | KC.AS _ | KC.ABareList | KC.ABareDict => (a, s)
  | _ => mcached KC.key_eq KC.ann_eqb None KC.t_uw KC.set_uw KC.flag (fun a s => (a, s)) a s
  end.
Proof. intros a s. destruct a; reflexivity. Qed.
Lemma c12_get_so_instance : forall a s,
  KC.get_so a s = mcached KC.key_eq KC.ann_eqb None KC.t_so KC.set_so KC.flag (fun a s => KC.resolve (KC.depth a) a s) a s.
Proof. reflexivity. Qed.
Lemma c12_get_um_instance : forall kw a s,
  KC.get_um kw a s =
  mcached (KC.kw_eq KC.key_eq) (KC.kw_eq KC.ann_eqb) None KC.t_um KC.set_um KC.flag (fun k s => KC.get_so (snd k) s) (kw, a) s.
Proof. reflexivity. Qed.
Lemma c12_get_mm_instance : forall kw a s,
  KC.get_mm kw a s =
  mcached (KC.kw_eq KC.key_eq) (KC.kw_eq KC.ann_eqb) None KC.t_mm KC.set_mm KC.flag (fun k s => KC.get_so (snd k) s) (kw, a) s.
Proof. reflexivity. Qed.
Lemma c12_get_cd_instance : forall a s,
  KC.get_cd a s =
  mcached KC.key_eq KC.ann_eqb None KC.t_cd KC.set_cd KC.flag
    (fun a s => let (m, s1) := KC.get_mm true a s in let (u, s2) := KC.get_um true a s1 in ((m, u), s2)) a s.
Proof.
  intros a s. unfold KC.get_cd, mcached. destruct (KC.memo_get KC.key_eq KC.ann_eqb (KC.t_cd s) a) as [[[v tbl] coll]|]; [reflexivity|].
  destruct (KC.get_mm true a s) as [m s1]. destruct (KC.get_um true a s1) as [u s2]. reflexivity.
Qed.
Lemma c12_iso_instance : forall W a s,
  KC.iso_w W a s =
  if negb (KC.w_isdelta W a) then (KC.w_iso W a, s)
  else mcached_opt (KC.atom_eqv W) N.eqb (KC.w_max_iso W) KC.t_iso KC.set_iso KC.flag kres_proj (@KC.Ok N)
                   (fun a s => (KC.w_iso W a, s)) a s.
Proof.
  intros W a s. unfold KC.iso_w, mcached_opt. destruct (negb (KC.w_isdelta W a)); [reflexivity|].
  destruct (KC.memo_get (KC.atom_eqv W) N.eqb (KC.t_iso s) a) as [[[v tbl] coll]|]; [reflexivity|].
  destruct (KC.w_iso W a); reflexivity.
Qed.
Lemma c12_parse_instance : forall W k s,
  KC.parse_w W k s =
  mcached_opt (KC.ps_eq W) KC.ps_same (KC.w_max_parse W) KC.t_parse KC.set_parse KC.flag kres_proj (@KC.Ok N)
              (fun k s => (KC.w_parse W (fst k) (snd k), s)) k s.
Proof.
  intros W k s. unfold KC.parse_w, mcached_opt.
  destruct (KC.memo_get (KC.ps_eq W) KC.ps_same (KC.t_parse s) k) as [[[v tbl] coll]|]; [reflexivity|].
  destruct (KC.w_parse W (fst k) (snd k)); reflexivity.
Qed.
(* strload: the memo stores (cell id, the object); the body allocates the cell; the caller gets a copy *)
Definition c12_load_body (W : KC.world) (a : N) (s : KC.state) : (nat * KC.val) * KC.state :=
  ((KC.ncell s, KC.tag (KC.PCache (KC.ncell s)) [] (KC.w_strload W a)), KC.set_load s (KC.t_load s) (S (KC.ncell s))).
Lemma c12_load_instance : forall W x s,
  KC.load_w W x s =
  match x with
  | KC.VA a =>
      if KC.w_text W a then
        let (cv, s') := mcached (KC.atom_eqv W) N.eqb (KC.w_max_load W) KC.t_load (fun s t => KC.set_load s t (KC.ncell s)) KC.flag
                                (c12_load_body W) a s in
        (KC.erase (snd cv), s')
      else (x, s)
  | _ => (x, s)
  end.
Proof.
  intros W x s. destruct x as [a|pr l|pr l]; try reflexivity. unfold KC.load_w, mcached.
  destruct (KC.w_text W a); [|reflexivity].
  destruct (KC.memo_get (KC.atom_eqv W) N.eqb (KC.t_load s) a) as [[[v tbl] coll]|]; reflexivity.
Qed.

(* ... and the generic cache lemma gives Cache.v's factory lemma back (static_order's memo in front of resolve) *)
Lemma c12_get_so_generic : forall W a, @SoundM KC.state KC.bad (KL.Inv W) _ (KC.get_so a) a.
Proof.
  intros W a s. rewrite c12_get_so_instance. revert s.
  apply (Sound_mcached KC.bad (KL.Inv W) KC.key_eq KC.ann_eqb None KC.t_so KC.set_so KC.flag
           (fun e : KC.ann * KC.ann => snd e = fst e) KL.ann_eqb_eq (fun s t => eq_refl) (fun s b => eq_refl)
           (KL.Inv_flag W) (KL.inv_so W) (KL.Inv_set_so W) (fun a => a)).
  - intros e. split; intros H; exact H.
  - intros s Is HB. exact (KL.resolve_ok W (KC.depth a) a s HB Is).
Qed.

(* Cache.v's machine refines its own stateless reading, by the same generic history lemma *)
Theorem c12_system_refines : forall W h,
  ms_clean (c12_system W) KC.init h = true ->
  ms_outs (c12_system W) KC.init h = ms_spec_outs (c12_system W) (KC.spec W) KC.init h.
Proof.
  intros W h Hc. apply (refines_history (c12_system W) (KC.spec W) (KL.Inv W)); [|apply KL.Inv_init | exact Hc].
  intros s o Is Hb. cbn [c12_system ms_step ms_bad ms_view fst snd] in *. exact (KL.step_spec W s o Is Hb).
Qed.
Lemma c12_system_clean : forall W h s, ms_clean (c12_system W) s h = KC.clean_from W s h.
Proof. intros W. induction h as [|o h IH]; intros s; [reflexivity|]. cbn [ms_clean KC.clean_from]. f_equal. apply IH. Qed.
Theorem c12_system_refines_guard : forall W h, KC.clean_from W KC.init h = true ->
  ms_outs (c12_system W) KC.init h = ms_spec_outs (c12_system W) (KC.spec W) KC.init h.
Proof. intros W h H. apply c12_system_refines. rewrite c12_system_clean. exact H. Qed.
