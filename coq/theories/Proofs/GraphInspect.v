(* Proof scripts of the bridge Graph.v <-> Inspect.v (definitions: Model/GraphInspect.v).
   Part A: strings.  Part B: the image of [tr].  Part C: origin() on the image.  Part D: the agreement lemmas
   (one per local predicate of Graph.v).  Part E: rows as a function of Graph's environment. *)
From Coq Require Import List Arith Bool NArith ZArith String Ascii Lia.
Import ListNotations.
Require Import TL.Model.GraphInspect TL.Proofs.GraphLemmas TL.Proofs.InspectLemmas.

Local Open Scope string_scope.
Local Open Scope list_scope.
Local Notation "a +++ b" := (String.append a b) (right associativity, at level 60).

(* ------------------------------------------------------------------------------------------- *)
(* Part A: strings                                                                               *)
(* ------------------------------------------------------------------------------------------- *)
Lemma has_char_GI : forall c s, G.has_char c s = I.has_char c s.
Proof.
  induction s as [|a r IH]; cbn; [reflexivity|]. rewrite IH. rewrite Ascii.eqb_sym. reflexivity.
Qed.

Lemma has_char_app : forall c a b, I.has_char c (a +++ b) = I.has_char c a || I.has_char c b.
Proof. induction a as [|x r IH]; intros b; cbn; [reflexivity|]. rewrite IH. apply orb_assoc. Qed.

Lemma sapp_G : forall a b, G.sapp a b = a +++ b.
Proof. reflexivity. Qed.
Lemma sapp_I : forall a b, I.sapp a b = a +++ b.
Proof. reflexivity. Qed.

Lemma before_char_GI : forall c s, G.before_char c s = I.before_char c s.
Proof.
  intros c s. unfold G.before_char.
  induction s as [|a r IH]; cbn; [reflexivity|].
  rewrite (Ascii.eqb_sym c a). destruct (Ascii.eqb a c); [reflexivity|].
  destruct (G.split_first c r) as [[x y]|]; cbn in *; rewrite <- IH; reflexivity.
Qed.

Lemma before_char_none : forall c s, I.has_char c s = false -> I.before_char c s = s.
Proof.
  induction s as [|a r IH]; cbn; [reflexivity|]. intro H. apply orb_false_elim in H. destruct H as [H1 H2].
  rewrite H1. rewrite (IH H2). reflexivity.
Qed.

Lemma before_char_app : forall c a r, I.has_char c a = false -> I.before_char c (a +++ String c r) = a.
Proof.
  induction a as [|x s IH]; intros r H; cbn.
  - rewrite Ascii.eqb_refl. reflexivity.
  - cbn in H. apply orb_false_elim in H. destruct H as [H1 H2]. rewrite H1. rewrite (IH r H2). reflexivity.
Qed.

Lemma prefix_GI : forall p s,
  match G.strip_prefix p s with Some _ => true | None => false end = I.prefixb p s.
Proof.
  induction p as [|a p IH]; intros s; cbn; [reflexivity|].
  destruct s as [|b s]; [reflexivity|]. destruct (Ascii.eqb a b); cbn; [apply IH | reflexivity].
Qed.

Lemma generic_text_GI : forall s, G.generic_text s = I.prefixb "typing." s || I.has_char "["%char s.
Proof.
  intro s. unfold G.generic_text. rewrite <- (prefix_GI "typing." s). rewrite has_char_GI.
  destruct (G.strip_prefix "typing." s); reflexivity.
Qed.

(* joins: a separator without "[" *)
Lemma has_char_join_G : forall sep l, I.has_char "["%char sep = false ->
  I.has_char "["%char (G.join sep l) = existsb (I.has_char "["%char) l.
Proof.
  intros sep l Hs. induction l as [|x r IH]; [reflexivity|].
  destruct r as [|y r'].
  - cbn. rewrite orb_false_r. reflexivity.
  - change (G.join sep (x :: y :: r')) with (x +++ sep +++ G.join sep (y :: r')).
    rewrite !has_char_app, Hs, IH. reflexivity.
Qed.

Lemma nb_app : forall a b, nb (a +++ b) = nb a && nb b.
Proof. intros. unfold nb. rewrite has_char_app. apply negb_orb. Qed.

(* ------------------------------------------------------------------------------------------- *)
(* Part B: the image of tr                                                                       *)
(* ------------------------------------------------------------------------------------------- *)
Section Image.
Variable Nm : names.

Lemma tr_gen_cases : forall g a,
  (exists c, tr_gen Nm g a = I.IClassSub c a) \/ (exists al, tr_gen Nm g a = I.ITypingSub al a).
Proof. intros g a. destruct g; cbn; eauto. Qed.

Lemma tr_not_typevar : forall t, I.normalize_typevar (tr Nm t) = tr Nm t.
Proof. destruct t; try reflexivity. cbn [tr]. destruct g; reflexivity. Qed.

Lemma map_normalize_tr : forall l, map I.normalize_typevar (map (tr Nm) l) = map (tr Nm) l.
Proof. induction l as [|x r IH]; cbn [map]; [reflexivity|]. rewrite tr_not_typevar, IH. reflexivity. Qed.

Lemma resolve_supertype_tr : forall t, I.resolve_supertype (tr Nm t) = tr Nm (G.resolve_super t).
Proof.
  induction t using gty_ind'; try reflexivity.
  - cbn [tr]. destruct g; reflexivity.
  - cbn [tr G.resolve_super I.resolve_supertype]. assumption.
Qed.

Lemma isclassvartype_tr : forall t, I.isclassvartype (tr Nm t) = false.
Proof.
  intro t. unfold I.isclassvartype. rewrite resolve_supertype_tr.
  destruct (G.resolve_super t); try reflexivity. cbn [tr]. destruct g; reflexivity.
Qed.

(* what _resolve_wrappers reaches *)
Definition rw_image (k : G.gty) : I.ity :=
  match k with G.GAliasStr _ _ s => I.IValue (I.LStr s) | _ => tr Nm k end.
Lemma resolve_wrappers_tr : forall t, I.resolve_wrappers (tr Nm t) = rw_image (wcore t).
Proof.
  induction t using gty_ind'; try reflexivity.
  - cbn [tr wcore rw_image]. destruct g; reflexivity.
  - cbn [tr wcore I.resolve_wrappers]. assumption.
  - cbn [tr wcore I.resolve_wrappers]. assumption.
Qed.

Lemma wcore_not_wrapper : forall t, is_wrapper (wcore t) = false.
Proof. induction t using gty_ind'; cbn; auto. Qed.
Lemma wcore_idem : forall t, wcore (wcore t) = wcore t.
Proof. induction t using gty_ind'; cbn; auto. Qed.
Lemma wcore_plain : forall t, is_wrapper t = false -> wcore t = t.
Proof. destruct t; cbn; intros; try reflexivity; discriminate. Qed.

Lemma type_of_tr : forall t, I.type_of (tr Nm t) = None.
Proof. destruct t; try reflexivity. cbn [tr]. destruct g; reflexivity. Qed.

(* tr reflects the three objects graph.py compares by identity / equality *)
Hypothesis Hfresh_any : forall c, N.eqb (n_cls Nm c) I.c_Any = false.
Hypothesis Hfresh_none : forall c, N.eqb (n_cls Nm c) I.c_NoneType = false.
Hypothesis Hsc_any : forall s, N.eqb (sid Nm s) I.c_Any = false.
Hypothesis Hsc_none : forall s, N.eqb (sid Nm s) I.c_NoneType = false.

Lemma tr_is_ellipsis : forall t, I.ity_eqb (tr Nm t) I.IEllipsis = is_ellipsis t.
Proof. destruct t; try reflexivity. cbn [tr]. destruct g; reflexivity. Qed.
Lemma tr_is_any : forall t, I.ity_eqb (tr Nm t) (I.IClass I.c_Any) = is_any t.
Proof.
  destruct t; try reflexivity; cbn [tr I.ity_eqb is_any]; auto.
  destruct g; reflexivity.
Qed.
Lemma tr_is_nullarg : forall t, I.is_nullarg (tr Nm t) = is_none t.
Proof.
  destruct t; try reflexivity; cbn [tr I.is_nullarg is_none]; auto.
  destruct g; reflexivity.
Qed.
End Image.

(* ------------------------------------------------------------------------------------------- *)
(* Part C: the tables, origin() on the image                                                     *)
(* ------------------------------------------------------------------------------------------- *)
Lemma ity_eqb_simple : forall x k, I.ity_eqb x k = true -> simple_key k = true -> simple_key x = true.
Proof. intros x k H Hk. destruct k; try discriminate Hk; destruct x; cbn in H; try discriminate H; reflexivity. Qed.

Lemma assoc_simple : forall (m : list (I.ity * I.ity)) x,
  forallb (fun kv => simple_key (fst kv)) m = true -> simple_key x = false -> I.assoc_ity x m = None.
Proof.
  induction m as [|[k v] r IH]; intros x Hm Hx; [reflexivity|].
  cbn in Hm. apply andb_prop in Hm. destruct Hm as [Hk Hr]. cbn [I.assoc_ity].
  destruct (I.ity_eqb x k) eqn:He.
  - rewrite (ity_eqb_simple _ _ He Hk) in Hx. discriminate.
  - apply IH; assumption.
Qed.

Lemma mem_simple : forall (l : list I.ity) x,
  forallb simple_key l = true -> simple_key x = false -> I.mem_ity x l = false.
Proof.
  induction l as [|k r IH]; intros x Hl Hx; [reflexivity|].
  cbn in Hl. apply andb_prop in Hl. destruct Hl as [Hk Hr]. unfold I.mem_ity. cbn [existsb].
  destruct (I.ity_eqb x k) eqn:He.
  - rewrite (ity_eqb_simple _ _ He Hk) in Hx. discriminate.
  - cbn. apply IH; assumption.
Qed.

Lemma in_all_scalars : forall s, In s all_scalars.
Proof. destruct s; cbn; tauto. Qed.
Lemma in_all_gens : forall g, In g all_gens.
Proof. destruct g; cbn; tauto. Qed.

Lemma og_plain_union : forall o, og_plain o = true -> I.isunionorigin o = false.
Proof. intros o H. unfold og_plain in H. apply andb_prop in H. destruct H as [H _]. apply negb_true_iff in H. exact H. Qed.
Lemma og_plain_special : forall o s, og_plain o = true -> I.ity_eqb o (I.ISpecial s) = false.
Proof.
  intros o s H. unfold og_plain in H. apply andb_prop in H. destruct H as [_ H].
  destruct o; try reflexivity. discriminate H.
Qed.

Ltac split_base H := unfold base_ok in H; repeat (apply andb_prop in H; let X := fresh "Hb" in destruct H as [H X]).

Section Bridge.
Variable T : I.tables.
Variable Nm : names.
Variable E : G.env.
Hypothesis Hbase : base_ok T Nm = true.
Hypothesis Hrows : rows_ok T Nm E.

Lemma base_tables_ok : IS.tables_ok T = true.
Proof. pose proof Hbase as H. split_base H. assumption. Qed.
Lemma base_scalar : forall s, scalar_ok T Nm s = true.
Proof.
  pose proof Hbase as H. split_base H. intro s.
  match goal with X : forallb (scalar_ok T Nm) all_scalars = true |- _ => rewrite forallb_forall in X; apply X end.
  apply in_all_scalars.
Qed.
Lemma base_gen : forall g, gen_ok T Nm g = true.
Proof.
  pose proof Hbase as H. split_base H. intro g.
  match goal with X : forallb (gen_ok T Nm) all_gens = true |- _ => rewrite forallb_forall in X; apply X end.
  apply in_all_gens.
Qed.
Lemma base_map_simple : forallb (fun kv => simple_key (fst kv)) (I.t_generic_map T) = true.
Proof. pose proof Hbase as H. split_base H. assumption. Qed.
Lemma base_unres_simple : forallb simple_key (I.t_unresolvable T) = true.
Proof. pose proof Hbase as H. split_base H. assumption. Qed.

Ltac sc_fact s := let H := fresh "Hs" in pose proof (base_scalar s) as H; unfold scalar_ok in H; cbv zeta in H;
  repeat (apply andb_prop in H; let X := fresh "Hsc" in destruct H as [H X]).
Ltac gen_fact g := let H := fresh "Hg" in pose proof (base_gen g) as H; unfold gen_ok in H; cbv zeta in H;
  repeat (apply andb_prop in H; let X := fresh "Hgn" in destruct H as [H X]).

Lemma fresh_parts : forall c, let k := n_cls Nm c in
  I.memN k (I.t_builtin T) = false /\ I.memN k (I.t_stdlib T) = false
  /\ I.assoc_ity (I.IClass k) (I.t_generic_map T) = None
  /\ I.mem_ity (I.IClass k) (I.t_unresolvable T) = false
  /\ N.eqb k I.c_UnionType = false /\ N.eqb k I.c_NoneType = false /\ N.eqb k I.c_Any = false
  /\ N.eqb k I.c_Generic = false.
Proof.
  intros c k. destruct (Hrows c) as [H _]. fold k in H. unfold fresh_cls in H.
  repeat (apply andb_prop in H; let X := fresh "Hf" in destruct H as [H X]).
  repeat match goal with X : negb _ = true |- _ => apply negb_true_iff in X end.
  destruct (I.assoc_ity (I.IClass k) (I.t_generic_map T)); [discriminate|].
  repeat split; assumption.
Qed.

Lemma sid_not_any : forall s, N.eqb (sid Nm s) I.c_Any = false.
Proof. intro s. sc_fact s. repeat match goal with X : negb _ = true |- _ => apply negb_true_iff in X end. assumption. Qed.
Lemma sid_not_none : forall s, N.eqb (sid Nm s) I.c_NoneType = false.
Proof. intro s. sc_fact s. repeat match goal with X : negb _ = true |- _ => apply negb_true_iff in X end. assumption. Qed.
Lemma cls_not_any : forall c, N.eqb (n_cls Nm c) I.c_Any = false.
Proof. intro c. apply (fresh_parts c). Qed.
Lemma cls_not_none : forall c, N.eqb (n_cls Nm c) I.c_NoneType = false.
Proof. intro c. apply (fresh_parts c). Qed.

Definition tr_any := tr_is_any Nm cls_not_any sid_not_any.
Definition tr_nullarg := tr_is_nullarg Nm cls_not_none sid_not_none.

(* ---- finish (the tail of origin()) *)
Lemma iscallable_nonclass : forall x, I.is_class x = false -> I.is_routine T x = false ->
  I.ity_eqb x (I.ITyping I.ta_Callable) = false -> I.issubclass_raw T x [I.c_abcCallable] = I.Raise I.EType ->
  I.iscallable T x = false.
Proof.
  intros x _ Hr He Hs. unfold I.iscallable, I.safe_issubclass. rewrite Hr, He, Hs. reflexivity.
Qed.

Lemma finish_class_fresh : forall c, IS.finish T (I.IClass (n_cls Nm c)) = I.IClass (n_cls Nm c).
Proof.
  intro c. destruct (fresh_parts c) as [Hb [_ [Hg _]]].
  unfold IS.finish, I.isbuiltintype, I.check_generics.
  cbn [I.resolve_supertype I.in_builtin I.type_in I.type_of]. rewrite Hb, Hg. cbn [orb I.is_class negb].
  rewrite andb_false_r. reflexivity.
Qed.

Lemma finish_value : forall s, IS.finish T (I.IValue (I.LStr s)) = I.IValue (I.LStr s).
Proof.
  intro s. unfold IS.finish.
  assert (Hc : forall x, x = I.IValue (I.LStr s) -> I.iscallable T x = false).
  { intros x ->. reflexivity. }
  destruct (I.isbuiltintype T (I.IValue (I.LStr s))).
  - rewrite (Hc _ eq_refl). reflexivity.
  - unfold I.check_generics.
    rewrite (assoc_simple _ (I.IValue (I.LStr s)) base_map_simple eq_refl). rewrite (Hc _ eq_refl). reflexivity.
Qed.

Lemma finish_ref : forall a mo, IS.finish T (I.IForwardRef a mo) = I.IForwardRef a mo.
Proof.
  intros a mo. unfold IS.finish, I.isbuiltintype, I.check_generics.
  cbn [I.resolve_supertype I.in_builtin I.type_in I.type_of orb].
  rewrite (assoc_simple _ (I.IForwardRef a mo) base_map_simple eq_refl). reflexivity.
Qed.

(* ---- origin() *)
Definition head (x : I.ity) : I.ity := match I.get_origin T x with Some o => o | None => x end.

Lemma origin_tr : forall t, I.origin T (tr Nm t) = IS.finish T (head (rw_image Nm (wcore t))).
Proof.
  intro t. unfold I.origin. cbv zeta.
  assert (Hcv : I.isclassvartype (I.resolve_supertype (tr Nm t)) = false).
  { rewrite resolve_supertype_tr. apply isclassvartype_tr. }
  rewrite Hcv. rewrite resolve_wrappers_resolve. rewrite resolve_wrappers_tr. reflexivity.
Qed.

Lemma head_class : forall c, head (I.IClass c) = I.IClass c.
Proof. intro c. unfold head. cbn [I.get_origin]. destruct (N.eqb c I.c_Generic); reflexivity. Qed.

Lemma head_gen : forall g a, head (tr_gen Nm g a) = I.IClass (gen_origin T Nm g).
Proof. intros g a. destruct g; reflexivity. Qed.

Definition union_og (sp : G.uspell) : I.ity :=
  match sp with G.UPipe => I.IClass I.c_UnionType | _ => I.ISpecial I.SUnion end.

Lemma finish_union : forall sp, IS.finish T (union_og sp) = union_og sp.
Proof.
  intro sp. destruct (tables_ok_parts T base_tables_ok) as [_ [_ [_ [H1 H2]]]]. destruct sp; assumption.
Qed.

Lemma base_finish_lit : IS.finish T (I.ISpecial I.SLiteral) = I.ISpecial I.SLiteral.
Proof.
  pose proof Hbase as H. split_base H.
  match goal with X : beq_ity (IS.finish T (I.ISpecial I.SLiteral)) _ = true |- _ => revert X end.
  unfold beq_ity. destruct (IS.finish T (I.ISpecial I.SLiteral)); cbn; try discriminate.
  destruct s; cbn; try discriminate. reflexivity.
Qed.
Lemma base_finish_final : IS.finish T (I.ISpecial I.SFinal) = I.ISpecial I.SFinal.
Proof.
  pose proof Hbase as H. split_base H.
  match goal with X : beq_ity (IS.finish T (I.ISpecial I.SFinal)) _ = true |- _ => revert X end.
  unfold beq_ity. destruct (IS.finish T (I.ISpecial I.SFinal)); cbn; try discriminate.
  destruct s; cbn; try discriminate. reflexivity.
Qed.

(* the origin of an annotation, by what its wrapper chain ends in *)
Definition origin_spec (k : G.gty) (o : I.ity) : Prop :=
  match k with
  | G.GUnion sp _ => o = union_og sp
  | G.GLit _ => o = I.ISpecial I.SLiteral
  | G.GFinal _ => o = I.ISpecial I.SFinal
  | _ => og_plain o = true
  end.

Lemma origin_core : forall t, origin_spec (wcore t) (I.origin T (tr Nm t)).
Proof.
  intro t. rewrite origin_tr. pose proof (wcore_not_wrapper t) as Hw.
  destruct (wcore t) as [s| | | |n|g a|sp ms|c|m n x|m n x|m n bd|x|a mo]; cbn [origin_spec rw_image tr].
  - rewrite head_class. sc_fact s. assumption.
  - rewrite head_class. pose proof Hbase as H. split_base H. assumption.
  - unfold head. cbn [I.get_origin]. pose proof Hbase as H. split_base H. assumption.
  - rewrite head_class. pose proof Hbase as H. split_base H. assumption.
  - unfold head. cbn [I.get_origin]. apply base_finish_lit.
  - rewrite head_gen. gen_fact g. assumption.
  - replace (head (I.IUnion (tr_sp sp) (map (tr Nm) ms))) with (union_og sp) by (destruct sp; reflexivity).
    apply finish_union.
  - rewrite head_class, finish_class_fresh. unfold og_plain. cbn [I.isunionorigin is_special negb].
    destruct (fresh_parts c) as [_ [_ [_ [_ [Hu _]]]]]. rewrite Hu. reflexivity.
  - discriminate Hw.
  - discriminate Hw.
  - unfold head. cbn [I.get_origin]. rewrite finish_value. reflexivity.
  - unfold head. cbn [I.get_origin]. apply base_finish_final.
  - unfold head. cbn [I.get_origin]. rewrite finish_ref. reflexivity.
Qed.

Lemma isuniontype_tr : forall t, I.isuniontype T (tr Nm t) = G.is_union (wcore t).
Proof.
  intro t. unfold I.isuniontype. pose proof (origin_core t) as H.
  destruct (wcore t); cbn [origin_spec G.is_union] in *; try (apply og_plain_union; assumption);
    rewrite H; try reflexivity.
  destruct sp; reflexivity.
Qed.

Lemma isfinal_tr : forall t, I.isfinal T (tr Nm t) = is_final (wcore t).
Proof.
  intro t. unfold I.isfinal. pose proof (origin_core t) as H.
  destruct (wcore t); cbn [origin_spec is_final] in *; try (apply og_plain_special; assumption);
    rewrite H; try reflexivity.
  destruct sp; reflexivity.
Qed.

Lemma isliteral_tr : forall t, I.isliteral T (tr Nm t) = G.is_literal (wcore t) || ref_literal t.
Proof.
  intro t. unfold I.isliteral.
  assert (Hr : match tr Nm t with I.IForwardRef a _ => I.prefixb "Literal" a | _ => false end = ref_literal t).
  { destruct t; try reflexivity. cbn [tr]. destruct g; reflexivity. }
  rewrite Hr. f_equal. pose proof (origin_core t) as H.
  destruct (wcore t); cbn [origin_spec G.is_literal] in *; try (apply og_plain_special; assumption);
    rewrite H; try reflexivity.
  destruct sp; reflexivity.
Qed.

Lemma dunder_args_tr : forall t,
  I.dunder_args (tr Nm t) =
  match t with
  | G.GGen _ a => Some (map (tr Nm) a)
  | G.GUnion _ ms => Some (map (tr Nm) ms)
  | G.GLit n => Some [I.IValue (I.LInt (Z.of_nat n))]
  | G.GFinal x => Some [tr Nm x]
  | _ => None
  end.
Proof. destruct t; try reflexivity. cbn [tr]. destruct g; reflexivity. Qed.

Lemma existsb_nullarg_tr : forall l, existsb I.is_nullarg (map (tr Nm) l) = existsb is_none l.
Proof. induction l as [|x r IH]; [reflexivity|]. cbn [map existsb]. rewrite tr_nullarg, IH. reflexivity. Qed.

Lemma isoptionaltype_tr : forall t,
  I.isoptionaltype T (tr Nm t) = match t with G.GUnion _ ms => existsb is_none ms | _ => false end.
Proof.
  intro t. unfold I.isoptionaltype. cbv zeta. rewrite dunder_args_tr.
  pose proof (origin_core t) as H.
  destruct t as [s| | | |n|g a|sp ms|c|m n x|m n x|m n bd|x|a mo];
    try (cbn [wcore origin_spec] in H;
         first [ rewrite (og_plain_special _ I.SOptional H), (og_plain_special _ I.SLiteral H), (og_plain_union _ H)
               | rewrite H ];
         cbn; rewrite ?andb_false_r; reflexivity).
  - (* union *) cbn [wcore origin_spec] in H. rewrite H. rewrite existsb_nullarg_tr.
    destruct sp; cbn; rewrite ?andb_true_r; reflexivity.
  - (* NewType *) cbn [existsb andb orb]. rewrite orb_false_r.
    cbn [wcore] in H. destruct (wcore x); cbn [origin_spec] in H;
      try (apply og_plain_special; assumption); rewrite H; try reflexivity. destruct sp; reflexivity.
  - (* alias *) cbn [existsb andb orb]. rewrite orb_false_r.
    cbn [wcore] in H. destruct (wcore x); cbn [origin_spec] in H;
      try (apply og_plain_special; assumption); rewrite H; try reflexivity. destruct sp; reflexivity.
Qed.
End Bridge.
