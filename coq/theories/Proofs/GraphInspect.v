(* Proof scripts of the bridge Graph.v <-> Inspect.v (definitions: Model/GraphInspect.v).
   Part A: strings.  Part B: the image of [tr].  Part C: origin() on the image.  Part D: the agreement lemmas
   (one per local predicate of Graph.v).  Part E: rows as a function of Graph's environment. *)
From Coq Require Import List Arith Bool NArith ZArith String Ascii Lia.
Import ListNotations.
Require Import TL.Model.GraphInspect TL.Proofs.GraphLemmas TL.Proofs.InspectLemmas.

Local Open Scope string_scope.
Local Open Scope list_scope.
Local Notation "a +++ b" := (String.append a b) (right associativity, at level 60).

(* ------------------------------------------------------------------------------------------- *)
(* Part A: strings                                                                               *)
(* ------------------------------------------------------------------------------------------- *)
Lemma has_char_GI : forall c s, G.has_char c s = I.has_char c s.
Proof.
  induction s as [|a r IH]; cbn; [reflexivity|]. rewrite IH. rewrite Ascii.eqb_sym. reflexivity.
Qed.

Lemma has_char_app : forall c a b, I.has_char c (a +++ b) = I.has_char c a || I.has_char c b.
Proof. induction a as [|x r IH]; intros b; cbn; [reflexivity|]. rewrite IH. apply orb_assoc. Qed.

Lemma sapp_G : forall a b, G.sapp a b = a +++ b.
Proof. reflexivity. Qed.
Lemma sapp_I : forall a b, I.sapp a b = a +++ b.
Proof. reflexivity. Qed.

Lemma before_char_GI : forall c s, G.before_char c s = I.before_char c s.
Proof.
  intros c s. unfold G.before_char.
  induction s as [|a r IH]; cbn; [reflexivity|].
  rewrite (Ascii.eqb_sym c a). destruct (Ascii.eqb a c); [reflexivity|].
  destruct (G.split_first c r) as [[x y]|]; cbn in *; rewrite <- IH; reflexivity.
Qed.

Lemma before_char_none : forall c s, I.has_char c s = false -> I.before_char c s = s.
Proof.
  induction s as [|a r IH]; cbn; [reflexivity|]. intro H. apply orb_false_elim in H. destruct H as [H1 H2].
  rewrite H1. rewrite (IH H2). reflexivity.
Qed.

Lemma before_char_app : forall c a r, I.has_char c a = false -> I.before_char c (a +++ String c r) = a.
Proof.
  induction a as [|x s IH]; intros r H; cbn.
  - rewrite Ascii.eqb_refl. reflexivity.
  - cbn in H. apply orb_false_elim in H. destruct H as [H1 H2]. rewrite H1. rewrite (IH r H2). reflexivity.
Qed.

Lemma prefix_GI : forall p s,
  match G.strip_prefix p s with Some _ => true | None => false end = I.prefixb p s.
Proof.
  induction p as [|a p IH]; intros s; cbn; [reflexivity|].
  destruct s as [|b s]; [reflexivity|]. destruct (Ascii.eqb a b); cbn; [apply IH | reflexivity].
Qed.

Lemma generic_text_GI : forall s, G.generic_text s = I.prefixb "typing." s || I.has_char "["%char s.
Proof.
  intro s. unfold G.generic_text. rewrite <- (prefix_GI "typing." s). rewrite has_char_GI.
  destruct (G.strip_prefix "typing." s); reflexivity.
Qed.

(* joins: a separator without "[" *)
Lemma has_char_join_G : forall sep l, I.has_char "["%char sep = false ->
  I.has_char "["%char (G.join sep l) = existsb (I.has_char "["%char) l.
Proof.
  intros sep l Hs. induction l as [|x r IH]; [reflexivity|].
  destruct r as [|y r'].
  - cbn. rewrite orb_false_r. reflexivity.
  - change (G.join sep (x :: y :: r')) with (x +++ sep +++ G.join sep (y :: r')).
    rewrite !has_char_app, Hs, IH. reflexivity.
Qed.

Lemma strip_prefix_GI : forall p s, G.strip_prefix p s = I.strip_prefix p s.
Proof.
  induction p as [|a p IH]; intros s; cbn; [reflexivity|].
  destruct s as [|b s]; [reflexivity|]. destruct (Ascii.eqb a b); [apply IH | reflexivity].
Qed.
Lemma word_char_GI : forall c, G.word_char c = I.word_char c.
Proof. reflexivity. Qed.
Lemma last_lead_ok_GI : forall p, G.last_lead_ok p = I.last_lead_ok p.
Proof. induction p as [|c r IH]; [reflexivity|]. cbn. destruct r; [reflexivity | exact IH]. Qed.
Lemma remove_lead_fuel_GI : forall n ok p s, G.remove_lead_fuel n ok p s = I.remove_lead_fuel n ok p s.
Proof.
  induction n as [|k IH]; intros ok p s; cbn [G.remove_lead_fuel I.remove_lead_fuel]; [reflexivity|].
  destruct s as [|c r]; [reflexivity|]. rewrite strip_prefix_GI, last_lead_ok_GI.
  destruct ok; [destruct (I.strip_prefix p (String c r))|]; rewrite IH; reflexivity.
Qed.
Lemma remove_lead_GI : forall p s, G.remove_lead p s = I.remove_lead p s.
Proof. intros p s. unfold G.remove_lead, I.remove_lead. destruct p; [reflexivity|]. apply remove_lead_fuel_GI. Qed.

Lemma nb_app : forall a b, nb (a +++ b) = nb a && nb b.
Proof. intros. unfold nb. rewrite has_char_app. apply negb_orb. Qed.

(* ------------------------------------------------------------------------------------------- *)
(* Part B: the image of tr                                                                       *)
(* ------------------------------------------------------------------------------------------- *)
Section Image.
Variable Nm : names.

Lemma tr_gen_cases : forall g a,
  (exists c, tr_gen Nm g a = I.IClassSub c a) \/ (exists al, tr_gen Nm g a = I.ITypingSub al a).
Proof. intros g a. destruct g; cbn; eauto. Qed.

Lemma tr_not_typevar : forall t, I.normalize_typevar (tr Nm t) = tr Nm t.
Proof. destruct t; try reflexivity. cbn [tr]. destruct g; reflexivity. Qed.

Lemma map_normalize_tr : forall l, map I.normalize_typevar (map (tr Nm) l) = map (tr Nm) l.
Proof. induction l as [|x r IH]; cbn [map]; [reflexivity|]. rewrite tr_not_typevar, IH. reflexivity. Qed.

Lemma resolve_supertype_tr : forall t, I.resolve_supertype (tr Nm t) = tr Nm (G.resolve_super t).
Proof.
  induction t using gty_ind'; try reflexivity.
  - cbn [tr]. destruct g; reflexivity.
  - cbn [tr G.resolve_super I.resolve_supertype]. assumption.
Qed.

Lemma isclassvartype_tr : forall t, I.isclassvartype (tr Nm t) = false.
Proof.
  intro t. unfold I.isclassvartype. rewrite resolve_supertype_tr.
  destruct (G.resolve_super t); try reflexivity. cbn [tr]. destruct g; reflexivity.
Qed.

(* what _resolve_wrappers reaches *)
Definition rw_image (k : G.gty) : I.ity :=
  match k with G.GAliasStr _ _ s => I.IValue (I.LStr s) | _ => tr Nm k end.
Lemma resolve_wrappers_tr : forall t, I.resolve_wrappers (tr Nm t) = rw_image (wcore t).
Proof.
  induction t using gty_ind'; try reflexivity.
  - cbn [tr wcore rw_image]. destruct g; reflexivity.
  - cbn [tr wcore I.resolve_wrappers]. assumption.
  - cbn [tr wcore I.resolve_wrappers]. assumption.
Qed.

Lemma wcore_not_wrapper : forall t, is_wrapper (wcore t) = false.
Proof. induction t using gty_ind'; cbn; auto. Qed.
Lemma wcore_idem : forall t, wcore (wcore t) = wcore t.
Proof. induction t using gty_ind'; cbn; auto. Qed.
Lemma wcore_plain : forall t, is_wrapper t = false -> wcore t = t.
Proof. destruct t; cbn; intros; try reflexivity; discriminate. Qed.

Lemma type_of_tr : forall t, I.type_of (tr Nm t) = None.
Proof. destruct t; try reflexivity. cbn [tr]. destruct g; reflexivity. Qed.

(* tr reflects the three objects graph.py compares by identity / equality *)
Hypothesis Hfresh_any : forall c, N.eqb (n_cls Nm c) I.c_Any = false.
Hypothesis Hfresh_none : forall c, N.eqb (n_cls Nm c) I.c_NoneType = false.
Hypothesis Hsc_any : forall s, N.eqb (sid Nm s) I.c_Any = false.
Hypothesis Hsc_none : forall s, N.eqb (sid Nm s) I.c_NoneType = false.

Lemma tr_is_ellipsis : forall t, I.ity_eqb (tr Nm t) I.IEllipsis = is_ellipsis t.
Proof. destruct t; try reflexivity. cbn [tr]. destruct g; reflexivity. Qed.
Lemma tr_is_any : forall t, I.ity_eqb (tr Nm t) (I.IClass I.c_Any) = is_any t.
Proof.
  destruct t; try reflexivity; cbn [tr I.ity_eqb is_any]; auto.
  destruct g; reflexivity.
Qed.
Lemma tr_is_nullarg : forall t, I.is_nullarg (tr Nm t) = is_none t.
Proof.
  destruct t; try reflexivity; cbn [tr I.is_nullarg is_none]; auto.
  destruct g; reflexivity.
Qed.
End Image.

(* ------------------------------------------------------------------------------------------- *)
(* Part C: the tables, origin() on the image                                                     *)
(* ------------------------------------------------------------------------------------------- *)
Lemma ity_eqb_simple : forall x k, I.ity_eqb x k = true -> simple_key k = true -> simple_key x = true.
Proof. intros x k H Hk. destruct k; try discriminate Hk; destruct x; cbn in H; try discriminate H; reflexivity. Qed.

Lemma assoc_simple : forall (m : list (I.ity * I.ity)) x,
  forallb (fun kv => simple_key (fst kv)) m = true -> simple_key x = false -> I.assoc_ity x m = None.
Proof.
  induction m as [|[k v] r IH]; intros x Hm Hx; [reflexivity|].
  cbn in Hm. apply andb_prop in Hm. destruct Hm as [Hk Hr]. cbn [I.assoc_ity].
  destruct (I.ity_eqb x k) eqn:He.
  - rewrite (ity_eqb_simple _ _ He Hk) in Hx. discriminate.
  - apply IH; assumption.
Qed.

Lemma mem_simple : forall (l : list I.ity) x,
  forallb simple_key l = true -> simple_key x = false -> I.mem_ity x l = false.
Proof.
  induction l as [|k r IH]; intros x Hl Hx; [reflexivity|].
  cbn in Hl. apply andb_prop in Hl. destruct Hl as [Hk Hr]. unfold I.mem_ity. cbn [existsb].
  destruct (I.ity_eqb x k) eqn:He.
  - rewrite (ity_eqb_simple _ _ He Hk) in Hx. discriminate.
  - cbn. apply IH; assumption.
Qed.

Lemma in_all_scalars : forall s, In s all_scalars.
Proof. destruct s; cbn; tauto. Qed.
Lemma in_all_gens : forall g, In g all_gens.
Proof. destruct g; cbn; tauto. Qed.

Lemma og_plain_union : forall o, og_plain o = true -> I.isunionorigin o = false.
Proof. intros o H. unfold og_plain in H. apply andb_prop in H. destruct H as [H _]. apply negb_true_iff in H. exact H. Qed.
Lemma og_plain_special : forall o s, og_plain o = true -> I.ity_eqb o (I.ISpecial s) = false.
Proof.
  intros o s H. unfold og_plain in H. apply andb_prop in H. destruct H as [_ H].
  destruct o; try reflexivity. discriminate H.
Qed.

Ltac split_base H := unfold base_ok in H; repeat (apply andb_prop in H; let X := fresh "Hb" in destruct H as [H X]).

Section Bridge.
Variable T : I.tables.
Variable Nm : names.
Variable E : G.env.
Hypothesis Hbase : base_ok T Nm = true.
Hypothesis Hrows : rows_ok T Nm E.

Lemma base_tables_ok : IS.tables_ok T = true.
Proof. pose proof Hbase as H. split_base H. assumption. Qed.
Lemma base_scalar : forall s, scalar_ok T Nm s = true.
Proof.
  pose proof Hbase as H. split_base H. intro s.
  match goal with X : forallb (scalar_ok T Nm) all_scalars = true |- _ => rewrite forallb_forall in X; apply X end.
  apply in_all_scalars.
Qed.
Lemma base_gen : forall g, gen_ok T Nm g = true.
Proof.
  pose proof Hbase as H. split_base H. intro g.
  match goal with X : forallb (gen_ok T Nm) all_gens = true |- _ => rewrite forallb_forall in X; apply X end.
  apply in_all_gens.
Qed.
Lemma base_map_simple : forallb (fun kv => simple_key (fst kv)) (I.t_generic_map T) = true.
Proof. pose proof Hbase as H. split_base H. assumption. Qed.
Lemma base_unres_simple : forallb simple_key (I.t_unresolvable T) = true.
Proof. pose proof Hbase as H. split_base H. assumption. Qed.

Ltac sc_fact s := let H := fresh "Hs" in pose proof (base_scalar s) as H; unfold scalar_ok in H; cbv zeta in H;
  repeat (apply andb_prop in H; let X := fresh "Hsc" in destruct H as [H X]).
Ltac gen_fact g := let H := fresh "Hg" in pose proof (base_gen g) as H; unfold gen_ok in H; cbv zeta in H;
  repeat (apply andb_prop in H; let X := fresh "Hgn" in destruct H as [H X]).

Lemma fresh_parts : forall c, let k := n_cls Nm c in
  I.memN k (I.t_builtin T) = false /\ I.memN k (I.t_stdlib T) = false
  /\ I.assoc_ity (I.IClass k) (I.t_generic_map T) = None
  /\ I.mem_ity (I.IClass k) (I.t_unresolvable T) = false
  /\ N.eqb k I.c_UnionType = false /\ N.eqb k I.c_NoneType = false /\ N.eqb k I.c_Any = false
  /\ N.eqb k I.c_Generic = false.
Proof.
  intros c k. destruct (Hrows c) as [H _]. fold k in H. unfold fresh_cls in H.
  repeat (apply andb_prop in H; let X := fresh "Hf" in destruct H as [H X]).
  repeat match goal with X : negb _ = true |- _ => apply negb_true_iff in X end.
  destruct (I.assoc_ity (I.IClass k) (I.t_generic_map T)); [discriminate|].
  repeat split; assumption.
Qed.

Lemma sid_not_any : forall s, N.eqb (sid Nm s) I.c_Any = false.
Proof. intro s. sc_fact s. repeat match goal with X : negb _ = true |- _ => apply negb_true_iff in X end. assumption. Qed.
Lemma sid_not_none : forall s, N.eqb (sid Nm s) I.c_NoneType = false.
Proof. intro s. sc_fact s. repeat match goal with X : negb _ = true |- _ => apply negb_true_iff in X end. assumption. Qed.
Lemma cls_not_any : forall c, N.eqb (n_cls Nm c) I.c_Any = false.
Proof. intro c. apply (fresh_parts c). Qed.
Lemma cls_not_none : forall c, N.eqb (n_cls Nm c) I.c_NoneType = false.
Proof. intro c. apply (fresh_parts c). Qed.

Definition tr_any := tr_is_any Nm cls_not_any sid_not_any.
Definition tr_nullarg := tr_is_nullarg Nm cls_not_none sid_not_none.

(* ---- finish (the tail of origin()) *)
Lemma iscallable_nonclass : forall x, I.is_class x = false -> I.is_routine T x = false ->
  I.ity_eqb x (I.ITyping I.ta_Callable) = false -> I.issubclass_raw T x [I.c_abcCallable] = I.Raise I.EType ->
  I.iscallable T x = false.
Proof.
  intros x _ Hr He Hs. unfold I.iscallable, I.safe_issubclass. rewrite Hr, He, Hs. reflexivity.
Qed.

Lemma finish_class_fresh : forall c, IS.finish T (I.IClass (n_cls Nm c)) = I.IClass (n_cls Nm c).
Proof.
  intro c. destruct (fresh_parts c) as [Hb [_ [Hg _]]].
  unfold IS.finish, I.isbuiltintype, I.check_generics.
  cbn [I.resolve_supertype I.in_builtin I.type_in I.type_of]. rewrite Hb, Hg. cbn [orb I.is_class negb].
  rewrite andb_false_r. reflexivity.
Qed.

Lemma finish_value : forall s, IS.finish T (I.IValue (I.LStr s)) = I.IValue (I.LStr s).
Proof.
  intro s. unfold IS.finish.
  assert (Hc : forall x, x = I.IValue (I.LStr s) -> I.iscallable T x = false).
  { intros x ->. reflexivity. }
  destruct (I.isbuiltintype T (I.IValue (I.LStr s))).
  - rewrite (Hc _ eq_refl). reflexivity.
  - unfold I.check_generics.
    rewrite (assoc_simple _ (I.IValue (I.LStr s)) base_map_simple eq_refl). rewrite (Hc _ eq_refl). reflexivity.
Qed.

Lemma finish_ref : forall a mo, IS.finish T (I.IForwardRef a mo) = I.IForwardRef a mo.
Proof.
  intros a mo. unfold IS.finish, I.isbuiltintype, I.check_generics.
  cbn [I.resolve_supertype I.in_builtin I.type_in I.type_of orb].
  rewrite (assoc_simple _ (I.IForwardRef a mo) base_map_simple eq_refl). reflexivity.
Qed.

(* ---- origin() *)
Definition head (x : I.ity) : I.ity := match I.get_origin T x with Some o => o | None => x end.

Lemma origin_tr : forall t, I.origin T (tr Nm t) = IS.finish T (head (rw_image Nm (wcore t))).
Proof.
  intro t. unfold I.origin. cbv zeta.
  assert (Hcv : I.isclassvartype (I.resolve_supertype (tr Nm t)) = false).
  { rewrite resolve_supertype_tr. apply isclassvartype_tr. }
  rewrite Hcv. rewrite resolve_wrappers_resolve. rewrite resolve_wrappers_tr. reflexivity.
Qed.

Lemma head_class : forall c, head (I.IClass c) = I.IClass c.
Proof. intro c. unfold head. cbn [I.get_origin]. destruct (N.eqb c I.c_Generic); reflexivity. Qed.

Lemma head_gen : forall g a, head (tr_gen Nm g a) = I.IClass (gen_origin T Nm g).
Proof. intros g a. destruct g; reflexivity. Qed.

Definition union_og (sp : G.uspell) : I.ity :=
  match sp with G.UPipe => I.IClass I.c_UnionType | _ => I.ISpecial I.SUnion end.

Lemma finish_union : forall sp, IS.finish T (union_og sp) = union_og sp.
Proof.
  intro sp. destruct (tables_ok_parts T base_tables_ok) as [_ [_ [_ [H1 H2]]]]. destruct sp; assumption.
Qed.

Lemma base_finish_lit : IS.finish T (I.ISpecial I.SLiteral) = I.ISpecial I.SLiteral.
Proof.
  pose proof Hbase as H. split_base H.
  match goal with X : beq_ity (IS.finish T (I.ISpecial I.SLiteral)) _ = true |- _ => revert X end.
  unfold beq_ity. destruct (IS.finish T (I.ISpecial I.SLiteral)); cbn; try discriminate.
  destruct s; cbn; try discriminate. reflexivity.
Qed.
Lemma base_finish_final : IS.finish T (I.ISpecial I.SFinal) = I.ISpecial I.SFinal.
Proof.
  pose proof Hbase as H. split_base H.
  match goal with X : beq_ity (IS.finish T (I.ISpecial I.SFinal)) _ = true |- _ => revert X end.
  unfold beq_ity. destruct (IS.finish T (I.ISpecial I.SFinal)); cbn; try discriminate.
  destruct s; cbn; try discriminate. reflexivity.
Qed.

(* the origin of an annotation, by what its wrapper chain ends in *)
Definition origin_spec (k : G.gty) (o : I.ity) : Prop :=
  match k with
  | G.GUnion sp _ => o = union_og sp
  | G.GLit _ => o = I.ISpecial I.SLiteral
  | G.GFinal _ => o = I.ISpecial I.SFinal
  | _ => og_plain o = true
  end.

Lemma origin_core : forall t, origin_spec (wcore t) (I.origin T (tr Nm t)).
Proof.
  intro t. rewrite origin_tr. pose proof (wcore_not_wrapper t) as Hw.
  destruct (wcore t) as [s| | | |n|g a|sp ms|c|m n x|m n x|m n bd|x|a mo]; cbn [origin_spec rw_image tr].
  - rewrite head_class. sc_fact s. assumption.
  - rewrite head_class. pose proof Hbase as H. split_base H. assumption.
  - unfold head. cbn [I.get_origin]. pose proof Hbase as H. split_base H. assumption.
  - rewrite head_class. pose proof Hbase as H. split_base H. assumption.
  - unfold head. cbn [I.get_origin]. apply base_finish_lit.
  - rewrite head_gen. gen_fact g. assumption.
  - replace (head (I.IUnion (tr_sp sp) (map (tr Nm) ms))) with (union_og sp) by (destruct sp; reflexivity).
    apply finish_union.
  - rewrite head_class, finish_class_fresh. unfold og_plain. cbn [I.isunionorigin is_special negb].
    destruct (fresh_parts c) as [_ [_ [_ [_ [Hu _]]]]]. rewrite Hu. reflexivity.
  - discriminate Hw.
  - discriminate Hw.
  - unfold head. cbn [I.get_origin]. rewrite finish_value. reflexivity.
  - unfold head. cbn [I.get_origin]. apply base_finish_final.
  - unfold head. cbn [I.get_origin]. rewrite finish_ref. reflexivity.
Qed.

Lemma isuniontype_tr : forall t, I.isuniontype T (tr Nm t) = G.is_union (wcore t).
Proof.
  intro t. unfold I.isuniontype. pose proof (origin_core t) as H.
  destruct (wcore t); cbn [origin_spec G.is_union] in *; try (apply og_plain_union; assumption);
    rewrite H; try reflexivity.
  destruct sp; reflexivity.
Qed.

Lemma isfinal_tr : forall t, I.isfinal T (tr Nm t) = is_final (wcore t).
Proof.
  intro t. unfold I.isfinal. pose proof (origin_core t) as H.
  destruct (wcore t); cbn [origin_spec is_final] in *; try (apply og_plain_special; assumption);
    rewrite H; try reflexivity.
  destruct sp; reflexivity.
Qed.

Lemma isliteral_tr : forall t, I.isliteral T (tr Nm t) = lit_core t || ref_literal t.
Proof.
  intro t. unfold I.isliteral, lit_core.
  assert (Hr : match tr Nm t with I.IForwardRef a _ => I.prefixb "Literal" a | _ => false end = ref_literal t).
  { destruct t; try reflexivity. cbn [tr]. destruct g; reflexivity. }
  rewrite Hr. f_equal. pose proof (origin_core t) as H.
  destruct (wcore t); cbn [origin_spec] in *; try (apply og_plain_special; assumption);
    rewrite H; try reflexivity.
  destruct sp; reflexivity.
Qed.

(* on annotations that are not a NewType / alias (every unwrapped annotation) this is Graph.is_literal *)
Lemma isliteral_plain_tr : forall t, is_wrapper t = false -> I.isliteral T (tr Nm t) = G.is_literal t.
Proof.
  intros t Hw. rewrite isliteral_tr. unfold lit_core. rewrite (wcore_plain t Hw).
  destruct t; try reflexivity; try discriminate Hw.
  cbn [ref_literal G.is_literal orb]. rewrite <- (prefix_GI "Literal" arg). reflexivity.
Qed.

Lemma dunder_args_tr : forall t,
  I.dunder_args (tr Nm t) =
  match t with
  | G.GGen _ a => Some (map (tr Nm) a)
  | G.GUnion _ ms => Some (map (tr Nm) ms)
  | G.GLit n => Some [I.IValue (I.LInt (Z.of_nat n))]
  | G.GFinal x => Some [tr Nm x]
  | _ => None
  end.
Proof. destruct t; try reflexivity. cbn [tr]. destruct g; reflexivity. Qed.

Lemma existsb_nullarg_tr : forall l, existsb I.is_nullarg (map (tr Nm) l) = existsb is_none l.
Proof. induction l as [|x r IH]; [reflexivity|]. cbn [map existsb]. rewrite tr_nullarg, IH. reflexivity. Qed.

Lemma isoptionaltype_tr : forall t,
  I.isoptionaltype T (tr Nm t) = match t with G.GUnion _ ms => existsb is_none ms | _ => false end.
Proof.
  intro t. unfold I.isoptionaltype. cbv zeta. rewrite dunder_args_tr.
  pose proof (origin_core t) as H.
  destruct t as [s| | | |n|g a|sp ms|c|m n x|m n x|m n bd|x|a mo];
    try (cbn [wcore origin_spec] in H;
         first [ rewrite (og_plain_special _ I.SOptional H), (og_plain_special _ I.SLiteral H), (og_plain_union _ H)
               | rewrite H ];
         cbn; rewrite ?andb_false_r; reflexivity).
  - (* union *) cbn [wcore origin_spec] in H. rewrite H. rewrite existsb_nullarg_tr.
    destruct sp; cbn; rewrite ?andb_true_r; reflexivity.
  - (* NewType *) cbn [existsb andb orb]. rewrite orb_false_r.
    cbn [wcore] in H. destruct (wcore x); cbn [origin_spec] in H;
      try (apply og_plain_special; assumption); rewrite H; try reflexivity. destruct sp; reflexivity.
  - (* alias *) cbn [existsb andb orb]. rewrite orb_false_r.
    cbn [wcore] in H. destruct (wcore x); cbn [origin_spec] in H;
      try (apply og_plain_special; assumption); rewrite H; try reflexivity. destruct sp; reflexivity.
Qed.

(* ------------------------------------------------------------------------------------------- *)
(* Part D: agreement, one lemma per local predicate of Graph.v                                   *)
(* ------------------------------------------------------------------------------------------- *)

(* ---- should_unwrap, unwrap *)
Lemma is_literal_tr : forall t,
  match tr Nm t with I.ILiteral _ => true | _ => false end = match t with G.GLit _ => true | _ => false end.
Proof. destruct t; try reflexivity. cbn [tr]. destruct g; reflexivity. Qed.

Lemma should_unwrap_tr : forall t, I.should_unwrap T (tr Nm t) = is_final (wcore t).
Proof.
  intro t. unfold I.should_unwrap. rewrite is_literal_tr, isclassvartype_tr, isfinal_tr. cbn [orb].
  destruct t; try reflexivity.
Qed.

Lemma should_unwrap_wcore : forall t, G.should_unwrap t = is_final (wcore t).
Proof. induction t using gty_ind'; cbn [G.should_unwrap wcore is_final]; auto. Qed.
Lemma should_unwrap_G : forall t, I.should_unwrap T (tr Nm t) = G.should_unwrap t.
Proof. intro t. rewrite should_unwrap_tr, should_unwrap_wcore. reflexivity. Qed.

Lemma unwrap_wcore : forall t, G.unwrap t = G.unwrap (wcore t).
Proof. induction t using gty_ind'; cbn [wcore G.unwrap]; auto. Qed.
Lemma wsize_wcore : forall t, wsize (wcore t) <= wsize t.
Proof. induction t using gty_ind'; cbn [wcore wsize]; auto; lia. Qed.
Lemma wend_wcore : forall t, wend t = wend (wcore t).
Proof. induction t using gty_ind'; cbn [wcore wend]; auto. Qed.

Lemma unwrap_fuel_S : forall k x, I.unwrap_fuel T (S k) x =
  let step := match x with
              | I.IAlias _ v => I.unwrap_fuel T k v
              | I.IAliasStr _ s => I.Ok (I.IForwardRef (I.fref_name I.user_module s) (Some I.user_module))
              | I.INewType _ s => I.unwrap_fuel T k s
              | _ => I.Ok x
              end in
  if I.should_unwrap T x then
    match I.dunder_args (I.resolve_wrappers x) with
    | Some (y :: _) => I.unwrap_fuel T k y
    | _ => step
    end
  else step.
Proof. reflexivity. Qed.

(* the shortcut of the code: the qualifier found behind NewTypes / aliases *)
Lemma unwrap_shortcut : forall k x,
  (forall t, wsize t < k -> unwrap_guard t = true -> I.unwrap_fuel T k (tr Nm t) = I.Ok (tr Nm (G.unwrap t))) ->
  wsize x < k -> unwrap_guard x = true -> is_final (wcore x) = true ->
  match I.dunder_args (rw_image Nm (wcore x)) with
  | Some (y :: _) => I.unwrap_fuel T k y
  | _ => I.Ok (tr Nm x)
  end = I.Ok (tr Nm (G.unwrap x)).
Proof.
  intros k x IH Hsz Hg Hf.
  pose proof (wsize_wcore x) as Hle. pose proof (unwrap_wcore x) as Hu.
  unfold unwrap_guard in Hg. rewrite (wend_wcore x) in Hg.
  destruct (wcore x) as [s| | | |n|g a|sp ms|c|m n y|m n y|m n bd|y|a mo]; try discriminate Hf.
  cbn [rw_image tr I.dunder_args]. cbn [wsize] in Hle. cbn [wend] in Hg. cbn [G.unwrap] in Hu.
  rewrite Hu. apply IH; [lia | exact Hg].
Qed.

Lemma unwrap_fuel_tr : forall n t, wsize t < n -> unwrap_guard t = true ->
  I.unwrap_fuel T n (tr Nm t) = I.Ok (tr Nm (G.unwrap t)).
Proof.
  induction n as [|k IH]; intros t Hsz Hg; [lia|].
  rewrite unwrap_fuel_S. cbv zeta. rewrite should_unwrap_tr, resolve_wrappers_tr.
  destruct t as [s| | | |n|g a|sp ms|c|m n x|m n x|m n bd|x|a mo]; cbn [wcore is_final];
    try reflexivity.
  - (* generic *) cbn [tr G.unwrap]. destruct g; reflexivity.
  - (* NewType *) cbn [wsize] in Hsz. assert (Hgx : unwrap_guard x = true) by exact Hg.
    destruct (is_final (wcore x)) eqn:Hf.
    + cbn [G.unwrap].
      pose proof (unwrap_shortcut k x IH ltac:(lia) Hgx Hf) as Hs.
      destruct (I.dunder_args (rw_image Nm (wcore x))) as [[|y r]|] eqn:Hd.
      * exfalso. destruct (wcore x); try discriminate Hf. discriminate Hd.
      * exact Hs.
      * exfalso. destruct (wcore x); try discriminate Hf. discriminate Hd.
    + cbn [tr G.unwrap]. apply IH; [lia | exact Hgx].
  - (* alias *) cbn [wsize] in Hsz. assert (Hgx : unwrap_guard x = true) by exact Hg.
    destruct (is_final (wcore x)) eqn:Hf.
    + cbn [G.unwrap].
      pose proof (unwrap_shortcut k x IH ltac:(lia) Hgx Hf) as Hs.
      destruct (I.dunder_args (rw_image Nm (wcore x))) as [[|y r]|] eqn:Hd.
      * exfalso. destruct (wcore x); try discriminate Hf. discriminate Hd.
      * exact Hs.
      * exfalso. destruct (wcore x); try discriminate Hf. discriminate Hd.
    + cbn [tr G.unwrap]. apply IH; [lia | exact Hgx].
  - (* string alias *) cbn [tr G.unwrap]. unfold unwrap_guard in Hg. cbn [wend] in Hg.
    apply String.eqb_eq in Hg. subst m. unfold I.fref_name. rewrite <- remove_lead_GI. reflexivity.
  - (* Final *) cbn [rw_image tr I.dunder_args G.unwrap]. cbn [wsize] in Hsz. apply IH; [lia | exact Hg].
Qed.

(* ---- args *)
Lemma get_args_gen : forall g l, I.get_args (tr_gen Nm g l) = l.
Proof. destruct g; reflexivity. Qed.

Lemma args_tr : forall t, args_guard t = true -> I.args (tr Nm t) = map (tr Nm) (G.args_of t).
Proof.
  intros t Hg. unfold I.args.
  destruct t; try reflexivity; try discriminate Hg; cbn [tr G.args_of].
  - rewrite get_args_gen. apply map_normalize_tr.
  - cbn [I.get_args]. apply map_normalize_tr.
Qed.

(* without the guard, on every annotation *)
Lemma args_tr_all : forall t,
  I.args (tr Nm t) =
  match t with
  | G.GLit n => [I.IValue (I.LInt (Z.of_nat n))]
  | G.GFinal x => [tr Nm x]
  | _ => map (tr Nm) (G.args_of t)
  end.
Proof.
  intro t. destruct t; try reflexivity; try (apply args_tr; reflexivity).
  cbn [tr]. unfold I.args. cbn [I.get_args map]. rewrite tr_not_typevar. reflexivity.
Qed.

(* ---- isforwardref, skip *)
Lemma isforwardref_tr : forall t, I.isforwardref (tr Nm t) = G.is_ref t.
Proof. destruct t; try reflexivity. cbn [tr]. destruct g; reflexivity. Qed.

Lemma skip_tr : forall var c,
  G.skip var c =
  I.ity_eqb (tr Nm c) I.IEllipsis
  || (I.ity_eqb (tr Nm c) (I.IClass I.c_Any) && match var with Some _ => true | None => false end).
Proof.
  intros var c. rewrite tr_is_ellipsis, tr_any. destruct c; reflexivity.
Qed.

(* ---- isunresolvable: the first line of graph._level *)
Lemma base_unres : I.mem_ity (I.IClass I.c_NoneType) (I.t_unresolvable T) = false
  /\ I.mem_ity (I.IClass I.c_Any) (I.t_unresolvable T) = true
  /\ I.mem_ity I.IEllipsis (I.t_unresolvable T) = true
  /\ I.mem_ity I.INone (I.t_unresolvable T) = false
  /\ I.mem_ity (I.ISpecial I.SUnion) (I.t_unresolvable T) = false
  /\ I.mem_ity (I.IClass I.c_UnionType) (I.t_unresolvable T) = false
  /\ I.mem_ity (I.ISpecial I.SLiteral) (I.t_unresolvable T) = false
  /\ I.mem_ity (I.ISpecial I.SFinal) (I.t_unresolvable T) = false.
Proof.
  pose proof Hbase as H. split_base H.
  repeat match goal with X : negb _ = true |- _ => apply negb_true_iff in X end.
  repeat split; assumption.
Qed.

Lemma isunresolvable_tr : forall t, I.isunresolvable T (tr Nm t) = is_ellipsis t || is_any t.
Proof.
  intro t. unfold I.isunresolvable.
  destruct base_unres as [U1 [U2 [U3 [U4 [U5 [U6 [U7 U8]]]]]]].
  destruct t as [s| | | |n|g a|sp ms|c|m n x|m n x|m n bd|x|a mo]; cbn [tr is_ellipsis is_any orb].
  - sc_fact s. repeat match goal with X : negb _ = true |- _ => apply negb_true_iff in X end.
    cbn [I.get_origin]. destruct (N.eqb (sid Nm s) I.c_Generic);
      repeat match goal with X : I.mem_ity (I.IClass (sid Nm s)) _ = false |- _ => rewrite X end;
      rewrite ?U4; reflexivity.
  - cbn [I.get_origin]. destruct (N.eqb I.c_NoneType I.c_Generic); rewrite ?U1, ?U4; reflexivity.
  - rewrite U3. reflexivity.
  - rewrite U2. reflexivity.
  - rewrite (mem_simple _ (I.ILiteral [I.LInt (Z.of_nat n)]) base_unres_simple eq_refl). cbn [I.get_origin].
    rewrite U7. reflexivity.
  - assert (Hm : I.mem_ity (tr_gen Nm g (map (tr Nm) a)) (I.t_unresolvable T) = false).
    { apply (mem_simple _ _ base_unres_simple). destruct g; reflexivity. }
    rewrite Hm. gen_fact g. repeat match goal with X : negb _ = true |- _ => apply negb_true_iff in X end.
    replace (match I.get_origin T (tr_gen Nm g (map (tr Nm) a)) with Some o => o | None => I.INone end)
      with (I.IClass (gen_origin T Nm g)) by (destruct g; reflexivity).
    assumption.
  - rewrite (mem_simple _ (I.IUnion (tr_sp sp) (map (tr Nm) ms)) base_unres_simple eq_refl).
    destruct sp; cbn [tr_sp I.get_origin]; rewrite ?U5, ?U6; reflexivity.
  - destruct (fresh_parts c) as [_ [_ [_ [Hu [_ [_ [_ Hgn]]]]]]]. rewrite Hu. cbn [I.get_origin].
    rewrite Hgn. rewrite U4. reflexivity.
  - rewrite (mem_simple _ (I.INewType n (tr Nm x)) base_unres_simple eq_refl). cbn [I.get_origin]. rewrite U4. reflexivity.
  - rewrite (mem_simple _ (I.IAlias n (tr Nm x)) base_unres_simple eq_refl). cbn [I.get_origin]. rewrite U4. reflexivity.
  - rewrite (mem_simple _ (I.IAliasStr n bd) base_unres_simple eq_refl). cbn [I.get_origin]. rewrite U4. reflexivity.
  - rewrite (mem_simple _ (I.IFinal (tr Nm x)) base_unres_simple eq_refl). cbn [I.get_origin]. rewrite U8. reflexivity.
  - rewrite (mem_simple _ (I.IForwardRef a mo) base_unres_simple eq_refl). cbn [I.get_origin]. rewrite U4. reflexivity.
Qed.

Lemma unresolvable_level : forall t, I.isunresolvable T (tr Nm t) = true -> G.level E t = [].
Proof.
  intros t H. rewrite isunresolvable_tr in H. destruct t; try discriminate H; reflexivity.
Qed.

(* ---- isfixedtupletype *)
Lemma is_ellipsis_tr : forall x, match tr Nm x with I.IEllipsis => true | _ => false end = is_ellipsis x.
Proof. destruct x; try reflexivity. cbn [tr]. destruct g; reflexivity. Qed.

Lemma last_is_ellipsis_tr : forall l, I.last_is_ellipsis (map (tr Nm) l) = G.last_is_ellipsis l.
Proof.
  intro l. unfold I.last_is_ellipsis, G.last_is_ellipsis. rewrite <- map_rev.
  destruct (rev l) as [|x r]; [reflexivity|]. cbn [map].
  transitivity (is_ellipsis x); [|destruct x; reflexivity].
  rewrite <- (is_ellipsis_tr x). destruct (tr Nm x); reflexivity.
Qed.

Lemma base_union_tuple : I.subclass T I.c_UnionType I.c_tuple = false.
Proof. pose proof Hbase as H. split_base H. apply negb_true_iff. assumption. Qed.

Lemma isfixedtupletype_tr : forall t, I.isfixedtupletype T (tr Nm t) = G.is_fixed_tuple t.
Proof.
  intro t. unfold I.isfixedtupletype. cbv zeta. rewrite args_tr_all, dunder_args_tr.
  destruct t as [s| | | |n|g a|sp ms|c|m n x|m n x|m n bd|x|a mo]; try reflexivity.
  - (* generic *) cbn [G.args_of G.is_fixed_tuple]. rewrite last_is_ellipsis_tr.
    gen_fact g.
    match goal with X : Bool.eqb (I.safe_issubclass T _ _) _ = true |- _ => apply Bool.eqb_prop in X; rename X into Hsub end.
    replace (I.get_origin T (tr Nm (G.GGen g a))) with (Some (I.IClass (gen_origin T Nm g)))
      by (destruct g; reflexivity).
    rewrite Hsub.
    destruct a as [|x r].
    + cbn. destruct g; reflexivity.
    + cbn [map negb andb orb]. destruct (G.last_is_ellipsis (x :: r)); destruct g; reflexivity.
  - (* union *) cbn [G.args_of G.is_fixed_tuple].
    match goal with |- (if ?c then _ else _) = _ => destruct c end; [reflexivity|].
    destruct sp; cbn [tr tr_sp I.get_origin]; try reflexivity.
    unfold I.safe_issubclass. cbn [I.issubclass_raw I.subclass_any existsb].
    rewrite base_union_tuple. reflexivity.
  - (* Final *) cbn [map]. unfold I.last_is_ellipsis. cbn [rev app]. destruct (tr Nm x); reflexivity.
Qed.

(* ---- isstructuredtype (on unwrapped annotations) *)
Lemma origin_plain : forall t, is_wrapper t = false ->
  I.origin T (tr Nm t) = IS.finish T (head (rw_image Nm t)).
Proof. intros t H. rewrite origin_tr, (wcore_plain t H). reflexivity. Qed.

Lemma class_row : forall c, match E c with
  | Some d => exists i, I.cinfo T (n_cls Nm c) = Some i /\ row_ok T d i = true
  | None => I.cinfo T (n_cls Nm c) = None end.
Proof. intro c. apply (Hrows c). Qed.

Lemma isstructured_class : forall c, I.isstructuredtype T (I.IClass (n_cls Nm c)) = true.
Proof.
  intro c. unfold I.isstructuredtype.
  pose proof (origin_plain (G.GClass c) eq_refl) as Ho. cbn [tr rw_image] in Ho.
  rewrite head_class, finish_class_fresh in Ho. rewrite Ho.
  assert (Hu : I.isuniontype T (I.IClass (n_cls Nm c)) = false) by (apply (isuniontype_tr (G.GClass c))).
  assert (Hl : I.isliteral T (I.IClass (n_cls Nm c)) = false) by (apply (isliteral_tr (G.GClass c))).
  rewrite Hu, Hl. cbn [negb andb]. rewrite andb_true_r.
  unfold I.isstdlibsubtype, I.safe_issubclass. cbn [I.resolve_supertype I.issubclass_raw].
  unfold I.isnamedtuple, I.istypeddict, I.subclass_any, I.subclass, I.cflag.
  pose proof (class_row c) as Hr. destruct (E c) as [d|].
  - destruct Hr as [i [Hi Hok]]. rewrite Hi. unfold row_ok in Hok.
    apply andb_prop in Hok. destruct Hok as [_ Hst].
    apply orb_prop in Hst. destruct Hst as [Hst|Hst]; [apply orb_prop in Hst; destruct Hst as [Hst|Hst]|].
    + match goal with |- context [negb ?e] => change (negb e = true) in Hst; rewrite Hst end. apply orb_true_r.
    + rewrite Hst. rewrite orb_true_r. reflexivity.
    + rewrite Hst. rewrite orb_true_r. reflexivity.
  - rewrite Hr.
    assert (Hx : existsb (fun _ : I.cls => false) (I.t_stdlib T) = false) by (induction (I.t_stdlib T); auto).
    rewrite Hx. reflexivity.
Qed.

Lemma isstructuredtype_tr : forall t, plain t = true -> I.isstructuredtype T (tr Nm t) = structured_g t.
Proof.
  intros t Hp.
  destruct t as [s| | | |n|g a|sp ms|c|m n x|m n x|m n bd|x|a mo]; try discriminate Hp.
  - (* scalar *) unfold I.isstructuredtype.
    rewrite (isfixedtupletype_tr (G.GScalar s)), (isuniontype_tr (G.GScalar s)), (isliteral_tr (G.GScalar s)).
    rewrite (origin_plain (G.GScalar s) eq_refl). cbn [tr rw_image]. rewrite head_class.
    sc_fact s. repeat match goal with X : negb _ = true |- _ => apply negb_true_iff in X end.
    repeat match goal with X : Bool.eqb _ _ = true |- _ => apply Bool.eqb_prop in X end.
    repeat match goal with X : I.isnamedtuple T _ = false |- _ => rewrite X end.
    repeat match goal with X : I.istypeddict T _ = false |- _ => rewrite X end.
    repeat match goal with X : I.isstdlibsubtype T _ = _ |- _ => rewrite X end.
    cbn. rewrite !andb_true_r. reflexivity.
  - (* NoneType *) unfold I.isstructuredtype.
    rewrite (isfixedtupletype_tr G.GNone), (isuniontype_tr G.GNone), (isliteral_tr G.GNone).
    rewrite (origin_plain G.GNone eq_refl). cbn [tr rw_image]. rewrite head_class.
    pose proof Hbase as H. split_base H.
    repeat match goal with X : negb _ = true |- _ => apply negb_true_iff in X end.
    repeat match goal with X : I.isnamedtuple T _ = false |- _ => rewrite X end.
    repeat match goal with X : I.istypeddict T _ = false |- _ => rewrite X end.
    repeat match goal with X : I.isstdlibsubtype T (IS.finish T (I.IClass I.c_NoneType)) = _ |- _ => rewrite X end.
    reflexivity.
  - (* Ellipsis *) unfold I.isstructuredtype.
    rewrite (isuniontype_tr G.GEllipsis), (isliteral_tr G.GEllipsis).
    rewrite (origin_plain G.GEllipsis eq_refl). cbn [tr rw_image]. unfold head. cbn [I.get_origin].
    pose proof Hbase as H. split_base H.
    repeat match goal with X : negb _ = true |- _ => apply negb_true_iff in X end.
    repeat match goal with X : I.isstdlibsubtype T (IS.finish T I.IEllipsis) = _ |- _ => rewrite X end.
    cbn. rewrite ?orb_true_r. reflexivity.
  - (* Any *) unfold I.isstructuredtype.
    rewrite (isuniontype_tr G.GAny), (isliteral_tr G.GAny).
    rewrite (origin_plain G.GAny eq_refl). cbn [tr rw_image]. rewrite head_class.
    pose proof Hbase as H. split_base H.
    repeat match goal with X : negb _ = true |- _ => apply negb_true_iff in X end.
    repeat match goal with X : I.isstdlibsubtype T (IS.finish T (I.IClass I.c_Any)) = _ |- _ => rewrite X end.
    cbn. rewrite ?orb_true_r. reflexivity.
  - (* Literal *) unfold I.isstructuredtype.
    rewrite (isfixedtupletype_tr (G.GLit n)), (isliteral_tr (G.GLit n)). cbn. rewrite andb_false_r. reflexivity.
  - (* generic *) unfold I.isstructuredtype.
    rewrite (isfixedtupletype_tr (G.GGen g a)), (isuniontype_tr (G.GGen g a)), (isliteral_tr (G.GGen g a)).
    rewrite (origin_plain (G.GGen g a) eq_refl). cbn [tr rw_image]. rewrite head_gen.
    gen_fact g.
    repeat match goal with X : I.isstdlibsubtype T _ = true |- _ => rewrite X end.
    assert (Hn : I.isnamedtuple T (tr_gen Nm g (map (tr Nm) a)) = false) by (destruct g; reflexivity).
    assert (Hd : I.istypeddict T (tr_gen Nm g (map (tr Nm) a)) = false) by (destruct g; reflexivity).
    rewrite Hn, Hd. unfold lit_core. cbn [structured_g wcore G.is_union ref_literal negb andb orb].
    rewrite !orb_false_r. reflexivity.
  - (* union *) unfold I.isstructuredtype.
    rewrite (isfixedtupletype_tr (G.GUnion sp ms)), (isuniontype_tr (G.GUnion sp ms)).
    cbn. rewrite andb_false_r. reflexivity.
  - (* class *) apply isstructured_class.
  - (* reference *) unfold I.isstructuredtype.
    rewrite (isfixedtupletype_tr (G.GRef a mo)), (isuniontype_tr (G.GRef a mo)), (isliteral_tr (G.GRef a mo)).
    rewrite (origin_plain (G.GRef a mo) eq_refl). cbn [tr rw_image]. unfold head. cbn [I.get_origin].
    rewrite finish_ref. reflexivity.
Qed.

(* what graph._level relies on: the members of a fixed tuple and of a class are pulled from the signature /
   the hints because the annotation is structured *)
Lemma hints_structured : forall t, plain t = true -> G.hints E t <> [] -> I.isstructuredtype T (tr Nm t) = true.
Proof.
  intros t Hp Hh. rewrite (isstructuredtype_tr t Hp).
  destruct t; try (exfalso; apply Hh; reflexivity); try reflexivity.
  cbn [G.hints] in Hh. cbn [structured_g]. destruct (G.is_fixed_tuple (G.GGen g args)); [reflexivity|].
  exfalso. apply Hh. reflexivity.
Qed.

(* ---- isstdlibtype *)
Lemma isstd_union : forall sp l, I.isstdlibtype T (I.IUnion sp l) =
  if I.isoptionaltype T (I.IUnion sp l)
  then forallb (fun y => if I.is_nullarg y then true else I.isstdlibtype T y) l
  else if I.isuniontype T (I.IUnion sp l) then forallb (I.isstdlibtype T) l else I.stdlib_base T (I.IUnion sp l).
Proof.
  intros sp l. cbn [I.isstdlibtype].
  assert (H1 : forall l0,
    (fix all_std_nonnull (l0 : list I.ity) : bool :=
       match l0 with
       | [] => true
       | x :: r => (if I.is_nullarg x then true else I.isstdlibtype T x) && all_std_nonnull r
       end) l0 = forallb (fun y => if I.is_nullarg y then true else I.isstdlibtype T y) l0).
  { induction l0 as [|x r IH]; [reflexivity|]. cbn [forallb]. rewrite <- IH. reflexivity. }
  assert (H2 : forall l0,
    (fix all_std (l0 : list I.ity) : bool :=
       match l0 with [] => true | x :: r => I.isstdlibtype T x && all_std r end) l0
    = forallb (I.isstdlibtype T) l0).
  { induction l0 as [|x r IH]; [reflexivity|]. cbn [forallb]. rewrite <- IH. reflexivity. }
  rewrite H1, H2. reflexivity.
Qed.

Lemma isstd_other : forall x,
  match x with I.IUnion _ _ | I.ILiteral _ | I.IClassVar _ => false | _ => true end = true ->
  I.isstdlibtype T x =
  if I.isoptionaltype T x then true else if I.isuniontype T x then true else I.stdlib_base T x.
Proof. intros x H. destruct x; try discriminate H; reflexivity. Qed.

Lemma stdlib_base_tr : forall t, I.stdlib_base T (tr Nm t) = G.in_stdlib_set (G.resolve_super t).
Proof.
  intro t. unfold I.stdlib_base, I.type_in. rewrite type_of_tr, resolve_supertype_tr, orb_false_r.
  destruct (G.resolve_super t) as [s| | | |n|g a|sp ms|c|m n x|m n x|m n bd|x|a mo]; try reflexivity;
    cbn [tr I.in_stdlib G.in_stdlib_set].
  - sc_fact s. repeat match goal with X : Bool.eqb _ _ = true |- _ => apply Bool.eqb_prop in X end. assumption.
  - pose proof Hbase as H. split_base H. assumption.
  - pose proof Hbase as H. split_base H. apply negb_true_iff. assumption.
  - destruct g; reflexivity.
  - apply (fresh_parts c).
Qed.

Lemma is_stdlib_union : forall sp ms, G.is_stdlib (G.GUnion sp ms) = forallb G.is_stdlib ms.
Proof.
  intros sp ms. cbn [G.is_stdlib]. induction ms as [|x r IH]; [reflexivity|]. cbn [forallb]. rewrite <- IH. reflexivity.
Qed.
Lemma std_guard_union : forall sp ms, std_guard (G.GUnion sp ms) = forallb std_guard ms.
Proof.
  intros sp ms. cbn [std_guard]. induction ms as [|x r IH]; [reflexivity|]. cbn [forallb]. rewrite <- IH. reflexivity.
Qed.

Lemma isstd_members : forall ms,
  Forall (fun x => std_guard x = true -> I.isstdlibtype T (tr Nm x) = G.is_stdlib x) ms ->
  forallb std_guard ms = true ->
  forallb (fun y => if I.is_nullarg y then true else I.isstdlibtype T y) (map (tr Nm) ms) = forallb G.is_stdlib ms
  /\ forallb (I.isstdlibtype T) (map (tr Nm) ms) = forallb G.is_stdlib ms.
Proof.
  induction ms as [|x r IH]; intros HF Hg; [split; reflexivity|].
  inversion HF as [|? ? Hx Hr]; subst. cbn [forallb] in Hg. apply andb_prop in Hg. destruct Hg as [Hgx Hgr].
  destruct (IH Hr Hgr) as [I1 I2]. cbn [map forallb]. rewrite I1, I2, (Hx Hgx), tr_nullarg. split; [|reflexivity].
  destruct x; reflexivity.
Qed.

Lemma isstdlibtype_tr : forall t, std_guard t = true -> I.isstdlibtype T (tr Nm t) = G.is_stdlib t.
Proof.
  assert (NU : forall t, G.is_union t = false -> G.is_union (wcore t) = false ->
               match tr Nm t with I.IUnion _ _ | I.ILiteral _ | I.IClassVar _ => false | _ => true end = true ->
               I.isstdlibtype T (tr Nm t) = G.is_stdlib t).
  { intros t Hu Hw Hs. rewrite (isstd_other _ Hs), isoptionaltype_tr, isuniontype_tr, Hw, stdlib_base_tr.
    destruct t; try discriminate Hu; reflexivity. }
  induction t as [s| | | |n|g a _|sp ms IH|c|m n x _|m n x _|m n bd|x _|a mo] using gty_ind'; intro Hg;
    try (apply NU; reflexivity).
  - (* Literal *) cbn [tr I.isstdlibtype].
    change (I.ILiteral [I.LInt (Z.of_nat n)]) with (tr Nm (G.GLit n)).
    rewrite isoptionaltype_tr, isuniontype_tr. reflexivity.
  - (* generic *) apply NU; try reflexivity. cbn [tr]. destruct g; reflexivity.
  - (* union *) cbn [tr]. rewrite isstd_union.
    change (I.IUnion (tr_sp sp) (map (tr Nm) ms)) with (tr Nm (G.GUnion sp ms)).
    rewrite isoptionaltype_tr, isuniontype_tr. cbn [wcore G.is_union].
    rewrite std_guard_union in Hg. destruct (isstd_members ms IH Hg) as [I1 I2].
    rewrite I1, I2, is_stdlib_union. destruct (existsb is_none ms); reflexivity.
  - (* NewType *) apply NU; try reflexivity. cbn [std_guard wrapped_union is_wrapper andb] in Hg.
    apply negb_true_iff in Hg. exact Hg.
  - (* alias *) apply NU; try reflexivity. cbn [std_guard wrapped_union is_wrapper andb] in Hg.
    apply negb_true_iff in Hg. exact Hg.
Qed.

(* "Only subscripted generics or non-stdlib types can be cyclic." *)

(* ---- issubscriptedgeneric: "[" in str(t) *)
Lemma issub_bracket : forall x, I.issubscriptedgeneric T x = I.has_char "["%char (I.show T x).
Proof.
  intro x. unfold I.issubscriptedgeneric. cbv zeta.
  destruct (I.has_char "["%char (I.show T x)) eqn:H; [|apply andb_false_r].
  rewrite andb_true_r. unfold I.isgeneric at 2. rewrite H. rewrite orb_true_r. cbn [orb]. apply orb_true_r.
Qed.

Definition inner (m : I.mode) : bool := match m with I.MStr => false | _ => true end.

Lemma has_join_I : forall m' sep l, I.has_char "["%char sep = false ->
  I.has_char "["%char
    ((fix join (m' : I.mode) (sep : string) (l0 : list I.ity) {struct l0} : string :=
        match l0 with
        | [] => EmptyString
        | x :: r => match r with
                    | [] => I.repr T m' x
                    | _ :: _ => I.sapp (I.repr T m' x) (I.sapp sep (join m' sep r))
                    end
        end) m' sep l)
  = existsb (fun x => I.has_char "["%char (I.repr T m' x)) l.
Proof.
  intros m' sep l Hs. induction l as [|x r IH]; [reflexivity|].
  destruct r as [|y r'].
  - cbn [existsb]. rewrite orb_false_r. reflexivity.
  - cbn [existsb] in *. rewrite <- IH. unfold I.sapp; rewrite !has_char_app, Hs. reflexivity.
Qed.

Lemma repr_pipe_br : forall m l,
  I.has_char "["%char (I.repr T m (I.IUnion I.UPipe l)) = existsb (fun x => I.has_char "["%char (I.repr T I.MUn x)) l.
Proof. intros m l. cbn [I.repr]. apply (has_join_I I.MUn " | " l). reflexivity. Qed.

Lemma repr_union_br : forall m sp l, sp <> I.UPipe -> I.has_char "["%char (I.repr T m (I.IUnion sp l)) = true.
Proof.
  intros m sp l Hsp.
  assert (H : forall X, I.has_char "["%char (I.sapp "typing.Union[" X) = true) by reflexivity.
  assert (H' : forall X, I.has_char "["%char (I.sapp "typing.Optional[" X) = true) by reflexivity.
  destruct sp; try (exfalso; apply Hsp; reflexivity);
    destruct l as [|a [|b [|c r]]]; cbn [I.repr]; try apply H;
    destruct (I.ity_eqb a (I.IClass I.c_NoneType)); try apply H';
    destruct (I.ity_eqb b (I.IClass I.c_NoneType)); try apply H'; apply H.
Qed.

Lemma nobr_pipe : forall ms, nobr E (G.GUnion G.UPipe ms) = forallb (nobr E) ms.
Proof.
  intro ms. cbn [nobr]. induction ms as [|x r IH]; [reflexivity|]. cbn [forallb]. rewrite <- IH. reflexivity.
Qed.

Lemma cstr_row : forall c d f, E c = Some d ->
  exists i, I.cstr T f (n_cls Nm c) = f i /\ row_ok T d i = true.
Proof.
  intros c d f Hc. pose proof (class_row c) as Hr. rewrite Hc in Hr. destruct Hr as [i [Hi Hok]].
  exists i. unfold I.cstr. rewrite Hi. split; [reflexivity | exact Hok].
Qed.

Lemma row_parts : forall d i, row_ok T d i = true ->
  I.ci_str i = class_str d /\ I.ci_qualname i = G.cqual d /\ I.ci_trepr i = class_trepr d.
Proof.
  intros d i H. unfold row_ok in H.
  apply andb_prop in H. destruct H as [H _]. apply andb_prop in H. destruct H as [H H3].
  apply andb_prop in H. destruct H as [H1 H2].
  apply String.eqb_eq in H1. apply String.eqb_eq in H2. apply String.eqb_eq in H3. repeat split; assumption.
Qed.

Lemma base_none_any : nb (I.cstr T I.ci_str I.c_NoneType) = true /\ nb (I.cstr T I.ci_trepr I.c_NoneType) = true
  /\ I.cstr T I.ci_str I.c_Any = "typing.Any" /\ I.cstr T I.ci_trepr I.c_Any = "typing.Any".
Proof.
  pose proof Hbase as H. split_base H.
  repeat match goal with X : String.eqb _ _ = true |- _ => apply String.eqb_eq in X end.
  repeat split; assumption.
Qed.

(* the text of an annotation where it is printed INSIDE another one (modes of typing._type_repr, of
   types.GenericAlias and of types.UnionType) carries a "[" exactly when Graph.show does *)
Lemma br_inner : forall t, nobr E t = true -> forall m, inner m = true ->
  I.has_char "["%char (I.repr T m (tr Nm t)) = I.has_char "["%char (G.show E t).
Proof.
  destruct base_none_any as [_ [Hnt [_ Hat]]].
  induction t as [s| | | |n|g a _|sp ms IH|c|mm n x _|mm n x _|mm n bd|x _|a mo] using gty_ind';
    intros Hg m Hm.
  - (* scalar *) sc_fact s. repeat match goal with X : String.eqb _ _ = true |- _ => apply String.eqb_eq in X end.
    cbn [tr]. assert (Hr : I.repr T m (I.IClass (sid Nm s)) = I.cstr T I.ci_trepr (sid Nm s)).
    { destruct m; try discriminate Hm; cbn [I.repr]; try reflexivity. rewrite sid_not_none. reflexivity. }
    rewrite Hr.
    match goal with X : I.cstr T I.ci_trepr (sid Nm s) = _ |- _ => rewrite X end. destruct s; reflexivity.
  - (* NoneType *) cbn [tr]. destruct m; try discriminate Hm; cbn [I.repr G.show].
    + unfold nb in Hnt. apply negb_true_iff in Hnt. rewrite Hnt. reflexivity.
    + unfold nb in Hnt. apply negb_true_iff in Hnt. rewrite Hnt. reflexivity.
    + reflexivity.
  - (* Ellipsis *) destruct m; try discriminate Hm; reflexivity.
  - (* Any *) cbn [tr]. assert (Hr : I.repr T m (I.IClass I.c_Any) = "typing.Any").
    { destruct m; try discriminate Hm; cbn [I.repr]; exact Hat. }
    rewrite Hr. reflexivity.
  - (* Literal *) reflexivity.
  - (* generic *) transitivity true.
    + cbn [tr]. destruct g; cbn [tr_gen I.repr]; unfold I.sapp; rewrite !has_char_app; cbn; rewrite ?orb_true_r; reflexivity.
    + cbn [G.show]. unfold G.sapp; rewrite !has_char_app. destruct g; cbn; rewrite ?orb_true_r; reflexivity.
  - (* union *) destruct sp.
    + cbn [tr tr_sp]. rewrite repr_union_br by discriminate. reflexivity.
    + cbn [tr tr_sp]. rewrite repr_union_br by discriminate. reflexivity.
    + cbn [tr tr_sp]. rewrite repr_pipe_br. cbn [G.show]. rewrite has_char_join_G by reflexivity.
      rewrite nobr_pipe in Hg. clear m Hm.
      induction ms as [|y r IHr]; [reflexivity|].
      inversion IH as [|? ? Hy Hr]; subst. cbn [forallb] in Hg. apply andb_prop in Hg. destruct Hg as [Hgy Hgr].
      cbn [map existsb]. rewrite (Hy Hgy I.MUn eq_refl), (IHr Hr Hgr). reflexivity.
  - (* class *) cbn [nobr] in Hg. destruct (E c) as [d|] eqn:Hc; [|discriminate Hg].
    destruct (cstr_row c d I.ci_trepr Hc) as [i [Hi Hok]]. destruct (row_parts d i Hok) as [_ [_ Ht]].
    cbn [tr]. assert (Hr : I.repr T m (I.IClass (n_cls Nm c)) = I.cstr T I.ci_trepr (n_cls Nm c)).
    { destruct m; try discriminate Hm; cbn [I.repr]; try reflexivity. rewrite cls_not_none. reflexivity. }
    rewrite Hr, Hi, Ht. cbn [G.show]. rewrite Hc. reflexivity.
  - (* NewType *) cbn [nobr] in Hg. unfold nb in Hg. apply negb_true_iff in Hg.
    cbn [tr I.repr G.show]. unfold I.sapp, G.sapp; rewrite !has_char_app, Hg. reflexivity.
  - (* alias *) reflexivity.
  - (* string alias *) reflexivity.
  - (* Final *) reflexivity.
  - (* reference *) cbn [tr I.repr G.show]. unfold I.sapp, G.sapp; rewrite !has_char_app.
    destruct mo as [mm|]; cbn [nobr] in Hg.
    + unfold nb in Hg. apply negb_true_iff in Hg. rewrite !has_char_app, Hg. cbn. rewrite ?orb_false_r. reflexivity.
    + cbn. rewrite ?orb_false_r. reflexivity.
Qed.

Lemma issubscripted_tr : forall t, nobr E t = true ->
  I.issubscriptedgeneric T (tr Nm t) = G.is_subscripted E t.
Proof.
  intros t Hg. rewrite issub_bracket. unfold G.is_subscripted, I.show.
  destruct t as [s| | | |n|g a|sp ms|c|mm n x|mm n x|mm n bd|x|a mo].
  - sc_fact s. cbn [tr I.repr G.has_bracket].
    match goal with X : nb (I.cstr T I.ci_str (sid Nm s)) = true |- _ => unfold nb in X; apply negb_true_iff in X; exact X end.
  - destruct base_none_any as [Hn _]. unfold nb in Hn. apply negb_true_iff in Hn. exact Hn.
  - reflexivity.
  - destruct base_none_any as [_ [_ [Ha _]]]. cbn [tr I.repr G.has_bracket]. rewrite Ha. reflexivity.
  - reflexivity.
  - change (G.has_bracket E (G.GGen g a)) with (G.has_char "["%char (G.show E (G.GGen g a))).
    rewrite has_char_GI, <- (br_inner _ Hg I.MTyping eq_refl). cbn [tr]. destruct g; reflexivity.
  - change (G.has_bracket E (G.GUnion sp ms)) with (G.has_char "["%char (G.show E (G.GUnion sp ms))).
    rewrite has_char_GI, <- (br_inner _ Hg I.MTyping eq_refl). cbn [tr]. destruct sp; reflexivity.
  - cbn [nobr] in Hg. destruct (E c) as [d|] eqn:Hc; [|discriminate Hg].
    destruct (cstr_row c d I.ci_str Hc) as [i [Hi Hok]]. destruct (row_parts d i Hok) as [Hs _].
    cbn [tr I.repr G.has_bracket]. rewrite Hi, Hs. unfold class_str.
    apply andb_prop in Hg. destruct Hg as [H1 H2]. unfold nb in H1, H2.
    apply negb_true_iff in H1. apply negb_true_iff in H2. rewrite !has_char_app, H1, H2. reflexivity.
  - change (G.has_bracket E (G.GNewType mm n x)) with (G.has_char "["%char (G.show E (G.GNewType mm n x))).
    rewrite has_char_GI, <- (br_inner _ Hg I.MTyping eq_refl). reflexivity.
  - cbn [tr I.repr G.has_bracket G.show]. symmetry. apply has_char_GI.
  - cbn [tr I.repr G.has_bracket G.show]. symmetry. apply has_char_GI.
  - reflexivity.
  - cbn [tr I.repr G.has_bracket]. rewrite has_char_GI; unfold I.sapp; rewrite !has_char_app.
    destruct mo as [mm|]; cbn [nobr] in Hg.
    + unfold nb in Hg. apply negb_true_iff in Hg. rewrite !has_char_app, Hg. cbn. rewrite ?orb_false_r. reflexivity.
    + cbn. rewrite ?orb_false_r. reflexivity.
Qed.

(* "Only subscripted generics or non-stdlib types can be cyclic." *)
Lemma can_be_cyclic_tr : forall u, nobr E u = true -> std_guard u = true ->
  I.issubscriptedgeneric T (tr Nm u) || negb (I.isstdlibtype T (tr Nm u)) = G.can_be_cyclic E u.
Proof. intros u H1 H2. unfold G.can_be_cyclic. rewrite issubscripted_tr, isstdlibtype_tr by assumption. reflexivity. Qed.

(* is_generic of graph.py: issubscriptedgeneric(unwrapped) or isuniontype(unwrapped) *)
Lemma is_generic_tr : forall u, nobr E u = true -> is_wrapper u = false ->
  I.issubscriptedgeneric T (tr Nm u) || I.isuniontype T (tr Nm u) = G.is_generic E u.
Proof.
  intros u H1 H2. unfold G.is_generic. rewrite issubscripted_tr, isuniontype_tr, (wcore_plain u H2) by assumption.
  reflexivity.
Qed.

(* the three-way decision of get_type_graph on a revisited member: defer as itself / build a reference *)
Lemma unwrap_not_wrapper : forall c, is_wrapper (G.unwrap c) = false.
Proof. induction c using gty_ind'; cbn [G.unwrap is_wrapper]; auto. Qed.

Lemma defer_decision_tr : forall c, nobr E (G.unwrap c) = true ->
  (I.issubscriptedgeneric T (tr Nm (G.unwrap c)) || I.isuniontype T (tr Nm (G.unwrap c)))
  || I.should_unwrap T (tr Nm c) || I.isforwardref (tr Nm c)
  = G.is_generic E (G.unwrap c) || G.should_unwrap c || G.is_ref c.
Proof.
  intros c Hn. rewrite (is_generic_tr _ Hn (unwrap_not_wrapper c)), should_unwrap_G, isforwardref_tr. reflexivity.
Qed.

(* ---- qualname (the reference branch of get_type_graph) *)
Lemma isgeneric_str : forall s, I.isgeneric T (I.IValue (I.LStr s)) = typing_text s.
Proof. intro s. unfold I.isgeneric, typing_text. cbn. apply orb_false_r. Qed.

Lemma qualname_unfold : forall x, I.qualname T x =
  let strobj := match x with I.IForwardRef a _ => a | _ => I.show T x end in
  if typing_text strobj then I.before_char "["%char strobj
  else match x with
       | I.IClass c => I.replace_locals 200 (I.cstr T I.ci_qualname c)
       | I.INewType nm _ | I.IAlias nm _ | I.IAliasStr nm _ | I.ITypeVar nm _ _ | I.IRoutine nm => nm
       | _ => strobj
       end.
Proof. intro x. unfold I.qualname. cbv zeta. rewrite isgeneric_str. reflexivity. Qed.

Lemma qualname_tr : forall t, qual_guard E t = true -> I.qualname T (tr Nm t) = G.qualname E t.
Proof.
  intros t Hg.
  destruct t as [s| | | |n|g a|sp ms|c|mm n x|mm n x|mm n bd|x|a mo]; try discriminate Hg.
  - sc_fact s. repeat match goal with X : String.eqb _ _ = true |- _ => apply String.eqb_eq in X end.
    cbn [tr G.qualname]. assumption.
  - pose proof Hbase as H. split_base H.
    repeat match goal with X : String.eqb _ _ = true |- _ => apply String.eqb_eq in X end. cbn [tr G.qualname]. assumption.
  - reflexivity.
  - destruct base_none_any as [_ [_ [Ha _]]]. rewrite qualname_unfold. cbn [tr I.show I.repr]. rewrite Ha. reflexivity.
  - rewrite qualname_unfold. reflexivity.
  - (* class *) cbn [qual_guard] in Hg. destruct (E c) as [d|] eqn:Hc; [|discriminate Hg].
    apply andb_prop in Hg. destruct Hg as [Hg Hl]. apply andb_prop in Hg. destruct Hg as [H1 H2].
    apply String.eqb_eq in Hl. unfold nb in H1, H2. apply negb_true_iff in H1. apply negb_true_iff in H2.
    destruct (cstr_row c d I.ci_str Hc) as [i [Hi Hok]]. destruct (row_parts d i Hok) as [Hs [Hq _]].
    destruct (cstr_row c d I.ci_qualname Hc) as [i' [Hi' Hok']]. destruct (row_parts d i' Hok') as [_ [Hq' _]].
    rewrite qualname_unfold. cbn [tr I.show I.repr]. cbv zeta. rewrite Hi, Hs.
    assert (Ht : typing_text (class_str d) = false).
    { unfold typing_text, class_str. rewrite !has_char_app, H1, H2. reflexivity. }
    rewrite Ht, Hi', Hq', Hl. cbn [G.qualname]. rewrite Hc. reflexivity.
  - (* NewType *) cbn [qual_guard] in Hg. unfold nb in Hg. apply negb_true_iff in Hg.
    rewrite qualname_unfold. cbn [tr I.show I.repr]. cbv zeta.
    assert (Ht : typing_text (I.sapp I.user_module (I.sapp "." n)) = false).
    { unfold typing_text, I.sapp. rewrite !has_char_app, Hg. reflexivity. }
    rewrite Ht. reflexivity.
  - (* alias *) cbn [qual_guard] in Hg. apply negb_true_iff in Hg.
    rewrite qualname_unfold. cbn [tr I.show I.repr]. cbv zeta. rewrite Hg. reflexivity.
  - (* string alias *) cbn [qual_guard] in Hg. apply negb_true_iff in Hg.
    rewrite qualname_unfold. cbn [tr I.show I.repr]. cbv zeta. rewrite Hg. reflexivity.
  - (* reference *) rewrite qualname_unfold. cbn [tr G.qualname]. cbv zeta.
    rewrite generic_text_GI, before_char_GI. unfold typing_text, G.lbr.
    destruct (I.has_char "["%char a) eqn:Hb.
    + rewrite !orb_true_r. reflexivity.
    + rewrite !orb_false_r, (before_char_none _ _ Hb).
      destruct (I.prefixb "typing." a); destruct (I.prefixb "typing_extensions." a); reflexivity.
Qed.

(* module and qualified name of a class of the environment, as the interpreter prints them *)
Lemma class_names_tr : forall c d, E c = Some d ->
  I.cstr T I.ci_trepr (n_cls Nm c) = G.cmodule d +++ "." +++ G.cqual d
  /\ I.cstr T I.ci_qualname (n_cls Nm c) = G.cqual d
  /\ I.cstr T I.ci_str (n_cls Nm c) = "<class '" +++ G.cmodule d +++ "." +++ G.cqual d +++ "'>"
  /\ G.module_attr E (G.GClass c) = Some (G.cmodule d).
Proof.
  intros c d Hc.
  destruct (cstr_row c d I.ci_trepr Hc) as [i1 [H1 O1]]. destruct (row_parts d i1 O1) as [_ [_ T1]].
  destruct (cstr_row c d I.ci_qualname Hc) as [i2 [H2 O2]]. destruct (row_parts d i2 O2) as [_ [T2 _]].
  destruct (cstr_row c d I.ci_str Hc) as [i3 [H3 O3]]. destruct (row_parts d i3 O3) as [T3 _].
  rewrite H1, H2, H3, T1, T2, T3. cbn [G.module_attr]. rewrite Hc. repeat split; reflexivity.
Qed.
End Bridge.

(* ------------------------------------------------------------------------------------------- *)
(* Part E: finite environments; rows as a function of the environment                            *)
(* ------------------------------------------------------------------------------------------- *)
Lemma rows_okb_sound : forall T cl e dq a b c,
  rows_okb T cl = true -> rows_ok T (mk_names cl e dq a b c) (env_of_cenv cl).
Proof.
  intros T cl e dq a b c H. unfold rows_okb in H.
  apply andb_prop in H. destruct H as [H0 Hl]. apply andb_prop in H0. destruct H0 as [Hf0 Hn0].
  unfold rows_ok. cbn [n_cls mk_names]. intro c0.
  induction cl as [|[k [i d]] r IH].
  - cbn. split; [exact Hf0|]. unfold no_row in Hn0. destruct (I.cinfo T 0%N); [discriminate|reflexivity].
  - cbn [forallb fst snd] in Hl. apply andb_prop in Hl. destruct Hl as [Hh Hr].
    unfold env_of_cenv. cbn [map fst snd G.env_of ncls_of].
    destruct (Nat.eqb k c0).
    + apply andb_prop in Hh. destruct Hh as [Hfi Hrow]. split; [exact Hfi|].
      destruct (I.cinfo T i) as [ci|]; [|discriminate]. exists ci. split; [reflexivity | exact Hrow].
    + apply IH. exact Hr.
Qed.

(* rows built from the environment itself are accepted whenever the ids are fresh for the tables and pairwise
   distinct from each other (checked by computation for a given list: rows_okb (ext T (rows_of cl)) cl) *)
Lemma ext_tables : forall T rows,
  I.t_stdlib (ext T rows) = I.t_stdlib T /\ I.t_builtin (ext T rows) = I.t_builtin T
  /\ I.t_generic_map (ext T rows) = I.t_generic_map T /\ I.t_unresolvable (ext T rows) = I.t_unresolvable T.
Proof. intros. repeat split. Qed.
