(* Proofs for the bridge Model/GraphBridge.v: every topological order of the adjacency built by the graph
   model (Model/Graph.v), translated into the core model, satisfies the contract order_ok that the factory
   model (Model/Build.v, Proofs/BuildLemmas.v) needs from graph.static_order. *)
From Coq Require Import List Arith Bool PeanoNat String Lia.
Import ListNotations.
Require Import TL.Model.Graph TL.Model.Topo TL.Proofs.GraphLemmas TL.Proofs.TopoLemmas.
Require Import TL.Model.Core TL.Model.Build TL.Proofs.BuildLemmas TL.Proofs.CoreMono TL.Proofs.BuildSemLemmas.
Require Import TL.Model.GraphBridge.

(* ============================================================================================= *)
(* Part A: the factory side.  order_ok only depends on WHICH keys the context holds.              *)
(* ============================================================================================= *)
Section BuildSide.
Variable E : env.
Variable dir : bool.
Variable noop_leaf : nat -> bool.

Local Notation found := (BuildLemmas.found E).
Definition hask (cx : ctx) (k : ty) : bool := match find_key k cx with Some _ => true | None => false end.

Lemma hask_set cx k r k' : hask cx k' = true -> hask (ctx_set k r cx) k' = true.
Proof. unfold hask, ctx_set. cbn [find_key]. destruct (ty_eqb k' k); [reflexivity|]. exact (fun H => H). Qed.
Lemma hask_set_same cx k r : hask (ctx_set k r cx) k = true.
Proof. unfold hask, ctx_set. cbn [find_key]. rewrite ty_eqb_refl. reflexivity. Qed.

Lemma found_hask cx k : hask cx k = true -> found cx k = true.
Proof. unfold hask, BuildLemmas.found, getitem. destruct (find_key k cx); [reflexivity|discriminate]. Qed.

(* the last fallback of __missing__: the forward reference of the key *)
Lemma fref_not_ref k rf : fref k = Some rf -> is_ref k = false /\ evaluate k = k.
Proof. destruct k; cbn [fref]; intros H; try discriminate H; split; reflexivity. Qed.

Lemma found_fref cx k rf : fref k = Some rf -> hask cx rf = true -> found cx k = true.
Proof. intros Hf Hh. unfold hask in Hh. unfold BuildLemmas.found, getitem.
  destruct (find_key k cx); [reflexivity|].
  destruct (fref_not_ref _ _ Hf) as [Hr _]. rewrite Hr.
  destruct (find_key (unwrap E k) cx); [reflexivity|]. rewrite Hf.
  destruct (find_key rf cx); [reflexivity|discriminate Hh]. Qed.

(* a key that is in the context is found under its own annotation and under the evaluated one *)
Lemma found_evaluate cx t :
  hask cx t = true -> (is_ref t = true -> ref_shape t = true) -> found cx (evaluate t) = true.
Proof. intros Hh Hs. destruct t; cbn [evaluate]; try (apply found_hask; exact Hh).
  - apply (found_fref cx (TName n) (TRef n)); [reflexivity|exact Hh].
  - apply (found_fref cx (TLeaf s) (TRefLeaf s)); [reflexivity|exact Hh].
  - specialize (Hs eq_refl). cbn [ref_shape] in Hs.
    destruct t; try discriminate Hs.
    + apply (found_fref cx (TNewType i t) (TRefTo (TNewType i t))); [reflexivity|exact Hh].
    + apply (found_fref cx (TAlias i t) (TRefTo (TAlias i t))); [reflexivity|exact Hh].
    + apply (found_fref cx (TAliasStr i n) (TRefTo (TAliasStr i n))); [reflexivity|exact Hh]. Qed.

(* the member annotation t can be fetched by every constructor *)
Definition avail (cx : ctx) (t : ty) : Prop := found cx t = true /\ found cx (evaluate t) = true.

Lemma avail_key cx t : hask cx t = true -> (is_ref t = true -> ref_shape t = true) -> avail cx t.
Proof. intros Hh Hs. split; [apply found_hask; exact Hh|apply found_evaluate; assumption]. Qed.
Lemma avail_fref cx t rf : fref t = Some rf -> hask cx rf = true -> avail cx t.
Proof. intros Hf Hh. destruct (fref_not_ref _ _ Hf) as [_ He]. unfold avail. rewrite He.
  split; apply (found_fref cx t rf Hf Hh). Qed.

Lemma mapM_total {A B} (f : A -> res B) l : (forall a, In a l -> exists b, f a = Ok b) -> exists rs, mapM f l = Ok rs.
Proof. induction l as [|a l IH]; intros H; cbn [mapM]; [exists []; reflexivity|].
  destruct (H a (or_introl eq_refl)) as [b Hb]. rewrite Hb. cbn [bind].
  destruct IH as [rs Hrs]; [intros a' Ha'; apply H; right; exact Ha'|]. rewrite Hrs. cbn [bind].
  exists (b :: rs). reflexivity. Qed.

(* when every member is found the constructor succeeds *)
Lemma construct_total cx u : members_found E dir noop_leaf cx u = true -> exists r, construct E dir cx u = Ok r.
Proof.
  destruct u; cbn [members_found construct]; intros H; try discriminate H; try (eexists; reflexivity).
  - apply found_getitem in H. destruct H as [r Hr]. rewrite Hr. cbn [bind]. eexists; reflexivity.
  - apply andb_true_iff in H. destruct H as [H1 H2]. apply found_getitem in H1. apply found_getitem in H2.
    destruct H1 as [r1 Hr1]. destruct H2 as [r2 Hr2]. rewrite Hr1, Hr2. cbn [bind]. eexists; reflexivity.
  - rewrite forallb_forall in H.
    destruct (mapM_total (fun t => getitem E cx (evaluate t)) ts) as [rs Hrs].
    { intros a Ha. apply found_getitem. apply H. exact Ha. }
    rewrite Hrs. cbn [bind]. eexists; reflexivity.
  - rewrite forallb_forall in H.
    destruct (mapM_total (getitem E cx) (members_u dir ts)) as [rs Hrs].
    { intros a Ha. apply found_getitem. apply H. exact Ha. }
    rewrite Hrs. cbn [bind]. eexists; reflexivity.
  - destruct (E n) as [[cd|t]|]; try discriminate H. eexists; reflexivity.
Qed.

Lemma build_node_total cx n : node_ok E dir noop_leaf cx n = true -> exists r, build_node E dir cx n = Ok r.
Proof. unfold node_ok, build_node. destruct (ncyc n); [intros _; eexists; reflexivity|].
  intros H. apply andb_true_iff in H. destruct H as [_ Hm].
  destruct (find_key (ntype n) cx) as [r0|]; [|apply construct_total; exact Hm].
  destruct (is_delayed r0); [apply construct_total; exact Hm|eexists; reflexivity]. Qed.

(* order_ok from a per-node condition that only mentions which earlier keys are present *)
Lemma order_ok_intro ns : forall cx seen,
  (forall m, In m seen -> hask cx (ntype m) = true /\ hask cx (nunw m) = true) ->
  (forall pre n post cx', ns = pre ++ n :: post ->
      (forall m, In m (seen ++ pre) -> hask cx' (ntype m) = true /\ hask cx' (nunw m) = true) ->
      node_ok E dir noop_leaf cx' n = true) ->
  order_ok E dir noop_leaf cx ns = true.
Proof.
  induction ns as [|n rest IH]; intros cx seen Hseen H; cbn [order_ok]; [reflexivity|].
  assert (Hn : node_ok E dir noop_leaf cx n = true).
  { apply (H [] n rest cx eq_refl). rewrite app_nil_r. exact Hseen. }
  rewrite Hn. cbn [andb]. destruct (build_node_total cx n Hn) as [r Hr]. rewrite Hr.
  apply (IH _ (seen ++ [n])).
  - intros m Hm. apply in_app_or in Hm. destruct Hm as [Hm|[<-|[]]].
    + destruct (Hseen m Hm) as [H1 H2]. split; apply hask_set; apply hask_set; assumption.
    + split; [apply hask_set; apply hask_set_same|apply hask_set_same].
  - intros pre n' post cx' Heq Hcov. apply (H (n :: pre) n' post cx').
    + rewrite Heq. reflexivity.
    + intros m Hm. apply Hcov. rewrite <- app_assoc. exact Hm.
Qed.

End BuildSide.

(* ============================================================================================= *)
(* Part B: the translation commutes with the operations both models share                         *)
(* ============================================================================================= *)
Lemma mapO_In {A B} (f : A -> option B) l l' x : mapO f l = Some l' -> In x l -> exists y, f x = Some y /\ In y l'.
Proof. revert l'. induction l as [|a l IH]; intros l' H Hin; [contradiction|]. cbn [mapO] in H.
  destruct (f a) as [b|] eqn:Ea; [|discriminate H]. destruct (mapO f l) as [t|] eqn:El; [|discriminate H].
  injection H as <-. destruct Hin as [<-|Hin].
  - exists b. split; [exact Ea|left; reflexivity].
  - destruct (IH t eq_refl Hin) as [y [Hy Hin']]. exists y. split; [exact Hy|right; exact Hin']. Qed.

Lemma mapO_In_inv {A B} (f : A -> option B) l l' y : mapO f l = Some l' -> In y l' -> exists x, In x l /\ f x = Some y.
Proof. revert l'. induction l as [|a l IH]; intros l' H Hin; cbn [mapO] in H.
  - injection H as <-. contradiction.
  - destruct (f a) as [b|] eqn:Ea; [|discriminate H]. destruct (mapO f l) as [t|] eqn:El; [|discriminate H].
    injection H as <-. destruct Hin as [<-|Hin].
    + exists a. split; [left; reflexivity|exact Ea].
    + destruct (IH t eq_refl Hin) as [x [Hx Hfx]]. exists x. split; [right; exact Hx|exact Hfx]. Qed.

Lemma mapO_split {A B} (f : A -> option B) l : forall pre' n' post',
  mapO f l = Some (pre' ++ n' :: post') ->
  exists pre n post, l = pre ++ n :: post /\ mapO f pre = Some pre' /\ f n = Some n' /\ mapO f post = Some post'.
Proof. induction l as [|a l IH]; intros pre' n' post' H; cbn [mapO] in H.
  - injection H as H. destruct pre'; discriminate H.
  - destruct (f a) as [b|] eqn:Ea; [|discriminate H]. destruct (mapO f l) as [t|] eqn:El; [|discriminate H].
    injection H as H. destruct pre' as [|p pre'']; cbn [app] in H.
    + injection H as -> ->. exists [], a, l. repeat split; [exact Ea|exact El].
    + injection H as -> ->. destruct (IH pre'' n' post' eq_refl) as [pre [n [post [-> [H1 [H2 H3]]]]]].
      exists (a :: pre), n, post. repeat split; [|exact H2|exact H3]. cbn [mapO]. rewrite Ea, H1. reflexivity. Qed.

Section TrSide.
Variable N : naming.
Notation tr := (tr_ty N).

(* unfolding equations *)
Lemma tr_ty_gen g a : tr (GGen g a) =
  match gen_kind g with
  | KSeq k => match a with [x] => option_map (TSeq k) (tr x) | _ => None end
  | KMap => match a with
            | [k; v] => match tr k, tr v with Some tk, Some tv => Some (TMap (mkind N g) tk tv) | _, _ => None end
            | _ => None
            end
  | KTup => match a with
            | [] => None
            | [x; GEllipsis] => option_map (TSeq KTuple) (tr x)
            | _ => option_map TTuple (mapO tr a)
            end
  end.
Proof. reflexivity. Qed.
Lemma tr_ty_union sp ms : tr (GUnion sp ms) = option_map TUnion (mapO tr ms).
Proof. reflexivity. Qed.
Lemma tr_ty_newtype m n x : tr (GNewType m n x) = option_map (TNewType (wid N m n)) (tr x).
Proof. reflexivity. Qed.
Lemma tr_ty_alias m n x : tr (GAlias m n x) = option_map (TAlias (wid N m n)) (tr x).
Proof. reflexivity. Qed.
Lemma tr_ty_final x : tr (GFinal x) = option_map TFinal (tr x).
Proof. reflexivity. Qed.
Lemma tr_ty_aliasstr m n body : tr (GAliasStr m n body) =
  match rref N (remove_lead (m +++ "."%string) body) (Some m) with
  | Some (TRef c) => Some (TAliasStr (wid N m n) c)
  | _ => None
  end.
Proof. reflexivity. Qed.
Lemma tr_ty_ref a mo : tr (GRef a mo) =
  match rref N a mo with Some t => if ref_shape t then Some t else None | None => None end.
Proof. reflexivity. Qed.

Lemma option_map_some {A B} (f : A -> B) o y : option_map f o = Some y -> exists x, o = Some x /\ y = f x.
Proof. destruct o as [x|]; cbn [option_map]; intros H; [injection H as <-; exists x; split; reflexivity|discriminate H]. Qed.

(* the shapes a tuple annotation translates to *)
Lemma tr_tup_cases g a U : gen_kind g = KTup -> tr (GGen g a) = Some U ->
  (exists x tx, a = [x; GEllipsis] /\ tr x = Some tx /\ U = TSeq KTuple tx) \/
  (exists l, mapO tr a = Some l /\ U = TTuple l).
Proof.
  intros Hk H. rewrite tr_ty_gen, Hk in H.
  destruct a as [|x [|y [|z r]]]; [discriminate H| | |].
  - right. apply option_map_some in H. destruct H as [l [Hl ->]]. exists l. split; [exact Hl|reflexivity].
  - destruct y;
      try (right; apply option_map_some in H; destruct H as [l [Hl ->]]; exists l; split; [exact Hl|reflexivity]).
    left. apply option_map_some in H. destruct H as [tx [Hx ->]]. exists x, tx. repeat split. exact Hx.
  - destruct y; right; apply option_map_some in H; destruct H as [l [Hl ->]]; exists l; split; try exact Hl; reflexivity.
Qed.

(* the head of a translated generic *)
Lemma tr_gen_head g a U : tr (GGen g a) = Some U ->
  match U with TSeq _ _ | TMap _ _ _ | TTuple _ => True | _ => False end.
Proof.
  intros H. destruct (gen_kind g) eqn:Hk.
  - rewrite tr_ty_gen, Hk in H. destruct a as [|x [|y r]]; try discriminate H.
    apply option_map_some in H. destruct H as [tx [_ ->]]. exact I.
  - destruct (tr_tup_cases g a U Hk H) as [[x [tx [_ [_ ->]]]]|[l [_ ->]]]; exact I.
  - rewrite tr_ty_gen, Hk in H. destruct a as [|k [|v [|z r]]]; try discriminate H.
    destruct (tr k); [|discriminate H]. destruct (tr v); [|discriminate H]. injection H as <-. exact I.
Qed.

(* the result of inspection.unwrap is never a wrapper *)
Definition not_wrapper (u : gty) : Prop :=
  match u with GNewType _ _ _ | GAlias _ _ _ | GAliasStr _ _ _ | GFinal _ => False | _ => True end.
Lemma unwrap_not_wrapper c : not_wrapper (Graph.unwrap c).
Proof. induction c using gty_ind'; cbn [Graph.unwrap not_wrapper]; try exact I; assumption. Qed.

(* ---- translation commutes with unwrap ---- *)
Lemma tr_unwrap c : forall t, tr c = Some t -> tr (Graph.unwrap c) = Some (unwrap_s t).
Proof.
  induction c as [s| | | |n|g a _|sp ms _|c|m n x IH|m n x IH|m n bd|x IH|a mo] using gty_ind';
    intros t H; cbn [Graph.unwrap].
  - injection H as <-. reflexivity.
  - injection H as <-. reflexivity.
  - discriminate H.
  - injection H as <-. reflexivity.
  - injection H as <-. reflexivity.
  - rewrite H. pose proof (tr_gen_head _ _ _ H) as Hh. destruct t; try contradiction; reflexivity.
  - rewrite H. rewrite tr_ty_union in H. apply option_map_some in H. destruct H as [l [_ ->]]. reflexivity.
  - injection H as <-. reflexivity.
  - rewrite tr_ty_newtype in H. apply option_map_some in H. destruct H as [tx [Hx ->]]. cbn [unwrap_s]. apply IH. exact Hx.
  - rewrite tr_ty_alias in H. apply option_map_some in H. destruct H as [tx [Hx ->]]. cbn [unwrap_s]. apply IH. exact Hx.
  - rewrite tr_ty_aliasstr in H. rewrite tr_ty_ref.
    destruct (rref N (remove_lead (m +++ "."%string) bd) (Some m)) as [r|]; [|discriminate H].
    destruct r; try discriminate H. injection H as <-. reflexivity.
  - rewrite tr_ty_final in H. apply option_map_some in H. destruct H as [tx [Hx ->]]. cbn [unwrap_s]. apply IH. exact Hx.
  - rewrite H. rewrite tr_ty_ref in H. destruct (rref N a mo) as [r|]; [|discriminate H].
    destruct (ref_shape r) eqn:Hs; [|discriminate H]. injection H as <-.
    destruct r; try discriminate Hs; reflexivity.
Qed.

(* a translated annotation that is a reference is one that refs.forwardref can build *)
Lemma tr_ref_shape c t : tr c = Some t -> is_ref t = true -> ref_shape t = true.
Proof.
  destruct c as [s| | | |n|g a|sp ms|c|m n x|m n x|m n bd|x|a mo]; intros H Hr.
  - injection H as <-. discriminate Hr.
  - injection H as <-. discriminate Hr.
  - discriminate H.
  - injection H as <-. discriminate Hr.
  - injection H as <-. discriminate Hr.
  - pose proof (tr_gen_head _ _ _ H) as Hh. destruct t; try contradiction; discriminate Hr.
  - rewrite tr_ty_union in H. apply option_map_some in H. destruct H as [l [_ ->]]. discriminate Hr.
  - injection H as <-. discriminate Hr.
  - rewrite tr_ty_newtype in H. apply option_map_some in H. destruct H as [tx [_ ->]]. discriminate Hr.
  - rewrite tr_ty_alias in H. apply option_map_some in H. destruct H as [tx [_ ->]]. discriminate Hr.
  - rewrite tr_ty_aliasstr in H. destruct (rref N (remove_lead (m +++ "."%string) bd) (Some m)) as [r|]; [|discriminate H].
    destruct r; try discriminate H. injection H as <-. discriminate Hr.
  - rewrite tr_ty_final in H. apply option_map_some in H. destruct H as [tx [_ ->]]. discriminate Hr.
  - rewrite tr_ty_ref in H. destruct (rref N a mo) as [r|]; [|discriminate H].
    destruct (ref_shape r) eqn:Hs; [|discriminate H]. injection H as <-. exact Hs.
Qed.

(* only a class translates to a name: alias objects are structural at the graph level (GAlias / GAliasStr), so a
   translated annotation never is the name of an alias entry of a core environment *)
Lemma tr_name c n : tr c = Some (TName n) -> c = GClass n.
Proof.
  destruct c as [s| | | |n0|g a|sp ms|c|m n0 x|m n0 x|m n0 bd|x|a mo]; intros H; try discriminate H.
  - pose proof (tr_gen_head _ _ _ H) as Hh. contradiction.
  - rewrite tr_ty_union in H. apply option_map_some in H. destruct H as [l [_ Hl]]. discriminate Hl.
  - injection H as ->. reflexivity.
  - rewrite tr_ty_newtype in H. apply option_map_some in H. destruct H as [tx [_ Hl]]. discriminate Hl.
  - rewrite tr_ty_alias in H. apply option_map_some in H. destruct H as [tx [_ Hl]]. discriminate Hl.
  - rewrite tr_ty_aliasstr in H. destruct (rref N (remove_lead (m +++ "."%string) bd) (Some m)) as [r|]; [|discriminate H].
    destruct r; discriminate H.
  - rewrite tr_ty_final in H. apply option_map_some in H. destruct H as [tx [_ Hl]]. discriminate Hl.
  - rewrite tr_ty_ref in H. destruct (rref N a mo) as [r|]; [|discriminate H].
    destruct (ref_shape r) eqn:Hs; [|discriminate H]. injection H as ->. discriminate Hs.
Qed.

(* what translates is never dropped as a generic argument; as a field hint only Any is *)
Lemma tr_skip_none c t : tr c = Some t -> skip None c = false.
Proof. destruct c; cbn [skip]; intros H; try reflexivity. discriminate H. Qed.
Lemma tr_skip_some c t v : tr c = Some t -> skip (Some v) c = true -> c = GAny.
Proof. destruct c; cbn [skip]; intros H Hs; try discriminate Hs; [discriminate H|reflexivity]. Qed.

End TrSide.

(* ============================================================================================= *)
(* Part C: the members graph._level lists are the member positions the constructors look up        *)
(* ============================================================================================= *)
Section Members.
Variable N : naming.
Variable E : Graph.env.
Variable E' : env.
Variable dir : bool.
Variable noop_leaf : nat -> bool.
Notation tr := (tr_ty N).

(* the core class E' has for a graph class: same field types, position by position *)
Definition class_rel (d : Graph.classdef) (o : option ndef) : Prop :=
  exists cd, o = Some (NClass cd) /\ mapO tr (map snd (Graph.cfields d)) = Some (map fty (cfields cd)).

Lemma in_level_arg g a x : In x a -> In (@None Graph.str, x) (level E (GGen g a)).
Proof. intros H. unfold level. apply in_or_app. left. cbn [args_of]. apply (in_map (fun y => (@None Graph.str, y))). exact H. Qed.
Lemma in_level_union sp ms x : In x ms -> In (@None Graph.str, x) (level E (GUnion sp ms)).
Proof. intros H. unfold level. apply in_or_app. left. cbn [args_of]. apply (in_map (fun y => (@None Graph.str, y))). exact H. Qed.

Lemma union_stack_u_In ts t : In t (union_stack_u ts) -> In t ts.
Proof. unfold union_stack_u, none_first. destruct (isoptional ts); [|exact (fun H => H)].
  intros H. apply in_app_or in H. destruct H as [H|H]; apply filter_In in H; exact (proj1 H). Qed.

Lemma members_found_tr cx u U :
  not_wrapper u -> tr u = Some U ->
  (forall c, u = GClass c -> exists d, E c = Some d /\ class_rel d (E' c) /\
                                       (In GAny (map snd (Graph.cfields d)) -> noop_leaf (any_id N) = true)) ->
  (forall var c, In (var, c) (level E u) -> skip var c = false -> exists t, tr c = Some t /\ avail E' cx t) ->
  members_found E' dir noop_leaf cx U = true.
Proof.
  intros Hnw H Hcls Hmem.
  assert (Harg : forall x tx, In (@None Graph.str, x) (level E u) -> tr x = Some tx -> avail E' cx tx).
  { intros x tx Hin Hx. destruct (Hmem None x Hin (tr_skip_none N x tx Hx)) as [t [Ht Ha]].
    rewrite Hx in Ht. injection Ht as <-. exact Ha. }
  destruct u as [s| | | |n|g a|sp ms|c|m n x|m n x|m n bd|x|a mo]; try contradiction.
  - injection H as <-. reflexivity.
  - injection H as <-. reflexivity.
  - discriminate H.
  - injection H as <-. reflexivity.
  - injection H as <-. reflexivity.
  - (* generics *)
    destruct (gen_kind g) eqn:Hk.
    + rewrite tr_ty_gen, Hk in H. destruct a as [|x [|y r]]; try discriminate H.
      apply option_map_some in H. destruct H as [tx [Hx ->]]. cbn [members_found].
      exact (proj2 (Harg x tx (in_level_arg g [x] x (or_introl eq_refl)) Hx)).
    + destruct (tr_tup_cases N g a U Hk H) as [[x [tx [-> [Hx ->]]]]|[l [Hl ->]]]; cbn [members_found].
      * exact (proj2 (Harg x tx (in_level_arg g [x; GEllipsis] x (or_introl eq_refl)) Hx)).
      * apply forallb_forall. intros t Ht. destruct (mapO_In_inv _ _ _ _ Hl Ht) as [x [Hx Hxt]].
        exact (proj2 (Harg x t (in_level_arg g a x Hx) Hxt)).
    + rewrite tr_ty_gen, Hk in H. destruct a as [|k [|v [|z r]]]; try discriminate H.
      destruct (tr k) as [tk|] eqn:Hkk; [|discriminate H]. destruct (tr v) as [tv|] eqn:Hv; [|discriminate H].
      injection H as <-. cbn [members_found]. apply andb_true_iff. split.
      * exact (proj2 (Harg k tk (in_level_arg g [k; v] k (or_introl eq_refl)) Hkk)).
      * exact (proj2 (Harg v tv (in_level_arg g [k; v] v (or_intror (or_introl eq_refl))) Hv)).
  - (* unions *)
    rewrite tr_ty_union in H. apply option_map_some in H. destruct H as [l [Hl ->]]. cbn [members_found].
    apply forallb_forall. intros t Ht. unfold members_u in Ht. apply in_map_iff in Ht. destruct Ht as [t0 [<- Ht0]].
    assert (Hin : In t0 l) by (destruct dir; [apply union_stack_u_In; exact Ht0|exact Ht0]).
    destruct (mapO_In_inv _ _ _ _ Hl Hin) as [x [Hx Hxt]].
    exact (proj2 (Harg x t0 (in_level_union sp ms x Hx) Hxt)).
  - (* classes *)
    injection H as <-. destruct (Hcls c eq_refl) as [d [Hd [[cd [Hcd Hf]] Hany]]]. cbn [members_found]. rewrite Hcd.
    apply forallb_forall. intros fd Hfd.
    destruct (mapO_In_inv _ _ _ _ Hf (in_map fty _ _ Hfd)) as [gx [Hgx Hgt]].
    apply in_map_iff in Hgx. destruct Hgx as [[nm gx'] [Heq Hgfd]]. cbn [snd] in Heq. subst gx'.
    assert (Hlev : In (Some nm, gx) (level E (GClass c))).
    { unfold level. cbn [args_of map app hints]. rewrite Hd.
      apply (in_map (fun fd => (Some (fst fd), snd fd)) _ (nm, gx)). exact Hgfd. }
    destruct (skip (Some nm) gx) eqn:Hsk.
    + pose proof (tr_skip_some N gx _ nm Hgt Hsk) as ->. injection Hgt as Hgt. rewrite <- Hgt. cbn [norm is_noop].
      rewrite Hany; [apply orb_true_r|]. apply in_map_iff. exists (nm, GAny). split; [reflexivity|exact Hgfd].
    + destruct (Hmem (Some nm) gx Hlev Hsk) as [t [Ht [Ha _]]]. rewrite Hgt in Ht. injection Ht as <-.
      rewrite Ha. reflexivity.
  - (* references *)
    rewrite tr_ty_ref in H. destruct (rref N a mo) as [r|]; [|discriminate H].
    destruct (ref_shape r) eqn:Hs; [|discriminate H]. injection H as <-.
    destruct r; try discriminate Hs; reflexivity.
Qed.

End Members.

(* ============================================================================================= *)
(* Part D: positions in a duplicate-free order                                                    *)
(* ============================================================================================= *)
Lemma node_eqb_sym a b : node_eqb a b = true -> node_eqb b a = true.
Proof. intros H. rewrite <- (node_eqb_cong _ _ H a). apply node_eqb_refl. Qed.
Lemma node_eqb_sym_false a b : node_eqb a b = false -> node_eqb b a = false.
Proof. intros H. destruct (node_eqb b a) eqn:Hba; [|reflexivity]. apply node_eqb_sym in Hba. congruence. Qed.

Lemma nodupb_notin pre n post : nodupb (pre ++ n :: post) = true -> forall x, In x pre -> node_eqb x n = false.
Proof. induction pre as [|y pre IH]; intros H x Hin; [contradiction|]. cbn [app nodupb] in H.
  apply andb_true_iff in H. destruct H as [H1 H2]. destruct Hin as [<-|Hin]; [|exact (IH H2 x Hin)].
  apply negb_true_iff in H1. unfold inb in H1. rewrite existsb_app in H1. apply orb_false_iff in H1.
  destruct H1 as [_ H1]. cbn [existsb] in H1. apply orb_false_iff in H1. exact (proj1 H1). Qed.

Lemma pos_app_first pre n post p :
  (forall x, In x pre -> node_eqb p x = false) -> node_eqb p n = true -> pos p (pre ++ n :: post) = Some (List.length pre).
Proof. induction pre as [|y pre IH]; intros H Hn; cbn [app pos List.length].
  - rewrite Hn. reflexivity.
  - rewrite (H y (or_introl eq_refl)). rewrite IH; [reflexivity| |exact Hn]. intros x Hx. apply H. right. exact Hx. Qed.

Lemma pos_lt_in m pre rest : forall i, pos m (pre ++ rest) = Some i -> i < List.length pre ->
  exists m', In m' pre /\ node_eqb m m' = true.
Proof. induction pre as [|y pre IH]; intros i H Hi; [cbn in Hi; lia|]. cbn [app pos] in H.
  destruct (node_eqb m y) eqn:Hy.
  - exists y. split; [left; reflexivity|exact Hy].
  - destruct (pos m (pre ++ rest)) as [j|] eqn:Hp; [|discriminate H]. injection H as <-. cbn [List.length] in Hi.
    destruct (IH j eq_refl) as [m' [Hin Hm]]; [lia|]. exists m'. split; [right; exact Hin|exact Hm]. Qed.

Lemma pos_bound a l : forall j, pos a l = Some j -> j < List.length l.
Proof. induction l as [|x l IH]; intros j H; cbn [pos] in H; [discriminate H|].
  destruct (node_eqb a x); [injection H as <-; cbn; lia|].
  destruct (pos a l) as [i|]; [|discriminate H]. injection H as <-. specialize (IH i eq_refl). cbn [List.length]. lia. Qed.

(* whoever is strictly before the node at a given place of a duplicate-free order stands left of it *)
Lemma before_split pre n post p m :
  nodupb (pre ++ n :: post) = true -> node_eqb p n = true -> before m p (pre ++ n :: post) ->
  exists m', In m' pre /\ node_eqb m m' = true.
Proof. intros Hnd Hpn [i [j [Hi [Hj Hij]]]].
  assert (Hp : pos p (pre ++ n :: post) = Some (List.length pre)).
  { apply pos_app_first; [|exact Hpn]. intros x Hx. destruct (node_eqb p x) eqn:Hpx; [|reflexivity].
    pose proof (nodupb_notin _ _ _ Hnd x Hx) as Hxn. rewrite <- (node_eqb_cong _ _ Hpx n) in Hxn. congruence. }
  rewrite Hp in Hj. injection Hj as <-. exact (pos_lt_in _ _ _ _ Hi Hij). Qed.

(* ============================================================================================= *)
(* Part E: the main lemma                                                                         *)
(* ============================================================================================= *)
(* A deferred node of the graph model is acceptable to the factory model when it is the member deferred as
   itself, or when the reference built for the member translates to the reference the context falls back
   to (refs.forwardref of the member) and the reference built for the unwrapped form has the same normal
   form.  nfor is the member the node stands for (book-keeping of the graph model). *)
Definition cyc_ok (N : naming) (n : Graph.node) : bool :=
  let c := Graph.nfor n in
  node_eqb n (mkdefer c (Graph.unwrap c) (Graph.nvar n))
  || match tr_ty N (Graph.ntype n), tr_ty N (Graph.nunw n), tr_ty N c with
     | Some t, Some u, Some tc =>
         match fref tc with Some rf => ty_eqb rf t | None => false end && ty_eqb (norm u) (norm t)
     | _, _, _ => false
     end.

Lemma key_shape fuel E root g p preds : type_graph fuel E root = Graph.Ok g -> In (p, preds) g ->
  Graph.ncyc p = false /\ Graph.nunw p = Graph.unwrap (Graph.ntype p).
Proof. intros Hg Hin. unfold type_graph in Hg. apply (bfs_key_shape _ _ _ _ _ Hg) with (preds := preds); [|exact Hin].
  intros q [<-|[]]. split; reflexivity. Qed.

Lemma order_root_last fuel E root g order :
  type_graph fuel E root = Graph.Ok g -> is_topo_order g order ->
  exists pre r, order = pre ++ [r] /\ node_eqb r (root_node root) = true.
Proof. intros Hg Ht. destruct (root_last fuel E root g order Hg Ht) as [Hin Hbef].
  assert (Hcase : order = [] \/ exists pre r, order = pre ++ [r]).
  { clear. induction order as [|r pre _] using rev_ind; [left; reflexivity|right; exists pre, r; reflexivity]. }
  destruct Hcase as [->|[pre [r ->]]]; [discriminate Hin|].
  exists pre, r. split; [reflexivity|]. destruct (node_eqb r (root_node root)) eqn:Hr; [reflexivity|exfalso].
  assert (Hrin : In r (pre ++ [r])) by (apply in_or_app; right; left; reflexivity).
  destruct (Hbef r Hrin Hr) as [i [j [Hi [Hj Hij]]]].
  assert (Hp : pos r (pre ++ [r]) = Some (List.length pre)).
  { apply pos_app_first; [|apply node_eqb_refl]. intros x Hx. apply node_eqb_sym_false.
    exact (nodupb_notin _ _ _ (proj1 Ht) x Hx). }
  rewrite Hp in Hi. injection Hi as <-. apply pos_bound in Hj. rewrite app_length in Hj. cbn [List.length] in Hj. lia. Qed.

Section Main.
Variable N : naming.
Variable E : Graph.env.
Variable E' : env.
Variable dir : bool.
Variable noop_leaf : nat -> bool.
Variables (fuel : nat) (root : gty) (g : adjacency) (order : list Graph.node).
Hypothesis Hg : type_graph fuel E root = Graph.Ok g.
Hypothesis Ht : is_topo_order g order.
(* every expanded class has a core class with the same field types; Any fields pass through *)
Hypothesis Hcls : forall p preds c, In (p, preds) g -> Graph.nunw p = GClass c ->
  exists d, E c = Some d /\ class_rel N d (E' c) /\ (In GAny (map snd (Graph.cfields d)) -> noop_leaf (any_id N) = true).
(* every deferred node is acceptable *)
Hypothesis Hcyc : forall p preds n, In (p, preds) g -> In n preds -> Graph.ncyc n = true -> cyc_ok N n = true.
Notation tr := (tr_ty N).

Lemma in_order_graph n : In n order -> exists m0, In m0 (adj_nodes g) /\ node_eqb n m0 = true.
Proof. intros Hn. destruct Ht as [_ [_ [Hback _]]]. exact (inb_exists _ _ (Hback n Hn)). Qed.

Lemma node_ok_tr pre n post n' cx' :
  order = pre ++ n :: post -> tr_node N n = Some n' ->
  (forall m, In m pre -> exists t u, tr (Graph.ntype m) = Some t /\ tr (Graph.nunw m) = Some u /\
                                     hask cx' t = true /\ hask cx' u = true) ->
  node_ok E' dir noop_leaf cx' n' = true.
Proof.
  intros Ho Hn Hcov. unfold tr_node in Hn.
  destruct (tr (Graph.ntype n)) as [t|] eqn:Ht1; [|discriminate Hn].
  destruct (tr (Graph.nunw n)) as [u|] eqn:Hu1; [|discriminate Hn]. injection Hn as <-.
  assert (Hin : In n order) by (rewrite Ho; apply in_or_app; right; left; reflexivity).
  destruct (in_order_graph n Hin) as [m0 [Hm0 Hnm0]].
  destruct (node_eqb_true _ _ Hnm0) as [Hty [Hun [_ Hcy]]].
  unfold node_ok. cbn [ncyc ntype nunw]. destruct (Graph.ncyc n) eqn:Hc.
  - (* a deferred node *)
    unfold adj_nodes in Hm0. apply in_flat_map in Hm0. destruct Hm0 as [[p preds] [Hpin Hm0]]. cbn [fst snd] in Hm0.
    destruct Hm0 as [<-|Hm0]; [destruct (key_shape _ _ _ _ _ _ Hg Hpin) as [Hk _]; congruence|].
    assert (Hok : cyc_ok N m0 = true) by (apply (Hcyc p preds m0 Hpin Hm0); congruence).
    unfold cyc_ok in Hok. apply orb_true_iff in Hok. apply orb_true_iff. left. destruct Hok as [Hd|Hr].
    + destruct (node_eqb_true _ _ Hd) as [Hd1 [Hd2 _]]. cbn [Graph.ntype Graph.nunw mkdefer] in Hd1, Hd2.
      rewrite <- Hty in Hd1. rewrite <- Hun, <- Hd1 in Hd2. rewrite Hd2 in Hu1.
      rewrite (tr_unwrap N _ _ Ht1) in Hu1. injection Hu1 as <-. rewrite norm_unwrap_s. apply ty_eqb_refl.
    + rewrite <- Hty, <- Hun, Ht1, Hu1 in Hr. destruct (tr (nfor m0)) as [tc|]; [|discriminate Hr].
      apply andb_true_iff in Hr. exact (proj2 Hr).
  - (* an expanded node *)
    destruct (nodes_served fuel E root g Hg m0 Hm0) as [preds Hpin]; [congruence|].
    destruct (key_shape _ _ _ _ _ _ Hg Hpin) as [_ Hsh]. rewrite <- Hty, <- Hun in Hsh.
    assert (Hu : u = unwrap_s t).
    { pose proof Hu1 as Hu2. rewrite Hsh in Hu2. rewrite (tr_unwrap N _ _ Ht1) in Hu2. injection Hu2 as <-. reflexivity. }
    (* the core environment has a CLASS under every name an expanded node unwraps to: unwrap does not leave the
       structural part *)
    assert (Hue : unwrap E' t = u).
    { rewrite Hu. apply unwrap_class. intros c Hc'. rewrite <- Hu in Hc'. rewrite Hc' in Hu1.
      pose proof (tr_name N _ _ Hu1) as Hgc.
      destruct (Hcls m0 preds c Hpin) as [d [_ [[cd [Hcd _]] _]]]; [rewrite <- Hun; exact Hgc|].
      exists cd. exact Hcd. }
    apply andb_true_iff. split; [rewrite Hue; apply ty_eqb_refl|].
    apply (members_found_tr N E E' dir noop_leaf cx' (Graph.nunw n) u).
    + rewrite Hsh. apply unwrap_not_wrapper.
    + exact Hu1.
    + intros c Hc'. apply (Hcls m0 preds c Hpin). rewrite <- Hun. exact Hc'.
    + intros var c Hlev Hsk.
      destruct (is_literal (Graph.unwrap (Graph.ntype m0))) eqn:Hlit.
      { exfalso. rewrite Hsh, Hty in Hlev. destruct (Graph.unwrap (Graph.ntype m0)); try discriminate Hlit;
          cbn in Hlev; exact Hlev. }
      rewrite Hsh, Hty in Hlev.
      destruct (members_before fuel E root g order Hg Ht m0 preds Hpin Hlit var c Hlev Hsk) as [m [Hmp [Hbef Hrep]]].
      assert (Hnd : nodupb (pre ++ n :: post) = true) by (rewrite <- Ho; exact (proj1 Ht)).
      rewrite Ho in Hbef.
      destruct (before_split pre n post m0 m Hnd (node_eqb_sym _ _ Hnm0) Hbef) as [m' [Hm'pre Hmm']].
      destruct (node_eqb_true _ _ Hmm') as [Hmt [Hmu _]].
      destruct (Hcov m' Hm'pre) as [tm [um [Htm [Hum [Hh1 Hh2]]]]]. rewrite <- Hmt in Htm.
      assert (Hself : Graph.ntype m = c -> exists t0, tr c = Some t0 /\ avail E' cx' t0).
      { intros Hmc. rewrite Hmc in Htm. exists tm. split; [exact Htm|].
        apply avail_key; [exact Hh1|]. intros Hr. exact (tr_ref_shape N c tm Htm Hr). }
      destruct Hrep as [_ [Hfor [[_ Hm]|[[_ [Hm _]]|[Hmc [_ _]]]]]].
      * apply Hself. rewrite Hm. reflexivity.
      * apply Hself. rewrite Hm. reflexivity.
      * assert (Hok : cyc_ok N m = true) by (apply (Hcyc m0 preds m Hpin Hmp Hmc)).
        unfold cyc_ok in Hok. rewrite Hfor in Hok. apply orb_true_iff in Hok. destruct Hok as [Hd|Hr].
        -- apply Hself. destruct (node_eqb_true _ _ Hd) as [Hd1 _]. exact Hd1.
        -- rewrite Htm in Hr. destruct (tr (Graph.nunw m)) as [u1|]; [|discriminate Hr].
           destruct (tr c) as [tc|] eqn:Htc; [|discriminate Hr].
           apply andb_true_iff in Hr. destruct Hr as [Hr _].
           destruct (fref tc) as [rf|] eqn:Hrf; [|discriminate Hr]. apply ty_eqb_eq in Hr. subst rf.
           exists tc. split; [reflexivity|]. exact (avail_fref E' cx' tc tm Hrf Hh1).
Qed.

(* Every topological order of the adjacency the graph model builds, translated, satisfies the contract
   of the factory model. *)
Theorem order_ok_from_graph ns :
  tr_order N order = Some ns -> order_ok E' dir noop_leaf [] ns = true.
Proof.
  intros Htr. apply (order_ok_intro E' dir noop_leaf ns [] []); [intros m []|].
  intros pre' n' post' cx' Heq Hcov. cbn [app] in Hcov. unfold tr_order in Htr. rewrite Heq in Htr.
  destruct (mapO_split _ _ _ _ _ Htr) as [pre [n [post [Ho [Hpre [Hn _]]]]]].
  apply (node_ok_tr pre n post n' cx' Ho Hn). intros m Hm.
  destruct (mapO_In _ _ _ _ Hpre Hm) as [m' [Hm' Hin']]. unfold tr_node in Hm'.
  destruct (tr (Graph.ntype m)) as [t|]; [|discriminate Hm']. destruct (tr (Graph.nunw m)) as [u|]; [|discriminate Hm'].
  injection Hm' as <-. exists t, u. destruct (Hcov _ Hin') as [H1 H2]. cbn [ntype nunw] in H1, H2.
  repeat split; assumption.
Qed.

(* ... and its last node is the root's own *)
Theorem root_from_graph ns T :
  tr_order N order = Some ns -> tr root = Some T ->
  exists pre r, ns = pre ++ [r] /\ ntype r = T.
Proof.
  intros Htr HT. destruct (order_root_last fuel E root g order Hg Ht) as [pre [r [Ho Hr]]].
  unfold tr_order in Htr. rewrite Ho in Htr.
  assert (Hsp : forall l l', mapO (tr_node N) (l ++ [r]) = Some l' ->
                  exists pre' r', l' = pre' ++ [r'] /\ tr_node N r = Some r').
  { clear. induction l as [|a l IH]; intros l' H; cbn [app mapO] in H.
    - destruct (tr_node N r) as [r'|]; [|discriminate H]. injection H as <-. exists [], r'. split; reflexivity.
    - destruct (tr_node N a) as [a'|]; [|discriminate H].
      destruct (mapO (tr_node N) (l ++ [r])) as [t|] eqn:El; [|discriminate H]. injection H as <-.
      destruct (IH t eq_refl) as [pre' [r' [-> Hr']]]. exists (a' :: pre'), r'. split; [reflexivity|exact Hr']. }
  destruct (Hsp pre ns Htr) as [pre' [r' [-> Hr']]]. exists pre', r'. split; [reflexivity|].
  unfold tr_node in Hr'. destruct (node_eqb_true _ _ Hr) as [Hty _]. cbn [Graph.ntype root_node mknode] in Hty.
  rewrite Hty, HT in Hr'. destruct (tr (Graph.nunw r)) as [u|]; [|discriminate Hr']. injection Hr' as <-. reflexivity.
Qed.

End Main.

(* ============================================================================================= *)
(* Part F: computable guards, the translated environment, the contract of graph.static_order       *)
(* ============================================================================================= *)
Definition is_any (t : gty) : bool := match t with GAny => true | _ => false end.

(* an expanded class is described by the environment, all of its field types translate, and when one of
   them is Any (no node: graph.py drops it) the Any leaf is a pass-through leaf of the factory model *)
Definition class_guard (N : naming) (E : Graph.env) (noop_leaf : nat -> bool) (u : gty) : bool :=
  match u with
  | GClass c =>
      match E c with
      | Some d => match tr_class N c d with Some _ => true | None => false end
                  && (negb (existsb is_any (map snd (Graph.cfields d))) || noop_leaf (any_id N))
      | None => false
      end
  | _ => true
  end.
Definition classes_ok (N : naming) (E : Graph.env) (noop_leaf : nat -> bool) (g : adjacency) : bool :=
  forallb (fun e => class_guard N E noop_leaf (Graph.nunw (fst e))) g.
Definition refs_ok (N : naming) (g : adjacency) : bool :=
  forallb (fun e => forallb (fun n => negb (Graph.ncyc n) || cyc_ok N n) (snd e)) g.
Definition bridge_guard (N : naming) (E : Graph.env) (noop_leaf : nat -> bool) (g : adjacency) : bool :=
  classes_ok N E noop_leaf g && refs_ok N g.

Lemma mapO_tr_field N c l : forall fs, mapO (tr_field N c) l = Some fs -> mapO (tr_ty N) (map snd l) = Some (map fty fs).
Proof. induction l as [|fd l IH]; intros fs H; cbn [mapO map] in *.
  - injection H as <-. reflexivity.
  - unfold tr_field in H at 1. destruct (tr_ty N (snd fd)) as [t|]; [|discriminate H].
    destruct (mapO (tr_field N c) l) as [r|]; [|discriminate H]. injection H as <-.
    rewrite (IH r eq_refl). reflexivity. Qed.

Lemma class_guard_rel N E noop_leaf c :
  class_guard N E noop_leaf (GClass c) = true ->
  exists d, E c = Some d /\ class_rel N d (tr_env N E c) /\
            (In GAny (map snd (Graph.cfields d)) -> noop_leaf (any_id N) = true).
Proof. cbn [class_guard]. unfold tr_env. destruct (E c) as [d|]; [|discriminate].
  intros H. apply andb_true_iff in H. destruct H as [H1 H2]. exists d. split; [reflexivity|].
  destruct (tr_class N c d) as [cd|] eqn:Hcd; [|discriminate H1]. split.
  - exists cd. split; [reflexivity|]. unfold tr_class in Hcd.
    destruct (mapO (tr_field N c) (Graph.cfields d)) as [fs|] eqn:Hfs; [|discriminate Hcd]. injection Hcd as <-.
    cbn [cfields]. exact (mapO_tr_field N c _ fs Hfs).
  - intros Hany. apply orb_true_iff in H2. destruct H2 as [H2|H2]; [|exact H2].
    apply negb_true_iff in H2. assert (Hex : existsb is_any (map snd (Graph.cfields d)) = true).
    { apply existsb_exists. exists GAny. split; [exact Hany|reflexivity]. }
    congruence. Qed.

(* the main lemma with computable guards, for the translated environment *)
Theorem order_ok_from_graph_guarded N E dir noop_leaf fuel root g order ns :
  type_graph fuel E root = Graph.Ok g -> is_topo_order g order ->
  bridge_guard N E noop_leaf g = true ->
  tr_order N order = Some ns ->
  order_ok (tr_env N E) dir noop_leaf [] ns = true.
Proof.
  intros Hg Ht Hb Htr. unfold bridge_guard in Hb. apply andb_true_iff in Hb. destruct Hb as [Hc Hr].
  unfold classes_ok in Hc. unfold refs_ok in Hr. rewrite forallb_forall in Hc. rewrite forallb_forall in Hr.
  apply (order_ok_from_graph N E (tr_env N E) dir noop_leaf fuel root g order Hg Ht); [| |exact Htr].
  - intros p preds c Hin Hu. apply class_guard_rel. specialize (Hc (p, preds) Hin). cbn [fst] in Hc.
    rewrite Hu in Hc. exact Hc.
  - intros p preds n Hin Hn Hcy. specialize (Hr (p, preds) Hin). cbn [snd] in Hr. rewrite forallb_forall in Hr.
    specialize (Hr n Hn). rewrite Hcy in Hr. exact Hr.
Qed.

(* graph.static_order as the graph model sees it: whatever `orders` returns for an annotation is the
   translation of SOME topological order (graphlib's contract) of the adjacency the graph model builds for
   a root that translates to that annotation, inside the guards *)
Definition graph_orders (N : naming) (E : Graph.env) (noop_leaf : nat -> bool) (orders : ty -> option (list node)) : Prop :=
  forall t ns, orders t = Some ns ->
    exists fuel root g order,
      tr_ty N root = Some t /\ type_graph fuel E root = Graph.Ok g /\ is_topo_order g order /\
      bridge_guard N E noop_leaf g = true /\ tr_order N order = Some ns.

Theorem contract_from_graph N E dir noop_leaf orders :
  graph_orders N E noop_leaf orders ->
  forall t ns, orders t = Some ns ->
    exists pre root, ns = pre ++ [root] /\ order_ok (tr_env N E) dir noop_leaf [] ns = true /\ norm (ntype root) = norm t.
Proof.
  intros Hgo t ns Ho. destruct (Hgo t ns Ho) as [fuel [root [g [order [HT [Hg [Ht [Hb Htr]]]]]]]].
  destruct (root_from_graph N E fuel root g order Hg Ht ns t Htr HT) as [pre [r [-> Hr]]].
  exists pre, r. split; [reflexivity|]. split.
  - exact (order_ok_from_graph_guarded N E dir noop_leaf fuel root g order _ Hg Ht Hb Htr).
  - rewrite Hr. reflexivity.
Qed.

(* C05 without the order hypothesis *)
Theorem unmarshal_from_graph (rt : runtime) N E noop_leaf orders :
  graph_orders N E noop_leaf orders ->
  (forall s x, noop_leaf s = true -> leaf_u rt s x = Ok x) ->
  forall T fuel x,
    done (api_call rt (tr_env N E) orders true fuel T x) = true ->
    exists m, forall m', m' >= m -> unm rt (tr_env N E) m' T x = api_call rt (tr_env N E) orders true fuel T x.
Proof. intros Hgo Hn T fuel x Hd.
  exact (api_u_sound rt (tr_env N E) noop_leaf orders (contract_from_graph N E true noop_leaf orders Hgo) Hn T fuel x Hd). Qed.

Theorem marshal_from_graph (rt : runtime) N E noop_leaf orders :
  graph_orders N E noop_leaf orders ->
  (forall s x, noop_leaf s = true -> leaf_m rt s x = Ok x) ->
  forall T fuel x,
    done (api_call rt (tr_env N E) orders false fuel T x) = true ->
    exists m, forall m', m' >= m -> mar rt (tr_env N E) m' T x = api_call rt (tr_env N E) orders false fuel T x.
Proof. intros Hgo Hn T fuel x Hd.
  exact (api_m_sound rt (tr_env N E) noop_leaf orders (contract_from_graph N E false noop_leaf orders Hgo) Hn T fuel x Hd). Qed.

(* the boolean check of graphlib's contract (decided by the tie on every observed order) implies the contract *)
Lemma is_topo_orderb_sound g order : is_topo_orderb g order = true -> is_topo_order g order.
Proof.
  unfold is_topo_orderb, is_topo_order. intros H.
  apply andb_true_iff in H. destruct H as [H H4]. apply andb_true_iff in H. destruct H as [H H3].
  apply andb_true_iff in H. destruct H as [H1 H2].
  rewrite forallb_forall in H2. rewrite forallb_forall in H3. rewrite forallb_forall in H4.
  split; [exact H1|]. split; [exact H2|]. split; [exact H3|].
  intros p preds c Hin Hc. specialize (H4 (p, preds) Hin). cbn [fst snd] in H4. rewrite forallb_forall in H4.
  specialize (H4 c Hc). unfold beforeb in H4. unfold before.
  destruct (pos c order) as [i|]; [|discriminate H4]. destruct (pos p order) as [j|]; [|discriminate H4].
  exists i, j. repeat split. apply Nat.ltb_lt. exact H4.
Qed.

(* ============================================================================================= *)
(* Part G: refs_ok from a law about names                                                         *)
(* ============================================================================================= *)
(* The resolver agrees with the environment on a universe of named objects (the classes, leaf classes,
   NewTypes and aliases a program defines): the name of such an object, looked up in its module, evaluates
   to the object -- its translation is refs.forwardref of the translated object.  This is the law
   C09_denotes states for refs.evaluate, read through the translation; over a finite universe it is
   computable (names_okb). *)
Definition names_ok (N : naming) (E : Graph.env) (univ : list gty) : Prop :=
  forall c m nm tc, In c univ -> named E c = Some (m, nm) -> tr_ty N c = Some tc ->
    exists rf, fref tc = Some rf /\ tr_ty N (GRef nm (Some m)) = Some rf.
Definition names_okb (N : naming) (E : Graph.env) (univ : list gty) : bool :=
  forallb (fun c =>
    match named E c, tr_ty N c with
    | Some (m, nm), Some tc =>
        match fref tc, tr_ty N (GRef nm (Some m)) with Some rf, Some rf' => ty_eqb rf rf' | _, _ => false end
    | _, _ => true
    end) univ.
Lemma names_okb_sound N E univ : names_okb N E univ = true -> names_ok N E univ.
Proof. unfold names_okb, names_ok. intros H c m nm tc Hin Hn Htc. rewrite forallb_forall in H.
  specialize (H c Hin). rewrite Hn, Htc in H. destruct (fref tc) as [rf|]; [|discriminate H].
  destruct (tr_ty N (GRef nm (Some m))) as [rf'|]; [|discriminate H]. apply ty_eqb_eq in H. subst rf'.
  exists rf. split; reflexivity. Qed.

(* the member a reference is built for: in the universe, inside C09's guard (its reference text is its
   name), and its unwrapped form is an object of the universe named in the same module whose name
   refs.forwardref leaves alone *)
Definition ref_guard (E : Graph.env) (univ : list gty) (c : gty) : bool :=
  denotes_guard E c && mem c univ && mem (Graph.unwrap c) univ &&
  match named E c, named E (Graph.unwrap c) with
  | Some (m, _), Some (mu, nu) => String.eqb mu m && String.eqb (remove_lead (m +++ "."%string) nu) nu
  | _, _ => false
  end.

Lemma named_qualname E c m nm : named E c = Some (m, nm) -> qualname E c = nm.
Proof. destruct c as [s| | | |l|g a|sp ms|k|m' n' t|m' n' t|m' n' bd|t|a mo]; cbn [named qualname]; intros H; try discriminate H.
  - injection H as _ <-. reflexivity.
  - destruct (E k) as [d|]; [|discriminate H]. injection H as _ <-. reflexivity.
  - injection H as _ <-. reflexivity.
  - injection H as _ <-. reflexivity.
  - injection H as _ <-. reflexivity. Qed.

Lemma mkref_parts E c u var n : mkref E c u var = Some n ->
  exists m0 r, Graph.ntype n = GRef (remove_lead (m0 +++ "."%string) r) (Some m0) /\
               Graph.nunw n = GRef (remove_lead (m0 +++ "."%string) (qualname E u)) (Some m0).
Proof. unfold mkref. destruct (ref_parts E c) as [[m0 r]|]; [|discriminate]. intros H. injection H as <-.
  exists m0, r. split; reflexivity. Qed.

Lemma cyc_ok_named N E univ c var n tc :
  names_ok N E univ -> mkref E c (Graph.unwrap c) var = Some n -> ref_guard E univ c = true -> tr_ty N c = Some tc ->
  cyc_ok N n = true.
Proof.
  intros Hlaw Hmk Hg Htc. unfold ref_guard in Hg. apply andb_true_iff in Hg. destruct Hg as [Hg Hnm].
  apply andb_true_iff in Hg. destruct Hg as [Hg Hu2]. apply andb_true_iff in Hg. destruct Hg as [Hdg Hu1].
  apply mem_In in Hu1. apply mem_In in Hu2.
  destruct (named E c) as [[m nm]|] eqn:Hnc; [|discriminate Hnm].
  destruct (named E (Graph.unwrap c)) as [[mu nu]|] eqn:Hnu; [|discriminate Hnm].
  apply andb_true_iff in Hnm. destruct Hnm as [Hmu Hrm]. apply String.eqb_eq in Hmu. subst mu. apply String.eqb_eq in Hrm.
  pose proof (mkref_denotes E c _ var n m nm Hmk Hdg Hnc) as Hty.
  destruct (mkref_parts E c _ var n Hmk) as [m0 [r [Hty0 Hun0]]].
  rewrite Hty in Hty0. injection Hty0 as _ Hm0. subst m0.
  rewrite (named_qualname E _ m nu Hnu), Hrm in Hun0.
  destruct (mkref_shape E c _ var n Hmk) as [_ [_ [_ Hfor]]].
  destruct (Hlaw c m nm tc Hu1 Hnc Htc) as [rf [Hrf Hr1]].
  destruct (Hlaw _ m nu _ Hu2 Hnu (tr_unwrap N c tc Htc)) as [rfu [Hrfu Hr2]].
  unfold cyc_ok. rewrite Hfor, Hty, Hun0, Hr1, Hr2, Htc, Hrf. apply orb_true_iff. right.
  rewrite ty_eqb_refl. cbn [andb].
  rewrite (norm_fref _ _ Hrfu), (norm_fref _ _ Hrf), norm_unwrap_s. apply ty_eqb_refl.
Qed.

(* computable: every deferred node is the member deferred as itself, or stands for a translatable member
   inside ref_guard *)
Definition named_refs_ok (N : naming) (E : Graph.env) (univ : list gty) (g : adjacency) : bool :=
  forallb (fun e => forallb (fun n =>
      negb (Graph.ncyc n)
      || node_eqb n (mkdefer (nfor n) (Graph.unwrap (nfor n)) (nvar n))
      || (ref_guard E univ (nfor n) && match tr_ty N (nfor n) with Some _ => true | None => false end)) (snd e)) g.

Theorem refs_ok_from_names N E univ fuel root g :
  type_graph fuel E root = Graph.Ok g -> names_ok N E univ -> named_refs_ok N E univ g = true -> refs_ok N g = true.
Proof.
  intros Hg Hlaw Hn. unfold named_refs_ok in Hn. rewrite forallb_forall in Hn. unfold refs_ok.
  apply forallb_forall. intros [p preds] Hin. cbn [snd]. apply forallb_forall. intros n Hnp.
  specialize (Hn (p, preds) Hin). cbn [snd] in Hn. rewrite forallb_forall in Hn. specialize (Hn n Hnp).
  destruct (Graph.ncyc n) eqn:Hcy; [|reflexivity]. cbn [negb orb] in Hn |- *.
  apply orb_true_iff in Hn. destruct Hn as [Hd|Hr].
  - unfold cyc_ok. rewrite Hd. reflexivity.
  - apply andb_true_iff in Hr. destruct Hr as [Hrg Htc]. destruct (tr_ty N (nfor n)) as [tc|] eqn:Htc'; [|discriminate Htc].
    unfold type_graph in Hg.
    destruct (bfs_entry _ _ _ _ _ Hg _ _ Hin) as [[_ He]|[_ [st0 [path [st1 Hex]]]]]; [subst preds; contradiction|].
    destruct (expand_sound _ _ _ _ _ _ Hex _ Hnp) as [var [c [_ [_ [[Hv [Hf Hcase]] _]]]]].
    destruct Hcase as [[Hc _]|[[_ [Hm _]]|[_ [Hm _]]]]; [congruence| |].
    + unfold cyc_ok. rewrite Hf, Hv. rewrite Hm at 1. rewrite node_eqb_refl. reflexivity.
    + rewrite Hf in Hrg, Htc'. exact (cyc_ok_named N E univ c var n tc Hlaw Hm Hrg Htc').
Qed.
