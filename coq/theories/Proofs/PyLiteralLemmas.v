(* Proofs/PyLiteralLemmas.v -- proof scripts for Model/PyLiteral.v (Python-literal text, property C14).
   A. strings: the string reader inverts every escape form repr emits, for either quote.
   B. numbers: the number reader on Python's str(int) and on JSON float tokens.
   C. the recursive-descent reader on the writer's output (induction on fuel, three mutually dependent statements).
   D. nested induction on values; every character the writer emits; the fuel bound.
   E. top level: reader after writer, injectivity.
   F. the JSON reader on repr text: it rejects, or reads the same value (strload asks it first).
   G. necessity of the guards; the two escapes on which JSON and Python literals differ. *)
From Coq Require Import List ZArith NArith Bool Decimal DecimalN DecimalFacts Lia ZifyBool.
Import ListNotations.
Require Import TL.Model.Json TL.Proofs.JsonLemmas TL.Model.PyLiteral.
Open Scope N_scope.

(* ---------------------------------------------------------------- A. strings *)
Definition is_quote (q : N) : Prop := q = 39 \/ q = 34.

Lemma lstr_raw q c r : (c =? q) = false -> (c =? 10) = false -> (c =? 92) = false ->
  lstr q (c :: r) = ocons c (lstr q r).
Proof. intros H1 H2 H3. cbn [lstr]. rewrite H1, H2, H3. reflexivity. Qed.

Lemma lstr_x q a b t v : is_quote q -> hex2 a b = Some v ->
  lstr q (92 :: 120 :: a :: b :: t) = ocons v (lstr q t).
Proof.
  intros Hq H.
  transitivity (match hex2 a b with Some v => ocons v (lstr q t) | None => None end);
    [destruct Hq as [-> | ->]; reflexivity | rewrite H; reflexivity].
Qed.

Lemma lstr_u q a b c d t v : is_quote q -> hex4 a b c d = Some v ->
  lstr q (92 :: 117 :: a :: b :: c :: d :: t) = ocons v (lstr q t).
Proof.
  intros Hq H.
  transitivity (match hex4 a b c d with Some v => ocons v (lstr q t) | None => None end);
    [destruct Hq as [-> | ->]; reflexivity | rewrite H; reflexivity].
Qed.

Lemma lstr_U q a b c d a2 b2 c2 d2 t hi lo : is_quote q -> hex4 a b c d = Some hi -> hex4 a2 b2 c2 d2 = Some lo ->
  hi * 65536 + lo < 1114112 ->
  lstr q (92 :: 85 :: a :: b :: c :: d :: a2 :: b2 :: c2 :: d2 :: t) = ocons (hi * 65536 + lo) (lstr q t).
Proof.
  intros Hq H1 H2 Hlt.
  transitivity (match hex4 a b c d, hex4 a2 b2 c2 d2 with
                | Some hi, Some lo => if hi * 65536 + lo <? 1114112 then ocons (hi * 65536 + lo) (lstr q t) else None
                | _, _ => None
                end);
    [destruct Hq as [-> | ->]; reflexivity | rewrite H1, H2; replace (hi * 65536 + lo <? 1114112) with true by lia; reflexivity].
Qed.

Lemma hex2_x2 c : c < 256 -> hex2 (hexd (c / 16)) (hexd (c mod 16)) = Some c.
Proof.
  intros Hc. dm c 16. unfold hex2. rewrite !hexv_hexd by lia. f_equal. lia.
Qed.

Lemma hex4_h4 c : c < 65536 ->
  hex4 (hexd (c / 4096)) (hexd ((c / 256) mod 16)) (hexd ((c / 16) mod 16)) (hexd (c mod 16)) = Some c.
Proof. exact (hex4_u4 c). Qed.

Section Str.
Variable pr : N -> bool.
Hypothesis Hpr : pr_law pr.

Lemma lstr_pesc q c t : is_quote q -> c < 1114112 -> lstr q (pesc pr q c ++ t) = ocons c (lstr q t).
Proof.
  intros Hq Hc. unfold pesc.
  destruct ((c =? q) || (c =? 92)) eqn:E0.
  { destruct Hq as [-> | ->]; destruct (c =? 92) eqn:E92.
    - apply N.eqb_eq in E92; subst; reflexivity.
    - rewrite orb_false_r in E0. apply N.eqb_eq in E0; subst; reflexivity.
    - apply N.eqb_eq in E92; subst; reflexivity.
    - rewrite orb_false_r in E0. apply N.eqb_eq in E0; subst; reflexivity. }
  apply orb_false_elim in E0. destruct E0 as [Eq E92].
  destruct (c =? 9) eqn:E9. { apply N.eqb_eq in E9; subst. destruct Hq as [-> | ->]; reflexivity. }
  destruct (c =? 10) eqn:E10. { apply N.eqb_eq in E10; subst. destruct Hq as [-> | ->]; reflexivity. }
  destruct (c =? 13) eqn:E13. { apply N.eqb_eq in E13; subst. destruct Hq as [-> | ->]; reflexivity. }
  destruct ((c <? 32) || (c =? 127)) eqn:Ectl.
  { unfold x2. cbn [List.app]. apply lstr_x; [exact Hq | apply hex2_x2; lia]. }
  destruct (c <? 127) eqn:E127. { cbn [List.app]. apply lstr_raw; assumption. }
  destruct (pr c) eqn:Ep. { cbn [List.app]. apply lstr_raw; assumption. }
  destruct (c <? 256) eqn:E256.
  { unfold x2. cbn [List.app]. apply lstr_x; [exact Hq | apply hex2_x2; lia]. }
  destruct (c <? 65536) eqn:E64k.
  { unfold u4. cbn [List.app]. apply lstr_u; [exact Hq | apply hex4_u4; lia]. }
  unfold U8, h4. cbn [List.app].
  pose proof (N.div_mod c 65536 ltac:(discriminate)) as Hdm.
  pose proof (N.mod_lt c 65536 ltac:(discriminate)) as Hml.
  assert (Hhi : c / 65536 < 65536) by (apply N.div_lt_upper_bound; lia).
  rewrite (lstr_U q _ _ _ _ _ _ _ _ t (c / 65536) (c mod 65536) Hq (hex4_u4 _ Hhi) (hex4_u4 _ Hml)) by lia.
  f_equal. lia.
Qed.

Lemma lstr_chars q s rest : is_quote q -> pystr_ok s = true ->
  lstr q (flat_map (pesc pr q) s ++ q :: rest) = Some (s, rest).
Proof.
  intros Hq. induction s as [|c s IH]; intros H.
  - cbn [flat_map List.app lstr]. rewrite N.eqb_refl. reflexivity.
  - unfold pystr_ok in H. cbn [forallb] in H. apply andb_prop in H. destruct H as [Hc Hs].
    cbn [flat_map]. rewrite <- List.app_assoc. rewrite lstr_pesc by (try assumption; lia).
    rewrite (IH Hs). reflexivity.
Qed.

Lemma quote_is_quote s : is_quote (quote_of s).
Proof. unfold quote_of, is_quote. destruct (has 39 s && negb (has 34 s)); [right | left]; reflexivity. Qed.

Lemma wr_pystr_app s rest :
  wr_pystr pr s ++ rest = quote_of s :: flat_map (pesc pr (quote_of s)) s ++ quote_of s :: rest.
Proof. unfold wr_pystr. cbn [List.app]. rewrite <- List.app_assoc. reflexivity. Qed.
End Str.

(* ---------------------------------------------------------------- B. numbers *)
Lemma span_full s : forall d r, span_digits s = (d, r) ->
  s = d ++ r /\ forallb is_digit d = true /\ match r with c :: _ => is_digit c = false | [] => True end.
Proof.
  induction s as [|c s IH]; intros d r H; cbn [span_digits] in H.
  - inversion H; subst. repeat split.
  - destruct (is_digit c) eqn:E.
    + destruct (span_digits s) as [d' r'] eqn:Es. inversion H; subst.
      destruct (IH d' r eq_refl) as (H1 & H2 & H3). repeat split; [cbn [List.app]; f_equal; exact H1 | cbn [forallb]; rewrite E, H2; reflexivity | exact H3].
    + inversion H; subst. repeat split. exact E.
Qed.

Lemma span_pref d : forall r, forallb is_digit d = true -> match r with c :: _ => is_digit c = false | [] => True end ->
  span_digits (d ++ r) = (d, r).
Proof.
  induction d as [|c d IH]; intros r Hd Hr.
  - cbn [List.app]. destruct r as [|c r]; [reflexivity|]. cbn [span_digits]. rewrite Hr. reflexivity.
  - cbn [forallb] in Hd. apply andb_prop in Hd. destruct Hd as [Hc Hd]. cbn [List.app span_digits]. rewrite Hc, (IH r Hd Hr). reflexivity.
Qed.

Lemma follow_digit rest : follow_ok rest = true -> match rest with c :: _ => is_digit c = false | [] => True end.
Proof. destruct rest as [|c r]; [trivial|]. intros F. apply (follow_parts _ _ F). Qed.

Lemma scan_exp_follow rest : follow_ok rest = true -> scan_exp rest = ([], rest).
Proof. intros F. exact (scan_exp_app [] [] [] rest eq_refl F). Qed.

Lemma show_nat_digits n : forallb is_digit (show_nat n) = true.
Proof. unfold show_nat. generalize (N.to_uint n). intros u. induction u; cbn [show_uint forallb]; try rewrite IHu; reflexivity. Qed.

Lemma show_nat_int_ok n : int_ok (show_nat n) = true /\ is_nil (show_nat n) = false.
Proof.
  pose proof (scan_int_show n) as H. destruct (show_nat n) as [|c r] eqn:E; [discriminate|]. split; [|reflexivity].
  cbn [scan_int] in H. unfold int_ok. destruct (c =? 48) eqn:E0.
  - inversion H; subst. apply N.eqb_eq in E0; subst. reflexivity.
  - reflexivity.
Qed.

Lemma pnum_nodot_int n rest : follow_ok rest = true ->
  pnum_nodot (show_nat n) rest = Some (YInt (Z.of_N n), rest).
Proof.
  intros F. unfold pnum_nodot. destruct (show_nat_int_ok n) as [Hi Hn]. rewrite Hn, (scan_exp_follow rest F).
  cbn [is_nil]. rewrite Hi, digits_val_show. reflexivity.
Qed.

Lemma pnumber_nat n rest : follow_ok rest = true ->
  pnumber (show_nat n ++ rest) = Some (YInt (Z.of_N n), rest).
Proof.
  intros F. unfold pnumber. rewrite (span_pref _ rest (show_nat_digits n) (follow_digit rest F)).
  destruct rest as [|c r]; [apply pnum_nodot_int; exact F|].
  destruct (follow_parts _ _ F) as (_ & Hdot & _). rewrite Hdot. apply pnum_nodot_int; exact F.
Qed.

Lemma scan_int_digits s ip s2 : scan_int s = Some (ip, s2) ->
  s = ip ++ s2 /\ forallb is_digit ip = true /\ is_nil ip = false.
Proof.
  destruct s as [|c s]; [discriminate|]. cbn [scan_int]. destruct (c =? 48) eqn:E.
  - intros H; inversion H; subst. apply N.eqb_eq in E; subst. repeat split.
  - destruct (is_digit c) eqn:Ed; [|discriminate]. destruct (span_digits s) as [d r] eqn:Es.
    intros H; inversion H; subst. destruct (span_full _ _ _ Es) as (H1 & H2 & _).
    repeat split; [cbn [List.app]; f_equal; exact H1 | cbn [forallb]; rewrite Ed, H2; reflexivity].
Qed.

(* the unsigned part of a JSON float token, read by the Python number reader *)
Lemma pnumber_float neg s t rest : pnum_body neg s = Some (JFloat t, []) -> follow_ok rest = true ->
  pnumber (s ++ rest) = Some (YFloat s, rest).
Proof.
  unfold pnum_body. intros H F.
  destruct (scan_int s) as [[ip s2]|] eqn:E1; [|discriminate].
  destruct (scan_frac s2) as [fr s3] eqn:E2. destruct (scan_exp s3) as [ex s4] eqn:E3.
  destruct (is_nil fr && is_nil ex) eqn:En; [discriminate|]. inversion H; subst s4. clear H.
  destruct (scan_int_digits _ _ _ E1) as (Hs & Hd & Hn).
  pose proof (scan_exp_spec _ _ _ E3) as Hs3. rewrite List.app_nil_r in Hs3. subst s3.
  pose proof (scan_exp_app _ _ _ _ E3 F) as Hex. cbn [List.app] in Hex.
  assert (Hexh : match ex ++ rest with c :: _ => is_digit c = false | [] => True end).
  { destruct ex as [|e ex'].
    - cbn [List.app]. apply follow_digit, F.
    - cbn [List.app]. destruct ex' as [|d ex'']; [cbn in E3; inversion E3|].
      cbn [scan_exp] in E3. destruct (is_e e) eqn:Ee.
      + unfold is_e, is_digit in *. lia.
      + inversion E3. }
  unfold pnumber. subst s.
  destruct s2 as [|c [|d s2']].
  - (* no fraction, no exponent: not a float *)
    cbn in E2. inversion E2; subst. cbn in E3. inversion E3; subst. cbn in En. discriminate.
  - (* one character after the integer part: neither a fraction nor an exponent *)
    exfalso. cbn in E2. inversion E2; subst. cbn in E3. discriminate.
  - cbn [scan_frac] in E2. destruct ((c =? 46) && is_digit d) eqn:Ecd.
    + apply andb_prop in Ecd. destruct Ecd as [Ec Edd]. apply N.eqb_eq in Ec. subst c.
      destruct (span_digits s2') as [ds r'] eqn:Es. inversion E2; subst fr r'. clear E2.
      destruct (span_full _ _ _ Es) as (Hs2 & Hds & _). subst s2'.
      rewrite <- !List.app_assoc. cbn [List.app]. rewrite <- ?List.app_assoc.
      rewrite (span_pref ip (46 :: d :: ds ++ ex ++ rest) Hd ltac:(reflexivity)).
      change (46 =? 46) with true. cbv iota.
      change (d :: ds ++ ex ++ rest) with ((d :: ds) ++ ex ++ rest).
      rewrite (span_pref (d :: ds) (ex ++ rest) ltac:(cbn [forallb]; rewrite Edd, Hds; reflexivity) Hexh).
      rewrite Hn. cbn [andb]. rewrite Hex. reflexivity.
    + inversion E2; subst fr ex. clear E2.
      (* the exponent starts right after the integer part *)
      assert (Hce : is_e c = true).
      { cbn [scan_exp] in E3. destruct (is_e c); [reflexivity|]. inversion E3. }
      rewrite <- !List.app_assoc.
      rewrite (span_pref ip ((c :: d :: s2') ++ rest) Hd ltac:(cbn [List.app]; unfold is_e, is_digit in *; lia)).
      cbn [List.app] in *. replace (c =? 46) with false by (unfold is_e in Hce; lia).
      unfold pnum_nodot. rewrite Hn, Hex. reflexivity.
Qed.

(* ---------------------------------------------------------------- C. the reader on the writer's output *)
Definition szl (l : list pyv) : nat := fold_right (fun x a => S (psz x + a)) O l.
Definition szd (d : list (pyv * pyv)) : nat :=
  fold_right (fun kx a => S (S (psz (fst kx) + psz (snd kx) + a))) O d.
Definition kv_ok (kx : pyv * pyv) : bool := pyv_ok (fst kx) && pyv_ok (snd kx).
Lemma psz_pos w : (2 <= psz w)%nat.
Proof. destruct w; cbn [psz]; lia. Qed.

Definition headc (c : N) : bool :=
  is_digit c || (c =? 45) || (c =? 78) || (c =? 84) || (c =? 70) || (c =? 39) || (c =? 34) || (c =? 91) ||
  (c =? 40) || (c =? 123) || (c =? 115).
Lemma headc_ws c br : headc c = true -> wsp br c = false.
Proof. unfold headc, is_digit. destruct br; unfold wsp, is_bws, is_hws; lia. Qed.
Lemma headc_close c : headc c = true -> (c =? 93) = false /\ (c =? 41) = false /\ (c =? 125) = false.
Proof. unfold headc, is_digit. lia. Qed.

Lemma skip_hd br c r : wsp br c = false -> skip br (c :: r) = c :: r.
Proof. intros H. cbn [skip]. rewrite H. reflexivity. Qed.
Lemma skip_sp br s : skip br (32 :: s) = skip br s.
Proof. destruct br; reflexivity. Qed.

Lemma pexpr_S n br s : pexpr (S n) br s =
    match skip br s with
    | [] => None
    | c :: r =>
      if (c =? 39) || (c =? 34) then
        match lstr c r with Some (cs, r') => Some (YStr cs, r') | None => None end
      else if c =? 91 then
        match ptail n 93 r with Some (l, r') => Some (YList l, r') | None => None end
      else if c =? 40 then
        match skip true r with
        | c2 :: r2 =>
          if c2 =? 41 then Some (YTuple [], r2)
          else
            match pexpr n true r with
            | Some (x, r1) =>
              match skip true r1 with
              | c3 :: r3 =>
                if c3 =? 41 then Some (x, r3)
                else if c3 =? 44 then
                  match ptail n 41 r3 with Some (xs, r4) => Some (YTuple (x :: xs), r4) | None => None end
                else None
              | [] => None
              end
            | None => None
            end
        | [] => None
        end
      else if c =? 123 then
        match skip true r with
        | c2 :: r2 =>
          if c2 =? 125 then Some (YDict [], r2)
          else
            match pexpr n true r with
            | Some (k, r1) =>
              match skip true r1 with
              | c3 :: r3 =>
                if c3 =? 58 then
                  match pexpr n true r3 with
                  | Some (v, r4) =>
                    match pdrest n r4 with
                    | Some (d, r5) =>
                      if forallb (fun kx => hashable (fst kx)) ((k, v) :: d)
                      then Some (YDict ((k, v) :: d), r5) else None
                    | None => None
                    end
                  | None => None
                  end
                else if c3 =? 125 then (if hashable k then Some (YSet [k], r3) else None)
                else if c3 =? 44 then
                  match ptail n 125 r3 with
                  | Some (xs, r4) => if forallb hashable (k :: xs) then Some (YSet (k :: xs), r4) else None
                  | None => None
                  end
                else None
              | [] => None
              end
            | None => None
            end
        | [] => None
        end
      else if c =? 78 then match lit [111; 110; 101] r with Some r' => Some (YNone, r') | None => None end
      else if c =? 84 then match lit [114; 117; 101] r with Some r' => Some (YBool true, r') | None => None end
      else if c =? 70 then match lit [97; 108; 115; 101] r with Some r' => Some (YBool false, r') | None => None end
      else if c =? 115 then
        match lit [101; 116] r with
        | Some r1 =>
          match skip br r1 with
          | c1 :: r2 =>
            if c1 =? 40 then
              match skip true r2 with
              | c2 :: r3 => if c2 =? 41 then Some (YSet [], r3) else None
              | [] => None
              end
            else None
          | [] => None
          end
        | None => None
        end
      else if (c =? 45) || (c =? 43) then
        match poperand n br r with
        | Some (v, r1) => Some (if c =? 45 then negate v else v, r1)
        | None => None
        end
      else pnumber (c :: r)
    end.
Proof. reflexivity. Qed.

Lemma ptail_S n close s : ptail (S n) close s =
    match skip true s with
    | [] => None
    | c :: r =>
      if c =? close then Some ([], r)
      else
        match pexpr n true s with
        | Some (x, r1) =>
          match skip true r1 with
          | c1 :: r2 =>
            if c1 =? close then Some ([x], r2)
            else if c1 =? 44 then
              match ptail n close r2 with Some (xs, r3) => Some (x :: xs, r3) | None => None end
            else None
          | [] => None
          end
        | None => None
        end
    end.
Proof. reflexivity. Qed.

Lemma pdrest_S n s : pdrest (S n) s =
    match skip true s with
    | [] => None
    | c :: r =>
      if c =? 125 then Some ([], r)
      else if c =? 44 then
        match skip true r with
        | c2 :: r2 =>
          if c2 =? 125 then Some ([], r2)
          else
            match pexpr n true r with
            | Some (k, r1) =>
              match skip true r1 with
              | c3 :: r3 =>
                if c3 =? 58 then
                  match pexpr n true r3 with
                  | Some (v, r4) =>
                    match pdrest n r4 with Some (d, r5) => Some ((k, v) :: d, r5) | None => None end
                  | None => None
                  end
                else None
              | [] => None
              end
            | None => None
            end
        | [] => None
        end
      else None
    end.
Proof. reflexivity. Qed.

Lemma poperand_S n br s : poperand (S n) br s =
    match skip br s with
    | c :: r =>
      if c =? 40 then
        match poperand n true r with
        | Some (v, r1) =>
          match skip true r1 with
          | c1 :: r2 => if c1 =? 41 then Some (v, r2) else None
          | [] => None
          end
        | None => None
        end
      else pnumber (c :: r)
    | [] => None
    end.
Proof. reflexivity. Qed.

Lemma pexpr_ws n br s s' : skip br s = skip br s' -> pexpr n br s = pexpr n br s'.
Proof. intros H. destruct n; [reflexivity|]. rewrite !pexpr_S, H. reflexivity. Qed.
Lemma ptail_ws n close s s' : skip true s = skip true s' -> ptail n close s = ptail n close s'.
Proof. intros H. destruct n; [reflexivity|]. rewrite !ptail_S, H, (pexpr_ws n true s s' H). reflexivity. Qed.

(* a number that starts with a digit, at the head of an expression *)
Lemma pexpr_digit n br c r : is_digit c = true -> pexpr (S n) br (c :: r) = pnumber (c :: r).
Proof.
  intros Hd. rewrite pexpr_S. rewrite skip_hd by (apply headc_ws; unfold headc; rewrite Hd; reflexivity).
  unfold is_digit in Hd.
  replace (c =? 39) with false by lia. replace (c =? 34) with false by lia. replace (c =? 91) with false by lia.
  replace (c =? 40) with false by lia. replace (c =? 123) with false by lia. replace (c =? 78) with false by lia.
  replace (c =? 84) with false by lia. replace (c =? 70) with false by lia. replace (c =? 115) with false by lia.
  replace (c =? 45) with false by lia. replace (c =? 43) with false by lia. reflexivity.
Qed.
Lemma poperand_digit n br c r : is_digit c = true -> poperand (S n) br (c :: r) = pnumber (c :: r).
Proof.
  intros Hd. rewrite poperand_S. rewrite skip_hd by (apply headc_ws; unfold headc; rewrite Hd; reflexivity).
  unfold is_digit in Hd. replace (c =? 40) with false by lia. reflexivity.
Qed.
Lemma pexpr_minus n br r : pexpr (S n) br (45 :: r) =
  match poperand n br r with Some (v, r1) => Some (negate v, r1) | None => None end.
Proof. rewrite pexpr_S. destruct br; reflexivity. Qed.

Lemma pnum_body_head neg s v r0 : pnum_body neg s = Some (v, r0) -> exists c r, s = c :: r /\ is_digit c = true.
Proof.
  unfold pnum_body. destruct (scan_int s) as [[ip s2]|] eqn:E; [|discriminate]. intros _.
  destruct (scan_int_digits _ _ _ E) as (Hs & Hd & Hn). destruct ip as [|c ip]; [discriminate|].
  exists c, (ip ++ s2). split; [exact Hs|]. cbn [forallb] in Hd. apply andb_prop in Hd. apply Hd.
Qed.

Section Main.
Variable pr : N -> bool.
Hypothesis Hpr : pr_law pr.
Notation R := (py_repr pr).

Definition tl_items (l : list pyv) : list N := flat_map (fun y => 44 :: 32 :: R y) l.
Definition member (kx : pyv * pyv) : list N := R (fst kx) ++ 58 :: 32 :: R (snd kx).
Definition tl_members (d : list (pyv * pyv)) : list N := flat_map (fun kx => 44 :: 32 :: member kx) d.

Lemma sep_items_cons {A} (f : A -> list N) x l :
  sep_items f (x :: l) = f x ++ flat_map (fun y => 44 :: 32 :: f y) l.
Proof. reflexivity. Qed.

Lemma repr_head w : pyv_ok w = true -> exists c r, R w = c :: r /\ headc c = true.
Proof.
  intros Hok. destruct w as [|b|z|t|s|l|l|d|l]; cbn [py_repr].
  - eexists _, _. split; reflexivity.
  - destruct b; eexists _, _; split; reflexivity.
  - unfold show_int. destruct (z <? 0)%Z.
    + eexists _, _. split; reflexivity.
    + destruct (show_nat_head (Z.to_N z)) as (c & r & Hs & Hd). exists c, r. split; [exact Hs|].
      unfold headc. rewrite Hd. reflexivity.
  - cbn [pyv_ok] in Hok. pose proof (float_tok_pnum t Hok) as H. destruct (num_head _ _ _ H) as (c & r & -> & Hst).
    exists c, r. split; [reflexivity|]. unfold headc. destruct Hst as [Hd | (-> & _)]; [rewrite Hd|]; reflexivity.
  - unfold wr_pystr. exists (quote_of s). eexists. split; [reflexivity|].
    destruct (quote_is_quote s) as [-> | ->]; reflexivity.
  - eexists _, _. split; reflexivity.
  - destruct l as [|x [|y l']]; eexists _, _; split; reflexivity.
  - eexists _, _. split; reflexivity.
  - destruct l; eexists _, _; split; reflexivity.
Qed.

Lemma skip_repr w br T : pyv_ok w = true ->
  exists c r, R w = c :: r /\ headc c = true /\ skip br (R w ++ T) = c :: r ++ T.
Proof.
  intros Hok. destruct (repr_head w Hok) as (c & r & Hw & Hc). exists c, r. repeat split; try assumption.
  rewrite Hw. cbn [List.app]. apply skip_hd, headc_ws, Hc.
Qed.

Definition is_close (c : N) : Prop := c = 93 \/ c = 41 \/ c = 125.
Lemma follow_tl l close rest : is_close close -> follow_ok (tl_items l ++ close :: rest) = true.
Proof. intros [-> | [-> | ->]]; destruct l; reflexivity. Qed.
Lemma follow_tlm d rest : follow_ok (tl_members d ++ 125 :: rest) = true.
Proof. destruct d; reflexivity. Qed.
Lemma close_ws close : is_close close -> wsp true close = false /\ (44 =? close) = false.
Proof. intros [-> | [-> | ->]]; split; reflexivity. Qed.

Definition Pexpr (n : nat) : Prop := forall w br rest, pyv_ok w = true -> (psz w <= n)%nat ->
  follow_ok rest = true -> pexpr n br (R w ++ rest) = Some (w, rest).
Definition Ptail (n : nat) : Prop := forall close x l rest, is_close close -> pyv_ok x = true ->
  forallb pyv_ok l = true -> (S (psz x + szl l) <= n)%nat ->
  ptail n close (R x ++ tl_items l ++ close :: rest) = Some (x :: l, rest).
Definition Pdrest (n : nat) : Prop := forall d rest, forallb kv_ok d = true -> (S (szd d) <= n)%nat ->
  pdrest n (tl_members d ++ 125 :: rest) = Some (d, rest).

Lemma step_tail n : Pexpr n -> Ptail n -> Ptail (S n).
Proof.
  intros HV HT close x l rest Hcl Hx Hl Hsz. rewrite ptail_S.
  destruct (skip_repr x true (tl_items l ++ close :: rest) Hx) as (c & r & Hw & Hc & Hsk).
  rewrite Hsk. destruct (headc_close c Hc) as (C1 & C2 & C3).
  replace (c =? close) with false by (destruct Hcl as [-> | [-> | ->]]; symmetry; assumption).
  rewrite (HV x true (tl_items l ++ close :: rest) Hx ltac:(lia) (follow_tl l close rest Hcl)).
  destruct (close_ws close Hcl) as [Hcw Hc44].
  destruct l as [|y l'].
  - cbn [tl_items flat_map List.app]. rewrite (skip_hd true close rest Hcw), N.eqb_refl. reflexivity.
  - cbn [forallb] in Hl. apply andb_prop in Hl. destruct Hl as [Hy Hl'].
    cbn [szl fold_right] in Hsz. fold (szl l') in Hsz.
    unfold tl_items at 1. cbn [flat_map]. fold (tl_items l'). cbn [List.app]. rewrite <- !List.app_assoc.
    rewrite (skip_hd true 44 _ eq_refl). rewrite Hc44. change (44 =? 44) with true. cbv iota.
    rewrite (ptail_ws n close _ _ (skip_sp true _)).
    rewrite (HT close y l' rest Hcl Hy Hl' ltac:(lia)). reflexivity.
Qed.

Lemma step_drest n : Pexpr n -> Pdrest n -> Pdrest (S n).
Proof.
  intros HV HD d rest Hd Hsz. rewrite pdrest_S. destruct d as [|[k v] d'].
  - reflexivity.
  - cbn [forallb] in Hd. apply andb_prop in Hd. destruct Hd as [Hkv Hd'].
    unfold kv_ok in Hkv. cbn [fst snd] in Hkv. apply andb_prop in Hkv. destruct Hkv as [Hk Hv].
    cbn [szd fold_right fst snd] in Hsz. fold (szd d') in Hsz.
    unfold tl_members at 1. cbn [flat_map]. fold (tl_members d'). unfold member. cbn [fst snd List.app].
    rewrite <- !List.app_assoc. cbn [List.app]. rewrite <- ?List.app_assoc.
    rewrite (skip_hd true 44 _ eq_refl). change (44 =? 125) with false. change (44 =? 44) with true. cbv iota.
    rewrite skip_sp.
    destruct (skip_repr k true (58 :: 32 :: R v ++ tl_members d' ++ 125 :: rest) Hk) as (c & r & Hw & Hc & Hsk).
    rewrite Hsk. destruct (headc_close c Hc) as (_ & _ & C3). rewrite C3.
    rewrite (pexpr_ws n true _ _ (skip_sp true _)).
    rewrite (HV k true (58 :: 32 :: R v ++ tl_members d' ++ 125 :: rest) Hk ltac:(lia) eq_refl).
    rewrite (skip_hd true 58 _ eq_refl). change (58 =? 58) with true. cbv iota.
    rewrite (pexpr_ws n true _ _ (skip_sp true _)).
    rewrite (HV v true (tl_members d' ++ 125 :: rest) Hv ltac:(lia) (follow_tlm d' rest)).
    rewrite (HD d' rest Hd' ltac:(lia)). reflexivity.
Qed.

Lemma forallb_and {A} (f g : A -> bool) l : forallb (fun x => f x && g x) l = forallb f l && forallb g l.
Proof. induction l as [|a l IH]; cbn [forallb]; [reflexivity|]. rewrite IH. destruct (f a), (g a), (forallb f l); reflexivity. Qed.

Lemma step_expr n : Pexpr n -> Ptail n -> Pdrest n -> Pexpr (S n).
Proof.
  intros HV HT HD w br rest Hok Hsz F. destruct w as [|b|z|t|s|l|l|d|l].
  - destruct br; reflexivity.
  - destruct b, br; reflexivity.
  - (* int *)
    cbn [py_repr]. cbn [psz] in Hsz. destruct n as [|n']; [lia|]. unfold show_int. destruct (z <? 0)%Z eqn:Ez.
    + cbn [List.app]. rewrite pexpr_minus.
      destruct (show_nat_head (Z.to_N (- z))) as (c & r & Hs & Hd).
      assert (Hp : poperand (S n') br (show_nat (Z.to_N (- z)) ++ rest) = pnumber (show_nat (Z.to_N (- z)) ++ rest))
        by (rewrite Hs; cbn [List.app]; apply poperand_digit, Hd).
      rewrite Hp, (pnumber_nat _ rest F). cbn [negate]. replace (- Z.of_N (Z.to_N (- z)))%Z with z by lia. reflexivity.
    + destruct (show_nat_head (Z.to_N z)) as (c & r & Hs & Hd).
      assert (Hp : pexpr (S (S n')) br (show_nat (Z.to_N z) ++ rest) = pnumber (show_nat (Z.to_N z) ++ rest))
        by (rewrite Hs; cbn [List.app]; apply pexpr_digit, Hd).
      rewrite Hp, (pnumber_nat _ rest F). replace (Z.of_N (Z.to_N z)) with z by lia. reflexivity.
  - (* float *)
    cbn [py_repr]. cbn [psz] in Hsz. destruct n as [|n']; [lia|]. cbn [pyv_ok] in Hok.
    pose proof (float_tok_pnum t Hok) as Hp. rewrite pnum_unfold in Hp. destruct t as [|c r]; [discriminate|].
    destruct (c =? 45) eqn:E45.
    + apply N.eqb_eq in E45. subst c. cbn [List.app]. rewrite pexpr_minus.
      destruct (pnum_body_head _ _ _ _ Hp) as (c & r' & Hr & Hd).
      assert (Hq : poperand (S n') br (r ++ rest) = pnumber (r ++ rest))
        by (rewrite Hr; cbn [List.app]; apply poperand_digit, Hd).
      rewrite Hq, (pnumber_float true r _ rest Hp F). reflexivity.
    + destruct (pnum_body_head _ _ _ _ Hp) as (c' & r' & Hr & Hd).
      assert (Hq : pexpr (S (S n')) br ((c :: r) ++ rest) = pnumber ((c :: r) ++ rest))
        by (rewrite Hr; cbn [List.app]; apply pexpr_digit, Hd).
      rewrite Hq, (pnumber_float false (c :: r) _ rest Hp F). reflexivity.
  - (* str *)
    cbn [py_repr]. rewrite wr_pystr_app, pexpr_S. cbn [pyv_ok] in Hok.
    rewrite skip_hd by (destruct (quote_is_quote s) as [-> | ->]; destruct br; reflexivity).
    replace ((quote_of s =? 39) || (quote_of s =? 34)) with true by (destruct (quote_is_quote s) as [-> | ->]; reflexivity).
    rewrite (lstr_chars pr _ s rest (quote_is_quote s) Hok). reflexivity.
  - (* list *)
    cbn [py_repr]. cbn [List.app]. rewrite pexpr_S, (skip_hd br 91) by (destruct br; reflexivity).
    change ((91 =? 39) || (91 =? 34)) with false. change (91 =? 91) with true. cbv iota.
    cbn [pyv_ok] in Hok. cbn [psz] in Hsz. fold (szl l) in Hsz. destruct l as [|x l'].
    + destruct n as [|n']; [cbn in Hsz; lia|]. reflexivity.
    + cbn [forallb] in Hok. apply andb_prop in Hok. destruct Hok as [Hx Hl'].
      cbn [szl fold_right] in Hsz. fold (szl l') in Hsz.
      rewrite sep_items_cons. fold (tl_items l'). rewrite <- !List.app_assoc. cbn [List.app].
      rewrite (HT 93 x l' rest ltac:(left; reflexivity) Hx Hl' ltac:(lia)). reflexivity.
  - (* tuple *)
    cbn [pyv_ok] in Hok. cbn [psz] in Hsz. fold (szl l) in Hsz.
    assert (E : R (YTuple l) ++ rest = 40 :: match l with
                                             | [] => 41 :: rest
                                             | x :: l' => R x ++ match l' with [] => 44 :: 41 :: rest | _ => tl_items l' ++ 41 :: rest end
                                             end).
    { cbn [py_repr]. destruct l as [|x [|y l']].
      - reflexivity.
      - cbn [List.app]. rewrite <- List.app_assoc. reflexivity.
      - rewrite sep_items_cons. fold (tl_items (y :: l')). cbn [List.app]. rewrite <- !List.app_assoc. reflexivity. }
    rewrite E. clear E. rewrite pexpr_S, (skip_hd br 40) by (destruct br; reflexivity).
    change ((40 =? 39) || (40 =? 34)) with false. change (40 =? 91) with false. change (40 =? 40) with true. cbv iota.
    destruct l as [|x l'].
    + reflexivity.
    + cbn [forallb] in Hok. apply andb_prop in Hok. destruct Hok as [Hx Hl'].
      cbn [szl fold_right] in Hsz. fold (szl l') in Hsz.
      set (T := match l' with [] => 44 :: 41 :: rest | _ => tl_items l' ++ 41 :: rest end).
      assert (FT : follow_ok T = true) by (subst T; destruct l'; reflexivity).
      destruct (skip_repr x true T Hx) as (c & r & Hw & Hc & Hsk). rewrite Hsk.
      destruct (headc_close c Hc) as (_ & C2 & _). rewrite C2.
      rewrite (HV x true T Hx ltac:(lia) FT). subst T. destruct l' as [|y l''].
      * rewrite (skip_hd true 44 _ eq_refl). change (44 =? 41) with false. change (44 =? 44) with true. cbv iota.
        destruct n as [|n']; [lia|]. reflexivity.
      * cbn [forallb] in Hl'. apply andb_prop in Hl'. destruct Hl' as [Hy Hl''].
        cbn [szl fold_right] in Hsz. fold (szl l'') in Hsz.
        unfold tl_items at 1. cbn [flat_map]. fold (tl_items l''). cbn [List.app]. rewrite <- !List.app_assoc.
        rewrite (skip_hd true 44 _ eq_refl). change (44 =? 41) with false. change (44 =? 44) with true. cbv iota.
        rewrite (ptail_ws n 41 _ _ (skip_sp true _)).
        rewrite (HT 41 y l'' rest ltac:(right; left; reflexivity) Hy Hl'' ltac:(lia)). reflexivity.
  - (* dict *)
    cbn [py_repr]. cbn [List.app]. rewrite pexpr_S, (skip_hd br 123) by (destruct br; reflexivity).
    change ((123 =? 39) || (123 =? 34)) with false. change (123 =? 91) with false. change (123 =? 40) with false.
    change (123 =? 123) with true. cbv iota.
    cbn [pyv_ok] in Hok. cbn [psz] in Hsz. fold (szd d) in Hsz. destruct d as [|[k v] d'].
    + reflexivity.
    + cbn [forallb fst snd] in Hok. apply andb_prop in Hok. destruct Hok as [Hkv Hd'].
      apply andb_prop in Hkv. destruct Hkv as [Hhk Hv]. apply andb_prop in Hhk. destruct Hhk as [Hh Hk].
      cbn [szd fold_right fst snd] in Hsz. fold (szd d') in Hsz.
      rewrite sep_items_cons. cbn [fst snd].
      change (flat_map (fun y : pyv * pyv => 44 :: 32 :: R (fst y) ++ 58 :: 32 :: R (snd y)) d') with (tl_members d').
      rewrite <- !List.app_assoc. cbn [List.app]. rewrite <- ?List.app_assoc.
      destruct (skip_repr k true (58 :: 32 :: R v ++ tl_members d' ++ 125 :: rest) Hk) as (c & r & Hw & Hc & Hsk).
      rewrite Hsk. destruct (headc_close c Hc) as (_ & _ & C3). rewrite C3.
      rewrite (HV k true (58 :: 32 :: R v ++ tl_members d' ++ 125 :: rest) Hk ltac:(lia) eq_refl).
      rewrite (skip_hd true 58 _ eq_refl). change (58 =? 58) with true. cbv iota.
      rewrite (pexpr_ws n true _ _ (skip_sp true _)).
      rewrite (HV v true (tl_members d' ++ 125 :: rest) Hv ltac:(lia) (follow_tlm d' rest)).
      assert (Hd'2 : forallb kv_ok d' = true /\ forallb (fun kx => hashable (fst kx)) d' = true).
      { clear - Hd'. induction d' as [|[k' v'] d'' IH]; [split; reflexivity|].
        cbn [forallb fst snd] in *. apply andb_prop in Hd'. destruct Hd' as [H1 H2].
        apply andb_prop in H1. destruct H1 as [H1 H3]. apply andb_prop in H1. destruct H1 as [H1 H4].
        destruct (IH H2) as [I1 I2]. unfold kv_ok at 1. cbn [fst snd]. rewrite H4, H3, H1, I1, I2. split; reflexivity. }
      destruct Hd'2 as [Hd1 Hd2].
      rewrite (HD d' rest Hd1 ltac:(lia)). cbn [forallb fst]. rewrite Hh, Hd2. reflexivity.
  - (* set *)
    cbn [pyv_ok] in Hok. cbn [psz] in Hsz. fold (szl l) in Hsz. destruct l as [|x l'].
    + cbn [py_repr]. destruct n as [|n']; [cbn in Hsz; lia|]. destruct br; reflexivity.
    + cbn [py_repr]. cbn [List.app]. rewrite pexpr_S, (skip_hd br 123) by (destruct br; reflexivity).
      change ((123 =? 39) || (123 =? 34)) with false. change (123 =? 91) with false. change (123 =? 40) with false.
      change (123 =? 123) with true. cbv iota.
      rewrite forallb_and in Hok. apply andb_prop in Hok. destruct Hok as [Hh Hp].
      cbn [forallb] in Hh, Hp. apply andb_prop in Hh. destruct Hh as [Hhx Hhl'].
      apply andb_prop in Hp. destruct Hp as [Hx Hl'].
      cbn [szl fold_right] in Hsz. fold (szl l') in Hsz.
      rewrite sep_items_cons. fold (tl_items l'). rewrite <- !List.app_assoc. cbn [List.app].
      destruct (skip_repr x true (tl_items l' ++ 125 :: rest) Hx) as (c & r & Hw & Hc & Hsk). rewrite Hsk.
      destruct (headc_close c Hc) as (_ & _ & C3). rewrite C3.
      rewrite (HV x true (tl_items l' ++ 125 :: rest) Hx ltac:(lia) (follow_tl l' 125 rest ltac:(right; right; reflexivity))).
      destruct l' as [|y l''].
      * cbn [tl_items flat_map List.app]. rewrite (skip_hd true 125 _ eq_refl).
        change (125 =? 58) with false. change (125 =? 125) with true. cbv iota. rewrite Hhx. reflexivity.
      * cbn [forallb] in Hl', Hhl'. apply andb_prop in Hl'. destruct Hl' as [Hy Hl''].
        cbn [szl fold_right] in Hsz. fold (szl l'') in Hsz.
        unfold tl_items at 1. cbn [flat_map]. fold (tl_items l''). cbn [List.app]. rewrite <- !List.app_assoc.
        rewrite (skip_hd true 44 _ eq_refl). change (44 =? 58) with false. change (44 =? 125) with false.
        change (44 =? 44) with true. cbv iota.
        rewrite (ptail_ws n 125 _ _ (skip_sp true _)).
        rewrite (HT 125 y l'' rest ltac:(right; right; reflexivity) Hy Hl'' ltac:(lia)).
        cbn [forallb]. rewrite Hhx. cbn [forallb] in Hhl'. rewrite Hhl'. reflexivity.
Qed.

Lemma all_n n : Pexpr n /\ Ptail n /\ Pdrest n.
Proof.
  induction n as [|n (HV & HT & HD)].
  - repeat split.
    + intros w br rest _ Hsz. pose proof (psz_pos w). lia.
    + intros close x l rest _ _ _ Hsz. lia.
    + intros d rest _ Hsz. lia.
  - repeat split; [apply step_expr | apply step_tail | apply step_drest]; assumption.
Qed.

Lemma pexpr_repr n w br rest : pyv_ok w = true -> (psz w <= n)%nat -> follow_ok rest = true ->
  pexpr n br (R w ++ rest) = Some (w, rest).
Proof. apply (proj1 (all_n n)). Qed.
End Main.

(* ---------------------------------------------------------------- D. nested induction on values *)
Section PyvInd.
Variable P : pyv -> Prop.
Hypothesis HN : P YNone.
Hypothesis HB : forall b, P (YBool b).
Hypothesis HI : forall z, P (YInt z).
Hypothesis HF : forall t, P (YFloat t).
Hypothesis HS : forall s, P (YStr s).
Hypothesis HL : forall l, Forall P l -> P (YList l).
Hypothesis HT : forall l, Forall P l -> P (YTuple l).
Hypothesis HD : forall d, Forall (fun kx => P (fst kx) /\ P (snd kx)) d -> P (YDict d).
Hypothesis HE : forall l, Forall P l -> P (YSet l).
Fixpoint pyv_ind' (w : pyv) : P w :=
  let fix go (l : list pyv) : Forall P l :=
    match l with [] => Forall_nil _ | x :: r => Forall_cons x (pyv_ind' x) (go r) end in
  match w with
  | YNone => HN | YBool b => HB b | YInt z => HI z | YFloat t => HF t | YStr s => HS s
  | YList l => HL l (go l)
  | YTuple l => HT l (go l)
  | YDict d => HD d ((fix god (d : list (pyv * pyv)) : Forall (fun kx => P (fst kx) /\ P (snd kx)) d :=
                        match d with
                        | [] => Forall_nil _
                        | (k, x) :: r => Forall_cons (k, x) (conj (pyv_ind' k) (pyv_ind' x)) (god r)
                        end) d)
  | YSet l => HE l (go l)
  end.
End PyvInd.

(* every character the writer emits *)
Section Chars.
Variable pr : N -> bool.
Variable q : N -> bool.
Hypothesis Hq1 : forall c, 32 <= c -> c < 127 -> q c = true.
Hypothesis Hq3 : forall c, pr c = true -> 127 <= c -> q c = true.
Notation R := (py_repr pr).

Lemma qh d : d < 16 -> q (hexd d) = true.
Proof. exact (q_hexd q orjson_style Hq1 eq_refl d). Qed.
Lemma qu4 c : c < 65536 -> forallb q (u4 c) = true.
Proof. exact (q_u4 q orjson_style Hq1 eq_refl c). Qed.
Lemma qnum t : forallb numch t = true -> forallb q t = true.
Proof. exact (q_num q orjson_style Hq1 eq_refl t). Qed.
Lemma qx2 c : c < 256 -> forallb q (x2 c) = true.
Proof.
  intros Hc. dm c 16. unfold x2. cbn [forallb]. rewrite !qh by lia. rewrite !Hq1 by lia. reflexivity.
Qed.

Lemma q_pesc qt c : is_quote qt -> c < 1114112 -> forallb q (pesc pr qt c) = true.
Proof.
  intros Hqt Hc. unfold pesc.
  assert (H2 : forall a b, q a = true -> q b = true -> forallb q [a; b] = true)
    by (intros a b Ha Hb; cbn [forallb]; rewrite Ha, Hb; reflexivity).
  destruct ((c =? qt) || (c =? 92)) eqn:E0.
  { apply H2; apply Hq1; destruct Hqt as [-> | ->]; lia. }
  destruct (c =? 9). { apply H2; apply Hq1; lia. }
  destruct (c =? 10). { apply H2; apply Hq1; lia. }
  destruct (c =? 13). { apply H2; apply Hq1; lia. }
  destruct ((c <? 32) || (c =? 127)) eqn:E1. { apply qx2. lia. }
  destruct (c <? 127) eqn:E2. { cbn [forallb]. rewrite Hq1 by lia. reflexivity. }
  destruct (pr c) eqn:E3. { cbn [forallb]. rewrite Hq3 by (try assumption; lia). reflexivity. }
  destruct (c <? 256) eqn:E4. { apply qx2. lia. }
  destruct (c <? 65536) eqn:E5. { apply qu4. lia. }
  unfold U8. cbn [forallb]. rewrite forallb_app. rewrite !Hq1 by lia. cbn [andb].
  pose proof (N.mod_lt c 65536 ltac:(discriminate)) as Hml.
  assert (Hhi : c / 65536 < 65536) by (apply N.div_lt_upper_bound; lia).
  assert (A : forallb q (92 :: 117 :: h4 (c / 65536)) = true) by exact (qu4 _ Hhi).
  assert (B : forallb q (92 :: 117 :: h4 (c mod 65536)) = true) by exact (qu4 _ Hml).
  cbn [forallb] in A, B.
  apply andb_prop in A. destruct A as [_ A]. apply andb_prop in A. destruct A as [_ A].
  apply andb_prop in B. destruct B as [_ B]. apply andb_prop in B. destruct B as [_ B].
  unfold h4. cbn [forallb]. unfold h4 in A, B. cbn [forallb] in A, B. rewrite A, B. reflexivity.
Qed.

Lemma q_pystr s : pystr_ok s = true -> forallb q (wr_pystr pr s) = true.
Proof.
  intros H. unfold wr_pystr. pose proof (quote_is_quote s) as Hqt.
  assert (Hqq : q (quote_of s) = true) by (apply Hq1; destruct Hqt as [-> | ->]; lia).
  cbn [forallb]. rewrite forallb_app. cbn [forallb]. rewrite Hqq. cbn [andb]. rewrite andb_true_r.
  generalize (quote_of s) Hqt. intros qt Hqt'. clear Hqq Hqt.
  induction s as [|c s IH]; [reflexivity|]. unfold pystr_ok in H. cbn [forallb] in H. apply andb_prop in H. destruct H as [Hc Hs].
  cbn [flat_map]. rewrite forallb_app, (q_pesc qt c Hqt' ltac:(lia)), (IH Hs). reflexivity.
Qed.

Lemma q_sep {A} (f : A -> list N) l : Forall (fun x => forallb q (f x) = true) l -> forallb q (sep_items f l) = true.
Proof.
  intros H. destruct l as [|x l']; [reflexivity|]. inversion H as [|x' l'' Px Pl']; subst.
  rewrite sep_items_cons, forallb_app, Px. cbn [andb]. clear Px H.
  induction l' as [|y l' IH]; [reflexivity|]. inversion Pl' as [|y' l'' Py Pl'']; subst.
  cbn [flat_map List.app forallb]. rewrite forallb_app, Py, (IH Pl''), !Hq1 by lia. reflexivity.
Qed.

Lemma Forall_ok {A} (P : A -> Prop) (ok : A -> bool) l :
  Forall (fun x => ok x = true -> P x) l -> forallb ok l = true -> Forall P l.
Proof.
  induction 1 as [|x l Hx Hl IH]; intros H; [constructor|]. cbn [forallb] in H. apply andb_prop in H. destruct H as [H1 H2].
  constructor; [apply Hx, H1 | apply IH, H2].
Qed.

Lemma py_all w : pyv_ok w = true -> forallb q (R w) = true.
Proof.
  assert (Hwrap : forall a b m, q a = true -> q b = true -> forallb q m = true -> forallb q (a :: m ++ [b]) = true).
  { intros a b m Ha Hb Hm. cbn [forallb]. rewrite forallb_app, Ha, Hm. cbn [forallb]. rewrite Hb. reflexivity. }
  induction w as [|b|z|t|s|l IH|l IH|d IH|l IH] using pyv_ind'; intros Hok; cbn [py_repr].
  - cbn [t_None forallb]. rewrite !Hq1 by lia. reflexivity.
  - destruct b; cbn [t_True t_False forallb]; rewrite !Hq1 by lia; reflexivity.
  - apply qnum, show_int_all.
  - apply qnum, float_tok_all, Hok.
  - apply q_pystr, Hok.
  - cbn [pyv_ok] in Hok. apply Hwrap; [apply Hq1; lia | apply Hq1; lia |]. apply q_sep. exact (Forall_ok _ _ _ IH Hok).
  - cbn [pyv_ok] in Hok. pose proof (Forall_ok _ _ _ IH Hok) as HF. destruct l as [|x [|y l']].
    + cbn [sep_items List.app forallb]. rewrite !Hq1 by lia. reflexivity.
    + inversion HF; subst. cbn [forallb]. rewrite forallb_app. cbn [forallb]. rewrite !Hq1 by lia. rewrite H1. reflexivity.
    + apply Hwrap; [apply Hq1; lia | apply Hq1; lia |]. apply q_sep, HF.
  - cbn [pyv_ok] in Hok. apply Hwrap; [apply Hq1; lia | apply Hq1; lia |]. apply q_sep.
    clear - IH Hok Hq1. induction IH as [|[k v] d' [Pk Pv] _ IHd]; [constructor|].
    cbn [forallb fst snd] in Hok. apply andb_prop in Hok. destruct Hok as [H1 H2].
    apply andb_prop in H1. destruct H1 as [H1 H3]. apply andb_prop in H1. destruct H1 as [_ H1].
    constructor; [|apply IHd, H2]. cbn [fst snd] in *. rewrite forallb_app. cbn [forallb]. rewrite (Pk H1), (Pv H3), !Hq1 by lia. reflexivity.
  - cbn [pyv_ok] in Hok. rewrite forallb_and in Hok. apply andb_prop in Hok. destruct Hok as [_ Hok].
    pose proof (Forall_ok _ _ _ IH Hok) as HF. destruct l as [|x l'].
    + cbn [t_set forallb]. rewrite !Hq1 by lia. reflexivity.
    + apply Hwrap; [apply Hq1; lia | apply Hq1; lia |]. apply q_sep, HF.
Qed.
End Chars.

(* the fuel measure is below twice the text length *)
Section Fuel.
Variable pr : N -> bool.
Notation R := (py_repr pr).

Lemma repr_len w : pyv_ok w = true -> (1 <= length (R w))%nat.
Proof. intros H. destruct (repr_head pr w H) as (c & r & Hw & _). rewrite Hw. cbn [length]. lia. Qed.

Lemma psz_le w : pyv_ok w = true -> (psz w <= 2 * length (R w))%nat.
Proof.
  assert (Htl : forall l, Forall (fun x => (psz x <= 2 * length (R x))%nat) l ->
                 (szl l <= 2 * length (flat_map (fun y => 44%N :: 32%N :: R y) l))%nat).
  { induction 1 as [|y l Hy _ IH]; [cbn; lia|]. cbn [szl fold_right flat_map]. fold (szl l). rewrite app_length. cbn [length]. lia. }
  assert (Hsep : forall l, Forall (fun x => (psz x <= 2 * length (R x))%nat) l ->
                 (szl l <= 2 * length (sep_items R l) + 1)%nat).
  { intros l H. destruct l as [|x l']; [cbn; lia|]. inversion H; subst. rewrite sep_items_cons, app_length.
    cbn [szl fold_right]. fold (szl l'). pose proof (Htl l' H3). lia. }
  induction w as [|b|z|t|s|l IH|l IH|d IH|l IH] using pyv_ind'; intros Hok;
    try (pose proof (repr_len _ Hok); cbn [psz]; lia).
  - cbn [pyv_ok] in Hok. pose proof (Hsep l (Forall_ok _ _ _ IH Hok)) as H. cbn [psz py_repr length]. fold (szl l).
    rewrite app_length. cbn [length]. lia.
  - cbn [pyv_ok] in Hok. pose proof (Forall_ok _ _ _ IH Hok) as HF. pose proof (Hsep l HF) as H. cbn [psz]. fold (szl l).
    destruct l as [|x [|y l']].
    + cbn. lia.
    + inversion HF; subst. cbn [szl fold_right py_repr length]. rewrite app_length. cbn [length]. lia.
    + cbn [py_repr length]. rewrite app_length. cbn [length]. lia.
  - cbn [pyv_ok] in Hok. cbn [psz py_repr length]. fold (szd d). rewrite app_length. cbn [length].
    enough (szd d <= 2 * length (sep_items (fun kx => R (fst kx) ++ 58%N :: 32%N :: R (snd kx)) d))%nat by lia.
    assert (HF : Forall (fun kx => (psz (fst kx) <= 2 * length (R (fst kx)))%nat /\ (psz (snd kx) <= 2 * length (R (snd kx)))%nat) d).
    { clear - IH Hok. induction IH as [|[k v] d' [Pk Pv] _ IHd]; [constructor|].
      cbn [forallb fst snd] in Hok. apply andb_prop in Hok. destruct Hok as [H1 H2].
      apply andb_prop in H1. destruct H1 as [H1 H3]. apply andb_prop in H1. destruct H1 as [_ H1].
      constructor; [split; [apply Pk, H1 | apply Pv, H3] | apply IHd, H2]. }
    clear IH Hok. destruct d as [|kx d']; [cbn; lia|]. inversion HF as [|kx' d'' [Pk Pv] Pd']; subst.
    rewrite sep_items_cons, !app_length. cbn [length szd fold_right]. fold (szd d').
    enough (szd d' <= 2 * length (flat_map (fun y : pyv * pyv => 44%N :: 32%N :: R (fst y) ++ 58%N :: 32%N :: R (snd y)) d'))%nat by lia.
    clear - Pd'. induction Pd' as [|ky d' [Qk Qv] _ IHd]; [cbn; lia|].
    cbn [szd fold_right flat_map]. fold (szd d'). rewrite !app_length. cbn [length]. rewrite app_length. cbn [length]. lia.
  - cbn [pyv_ok] in Hok. rewrite forallb_and in Hok. apply andb_prop in Hok. destruct Hok as [_ Hok].
    pose proof (Hsep l (Forall_ok _ _ _ IH Hok)) as H. cbn [psz]. fold (szl l). destruct l as [|x l'].
    + cbn. lia.
    + cbn [py_repr length]. rewrite app_length. cbn [length]. lia.
Qed.
End Fuel.

(* ---------------------------------------------------------------- E. reader after writer *)
Definition good (c : N) : bool := src_ok c && negb (c =? 13).

Lemma norm_nl_id s : forallb good s = true -> norm_nl s = s.
Proof.
  induction s as [|c s IH]; cbn [forallb norm_nl]; intros H; [reflexivity|].
  apply andb_prop in H. destruct H as [Hc Hs]. unfold good in Hc.
  replace (c =? 13) with false by lia. rewrite (IH Hs). reflexivity.
Qed.
Lemma good_src s : forallb good s = true -> forallb src_ok s = true.
Proof.
  induction s as [|c s IH]; cbn [forallb]; intros H; [reflexivity|].
  apply andb_prop in H. destruct H as [Hc Hs]. unfold good in Hc. apply andb_prop in Hc. rewrite (proj1 Hc), (IH Hs). reflexivity.
Qed.

Section Top.
Variable pr : N -> bool.
Hypothesis Hpr : pr_law pr.
Notation R := (py_repr pr).

Lemma repr_good w : pyv_ok w = true -> forallb good (R w) = true.
Proof.
  apply py_all.
  - intros c H1 H2. unfold good, src_ok, is_surr. lia.
  - intros c Hp H1. pose proof (Hpr c Hp) as Hc. unfold cp_ok in Hc. unfold good, src_ok, is_surr. lia.
Qed.

Theorem read_repr w : pyv_ok w = true -> literal_read (R w) = Some w.
Proof.
  intros Hok. unfold literal_read. pose proof (repr_good w Hok) as Hg. rewrite (good_src _ Hg).
  destruct (repr_head pr w Hok) as (c & r & Hw & Hc).
  assert (Hls : lstrip (R w) = R w).
  { rewrite Hw. cbn [lstrip]. unfold headc, is_digit in Hc. replace ((c =? 32) || (c =? 9)) with false by lia. reflexivity. }
  rewrite Hls, (norm_nl_id _ Hg).
  assert (Hld : lead false (R w) = Some (R w)).
  { rewrite Hw. cbn [lead]. unfold headc, is_digit in Hc.
    replace ((c =? 32) || (c =? 9)) with false by lia. replace ((c =? 12) || (c =? 10)) with false by lia. reflexivity. }
  rewrite Hld. unfold ptop.
  pose proof (pexpr_repr pr (S (S (2 * length (R w)))) w false [] Hok) as H. rewrite List.app_nil_r in H.
  rewrite H; [reflexivity | | reflexivity]. pose proof (psz_le pr w Hok). lia.
Qed.

Theorem repr_injective a b : pyv_ok a = true -> pyv_ok b = true -> R a = R b -> a = b.
Proof.
  intros Ha Hb H. pose proof (read_repr a Ha) as Ra. rewrite H, (read_repr b Hb) in Ra. inversion Ra. reflexivity.
Qed.

(* the text is source the parser takes: no NUL, no surrogate code point, no carriage return, nothing to strip *)
Theorem repr_source_ok w : pyv_ok w = true ->
  forallb src_ok (R w) = true /\ norm_nl (R w) = R w /\ lstrip (R w) = R w.
Proof.
  intros Hok. pose proof (repr_good w Hok) as Hg. repeat split; [apply good_src, Hg | apply norm_nl_id, Hg |].
  destruct (repr_head pr w Hok) as (c & r & Hw & Hc). rewrite Hw. cbn [lstrip]. unfold headc, is_digit in Hc.
  replace ((c =? 32) || (c =? 9)) with false by lia. reflexivity.
Qed.
End Top.

Lemma pr_of_law tbl : pr_law (pr_of tbl).
Proof. intros c H. unfold pr_of in H. apply andb_prop in H. apply H. Qed.

(* ---------------------------------------------------------------- F. the JSON reader on repr text *)
Section JsonAgree.
Variable pr : N -> bool.
Hypothesis Hpr : pr_law pr.
Variable strict : bool.
Notation R := (py_repr pr).

(* one character of a string in double quotes: the JSON string reader reads the same character, or rejects the text *)
Lemma pstr_pesc c t : cp_ok c = true ->
  pstr strict (pesc pr 34 c ++ t) = ocons c (pstr strict t) \/ pstr strict (pesc pr 34 c ++ t) = None.
Proof.
  intros Hok. unfold pesc.
  destruct ((c =? 34) || (c =? 92)) eqn:E0.
  { left. destruct (c =? 92) eqn:E92.
    - apply N.eqb_eq in E92; subst; reflexivity.
    - rewrite orb_false_r in E0. apply N.eqb_eq in E0; subst; reflexivity. }
  apply orb_false_elim in E0. destruct E0 as [E34 E92].
  destruct (c =? 9) eqn:E9. { left. apply N.eqb_eq in E9; subst; reflexivity. }
  destruct (c =? 10) eqn:E10. { left. apply N.eqb_eq in E10; subst; reflexivity. }
  destruct (c =? 13) eqn:E13. { left. apply N.eqb_eq in E13; subst; reflexivity. }
  destruct ((c <? 32) || (c =? 127)) eqn:Ectl. { right. reflexivity. }
  unfold cp_ok in Hok.
  destruct (c <? 127) eqn:E127.
  { left. cbn [List.app]. apply pstr_raw; try assumption; [lia | unfold is_surr; destruct strict; cbn [andb]; lia]. }
  destruct (pr c) eqn:Ep.
  { left. cbn [List.app]. apply pstr_raw; try assumption; [lia | unfold is_surr; destruct strict; cbn [andb]; lia]. }
  destruct (c <? 256) eqn:E256. { right. reflexivity. }
  destruct (c <? 65536) eqn:E64k.
  { left. unfold u4. cbn [List.app]. apply pstr_u_plain; [apply hex4_u4; lia | unfold is_high; lia | unfold is_low; lia]. }
  right. reflexivity.
Qed.

Lemma pstr_chars_inv s rest cs r : str_ok s = true ->
  pstr strict (flat_map (pesc pr 34) s ++ 34 :: rest) = Some (cs, r) -> cs = s /\ r = rest.
Proof.
  revert cs. induction s as [|c s IH]; intros cs Hok H.
  - cbn in H. inversion H. split; reflexivity.
  - cbn [str_ok forallb] in Hok. apply andb_prop in Hok. destruct Hok as [Hc Hs].
    cbn [flat_map] in H. rewrite <- List.app_assoc in H.
    destruct (pstr_pesc c (flat_map (pesc pr 34) s ++ 34 :: rest) Hc) as [E | E]; rewrite E in H; [|discriminate].
    destruct (pstr strict (flat_map (pesc pr 34) s ++ 34 :: rest)) as [[cs' r']|] eqn:Ep; [|discriminate].
    cbn [ocons] in H. inversion H; subst. destruct (IH cs' Hs eq_refl) as [-> ->]. split; reflexivity.
Qed.

(* text that starts with one of these characters is not JSON *)
Lemma pval_reject n c X : c = 39 \/ c = 40 \/ c = 84 \/ c = 70 \/ c = 115 -> pval strict (S n) (c :: X) = None.
Proof. intros [-> | [-> | [-> | [-> | ->]]]]; destruct strict; reflexivity. Qed.
Lemma pval_reject_None n X : pval strict (S n) (78 :: 111 :: X) = None.
Proof. destruct strict; reflexivity. Qed.

Lemma headc_jws c : headc c = true -> is_ws c = false /\ (c =? 93) = false /\ (c =? 125) = false.
Proof. unfold headc, is_digit, is_ws. lia. Qed.

(* a value whose text starts with a double quote is a str written in double quotes *)
Lemma head34 w r : pyv_ok w = true -> R w = 34 :: r -> exists s, w = YStr s /\ quote_of s = 34.
Proof.
  intros Hok H. destruct w as [|b|z|t|s|l|l|d|l]; cbn [py_repr] in H.
  - discriminate.
  - destruct b; discriminate.
  - unfold show_int in H. destruct (z <? 0)%Z; [discriminate|].
    destruct (show_nat_head (Z.to_N z)) as (c & r' & Hs & Hd). rewrite Hs in H. inversion H; subst. discriminate.
  - cbn [pyv_ok] in Hok. destruct (num_head _ _ _ (float_tok_pnum t Hok)) as (c & r' & -> & Hst). inversion H; subst.
    destruct Hst as [Hd | (Hc & _)]; discriminate.
  - exists s. split; [reflexivity|]. unfold wr_pystr in H. inversion H. reflexivity.
  - discriminate.
  - destruct l as [|x [|y l']]; discriminate.
  - discriminate.
  - destruct l; discriminate.
Qed.

Definition Jval (n : nat) : Prop := forall w rest j r, pyv_ok w = true -> pyv_scalar w = true -> follow_ok rest = true ->
  pval strict n (R w ++ rest) = Some (j, r) -> of_json j = w /\ r = rest.
Definition Jelems (n : nat) : Prop := forall x l rest lj r, pyv_ok x = true -> pyv_scalar x = true ->
  forallb pyv_ok l = true -> forallb pyv_scalar l = true ->
  pelems strict n (R x ++ tl_items pr l ++ 93 :: rest) = Some (lj, r) -> map of_json lj = x :: l /\ r = rest.
Definition kv_sc (kx : pyv * pyv) : bool := pyv_scalar (fst kx) && pyv_scalar (snd kx).
Definition Jmembers (n : nat) : Prop := forall k v d rest dj r, pyv_ok k = true -> pyv_ok v = true ->
  pyv_scalar k = true -> pyv_scalar v = true -> forallb kv_ok d = true -> forallb kv_sc d = true ->
  pmembers strict n (member pr (k, v) ++ tl_members pr d ++ 125 :: rest) = Some (dj, r) ->
  map (fun kx => (YStr (fst kx), of_json (snd kx))) dj = (k, v) :: d /\ r = rest.

Lemma skip_ws_hd c r : is_ws c = false -> skip_ws (c :: r) = c :: r.
Proof. intros H. cbn [skip_ws]. rewrite H. reflexivity. Qed.
Lemma skip_ws_sp s : skip_ws (32 :: s) = skip_ws s.
Proof. reflexivity. Qed.

Lemma jstep_elems n : Jval n -> Jelems n -> Jelems (S n).
Proof.
  intros HV HE x l rest lj r Hx Sx Hl Sl H. rewrite pelems_S in H.
  destruct (pval strict n (R x ++ tl_items pr l ++ 93 :: rest)) as [[jx r1]|] eqn:Ev; [|discriminate].
  destruct (HV x _ jx r1 Hx Sx (follow_tl pr l 93 rest ltac:(left; reflexivity)) Ev) as [Hjx ->].
  destruct l as [|y l'].
  - cbn [tl_items flat_map List.app] in H. rewrite (skip_ws_hd 93 rest eq_refl) in H. change (93 =? 93) with true in H. cbv iota in H.
    inversion H; subst. cbn [map]. split; reflexivity.
  - cbn [forallb] in Hl, Sl. apply andb_prop in Hl. destruct Hl as [Hy Hl']. apply andb_prop in Sl. destruct Sl as [Sy Sl'].
    unfold tl_items at 1 in H. cbn [flat_map] in H. fold (tl_items pr l') in H. cbn [List.app] in H. rewrite <- !List.app_assoc in H.
    rewrite (skip_ws_hd 44 _ eq_refl) in H. change (44 =? 93) with false in H. change (44 =? 44) with true in H. cbv iota in H.
    rewrite (pelems_ws strict n _ _ (skip_ws_sp _)) in H.
    destruct (pelems strict n (R y ++ tl_items pr l' ++ 93 :: rest)) as [[xs r'']|] eqn:Ee; [|discriminate].
    destruct (HE y l' rest xs r'' Hy Sy Hl' Sl' Ee) as [Hxs ->]. inversion H; subst. cbn [map]. rewrite Hxs. split; reflexivity.
Qed.

Lemma jstep_members n : Jval n -> Jmembers n -> Jmembers (S n).
Proof.
  intros HV HM k v d rest dj r Hk Hv Sk Sv Hd Sd H. rewrite pmembers_S in H. unfold member in H. cbn [fst snd] in H.
  rewrite <- !List.app_assoc in H.
  destruct (repr_head pr k Hk) as (c & rk & Hw & Hc). destruct (headc_jws c Hc) as (W & _ & _).
  rewrite Hw in H. cbn [List.app] in H. rewrite (skip_ws_hd c _ W) in H.
  destruct (c =? 34) eqn:E34; [|discriminate]. apply N.eqb_eq in E34. subst c.
  destruct (head34 k rk Hk Hw) as (s & -> & Hq). cbn [pyv_scalar] in Sk.
  cbn [py_repr] in Hw. unfold wr_pystr in Hw. rewrite Hq in Hw. inversion Hw as [Hrk]. clear Hw.
  rewrite <- Hrk in H. rewrite <- !List.app_assoc in H. cbn [List.app] in H.
  destruct (pstr strict (flat_map (pesc pr 34) s ++ 34 :: 58 :: 32 :: R v ++ tl_members pr d ++ 125 :: rest)) as [[ks r1]|] eqn:Es; [|discriminate].
  destruct (pstr_chars_inv s _ ks r1 Sk Es) as [-> ->].
  rewrite (skip_ws_hd 58 _ eq_refl) in H. change (58 =? 58) with true in H. cbv iota in H.
  rewrite (pval_ws strict n _ _ (skip_ws_sp _)) in H.
  destruct (pval strict n (R v ++ tl_members pr d ++ 125 :: rest)) as [[jx r3]|] eqn:Ev; [|discriminate].
  destruct (HV v _ jx r3 Hv Sv (follow_tlm pr d rest) Ev) as [Hjx ->].
  destruct d as [|[k' v'] d'].
  - cbn [tl_members flat_map List.app] in H. rewrite (skip_ws_hd 125 rest eq_refl) in H. change (125 =? 125) with true in H. cbv iota in H.
    inversion H; subst. cbn [map fst snd]. split; reflexivity.
  - cbn [forallb] in Hd, Sd. apply andb_prop in Hd. destruct Hd as [Hkv Hd']. apply andb_prop in Sd. destruct Sd as [Skv Sd'].
    unfold kv_ok in Hkv. unfold kv_sc in Skv. cbn [fst snd] in Hkv, Skv.
    apply andb_prop in Hkv. destruct Hkv as [Hk' Hv']. apply andb_prop in Skv. destruct Skv as [Sk' Sv'].
    unfold tl_members at 1 in H. cbn [flat_map] in H. fold (tl_members pr d') in H. cbn [List.app] in H. rewrite <- !List.app_assoc in H.
    rewrite (skip_ws_hd 44 _ eq_refl) in H. change (44 =? 125) with false in H. change (44 =? 44) with true in H. cbv iota in H.
    rewrite (pmembers_ws strict n _ _ (skip_ws_sp _)) in H.
    destruct (pmembers strict n (member pr (k', v') ++ tl_members pr d' ++ 125 :: rest)) as [[dd r5]|] eqn:Em; [|discriminate].
    destruct (HM k' v' d' rest dd r5 Hk' Hv' Sk' Sv' Hd' Sd' Em) as [Hdd ->]. inversion H; subst. cbn [map fst snd]. rewrite Hdd. split; reflexivity.
Qed.

(* the member reader rejects the text of a set display: after the first element comes a comma or the brace, never a colon *)
Lemma pmembers_set n x l rest : pyv_ok x = true -> pyv_scalar x = true ->
  pmembers strict n (R x ++ tl_items pr l ++ 125 :: rest) = None.
Proof.
  intros Hx Sx. destruct n as [|n]; [reflexivity|]. rewrite pmembers_S.
  destruct (repr_head pr x Hx) as (c & rk & Hw & Hc). destruct (headc_jws c Hc) as (W & _ & _).
  rewrite Hw. cbn [List.app]. rewrite (skip_ws_hd c _ W).
  destruct (c =? 34) eqn:E34; [|reflexivity]. apply N.eqb_eq in E34. subst c.
  destruct (head34 x rk Hx Hw) as (s & -> & Hq). cbn [pyv_scalar] in Sx.
  cbn [py_repr] in Hw. unfold wr_pystr in Hw. rewrite Hq in Hw. inversion Hw as [Hrk]. clear Hw.
  rewrite <- !List.app_assoc. cbn [List.app].
  destruct (pstr strict (flat_map (pesc pr 34) s ++ 34 :: tl_items pr l ++ 125 :: rest)) as [[ks r1]|] eqn:Es; [|reflexivity].
  destruct (pstr_chars_inv s _ ks r1 Sx Es) as [-> ->].
  destruct l as [|y l']; reflexivity.
Qed.

Lemma jstep_val n : Jval n -> Jelems n -> Jmembers n -> Jval (S n).
Proof.
  intros HV HE HM w rest j r Hok Hsc F H. destruct w as [|b|z|t|s|l|l|d|l].
  - cbn [py_repr t_None List.app] in H. rewrite pval_reject_None in H. discriminate.
  - destruct b; cbn [py_repr t_True t_False List.app] in H; rewrite pval_reject in H by tauto; discriminate.
  - cbn [py_repr] in H. rewrite (pval_num strict n _ _ rest (pnum_show_int z) F) in H. inversion H; subst. split; reflexivity.
  - cbn [py_repr] in H. cbn [pyv_ok] in Hok.
    rewrite (pval_num strict n _ _ rest (float_tok_pnum t Hok) F) in H. inversion H; subst. split; reflexivity.
  - cbn [py_repr] in H. rewrite wr_pystr_app in H. cbn [pyv_scalar] in Hsc.
    destruct (quote_is_quote s) as [Hq | Hq]; rewrite Hq in H.
    + rewrite pval_reject in H by tauto. discriminate.
    + rewrite pval_str in H.
      destruct (pstr strict (flat_map (pesc pr 34) s ++ 34 :: rest)) as [[cs r']|] eqn:Es; [|discriminate].
      destruct (pstr_chars_inv s rest cs r' Hsc Es) as [-> ->]. inversion H; subst. split; reflexivity.
  - cbn [py_repr] in H. cbn [List.app] in H. rewrite pval_list in H. cbn [pyv_ok] in Hok. cbn [pyv_scalar] in Hsc.
    destruct l as [|x l'].
    + cbn [sep_items List.app] in H. rewrite (skip_ws_hd 93 rest eq_refl) in H. change (93 =? 93) with true in H. cbv iota in H.
      inversion H; subst. split; reflexivity.
    + cbn [forallb] in Hok, Hsc. apply andb_prop in Hok. destruct Hok as [Hx Hl']. apply andb_prop in Hsc. destruct Hsc as [Sx Sl'].
      rewrite sep_items_cons in H. fold (tl_items pr l') in H. rewrite <- !List.app_assoc in H. cbn [List.app] in H.
      destruct (repr_head pr x Hx) as (c & rk & Hw & Hc). destruct (headc_jws c Hc) as (W & C93 & _).
      assert (Hsk : skip_ws (R x ++ tl_items pr l' ++ 93 :: rest) = c :: rk ++ tl_items pr l' ++ 93 :: rest)
        by (rewrite Hw; cbn [List.app]; apply skip_ws_hd, W).
      rewrite Hsk, C93 in H.
      destruct (pelems strict n (R x ++ tl_items pr l' ++ 93 :: rest)) as [[lj r']|] eqn:Ee; [|discriminate].
      destruct (HE x l' rest lj r' Hx Sx Hl' Sl' Ee) as [Hlj ->]. inversion H; subst. cbn [of_json]. rewrite Hlj. split; reflexivity.
  - exfalso. cbn [py_repr] in H. destruct l as [|x [|y l']]; cbn [List.app] in H; rewrite pval_reject in H by tauto; discriminate.
  - cbn [py_repr] in H. cbn [List.app] in H. rewrite pval_dict in H. cbn [pyv_ok] in Hok. cbn [pyv_scalar] in Hsc.
    destruct d as [|[k v] d'].
    + cbn [sep_items List.app] in H. rewrite (skip_ws_hd 125 rest eq_refl) in H. change (125 =? 125) with true in H. cbv iota in H.
      inversion H; subst. split; reflexivity.
    + cbn [forallb fst snd] in Hok, Hsc. apply andb_prop in Hok. destruct Hok as [Hkv Hd']. apply andb_prop in Hsc. destruct Hsc as [Skv Sd'].
      apply andb_prop in Hkv. destruct Hkv as [Hhk Hv]. apply andb_prop in Hhk. destruct Hhk as [_ Hk].
      apply andb_prop in Skv. destruct Skv as [Sk Sv].
      rewrite sep_items_cons in H. cbn [fst snd] in H.
      change (flat_map (fun y : pyv * pyv => 44 :: 32 :: R (fst y) ++ 58 :: 32 :: R (snd y)) d') with (tl_members pr d') in H.
      change (R k ++ 58 :: 32 :: R v) with (member pr (k, v)) in H. rewrite <- !List.app_assoc in H. cbn [List.app] in H.
      destruct (repr_head pr k Hk) as (c & rk & Hw & Hc). destruct (headc_jws c Hc) as (W & _ & C125).
      assert (Hsk : skip_ws (member pr (k, v) ++ tl_members pr d' ++ 125 :: rest) = c :: rk ++ 58 :: 32 :: R v ++ tl_members pr d' ++ 125 :: rest).
      { unfold member. cbn [fst snd]. rewrite Hw. rewrite <- !List.app_assoc. cbn [List.app]. apply skip_ws_hd, W. }
      rewrite Hsk, C125 in H.
      destruct (pmembers strict n (member pr (k, v) ++ tl_members pr d' ++ 125 :: rest)) as [[dj r']|] eqn:Em; [|discriminate].
      assert (Hd1 : forallb kv_ok d' = true /\ forallb kv_sc d' = true).
      { clear - Hd' Sd'. induction d' as [|[k' v'] d'' IH]; [split; reflexivity|].
        cbn [forallb fst snd] in *. apply andb_prop in Hd'. destruct Hd' as [H1 H2]. apply andb_prop in Sd'. destruct Sd' as [S1 S2].
        apply andb_prop in H1. destruct H1 as [H1 H3]. apply andb_prop in H1. destruct H1 as [_ H1].
        destruct (IH H2 S2) as [I1 I2]. unfold kv_ok at 1, kv_sc at 1. cbn [fst snd]. rewrite H1, H3, S1, I1, I2. split; reflexivity. }
      destruct Hd1 as [Hd1 Hd2].
      destruct (HM k v d' rest dj r' Hk Hv Sk Sv Hd1 Hd2 Em) as [Hdj ->]. inversion H; subst. cbn [of_json]. rewrite Hdj. split; reflexivity.
  - exfalso. cbn [py_repr] in H. cbn [pyv_ok] in Hok. cbn [pyv_scalar] in Hsc. destruct l as [|x l'].
    + cbn [t_set List.app] in H. rewrite pval_reject in H by tauto. discriminate.
    + cbn [List.app] in H. rewrite pval_dict in H.
      rewrite forallb_and in Hok. apply andb_prop in Hok. destruct Hok as [_ Hok].
      cbn [forallb] in Hok, Hsc. apply andb_prop in Hok. destruct Hok as [Hx _]. apply andb_prop in Hsc. destruct Hsc as [Sx _].
      rewrite sep_items_cons in H. fold (tl_items pr l') in H. rewrite <- !List.app_assoc in H. cbn [List.app] in H.
      destruct (repr_head pr x Hx) as (c & rk & Hw & Hc). destruct (headc_jws c Hc) as (W & _ & C125).
      assert (Hsk : skip_ws (R x ++ tl_items pr l' ++ 125 :: rest) = c :: rk ++ tl_items pr l' ++ 125 :: rest)
        by (rewrite Hw; cbn [List.app]; apply skip_ws_hd, W).
      rewrite Hsk, C125, (pmembers_set n x l' rest Hx Sx) in H. discriminate.
Qed.

Lemma jall n : Jval n /\ Jelems n /\ Jmembers n.
Proof.
  induction n as [|n (HV & HE & HM)].
  - split; [|split].
    + intros w rest j r _ _ _ H. discriminate H.
    + intros x l rest lj r _ _ _ _ H. discriminate H.
    + intros k v d rest dj r _ _ _ _ _ _ H. discriminate H.
  - split; [|split]; [apply jstep_val | apply jstep_elems | apply jstep_members]; assumption.
Qed.

(* whatever the JSON reader makes of repr text is the value itself *)
Theorem json_agrees_on_repr w j : pyv_ok w = true -> pyv_scalar w = true ->
  parse_text strict (R w) = Some j -> of_json j = w.
Proof.
  intros Hok Hsc H. unfold parse_text in H.
  destruct (pval strict (S (S (2 * length (R w)))) (R w)) as [[v r]|] eqn:E; [|discriminate].
  destruct (is_nil (skip_ws r)); [|discriminate]. inversion H; subst.
  rewrite <- (List.app_nil_r (R w)) in E at 2.
  exact (proj1 (proj1 (jall _) w [] j r Hok Hsc eq_refl E)).
Qed.

(* text that does not even start like JSON is rejected by the JSON reader *)
Theorem not_json w : pyv_ok w = true -> json_head w = false -> parse_text strict (R w) = None.
Proof.
  intros Hok Hh. unfold parse_text. destruct w as [|b|z|t|s|l|l|d|l]; try discriminate.
  - change (R YNone) with (78 :: 111 :: [110; 101]). rewrite pval_reject_None. reflexivity.
  - destruct b; cbn [py_repr]; unfold t_True, t_False; rewrite pval_reject by tauto; reflexivity.
  - cbn [json_head] in Hh. cbn [py_repr]. unfold wr_pystr.
    destruct (quote_is_quote s) as [Hq | Hq]; rewrite Hq in *; [|discriminate]. rewrite pval_reject by tauto. reflexivity.
  - destruct l as [|x [|y l']]; cbn [py_repr]; rewrite pval_reject by tauto; reflexivity.
  - destruct l; [|discriminate]. cbn [py_repr]. unfold t_set. rewrite pval_reject by tauto. reflexivity.
Qed.

(* a tuple, a set, None, True, False are never JSON data: the JSON reader rejects their text *)
Theorem python_only_not_json w : pyv_ok w = true -> pyv_scalar w = true ->
  match w with YNone | YBool _ | YTuple _ | YSet _ => True | _ => False end -> parse_text strict (R w) = None.
Proof.
  intros Hok Hsc Hw. destruct w; try contradiction; try (apply not_json; [exact Hok | reflexivity]).
  destruct (parse_text strict (R (YSet l))) as [j|] eqn:E; [|reflexivity].
  pose proof (json_agrees_on_repr _ j Hok Hsc E) as H. destruct j; discriminate.
Qed.

(* strload's composition on repr text: the value, whichever reader answers *)
Theorem strload_repr w : pyv_ok w = true -> pyv_scalar w = true -> strload_text strict (R w) = LVal w.
Proof.
  intros Hok Hsc. unfold strload_text. destruct (parse_text strict (R w)) as [j|] eqn:E.
  - rewrite (json_agrees_on_repr w j Hok Hsc E). reflexivity.
  - rewrite (read_repr pr Hpr w Hok). reflexivity.
Qed.

(* ... and in a bytes-like carrier: the UTF-8 bytes of repr text decode to it (no surrogate is ever written raw) *)
Lemma repr_cp_ok w : pyv_ok w = true -> forallb cp_ok (R w) = true.
Proof.
  apply py_all.
  - intros c H1 H2. unfold cp_ok. lia.
  - intros c Hp _. exact (Hpr c Hp).
Qed.
Theorem strload_repr_bytes w : pyv_ok w = true -> pyv_scalar w = true ->
  strload_bytes strict (utf8_enc (R w)) = Some (LVal w).
Proof.
  intros Hok Hsc. unfold strload_bytes. rewrite utf8_roundtrip.
  - rewrite (strload_repr w Hok Hsc). reflexivity.
  - intros c Hin. pose proof (repr_cp_ok w Hok) as H. rewrite forallb_forall in H. specialize (H c Hin).
    unfold cp_ok in H. unfold is_surr. split; [lia | right; lia].
Qed.
End JsonAgree.

(* ---------------------------------------------------------------- G. the guards are needed; where JSON and Python literals differ *)
Definition pr0 : N -> bool := pr_of [(127, 160); (173, 173); (888, 889); (8232, 8233); (65534, 65535); (917505, 917505)].

(* repr(float('inf')) is the name inf, which is no literal: serdes.load(repr(float('inf'))) is the text *)
Lemma refuted_float_inf : literal_read (py_repr pr0 (YFloat [105; 110; 102])) = None.
Proof. vm_compute. reflexivity. Qed.
(* a float whose token has neither fraction nor exponent is read back as an int *)
Lemma refuted_float_token : literal_read (py_repr pr0 (YFloat [49])) = Some (YInt 1).
Proof. vm_compute. reflexivity. Qed.
(* a set of a list, a dict keyed by a list: TypeError in literal_eval *)
Lemma refuted_unhashable :
  literal_read (py_repr pr0 (YSet [YList []])) = None /\ literal_read (py_repr pr0 (YDict [(YList [], YNone)])) = None.
Proof. vm_compute. split; reflexivity. Qed.
(* a number above 0x10FFFF is not a code point *)
Lemma refuted_codepoint : literal_read (py_repr pr0 (YStr [1114112])) = None.
Proof. vm_compute. reflexivity. Qed.
(* a writer that leaves a surrogate raw (a printable table that breaks the law) writes text the parser refuses *)
Lemma refuted_pr_law : literal_read (py_repr (fun _ => true) (YStr [55296])) = None.
Proof. vm_compute. reflexivity. Qed.

Definition read_repr_full (pr : N -> bool) : Prop := forall w, literal_read (py_repr pr w) = Some w.
Lemma read_repr_full_refuted pr : ~ read_repr_full pr.
Proof. intros H. specialize (H (YFloat [49])). vm_compute in H. discriminate. Qed.

(* general texts: JSON and Python read the same characters differently in exactly these escapes *)
Definition agree_full : Prop := forall t j v, parse_text true t = Some j -> literal_read t = Some v -> of_json j = v.
(* "\/" : JSON unescapes the slash, Python keeps the backslash *)
Lemma refuted_agree_slash :
  parse_text true [34; 92; 47; 34] = Some (JStr [47]) /\ literal_read [34; 92; 47; 34] = Some (YStr [92; 47]).
Proof. vm_compute. split; reflexivity. Qed.
(* a high and a low surrogate written as two u-escapes in double quotes: JSON joins the pair of escapes into U+1F600, Python keeps two surrogates; this is also repr of the str of
   those two surrogates after an apostrophe, so the scalar guard of json_agrees_on_repr is needed *)
Lemma refuted_agree_pair :
  parse_text true [34; 92; 117; 100; 56; 51; 100; 92; 117; 100; 101; 48; 48; 34] = Some (JStr [128512]) /\
  literal_read [34; 92; 117; 100; 56; 51; 100; 92; 117; 100; 101; 48; 48; 34] = Some (YStr [55357; 56832]).
Proof. vm_compute. split; reflexivity. Qed.
Lemma refuted_agree_repr_surrogates :
  py_repr pr0 (YStr [39; 55357; 56832]) = [34; 39; 92; 117; 100; 56; 51; 100; 92; 117; 100; 101; 48; 48; 34] /\
  pyv_ok (YStr [39; 55357; 56832]) = true /\
  strload_text true (py_repr pr0 (YStr [39; 55357; 56832])) = LVal (YStr [39; 128512]).
Proof. vm_compute. repeat split; reflexivity. Qed.
Lemma agree_full_refuted : ~ agree_full.
Proof.
  intros H. destruct refuted_agree_slash as [A B]. specialize (H _ _ _ A B). discriminate.
Qed.
(* texts both languages accept with the same meaning exist: [1, 2] and "it's" *)
Lemma both_accept_same :
  parse_text true [91; 49; 44; 32; 50; 93] = Some (JList [JInt 1; JInt 2]) /\
  literal_read [91; 49; 44; 32; 50; 93] = Some (YList [YInt 1; YInt 2]) /\
  py_repr pr0 (YStr [105; 116; 39; 115]) = [34; 105; 116; 39; 115; 34] /\
  parse_text true [34; 105; 116; 39; 115; 34] = Some (JStr [105; 116; 39; 115]) /\
  literal_read [34; 105; 116; 39; 115; 34] = Some (YStr [105; 116; 39; 115]).
Proof. vm_compute. repeat split; reflexivity. Qed.
