(* The toy runtime of Model/CoreValidToy.v satisfies the laws; facts used by the examples and the
   refutation witnesses of Props/C13.v. *)
From Coq Require Import List Arith Bool PeanoNat Lia.
Import ListNotations.
Require Import TL.Model.Core TL.Model.CoreValid TL.Model.CoreValidToy TL.Proofs.CoreC13.

Lemma toy_none_laws : NoneLaws toy_rt.
Proof.
  split.
  - reflexivity.
  - intros v H. cbn in *. rewrite H. exists EValue. split; reflexivity.
Qed.

Lemma toy_pass_laws : PassLaws toy_rt toy_lv.
Proof.
  split; [exact toy_none_laws|]. intros s v H. cbn.
  destruct s as [|[|[|s]]]; destruct v as [[|[|[|[|[|a]]]]]|f|k l|k l|c l|c l]; cbn in *; try discriminate; reflexivity.
Qed.

Lemma toy_idem_laws : IdemLaws toy_rt.
Proof.
  split; [exact toy_none_laws|]. intros s x y. cbn.
  destruct x as [a|f|k l|k l|c l|c l]; cbn; try (intros H; inversion H; subst; reflexivity).
  destruct s as [|[|s]]; destruct a as [|[|[|[|[|a]]]]]; cbn; intros H; inversion H; subst; reflexivity.
Qed.

Lemma toy_dom : env_dom toy_E toy_names.
Proof. intros c H. destruct c as [|[|[|[|c]]]]; cbn in *; auto; try (now contradiction H). Qed.

Lemma toy_wf : wf_env toy_E.
Proof. apply (nodup_namesb_sound _ toy_names toy_dom). reflexivity. Qed.

Lemma toy_defaults : DefaultsConform toy_rt toy_E.
Proof. apply (defaults_okb_sound _ _ 3 toy_names toy_dom). reflexivity. Qed.

Lemma toy_oo : forall k,
  optional_only toy_E k (TName 2) = true /\ optional_only toy_E k (TSeq KList (TName 0)) = true /\
  optional_only toy_E k (TName 0) = true /\ optional_only toy_E k (TUnion [TName 0; TNone]) = true.
Proof.
  induction k as [|k [H1 [H2 [H3 H4]]]]; [repeat split; reflexivity|].
  repeat split; cbn [optional_only toy_E optional_pair is_none_ty cfields fty forallb]; try assumption.
  rewrite H4. destruct k; reflexivity.
Qed.

Lemma no_dom : env_dom no_E []. Proof. intros c H. now contradiction H. Qed.
Lemma no_wf : wf_env no_E. Proof. intros c cd H. discriminate. Qed.
Lemma no_defaults : DefaultsConform toy_rt no_E. Proof. intros c cd fd d H. discriminate. Qed.

Lemma bad_default_dom : env_dom bad_default_E [0].
Proof. intros c H. destruct c as [|c]; cbn in *; auto; try (now contradiction H). Qed.
Lemma bad_default_wf : wf_env bad_default_E.
Proof. apply (nodup_namesb_sound _ [0] bad_default_dom). reflexivity. Qed.
Lemma bad_default_oo : forall k, optional_only bad_default_E k (TName 0) = true.
Proof. intros [|[|k]]; reflexivity. Qed.

Lemma bad_default_second : forall f, unm toy_rt bad_default_E f (TName 0) (PObj 0 [(0, PAtom 4)]) <> Ok (PObj 0 [(0, PAtom 4)]).
Proof. intros [|[|f]]; cbn; discriminate. Qed.

Lemma bad_union_second : forall f, unm toy_rt no_E f bad_union_T (PAtom 1) <> Ok (PAtom 1).
Proof. intros [|[|f]]; cbn; discriminate. Qed.
