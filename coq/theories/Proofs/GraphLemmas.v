(* Proofs about Model/Graph.v: equality, the shape of what one expansion produces, the invariants of the
   breadth-first walk (flags, completeness of members, connectedness to the root), string aliases,
   what a deferred node denotes, input forms. *)
From Coq Require Import List Arith Bool PeanoNat String Ascii Lia.
Import ListNotations.
Require Import TL.Model.Graph.

(* ------------------------------------------------------------------------------------------- *)
(* induction over annotations (nested lists)                                                    *)
(* ------------------------------------------------------------------------------------------- *)
Section GtyInd.
  Variable P : gty -> Prop.
  Hypothesis Hs : forall s, P (GScalar s).
  Hypothesis Hn : P GNone.
  Hypothesis He : P GEllipsis.
  Hypothesis Ha : P GAny.
  Hypothesis Hl : forall n, P (GLit n).
  Hypothesis Hg : forall g a, Forall P a -> P (GGen g a).
  Hypothesis Hu : forall sp ms, Forall P ms -> P (GUnion sp ms).
  Hypothesis Hc : forall c, P (GClass c).
  Hypothesis Hnt : forall m n t, P t -> P (GNewType m n t).
  Hypothesis Hal : forall m n t, P t -> P (GAlias m n t).
  Hypothesis Has : forall m n b, P (GAliasStr m n b).
  Hypothesis Hf : forall t, P t -> P (GFinal t).
  Hypothesis Hr : forall a m, P (GRef a m).
  Fixpoint gty_ind' (t : gty) : P t :=
    let fix go (l : list gty) : Forall P l :=
      match l with [] => Forall_nil P | x :: r => Forall_cons x (gty_ind' x) (go r) end in
    match t with
    | GScalar s => Hs s | GNone => Hn | GEllipsis => He | GAny => Ha | GLit n => Hl n
    | GGen g a => Hg g a (go a)
    | GUnion sp ms => Hu sp ms (go ms)
    | GClass c => Hc c
    | GNewType m n x => Hnt m n x (gty_ind' x)
    | GAlias m n x => Hal m n x (gty_ind' x)
    | GAliasStr m n b => Has m n b
    | GFinal x => Hf x (gty_ind' x)
    | GRef a m => Hr a m
    end.
End GtyInd.

Lemma scalar_eqb_eq : forall a b, scalar_eqb a b = true <-> a = b.
Proof. intros a b; split; [destruct a, b; cbn; congruence | intros ->; destruct b; reflexivity]. Qed.
Lemma gen_eqb_eq : forall a b, gen_eqb a b = true <-> a = b.
Proof. intros a b; split; [destruct a, b; cbn; congruence | intros ->; destruct b; reflexivity]. Qed.
Lemma uspell_eqb_eq : forall a b, uspell_eqb a b = true <-> a = b.
Proof. intros a b; split; [destruct a, b; cbn; congruence | intros ->; destruct b; reflexivity]. Qed.
Lemma ostr_eqb_eq : forall a b, ostr_eqb a b = true <-> a = b.
Proof.
  intros [x|] [y|]; cbn; split; try congruence.
  - intros H; apply String.eqb_eq in H; congruence.
  - intros H; inversion H; apply String.eqb_refl.
Qed.

Definition list_eqb_go :=
  fix go (x y : list gty) : bool :=
    match x, y with
    | [], [] => true
    | u :: x', v :: y' => gty_eqb u v && go x' y'
    | _, _ => false
    end.

Lemma gty_eqb_eq : forall a b, gty_eqb a b = true <-> a = b.
Proof.
  assert (Hlist : forall l, Forall (fun a => forall b, gty_eqb a b = true <-> a = b) l ->
                            forall l', list_eqb_go l l' = true <-> l = l').
  { induction l as [|x r IH]; intros HF l'; destruct l' as [|y r']; cbn; split; try congruence.
    - intros H; apply andb_true_iff in H; destruct H as [H1 H2].
      inversion HF as [|? ? Hx Hr]; subst. apply Hx in H1. apply (IH Hr) in H2. congruence.
    - intros H; inversion H; subst. inversion HF as [|? ? Hx Hr]; subst.
      apply andb_true_iff; split; [apply Hx; reflexivity | apply (IH Hr); reflexivity]. }
  intros x; induction x as [s| | | |n|g a H|sp ms H|c|m n t IHa|m n t IHa|m n bd|t IHa|a mo] using gty_ind';
    intros y; destruct y as [s'| | | |n'|g' args|sp' ms0|c'|m' n' t'|m' n' t'|m' n' bd'|t'|a' mo'];
    cbn; split; try congruence; intros Heq.
  - apply scalar_eqb_eq in Heq; congruence.
  - inversion Heq; apply scalar_eqb_eq; reflexivity.
  - apply Nat.eqb_eq in Heq; congruence.
  - inversion Heq; apply Nat.eqb_refl.
  - apply andb_true_iff in Heq; destruct Heq as [H1 H2]. apply gen_eqb_eq in H1.
    change (list_eqb_go a args = true) in H2. apply (Hlist a H) in H2. congruence.
  - inversion Heq; subst. apply andb_true_iff; split; [apply gen_eqb_eq; reflexivity|].
    change (list_eqb_go args args = true). apply (Hlist args H); reflexivity.
  - apply andb_true_iff in Heq; destruct Heq as [H1 H2]. apply uspell_eqb_eq in H1.
    change (list_eqb_go ms ms0 = true) in H2. apply (Hlist ms H) in H2. congruence.
  - inversion Heq; subst. apply andb_true_iff; split; [apply uspell_eqb_eq; reflexivity|].
    change (list_eqb_go ms0 ms0 = true). apply (Hlist ms0 H); reflexivity.
  - apply Nat.eqb_eq in Heq; congruence.
  - inversion Heq; apply Nat.eqb_refl.
  - apply andb_true_iff in Heq; destruct Heq as [H1 H3]. apply andb_true_iff in H1; destruct H1 as [H1 H2].
    apply String.eqb_eq in H1. apply String.eqb_eq in H2. apply IHa in H3. congruence.
  - inversion Heq; subst. rewrite !String.eqb_refl. cbn. apply IHa; reflexivity.
  - apply andb_true_iff in Heq; destruct Heq as [H1 H3]. apply andb_true_iff in H1; destruct H1 as [H1 H2].
    apply String.eqb_eq in H1. apply String.eqb_eq in H2. apply IHa in H3. congruence.
  - inversion Heq; subst. rewrite !String.eqb_refl. cbn. apply IHa; reflexivity.
  - apply andb_true_iff in Heq; destruct Heq as [H1 H3]. apply andb_true_iff in H1; destruct H1 as [H1 H2].
    apply String.eqb_eq in H1. apply String.eqb_eq in H2. apply String.eqb_eq in H3. congruence.
  - inversion Heq; subst. rewrite !String.eqb_refl. reflexivity.
  - apply IHa in Heq; congruence.
  - inversion Heq; subst. apply IHa; reflexivity.
  - apply andb_true_iff in Heq; destruct Heq as [H1 H2]. apply String.eqb_eq in H1. apply ostr_eqb_eq in H2. congruence.
  - inversion Heq; subst. rewrite String.eqb_refl. cbn. apply ostr_eqb_eq; reflexivity.
Qed.

Lemma gty_eqb_refl : forall a, gty_eqb a a = true.
Proof. intros a; apply gty_eqb_eq; reflexivity. Qed.

Lemma mem_In : forall t V, mem t V = true <-> In t V.
Proof.
  intros t V; unfold mem; rewrite existsb_exists; split.
  - intros [x [Hin Heq]]; apply gty_eqb_eq in Heq; subst; exact Hin.
  - intros Hin; exists t; split; [exact Hin | apply gty_eqb_refl].
Qed.

Lemma node_eqb_refl : forall n, node_eqb n n = true.
Proof.
  intros n; unfold node_eqb. rewrite !gty_eqb_refl. cbn.
  rewrite (proj2 (ostr_eqb_eq _ _) eq_refl). cbn. destruct (ncyc n); reflexivity.
Qed.

(* ------------------------------------------------------------------------------------------- *)
(* unwrap                                                                                       *)
(* ------------------------------------------------------------------------------------------- *)
Lemma unwrap_idem : forall t, unwrap (unwrap t) = unwrap t.
Proof. induction t using gty_ind'; cbn; auto. Qed.

(* ------------------------------------------------------------------------------------------- *)
(* one expansion                                                                                *)
(* ------------------------------------------------------------------------------------------- *)
(* how a predecessor node n answers for the member (var, c) of its parent *)
Definition represents (E : env) (n : node) (var : option str) (c : gty) : Prop :=
  nvar n = var /\ nfor n = c /\
  ((ncyc n = false /\ n = mknode c (unwrap c) var) \/
   (ncyc n = true /\ n = mkdefer c (unwrap c) var /\ can_be_cyclic E (unwrap c) = true) \/
   (ncyc n = true /\ mkref E c (unwrap c) var = Some n /\ can_be_cyclic E (unwrap c) = true)).

Lemma mkref_shape : forall E c u var n, mkref E c u var = Some n ->
  ncyc n = true /\ is_ref (ntype n) = true /\ nvar n = var /\ nfor n = c.
Proof.
  intros E c u var n H; unfold mkref in H. destruct (ref_parts E c) as [[m r]|]; [|discriminate].
  inversion H; subst; cbn; auto.
Qed.

Lemma expand_sound : forall E kids st path preds st',
  expand E kids st path = Some (preds, st') ->
  forall n, In n preds -> exists var c, In (var, c) kids /\ skip var c = false /\ represents E n var c /\
    (ncyc n = true -> exists st0, visitedb E c (unwrap c) var st0 path = true).
Proof.
  intros E kids; induction kids as [|[var c] rest IH]; intros st path preds st' H n Hn; cbn in H.
  - inversion H; subst; contradiction.
  - destruct (skip var c) eqn:Hsk.
    + destruct (IH _ _ _ _ H n Hn) as [v [c' [Hin R]]]. exists v, c'; split; [right; exact Hin | exact R].
    + destruct (visitedb E c (unwrap c) var st path && can_be_cyclic E (unwrap c)) eqn:Hcut.
      * apply andb_true_iff in Hcut; destruct Hcut as [Hrv Hcc].
        assert (Hcommon : forall r ps, expand E rest st path = Some (ps, st') -> preds = r :: ps ->
                  ncyc r = true -> represents E r var c ->
                  exists var0 c0, In (var0, c0) ((var, c) :: rest) /\ skip var0 c0 = false /\ represents E n var0 c0 /\
                    (ncyc n = true -> exists st0, visitedb E c0 (unwrap c0) var0 st0 path = true)).
        { intros r ps Hrest Hp Hrc Hrep. subst preds. destruct Hn as [Hn|Hn].
          - subst n. exists var, c; split; [left; reflexivity|]. split; [exact Hsk|]. split; [exact Hrep|].
            intros _. exists st; exact Hrv.
          - destruct (IH _ _ _ _ Hrest n Hn) as [v [c' [Hin [S1 [S2 S3]]]]].
            exists v, c'; split; [right; exact Hin|]. split; [exact S1|]. split; [exact S2 | exact S3]. }
        destruct (is_generic E (unwrap c) || should_unwrap c || is_ref c).
        -- destruct (expand E rest st path) as [[ps st1]|] eqn:Hrest; [|discriminate].
           inversion H; subst; clear H. apply (Hcommon (mkdefer c (unwrap c) var) ps); auto.
           unfold represents; cbn; repeat split; auto.
        -- destruct (mkref E c (unwrap c) var) as [r|] eqn:Hmk; [|discriminate].
           destruct (expand E rest st path) as [[ps st1]|] eqn:Hrest; [|discriminate].
           inversion H; subst; clear H. destruct (mkref_shape _ _ _ _ _ Hmk) as [Hc [_ [Hv Hf]]].
           apply (Hcommon r ps); auto. unfold represents; repeat split; auto.
      * destruct (expand E rest (push_st c (unwrap c) var st) path) as [[ps st1]|] eqn:Hrest; [|discriminate].
        inversion H; subst; clear H. destruct Hn as [Hn|Hn].
        -- subst n. exists var, c; split; [left; reflexivity|]. split; [exact Hsk|]. split.
           ++ unfold represents; cbn; repeat split; auto.
           ++ cbn; discriminate.
        -- destruct (IH _ _ _ _ Hrest n Hn) as [v [c' [Hin [S1 [S2 S3]]]]].
           exists v, c'; split; [right; exact Hin|]. split; [exact S1|]. split; [exact S2 | exact S3].
Qed.

Lemma expand_complete : forall E kids st path preds st',
  expand E kids st path = Some (preds, st') ->
  forall var c, In (var, c) kids -> skip var c = false -> exists n, In n preds /\ represents E n var c.
Proof.
  intros E kids; induction kids as [|[v0 c0] rest IH]; intros st path preds st' H var c Hin Hsk; cbn in H.
  - contradiction.
  - destruct (skip v0 c0) eqn:Hsk0.
    + destruct Hin as [Heq|Hin]; [inversion Heq; subst; congruence|]. eapply IH; eauto.
    + destruct (visitedb E c0 (unwrap c0) v0 st path && can_be_cyclic E (unwrap c0)) eqn:Hcut.
      * apply andb_true_iff in Hcut; destruct Hcut as [_ Hcc].
        destruct (is_generic E (unwrap c0) || should_unwrap c0 || is_ref c0).
        -- destruct (expand E rest st path) as [[ps st1]|] eqn:Hrest; [|discriminate].
           inversion H; subst; clear H. destruct Hin as [Heq|Hin].
           ++ inversion Heq; subst. exists (mkdefer c (unwrap c) var); split; [left; reflexivity|].
              unfold represents; cbn; repeat split; auto.
           ++ destruct (IH _ _ _ _ Hrest var c Hin Hsk) as [n [Hn R]]. exists n; split; [right; exact Hn | exact R].
        -- destruct (mkref E c0 (unwrap c0) v0) as [r|] eqn:Hmk; [|discriminate].
           destruct (expand E rest st path) as [[ps st1]|] eqn:Hrest; [|discriminate].
           inversion H; subst; clear H. destruct Hin as [Heq|Hin].
           ++ inversion Heq; subst. exists r; split; [left; reflexivity|].
              destruct (mkref_shape _ _ _ _ _ Hmk) as [Hc [_ [Hv Hf]]]. unfold represents; repeat split; auto.
           ++ destruct (IH _ _ _ _ Hrest var c Hin Hsk) as [n [Hn R]]. exists n; split; [right; exact Hn | exact R].
      * destruct (expand E rest (push_st c0 (unwrap c0) v0 st) path) as [[ps st1]|] eqn:Hrest; [|discriminate].
        inversion H; subst; clear H. destruct Hin as [Heq|Hin].
        -- inversion Heq; subst. exists (mknode c (unwrap c) var); split; [left; reflexivity|].
           unfold represents; cbn; repeat split; auto.
        -- destruct (IH _ _ _ _ Hrest var c Hin Hsk) as [n [Hn R]]. exists n; split; [right; exact Hn | exact R].
Qed.

(* ------------------------------------------------------------------------------------------- *)
(* the walk                                                                                     *)
(* ------------------------------------------------------------------------------------------- *)
(* every entry of the adjacency is the expansion of its key (or a Literal, without members) *)
Lemma bfs_entry : forall fuel E q V adj, bfs fuel E q V = Ok adj ->
  forall p preds, In (p, preds) adj ->
    (is_literal (unwrap (ntype p)) = true /\ preds = []) \/
    (is_literal (unwrap (ntype p)) = false /\
     exists st0 path st1, expand E (level E (unwrap (ntype p))) st0 path = Some (preds, st1)).
Proof.
  induction fuel as [|f IH]; intros E q V adj H p preds Hin.
  - destruct q as [|[p0 path0] rest]; cbn in H; [inversion H; subst; contradiction | discriminate].
  - destruct q as [|[p0 path0] rest]; cbn in H; [inversion H; subst; contradiction|].
    destruct (is_literal (unwrap (ntype p0))) eqn:Hlit.
    + destruct (bfs f E rest V) as [adj'| |] eqn:Hb; try discriminate. inversion H; subst; clear H.
      destruct Hin as [Heq|Hin]; [inversion Heq; subst; left; auto | eapply IH; eauto].
    + destruct (expand E (level E (unwrap (ntype p0))) V path0) as [[ps st1]|] eqn:Hex; [|discriminate].
      destruct (bfs f E (rest ++ pushed path0 ps) st1) as [adj'| |] eqn:Hb; try discriminate.
      inversion H; subst; clear H.
      destruct Hin as [Heq|Hin]; [inversion Heq; subst; right; split; [exact Hlit | eauto] | eapply IH; eauto].
Qed.

(* keys appear in the order they were popped: a key is an initial queue element or a non-cyclic
   predecessor of a strictly earlier entry *)
Lemma bfs_keys : forall fuel E q V adj, bfs fuel E q V = Ok adj ->
  forall i p preds, nth_error adj i = Some (p, preds) ->
    In p (map fst q) \/
    exists j p' preds', j < i /\ nth_error adj j = Some (p', preds') /\ In p preds' /\ ncyc p = false.
Proof.
  induction fuel as [|f IH]; intros E q V adj H i p preds Hn.
  - destruct q as [|[p0 path0] rest]; cbn in H; [inversion H; subst; destruct i; discriminate | discriminate].
  - destruct q as [|[p0 path0] rest]; cbn in H; [inversion H; subst; destruct i; discriminate|].
    assert (Hgen : forall ps st1 adj', bfs f E (rest ++ pushed path0 ps) st1 = Ok adj' -> adj = (p0, ps) :: adj' ->
              In p (map fst ((p0, path0) :: rest)) \/
              exists j p' preds', j < i /\ nth_error adj j = Some (p', preds') /\ In p preds' /\ ncyc p = false).
    { intros ps st1 adj' Hb Hadj. subst adj. destruct i as [|i'].
      - cbn in Hn; inversion Hn; subst. left; left; reflexivity.
      - cbn in Hn. destruct (IH _ _ _ _ Hb _ _ _ Hn) as [Hq|[j [p' [preds' [Hlt [Hnj [Hip Hc]]]]]]].
        + rewrite map_app in Hq. apply in_app_or in Hq. destruct Hq as [Hq|Hq].
          * left; right; exact Hq.
          * right. exists 0, p0, ps. split; [lia|]. split; [reflexivity|].
            unfold pushed in Hq. rewrite map_map in Hq. cbn in Hq. rewrite map_id in Hq.
            apply filter_In in Hq. destruct Hq as [Hq1 Hq2]. split; [exact Hq1|].
            destruct (ncyc p); [discriminate | reflexivity].
        + right. exists (S j), p', preds'. split; [lia|]. split; [exact Hnj|]. auto. }
    destruct (is_literal (unwrap (ntype p0))) eqn:Hlit.
    + destruct (bfs f E rest V) as [adj'| |] eqn:Hb; try discriminate. inversion H; subst; clear H.
      apply (Hgen [] V adj'); [cbn; rewrite app_nil_r; exact Hb | reflexivity].
    + destruct (expand E (level E (unwrap (ntype p0))) V path0) as [[ps st1]|] eqn:Hex; [|discriminate].
      destruct (bfs f E (rest ++ pushed path0 ps) st1) as [adj'| |] eqn:Hb; try discriminate.
      inversion H; subst; clear H. apply (Hgen ps st1 adj'); [exact Hb | reflexivity].
Qed.

(* every queued node and every non-cyclic predecessor gets an entry of its own *)
Lemma bfs_queue_served : forall fuel E q V adj, bfs fuel E q V = Ok adj ->
  forall p, In p (map fst q) -> exists preds, In (p, preds) adj.
Proof.
  induction fuel as [|f IH]; intros E q V adj H p Hp.
  - destruct q as [|[p0 path0] rest]; cbn in H; [contradiction | discriminate].
  - destruct q as [|[p0 path0] rest]; cbn in H; [contradiction|].
    destruct (is_literal (unwrap (ntype p0))) eqn:Hlit.
    + destruct (bfs f E rest V) as [adj'| |] eqn:Hb; try discriminate. inversion H; subst; clear H.
      destruct Hp as [Hp|Hp]; [cbn in Hp; subst; eexists; left; reflexivity|].
      destruct (IH _ _ _ _ Hb p Hp) as [preds Hin]. exists preds; right; exact Hin.
    + destruct (expand E (level E (unwrap (ntype p0))) V path0) as [[ps st1]|] eqn:Hex; [|discriminate].
      destruct (bfs f E (rest ++ pushed path0 ps) st1) as [adj'| |] eqn:Hb; try discriminate.
      inversion H; subst; clear H.
      destruct Hp as [Hp|Hp]; [cbn in Hp; subst; eexists; left; reflexivity|].
      assert (Hq : In p (map fst (rest ++ pushed path0 ps))) by (rewrite map_app; apply in_or_app; left; exact Hp).
      destruct (IH _ _ _ _ Hb p Hq) as [preds Hin]. exists preds; right; exact Hin.
Qed.

Lemma bfs_preds_served : forall fuel E q V adj, bfs fuel E q V = Ok adj ->
  forall p preds n, In (p, preds) adj -> In n preds -> ncyc n = false -> exists preds', In (n, preds') adj.
Proof.
  induction fuel as [|f IH]; intros E q V adj H p preds n Hin Hn Hc.
  - destruct q as [|[p0 path0] rest]; cbn in H; [inversion H; subst; contradiction | discriminate].
  - destruct q as [|[p0 path0] rest]; cbn in H; [inversion H; subst; contradiction|].
    destruct (is_literal (unwrap (ntype p0))) eqn:Hlit.
    + destruct (bfs f E rest V) as [adj'| |] eqn:Hb; try discriminate. inversion H; subst; clear H.
      destruct Hin as [Heq|Hin]; [inversion Heq; subst; contradiction|].
      destruct (IH _ _ _ _ Hb _ _ _ Hin Hn Hc) as [preds' Hin']. exists preds'; right; exact Hin'.
    + destruct (expand E (level E (unwrap (ntype p0))) V path0) as [[ps st1]|] eqn:Hex; [|discriminate].
      destruct (bfs f E (rest ++ pushed path0 ps) st1) as [adj'| |] eqn:Hb; try discriminate.
      inversion H; subst; clear H.
      destruct Hin as [Heq|Hin].
      * inversion Heq; subst.
        assert (Hq : In n (map fst (rest ++ pushed path0 preds))).
        { rewrite map_app; apply in_or_app; right. unfold pushed. rewrite map_map; cbn; rewrite map_id.
          apply filter_In; split; [exact Hn | rewrite Hc; reflexivity]. }
        destruct (bfs_queue_served _ _ _ _ _ Hb n Hq) as [preds' Hin']. exists preds'; right; exact Hin'.
      * destruct (IH _ _ _ _ Hb _ _ _ Hin Hn Hc) as [preds' Hin']. exists preds'; right; exact Hin'.
Qed.

(* connectedness: from every key a chain of "is a predecessor of" leads to an initial queue element *)
Inductive chain (adj : adjacency) (roots : list node) : node -> nat -> Prop :=
| chain_root : forall r, In r roots -> chain adj roots r 0
| chain_step : forall n p preds k, In (p, preds) adj -> In n preds -> chain adj roots p k -> chain adj roots n (S k).

Lemma bfs_chain_keys : forall fuel E q V adj, bfs fuel E q V = Ok adj ->
  forall i p preds, nth_error adj i = Some (p, preds) -> exists k, chain adj (map fst q) p k.
Proof.
  intros fuel E q V adj H i. induction i as [i IHi] using lt_wf_ind. intros p preds Hn.
  destruct (bfs_keys _ _ _ _ _ H _ _ _ Hn) as [Hq|[j [p' [preds' [Hlt [Hnj [Hip _]]]]]]].
  - exists 0; constructor; exact Hq.
  - destruct (IHi j Hlt _ _ Hnj) as [k Hk]. exists (S k). eapply chain_step; eauto. eapply nth_error_In; eauto.
Qed.

Lemma bfs_chain_nodes : forall fuel E q V adj, bfs fuel E q V = Ok adj ->
  forall n, In n (adj_nodes adj) -> exists k, chain adj (map fst q) n k.
Proof.
  intros fuel E q V adj H n Hn. unfold adj_nodes in Hn. apply in_flat_map in Hn.
  destruct Hn as [[p preds] [Hin Hn]]. destruct (In_nth_error _ _ Hin) as [i Hi].
  destruct (bfs_chain_keys _ _ _ _ _ H _ _ _ Hi) as [k Hk].
  cbn in Hn. destruct Hn as [Hn|Hn]; [subst; exists k; exact Hk|].
  exists (S k). eapply chain_step; eauto.
Qed.

(* keys are made by mknode, so their unwrapped field is the unwrapped form of their type *)
Lemma bfs_key_shape : forall fuel E q V adj, bfs fuel E q V = Ok adj ->
  (forall p, In p (map fst q) -> ncyc p = false /\ nunw p = unwrap (ntype p)) ->
  forall p preds, In (p, preds) adj -> ncyc p = false /\ nunw p = unwrap (ntype p).
Proof.
  intros fuel E q V adj H Hq p preds Hin. destruct (In_nth_error _ _ Hin) as [i Hi].
  destruct (bfs_keys _ _ _ _ _ H _ _ _ Hi) as [Hr|[j [p' [preds' [_ [Hnj [Hip Hc]]]]]]]; [apply Hq; exact Hr|].
  apply nth_error_In in Hnj. destruct (bfs_entry _ _ _ _ _ H _ _ Hnj) as [[_ He]|[_ [st0 [path [st1 Hex]]]]].
  - subst; contradiction.
  - destruct (expand_sound _ _ _ _ _ _ Hex _ Hip) as [var [c [_ [_ [[_ [_ [[_ Hm]|[[Hc' _]|[Hc' _]]]]] _]]]]].
    + subst p; cbn; auto.
    + congruence.
    + congruence.
Qed.

(* ------------------------------------------------------------------------------------------- *)
(* what a deferred node denotes                                                                 *)
(* ------------------------------------------------------------------------------------------- *)
Lemma split_first_none : forall c s, has_char c s = false -> split_first c s = None.
Proof.
  intros c s; induction s as [|d r IH]; cbn; intros H; [reflexivity|].
  apply orb_false_iff in H; destruct H as [H1 H2]. rewrite H1, (IH H2). reflexivity.
Qed.

Lemma strip_prefix_has_char : forall c p s r, strip_prefix p s = Some r -> has_char c p = true -> has_char c s = true.
Proof.
  intros c p; induction p as [|a p' IH]; intros s r H Hc; cbn in Hc; [discriminate|].
  destruct s as [|b s']; cbn in H; [discriminate|].
  destruct (Ascii.eqb a b) eqn:Hab; [|discriminate]. apply Ascii.eqb_eq in Hab; subst b.
  cbn. apply orb_true_iff in Hc; destruct Hc as [Hc|Hc]; [rewrite Hc; reflexivity|].
  rewrite (IH _ _ H Hc). apply orb_true_r.
Qed.

Lemma remove_lead_fuel_id : forall c f ok p s, has_char c p = true -> has_char c s = false -> remove_lead_fuel f ok p s = s.
Proof.
  intros c f; induction f as [|f IH]; intros ok p s Hp Hs; cbn; [reflexivity|].
  destruct s as [|d r]; [reflexivity|].
  assert (Hn : (if ok then strip_prefix p (String d r) else None) = None).
  { destruct ok; [|reflexivity]. destruct (strip_prefix p (String d r)) as [rest|] eqn:Hsp; [|reflexivity].
    rewrite (strip_prefix_has_char c _ _ _ Hsp Hp) in Hs; discriminate. }
  rewrite Hn. cbn in Hs; apply orb_false_iff in Hs; destruct Hs as [_ Hs]. rewrite (IH _ p r Hp Hs). reflexivity.
Qed.

Lemma has_char_app_r : forall c a b, has_char c b = true -> has_char c (a +++ b) = true.
Proof.
  intros c a b H; induction a as [|d r IH]; cbn; [exact H|].
  unfold sapp in IH. rewrite IH; apply orb_true_r.
Qed.

Lemma remove_lead_id : forall m s, has_char dot s = false -> remove_lead (m +++ "."%string) s = s.
Proof.
  intros m s Hs. unfold remove_lead.
  assert (Hp : has_char dot (m +++ "."%string) = true) by (apply has_char_app_r; reflexivity).
  destruct (m +++ "."%string) eqn:Hm; [cbn in Hp; discriminate|]. rewrite <- Hm.
  apply (remove_lead_fuel_id dot); [rewrite Hm; exact Hp | exact Hs].
Qed.

Lemma mkref_denotes : forall E c u var n m nm,
  mkref E c u var = Some n -> denotes_guard E c = true -> named E c = Some (m, nm) ->
  ntype n = GRef nm (Some m).
Proof.
  intros E c u var n m nm Hmk Hg Hn. unfold denotes_guard in Hg. rewrite Hn in Hg.
  apply andb_true_iff in Hg; destruct Hg as [Hg _]. apply andb_true_iff in Hg; destruct Hg as [Hshape Hrm].
  apply String.eqb_eq in Hrm.
  assert (Hq : qualname E c = nm /\ module_attr E c = Some m).
  { destruct c as [s| | | |l|g a|sp ms|k|m' n' t|m' n' t|m' n' bd|t|a mo]; cbn in Hn; try discriminate.
    - inversion Hn; subst; cbn; auto.
    - cbn. destruct (E k) as [d|]; [|discriminate]. inversion Hn; subst; auto.
    - inversion Hn; subst; cbn; auto.
    - inversion Hn; subst; cbn; auto.
    - inversion Hn; subst; cbn; auto. }
  destruct Hq as [Hq Hm]. unfold mkref, ref_parts in Hmk. rewrite Hq in Hmk.
  destruct (split_first dot nm) as [[pre r]|] eqn:Hsp.
  - (* a dotted name: only classes pass the guard *)
    destruct (is_class c) eqn:Hcls.
    + rewrite Hm in Hmk. inversion Hmk; subst; cbn. rewrite Hrm. reflexivity.
    + cbn in Hshape. apply negb_true_iff in Hshape. rewrite (split_first_none _ _ Hshape) in Hsp. discriminate.
  - rewrite Hm in Hmk. inversion Hmk; subst; cbn. rewrite Hrm. reflexivity.
Qed.

(* ------------------------------------------------------------------------------------------- *)
(* input forms: two roots with the same unwrapped form                                          *)
(* ------------------------------------------------------------------------------------------- *)
(* two "seen" sets that answer every revisit question alike *)
Definition sim (a b : list gty) : Prop := forall c, revisit c (unwrap c) a = revisit c (unwrap c) b.

Lemma sim_cons : forall a b x, sim a b -> sim (x :: a) (x :: b).
Proof.
  intros a b x H c. specialize (H c). unfold revisit, mem in *. cbn.
  destruct (gty_eqb c x), (gty_eqb (unwrap c) x); cbn; auto.
  rewrite !orb_true_r; reflexivity.
Qed.

Lemma sim_roots : forall r1 r2 X, unwrap r1 = X -> unwrap r2 = X -> sim [r1; X] [r2; X].
Proof.
  intros r1 r2 X H1 H2 c. unfold revisit, mem; cbn. rewrite !orb_false_r.
  destruct (gty_eqb (unwrap c) X) eqn:HuX; [rewrite !orb_true_r; reflexivity|]. rewrite !orb_false_r.
  assert (A : forall r, unwrap r = X -> gty_eqb c r || gty_eqb c X || gty_eqb (unwrap c) r = gty_eqb c X).
  { intros r Hr. destruct (gty_eqb c r) eqn:Hcr.
    - apply gty_eqb_eq in Hcr; subst c. rewrite Hr, gty_eqb_refl in HuX; discriminate.
    - destruct (gty_eqb (unwrap c) r) eqn:Hur; [|rewrite orb_false_r; reflexivity].
      apply gty_eqb_eq in Hur. assert (Hrr : unwrap r = r) by (rewrite <- Hur; apply unwrap_idem).
      assert (HcX : unwrap c = X) by congruence.
      rewrite HcX, gty_eqb_refl in HuX; discriminate. }
  rewrite (A r1 H1), (A r2 H2). reflexivity.
Qed.

Lemma node_eqb_ntype : forall a b, node_eqb a b = true -> ntype a = ntype b.
Proof.
  intros a b H; unfold node_eqb in H.
  apply andb_true_iff in H; destruct H as [H _]. apply andb_true_iff in H; destruct H as [H _].
  apply andb_true_iff in H; destruct H as [H _]. apply gty_eqb_eq in H; exact H.
Qed.

Section Sim.
  Variable Xr : gty.      (* the common unwrapped form of the two roots; it is on every path *)

  Definition simX (X1 X2 : list node) : Prop := forall n, unwrap (ntype n) <> Xr -> nmem n X1 = nmem n X2.
  Definition sst (s1 s2 : state) : Prop := sim (fst s1) (fst s2) /\ simX (snd s1) (snd s2).

  Lemma sst_push : forall s1 s2 c u var, sst s1 s2 -> sst (push_st c u var s1) (push_st c u var s2).
  Proof.
    intros s1 s2 c u var [H1 H2]; split; cbn.
    - apply sim_cons; exact H1.
    - intros n Hn. unfold nmem; cbn. specialize (H2 n Hn). unfold nmem in H2. rewrite H2. reflexivity.
  Qed.

  Lemma visitedb_sim : forall E c var s1 s2 p1 p2, sst s1 s2 -> sim p1 p2 -> mem Xr p1 = true -> mem Xr p2 = true ->
    visitedb E c (unwrap c) var s1 p1 = visitedb E c (unwrap c) var s2 p2.
  Proof.
    intros E c var s1 s2 p1 p2 [HV HX] Hp M1 M2. unfold visitedb, seen_set.
    destruct (is_generic E (unwrap c)) eqn:Hg; cbn [andb].
    - rewrite (Hp c). destruct (gty_eqb (unwrap c) Xr) eqn:Hx.
      + apply gty_eqb_eq in Hx. unfold revisit. rewrite Hx, M2. rewrite !orb_true_r. reflexivity.
      + rewrite (HX (mknode c (unwrap c) var)); [reflexivity|]. cbn. intros Heq. rewrite Heq, gty_eqb_refl in Hx. discriminate.
    - rewrite (HV c). reflexivity.
  Qed.

  Lemma expand_sim : forall E kids s1 s2 p1 p2 r,
    sst s1 s2 -> sim p1 p2 -> mem Xr p1 = true -> mem Xr p2 = true -> expand E kids s1 p1 = r ->
    match r with
    | Some (preds, s1') => exists s2', expand E kids s2 p2 = Some (preds, s2') /\ sst s1' s2'
    | None => expand E kids s2 p2 = None
    end.
  Proof.
    intros E kids; induction kids as [|[var c] rest IH]; intros s1 s2 p1 p2 r HS Hp M1 M2 Hr; cbn in *.
    - subst r. exists s2; auto.
    - destruct (skip var c); [eapply IH; eauto|].
      rewrite <- (visitedb_sim E c var s1 s2 p1 p2 HS Hp M1 M2).
      destruct (visitedb E c (unwrap c) var s1 p1 && can_be_cyclic E (unwrap c)).
      + destruct (is_generic E (unwrap c) || should_unwrap c || is_ref c).
        * specialize (IH s1 s2 p1 p2 _ HS Hp M1 M2 eq_refl).
          destruct (expand E rest s1 p1) as [[ps s1']|]; subst r.
          -- destruct IH as [s2' [H2 Hs]]. rewrite H2. exists s2'; auto.
          -- rewrite IH; reflexivity.
        * destruct (mkref E c (unwrap c) var) as [n|]; [|subst r; reflexivity].
          specialize (IH s1 s2 p1 p2 _ HS Hp M1 M2 eq_refl).
          destruct (expand E rest s1 p1) as [[ps s1']|]; subst r.
          -- destruct IH as [s2' [H2 Hs]]. rewrite H2. exists s2'; auto.
          -- rewrite IH; reflexivity.
      + specialize (IH _ _ p1 p2 _ (sst_push _ _ c (unwrap c) var HS) Hp M1 M2 eq_refl).
        destruct (expand E rest (push_st c (unwrap c) var s1) p1) as [[ps s1']|]; subst r.
        * destruct IH as [s2' [H2 Hs]]. rewrite H2. exists s2'; auto.
        * rewrite IH; reflexivity.
  Qed.

  (* queues that hold the same nodes with revisit-equivalent paths through the root *)
  Inductive qsim : list (node * list gty) -> list (node * list gty) -> Prop :=
  | qsim_nil : qsim [] []
  | qsim_cons : forall n p1 p2 q1 q2, sim p1 p2 -> mem Xr p1 = true -> mem Xr p2 = true -> qsim q1 q2 ->
                                      qsim ((n, p1) :: q1) ((n, p2) :: q2).

  Lemma qsim_app : forall a1 a2 b1 b2, qsim a1 a2 -> qsim b1 b2 -> qsim (a1 ++ b1) (a2 ++ b2).
  Proof. intros a1 a2 b1 b2 H; induction H; cbn; intros Hb; [exact Hb | constructor; auto]. Qed.

  Lemma qsim_pushed : forall p1 p2 preds, sim p1 p2 -> mem Xr p1 = true -> mem Xr p2 = true ->
    qsim (pushed p1 preds) (pushed p2 preds).
  Proof.
    intros p1 p2 preds H M1 M2. unfold pushed. induction (filter (fun n => negb (ncyc n)) preds) as [|n r IH]; cbn.
    - constructor.
    - constructor; [apply sim_cons; exact H | | | exact IH]; unfold mem in *; cbn; rewrite ?M1, ?M2; apply orb_true_r.
  Qed.

  Lemma bfs_sim : forall fuel E q1 q2 s1 s2, qsim q1 q2 -> sst s1 s2 -> bfs fuel E q1 s1 = bfs fuel E q2 s2.
  Proof.
    induction fuel as [|f IH]; intros E q1 q2 s1 s2 Hq HS; destruct Hq as [|n p1 p2 r1 r2 Hp M1 M2 Hr]; cbn; try reflexivity.
    destruct (is_literal (unwrap (ntype n))).
    - rewrite (IH E r1 r2 s1 s2 Hr HS). reflexivity.
    - pose proof (expand_sim E (level E (unwrap (ntype n))) s1 s2 p1 p2 _ HS Hp M1 M2 eq_refl) as Hex.
      destruct (expand E (level E (unwrap (ntype n))) s1 p1) as [[preds s1']|].
      + destruct Hex as [s2' [H2 Hs]]. rewrite H2.
        rewrite (IH E (r1 ++ pushed p1 preds) (r2 ++ pushed p2 preds) s1' s2'); [reflexivity | | exact Hs].
        apply qsim_app; [exact Hr | apply qsim_pushed; assumption].
      + rewrite Hex. reflexivity.
  Qed.
End Sim.

(* relabel the key of the first entry *)
Definition relabel_root (r : node) (a : adjacency) : adjacency :=
  match a with [] => [] | (_, preds) :: rest => (r, preds) :: rest end.
Definition res_map {A B} (f : A -> B) (r : res A) : res B :=
  match r with Ok a => Ok (f a) | OutOfFuel => OutOfFuel | Unmodelled => Unmodelled end.

Lemma sim_sym : forall a b, sim a b -> sim b a.
Proof. intros a b H c; symmetry; apply H. Qed.

Lemma input_forms : forall fuel E r1 r2, unwrap r1 = unwrap r2 ->
  type_graph fuel E r2 = res_map (relabel_root (root_node r2)) (type_graph fuel E r1).
Proof.
  intros fuel E r1 r2 Hu. unfold type_graph, root_node. rewrite <- Hu.
  set (Xr := unwrap r1). set (n1 := mknode r1 Xr None). set (n2 := mknode r2 Xr None).
  destruct fuel as [|f]; [reflexivity|]. cbn [bfs]. cbn [ntype n1 n2 mknode]. rewrite <- ?Hu. fold Xr.
  assert (Hs : sim [r1; Xr] [r2; Xr]) by (apply sim_roots; auto).
  assert (M : forall r, mem Xr [r; Xr] = true) by (intros r; unfold mem; cbn; rewrite gty_eqb_refl; apply orb_true_r).
  assert (HS : sst Xr ([r2; Xr], [n2]) ([r1; Xr], [n1])).
  { split; cbn; [apply sim_sym; exact Hs|]. intros n Hn. unfold nmem; cbn. rewrite !orb_false_r.
    assert (A : forall r, unwrap r = Xr -> node_eqb n (mknode r Xr None) = false).
    { intros r Hr. destruct (node_eqb n (mknode r Xr None)) eqn:Hb; [|reflexivity].
      apply node_eqb_ntype in Hb. cbn in Hb. rewrite Hb in Hn. contradiction. }
    unfold n1, n2. rewrite (A r1 eq_refl), (A r2 (eq_sym Hu)). reflexivity. }
  destruct (is_literal Xr).
  - rewrite (bfs_sim Xr f E [] [] _ _ (qsim_nil Xr) HS).
    destruct (bfs f E [] ([r1; Xr], [n1])); reflexivity.
  - pose proof (expand_sim Xr E (level E Xr) _ _ [r2; Xr] [r1; Xr] _ HS (sim_sym _ _ Hs) (M r2) (M r1) eq_refl) as Hex.
    destruct (expand E (level E Xr) ([r2; Xr], [n2]) [r2; Xr]) as [[preds s2']|].
    + destruct Hex as [s1' [H1 Hs1]]. rewrite H1. cbn [app].
      rewrite (bfs_sim Xr f E (pushed [r2; Xr] preds) (pushed [r1; Xr] preds) s2' s1').
      * destruct (bfs f E (pushed [r1; Xr] preds) s1'); reflexivity.
      * apply qsim_pushed; [apply sim_sym; exact Hs | apply M | apply M].
      * exact Hs1.
    + rewrite Hex. reflexivity.
Qed.
