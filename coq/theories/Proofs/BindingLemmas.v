(* Proofs about Model/Binding.v: each binder idiom is sound for the signatures whose
   kind-presence tuple satisfies its adequacy condition; hence a matrix all of whose
   rows are adequate converts every argument by its own parameter. *)
From Coq Require Import List Arith Bool Lia PeanoNat.
Import ListNotations.
Require Import TL.Model.Binding.

(* ---------- well-formed signatures ---------- *)
(* Python orders parameters PO* PK* [VP] KO* [VK].  Boolean check by successive spans. *)
Fixpoint span (k : kind) (s : sig) : sig * sig :=
  match s with
  | [] => ([], [])
  | p :: r => if is_k k p then let (a, b) := span k r in (p :: a, b) else ([], s)
  end.
Definition wfb (s : sig) : bool :=
  let (po, r1) := span PO s in let (pk, r2) := span PK r1 in let (vp, r3) := span VP r2 in
  let (ko, r4) := span KO r3 in let (vk, r5) := span VK r4 in
  match r5 with [] => (length vp <=? 1) && (length vk <=? 1) | _ => false end.

Definition allk (k : kind) (l : sig) := Forall (fun p => pkind p = k) l.
Record segs (s : sig) : Type := {
  s_po : sig; s_pk : sig; s_vp : sig; s_ko : sig; s_vk : sig;
  s_eq : s = s_po ++ s_pk ++ s_vp ++ s_ko ++ s_vk;
  s_po_k : allk PO s_po; s_pk_k : allk PK s_pk; s_vp_k : allk VP s_vp;
  s_ko_k : allk KO s_ko; s_vk_k : allk VK s_vk;
  s_vp_1 : length s_vp <= 1; s_vk_1 : length s_vk <= 1 }.

Lemma is_k_eq k p : is_k k p = true <-> pkind p = k.
Proof. unfold is_k. destruct (pkind p), k; cbn; split; congruence. Qed.

Lemma span_spec k s : s = fst (span k s) ++ snd (span k s) /\ allk k (fst (span k s)).
Proof. induction s as [|p r [IH1 IH2]]; cbn [span]; [split; [reflexivity|constructor]|].
  destruct (is_k k p) eqn:E.
  - destruct (span k r) as [a b]; cbn [fst snd] in *. split; [cbn; f_equal; exact IH1|].
    constructor; [apply is_k_eq; exact E|exact IH2].
  - cbn [fst snd]. split; [reflexivity|constructor]. Qed.

Lemma wfb_segs s : wfb s = true -> segs s.
Proof. unfold wfb. intros H.
  destruct (span_spec PO s) as [E1 A1]. destruct (span PO s) as [po r1]; cbn [fst snd] in *.
  destruct (span_spec PK r1) as [E2 A2]. destruct (span PK r1) as [pk r2]; cbn [fst snd] in *.
  destruct (span_spec VP r2) as [E3 A3]. destruct (span VP r2) as [vp r3]; cbn [fst snd] in *.
  destruct (span_spec KO r3) as [E4 A4]. destruct (span KO r3) as [ko r4]; cbn [fst snd] in *.
  destruct (span_spec VK r4) as [E5 A5]. destruct (span VK r4) as [vk r5]; cbn [fst snd] in *.
  destruct r5; [|discriminate H]. apply andb_true_iff in H. destruct H as [H1 H2].
  apply Nat.leb_le in H1. apply Nat.leb_le in H2.
  refine {| s_po := po; s_pk := pk; s_vp := vp; s_ko := ko; s_vk := vk |}; try assumption.
  rewrite E1, E2, E3, E4, E5, app_nil_r. reflexivity. Qed.

(* ---------- generic list facts ---------- *)
Lemma index_where_none f (l : sig) i : (forall p, In p l -> f p = false) -> index_where f l i = None.
Proof. revert i; induction l as [|p l IH]; intros i H; cbn; [reflexivity|].
  rewrite (H p (or_introl eq_refl)). apply IH. intros q Hq; apply H; right; exact Hq. Qed.
Lemma index_where_skip f (l r : sig) i : (forall p, In p l -> f p = false) ->
  index_where f (l ++ r) i = index_where f r (i + length l).
Proof. revert i; induction l as [|p l IH]; intros i H; cbn.
  - f_equal; lia.
  - rewrite (H p (or_introl eq_refl)). rewrite IH by (intros q Hq; apply H; right; exact Hq). f_equal; lia. Qed.
Lemma last_index_where_none f (l : sig) i acc : (forall p, In p l -> f p = false) ->
  last_index_where f l i acc = acc.
Proof. revert i acc; induction l as [|p l IH]; intros i acc H; cbn; [reflexivity|].
  rewrite (H p (or_introl eq_refl)). apply IH. intros q Hq; apply H; right; exact Hq. Qed.
Lemma last_index_where_app f (l r : sig) i acc :
  last_index_where f (l ++ r) i acc = last_index_where f r (i + length l) (last_index_where f l i acc).
Proof. revert i acc; induction l as [|p l IH]; intros i acc; cbn [app last_index_where length].
  - f_equal; lia.
  - rewrite IH. f_equal. lia. Qed.
Lemma last_index_where_all f (l : sig) i acc : (forall p, In p l -> f p = true) ->
  last_index_where f l i acc = match l with [] => acc | _ => Some (i + length l - 1) end.
Proof. revert i acc; induction l as [|p l IH]; intros i acc H; cbn [last_index_where]; [reflexivity|].
  rewrite (H p (or_introl eq_refl)). rewrite IH by (intros q Hq; apply H; right; exact Hq).
  destruct l; cbn [length]; f_equal; lia. Qed.

Lemma allk_is k k' (l : sig) : allk k l -> forall p, In p l -> is_k k' p = kind_eqb k k'.
Proof. intros H p Hp. unfold allk in H. rewrite Forall_forall in H. unfold is_k. rewrite (H p Hp). reflexivity. Qed.
Lemma allk_not k k' (l : sig) : allk k l -> kind_eqb k k' = false -> forall p, In p l -> is_k k' p = false.
Proof. intros H E p Hp. rewrite (allk_is k k' l H p Hp). exact E. Qed.

Lemma filter_all (f : param -> bool) l : (forall p, In p l -> f p = true) -> filter f l = l.
Proof. induction l as [|p l IH]; intros H; cbn; [reflexivity|]. rewrite (H p (or_introl eq_refl)).
  f_equal. apply IH; intros q Hq; apply H; right; exact Hq. Qed.
Lemma filter_none (f : param -> bool) l : (forall p, In p l -> f p = false) -> filter f l = [].
Proof. induction l as [|p l IH]; intros H; cbn; [reflexivity|]. rewrite (H p (or_introl eq_refl)).
  apply IH; intros q Hq; apply H; right; exact Hq. Qed.

Lemma allk_pos_capable k l : allk k l -> forall p, In p l ->
  pos_capable p = (match k with PO | PK => true | _ => false end).
Proof. intros H p Hp. unfold pos_capable. rewrite (allk_is k PO l H p Hp), (allk_is k PK l H p Hp). destruct k; reflexivity. Qed.
Lemma allk_kw_capable k l : allk k l -> forall p, In p l ->
  kw_capable p = (match k with PK | KO => true | _ => false end).
Proof. intros H p Hp. unfold kw_capable. rewrite (allk_is k PK l H p Hp), (allk_is k KO l H p Hp). destruct k; reflexivity. Qed.

(* ---------- what _get_binding computes on a well-formed signature ---------- *)
Section Segs.
Variable s : sig.
Variable S : segs s.
Notation po := (s_po s S). Notation pk := (s_pk s S). Notation vp := (s_vp s S). Notation ko := (s_ko s S). Notation vk := (s_vk s S).

Lemma npos_segs : npos s = length po + length pk.
Proof. unfold npos. rewrite (s_eq s S) at 1. rewrite !filter_app, !app_length.
  rewrite (filter_all pos_capable (s_po s S)) by (intros p Hp; rewrite (allk_pos_capable PO _ (s_po_k s S) p Hp); reflexivity).
  rewrite (filter_all pos_capable (s_pk s S)) by (intros p Hp; rewrite (allk_pos_capable PK _ (s_pk_k s S) p Hp); reflexivity).
  rewrite (filter_none pos_capable (s_vp s S)) by (intros p Hp; rewrite (allk_pos_capable VP _ (s_vp_k s S) p Hp); reflexivity).
  rewrite (filter_none pos_capable (s_ko s S)) by (intros p Hp; rewrite (allk_pos_capable KO _ (s_ko_k s S) p Hp); reflexivity).
  rewrite (filter_none pos_capable (s_vk s S)) by (intros p Hp; rewrite (allk_pos_capable VK _ (s_vk_k s S) p Hp); reflexivity).
  cbn [length]. lia. Qed.

Lemma has_segs k : has k s = existsb (is_k k) po || existsb (is_k k) pk || existsb (is_k k) vp
                            || existsb (is_k k) ko || existsb (is_k k) vk.
Proof. unfold has. rewrite (s_eq s S) at 1. rewrite !existsb_app, !orb_assoc. reflexivity. Qed.
Lemma existsb_allk k k' l : allk k l ->
  existsb (is_k k') l = kind_eqb k k' && negb (match l with [] => true | _ => false end).
Proof. intros H. induction l as [|p l IH]; cbn [existsb]; [rewrite andb_false_r; reflexivity|].
  apply Forall_cons_iff in H; destruct H as [Hp Hl]. unfold is_k at 1. rewrite Hp.
  destruct (kind_eqb k k') eqn:E; cbn [negb orb andb]; [reflexivity|]. rewrite (IH Hl). reflexivity. Qed.

Definition nonempty (l : sig) : bool := negb (match l with [] => true | _ => false end).
Lemma has_k k : has k s = match k with PO => nonempty po | PK => nonempty pk | VP => nonempty vp
                                     | KO => nonempty ko | VK => nonempty vk end.
Proof. rewrite has_segs.
  rewrite (existsb_allk PO k _ (s_po_k s S)), (existsb_allk PK k _ (s_pk_k s S)), (existsb_allk VP k _ (s_vp_k s S)),
          (existsb_allk KO k _ (s_ko_k s S)), (existsb_allk VK k _ (s_vk_k s S)).
  unfold nonempty. destruct k; cbn [kind_eqb andb orb]; rewrite ?orb_false_r; reflexivity. Qed.

Lemma vp_index : index_where (is_k VP) s 0 = if has VP s then Some (npos s) else None.
Proof. rewrite (has_k VP), npos_segs. rewrite (s_eq s S) at 1.
  rewrite index_where_skip by (apply (allk_not PO VP); [apply (s_po_k s S)|reflexivity]).
  rewrite index_where_skip by (apply (allk_not PK VP); [apply (s_pk_k s S)|reflexivity]).
  destruct (s_vp s S) as [|p l] eqn:E; cbn [nonempty negb app].
  - rewrite index_where_skip by (apply (allk_not KO VP); [apply (s_ko_k s S)|reflexivity]).
    apply index_where_none. apply (allk_not VK VP); [apply (s_vk_k s S)|reflexivity].
  - cbn [index_where]. pose proof (s_vp_k s S) as A. rewrite E in A. apply Forall_cons_iff in A.
    destruct A as [Hp _]. unfold is_k at 1. rewrite Hp. cbn [kind_eqb]. f_equal; lia. Qed.

Lemma vk_index : index_where (is_k VK) s 0 = if has VK s then Some (length s - 1) else None.
Proof. rewrite (has_k VK). rewrite (s_eq s S) at 1.
  rewrite index_where_skip by (apply (allk_not PO VK); [apply (s_po_k s S)|reflexivity]).
  rewrite index_where_skip by (apply (allk_not PK VK); [apply (s_pk_k s S)|reflexivity]).
  rewrite index_where_skip by (apply (allk_not VP VK); [apply (s_vp_k s S)|reflexivity]).
  rewrite index_where_skip by (apply (allk_not KO VK); [apply (s_ko_k s S)|reflexivity]).
  destruct (s_vk s S) as [|p l] eqn:E; cbn [nonempty negb]; [reflexivity|].
  cbn [index_where]. pose proof (s_vk_k s S) as A. rewrite E in A. apply Forall_cons_iff in A.
  destruct A as [Hp _]. unfold is_k at 1. rewrite Hp. cbn [kind_eqb]. f_equal.
  pose proof (s_vk_1 s S) as L. rewrite E in L. destruct l; [|cbn in L; lia].
  assert (HL : length s = length (s_po s S) + length (s_pk s S) + length (s_vp s S) + length (s_ko s S) + 1).
  { rewrite (s_eq s S) at 1. rewrite E, !app_length. cbn [length]. lia. }
  lia. Qed.

Lemma startpos_segs : get_startpos s =
  if has VP s then Some (npos s) else if has PO s then Some (length po) else None.
Proof. unfold get_startpos. rewrite vp_index. destruct (has VP s); [reflexivity|].
  rewrite (has_k PO). rewrite (s_eq s S) at 1. rewrite last_index_where_app.
  rewrite (last_index_where_none (is_k PO) (s_pk s S ++ _)).
  2:{ intros p Hp. rewrite !in_app_iff in Hp. destruct Hp as [Hp|[Hp|[Hp|Hp]]].
      - apply (allk_not PK PO _ (s_pk_k s S) eq_refl p Hp).
      - apply (allk_not VP PO _ (s_vp_k s S) eq_refl p Hp).
      - apply (allk_not KO PO _ (s_ko_k s S) eq_refl p Hp).
      - apply (allk_not VK PO _ (s_vk_k s S) eq_refl p Hp). }
  rewrite last_index_where_all by (intros p Hp; rewrite (allk_is PO PO _ (s_po_k s S) p Hp); reflexivity).
  destruct (s_po s S); cbn [nonempty negb length]; [reflexivity|]. f_equal. lia. Qed.

(* indexes registered = exactly the positional-capable prefix 0 .. npos-1 *)
Lemma idx_map_off (l : sig) i : (forall p, In p l -> pos_capable p = true) -> idx_map l i = seq i (length l).
Proof. revert i; induction l as [|p l IH]; intros i H; cbn [idx_map length seq]; [reflexivity|].
  rewrite (H p (or_introl eq_refl)). cbn [app]. f_equal. apply IH. intros q Hq; apply H; right; exact Hq. Qed.
Lemma idx_map_none (l : sig) i : (forall p, In p l -> pos_capable p = false) -> idx_map l i = [].
Proof. revert i; induction l as [|p l IH]; intros i H; cbn [idx_map]; [reflexivity|].
  rewrite (H p (or_introl eq_refl)). cbn [app]. apply IH. intros q Hq; apply H; right; exact Hq. Qed.
Lemma idx_map_app (a b : sig) i : idx_map (a ++ b) i = idx_map a i ++ idx_map b (i + length a).
Proof. revert i; induction a as [|p a IH]; intros i; cbn [app idx_map length]; [f_equal; lia|].
  rewrite IH, <- app_assoc. do 3 f_equal. lia. Qed.
Lemma idxs_segs : idx_map s 0 = seq 0 (npos s).
Proof. rewrite npos_segs. rewrite (s_eq s S) at 1. rewrite !idx_map_app.
  rewrite (idx_map_off (s_po s S)) by (intros p Hp; rewrite (allk_pos_capable PO _ (s_po_k s S) p Hp); reflexivity).
  rewrite (idx_map_off (s_pk s S)) by (intros p Hp; rewrite (allk_pos_capable PK _ (s_pk_k s S) p Hp); reflexivity).
  rewrite (idx_map_none (s_vp s S)) by (intros p Hp; rewrite (allk_pos_capable VP _ (s_vp_k s S) p Hp); reflexivity).
  rewrite (idx_map_none (s_ko s S)) by (intros p Hp; rewrite (allk_pos_capable KO _ (s_ko_k s S) p Hp); reflexivity).
  rewrite (idx_map_none (s_vk s S)) by (intros p Hp; rewrite (allk_pos_capable VK _ (s_vk_k s S) p Hp); reflexivity).
  rewrite !app_nil_r. rewrite seq_app. reflexivity. Qed.

End Segs.

(* the name map and the spec's by-name search agree (first match in both) *)
Lemma lookup_name_map (l : sig) k i :
  lookup k (name_map l i) = index_where (fun p => kw_capable p && Nat.eqb (pname p) k) l i.
Proof. revert i; induction l as [|p l IH]; intros i; cbn [name_map index_where lookup]; [reflexivity|].
  destruct (kw_capable p); cbn [app andb lookup].
  - rewrite (Nat.eqb_sym k (pname p)). destruct (Nat.eqb (pname p) k); [reflexivity|apply IH].
  - apply IH. Qed.

Section V.
Variable val : Type.
Notation cv := (cv val).

Lemma mem_seq i n : mem i (seq 0 n) = (i <? n).
Proof. unfold mem. destruct (i <? n) eqn:E.
  - apply Nat.ltb_lt in E. apply existsb_exists. exists i. split; [apply in_seq; lia|apply Nat.eqb_refl].
  - apply Nat.ltb_ge in E. destruct (existsb (Nat.eqb i) (seq 0 n)) eqn:X; [|reflexivity].
    apply existsb_exists in X. destruct X as [j [Hj Hij]]. apply in_seq in Hj. apply Nat.eqb_eq in Hij. lia. Qed.

Lemma by_index_conv n i (l : list val) : i + length l <= n ->
  by_index val (seq 0 n) i l = map (fun iv => Conv (fst iv) (snd iv)) (combine (seq i (length l)) l).
Proof. revert i; induction l as [|v l IH]; intros i H; cbn [by_index length seq combine map]; [reflexivity|].
  cbn [length] in H. rewrite mem_seq. replace (i <? n) with true by (symmetry; apply Nat.ltb_lt; lia).
  cbn [fst snd]. f_equal. apply IH. lia. Qed.

Lemma skipn_nonempty {A} n (l : list A) : n < length l -> skipn n l <> [].
Proof. intros H E. assert (length (skipn n l) = 0) by (rewrite E; reflexivity). rewrite skipn_length in H0. lia. Qed.

(* ---------- positional half ---------- *)
Lemma pos_sound s (S : segs s) m args e :
  pos_ok m (truth_of s) = true -> expected_pos val s args = Some e ->
  run_pos val m (get_binding s) args = Ok e.
Proof.
  intros Hok He. unfold expected_pos in He. unfold truth_of, pos_ok in Hok; cbn [t_po t_pk t_vp] in Hok.
  pose proof (vp_index s S) as Hvp. pose proof (startpos_segs s S) as Hsp. pose proof (idxs_segs s S) as Hix.
  pose proof (npos_segs s S) as Hnp. pose proof (has_k s S PO) as HPO. pose proof (has_k s S PK) as HPK.
  rewrite Hvp in He.
  destruct m; cbn [run_pos get_binding idxs startpos varpos].
  - (* PosSplit *)
    rewrite Hsp, Hvp, Hix.
    destruct (has VP s) eqn:EVP.
    + cbn [slice_to slice_from].
      destruct (length args <=? npos s) eqn:Hlen.
      * injection He as <-. apply Nat.leb_le in Hlen. rewrite skipn_all2 by lia. rewrite firstn_all2 by lia.
        cbn [all_var]. rewrite app_nil_r. f_equal. apply by_index_conv. lia.
      * injection He as <-. apply Nat.leb_gt in Hlen.
        destruct (skipn (npos s) args) eqn:Hs; [exfalso; revert Hs; apply skipn_nonempty; lia|].
        cbn [all_var]. f_equal. f_equal. rewrite by_index_conv by (rewrite firstn_length; lia).
        rewrite firstn_length. replace (Nat.min (npos s) (length args)) with (npos s) by lia. reflexivity.
    + cbn [orb] in Hok. apply negb_true_iff in Hok. rewrite Hok in HPK.
      assert (Epk : s_pk s S = []) by (destruct (s_pk s S); [reflexivity|discriminate HPK]).
      rewrite Epk in Hnp. cbn [length] in Hnp. rewrite Nat.add_0_r in Hnp.
      destruct (length args <=? npos s) eqn:Hlen; [|discriminate He].
      injection He as <-. apply Nat.leb_le in Hlen.
      destruct (has PO s) eqn:EPO; cbn [slice_to slice_from].
      * rewrite <- Hnp. rewrite skipn_all2 by lia. rewrite firstn_all2 by lia. cbn [all_var]. rewrite app_nil_r.
        f_equal. apply by_index_conv. lia.
      * assert (Epo : s_po s S = []) by (destruct (s_po s S); [reflexivity|discriminate HPO]).
        rewrite Epo in Hnp. cbn [length] in Hnp. rewrite Hnp in Hlen. destruct args; [|cbn in Hlen; lia].
        reflexivity.
  - (* PosIndex *)
    apply negb_true_iff in Hok. rewrite Hok in He. rewrite Hix.
    destruct (length args <=? npos s) eqn:Hlen; [|discriminate He].
    injection He as <-. apply Nat.leb_le in Hlen. f_equal. apply by_index_conv. lia.
  - (* PosVar *)
    apply andb_true_iff in Hok. destruct Hok as [H1 H2]. apply negb_true_iff in H1, H2.
    rewrite H1 in HPO. rewrite H2 in HPK.
    assert (Epo : s_po s S = []) by (destruct (s_po s S); [reflexivity|discriminate HPO]).
    assert (Epk : s_pk s S = []) by (destruct (s_pk s S); [reflexivity|discriminate HPK]).
    rewrite Epo, Epk in Hnp. cbn [length] in Hnp. rewrite Hnp in He. cbn [firstn skipn seq combine map app] in He.
    destruct args as [|a args].
    + cbn in He. injection He as <-. reflexivity.
    + cbn [length Nat.leb] in He. rewrite Hvp, Hnp.
      destruct (has VP s); [|discriminate He]. injection He as <-. reflexivity.
  - (* PosUntouched *)
    apply andb_true_iff in Hok. destruct Hok as [Hok H3]. apply andb_true_iff in Hok. destruct Hok as [H1 H2].
    apply negb_true_iff in H1, H2, H3. rewrite H1 in HPO. rewrite H2 in HPK. rewrite H3 in He.
    assert (Epo : s_po s S = []) by (destruct (s_po s S); [reflexivity|discriminate HPO]).
    assert (Epk : s_pk s S = []) by (destruct (s_pk s S); [reflexivity|discriminate HPK]).
    rewrite Epo, Epk in Hnp. cbn [length] in Hnp. rewrite Hnp in He.
    destruct args; [cbn in He; injection He as <-; reflexivity|cbn in He; discriminate He].
Qed.

(* ---------- keyword half ---------- *)
Lemma named_index_none s (S : segs s) k :
  has PK s = false -> has KO s = false -> named_index s k = None.
Proof. intros H1 H2. unfold named_index. apply index_where_none. intros p Hp.
  rewrite (has_k s S PK) in H1. rewrite (has_k s S KO) in H2.
  assert (Epk : s_pk s S = []) by (destruct (s_pk s S); [reflexivity|discriminate H1]).
  assert (Eko : s_ko s S = []) by (destruct (s_ko s S); [reflexivity|discriminate H2]).
  rewrite (s_eq s S), Epk, Eko in Hp. cbn [app] in Hp. rewrite app_nil_r in Hp || idtac.
  rewrite !in_app_iff in Hp.
  destruct Hp as [Hp|[Hp|Hp]].
  - rewrite (allk_kw_capable PO _ (s_po_k s S) p Hp). reflexivity.
  - rewrite (allk_kw_capable VP _ (s_vp_k s S) p Hp). reflexivity.
  - rewrite (allk_kw_capable VK _ (s_vk_k s S) p Hp). reflexivity. Qed.

Lemma kw1_sound s (S : segs s) m k v c :
  kw_ok m (truth_of s) = true -> expected_kw1 val s k v = Some c ->
  run_kw1 val m (get_binding s) k v = Ok c.
Proof.
  intros Hok He. unfold expected_kw1 in He. unfold truth_of, kw_ok in Hok; cbn [t_pk t_ko t_vk] in Hok.
  assert (Hl : lookup k (names (get_binding s)) = named_index s k) by (apply lookup_name_map).
  destruct m; cbn [run_kw1]; cbn [get_binding varkwd].
  - (* KwGet *) rewrite Hl. destruct (named_index s k); [injection He as <-; reflexivity|].
    destruct (index_where (is_k VK) s 0); [injection He as <-; reflexivity|discriminate He].
  - (* KwVar *) apply andb_true_iff in Hok. destruct Hok as [H1 H2]. apply negb_true_iff in H1, H2.
    rewrite (named_index_none s S k H1 H2) in He.
    destruct (index_where (is_k VK) s 0); [injection He as <-; reflexivity|discriminate He].
  - (* KwElseV *) rewrite Hl. apply negb_true_iff in Hok. rewrite (vk_index s S), Hok in He.
    destruct (named_index s k); [injection He as <-; reflexivity|discriminate He].
  - (* KwElseK *) rewrite Hl. apply negb_true_iff in Hok. rewrite (vk_index s S), Hok in He.
    destruct (named_index s k); [injection He as <-; reflexivity|discriminate He].
  - (* KwUntouched *) apply andb_true_iff in Hok. destruct Hok as [Hok H3]. apply andb_true_iff in Hok.
    destruct Hok as [H1 H2]. apply negb_true_iff in H1, H2, H3.
    rewrite (named_index_none s S k H1 H2), (vk_index s S), H3 in He. discriminate He.
Qed.

Lemma kw_sound s (S : segs s) m kw e :
  kw_ok m (truth_of s) = true -> expected_kw val s kw = Some e ->
  run_kw val m (get_binding s) kw = Ok e.
Proof. intros Hok. revert e. induction kw as [|[k v] r IH]; intros e He; cbn [expected_kw run_kw] in *.
  - injection He as <-. reflexivity.
  - destruct (expected_kw1 val s k v) as [c|] eqn:E1; [|discriminate He].
    destruct (expected_kw val s r) as [t|] eqn:E2; [|discriminate He]. injection He as <-.
    rewrite (kw1_sound s S m k v c Hok E1), (IH t eq_refl). reflexivity. Qed.

(* ---------- the matrix ---------- *)
Lemma truth_eqb_eq a b : truth_eqb a b = true -> a = b.
Proof. destruct a, b. unfold truth_eqb; cbn. rewrite !andb_true_iff. intros [[[[H1 H2] H3] H4] H5].
  apply eqb_prop in H1, H2, H3, H4, H5. subst. reflexivity. Qed.
Lemma all_truths_complete t : In t all_truths.
Proof. destruct t as [[] [] [] [] []]; cbn; tauto. Qed.

Lemma matrix_ok_lookup rows t : matrix_ok rows = true ->
  exists c, matrix_lookup rows t = Some c /\ row_ok (t, c) = true.
Proof. unfold matrix_ok. rewrite forallb_forall. intros H. specialize (H t (all_truths_complete t)).
  destruct (matrix_lookup rows t) as [c|]; [exists c; split; [reflexivity|exact H]|discriminate H]. Qed.

Theorem converts rows s args kw ea ek :
  wfb s = true -> matrix_ok rows = true ->
  expected_pos val s args = Some ea -> expected_kw val s kw = Some ek ->
  bound_call val rows s args kw = Ok (ea, ek).
Proof. intros Hwf Hm Ha Hk. pose (S := wfb_segs s Hwf).
  destruct (matrix_ok_lookup rows (truth_of s) Hm) as [c [Hc Hr]].
  unfold bound_call. rewrite Hc. unfold row_ok in Hr; cbn [fst snd] in Hr.
  apply andb_true_iff in Hr. destruct Hr as [Hp Hkw]. unfold run_binder.
  rewrite (pos_sound s S _ args ea Hp Ha), (kw_sound s S _ kw ek Hkw Hk). reflexivity. Qed.

(* ---------- shape preservation: Python's own accept/reject decision is untouched ---------- *)
Lemma by_index_length ix i (l : list val) : length (by_index val ix i l) = length l.
Proof. revert i; induction l as [|v l IH]; intros i; cbn [by_index length]; [reflexivity|]. rewrite IH. reflexivity. Qed.
Lemma all_var_length vp (l : list val) t : all_var val vp l = Ok t -> length t = length l.
Proof. destruct l, vp; cbn [all_var]; intros H; try discriminate H; injection H as <-;
  cbn [map length]; rewrite ?map_length; reflexivity. Qed.

Lemma run_pos_shape m s (args : list val) ua :
  run_pos val m (get_binding s) args = Ok ua -> length ua = length args.
Proof. destruct m; cbn [run_pos get_binding idxs startpos varpos]; intros H.
  - unfold get_startpos in H.
    destruct (index_where (is_k VP) s 0) as [n|] eqn:EV.
    + cbn [slice_to slice_from] in H.
      destruct (all_var val (Some n) (skipn n args)) as [t|] eqn:E; [|discriminate H].
      injection H as <-. rewrite app_length, by_index_length, (all_var_length _ _ _ E).
      rewrite <- (firstn_skipn n args) at 3. rewrite app_length. reflexivity.
    + destruct (all_var val None _) as [t|] eqn:E; [|discriminate H].
      injection H as <-. rewrite app_length, by_index_length.
      destruct (last_index_where (is_k PO) s 0 None) as [i|]; cbn [slice_to slice_from] in *.
      * destruct (skipn (Datatypes.S i) args) eqn:Es; [|discriminate E]. injection E as <-.
        rewrite <- (firstn_skipn (Datatypes.S i) args) at 2. rewrite Es, app_length. reflexivity.
      * destruct args; [|discriminate E]. injection E as <-. reflexivity.
  - injection H as <-. apply by_index_length.
  - apply all_var_length in H. exact H.
  - injection H as <-. apply map_length.
Qed.

Lemma run_kw_shape m b (kw : list (nat * val)) uk : run_kw val m b kw = Ok uk -> map fst uk = map fst kw.
Proof. revert uk; induction kw as [|[k v] r IH]; intros uk H; cbn [run_kw] in H.
  - injection H as <-. reflexivity.
  - destruct (run_kw1 val m b k v) as [c|]; [|discriminate H].
    destruct (run_kw val m b r) as [t|]; [|discriminate H]. injection H as <-.
    cbn [map fst]. f_equal. apply IH. reflexivity. Qed.

Theorem shape c s (args : list val) kw ua uk :
  run_binder val c (get_binding s) args kw = Ok (ua, uk) ->
  length ua = length args /\ map fst uk = map fst kw.
Proof. unfold run_binder. intros H.
  destruct (run_pos val (posmode_of c) (get_binding s) args) as [a|] eqn:E1; [|discriminate H].
  destruct (run_kw val (kwmode_of c) (get_binding s) kw) as [k|] eqn:E2; [|discriminate H].
  injection H as <- <-. split; [exact (run_pos_shape _ _ _ _ E1)|exact (run_kw_shape _ _ _ _ E2)]. Qed.

(* a call is either forwarded with its shape intact or refused with TypeError *)
Theorem rejected_or_shape rows s (args : list val) kw :
  bound_call val rows s args kw = RaiseType \/
  exists ua uk, bound_call val rows s args kw = Ok (ua, uk) /\ length ua = length args /\ map fst uk = map fst kw.
Proof. unfold bound_call. destruct (matrix_lookup rows (truth_of s)) as [c|]; [|left; reflexivity].
  destruct (run_binder val c (get_binding s) args kw) as [[ua uk]|] eqn:E; [right|left; reflexivity].
  exists ua, uk. split; [reflexivity|]. exact (shape c s args kw ua uk E). Qed.

End V.
