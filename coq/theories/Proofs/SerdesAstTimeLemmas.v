(* Proofs about Model/SerdesAstTime.v (source translator tie of serdes.py, part 3). *)
From Coq Require Import List Bool ZArith String.
Import ListNotations.
Require Import TL.Model.Duration TL.Model.Temporal TL.Model.SerdesAstTime.

Lemma kdesc_in : forall v, In (kind_of v) all_kdesc.
Proof. intros v; destruct v; unfold all_kdesc; simpl; repeat (try (left; reflexivity); right). Qed.

Lemma temporal_in : forall v, is_temporal v = true -> In (kind_of v) temporal_kdesc.
Proof. intros v H; destruct v; try discriminate; unfold temporal_kdesc; simpl; repeat (try (left; reflexivity); right). Qed.

Lemma iaction_eqb_eq : forall a b, iaction_eqb a b = true -> a = b.
Proof. intros a b; destruct a, b; simpl; intros H; try discriminate; reflexivity. Qed.
Lemma uconv_eqb_eq : forall a b, uconv_eqb a b = true -> a = b.
Proof. intros a b; destruct a, b; simpl; intros H; try discriminate; reflexivity. Qed.

Lemma iladder_sound : forall l d, iladder_ok l d = true ->
  forall rt v, is_temporal v = true -> isoformat_src l d rt v = Some (isoformat rt v).
Proof.
  intros l d H rt v T. unfold iladder_ok in H. rewrite forallb_forall in H.
  specialize (H (kind_of v) (temporal_in v T)). apply iaction_eqb_eq in H.
  unfold isoformat_src. rewrite H. destruct v; try discriminate; reflexivity.
Qed.

Lemma q_equiv_ok : forall a b, q_equiv a b = true -> forall v, eval_q a (kind_of v) = eval_q b (kind_of v).
Proof.
  intros a b H v. unfold q_equiv in H. rewrite forallb_forall in H. apply eqb_prop. apply H. apply kdesc_in.
Qed.

Lemma usteps_equiv_run : forall rt a b, usteps_equiv a b = true -> forall v, run_usteps rt a v = run_usteps rt b v.
Proof.
  intros rt a; induction a as [|x r IH]; intros b H v; destruct b as [|y s]; simpl in H; try discriminate.
  - reflexivity.
  - apply andb_true_iff in H as [Hx Hr].
    destruct x as [g|g c], y as [h|h c']; simpl in Hx; try discriminate; simpl.
    + rewrite (q_equiv_ok _ _ Hx v). destruct (eval_q h (kind_of v)); [reflexivity | apply IH; exact Hr].
    + apply andb_true_iff in Hx as [Hg Hc]. apply uconv_eqb_eq in Hc; subst c'.
      rewrite (q_equiv_ok _ _ Hg v). destruct (eval_q h (kind_of v)); [|apply IH; exact Hr].
      destruct c; try reflexivity. destruct v; try reflexivity. apply IH; exact Hr.
Qed.

Lemma canonical_unixtime_ok : forall rt v, is_temporal v = true -> run_usteps rt canonical_unixtime v = unixtime rt v.
Proof. intros rt v T; destruct v; try discriminate; reflexivity. Qed.

Lemma usteps_sound : forall steps, usteps_equiv steps canonical_unixtime = true ->
  forall rt v, is_temporal v = true -> run_usteps rt steps v = unixtime rt v.
Proof. intros steps H rt v T. rewrite (usteps_equiv_run rt _ _ H). apply canonical_unixtime_ok; exact T. Qed.

(* witnesses *)
Definition good_iladder : qladder iaction := [(QInst [DDate; DTime], IOwn)].
Lemma good_time_ok : iladder_ok good_iladder IDuration = true /\ usteps_equiv canonical_unixtime canonical_unixtime = true.
Proof. split; vm_compute; reflexivity. Qed.

(* the date test without `and not isinstance(dt, datetime)`: a datetime is cut down to its date *)
Definition date_eats_datetime : list ustep :=
  [UReturnTotal (QInst [DTimeDelta]); URebind (QInst [DTime]) CNowReplace; URebind (QInst [DDate]) CMidnightUTC].
Definition some_dt : dtf := {| dy := 2020; dmo := 1; dd := 2; dh := 3; dmi := 4; ds := 5; dus := 6; doff := None; dfold := 0 |}.
Lemma date_eats_datetime_refuted : forall rt,
  usteps_equiv date_eats_datetime canonical_unixtime = false /\
  run_usteps rt date_eats_datetime (VDateTime some_dt) = Unmodelled /\
  unixtime rt (VDateTime some_dt) = timestamp rt some_dt.
Proof. intros rt; repeat split; reflexivity. Qed.

(* isoformat testing only datetime.time: a date is handed to the duration writer *)
Lemma iso_date_missing_refuted : forall rt,
  iladder_ok [(QInst [DTime], IOwn)] IDuration = false /\
  isoformat_src [(QInst [DTime], IOwn)] IDuration rt (VDate 2020 1 2) = None.
Proof. intros rt; split; reflexivity. Qed.
